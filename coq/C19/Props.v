(* C19 property theorems: statements only, each closed by `exact`, with Print Assumptions. *)
From Coq Require Import ZArith QArith Qabs List Bool Permutation.
From QE Require Import Base.Num C19.Model C19.Proofs C19.Proofs2 C19.Proofs3 C19.Findings.
Import ListNotations.
Open Scope Q_scope.

(* ---- Gini coefficient (guard: non-empty sample with non-zero total, otherwise the code returns nan) *)
Theorem C19_gini_def : forall y, (0 < length y)%nat -> ~ sum_list y == 0 ->
  gini y == mad y / (2 * mean y).
Proof. exact gini_def. Qed.
Print Assumptions C19_gini_def.

Theorem C19_gini_perm : forall y y', Permutation y y' -> gini y == gini y'.
Proof. exact gini_perm. Qed.
Print Assumptions C19_gini_perm.

Theorem C19_gini_scale : forall c y, 0 < c -> (0 < length y)%nat -> ~ sum_list y == 0 ->
  gini (map (Qmult c) y) == gini y.
Proof. exact gini_scale. Qed.
Print Assumptions C19_gini_scale.

(* gini = 1 - 2 * (trapezoid area under the Lorenz curve) *)
Theorem C19_gini_lorenz : forall y, (0 < length y)%nat -> ~ sum_list y == 0 ->
  gini y == 1 - 2 * trapz (fst (lorenz y)) (snd (lorenz y)).
Proof. exact gini_lorenz. Qed.
Print Assumptions C19_gini_lorenz.

(* the Lorenz curve runs from (0,0) to (1,1), is non-decreasing and convex *)
Theorem C19_lorenz_shape : forall y, (0 < length y)%nat -> Forall (fun v => 0 <= v) y -> 0 < sum_list y ->
  let n := length y in
  let cp := fst (lorenz y) in let ci := snd (lorenz y) in
  length cp = S n /\ length ci = S n /\
  getQ cp 0 == 0 /\ getQ ci 0 == 0 /\ getQ cp n == 1 /\ getQ ci n == 1 /\
  (forall i, (i < n)%nat -> getQ cp i <= getQ cp (S i) /\ getQ ci i <= getQ ci (S i)) /\
  (forall i, (S i < n)%nat -> getQ ci (S i) - getQ ci i <= getQ ci (S (S i)) - getQ ci (S i)).
Proof. exact lorenz_shape. Qed.
Print Assumptions C19_lorenz_shape.

Example ex_gini : let y := [1; 2; 2; 0; 5 # 2] in
  (0 < length y)%nat /\ Forall (fun v => 0 <= v) y /\ 0 < sum_list y /\ Qeq_bool (gini y) (8 # 25) = true.
Proof. cbv zeta. split; [cbn; auto with arith|]. split; [repeat constructor; discriminate|]. split; reflexivity. Qed.

(* ---- ECDF: fraction of observations <= x *)
Theorem C19_ecdf_spec : forall obs x,
  ecdf obs x == natQ (length (filter (fun o => Qle_bool o x) obs)) / natQ (length obs) /\
  forall o, In o (filter (fun o => Qle_bool o x) obs) <-> In o obs /\ o <= x.
Proof. exact ecdf_full_spec. Qed.
Print Assumptions C19_ecdf_spec.

(* ---- ARMA impulse response with the repaired set_params: psi_0 = 1 and the ARMA recursion, ALL p, q
   (scalar or list parameters, any padding case p<q, p=q, p>q) *)
Theorem C19_arma_impulse_spec : forall phi theta n,
  exists psi, impulse_response phi theta n = Some psi /\ length psi = n /\
    forall j, (j < n)%nat ->
      getQ psi j == (if (j =? 0)%nat then 1 else getQ (as_list theta) (j - 1)) + arsum (as_list phi) psi j.
Proof. exact arma_impulse_spec. Qed.
Print Assumptions C19_arma_impulse_spec.

(* the set_params of the tree before commit 8cad833 (faithful model in Findings.v) violates it: finding D6 *)
Theorem C19_arma_impulse_refuted :
  exists phi theta n psi,
    impulse_response_old phi theta n = Some psi /\ (0 < n)%nat /\
    getQ psi 0 == 0 /\ ~ getQ psi 0 == 1 /\ getQ psi 1 == 1 /\ getQ psi 2 == 4 # 5.
Proof. exact arma_impulse_refuted. Qed.
Print Assumptions C19_arma_impulse_refuted.

(* ---- Hamilton filter, regression variant: the trend is X b with b solving the normal equations X'X b = X'y,
   it is undefined (NaN) exactly on the first p+h-1 dates, and cycle + trend = data wherever defined *)
Theorem C19_hamilton_spec : forall y h p cycle trend,
  hamilton y h (Some p) = Some (cycle, trend) ->
  let T := length y in
  let X := ham_X y h p in
  (1 <= p + h <= T)%nat /\
  exists b,
    (forall i, getQ (mat_vec (XtX X (S p)) b) i == getQ (Xty X (ham_target y h p) (S p)) i) /\
    length trend = T /\ length cycle = T /\
    forall t, (t < T)%nat ->
      ((t < p + h - 1)%nat -> nth t cycle None = None /\ nth t trend None = None) /\
      ((p + h - 1 <= t)%nat ->
         exists c tr, nth t cycle None = Some c /\ nth t trend None = Some tr /\
                      tr = dotQ (nth (t - (p + h - 1)) X []) b /\ c + tr == getQ y t).
Proof. exact hamilton_spec_reg. Qed.
Print Assumptions C19_hamilton_spec.

(* row r of X belongs to date t = p+h-1+r and holds (1, y_{t-h}, ..., y_{t-h-p+1}) *)
Theorem C19_hamilton_regressors : forall y h p r, (r < ham_rows (length y) h p)%nat ->
  nth r (ham_X y h p) [] = 1 :: map (fun j => getQ y (p - j + r)) (seq 1 p).
Proof. exact ham_X_row. Qed.
Print Assumptions C19_hamilton_regressors.

(* random-walk variant: cycle_t = y_t - y_{t-h}, undefined on the first h dates *)
Theorem C19_hamilton_rw_spec : forall y h cycle trend,
  hamilton y h None = Some (cycle, trend) ->
  let T := length y in
  (h <= T)%nat /\ length cycle = T /\ length trend = T /\
  forall t, (t < T)%nat ->
    ((t < h)%nat -> nth t cycle None = None /\ nth t trend None = None) /\
    ((h <= t)%nat ->
       exists c tr, nth t cycle None = Some c /\ nth t trend None = Some tr /\
                    c == getQ y t - getQ y (t - h) /\ c + tr == getQ y t).
Proof. exact hamilton_spec_rw. Qed.
Print Assumptions C19_hamilton_rw_spec.

Example ex_hamilton :
  exists c t, hamilton [1; 3; 2; 5; 4; 6; 8; 7; 9; 12; 10; 13] 2 (Some 2%nat) = Some (c, t) /\
              nth 2 t None = None /\ nth 3 t None <> None.
Proof. eexists. eexists. split; [vm_compute; reflexivity|]. split; [reflexivity|discriminate]. Qed.

(* ---- periodogram: retained frequencies (fractions of 2 pi) are exactly j/n with 2j <= n, in order,
   and the k-th value is |DFT_k|^2 / n *)
Theorem C19_periodogram_indices : forall dft : list (Q * Q),
  let n := length dft in
  map fst (periodogram dft) =
  map (fun j => natQ j / natQ n) (filter (fun j => (2 * j <=? n)%nat) (seq 0 n)).
Proof. exact periodogram_indices. Qed.
Print Assumptions C19_periodogram_indices.

Theorem C19_periodogram_value : forall (dft : list (Q * Q)) k, (k < length (periodogram dft))%nat ->
  let n := length dft in
  let c := nth k dft (0, 0) in
  fst (nth k (periodogram dft) (0, 0)) == natQ k / natQ n /\
  snd (nth k (periodogram dft) (0, 0)) == (fst c * fst c + snd c * snd c) / natQ n.
Proof. exact periodogram_value. Qed.
Print Assumptions C19_periodogram_value.

(* ---- BetaBinomial (a, b > 0 rational): the pdf binom(n,k) B(k+a,n-k+b)/B(a,b) written with rising factorials
   is a probability vector (Chu-Vandermonde), and mean / var / skew are the moments of that pdf.
   skew = t1 * sqrt(t2sq) involves a square root: the rational content is  mu3 = t1 * var/(a+b)  and
   t2sq * var * (a+b)^2 = 1, i.e. t1 * sqrt(t2sq) = mu3 / var^(3/2). *)
Theorem C19_betabinom_pdf_sums_to_one : forall n a b, 0 < a -> 0 < b ->
  length (bb_pdf n a b) = S n /\ Forall (fun v => 0 <= v) (bb_pdf n a b) /\ sum_list (bb_pdf n a b) == 1.
Proof. exact bb_pdf_prob_vector. Qed.
Print Assumptions C19_betabinom_pdf_sums_to_one.

Theorem C19_betabinom_pdf_entry : forall n a b k, (k <= n)%nat ->
  getQ (bb_pdf n a b) k == inject_Z (Cb n k) * rf a k * rf b (n - k) / rf (a + b) n.
Proof. exact bb_pdf_nth. Qed.
Print Assumptions C19_betabinom_pdf_entry.

Theorem C19_betabinom_mean : forall n a b, 0 < a -> 0 < b ->
  sum_list (map (fun k => natQ k * getQ (bb_pdf n a b) k) (seq 0 (S n))) == bb_mean n a b.
Proof. exact bb_mean_spec. Qed.
Print Assumptions C19_betabinom_mean.

Theorem C19_betabinom_var : forall n a b, 0 < a -> 0 < b ->
  sum_list (map (fun k => (natQ k - bb_mean n a b) * (natQ k - bb_mean n a b) * getQ (bb_pdf n a b) k) (seq 0 (S n)))
  == bb_var n a b.
Proof. exact bb_var_spec. Qed.
Print Assumptions C19_betabinom_var.

Theorem C19_betabinom_skew : forall n a b, 0 < a -> 0 < b ->
  sum_list (map (fun k => (natQ k - bb_mean n a b) * (natQ k - bb_mean n a b) * (natQ k - bb_mean n a b)
                          * getQ (bb_pdf n a b) k) (seq 0 (S n)))
  == bb_skew_t1 n a b * bb_var n a b / (a + b) /\
  ((0 < n)%nat -> bb_skew_t2sq n a b * bb_var n a b * ((a + b) * (a + b)) == 1).
Proof. exact bb_skew_spec. Qed.
Print Assumptions C19_betabinom_skew.

Example ex_betabinom_instances :
  Qeq_bool (sum_list (bb_pdf 7 (3 # 4) (5 # 2))) 1 = true /\
  Qeq_bool (sum_list (map (fun k => natQ k * getQ (bb_pdf 7 (3 # 4) (5 # 2)) k) (seq 0 8))) (bb_mean 7 (3 # 4) (5 # 2)) = true.
Proof. vm_compute. repeat split; reflexivity. Qed.

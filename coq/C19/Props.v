From Coq Require Import ZArith QArith Qabs List Bool.
From QE Require Import Base.Num C19.Model C19.Proofs.
Import ListNotations.
Open Scope Q_scope.

Theorem C19_sumQ_cons : forall x l, sumQ (x :: l) == x + sumQ l.
Proof. exact sumQ_cons. Qed.
Print Assumptions C19_sumQ_cons.

(* C19 proofs, part 3: the Beta-binomial pdf sums to one (Chu-Vandermonde for rising factorials). *)
From Coq Require Import ZArith QArith Qabs List Bool Lia Lqa Setoid Morphisms.
From QE Require Import Base.Num C19.Model C19.Proofs.
Import ListNotations.
Open Scope Q_scope.

Definition Cb (n k : nat) : Z := nth k (pascal_row n) 0%Z.

Lemma zip_add_length : forall a b, length a = length b -> length (zip_add a b) = length a.
Proof. induction a as [|x a IH]; intros [|y b] L; cbn in *; try discriminate; auto. Qed.
Lemma zip_add_nth : forall a b k, length a = length b ->
  nth k (zip_add a b) 0%Z = (nth k a 0 + nth k b 0)%Z.
Proof.
  induction a as [|x a IH]; intros [|y b] k L; cbn [length] in L; try discriminate.
  - destruct k; reflexivity.
  - destruct k as [|k]; cbn [zip_add nth]; [reflexivity|]. apply IH. lia.
Qed.
Lemma pascal_length n : length (pascal_row n) = S n.
Proof.
  induction n as [|n IH]; [reflexivity|]. cbn [pascal_row].
  rewrite zip_add_length; cbn [length]; rewrite ?app_length; cbn [length]; lia.
Qed.
Lemma nth_app_zero (r : list Z) k : nth k (r ++ [0%Z]) 0%Z = nth k r 0%Z.
Proof.
  destruct (Nat.lt_ge_cases k (length r)) as [H|H].
  - apply app_nth1. assumption.
  - rewrite app_nth2 by assumption. rewrite (nth_overflow r) by assumption.
    destruct (k - length r)%nat as [|[|m]]; reflexivity.
Qed.
Lemma Cb_S n k : Cb (S n) k = ((match k with O => 0 | S k' => Cb n k' end) + Cb n k)%Z.
Proof.
  unfold Cb. cbn [pascal_row]. rewrite zip_add_nth by (cbn [length]; rewrite app_length; cbn [length]; lia).
  rewrite nth_app_zero. destruct k; reflexivity.
Qed.
Lemma Cb_over n k : (n < k)%nat -> Cb n k = 0%Z.
Proof. intro H. unfold Cb. apply nth_overflow. rewrite pascal_length. lia. Qed.

Lemma rf_S x m : rf x (S m) = rf x m * (x + natQ m).
Proof. reflexivity. Qed.
Lemma rf_pos x m : 0 < x -> 0 < rf x m.
Proof.
  intro Hx. induction m as [|m IH]; [reflexivity|]. rewrite rf_S.
  apply Qmult_lt_0_compat; [assumption|]. pose proof (natQ_nonneg m). lra.
Qed.

Lemma rf_from_nth x : forall m k j, (j < m)%nat -> nth j (rf_from x (rf x k) k m) 0 = rf x (k + j).
Proof.
  induction m as [|m IH]; intros k j Hj; [lia|]. cbn [rf_from].
  destruct j as [|j]; cbn [nth]; [rewrite Nat.add_0_r; reflexivity|].
  rewrite <- rf_S. rewrite IH by lia. f_equal. lia.
Qed.
Lemma rf_table_nth x n j : (j <= n)%nat -> getQ (rf_table x n) j = rf x j.
Proof. intro H. unfold getQ, rf_table. change 1 with (rf x 0). rewrite rf_from_nth by lia. reflexivity. Qed.

(* sums over index ranges *)
Lemma sum_seq_S_last (f : nat -> Q) m : sum_list (map f (seq 0 (S m))) == sum_list (map f (seq 0 m)) + f m.
Proof. rewrite seq_S, map_app, sum_list_app. cbn [map sum_list plus]. ring. Qed.
Lemma sum_seq_S_first (f : nat -> Q) m : sum_list (map f (seq 0 (S m))) == f 0%nat + sum_list (map (fun k => f (S k)) (seq 0 m)).
Proof. cbn [seq map sum_list]. rewrite <- seq_shift, map_map. reflexivity. Qed.
Lemma sum_list_plus {A} (f g : A -> Q) l :
  sum_list (map (fun x => f x + g x) l) == sum_list (map f l) + sum_list (map g l).
Proof. induction l as [|x l IH]; cbn [map sum_list]; [ring|]. rewrite IH. ring. Qed.

Definition cv_sum (n : nat) (a b : Q) : Q :=
  sum_list (map (fun k => inject_Z (Cb n k) * rf a k * rf b (n - k)) (seq 0 (S n))).

Lemma natQ_sub_add n k : (k <= n)%nat -> natQ (n - k) + natQ k == natQ n.
Proof. intro H. rewrite <- natQ_add. replace (n - k + k)%nat with n by lia. reflexivity. Qed.

(* Chu-Vandermonde: sum_k C(n,k) a^(k) b^(n-k) = (a+b)^(n) *)
Lemma chu_vandermonde a b : forall n, cv_sum n a b == rf (a + b) n.
Proof.
  induction n as [|n IH].
  - unfold cv_sum. cbn. ring.
  - rewrite rf_S, <- IH. unfold cv_sum.
    set (T := fun k => inject_Z (Cb n k) * rf a k * rf b (n - k)).
    assert (E1 : sum_list (map (fun k => inject_Z (Cb (S n) k) * rf a k * rf b (S n - k)) (seq 0 (S (S n))))
                 == sum_list (map (fun k => T k * (a + natQ k)) (seq 0 (S n)))
                    + sum_list (map (fun k => T k * (b + natQ (n - k))) (seq 0 (S n)))).
    { rewrite (sum_list_ext _ (fun k => inject_Z (match k with O => 0 | S k' => Cb n k' end) * rf a k * rf b (S n - k)
                                        + inject_Z (Cb n k) * rf a k * rf b (S n - k))).
      2:{ intros k _. rewrite Cb_S, inject_Z_plus. ring. }
      rewrite sum_list_plus.
      rewrite (sum_seq_S_first (fun k => inject_Z (match k with O => 0%Z | S k' => Cb n k' end) * rf a k * rf b (S n - k))).
      rewrite (sum_seq_S_last (fun k => inject_Z (Cb n k) * rf a k * rf b (S n - k)) (S n)).
      rewrite (Cb_over n (S n)) by lia.
      rewrite (sum_list_ext (fun k => inject_Z (Cb n k) * rf a (S k) * rf b (S n - S k))
                            (fun k => T k * (a + natQ k))).
      2:{ intros k Hk. unfold T. rewrite rf_S. replace (S n - S k)%nat with (n - k)%nat by lia. ring. }
      rewrite (sum_list_ext (fun k => inject_Z (Cb n k) * rf a k * rf b (S n - k))
                            (fun k => T k * (b + natQ (n - k)))).
      2:{ intros k Hk. apply in_seq in Hk. unfold T. replace (S n - k)%nat with (S (n - k)) by lia. rewrite rf_S. ring. }
      change (inject_Z 0) with 0. ring. }
    rewrite E1, <- sum_list_plus.
    rewrite (Qmult_comm (sum_list _)). rewrite <- sum_list_scale.
    apply sum_list_ext. intros k Hk. apply in_seq in Hk.
    pose proof (natQ_sub_add n k ltac:(lia)) as E.
    setoid_replace (a + b + natQ n) with (a + b + (natQ (n - k) + natQ k)) by (rewrite E; reflexivity).
    fold (T k). ring.
Qed.

Lemma bb_pdf_nth n a b k : (k <= n)%nat ->
  getQ (bb_pdf n a b) k == inject_Z (Cb n k) * rf a k * rf b (n - k) / rf (a + b) n.
Proof.
  intro Hk. unfold bb_pdf, getQ at 1. rewrite nth_map_seq by lia. cbn [plus].
  rewrite Qred_correct, !rf_table_nth by lia. reflexivity.
Qed.

Lemma bb_pdf_sums_to_one n a b : 0 < a -> 0 < b -> sum_list (bb_pdf n a b) == 1.
Proof.
  intros Ha Hb. pose proof (rf_pos (a + b) n ltac:(lra)) as Hd.
  unfold bb_pdf.
  rewrite (sum_list_ext _ (fun k => (/ rf (a + b) n) * (inject_Z (Cb n k) * rf a k * rf b (n - k)))).
  - rewrite sum_list_scale. fold (cv_sum n a b). rewrite chu_vandermonde. field. lra.
  - intros k Hk. apply in_seq in Hk. rewrite Qred_correct, !rf_table_nth by lia. unfold Cb. field. lra.
Qed.

Lemma bb_pdf_nonneg n a b : 0 < a -> 0 < b -> Forall (fun v => 0 <= v) (bb_pdf n a b).
Proof.
  intros Ha Hb. unfold bb_pdf. apply Forall_forall. intros v Hv. apply in_map_iff in Hv.
  destruct Hv as (k & <- & Hk). apply in_seq in Hk. rewrite Qred_correct, !rf_table_nth by lia.
  pose proof (rf_pos (a + b) n ltac:(lra)). pose proof (rf_pos a k Ha). pose proof (rf_pos b (n - k) Hb).
  assert (HC : 0 <= inject_Z (nth k (pascal_row n) 0%Z)).
  { change 0 with (inject_Z 0). rewrite <- Zle_Qle. fold (Cb n k).
    clear. revert k. induction n as [|n IH]; intro k.
    - unfold Cb. destruct k as [|[|k]]; cbn; lia.
    - rewrite Cb_S. destruct k; [pose proof (IH 0%nat)|pose proof (IH k); pose proof (IH (S k))]; lia. }
  apply Qle_shift_div_l; [assumption|]. rewrite Qmult_0_l.
  apply Qmult_le_0_compat; [apply Qmult_le_0_compat|]; lra.
Qed.

(* ------------------------------------------------------------------ mean of the Beta-binomial pdf *)
Lemma Cb_0 n : Cb n 0 = 1%Z.
Proof. induction n as [|n IH]; [reflexivity|]. rewrite Cb_S, IH. reflexivity. Qed.

(* absorption: (k+1) C(n,k+1) = (n-k) C(n,k) as an identity over Z *)
Lemma Cb_absorb : forall n k, (Cb n (S k) * Z.of_nat (S k) = Cb n k * (Z.of_nat n - Z.of_nat k))%Z.
Proof.
  induction n as [|n IH]; intro k.
  - rewrite (Cb_over 0 (S k)) by lia. destruct k; [reflexivity|]. rewrite (Cb_over 0 (S k)) by lia. lia.
  - rewrite (Cb_S n (S k)), (Cb_S n k). destruct k as [|k].
    + pose proof (IH 0%nat) as H. rewrite Cb_0 in *. lia.
    + pose proof (IH (S k)) as H1. pose proof (IH k) as H2. nia.
Qed.
(* k C(n,k) = n C(n-1,k-1) *)
Lemma Cb_absorb2 n k : (Cb (S n) (S k) * Z.of_nat (S k) = Z.of_nat (S n) * Cb n k)%Z.
Proof. rewrite Cb_S. pose proof (Cb_absorb n k). nia. Qed.

Lemma rf_shift x : forall m, rf x (S m) == x * rf (x + 1) m.
Proof.
  induction m as [|m IH]; [rewrite rf_S; cbn [rf]; change (natQ 0) with 0; ring|]. rewrite rf_S, IH, (rf_S (x + 1) m), natQ_S. ring.
Qed.

Lemma rf_proper x x' m : x == x' -> rf x m == rf x' m.
Proof. intro E. induction m as [|m IH]; [reflexivity|]. rewrite !rf_S, IH, E. reflexivity. Qed.

Definition bb_moment1 (n : nat) (a b : Q) : Q :=
  sum_list (map (fun k => natQ k * getQ (bb_pdf n a b) k) (seq 0 (S n))).

Lemma cv_moment1 n a b :
  sum_list (map (fun k => natQ k * (inject_Z (Cb (S n) k) * rf a k * rf b (S n - k))) (seq 0 (S (S n))))
  == natQ (S n) * a * rf (a + 1 + b) n.
Proof.
  rewrite sum_seq_S_first. change (natQ 0) with 0.
  rewrite (sum_list_ext _ (fun k => (natQ (S n) * a) * (inject_Z (Cb n k) * rf (a + 1) k * rf b (n - k)))).
  - rewrite sum_list_scale. fold (cv_sum n (a + 1) b). rewrite chu_vandermonde. ring.
  - intros k Hk. rewrite rf_shift. replace (S n - S k)%nat with (n - k)%nat by lia.
    assert (E : natQ (S k) * inject_Z (Cb (S n) (S k)) == natQ (S n) * inject_Z (Cb n k)).
    { unfold natQ. rewrite <- !inject_Z_mult. apply inject_Z_injective. pose proof (Cb_absorb2 n k). lia. }
    transitivity ((natQ (S k) * inject_Z (Cb (S n) (S k))) * (a * rf (a + 1) k * rf b (n - k))); [ring|].
    rewrite E. ring.
Qed.

Lemma bb_mean_spec n a b : 0 < a -> 0 < b -> bb_moment1 n a b == bb_mean n a b.
Proof.
  intros Ha Hb. unfold bb_moment1, bb_mean.
  pose proof (rf_pos (a + b) n ltac:(lra)) as Hd.
  rewrite (sum_list_ext _ (fun k => (/ rf (a + b) n) * (natQ k * (inject_Z (Cb n k) * rf a k * rf b (n - k))))).
  2:{ intros k Hk. apply in_seq in Hk. rewrite bb_pdf_nth by lia. field. lra. }
  rewrite sum_list_scale. destruct n as [|n].
  - cbn. change (natQ 0) with 0. field. lra.
  - rewrite cv_moment1. rewrite (rf_shift (a + b) n).
    rewrite (rf_proper (a + 1 + b) (a + b + 1) n) by ring.
    pose proof (rf_pos (a + b + 1) n ltac:(lra)). field. split; lra.
Qed.

(* ------------------------------------------------------------------ variance of the Beta-binomial pdf *)
Definition bb_moment2c (n : nat) (a b : Q) : Q :=
  sum_list (map (fun k => (natQ k - bb_mean n a b) * (natQ k - bb_mean n a b) * getQ (bb_pdf n a b) k) (seq 0 (S n))).

(* second factorial moment of the unnormalised weights *)
Lemma cv_moment2 m a b :
  sum_list (map (fun k => natQ k * (natQ k - 1) * (inject_Z (Cb (S (S m)) k) * rf a k * rf b (S (S m) - k)))
                (seq 0 (S (S (S m)))))
  == natQ (S (S m)) * natQ (S m) * a * (a + 1) * rf (a + 1 + 1 + b) m.
Proof.
  rewrite sum_seq_S_first. change (natQ 0) with 0.
  rewrite (sum_list_ext _ (fun k => (natQ (S (S m)) * a) * (natQ k * (inject_Z (Cb (S m) k) * rf (a + 1) k * rf b (S m - k))))).
  - rewrite sum_list_scale, cv_moment1. ring.
  - intros k Hk. rewrite rf_shift. replace (S (S m) - S k)%nat with (S m - k)%nat by lia.
    assert (E : natQ (S k) * inject_Z (Cb (S (S m)) (S k)) == natQ (S (S m)) * inject_Z (Cb (S m) k)).
    { unfold natQ. rewrite <- !inject_Z_mult. apply inject_Z_injective. pose proof (Cb_absorb2 (S m) k). lia. }
    transitivity ((natQ (S k) * inject_Z (Cb (S (S m)) (S k))) * ((natQ (S k) - 1) * (a * rf (a + 1) k * rf b (S m - k)))); [ring|].
    rewrite E, (natQ_S k). ring.
Qed.

Lemma bb_var_spec n a b : 0 < a -> 0 < b -> bb_moment2c n a b == bb_var n a b.
Proof.
  intros Ha Hb. unfold bb_moment2c. set (mu := bb_mean n a b).
  pose proof (rf_pos (a + b) n ltac:(lra)) as Hd.
  set (T := fun k => inject_Z (Cb n k) * rf a k * rf b (n - k)).
  (* (k - mu)^2 = k(k-1) + (1 - 2 mu) k + mu^2 *)
  rewrite (sum_list_ext _ (fun k => (/ rf (a + b) n) * (natQ k * (natQ k - 1) * T k)
                                     + ((1 - 2 * mu) * (natQ k * getQ (bb_pdf n a b) k)
                                        + (mu * mu / rf (a + b) n) * T k))).
  2:{ intros k Hk. apply in_seq in Hk. rewrite bb_pdf_nth by lia. fold (T k). field. lra. }
  rewrite sum_list_plus, (sum_list_plus (fun k => (1 - 2 * mu) * (natQ k * getQ (bb_pdf n a b) k))).
  rewrite !sum_list_scale. fold (bb_moment1 n a b). rewrite bb_mean_spec by assumption. fold mu.
  unfold T at 2. fold (cv_sum n a b). rewrite chu_vandermonde.
  unfold mu, bb_mean, bb_var, T.
  destruct n as [|[|m]].
  - cbn [seq map sum_list]. change (natQ 0) with 0. field. split; lra.
  - cbn [seq map sum_list]. change (natQ 0) with 0. change (natQ 1) with 1.
    cbn [rf] in *. change (natQ 0) with 0 in *. field. split; lra.
  - rewrite cv_moment2.
    rewrite (rf_shift (a + b) (S m)), (rf_shift (a + b + 1) m).
    rewrite (rf_proper (a + 1 + 1 + b) (a + b + 1 + 1) m) by ring.
    pose proof (rf_pos (a + b + 1 + 1) m ltac:(lra)).
    rewrite (natQ_S (S m)). field. repeat split; lra.
Qed.

(* ------------------------------------------------------------------ third central moment (skewness without the square root) *)
Definition bb_moment3c (n : nat) (a b : Q) : Q :=
  sum_list (map (fun k => (natQ k - bb_mean n a b) * (natQ k - bb_mean n a b) * (natQ k - bb_mean n a b)
                          * getQ (bb_pdf n a b) k) (seq 0 (S n))).

Lemma cv_moment3 m a b :
  sum_list (map (fun k => natQ k * (natQ k - 1) * (natQ k - 2) * (inject_Z (Cb (S (S (S m))) k) * rf a k * rf b (S (S (S m)) - k)))
                (seq 0 (S (S (S (S m))))))
  == natQ (S (S (S m))) * natQ (S (S m)) * natQ (S m) * a * (a + 1) * (a + 1 + 1) * rf (a + 1 + 1 + 1 + b) m.
Proof.
  rewrite sum_seq_S_first. change (natQ 0) with 0.
  rewrite (sum_list_ext _ (fun k => (natQ (S (S (S m))) * a)
             * (natQ k * (natQ k - 1) * (inject_Z (Cb (S (S m)) k) * rf (a + 1) k * rf b (S (S m) - k))))).
  - rewrite sum_list_scale, cv_moment2. ring.
  - intros k Hk. rewrite rf_shift. replace (S (S (S m)) - S k)%nat with (S (S m) - k)%nat by lia.
    assert (E : natQ (S k) * inject_Z (Cb (S (S (S m))) (S k)) == natQ (S (S (S m))) * inject_Z (Cb (S (S m)) k)).
    { unfold natQ. rewrite <- !inject_Z_mult. apply inject_Z_injective. pose proof (Cb_absorb2 (S (S m)) k). lia. }
    transitivity ((natQ (S k) * inject_Z (Cb (S (S (S m))) (S k)))
                  * ((natQ (S k) - 1) * (natQ (S k) - 2) * (a * rf (a + 1) k * rf b (S (S m) - k)))); [ring|].
    rewrite E, (natQ_S k). ring.
Qed.

Lemma bb_moment3_spec n a b : 0 < a -> 0 < b ->
  bb_moment3c n a b == bb_skew_t1 n a b * bb_var n a b / (a + b).
Proof.
  intros Ha Hb. unfold bb_moment3c. set (mu := bb_mean n a b).
  pose proof (rf_pos (a + b) n ltac:(lra)) as Hd.
  set (T := fun k => inject_Z (Cb n k) * rf a k * rf b (n - k)).
  rewrite (sum_list_ext _ (fun k => (/ rf (a + b) n) * (natQ k * (natQ k - 1) * (natQ k - 2) * T k)
                                     + (((3 - 3 * mu) / rf (a + b) n) * (natQ k * (natQ k - 1) * T k)
                                        + ((1 - 3 * mu + 3 * mu * mu) * (natQ k * getQ (bb_pdf n a b) k)
                                           + (- (mu * mu * mu) / rf (a + b) n) * T k)))).
  2:{ intros k Hk. apply in_seq in Hk. rewrite bb_pdf_nth by lia. fold (T k). field. lra. }
  rewrite sum_list_plus,
          (sum_list_plus (fun k => ((3 - 3 * mu) / rf (a + b) n) * (natQ k * (natQ k - 1) * T k))),
          (sum_list_plus (fun k => (1 - 3 * mu + 3 * mu * mu) * (natQ k * getQ (bb_pdf n a b) k))).
  rewrite !sum_list_scale. fold (bb_moment1 n a b). rewrite bb_mean_spec by assumption. fold mu.
  unfold T at 3. fold (cv_sum n a b). rewrite chu_vandermonde.
  unfold mu, bb_mean, bb_var, bb_skew_t1, T.
  destruct n as [|[|[|m]]].
  - cbn [seq map sum_list]. change (natQ 0) with 0. field. repeat split; lra.
  - cbn [seq map sum_list]. change (natQ 0) with 0. change (natQ 1) with 1.
    cbn [rf] in *. change (natQ 0) with 0 in *. field. repeat split; lra.
  - rewrite cv_moment2. cbn [seq map sum_list]. change (natQ 0) with 0. change (natQ 1) with 1. change (natQ 2) with 2.
    cbn [rf] in *. change (natQ 0) with 0 in *. change (natQ 1) with 1 in *. field. repeat split; lra.
  - rewrite cv_moment3, cv_moment2.
    rewrite (rf_shift (a + b) (S (S m))), (rf_shift (a + b + 1) (S m)), (rf_shift (a + b + 1 + 1) m).
    rewrite (rf_proper (a + 1 + 1 + 1 + b) (a + b + 1 + 1 + 1) m) by ring.
    rewrite (rf_proper (a + 1 + 1 + b) (a + b + 1 + 1) (S m)) by ring.
    rewrite (rf_shift (a + b + 1 + 1) m).
    pose proof (rf_pos (a + b + 1 + 1 + 1) m ltac:(lra)).
    rewrite (natQ_S (S (S m))), (natQ_S (S m)).
    pose proof (natQ_nonneg m).
    field. repeat split; lra.
Qed.

(* skew = t1 * sqrt(t2sq): t2sq * var * (a+b)^2 = 1, so sqrt(t2sq) = 1/((a+b) sqrt(var)) and
   t1 * sqrt(t2sq) = mu3 / var^(3/2) by bb_moment3_spec *)
Lemma bb_skew_t2sq_spec n a b : 0 < a -> 0 < b -> (0 < n)%nat ->
  bb_skew_t2sq n a b * bb_var n a b * ((a + b) * (a + b)) == 1.
Proof.
  intros Ha Hb Hn. unfold bb_skew_t2sq, bb_var. pose proof (natQ_pos n Hn). field. repeat split; lra.
Qed.

Lemma bb_pdf_prob_vector n a b : 0 < a -> 0 < b ->
  length (bb_pdf n a b) = S n /\ Forall (fun v => 0 <= v) (bb_pdf n a b) /\ sum_list (bb_pdf n a b) == 1.
Proof.
  intros Ha Hb. split; [unfold bb_pdf; rewrite map_length, seq_length; reflexivity|].
  split; [exact (bb_pdf_nonneg n a b Ha Hb)|exact (bb_pdf_sums_to_one n a b Ha Hb)].
Qed.
Lemma bb_skew_spec n a b : 0 < a -> 0 < b ->
  bb_moment3c n a b == bb_skew_t1 n a b * bb_var n a b / (a + b) /\
  ((0 < n)%nat -> bb_skew_t2sq n a b * bb_var n a b * ((a + b) * (a + b)) == 1).
Proof. intros Ha Hb. exact (conj (bb_moment3_spec n a b Ha Hb) (bb_skew_t2sq_spec n a b Ha Hb)). Qed.

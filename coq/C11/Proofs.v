(* C11 proofs (exact instance NumQ, tolerance 0): the repaired initial ratio loop returns the last argmin
   of q_i/d_i; lcp_lemke success => z >= 0, w = Mz+q >= 0, z_j w_j = 0 for every j. *)
From Coq Require Import ZArith QArith List Bool Arith Lia Lqa Setoid Morphisms.
From QE Require Import Base.Num Base.Pivot Base.PivotProofs C11.Model.
Import ListNotations.
Open Scope Q_scope.

(* ------------------------------------------------------------------ initial ratio loop *)
Definition qd (q d : list Q) (i : nat) : Q := vget q i / vget d i.

Definition is_last_argmin (n : nat) (f : nat -> Q) (r : nat) : Prop :=
  (r < n)%nat /\ (forall i, (i < n)%nat -> f r <= f i) /\ (forall i, (r < i < n)%nat -> f r < f i).

Lemma init_row_loop_spec q d len s pivrow rmin :
  (pivrow < s)%nat -> rmin == qd q d pivrow ->
  (forall i, (i < s)%nat -> qd q d pivrow <= qd q d i) ->
  (forall i, (pivrow < i < s)%nat -> qd q d pivrow < qd q d i) ->
  is_last_argmin (s + len) (qd q d) (init_row_loop q d 0 (seq s len) pivrow rmin).
Proof.
  revert s pivrow rmin. induction len as [|len IH]; intros s pivrow rmin Hp Hr Hmin Hlast; cbn [seq init_row_loop].
  - rewrite Nat.add_0_r. split; [auto|split; auto].
  - replace (s + S len)%nat with (S s + len)%nat by lia.
    change (ndiv (vget q s) (vget d s)) with (Qdivr (vget q s) (vget d s)).
    change (nadd rmin 0) with (Qaddr rmin 0).
    assert (Es : Qdivr (vget q s) (vget d s) == qd q d s) by apply Qdivr_eq.
    destruct (nleb (Qdivr (vget q s) (vget d s)) (Qaddr rmin 0)) eqn:E.
    + apply nleb_le in E. rewrite Qaddr_eq, Es, Hr in E. apply IH; auto.
      * intros i Hi. destruct (Nat.eq_dec i s) as [->|]; [lra|]. specialize (Hmin i ltac:(lia)). lra.
      * intros i Hi. lia.
    + apply nleb_false in E. rewrite Qaddr_eq, Es, Hr in E. apply IH; auto.
      * intros i Hi. destruct (Nat.eq_dec i s) as [->|]; [lra|]. apply Hmin. lia.
      * intros i Hi. destruct (Nat.eq_dec i s) as [->|]; [lra|]. apply Hlast. lia.
Qed.

Lemma init_row_is_argmin n q d :
  (0 < n)%nat -> is_last_argmin n (qd q d) (init_row n q d 0).
Proof.
  intros Hn. unfold init_row. replace n with (1 + (n - 1))%nat at 1 by lia.
  apply init_row_loop_spec.
  - lia.
  - apply Qdivr_eq.
  - intros i Hi. replace i with 0%nat by lia. lra.
  - intros i Hi. lia.
Qed.

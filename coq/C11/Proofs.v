(* C11 proofs (exact instance NumQ, tolerance 0): the repaired initial ratio loop returns the last argmin
   of q_i/d_i; lcp_lemke success => z >= 0, w = Mz+q >= 0, z_j w_j = 0 for every j. *)
From Coq Require Import ZArith QArith List Bool Arith Lia Lqa Setoid Morphisms.
From QE Require Import Base.Num Base.Pivot Base.PivotProofs C11.Model.
Import ListNotations.
Open Scope Q_scope.

(* ------------------------------------------------------------------ initial ratio loop *)
Definition qd (q d : list Q) (i : nat) : Q := vget q i / vget d i.

Definition is_last_argmin (n : nat) (f : nat -> Q) (r : nat) : Prop :=
  (r < n)%nat /\ (forall i, (i < n)%nat -> f r <= f i) /\ (forall i, (r < i < n)%nat -> f r < f i).

Lemma init_row_loop_spec q d len s pivrow rmin :
  (pivrow < s)%nat -> rmin == qd q d pivrow ->
  (forall i, (i < s)%nat -> qd q d pivrow <= qd q d i) ->
  (forall i, (pivrow < i < s)%nat -> qd q d pivrow < qd q d i) ->
  is_last_argmin (s + len) (qd q d) (init_row_loop q d 0 (seq s len) pivrow rmin).
Proof.
  revert s pivrow rmin. induction len as [|len IH]; intros s pivrow rmin Hp Hr Hmin Hlast; cbn [seq init_row_loop].
  - rewrite Nat.add_0_r. split; [auto|split; auto].
  - replace (s + S len)%nat with (S s + len)%nat by lia.
    change (ndiv (vget q s) (vget d s)) with (Qdivr (vget q s) (vget d s)).
    change (nadd rmin 0) with (Qaddr rmin 0).
    assert (Es : Qdivr (vget q s) (vget d s) == qd q d s) by apply Qdivr_eq.
    destruct (nleb (Qdivr (vget q s) (vget d s)) (Qaddr rmin 0)) eqn:E.
    + apply nleb_le in E. rewrite Qaddr_eq, Es, Hr in E. apply IH; auto.
      * intros i Hi. destruct (Nat.eq_dec i s) as [->|]; [lra|]. specialize (Hmin i ltac:(lia)). lra.
      * intros i Hi. lia.
    + apply nleb_false in E. rewrite Qaddr_eq, Es, Hr in E. apply IH; auto.
      * intros i Hi. destruct (Nat.eq_dec i s) as [->|]; [lra|]. apply Hmin. lia.
      * intros i Hi. destruct (Nat.eq_dec i s) as [->|]; [lra|]. apply Hlast. lia.
Qed.

Lemma init_row_is_argmin n q d :
  (0 < n)%nat -> is_last_argmin n (qd q d) (init_row n q d 0).
Proof.
  intros Hn. unfold init_row. replace n with (1 + (n - 1))%nat at 1 by lia.
  apply init_row_loop_spec.
  - lia.
  - apply Qdivr_eq.
  - intros i Hi. replace i with 0%nat by lia. lra.
  - intros i Hi. lia.
Qed.
(* ------------------------------------------------------------------ specification *)
Definition wvec (n : nat) (M : matQ) (q z : list Q) (i : nat) : Q :=
  sumQ n (fun j => get M i j * vget z j) + vget q i.
Definition lcp_solution (n : nat) (M : matQ) (q z : list Q) : Prop :=
  (forall j, (j < n)%nat -> 0 <= vget z j) /\
  (forall i, (i < n)%nat -> 0 <= wvec n M q z i) /\
  (forall i, (i < n)%nat -> vget z i * wvec n M q z i == 0).

Lemma basis_distinct nr L (T : matQ) basis i i' :
  (L <= nr)%nat -> unit_cols nr L T basis -> (i < L)%nat -> (i' < L)%nat -> i <> i' ->
  nth i basis 0%nat <> nth i' basis 0%nat.
Proof.
  intros HL Hu Hi Hi' Hne E.
  pose proof (Hu i i Hi ltac:(lia)) as H1. pose proof (Hu i' i Hi' ltac:(lia)) as H2.
  rewrite E in H1. rewrite H1 in H2. rewrite Nat.eqb_refl in H2. destruct (Nat.eqb_spec i i'); [contradiction|]. lra.
Qed.

Lemma vget_set_nth (x : list Q) b v j :
  vget (set_nth x b v) j = if Nat.eqb j b then (if Nat.ltb b (length x) then v else vget x j) else vget x j.
Proof. unfold vget. apply nth_set_nth. Qed.
Lemma vget_repeat0 n j : vget (repeat (@nzero Q NumQ) n) j == 0.
Proof. unfold vget. revert j; induction n; intros [|j]; cbn; try reflexivity. apply IHn. Qed.

Lemma dec_exists_lt (P : nat -> Prop) n :
  (forall i, {P i} + {~ P i}) -> (exists i, (i < n)%nat /\ P i) \/ (forall i, (i < n)%nat -> ~ P i).
Proof.
  intros Hdec. induction n as [|n IH].
  - right. intros i Hi. lia.
  - destruct IH as [(i & Hi & HP)|Hno].
    + left. exists i. split; [lia|auto].
    + destruct (Hdec n) as [HP|HnP].
      * left. exists n. split; [lia|auto].
      * right. intros i Hi. destruct (Nat.eq_dec i n) as [->|]; auto. apply Hno. lia.
Qed.

Section Lemke.
Variables (n : nat) (M : matQ) (q d : list Q).
Hypothesis Hd : forall i, (i < n)%nat -> 0 < vget d i.
Let nc := (2 * n + 2)%nat.

Definition LT0 : matQ := fst (initialize_tableau n M q d).

Lemma wf_LT0 : wf n nc LT0.
Proof. apply wf_tab. Qed.
Lemma LT0_w i j : (i < n)%nat -> (j < n)%nat -> get LT0 i j == if Nat.eqb i j then 1 else 0.
Proof.
  intros Hi Hj. unfold LT0, initialize_tableau. cbn [fst]. rewrite get_tab by lia.
  destruct (Nat.ltb_spec j n); [|lia]. destruct (Nat.eqb i j); reflexivity.
Qed.
Lemma LT0_z i j : (i < n)%nat -> (j < n)%nat -> get LT0 i (n + j)%nat == - get M i j.
Proof.
  intros Hi Hj. unfold LT0, initialize_tableau. cbn [fst]. rewrite get_tab by lia.
  destruct (Nat.ltb_spec (n + j) n); [lia|]. destruct (Nat.ltb_spec (n + j) (2 * n)); [|lia].
  replace (n + j - n)%nat with j by lia. change (nsub nzero ?x) with (Qsubr 0 x). rewrite Qsubr_eq. ring.
Qed.
Lemma LT0_z0 i : (i < n)%nat -> get LT0 i (2 * n)%nat == - vget d i.
Proof.
  intros Hi. unfold LT0, initialize_tableau. cbn [fst]. rewrite get_tab by lia.
  destruct (Nat.ltb_spec (2 * n) n); [lia|]. destruct (Nat.ltb_spec (2 * n) (2 * n)); [lia|].
  rewrite Nat.eqb_refl. change (nsub nzero ?x) with (Qsubr 0 x). rewrite Qsubr_eq. ring.
Qed.
Lemma LT0_q i : (i < n)%nat -> get LT0 i (nc - 1)%nat == vget q i.
Proof.
  intros Hi. unfold LT0, initialize_tableau. cbn [fst]. rewrite get_tab by (unfold nc; lia).
  unfold nc. destruct (Nat.ltb_spec (2 * n + 2 - 1) n); [lia|]. destruct (Nat.ltb_spec (2 * n + 2 - 1) (2 * n)); [lia|].
  destruct (Nat.eqb_spec (2 * n + 2 - 1) (2 * n)); [lia|]. reflexivity.
Qed.

Definition pairv (v : nat) : nat := if Nat.ltb v n then v else (v - n)%nat.

Record lfin (T : matQ) (basis : list nat) : Prop := {
  lf_wf : wf n nc T;
  lf_len : length basis = n;
  lf_unit : unit_cols n n T basis;
  lf_sol : forall u, solves n nc T u -> solves n nc LT0 u;
  lf_rhs : forall i, (i < n)%nat -> 0 <= get T i (nc - 1)%nat;
  lf_bas : forall i, (i < n)%nat -> (nth i basis 0 < 2 * n)%nat;
  lf_compl : forall i i', (i < n)%nat -> (i' < n)%nat -> i <> i' ->
                          pairv (nth i basis 0%nat) <> pairv (nth i' basis 0%nat)
}.

Record linv (T : matQ) (basis : list nat) (pivcol : nat) : Prop := {
  li_wf : wf n nc T;
  li_len : length basis = n;
  li_unit : unit_cols n n T basis;
  li_sol : forall u, solves n nc T u -> solves n nc LT0 u;
  li_rhs : forall i, (i < n)%nat -> 0 <= get T i (nc - 1)%nat;
  li_bas : forall i, (i < n)%nat -> (nth i basis 0 <= 2 * n)%nat;
  li_pc : (pivcol < 2 * n)%nat;
  li_ac1 : forall i, (i < n)%nat -> (nth i basis 0 < 2 * n)%nat -> pairv (nth i basis 0%nat) <> pairv pivcol;
  li_ac2 : forall i i', (i < n)%nat -> (i' < n)%nat -> i <> i' ->
                        (nth i basis 0 < 2 * n)%nat -> (nth i' basis 0 < 2 * n)%nat ->
                        pairv (nth i basis 0%nat) <> pairv (nth i' basis 0%nat)
}.

Lemma pairv_compl v : (v < 2 * n)%nat -> pairv (if Nat.ltb v n then v + n else v - n)%nat = pairv v.
Proof.
  intros Hv. unfold pairv. destruct (Nat.ltb_spec v n).
  - destruct (Nat.ltb_spec (v + n) n); lia.
  - destruct (Nat.ltb_spec (v - n) n); lia.
Qed.

(* complementary pivoting keeps the invariant; success only when z0 has left the basis *)
Lemma lemke_loop_spec fuel : forall T basis pivcol ni,
  linv T basis pivcol ->
  let '(T', basis', success, _, _) := lemke_loop fuel n 0 0 T basis pivcol ni in
  success = true -> lfin T' basis'.
Proof.
  induction fuel as [|f IH]; intros T basis pivcol ni Hinv; cbn [lemke_loop]; [discriminate|].
  destruct Hinv as [Hwf Hlen Hunit Hsol Hrhs Hbas Hpc Hac1 Hac2].
  unfold lex_min_ratio_test.
  assert (En : nrows T = n) by (destruct Hwf; auto). rewrite En.
  destruct (lex_min_ratio_test_n n T pivcol 0 0 0) as [found pr] eqn:Er.
  destruct found; cbn [negb]; [|discriminate].
  pose proof (lex_min_ratio_test_n_spec _ _ _ _ _ _ _ Er) as [Hpr Hp].
  pose proof (lex_min_ratio_test_n_min _ _ _ _ _ Er) as Hmin.
  assert (Enc : ncols T = nc) by (apply (wf_ncols n); auto; lia). rewrite Enc in Hmin.
  assert (Hp0 : ~ get T pr pivcol == 0) by lra.
  assert (Hbnc : forall i, (i < n)%nat -> (nth i basis 0 < nc)%nat) by (intros i Hi; specialize (Hbas i Hi); unfold nc; lia).
  assert (Hwf' : wf n nc (pivoting T pivcol pr)) by (apply wf_pivoting; auto).
  assert (Hunit' : unit_cols n n (pivoting T pivcol pr) (set_nth basis pr pivcol))
    by (apply (unit_cols_pivoting n nc); auto; unfold nc; lia).
  assert (Hsol' : forall u, solves n nc (pivoting T pivcol pr) u -> solves n nc LT0 u)
    by (intros u Hu; apply Hsol; eapply (solves_pivoting_back n nc n); eauto; unfold nc; lia).
  assert (Hrhs' : forall i, (i < n)%nat -> 0 <= get (pivoting T pivcol pr) i (nc - 1)%nat)
    by (intros i Hi; eapply (pivoting_rhs_nonneg n nc n); eauto; unfold nc; lia).
  assert (Hnth : forall i, (i < n)%nat -> nth i (set_nth basis pr pivcol) 0%nat = if Nat.eqb i pr then pivcol else nth i basis 0%nat).
  { intros i Hi. rewrite nth_set_nth. destruct (Nat.eqb i pr); auto. destruct (Nat.ltb_spec pr (length basis)); auto. lia. }
  assert (Hdist : forall i, (i < n)%nat -> i <> pr -> nth i basis 0%nat <> nth pr basis 0%nat)
    by (intros i Hi Hne; eapply (basis_distinct n n T); eauto).
  destruct (Nat.eqb_spec (nth pr basis 0%nat) (2 * n)) as [Elv|Elv].
  - intros _. constructor; auto.
    + now rewrite length_set_nth.
    + intros i Hi. rewrite Hnth by auto. destruct (Nat.eqb_spec i pr) as [->|Hne]; auto.
      specialize (Hbas i Hi). specialize (Hdist i Hi Hne). lia.
    + intros i i' Hi Hi' Hne. rewrite !Hnth by auto.
      assert (Hlt : forall t, (t < n)%nat -> t <> pr -> (nth t basis 0 < 2 * n)%nat)
        by (intros t Ht Hne'; specialize (Hbas t Ht); specialize (Hdist t Ht Hne'); lia).
      destruct (Nat.eqb_spec i pr) as [->|Hn1]; destruct (Nat.eqb_spec i' pr) as [->|Hn2]; try congruence.
      * intro E. apply (Hac1 i' Hi' (Hlt i' Hi' Hn2)). auto.
      * apply Hac1; auto.
      * apply Hac2; auto.
  - assert (Hlv : (nth pr basis 0 < 2 * n)%nat) by (specialize (Hbas pr Hpr); lia).
    apply IH. constructor; auto.
    + now rewrite length_set_nth.
    + intros i Hi. rewrite Hnth by auto. destruct (Nat.eqb i pr); auto. lia.
    + destruct (Nat.ltb_spec (nth pr basis 0%nat) n); lia.
    + intros i Hi. rewrite Hnth by auto. rewrite pairv_compl by auto. destruct (Nat.eqb_spec i pr) as [->|Hne]; intros Hlt.
      * intro E. apply (Hac1 pr Hpr Hlv). auto.
      * apply Hac2; auto.
    + intros i i' Hi Hi' Hne. rewrite !Hnth by auto.
      destruct (Nat.eqb_spec i pr) as [->|Hn1]; destruct (Nat.eqb_spec i' pr) as [->|Hn2]; try congruence; intros H1 H2.
      * intro E. apply (Hac1 i' Hi' H2). auto.
      * apply Hac1; auto.
      * apply Hac2; auto.
Qed.

(* ------------------------------------------------------------------ the first pivot (z0 enters) *)
Hypothesis Hq : length q = n.

Lemma init_linv r :
  is_last_argmin n (qd q d) r -> (exists i, (i < n)%nat /\ vget q i < 0) ->
  linv (pivoting LT0 (2 * n) r) (set_nth (seq 0 n) r (2 * n)%nat) (r + n).
Proof.
  intros (Hr & Hmin & _) (i0 & Hi0 & Hneg).
  assert (Hb0 : forall i, (i < n)%nat -> nth i (seq 0 n) 0%nat = i) by (intros; apply seq_nth; auto).
  assert (Hu0 : unit_cols n n LT0 (seq 0 n)).
  { intros i k0 Hi Hk. rewrite Hb0 by auto. apply LT0_w; auto. }
  assert (Hp : get LT0 r (2 * n)%nat == - vget d r) by (apply LT0_z0; auto).
  assert (Hp0 : ~ get LT0 r (2 * n)%nat == 0) by (specialize (Hd r Hr); lra).
  assert (Hnth : forall i, (i < n)%nat -> nth i (set_nth (seq 0 n) r (2 * n)%nat) 0%nat = if Nat.eqb i r then (2 * n)%nat else i).
  { intros i Hi. rewrite nth_set_nth, seq_length. destruct (Nat.eqb i r); [destruct (Nat.ltb_spec r n); [auto|lia]|auto]. }
  constructor.
  - apply wf_pivoting; [apply wf_LT0|auto].
  - now rewrite length_set_nth, seq_length.
  - apply (unit_cols_pivoting n nc n LT0 (seq 0 n) (2 * n)%nat r);
      [apply wf_LT0|lia|apply seq_length|auto|unfold nc; lia| |auto|auto].
    intros i Hi. rewrite Hb0 by auto. unfold nc; lia.
  - intros u Hu. apply (solves_pivoting_back n nc n LT0 (2 * n)%nat r u); [apply wf_LT0|lia|auto|unfold nc; lia|auto|auto].
  - intros i Hi. rewrite (get_pivoting n nc) by (auto; try apply wf_LT0; unfold nc; lia).
    pose proof (Hd r Hr) as Hdr. pose proof (Hd i Hi) as Hdi.
    assert (Hrneg : qd q d r < 0).
    { apply Qle_lt_trans with (qd q d i0); [apply Hmin; auto|]. unfold qd.
      pose proof (Hd i0 Hi0). apply Qlt_shift_div_r; auto. lra. }
    destruct (Nat.eqb i r); rewrite !LT0_q, !LT0_z0 by auto.
    + unfold qd in Hrneg. setoid_replace (vget q r / - vget d r) with (- (vget q r / vget d r)) by (field; lra). lra.
    + specialize (Hmin i Hi). unfold qd in Hmin.
      setoid_replace (vget q i - vget q r / - vget d r * - vget d i)
        with (vget d i * (vget q i / vget d i - vget q r / vget d r)) by (field; lra).
      apply Qmult_le_0_compat; lra.
  - intros i Hi. rewrite Hnth by auto. destruct (Nat.eqb i r); lia.
  - lia.
  - intros i Hi. rewrite Hnth by auto. destruct (Nat.eqb_spec i r) as [->|Hne]; [lia|]. intros _.
    unfold pairv. destruct (Nat.ltb_spec i n); [|lia]. destruct (Nat.ltb_spec (r + n) n); lia.
  - intros i i' Hi Hi' Hne. rewrite !Hnth by auto.
    destruct (Nat.eqb_spec i r); [lia|]. destruct (Nat.eqb_spec i' r); [lia|]. intros _ _.
    unfold pairv. destruct (Nat.ltb_spec i n); [|lia]. destruct (Nat.ltb_spec i' n); lia.
Qed.

(* ------------------------------------------------------------------ reading the solution off the final tableau *)
Lemma z_fold (T : matQ) basis :
  unit_cols n n T basis ->
  forall len s z, (s + len <= n)%nat -> length z = n ->
    (forall j, (j < n)%nat -> vget z j == sumQ s (fun i => if Nat.eqb (nth i basis 0%nat) (n + j) then get T i (nc - 1)%nat else 0)) ->
    let z' := fold_left (fun z i => let b := nth i basis 0%nat in
                                    if Nat.leb n b && Nat.ltb b (2 * n)
                                    then set_nth z (b - n) (get T i (2 * n + 1)%nat) else z) (seq s len) z in
    length z' = n /\
    forall j, (j < n)%nat -> vget z' j == sumQ (s + len) (fun i => if Nat.eqb (nth i basis 0%nat) (n + j) then get T i (nc - 1)%nat else 0).
Proof.
  intros Hu. induction len as [|len IH]; intros s z Hs Hlen Hz; cbn [seq fold_left].
  - rewrite Nat.add_0_r. auto.
  - cbv zeta in IH. replace (s + S len)%nat with (S s + len)%nat by lia. apply IH; [lia| |].
    + destruct (_ && _); auto. now rewrite length_set_nth.
    + intros j Hj. cbn [sumQ]. replace (2 * n + 1)%nat with (nc - 1)%nat by (unfold nc; lia).
      destruct (Nat.leb_spec n (nth s basis 0%nat)) as [H1|H1]; cbn [andb].
      * destruct (Nat.ltb_spec (nth s basis 0%nat) (2 * n)) as [H2|H2].
        -- rewrite vget_set_nth, Hlen. destruct (Nat.ltb_spec (nth s basis 0%nat - n) n); [|lia].
           destruct (Nat.eqb_spec j (nth s basis 0%nat - n)) as [->|Hne].
           ++ replace (n + (nth s basis 0%nat - n))%nat with (nth s basis 0%nat) by lia. rewrite Nat.eqb_refl.
              rewrite sumQ_zero; [ring|]. intros i Hi.
              destruct (Nat.eqb_spec (nth i basis 0%nat) (nth s basis 0%nat)) as [E|]; [|reflexivity].
              exfalso. eapply (basis_distinct n n T basis i s); eauto; lia.
           ++ destruct (Nat.eqb_spec (nth s basis 0%nat) (n + j)); [lia|]. rewrite Hz by auto. ring.
        -- destruct (Nat.eqb_spec (nth s basis 0%nat) (n + j)); [lia|]. rewrite Hz by auto. ring.
      * destruct (Nat.eqb_spec (nth s basis 0%nat) (n + j)); [lia|]. rewrite Hz by auto. ring.
Qed.

Lemma lfin_solution T basis : lfin T basis -> lcp_solution n M q (get_solution n T basis).
Proof.
  intros [Hwf Hlen Hunit Hsol Hrhs Hbas Hcompl].
  set (u := bsol n nc T basis). set (z := get_solution n T basis).
  assert (Hzu : forall j, (j < n)%nat -> vget z j == u (n + j)%nat).
  { intros j Hj. unfold z, get_solution.
    destruct (z_fold T basis Hunit n 0 (repeat nzero n)) as [_ H]; auto.
    - apply repeat_length.
    - intros j' Hj'. cbn [sumQ]. apply vget_repeat0.
    - apply H; auto. }
  assert (Hbnc : forall i, (i < n)%nat -> (nth i basis 0 < nc - 1)%nat) by (intros i Hi; specialize (Hbas i Hi); unfold nc; lia).
  assert (Hu : solves n nc LT0 u) by (apply Hsol; apply (bsol_solves n); auto).
  assert (Hu0 : forall j, 0 <= u j) by (intros; apply bsol_nonneg; auto).
  assert (Hz0 : u (2 * n)%nat == 0).
  { apply bsol_nonbasic. intros i Hi. specialize (Hbas i Hi). lia. }
  (* row i of the initial tableau at u:  u_i - (M z)_i - d_i u_{2n} = q_i *)
  assert (Hw : forall i, (i < n)%nat -> u i == wvec n M q z i).
  { intros i Hi. pose proof (Hu i Hi) as E.
    replace (nc - 1)%nat with (n + (n + 1))%nat in E at 1 by (unfold nc; lia).
    rewrite sumQ_split, sumQ_split in E. cbn [sumQ] in E.
    rewrite (sumQ_ext n _ (fun j => if Nat.eqb j i then u j else 0)) in E.
    2:{ intros j Hj. rewrite LT0_w by auto. destruct (Nat.eqb_spec i j), (Nat.eqb_spec j i); try congruence; ring. }
    rewrite sumQ_delta in E. destruct (Nat.ltb_spec i n); [|lia].
    rewrite (sumQ_ext n (fun j => get LT0 i (n + j)%nat * u (n + j)%nat) (fun j => (-1) * (get M i j * vget z j))) in E.
    2:{ intros j Hj. rewrite LT0_z, Hzu by auto. ring. }
    rewrite sumQ_scale in E.
    replace (n + (n + 0))%nat with (2 * n)%nat in E by lia. rewrite Hz0 in E.
    rewrite LT0_q in E by auto. unfold wvec. lra. }
  split; [|split].
  - intros j Hj. rewrite Hzu by auto. apply Hu0.
  - intros i Hi. rewrite <- Hw by auto. apply Hu0.
  - intros i Hi. rewrite <- Hw, Hzu by auto.
    destruct (dec_exists_lt (fun t => nth t basis 0%nat = i) n ltac:(intros; apply Nat.eq_dec)) as [(t & Ht & Et)|Hno].
    + assert (E : u (n + i)%nat == 0).
      { apply bsol_nonbasic. intros t' Ht' Et'. destruct (Nat.eq_dec t t') as [->|Hne]; [lia|].
        apply (Hcompl t t' Ht Ht' Hne). rewrite Et, Et'. unfold pairv.
        destruct (Nat.ltb_spec i n); [|lia]. destruct (Nat.ltb_spec (n + i) n); lia. }
      rewrite E. ring.
    + assert (E : u i == 0) by (apply bsol_nonbasic; intros t Ht Et; apply (Hno t Ht Et)).
      rewrite E. ring.
Qed.

(* ------------------------------------------------------------------ main theorem *)
Theorem lemke_success_solution max_iter z status ni :
  lcp_lemke n M q d max_iter 0 0 = (z, true, status, ni) -> lcp_solution n M q z.
Proof.
  unfold lcp_lemke.
  destruct (forallb (fun x => nleb nzero x) q) eqn:Eq.
  - intros H. assert (Ez : z = repeat nzero n) by congruence. rewrite Ez. clear H Ez.
    assert (Hqn : forall i, 0 <= vget q i).
    { intros i. unfold vget. destruct (Nat.lt_ge_cases i (length q)).
      - rewrite forallb_forall in Eq. apply nleb_le. apply Eq. apply nth_In; auto.
      - rewrite nth_overflow by auto. change (@nzero Q NumQ) with 0. lra. }
    assert (Hw : forall i, wvec n M q (repeat nzero n) i == vget q i).
    { intros i. unfold wvec. rewrite sumQ_zero; [ring|]. intros j Hj. rewrite vget_repeat0. ring. }
    split; [|split].
    + intros j Hj. rewrite vget_repeat0. lra.
    + intros i Hi. rewrite Hw. auto.
    + intros i Hi. rewrite vget_repeat0. ring.
  - assert (Hex : exists i, (i < n)%nat /\ vget q i < 0).
    { clear - Eq Hq. rewrite <- Hq. clear Hq. induction q as [|x l IH]; cbn [forallb] in Eq; [discriminate|].
      apply andb_false_iff in Eq. destruct Eq as [E|E].
      - exists 0%nat. split; [cbn; lia|]. apply nleb_false in E. exact E.
      - destruct (IH E) as (i & Hi & Hneg). exists (S i). split; [cbn; lia|exact Hneg]. }
    assert (Hn : (0 < n)%nat) by (destruct Hex as (i & Hi & _); lia).
    pose proof (init_row_is_argmin n q d Hn) as Harg.
    pose proof (init_linv _ Harg Hex) as Hinv.
    unfold lemke_from.
    change (initialize_tableau n M q d) with (LT0, seq 0 n). cbv beta iota.
    pose proof (lemke_loop_spec (max_iter - 1) _ _ _ 1%nat Hinv) as Hloop.
    destruct (lemke_loop (max_iter - 1) n 0 0 (pivoting LT0 (2 * n) (init_row n q d 0))
                (set_nth (seq 0 n) (init_row n q d 0) (2 * n)%nat) (init_row n q d 0 + n) 1) as [[[[tb bs] su] st] ni'].
    intros H. assert (Ez : z = get_solution n tb bs /\ su = true) by (split; congruence). destruct Ez as [-> ->]. apply lfin_solution. auto.
Qed.
End Lemke.

(* C11 property theorems: statements only, each closed by `exact`, with Print Assumptions. *)
From Coq Require Import List Bool Arith QArith.
From QE Require Import Base.Num Base.Pivot C11.Model C11.Findings.
Import ListNotations.
Open Scope Q_scope.

(* pinned (pre-422719e) initial ratio loop: success with a negative z -- refutes `success => solution` *)
Theorem C11_lemke_success_refuted :
  exists n M q d max_iter,
    (forall i, (i < n)%nat -> 0 < vget d i) /\
    let '(z, success, status, _) := lcp_lemke_old n M q d max_iter 0 0 in
    success = true /\ status = 0%nat /\ z = [17 # 11; 12 # 11; -3 # 11] /\ vget z 2 < 0.
Proof. exact lemke_success_refuted. Qed.
Print Assumptions C11_lemke_success_refuted.

(* C11 property theorems: statements only, each closed by `exact`, with Print Assumptions.
   Everything is about the exact instance (NumQ) of coq/C11/Model.v + Base/Pivot.v at tolerance 0.
   M, d are read with `get`/`vget` (0 outside the arrays) by model and specification alike; q must have
   exactly n entries (the code tests `(q >= 0).all()` on it). *)
From Coq Require Import List Bool Arith QArith.
From QE Require Import Base.Num Base.Pivot Base.PivotProofs C11.Model C11.Findings C11.Proofs.
Import ListNotations.
Open Scope Q_scope.

(* the repaired initial loop returns the LAST index attaining min_i q_i/d_i *)
Theorem C11_init_row_is_argmin : forall n q d,
  (0 < n)%nat ->
  let r := init_row n q d 0 in
  (r < n)%nat /\
  (forall i, (i < n)%nat -> vget q r / vget d r <= vget q i / vget d i) /\
  (forall i, (r < i < n)%nat -> vget q r / vget d r < vget q i / vget d i).
Proof. exact init_row_is_argmin. Qed.
Print Assumptions C11_init_row_is_argmin.

(* success => z >= 0, w = Mz + q >= 0, z_i w_i = 0 for every i: every n, M, q, covering vector d > 0, max_iter *)
Theorem C11_lemke_success_solution : forall n M q d,
  (forall i, (i < n)%nat -> 0 < vget d i) -> length q = n ->
  forall max_iter z status ni,
    lcp_lemke n M q d max_iter 0 0 = (z, true, status, ni) ->
    (forall j, (j < n)%nat -> 0 <= vget z j) /\
    (forall i, (i < n)%nat -> 0 <= sumQ n (fun j => get M i j * vget z j) + vget q i) /\
    (forall i, (i < n)%nat -> vget z i * (sumQ n (fun j => get M i j * vget z j) + vget q i) == 0).
Proof. exact lemke_success_solution. Qed.
Print Assumptions C11_lemke_success_solution.

(* the loop before commit 422719e (`ratio = ratio_min`): success with a negative z -- the same statement
   is false for the old code (finding D1, repaired in /repo) *)
Theorem C11_lemke_success_refuted :
  exists n M q d max_iter,
    (forall i, (i < n)%nat -> 0 < vget d i) /\
    let '(z, success, status, _) := lcp_lemke_old n M q d max_iter 0 0 in
    success = true /\ status = 0%nat /\ z = [17 # 11; 12 # 11; -3 # 11] /\ vget z 2 < 0.
Proof. exact lemke_success_refuted. Qed.
Print Assumptions C11_lemke_success_refuted.

(* not proved (Cottle-Pang-Stone theory of secondary rays); decided per case by the exact oracle *)
Definition C11_lemke_classes_full : Prop :=
  forall n M q d max_iter z success status ni,
    (forall i, (i < n)%nat -> 0 < vget d i) -> length q = n ->
    lcp_lemke n M q d max_iter 0 0 = (z, success, status, ni) -> status = 2%nat ->
    (* M positive semidefinite: x'Mx >= 0 for all x *)
    (forall x : list Q, 0 <= sumQ n (fun i => vget x i * sumQ n (fun j => get M i j * vget x j))) ->
    forall z', ~ lcp_solution n M q z'.

(* hypotheses satisfiable by a non-trivial object: the D1 witness, on which the repaired model succeeds
   after 3 pivots with z = (19/13, 12/13, 0) *)
Example ex_repaired_on_witness :
  lcp_lemke 3 D1_M D1_q D1_d 1000 0 0 = ([19 # 13; 12 # 13; 0], true, 0%nat, 3%nat) /\
  init_row 3 D1_q D1_d 0 = 1%nat /\ init_row_old 3 D1_q D1_d 0 = 2%nat.
Proof. vm_compute. repeat split; reflexivity. Qed.
Example ex_solution_instance : lcp_solution 3 D1_M D1_q [19 # 13; 12 # 13; 0].
Proof.
  apply (lemke_success_solution 3 D1_M D1_q D1_d) with (max_iter := 1000%nat) (status := 0%nat) (ni := 3%nat).
  - intros i Hi. destruct i as [|[|[|i]]]; vm_compute; try reflexivity.
    exfalso. do 3 apply Nat.succ_lt_mono in Hi. inversion Hi.
  - reflexivity.
  - vm_compute. reflexivity.
Qed.

(* C11 model: quantecon/optimize/lcp_lemke.py (lcp_lemke, _initialize_tableau, _get_solution) as the
   CURRENT source (initial ratio loop `pivrow = i; ratio_min = ratio`), generic over Base.Num.Num;
   pivoting kernels from Base/Pivot.v.  Executable definitions only.
   Tableau n x (2n+2): columns w(0..n) | z(n..2n) | z0 (2n) | q (2n+1). *)
From Coq Require Import List Bool Arith.
From QE Require Import Base.Num Base.Pivot.
Import ListNotations.

Section LCP.
Context {T : Type} `{Num T}.

Definition mat := list (list T).

(* _initialize_tableau: (I | -M | -d | q), basis = 0..n-1 *)
Definition initialize_tableau (n : nat) (M : mat) (q d : list T) : mat * list nat :=
  (tab n (2 * n + 2) (fun i j =>
     if Nat.ltb j n then (if Nat.eqb i j then none_ else nzero)
     else if Nat.ltb j (2 * n) then nsub nzero (get M i (j - n))
     else if Nat.eqb j (2 * n) then nsub nzero (vget d i)
     else vget q i),
   seq 0 n).

(* pivrow = 0; ratio_min = q[0]/d[0]
   for i in range(1, n): ratio = q[i]/d[i]
       if ratio <= ratio_min + tol_ratio_diff: pivrow = i; ratio_min = ratio *)
Fixpoint init_row_loop (q d : list T) (tol : T) (is : list nat) (pivrow : nat) (rmin : T) : nat :=
  match is with
  | [] => pivrow
  | i :: r => let ratio := ndiv (vget q i) (vget d i) in
              if nleb ratio (nadd rmin tol) then init_row_loop q d tol r i ratio
              else init_row_loop q d tol r pivrow rmin
  end.
Definition init_row (n : nat) (q d : list T) (tol : T) : nat :=
  init_row_loop q d tol (seq 1 (n - 1)) 0 (ndiv (vget q 0) (vget d 0)).

(* _get_solution *)
Definition get_solution (n : nat) (tableau : mat) (basis : list nat) : list T :=
  fold_left (fun z i => let b := nth i basis 0 in
                        if Nat.leb n b && Nat.ltb b (2 * n)
                        then set_nth z (b - n) (get tableau i (2 * n + 1)) else z)
            (seq 0 n) (repeat nzero n).

(* the while loop; fuel = max_iter - 1 (num_iter is 1 on entry).
   returns (tableau, basis, success, status, num_iter) *)
Fixpoint lemke_loop (fuel : nat) (n : nat) (tolp tolr : T) (tableau : mat) (basis : list nat)
         (pivcol num_iter : nat) : mat * list nat * bool * nat * nat :=
  match fuel with
  | O => (tableau, basis, false, 1, num_iter)
  | S f =>
    let '(found, pivrow) := lex_min_ratio_test tableau pivcol 0 tolp tolr in
    if negb found then (tableau, basis, false, 2, num_iter)
    else
      let tb := pivoting tableau pivcol pivrow in
      let leaving := nth pivrow basis 0 in
      let bs := set_nth basis pivrow pivcol in
      if Nat.eqb leaving (2 * n) then (tb, bs, true, 0, S num_iter)
      else lemke_loop f n tolp tolr tb bs
                      (if Nat.ltb leaving n then leaving + n else leaving - n) (S num_iter)
  end.

(* everything after the trivial exit, parameterised by the initial pivot row *)
Definition lemke_from (n : nat) (M : mat) (q d : list T) (max_iter : nat) (tolp tolr : T) (pivrow : nat)
  : mat * list nat * bool * nat * nat :=
  let '(tb0, basis0) := initialize_tableau n M q d in
  let tb1 := pivoting tb0 (2 * n) pivrow in
  let basis1 := set_nth basis0 pivrow (2 * n) in
  lemke_loop (max_iter - 1) n tolp tolr tb1 basis1 (pivrow + n) 1.

(* lcp_lemke(M, q, d, max_iter, piv_options): (z, success, status, num_iter); d=None is d = ones *)
Definition lcp_lemke (n : nat) (M : mat) (q d : list T) (max_iter : nat) (tolp tolr : T)
  : list T * bool * nat * nat :=
  if forallb (fun x => nleb nzero x) q then (repeat nzero n, true, 0, 0)
  else
    let '(tb, bs, success, status, ni) :=
        lemke_from n M q d max_iter tolp tolr (init_row n q d tolr) in
    (get_solution n tb bs, success, status, ni).

End LCP.

(* C11: quantecon/optimize/lcp_lemke.py (lcp_lemke, _initialize_tableau, _get_solution) as REGENERATED from /repo's
   current source on every run (Gen/Kernels2.v, bounds-checked translation by harness/py2coq.py) computes the
   hand-written model C11/Model.v, for EVERY Num instance, and reads/stores only inside its arrays.  Statements
   only; proofs in C11/TieGen.v (on top of Base/PivotTie.v for the pivoting kernels).
   The optional arrays d, tableau, basis, z of lcp_lemke are translated as supplied arrays (the source allocates
   them when they are None); tableau, basis, z may hold ANY initial contents of the right shape.
   The last component `true` of a generated result is the bounds flag.  np.inf is the parameter inf_;
   lemke_traj_ok says that it acts as +infinity on the ratios compared with it at every tableau of the model's run
   (decidable: lemke_traj_okb). *)
From Coq Require Import ZArith QArith List Bool PrimFloat.
From QE Require Import Base.Num Base.Pivot Gen.Kernels Gen.Kernels2 Base.PivotTie C11.Model C11.TieGen.
Import ListNotations.

Theorem C11_tie_initialize_tableau :
  forall (T : Type) (NT : Num T) (n : nat) (M : list (list T)) (q d : list T),
  rect n n M -> length q = n -> length d = n ->
  forall (Tb : list (list T)) (basis : list Z), rect n (2 * n + 2) Tb -> length basis = n ->
  @gen_lemke_initialize_tableau T NT M q d Tb basis = ((fst (initialize_tableau n M q d), zs (seq 0 n)), true).
Proof. exact (@gen_lemke_initialize_tableau_tie). Qed.
Print Assumptions C11_tie_initialize_tableau.

Theorem C11_tie_get_solution :
  forall (T : Type) (NT : Num T) (n : nat) (Tb : list (list T)) (basis : list nat),
  rect n (2 * n + 2) Tb -> length basis = n -> forall z : list T, length z = n ->
  @gen_lemke_get_solution T NT Tb (zs basis) z = (get_solution n Tb basis, true).
Proof. exact (@gen_lemke_get_solution_tie). Qed.
Print Assumptions C11_tie_get_solution.

(* the whole function: same success flag, status, num_iter and solution vector as the model, no access outside an array *)
Theorem C11_tie_lcp_lemke :
  forall (T : Type) (NT : Num T) (inf_ fea tolp tolr : T) (n : nat) (M : list (list T)) (q d : list T) (max_iter : nat)
         (Tb : list (list T)) (basis : list Z) (z : list T),
  rect n n M -> length q = n -> length d = n -> rect n (2 * n + 2) Tb -> length basis = n -> length z = n ->
  (1 <= max_iter)%nat -> lemke_traj_ok inf_ tolp tolr n M q d max_iter ->
  let r := @gen_lcp_lemke T NT inf_ M q d (Z.of_nat max_iter) fea tolp tolr Tb basis z in
  let '(zm, succ, st, ni) := lcp_lemke n M q d max_iter tolp tolr in
  fst (fst (fst (fst r))) = (succ, Z.of_nat st, Z.of_nat ni) /\ snd (fst r) = zm /\ snd r = true.
Proof. exact (@gen_lcp_lemke_tie). Qed.
Print Assumptions C11_tie_lcp_lemke.

Theorem C11_lemke_traj_okb_sound :
  forall (T : Type) (NT : Num T) (inf_ tolp tolr : T) (n : nat) (M : list (list T)) (q d : list T) (max_iter : nat),
  lemke_traj_okb inf_ tolp tolr n M q d max_iter = true -> lemke_traj_ok inf_ tolp tolr n M q d max_iter.
Proof. exact (@lemke_traj_okb_sound). Qed.
Print Assumptions C11_lemke_traj_okb_sound.

(* consequence: the soundness theorem of C11/Props.v holds of the code as it reads now (exact arithmetic, tolerance 0) *)
From QE Require Import Base.PivotProofs C11.Proofs.
Theorem C11_gen_lemke_success_solution :
  forall (inf_ fea : Q) (n : nat) (M : list (list Q)) (q d : list Q) (max_iter : nat)
         (Tb : list (list Q)) (basis : list Z) (z0 : list Q),
  rect n n M -> length q = n -> length d = n -> rect n (2 * n + 2) Tb -> length basis = n -> length z0 = n ->
  (1 <= max_iter)%nat -> lemke_traj_ok inf_ 0%Q 0%Q n M q d max_iter ->
  (forall i, (i < n)%nat -> (0 < vget d i)%Q) ->
  let r := gen_lcp_lemke inf_ M q d (Z.of_nat max_iter) fea 0%Q 0%Q Tb basis z0 in
  fst (fst (fst (fst (fst (fst r))))) = true ->
  let z := snd (fst r) in
  (forall j, (j < n)%nat -> (0 <= vget z j)%Q) /\
  (forall i, (i < n)%nat -> (0 <= sumQ n (fun j => get M i j * vget z j) + vget q i)%Q) /\
  (forall i, (i < n)%nat -> (vget z i * (sumQ n (fun j => get M i j * vget z j) + vget q i) == 0)%Q).
Proof.
  intros inf_ fea n M q d max_iter Tb basis z0 HM Hq Hd HT Hb Hz Hmx Htr Hdpos r Hs z.
  pose proof (gen_lcp_lemke_tie inf_ fea 0%Q 0%Q n M q d max_iter Tb basis z0 HM Hq Hd HT Hb Hz Hmx Htr) as Htie.
  cbv zeta in Htie. fold r in Htie.
  destruct (lcp_lemke n M q d max_iter 0%Q 0%Q) as [[[zm succ] st] ni] eqn:El.
  destruct Htie as (E1 & E2 & _). unfold z. rewrite E2.
  rewrite E1 in Hs. cbn [fst] in Hs. subst succ.
  exact (lemke_success_solution n M q d Hdpos Hq max_iter zm st ni El).
Qed.
Print Assumptions C11_gen_lemke_success_solution.

(* non-vacuity: the D1 witness (the input on which the pinned initial-ratio loop returned a negative z);
   tableau, basis and z start with junk contents *)
From QE Require Import C11.Findings.
Definition junkT : list (list Q) := repeat (repeat (7#3)%Q 8) 3.
Example C11_tie_lcp_lemke_example :
  let r := gen_lcp_lemke (1000000%Q) D1_M D1_q D1_d 1000 0%Q 0%Q 0%Q junkT [5;5;5]%Z [9;9;9]%Q in
  lemke_traj_ok (1000000%Q) 0%Q 0%Q 3 D1_M D1_q D1_d 1000 /\
  fst (fst (fst (fst r))) = (true, 0%Z, 3%Z) /\ snd (fst r) = [19 # 13; 12 # 13; 0]%Q /\ snd r = true /\
  lcp_lemke 3 D1_M D1_q D1_d 1000 0%Q 0%Q = ([19 # 13; 12 # 13; 0]%Q, true, 0%nat, 3%nat).
Proof. cbv zeta. split; [apply lemke_traj_okb_sound; vm_compute; reflexivity|]. vm_compute. repeat split. Qed.
(* binary64 with inf_ = infinity *)
Definition D1F_M : list (list float) := [[2; -1; 0]; [-1; 7; 4]; [0; 4; 5]]%float.
Definition D1F_q : list float := [-2; -5; -3]%float.
Definition D1F_d : list float := [1; 1; 1]%float.
Example C11_tie_lcp_lemke_float_example :
  let r := gen_lcp_lemke infinity D1F_M D1F_q D1F_d 1000 (0x1p-20)%float (0x1p-23)%float (0x1p-43)%float
                         (repeat (repeat 7%float 8) 3) [5;5;5]%Z [9;9;9]%float in
  lemke_traj_okb infinity (0x1p-23)%float (0x1p-43)%float 3 D1F_M D1F_q D1F_d 1000 = true /\
  fst (fst (fst (fst r))) = (true, 0%Z, 3%Z) /\ snd r = true.
Proof. vm_compute. repeat split. Qed.

(* C11: tie lemmas between quantecon/optimize/lcp_lemke.py as REGENERATED from /repo's current source
   (Gen/Kernels2.v: _initialize_tableau, _get_solution, lcp_lemke) and the hand-written model C11/Model.v,
   for every Num instance. *)
From Coq Require Import ZArith List Bool Arith Lia.
From QE Require Import Base.Num Base.Pivot Gen.Kernels Gen.Kernels2 Base.PivotTie C11.Model.
Import ListNotations.

Section Tie.
Context {T : Type} {NT : Num T}.
Notation mat := (list (list T)).

(* ------------------------------------------------------------------ entries of stored tableaux *)
Lemma get_upd (M : mat) i j v i' j' : (i < length M)%nat -> (j < length (nth i M []))%nat ->
  get (upd_nth M i (upd_nth (nth i M []) j v)) i' j' = if Nat.eqb i' i && Nat.eqb j' j then v else get M i' j'.
Proof.
  intros Hi Hj. unfold get. destruct (Nat.eqb i' i) eqn:Ei; cbn [andb].
  - apply Nat.eqb_eq in Ei. subst i'. rewrite nth_upd_nth_eq by exact Hi.
    destruct (Nat.eqb j' j) eqn:Ej.
    + apply Nat.eqb_eq in Ej. subst j'. apply nth_upd_nth_eq, Hj.
    + apply Nat.eqb_neq in Ej. apply nth_upd_nth_neq, Ej.
  - apply Nat.eqb_neq in Ei. rewrite nth_upd_nth_neq by exact Ei. reflexivity.
Qed.

Lemma rect_set (M : mat) nr nc i j v : rect nr nc M -> rect nr nc (upd_nth M i (upd_nth (nth i M []) j v)).
Proof.
  intros HM. destruct (Nat.lt_ge_cases i nr) as [Hi|Hi].
  - apply rect_upd_row; [exact HM|]. rewrite upd_nth_length. apply HM, Hi.
  - destruct HM as [Hl Hr]. replace (upd_nth M i (upd_nth (nth i M []) j v)) with M; [split; assumption|].
    clear Hr. revert i Hi. rewrite <- Hl. clear. induction M as [|x M IH]; intros [|i] Hi; cbn in *; try reflexivity; try lia.
    f_equal. apply IH. lia.
Qed.

Lemma mat_ext nr nc (A B : mat) : rect nr nc A -> rect nr nc B ->
  (forall i j, (i < nr)%nat -> (j < nc)%nat -> get A i j = get B i j) -> A = B.
Proof.
  intros [HAl HAr] [HBl HBr] Hg. apply (nth_ext _ _ [] []); [lia|]. intros i Hi. rewrite HAl in Hi.
  apply (nth_ext _ _ nzero nzero); [rewrite HAr, HBr by exact Hi; reflexivity|].
  intros j Hj. rewrite HAr in Hj by exact Hi. apply Hg; assumption.
Qed.

(* a sequence of stores at cells (R k, C k), k in ks, with values V k that do not depend on the tableau *)
Section Stores.
Context {K : Type}.
Variables (R C : K -> nat) (V : K -> T) (nr nc : nat).
Definition stores (ks : list K) (M : mat) : mat :=
  fold_left (fun M k => upd_nth M (R k) (upd_nth (nth (R k) M []) (C k) (V k))) ks M.
Lemma stores_rect ks : forall M, rect nr nc M -> rect nr nc (stores ks M).
Proof. induction ks as [|k ks IH]; intros M HM; cbn; [exact HM|]. apply IH, rect_set, HM. Qed.
Lemma stores_app k1 k2 M : stores (k1 ++ k2) M = stores k2 (stores k1 M).
Proof. apply fold_left_app. Qed.
Lemma stores_miss ks : forall M i j, rect nr nc M ->
  (forall k, In k ks -> (R k < nr)%nat /\ (C k < nc)%nat /\ ~ (R k = i /\ C k = j)) ->
  get (stores ks M) i j = get M i j.
Proof.
  induction ks as [|k ks IH]; intros M i j HM Hin; cbn [stores fold_left]; [reflexivity|].
  fold (stores ks (upd_nth M (R k) (upd_nth (nth (R k) M []) (C k) (V k)))).
  destruct (Hin k (or_introl eq_refl)) as (HR & HC & Hne). destruct HM as [Hl Hr].
  rewrite IH; [|apply rect_set; split; assumption|intros k' Hk'; apply Hin; right; exact Hk'].
  rewrite get_upd by (rewrite ?Hr; lia).
  destruct (Nat.eqb i (R k)) eqn:E1; [|reflexivity]. destruct (Nat.eqb j (C k)) eqn:E2; [|reflexivity].
  apply Nat.eqb_eq in E1, E2. exfalso. apply Hne. split; congruence.
Qed.
Lemma stores_hit ks : forall M k, rect nr nc M -> In k ks ->
  (forall k', In k' ks -> (R k' < nr)%nat /\ (C k' < nc)%nat) ->
  (forall k', In k' ks -> R k' = R k -> C k' = C k -> V k' = V k) ->
  get (stores ks M) (R k) (C k) = V k.
Proof.
  induction ks as [|k0 ks IH]; intros M k HM Hk Hin Hsame; [destruct Hk|]. cbn [stores fold_left].
  fold (stores ks (upd_nth M (R k0) (upd_nth (nth (R k0) M []) (C k0) (V k0)))).
  destruct (Hin k0 (or_introl eq_refl)) as (HR & HC). destruct HM as [Hl Hr].
  assert (HM' : rect nr nc (upd_nth M (R k0) (upd_nth (nth (R k0) M []) (C k0) (V k0)))) by (apply rect_set; split; assumption).
  destruct (in_dec (fun a b : nat * nat => ltac:(decide equality; apply Nat.eq_dec)) (R k, C k) (map (fun k' => (R k', C k')) ks)) as [Hi|Hi].
  - apply in_map_iff in Hi. destruct Hi as (k' & Ek' & Hk'). injection Ek' as E1 E2.
    rewrite <- E1, <- E2, (IH _ k' HM' Hk').
    + apply Hsame; [right; exact Hk'|exact E1|exact E2].
    + intros k'' H''. apply Hin. right. exact H''.
    + intros k'' H'' F1 F2. rewrite (Hsame k'' (or_intror H'')) by congruence.
      symmetry. apply Hsame; [right; exact Hk'|exact E1|exact E2].
  - destruct Hk as [->|Hk]; [|exfalso; apply Hi, in_map_iff; exists k; split; [reflexivity|exact Hk]].
    rewrite stores_miss; [|exact HM'|].
    + rewrite get_upd by (rewrite ?Hr; lia). rewrite !Nat.eqb_refl. reflexivity.
    + intros k' Hk'. destruct (Hin k' (or_intror Hk')) as [A B]. repeat split; try assumption.
      intros [E1 E2]. apply Hi, in_map_iff. exists k'. split; [congruence|exact Hk'].
Qed.
End Stores.

(* ------------------------------------------------------------------ slice stores (helpers in Base/PivotTie.v) *)
Lemma fill2_block nr nc (M : mat) k v : rect nr nc M -> (k <= nr)%nat -> (k <= nc)%nat ->
  rect nr nc (fill2 M (Sl (Bnd 0) (Bnd (Z.of_nat k))) (Sl (Bnd 0) (Bnd (Z.of_nat k))) v) /\
  forall i j, (i < nr)%nat -> (j < nc)%nat ->
    get (fill2 M (Sl (Bnd 0) (Bnd (Z.of_nat k))) (Sl (Bnd 0) (Bnd (Z.of_nat k))) v) i j =
    if Nat.ltb i k && Nat.ltb j k then v else get M i j.
Proof.
  intros [Hl Hr] Hk1 Hk2. unfold fill2. cbn [sel_lo sel_hi]. rewrite bnd_val_0, bnd_val_nat by lia.
  assert (Hrow : forall i, (i < nr)%nat ->
    nth i (mapz_from (fun i0 row => if (0 <=? i0)%Z && (i0 <? Z.of_nat k)%Z then fill1 row (Sl (Bnd 0) (Bnd (Z.of_nat k))) v else row) 0 M) [] =
    if Nat.ltb i k then fill1 (nth i M []) (Sl (Bnd 0) (Bnd (Z.of_nat k))) v else nth i M []).
  { intros i Hi. rewrite nth_mapz_from by lia.
    replace (0 <=? 0 + Z.of_nat i)%Z with true by (symmetry; apply Z.leb_le; lia). cbn [andb].
    destruct (Nat.ltb i k) eqn:E.
    - apply Nat.ltb_lt in E. replace (0 + Z.of_nat i <? Z.of_nat k)%Z with true by (symmetry; apply Z.ltb_lt; lia). reflexivity.
    - apply Nat.ltb_ge in E. replace (0 + Z.of_nat i <? Z.of_nat k)%Z with false by (symmetry; apply Z.ltb_ge; lia). reflexivity. }
  split.
  - split; [rewrite mapz_from_length; exact Hl|]. intros i Hi. rewrite Hrow by exact Hi.
    destruct (Nat.ltb i k); [unfold fill1; rewrite mapz_from_length|]; apply Hr, Hi.
  - intros i j Hi Hj. unfold get. rewrite Hrow by exact Hi. destruct (Nat.ltb i k); cbn [andb]; [|reflexivity].
    unfold fill1. rewrite nth_mapz_from by (rewrite Hr; lia). cbn [sel_lo sel_hi]. rewrite bnd_val_0, bnd_val_nat by (rewrite Hr; lia).
    replace (0 <=? 0 + Z.of_nat j)%Z with true by (symmetry; apply Z.leb_le; lia). cbn [andb].
    destruct (Nat.ltb j k) eqn:E.
    + apply Nat.ltb_lt in E. replace (0 + Z.of_nat j <? Z.of_nat k)%Z with true by (symmetry; apply Z.ltb_lt; lia). reflexivity.
    + apply Nat.ltb_ge in E. replace (0 + Z.of_nat j <? Z.of_nat k)%Z with false by (symmetry; apply Z.ltb_ge; lia). reflexivity.
Qed.

Lemma tab_spec nr' nc' (f : nat -> nat -> T) : rect nr' nc' (tab nr' nc' f) /\
  forall i j, (i < nr')%nat -> (j < nc')%nat -> get (tab nr' nc' f) i j = f i j.
Proof.
  assert (Hv : forall A (g : nat -> A) m k dflt, (k < m)%nat -> nth k (tabv m g) dflt = g k).
  { intros A g m k dflt Hk. unfold tabv. rewrite (nth_indep _ dflt (g 0%nat)) by (rewrite map_length, seq_length; exact Hk).
    rewrite map_nth, seq_nth by exact Hk. reflexivity. }
  assert (Hlen : forall A (g : nat -> A) m, length (tabv m g) = m) by (intros; unfold tabv; rewrite map_length, seq_length; reflexivity).
  split; [split; [apply Hlen|intros i Hi; unfold tab; rewrite Hv by exact Hi; apply Hlen]|].
  intros i j Hi Hj. unfold get, tab. rewrite Hv by exact Hi. apply Hv, Hj.
Qed.

(* ------------------------------------------------------------------ _initialize_tableau *)
Section Init.
Variables (n : nat) (M : mat) (q d : list T).
Hypothesis HM : rect n n M.
Hypothesis Hq : length q = n.
Hypothesis Hd : length d = n.
Let nc := (2 * n + 2)%nat.

Lemma init_loop0_tie : forall f i (Tb : mat) ok, rect n nc Tb -> (i + f <= n)%nat ->
  gen_lemke_initialize_tableau_loop0 f (Z.of_nat i) Tb ok =
    (stores (fun k => k) (fun k => k) (fun _ => none_) (seq i f) Tb, ok).
Proof.
  induction f as [|f IH]; intros i Tb ok HT Hi; cbn [gen_lemke_initialize_tableau_loop0 seq stores fold_left]; [reflexivity|].
  destruct HT as [Hl Hr]. rewrite inb2_nat by (rewrite ?Hr; unfold nc; lia). rewrite andb_true_r, set2_nat.
  replace (Z.of_nat i + 1)%Z with (Z.of_nat (S i)) by lia.
  rewrite IH; [reflexivity|apply rect_set; split; assumption|lia].
Qed.

Lemma init_loop2_tie i : (i < n)%nat -> forall f j (Tb : mat) ok, rect n nc Tb -> (j + f <= n)%nat ->
  gen_lemke_initialize_tableau_loop2 f (Z.of_nat j) Tb ok M (Z.of_nat n) (Z.of_nat i) =
    (stores (fun _ => i) (fun j => (n + j)%nat) (fun j => nsub nzero (get M i j)) (seq j f) Tb, ok).
Proof.
  intros Hi. induction f as [|f IH]; intros j Tb ok HT Hj; cbn [gen_lemke_initialize_tableau_loop2 seq stores fold_left]; [reflexivity|].
  destruct HT as [Hl Hr]. destruct HM as [HMl HMr].
  rewrite <- Nat2Z.inj_add. rewrite !inb2_nat by (rewrite ?Hr, ?HMr; unfold nc; lia).
  rewrite !andb_true_r, set2_nat, get2_nat.
  replace (Z.of_nat j + 1)%Z with (Z.of_nat (S j)) by lia.
  rewrite IH; [reflexivity|apply rect_set; split; assumption|lia].
Qed.

Definition cells (i0 f : nat) : list (nat * nat) := flat_map (fun i => map (pair i) (seq 0 n)) (seq i0 f).
Lemma init_loop1_tie : forall f i (Tb : mat) ok, rect n nc Tb -> (i + f <= n)%nat ->
  gen_lemke_initialize_tableau_loop1 f (Z.of_nat i) Tb ok M (Z.of_nat n) =
    (stores (fun p => fst p) (fun p => (n + snd p)%nat) (fun p => nsub nzero (get M (fst p) (snd p))) (cells i f) Tb, ok).
Proof.
  induction f as [|f IH]; intros i Tb ok HT Hi; cbn [gen_lemke_initialize_tableau_loop1 seq cells flat_map]; [reflexivity|].
  replace (Z.to_nat (Z.of_nat n - 0)) with n by lia.
  pose proof (init_loop2_tie i ltac:(lia) n 0 Tb ok HT ltac:(lia)) as E2. change (Z.of_nat 0) with 0%Z in E2. rewrite E2. clear E2.
  replace (Z.of_nat i + 1)%Z with (Z.of_nat (S i)) by lia.
  rewrite IH; [|apply stores_rect, HT|lia]. fold (cells (S i) f). rewrite stores_app. f_equal. f_equal.
  unfold stores. generalize (seq 0 n). intros l. revert Tb HT. induction l as [|j l IHl]; intros Tb HT; cbn; [reflexivity|].
  apply IHl. apply rect_set, HT.
Qed.

Lemma init_loop3_tie : forall f i (Tb : mat) ok, rect n nc Tb -> (i + f <= n)%nat ->
  gen_lemke_initialize_tableau_loop3 f (Z.of_nat i) Tb ok d (Z.of_nat n) =
    (stores (fun k => k) (fun _ => (2 * n)%nat) (fun k => nsub nzero (vget d k)) (seq i f) Tb, ok).
Proof.
  induction f as [|f IH]; intros i Tb ok HT Hi; cbn [gen_lemke_initialize_tableau_loop3 seq stores fold_left]; [reflexivity|].
  destruct HT as [Hl Hr]. replace (2 * Z.of_nat n)%Z with (Z.of_nat (2 * n)) by lia.
  rewrite inb_nat, inb2_nat by (rewrite ?Hr; unfold nc; lia). rewrite !andb_true_r, set2_nat, Nat2Z.id.
  replace (Z.of_nat i + 1)%Z with (Z.of_nat (S i)) by lia.
  rewrite IH; [reflexivity|apply rect_set; split; assumption|lia].
Qed.

Lemma set2_m1 (Tb : mat) i v : (i < length Tb)%nat -> (0 < length (nth i Tb []))%nat ->
  set2 Tb (Z.of_nat i) (-1) v = upd_nth Tb i (upd_nth (nth i Tb []) (length (nth i Tb []) - 1) v).
Proof. intros Hi Hl. unfold set2. rewrite row2_nat, widx_nat, widx_m1, !Nat2Z.id by exact Hl. reflexivity. Qed.

Lemma init_loop4_tie : forall f i (Tb : mat) ok, rect n nc Tb -> (i + f <= n)%nat ->
  gen_lemke_initialize_tableau_loop4 f (Z.of_nat i) Tb ok q =
    (stores (fun k => k) (fun _ => (2 * n + 1)%nat) (fun k => vget q k) (seq i f) Tb, ok).
Proof.
  induction f as [|f IH]; intros i Tb ok HT Hi; cbn [gen_lemke_initialize_tableau_loop4 seq stores fold_left]; [reflexivity|].
  destruct HT as [Hl Hr]. change (- (1))%Z with (-1)%Z.
  rewrite inb_nat, inb2_m1 by (rewrite ?Hr; unfold nc; lia). rewrite !andb_true_r, set2_m1, Nat2Z.id by (rewrite ?Hr; unfold nc; lia).
  rewrite Hr by lia. replace (nc - 1)%nat with (2 * n + 1)%nat by (unfold nc; lia).
  replace (Z.of_nat i + 1)%Z with (Z.of_nat (S i)) by lia.
  rewrite IH; [reflexivity| |lia]. pose proof (rect_set Tb n nc i (2 * n + 1) (nth i q nzero) (conj Hl Hr)) as H. exact H.
Qed.

Lemma init_loop5_tie : forall f i rest ok, (f <= length rest)%nat ->
  @gen_lemke_initialize_tableau_loop5 T NT f (Z.of_nat i) (zs (seq 0 i) ++ rest) ok = (zs (seq 0 (i + f)) ++ skipn f rest, ok).
Proof.
  induction f as [|f IH]; intros i rest ok Hf; cbn [gen_lemke_initialize_tableau_loop5 skipn].
  - rewrite Nat.add_0_r. reflexivity.
  - destruct rest as [|x rest]; [cbn in Hf; lia|]. cbn [length] in Hf.
    rewrite inb_nat by (rewrite app_length, zs_length, seq_length; cbn; lia). rewrite andb_true_r, Nat2Z.id.
    replace i with (length (zs (seq 0 i))) at 3 by (rewrite zs_length, seq_length; reflexivity).
    rewrite upd_nth_mid.
    replace (zs (seq 0 i) ++ Z.of_nat i :: rest) with (zs (seq 0 (S i)) ++ rest)
      by (rewrite seq_S, zs_app, <- app_assoc; reflexivity).
    replace (Z.of_nat i + 1)%Z with (Z.of_nat (S i)) by lia.
    rewrite IH by lia. rewrite Nat.add_succ_r. reflexivity.
Qed.

Lemma in_cells i0 f a b : In (a, b) (cells i0 f) <-> (i0 <= a < i0 + f)%nat /\ (b < n)%nat.
Proof.
  unfold cells. rewrite in_flat_map. split.
  - intros (i & Hi & Hp). apply in_seq in Hi. apply in_map_iff in Hp. destruct Hp as (j & E & Hj). apply in_seq in Hj.
    injection E as -> ->. lia.
  - intros [Ha Hb]. exists a. split; [apply in_seq; lia|]. apply in_map_iff. exists b. split; [reflexivity|apply in_seq; lia].
Qed.

Theorem gen_lemke_initialize_tableau_tie (Tb : mat) (basis : list Z) :
  rect n nc Tb -> length basis = n ->
  gen_lemke_initialize_tableau M q d Tb basis = ((fst (initialize_tableau n M q d), zs (seq 0 n)), true).
Proof.
  intros HT Hb. unfold gen_lemke_initialize_tableau. cbv zeta.
  assert (Hn : nrows2 M = Z.of_nat n) by (unfold nrows2; destruct HM as [-> _]; reflexivity).
  rewrite Hn. replace (Z.to_nat (Z.of_nat n - 0)) with n by lia.
  destruct (fill2_block n nc Tb n nzero HT ltac:(lia) ltac:(unfold nc; lia)) as [HF GF].
  set (F := fill2 Tb (Sl (Bnd 0) (Bnd (Z.of_nat n))) (Sl (Bnd 0) (Bnd (Z.of_nat n))) nzero) in *.
  pose proof (init_loop0_tie n 0 F true HF ltac:(lia)) as E0. change (Z.of_nat 0) with 0%Z in E0. rewrite E0. clear E0.
  set (S0 := stores (fun k => k) (fun k => k) (fun _ => none_) (seq 0 n) F).
  assert (H0 : rect n nc S0) by (apply stores_rect, HF).
  pose proof (init_loop1_tie n 0 S0 true H0 ltac:(lia)) as E1. change (Z.of_nat 0) with 0%Z in E1. rewrite E1. clear E1.
  set (S1 := stores (fun p : nat * nat => fst p) (fun p => (n + snd p)%nat) (fun p => nsub nzero (get M (fst p) (snd p))) (cells 0 n) S0).
  assert (H1 : rect n nc S1) by (apply stores_rect, H0).
  pose proof (init_loop3_tie n 0 S1 true H1 ltac:(lia)) as E3. change (Z.of_nat 0) with 0%Z in E3. rewrite E3. clear E3.
  set (S3 := stores (fun k => k) (fun _ => (2 * n)%nat) (fun k => nsub nzero (vget d k)) (seq 0 n) S1).
  assert (H3 : rect n nc S3) by (apply stores_rect, H1).
  pose proof (init_loop4_tie n 0 S3 true H3 ltac:(lia)) as E4. change (Z.of_nat 0) with 0%Z in E4. rewrite E4. clear E4.
  set (S4 := stores (fun k => k) (fun _ => (2 * n + 1)%nat) (fun k => vget q k) (seq 0 n) S3).
  assert (H4 : rect n nc S4) by (apply stores_rect, H3).
  pose proof (init_loop5_tie n 0 basis true ltac:(lia)) as E5. change (zs (seq 0 0) ++ basis) with basis in E5.
  change (Z.of_nat 0) with 0%Z in E5. rewrite E5. clear E5. rewrite skipn_all2, app_nil_r by lia. cbn [Nat.add].
  f_equal. f_equal. cbn [initialize_tableau fst].
  destruct (tab_spec n nc (fun i j => if Nat.ltb j n then if Nat.eqb i j then none_ else nzero
              else if Nat.ltb j (2 * n) then nsub nzero (get M i (j - n))
              else if Nat.eqb j (2 * n) then nsub nzero (vget d i) else vget q i)) as [HTab GTab].
  apply (mat_ext n nc); [exact H4|exact HTab|]. intros i j Hi Hj. rewrite GTab by assumption.
  (* last column *)
  destruct (Nat.eq_dec j (2 * n + 1)) as [->|Hj1].
  { replace (Nat.ltb (2 * n + 1) n) with false by (symmetry; apply Nat.ltb_ge; lia).
    replace (Nat.ltb (2 * n + 1) (2 * n)) with false by (symmetry; apply Nat.ltb_ge; lia).
    replace (Nat.eqb (2 * n + 1) (2 * n)) with false by (symmetry; apply Nat.eqb_neq; lia).
    apply (stores_hit (fun k => k) (fun _ => (2 * n + 1)%nat) (fun k => vget q k) n nc (seq 0 n) S3 i H3).
    - apply in_seq. lia.
    - intros k Hk. apply in_seq in Hk. unfold nc. lia.
    - intros k Hk -> _. reflexivity. }
  unfold S4. rewrite (stores_miss _ _ _ n nc) by (try exact H3; intros k Hk; apply in_seq in Hk; unfold nc; lia).
  destruct (Nat.eq_dec j (2 * n)) as [->|Hj2].
  { replace (Nat.ltb (2 * n) n) with false by (symmetry; apply Nat.ltb_ge; lia).
    rewrite Nat.ltb_irrefl, Nat.eqb_refl.
    apply (stores_hit (fun k => k) (fun _ => (2 * n)%nat) (fun k => nsub nzero (vget d k)) n nc (seq 0 n) S1 i H1).
    - apply in_seq. lia.
    - intros k Hk. apply in_seq in Hk. unfold nc. lia.
    - intros k Hk -> _. reflexivity. }
  unfold S3. rewrite (stores_miss _ _ _ n nc) by (try exact H1; intros k Hk; apply in_seq in Hk; unfold nc; lia).
  assert (Hj3 : (j < 2 * n)%nat) by (unfold nc in Hj; lia).
  destruct (Nat.ltb j n) eqn:Ejn.
  - apply Nat.ltb_lt in Ejn. unfold S1.
    rewrite (stores_miss _ _ _ n nc); [|exact H0|].
    2:{ intros [a b] Hp. apply in_cells in Hp. cbn [fst snd]. unfold nc. lia. }
    destruct (Nat.eqb i j) eqn:Eij.
    + apply Nat.eqb_eq in Eij. subst j.
      apply (stores_hit (fun k => k) (fun k => k) (fun _ => none_) n nc (seq 0 n) F i HF).
      * apply in_seq. lia.
      * intros k Hk. apply in_seq in Hk. unfold nc. lia.
      * reflexivity.
    + apply Nat.eqb_neq in Eij. unfold S0.
      rewrite (stores_miss _ _ _ n nc) by (try exact HF; intros k Hk; apply in_seq in Hk; unfold nc; lia).
      rewrite GF by assumption. replace (Nat.ltb i n) with true by (symmetry; apply Nat.ltb_lt; lia).
      replace (Nat.ltb j n) with true by (symmetry; apply Nat.ltb_lt; lia). reflexivity.
  - apply Nat.ltb_ge in Ejn. replace (Nat.ltb j (2 * n)) with true by (symmetry; apply Nat.ltb_lt; lia).
    pose proof (stores_hit (fun p : nat * nat => fst p) (fun p => (n + snd p)%nat)
                  (fun p => nsub nzero (get M (fst p) (snd p))) n nc (cells 0 n) S0 (i, (j - n)%nat) H0) as Hh.
    cbn [fst snd] in Hh. replace (n + (j - n))%nat with j in Hh by lia. apply Hh.
    + apply in_cells. lia.
    + intros [a b] Hp. apply in_cells in Hp. cbn [fst snd]. unfold nc. lia.
    + intros [a b] Hp. cbn [fst snd]. intros -> Hb'. replace b with (j - n)%nat by lia. reflexivity.
Qed.
End Init.

Lemma Zleb_nat a b : (Z.of_nat a <=? Z.of_nat b)%Z = Nat.leb a b.
Proof. destruct (Nat.leb a b) eqn:E; [apply Nat.leb_le in E; apply Z.leb_le; lia|apply Nat.leb_gt in E; apply Z.leb_gt; lia]. Qed.
Lemma Zltb_nat a b : (Z.of_nat a <? Z.of_nat b)%Z = Nat.ltb a b.
Proof. destruct (Nat.ltb a b) eqn:E; [apply Nat.ltb_lt in E; apply Z.ltb_lt; lia|apply Nat.ltb_ge in E; apply Z.ltb_ge; lia]. Qed.
Lemma upd_nth_set_nth {A} : forall (l : list A) i v, upd_nth l i v = set_nth l i v.
Proof. induction l as [|x l IH]; intros [|i] v; cbn; reflexivity. Qed.

(* ------------------------------------------------------------------ the initial ratio loop of lcp_lemke *)
Lemma init_row_loop_tie (q d : list T) fea tolp tolr : forall f i pr rmin ok,
  (i + f <= length q)%nat -> (i + f <= length d)%nat ->
  exists rmin',
  gen_lcp_lemke_loop0 f (Z.of_nat i) (Z.of_nat pr) rmin ok q d fea tolp tolr =
    (Z.of_nat (init_row_loop q d tolr (seq i f) pr rmin), rmin', ok).
Proof.
  induction f as [|f IH]; intros i pr rmin ok Hq Hd; cbn [gen_lcp_lemke_loop0 seq init_row_loop].
  - exists rmin. reflexivity.
  - rewrite !inb_nat by lia. rewrite andb_true_r, Nat2Z.id. fold (vget q i). fold (vget d i). cbv zeta.
    replace (Z.of_nat i + 1)%Z with (Z.of_nat (S i)) by lia.
    destruct (nleb (ndiv (vget q i) (vget d i)) (nadd rmin tolr)); apply IH; lia.
Qed.
Lemma init_row_loop_range (q d : list T) tol : forall is pr rmin, init_row_loop q d tol is pr rmin = pr \/ In (init_row_loop q d tol is pr rmin) is.
Proof.
  induction is as [|i is IH]; intros pr rmin; cbn [init_row_loop]; [left; reflexivity|]. cbv zeta.
  destruct (nleb _ _).
  - destruct (IH i (ndiv (vget q i) (vget d i))) as [->|H]; right; [left; reflexivity|right; exact H].
  - destruct (IH pr rmin) as [H|H]; [left; exact H|right; right; exact H].
Qed.

(* ------------------------------------------------------------------ _get_solution *)
Section GetSol.
Variables (n : nat) (Tb : mat) (basis : list nat).
Hypothesis HT : rect n (2 * n + 2) Tb.
Hypothesis Hb : length basis = n.
Definition gs_step (z : list T) (i : nat) : list T :=
  let b := nth i basis 0%nat in
  if Nat.leb n b && Nat.ltb b (2 * n) then set_nth z (b - n) (get Tb i (2 * n + 1)) else z.
Lemma get_solution_loop_tie : forall f i z ok, length z = n -> (i + f <= n)%nat ->
  gen_lemke_get_solution_loop0 f (Z.of_nat i) z ok Tb (zs basis) (Z.of_nat n) = (fold_left gs_step (seq i f) z, ok).
Proof.
  induction f as [|f IH]; intros i z ok Hz Hi; cbn [gen_lemke_get_solution_loop0 seq fold_left]; [reflexivity|].
  destruct HT as [Hl Hr].
  rewrite inb_nat by (rewrite zs_length; lia). rewrite Nat2Z.id, nth_zs.
  replace (2 * Z.of_nat n)%Z with (Z.of_nat (2 * n)) by lia. rewrite Zleb_nat, Zltb_nat, andb_true_r.
  replace (Z.of_nat i + 1)%Z with (Z.of_nat (S i)) by lia. unfold gs_step at 2. cbv zeta.
  destruct (Nat.leb n (nth i basis 0%nat) && Nat.ltb (nth i basis 0%nat) (2 * n)) eqn:E.
  - apply andb_prop in E. destruct E as [E1 E2]. apply Nat.leb_le in E1. apply Nat.ltb_lt in E2.
    change (- (1))%Z with (-1)%Z. rewrite inb2_m1 by (rewrite ?Hr; lia).
    replace (Z.of_nat (nth i basis 0%nat) - Z.of_nat n)%Z with (Z.of_nat (nth i basis 0%nat - n)) by lia.
    rewrite inb_nat by lia. rewrite !andb_true_r, Nat2Z.id, get2_m1 by (rewrite ?Hr; lia). rewrite Hr by lia.
    replace (2 * n + 2 - 1)%nat with (2 * n + 1)%nat by lia. rewrite upd_nth_set_nth.
    apply IH; [rewrite <- upd_nth_set_nth, upd_nth_length; exact Hz|lia].
  - rewrite ?andb_true_r. apply IH; [exact Hz|lia].
Qed.
Theorem gen_lemke_get_solution_tie z : length z = n ->
  gen_lemke_get_solution Tb (zs basis) z = (get_solution n Tb basis, true).
Proof.
  intro Hz. unfold gen_lemke_get_solution, get_solution. cbv zeta. rewrite fill1_all, Hz.
  replace (Z.to_nat (Z.of_nat n - 0)) with n by lia.
  pose proof (get_solution_loop_tie n 0 (repeat nzero n) true (repeat_length _ _) ltac:(lia)) as E.
  change (Z.of_nat 0) with 0%Z in E. rewrite E. reflexivity.
Qed.
End GetSol.

(* ------------------------------------------------------------------ the complementary pivoting loop *)
Section Loop.
Variables (inf_ fea tolp tolr : T) (n : nat).
Hypothesis Hn : (0 < n)%nat.
Let nc := (2 * n + 2)%nat.

(* np.inf acts as +infinity on the ratios of the lexicographic test at every tableau of the model's run *)
Definition lex_hyp (Tb : mat) (pv : nat) : Prop :=
  forall i j, (i < n)%nat -> (j < nc)%nat -> nleb (get Tb i pv) tolp = false ->
    inf_like inf_ tolr (ndiv (get Tb i j) (get Tb i pv)).
Fixpoint ltraj_ok (fuel : nat) (Tb : mat) (basis : list nat) (pc : nat) : Prop :=
  match fuel with
  | O => True
  | S f =>
    lex_hyp Tb pc /\
    let '(found, pr) := lex_min_ratio_test Tb pc 0 tolp tolr in
    if negb found then True
    else let leaving := nth pr basis 0%nat in
         if Nat.eqb leaving (2 * n) then True
         else ltraj_ok f (pivoting Tb pc pr) (set_nth basis pr pc)
                       (if Nat.ltb leaving n then leaving + n else leaving - n)%nat
  end.

Lemma lemke_loop_tie : forall f (Tb : mat) (basis : list nat) (argmins : list Z) (prZ : Z) pc ni ok mx,
  rect n nc Tb -> length basis = n -> length argmins = n ->
  (forall b, In b basis -> (b <= 2 * n)%nat) -> (pc < 2 * n)%nat ->
  (f = 0%nat \/ mx = Z.of_nat (ni + f)) -> ltraj_ok f Tb basis pc ->
  forall Tb' bs' succ st ni', lemke_loop f n tolp tolr Tb basis pc ni = (Tb', bs', succ, st, ni') ->
  exists pr' am' pc',
    gen_lcp_lemke_loop1 f prZ argmins false 1 Tb (zs basis) (Z.of_nat ni) (Z.of_nat pc) ok mx fea tolp tolr
        (Z.of_nat n) (Z.of_nat (2 * n)) inf_
      = (pr', am', succ, Z.of_nat st, Tb', zs bs', Z.of_nat ni', pc', ok)
    /\ rect n nc Tb' /\ length bs' = n.
Proof.
  induction f as [|f IH]; intros Tb basis argmins prZ pc ni ok mx HT Hb Ha Hbs Hpc Hmx Htr Tb' bs' succ st ni' Em;
    cbn [gen_lcp_lemke_loop1 lemke_loop] in *.
  - injection Em as <- <- <- <- <-. exists prZ, argmins, (Z.of_nat pc). repeat split; try assumption; apply HT.
  - destruct Hmx as [Hmx|Hmx]; [discriminate|]. subst mx.
    replace (Z.of_nat ni <? Z.of_nat (ni + S f))%Z with true by (symmetry; apply Z.ltb_lt; lia).
    destruct Htr as [Hlex Htr]. destruct HT as [Hl Hr].
    pose proof (gen_lex_min_ratio_test_tie Tb n nc pc inf_ tolp tolr (conj Hl Hr) Hn ltac:(unfold nc; lia) Hlex
                  0%nat argmins ltac:(unfold nc; lia) Ha) as Elex.
    cbv zeta in Elex. change (Z.of_nat 0) with 0%Z in Elex.
    destruct (gen_lex_min_ratio_test inf_ Tb (Z.of_nat pc) 0 argmins tolp tolr) as [[[gf gr] ga] gok].
    cbn [fst snd] in Elex. destruct Elex as (E1 & -> & E3).
    destruct (lex_min_ratio_test Tb pc 0 tolp tolr) as [found pr] eqn:Er.
    cbn [fst snd] in E1. injection E1 as -> ->. rewrite andb_true_r.
    destruct found; cbn [negb] in *.
    2:{ injection Em as <- <- <- <- <-. exists (Z.of_nat pr), ga, (Z.of_nat pc). repeat split; assumption. }
    assert (Hpr : (pr < n)%nat).
    { unfold lex_min_ratio_test, nrows in Er. rewrite Hl in Er. apply lex_min_ratio_test_n_range in Er. exact Er. }
    rewrite (gen_pivoting_tie n nc Tb pc pr (conj Hl Hr)) by (unfold nc; lia). cbv beta iota zeta.
    rewrite !inb_nat by (rewrite zs_length; lia). rewrite !andb_true_r, Nat2Z.id, nth_zs, upd_nth_zs, upd_nth_set_nth.
    rewrite Zeqb_nat. replace (Z.of_nat ni + 1)%Z with (Z.of_nat (S ni)) by lia.
    assert (Hleave : (nth pr basis 0 <= 2 * n)%nat) by (apply Hbs, nth_In; lia).
    assert (HT' : rect n nc (pivoting Tb pc pr)) by (apply rect_pivoting; [split; assumption|exact Hpr]).
    assert (Hb' : length (set_nth basis pr pc) = n) by (rewrite <- upd_nth_set_nth, upd_nth_length; exact Hb).
    destruct (Nat.eqb (nth pr basis 0%nat) (2 * n)) eqn:Eart.
    + injection Em as <- <- <- <- <-. exists (Z.of_nat pr), ga, (Z.of_nat pc). repeat split; try assumption; apply HT'.
    + apply Nat.eqb_neq in Eart. rewrite Zltb_nat.
      set (pc2 := (if Nat.ltb (nth pr basis 0) n then nth pr basis 0 + n else nth pr basis 0 - n)%nat) in *.
      assert (Epc2 : (if Nat.ltb (nth pr basis 0%nat) n
                      then (Z.of_nat (nth pr basis 0%nat) + Z.of_nat n, ok)
                      else (Z.of_nat (nth pr basis 0%nat) - Z.of_nat n, ok))%Z = (Z.of_nat pc2, ok)).
      { unfold pc2. destruct (Nat.ltb (nth pr basis 0%nat) n) eqn:E; [f_equal; lia|]. apply Nat.ltb_ge in E. f_equal. lia. }
      rewrite Epc2. replace (Z.of_nat (ni + S f)) with (Z.of_nat (S ni + f)) by lia.
      apply IH; try assumption.
      * intros b Hin. rewrite <- upd_nth_set_nth in Hin. apply (In_nth _ _ 0%nat) in Hin.
        destruct Hin as (k & Hk & <-). rewrite upd_nth_length in Hk.
        destruct (Nat.eq_dec k pr) as [->|Hne]; [rewrite nth_upd_nth_eq by lia; lia|].
        rewrite nth_upd_nth_neq by exact Hne. apply Hbs, nth_In. lia.
      * unfold pc2. destruct (Nat.ltb (nth pr basis 0%nat) n) eqn:E; [apply Nat.ltb_lt in E|apply Nat.ltb_ge in E]; lia.
      * right. reflexivity.
Qed.

(* the trajectory hypothesis is decidable: checker and soundness *)
Definition inf_likeb (x : T) : bool := negb (nltb (nadd inf_ tolr) x) && nltb x (nsub inf_ tolr).
Definition lex_hypb (Tb : mat) (pv : nat) : bool :=
  forallb (fun i => forallb (fun j => nleb (get Tb i pv) tolp || inf_likeb (ndiv (get Tb i j) (get Tb i pv)))
                            (seq 0 nc)) (seq 0 n).
Fixpoint ltraj_okb (fuel : nat) (Tb : mat) (basis : list nat) (pc : nat) : bool :=
  match fuel with
  | O => true
  | S f =>
    lex_hypb Tb pc &&
    let '(found, pr) := lex_min_ratio_test Tb pc 0 tolp tolr in
    if negb found then true
    else let leaving := nth pr basis 0%nat in
         if Nat.eqb leaving (2 * n) then true
         else ltraj_okb f (pivoting Tb pc pr) (set_nth basis pr pc)
                        (if Nat.ltb leaving n then leaving + n else leaving - n)%nat
  end.
Lemma lex_hypb_sound Tb pv : lex_hypb Tb pv = true -> lex_hyp Tb pv.
Proof.
  clear Hn. intros Hb i j Hi Hj Hp. unfold lex_hypb in Hb. rewrite forallb_forall in Hb.
  specialize (Hb i ltac:(apply in_seq; lia)). rewrite forallb_forall in Hb.
  specialize (Hb j ltac:(apply in_seq; lia)). rewrite Hp in Hb. cbn [orb] in Hb.
  unfold inf_likeb in Hb. apply andb_prop in Hb. destruct Hb as [H1 H2]. apply negb_true_iff in H1. split; assumption.
Qed.
Lemma ltraj_okb_sound : forall f Tb basis pc, ltraj_okb f Tb basis pc = true -> ltraj_ok f Tb basis pc.
Proof.
  induction f as [|f IH]; intros Tb basis pc Hb; cbn [ltraj_ok ltraj_okb] in *; [exact I|].
  apply andb_prop in Hb. destruct Hb as [H1 H2]. split; [apply lex_hypb_sound, H1|].
  destruct (lex_min_ratio_test Tb pc 0 tolp tolr) as [found pr]. destruct (negb found); [exact I|].
  cbv zeta in *. destruct (Nat.eqb (nth pr basis 0%nat) (2 * n)); [exact I|]. apply IH, H2.
Qed.
End Loop.

(* ------------------------------------------------------------------ lcp_lemke *)
Definition lemke_traj_ok (inf_ tolp tolr : T) (n : nat) (M : mat) (q d : list T) (max_iter : nat) : Prop :=
  forallb (fun x => nleb nzero x) q = true \/
  let '(tb0, basis0) := initialize_tableau n M q d in
  let pr := init_row n q d tolr in
  ltraj_ok inf_ tolp tolr n (max_iter - 1) (pivoting tb0 (2 * n) pr) (set_nth basis0 pr (2 * n)%nat) (pr + n)%nat.

Definition lemke_traj_okb (inf_ tolp tolr : T) (n : nat) (M : mat) (q d : list T) (max_iter : nat) : bool :=
  forallb (fun x => nleb nzero x) q ||
  let '(tb0, basis0) := initialize_tableau n M q d in
  let pr := init_row n q d tolr in
  ltraj_okb inf_ tolp tolr n (max_iter - 1) (pivoting tb0 (2 * n) pr) (set_nth basis0 pr (2 * n)%nat) (pr + n)%nat.
Lemma lemke_traj_okb_sound inf_ tolp tolr n M q d max_iter :
  lemke_traj_okb inf_ tolp tolr n M q d max_iter = true -> lemke_traj_ok inf_ tolp tolr n M q d max_iter.
Proof.
  unfold lemke_traj_okb, lemke_traj_ok. intro H. apply orb_prop in H. destruct H as [H|H]; [left; exact H|right].
  destruct (initialize_tableau n M q d) as [tb0 basis0]. cbv zeta in *. apply ltraj_okb_sound, H.
Qed.

Theorem gen_lcp_lemke_tie (inf_ fea tolp tolr : T) (n : nat) (M : mat) (q d : list T) (max_iter : nat)
        (Tb : mat) (basis : list Z) (z : list T) :
  rect n n M -> length q = n -> length d = n -> rect n (2 * n + 2) Tb -> length basis = n -> length z = n ->
  (1 <= max_iter)%nat -> lemke_traj_ok inf_ tolp tolr n M q d max_iter ->
  let r := gen_lcp_lemke inf_ M q d (Z.of_nat max_iter) fea tolp tolr Tb basis z in
  let '(zm, succ, st, ni) := lcp_lemke n M q d max_iter tolp tolr in
  fst (fst (fst (fst r))) = (succ, Z.of_nat st, Z.of_nat ni) /\ snd (fst r) = zm /\ snd r = true.
Proof.
  intros HM Hq Hd HT Hb Hz Hmx Htraj. cbv zeta. unfold gen_lcp_lemke, lcp_lemke. cbv zeta.
  destruct (forallb (fun x => nleb nzero x) q) eqn:Eq.
  - rewrite fill1_all, Hz. cbn [fst snd]. repeat split.
  - destruct Htraj as [Htraj|Htraj]; [congruence|].
    assert (Hn : (0 < n)%nat) by (destruct q; [discriminate|cbn in Hq; lia]).
    assert (Hnr : nrows2 M = Z.of_nat n) by (unfold nrows2; destruct HM as [-> _]; reflexivity). rewrite Hnr.
    rewrite (gen_lemke_initialize_tableau_tie n M q d HM Hq Hd Tb basis HT Hb). cbv beta iota zeta.
    unfold lemke_from. destruct (initialize_tableau n M q d) as [tb0 basis0] eqn:Einit.
    assert (Hb0 : basis0 = seq 0 n) by (unfold initialize_tableau in Einit; injection Einit as _ <-; reflexivity).
    assert (HT0 : rect n (2 * n + 2) tb0).
    { unfold initialize_tableau in Einit. injection Einit as <- _. apply tab_spec. }
    cbn [fst]. rewrite !inb_0 by lia. cbn [andb]. change (Z.to_nat 0) with 0%nat.
    replace (Z.to_nat (Z.of_nat n - 1)) with (n - 1)%nat by lia.
    destruct (init_row_loop_tie q d fea tolp tolr (n - 1) 1 0 (ndiv (nth 0 q nzero) (nth 0 d nzero)) true ltac:(lia) ltac:(lia))
      as (rm' & E0).
    change (Z.of_nat 1) with 1%Z in E0. change (Z.of_nat 0) with 0%Z in E0. rewrite E0. clear E0.
    fold (vget q 0). fold (vget d 0). fold (init_row n q d tolr).
    set (pr := init_row n q d tolr) in *.
    assert (Hpr : (pr < n)%nat).
    { unfold pr, init_row. destruct (init_row_loop_range q d tolr (seq 1 (n - 1)) 0 (ndiv (vget q 0) (vget d 0))) as [->|H]; [lia|].
      apply in_seq in H. lia. }
    replace (2 * Z.of_nat n)%Z with (Z.of_nat (2 * n)) by lia.
    rewrite (gen_pivoting_tie n (2 * n + 2) tb0 (2 * n) pr HT0) by lia. cbv beta iota zeta.
    rewrite inb_nat by (rewrite zs_length, seq_length; lia). rewrite !andb_true_l, Nat2Z.id, upd_nth_zs. change (@upd_nth nat) with (@set_nth nat).
    replace (Z.of_nat pr + Z.of_nat n)%Z with (Z.of_nat (pr + n)) by lia. change (0 + 1)%Z with (Z.of_nat 1).
    rewrite Nat2Z.id. subst basis0.
    destruct (lemke_loop (max_iter - 1) n tolp tolr (pivoting tb0 (2 * n) pr) (set_nth (seq 0 n) pr (2 * n)%nat) (pr + n)%nat 1%nat)
      as [[[[Tb' bs'] succ] st] ni'] eqn:Eloop.
    assert (P1 : rect n (2 * n + 2) (pivoting tb0 (2 * n) pr)) by (apply rect_pivoting; [exact HT0|exact Hpr]).
    assert (P2 : length (set_nth (seq 0 n) pr (2 * n)%nat) = n)
      by (rewrite <- upd_nth_set_nth, upd_nth_length, seq_length; reflexivity).
    assert (P3 : forall b, In b (set_nth (seq 0 n) pr (2 * n)%nat) -> (b <= 2 * n)%nat).
    { intros b Hin. rewrite <- upd_nth_set_nth in Hin. apply (In_nth _ _ 0%nat) in Hin.
      destruct Hin as (k & Hk & <-). rewrite upd_nth_length, seq_length in Hk.
      destruct (Nat.eq_dec k pr) as [->|Hne]; [rewrite nth_upd_nth_eq by (rewrite seq_length; lia); lia|].
      rewrite nth_upd_nth_neq by exact Hne. rewrite seq_nth by lia. lia. }
    assert (P4 : (max_iter - 1 = 0)%nat \/ Z.of_nat max_iter = Z.of_nat (1 + (max_iter - 1))) by (right; f_equal; lia).
    destruct (lemke_loop_tie inf_ fea tolp tolr n Hn (max_iter - 1) (pivoting tb0 (2 * n) pr) (set_nth (seq 0 n) pr (2 * n)%nat)
                (repeat 0%Z n) (Z.of_nat pr) (pr + n)%nat 1%nat true (Z.of_nat max_iter) P1 P2 (repeat_length _ _) P3 ltac:(lia) P4 Htraj
                Tb' bs' succ st ni' Eloop) as (pr' & am' & pc' & E & HT' & Hb').
    replace (Z.to_nat (Z.of_nat max_iter - 1)) with (max_iter - 1)%nat by lia. rewrite E. cbv beta iota zeta.
    rewrite (gen_lemke_get_solution_tie n Tb' bs' HT' Hb' z Hz). cbn [fst snd]. repeat split.
Qed.
End Tie.

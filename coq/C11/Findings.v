(* Faithful model of the OLD initial ratio loop of lcp_lemke (before commit 422719e):
       if ratio <= ratio_min + tol_ratio_diff: pivrow = i; ratio = ratio_min
   (ratio_min is never updated), and the refutation of `success => solution` for it. *)
From Coq Require Import List Bool Arith QArith.
From QE Require Import Base.Num Base.Pivot C11.Model.
Import ListNotations.

Section Old.
Context {T : Type} `{Num T}.
Fixpoint init_row_loop_old (q d : list T) (tol : T) (is : list nat) (pivrow : nat) (rmin : T) : nat :=
  match is with
  | [] => pivrow
  | i :: r => let ratio := ndiv (vget q i) (vget d i) in
              if nleb ratio (nadd rmin tol) then init_row_loop_old q d tol r i rmin
              else init_row_loop_old q d tol r pivrow rmin
  end.
Definition init_row_old (n : nat) (q d : list T) (tol : T) : nat :=
  init_row_loop_old q d tol (seq 1 (n - 1)) 0%nat (ndiv (vget q 0%nat) (vget d 0%nat)).
Definition lcp_lemke_old (n : nat) (M : mat) (q d : list T) (max_iter : nat) (tolp tolr : T)
  : list T * bool * nat * nat :=
  if forallb (fun x => nleb nzero x) q then (repeat nzero n, true, 0%nat, 0%nat)
  else
    let '(tb, bs, success, status, ni) :=
        lemke_from n M q d max_iter tolp tolr (init_row_old n q d tolr) in
    (get_solution n tb bs, success, status, ni).
End Old.

Open Scope Q_scope.
Definition D1_M : list (list Q) := [[2; -1; 0]; [-1; 7; 4]; [0; 4; 5]].
Definition D1_q : list Q := [-2; -5; -3].
Definition D1_d : list Q := [1; 1; 1].

(* the old loop picks row 2 (ratios -2,-5,-3: -3 <= -2) instead of the argmin row 1 *)
Lemma old_loop_picks_row2 : init_row_old 3 D1_q D1_d 0 = 2%nat /\ init_row 3 D1_q D1_d 0 = 1%nat.
Proof. vm_compute. split; reflexivity. Qed.

(* success is reported with a negative component of z: the full statement
   `success -> z >= 0` is false for the old code *)
Lemma lemke_success_refuted :
  exists n M q d max_iter,
    (forall i, (i < n)%nat -> 0 < vget d i) /\
    let '(z, success, status, _) := lcp_lemke_old n M q d max_iter 0 0 in
    success = true /\ status = 0%nat /\ z = [17 # 11; 12 # 11; -3 # 11] /\ vget z 2 < 0.
Proof.
  exists 3%nat, D1_M, D1_q, D1_d, 1000%nat. split.
  - intros i Hi. destruct i as [|[|[|i]]]; vm_compute; try reflexivity.
    exfalso. do 3 apply Nat.succ_lt_mono in Hi. inversion Hi.
  - vm_compute. repeat split; reflexivity.
Qed.

(* the repaired loop solves the same instance *)
Lemma repaired_on_witness :
  lcp_lemke 3 D1_M D1_q D1_d 1000 0 0 = ([19 # 13; 12 # 13; 0], true, 0%nat, 3%nat).
Proof. vm_compute. reflexivity. Qed.

(* C13 proofs: Rouwenhorst matrix (row moments by induction on the recursive construction),
   Tauchen rows for an arbitrary monotone cdf, estimate_mc counting. *)
From Coq Require Import ZArith QArith Qabs List Bool Lia Lqa Setoid Morphisms ZifyBool Sorted.
From QE Require Import Base.Num C16.Model C13.Model.
Import ListNotations.
Open Scope Q_scope.

(* ------------------------------------------------------------------ basics *)
Lemma natQ_S n : natQ (S n) == natQ n + 1.
Proof. unfold natQ. rewrite Nat2Z.inj_succ. unfold Z.succ. rewrite inject_Z_plus. reflexivity. Qed.
Lemma natQ_nonneg n : 0 <= natQ n.
Proof. unfold natQ. change 0 with (inject_Z 0). rewrite <- Zle_Qle. lia. Qed.
Lemma natQ_pos n : (0 < n)%nat -> 0 < natQ n.
Proof. intro. unfold natQ. change 0 with (inject_Z 0). rewrite <- Zlt_Qlt. lia. Qed.
Lemma natQ_0 : natQ 0 == 0. Proof. reflexivity. Qed.

Lemma of_nat_natQ n : of_nat (T:=Q) n == natQ n.
Proof.
  induction n as [|n IH]; [reflexivity|].
  cbn [of_nat]. change (of_nat (T:=Q) (S n)) with (Qaddr (of_nat n) 1). rewrite Qaddr_eq, IH, natQ_S. reflexivity.
Qed.

Lemma nadd_Q a b : nadd (T:=Q) a b = Qaddr a b. Proof. reflexivity. Qed.
Lemma nmul_Q a b : nmul (T:=Q) a b = Qmulr a b. Proof. reflexivity. Qed.
Lemma nsub_Q a b : nsub (T:=Q) a b = Qsubr a b. Proof. reflexivity. Qed.
Lemma ndiv_Q a b : ndiv (T:=Q) a b = Qdivr a b. Proof. reflexivity. Qed.
Lemma nzero_Q : nzero (T:=Q) = 0. Proof. reflexivity. Qed.
Lemma none_Q : none_ (T:=Q) = 1. Proof. reflexivity. Qed.
Lemma nadd_Qeq a b : nadd (T:=Q) a b == a + b. Proof. apply Qaddr_eq. Qed.
Lemma nmul_Qeq a b : nmul (T:=Q) a b == a * b. Proof. apply Qmulr_eq. Qed.
Lemma nsub_Qeq a b : nsub (T:=Q) a b == a - b. Proof. apply Qsubr_eq. Qed.
Lemma ndiv_Qeq a b : ndiv (T:=Q) a b == a / b. Proof. apply Qdivr_eq. Qed.
Lemma ntwo_Q : ntwo (T:=Q) == 2.
Proof. unfold ntwo. rewrite nadd_Q, Qaddr_eq, none_Q. reflexivity. Qed.
Lemma sub1_Q p : nsub (T:=Q) none_ p == 1 - p.
Proof. rewrite nsub_Q, Qsubr_eq, none_Q. reflexivity. Qed.

(* weighted row sums: wsum w k r = sum_j w(k+j) r_j *)
Fixpoint wsum (w : nat -> Q) (k : nat) (r : list Q) : Q :=
  match r with [] => 0 | x :: r' => w k * x + wsum w (S k) r' end.

Definition w0 : nat -> Q := fun _ => 1.
Definition w1 : nat -> Q := natQ.
Definition w2 : nat -> Q := fun j => natQ j * natQ j.

Lemma wsum_ext w w' : (forall j, w j == w' j) -> forall r k, wsum w k r == wsum w' k r.
Proof. intros E r. induction r as [|x r IH]; intro k; cbn; [reflexivity|]. rewrite E, IH. reflexivity. Qed.

Lemma wsum_scale w c : forall r k, wsum w k (scale (T:=Q) c r) == c * wsum w k r.
Proof.
  induction r as [|x r IH]; intro k; cbn [scale map wsum]; [ring|].
  rewrite nmul_Q, Qmulr_eq. fold (scale (T:=Q) c r). rewrite IH. ring.
Qed.

Lemma wsum_vadd w : forall a b k, length a = length b ->
  wsum w k (vadd (T:=Q) a b) == wsum w k a + wsum w k b.
Proof.
  induction a as [|x a IH]; intros [|y b] k L; cbn [length] in L; try discriminate; cbn [vadd wsum]; [ring|].
  rewrite nadd_Q, Qaddr_eq, IH by lia. ring.
Qed.

Lemma vadd_length : forall (a b : list Q), length a = length b -> length (vadd a b) = length a.
Proof. induction a as [|x a IH]; intros [|y b] L; cbn in *; try discriminate; auto. Qed.

Lemma wsum_app0 w : forall r k, wsum w k (r ++ [nzero (T:=Q)]) == wsum w k r.
Proof. induction r as [|x r IH]; intro k; cbn [app wsum]; [rewrite nzero_Q; ring|]. rewrite IH. reflexivity. Qed.

Lemma wsum_cons0 w r k : wsum w k (nzero (T:=Q) :: r) == wsum w (S k) r.
Proof. cbn [wsum]. rewrite nzero_Q. ring. Qed.

Lemma wsum_zrow w : forall n k, wsum w k (zrow (T:=Q) n) == 0.
Proof. induction n as [|n IH]; intro k; cbn [zrow repeat wsum]; [reflexivity|]. fold (zrow (T:=Q) n). rewrite IH, nzero_Q. ring. Qed.

Lemma wsum_halve w : forall r k, wsum w k (halve (T:=Q) r) == wsum w k r / 2.
Proof.
  induction r as [|x r IH]; intro k; cbn [halve map wsum]; [reflexivity|].
  rewrite ndiv_Q, Qdivr_eq. fold (halve (T:=Q) r). rewrite IH, ntwo_Q. field.
Qed.

Lemma wsum_shift w : forall r k, wsum w (S k) r == wsum (fun j => w (S j)) k r.
Proof. induction r as [|x r IH]; intro k; cbn; [reflexivity|]. rewrite IH. reflexivity. Qed.

Lemma wsum_lin (a b : Q) (u v : nat -> Q) : forall r k,
  wsum (fun j => a * u j + b * v j) k r == a * wsum u k r + b * wsum v k r.
Proof. induction r as [|x r IH]; intro k; cbn; [ring|]. rewrite IH. ring. Qed.

(* shifted moments *)
Lemma w0_shift r k : wsum w0 (S k) r == wsum w0 k r.
Proof. rewrite wsum_shift. apply wsum_ext. reflexivity. Qed.
Lemma w1_shift r k : wsum w1 (S k) r == wsum w1 k r + wsum w0 k r.
Proof.
  rewrite wsum_shift.
  rewrite (wsum_ext _ (fun j => 1 * w1 j + 1 * w0 j)).
  - rewrite wsum_lin. ring.
  - intro j. unfold w1, w0. rewrite natQ_S. ring.
Qed.
Lemma w2_shift r k : wsum w2 (S k) r == wsum w2 k r + 2 * wsum w1 k r + wsum w0 k r.
Proof.
  rewrite wsum_shift.
  rewrite (wsum_ext _ (fun j => 1 * w2 j + 1 * (2 * w1 j + 1 * w0 j))).
  - rewrite wsum_lin. rewrite (wsum_lin 2 1 w1 w0). ring.
  - intro j. unfold w2, w1, w0. rewrite natQ_S. ring.
Qed.

Lemma scale_length c (r : list Q) : length (scale c r) = length r.
Proof. apply map_length. Qed.
Lemma halve_length (r : list Q) : length (halve r) = length r.
Proof. apply map_length. Qed.
Lemma zrow_length n : length (zrow (T:=Q) n) = n.
Proof. apply repeat_length. Qed.
Lemma blk1_length p (r : list Q) : length (blk1 p r) = S (length r).
Proof. unfold blk1. rewrite app_length, scale_length. cbn. lia. Qed.
Lemma blk2_length p (r : list Q) : length (blk2 p r) = S (length r).
Proof. unfold blk2. cbn. rewrite scale_length. reflexivity. Qed.
Lemma blk3_length p (r : list Q) : length (blk3 p r) = S (length r).
Proof. unfold blk3. rewrite app_length, scale_length. cbn. lia. Qed.
Lemma blk4_length p (r : list Q) : length (blk4 p r) = S (length r).
Proof. unfold blk4. cbn. rewrite scale_length. reflexivity. Qed.

Lemma sum4_length (a b c d : list Q) n :
  length a = n -> length b = n -> length c = n -> length d = n -> length (sum4 a b c d) = n.
Proof.
  intros. unfold sum4.
  assert (L1 : length (vadd a b) = n) by (rewrite vadd_length; congruence).
  assert (L2 : length (vadd (vadd a b) c) = n) by (rewrite vadd_length; congruence).
  rewrite vadd_length; congruence.
Qed.

Lemma wsum_sum4 w (a b c d : list Q) n k :
  length a = n -> length b = n -> length c = n -> length d = n ->
  wsum w k (sum4 a b c d) == wsum w k a + wsum w k b + wsum w k c + wsum w k d.
Proof.
  intros. unfold sum4.
  assert (L1 : length (vadd a b) = n) by (rewrite vadd_length; congruence).
  assert (L2 : length (vadd (vadd a b) c) = n) by (rewrite vadd_length; congruence).
  rewrite !wsum_vadd by congruence. reflexivity.
Qed.

Lemma wsum_blk1 w p r k : wsum w k (blk1 (T:=Q) p r) == p * wsum w k r.
Proof. unfold blk1. rewrite wsum_app0, wsum_scale. reflexivity. Qed.
Lemma wsum_blk2 w p r k : wsum w k (blk2 (T:=Q) p r) == (1 - p) * wsum w (S k) r.
Proof. unfold blk2. rewrite wsum_cons0, wsum_scale, sub1_Q. reflexivity. Qed.
Lemma wsum_blk3 w q r k : wsum w k (blk3 (T:=Q) q r) == (1 - q) * wsum w k r.
Proof. unfold blk3. rewrite wsum_app0, wsum_scale, sub1_Q. reflexivity. Qed.
Lemma wsum_blk4 w q r k : wsum w k (blk4 (T:=Q) q r) == q * wsum w (S k) r.
Proof. unfold blk4. rewrite wsum_cons0, wsum_scale. reflexivity. Qed.

(* the three kinds of rows of rw_step *)
Definition row_first (p : Q) (r : list Q) := sum4 (blk1 p r) (blk2 p r) (zrow (S (length r))) (zrow (S (length r))).
Definition row_mid (p q : Q) (r prev : list Q) := halve (sum4 (blk1 p r) (blk2 p r) (blk3 q prev) (blk4 q prev)).
Definition row_last (q : Q) (prev : list Q) := sum4 (zrow (S (length prev))) (zrow (S (length prev))) (blk3 q prev) (blk4 q prev).

Lemma wsum_row_first w p r :
  wsum w 0 (row_first p r) == p * wsum w 0 r + (1 - p) * wsum w 1 r.
Proof.
  unfold row_first. rewrite (wsum_sum4 w _ _ _ _ (S (length r)));
    rewrite ?blk1_length, ?blk2_length, ?zrow_length; try reflexivity.
  rewrite wsum_blk1, wsum_blk2, !wsum_zrow. ring.
Qed.
Lemma wsum_row_last w q r :
  wsum w 0 (row_last q r) == (1 - q) * wsum w 0 r + q * wsum w 1 r.
Proof.
  unfold row_last. rewrite (wsum_sum4 w _ _ _ _ (S (length r)));
    rewrite ?blk3_length, ?blk4_length, ?zrow_length; try reflexivity.
  rewrite wsum_blk3, wsum_blk4, !wsum_zrow. ring.
Qed.
Lemma wsum_row_mid w p q r prev : length r = length prev ->
  wsum w 0 (row_mid p q r prev) ==
  (p * wsum w 0 r + (1 - p) * wsum w 1 r + (1 - q) * wsum w 0 prev + q * wsum w 1 prev) / 2.
Proof.
  intro L. unfold row_mid. rewrite wsum_halve.
  rewrite (wsum_sum4 w _ _ _ _ (S (length r)));
    rewrite ?blk1_length, ?blk2_length, ?blk3_length, ?blk4_length; try congruence.
  rewrite wsum_blk1, wsum_blk2, wsum_blk3, wsum_blk4. reflexivity.
Qed.
Lemma row_first_length p r : length (row_first p r) = S (length r).
Proof. apply sum4_length; rewrite ?blk1_length, ?blk2_length, ?zrow_length; reflexivity. Qed.
Lemma row_last_length q r : length (row_last q r) = S (length r).
Proof. apply sum4_length; rewrite ?blk3_length, ?blk4_length, ?zrow_length; reflexivity. Qed.
Lemma row_mid_length p q r prev : length r = length prev -> length (row_mid p q r prev) = S (length r).
Proof.
  intro L. unfold row_mid. rewrite halve_length.
  apply sum4_length; rewrite ?blk1_length, ?blk2_length, ?blk3_length, ?blk4_length; congruence.
Qed.

(* ------------------------------------------------------------------ non-negativity *)
Definition nonneg (r : list Q) : Prop := Forall (fun x => 0 <= x) r.

Lemma nonneg_scale c r : 0 <= c -> nonneg r -> nonneg (scale c r).
Proof.
  intros Hc H. unfold scale. induction H; cbn [map]; constructor; auto.
  rewrite nmul_Q, Qmulr_eq. apply Qmult_le_0_compat; assumption.
Qed.
Lemma nonneg_vadd : forall a b, nonneg a -> nonneg b -> nonneg (vadd a b).
Proof.
  induction a as [|x a IH]; intros [|y b] Ha Hb; cbn [vadd]; try constructor.
  - inversion Ha; inversion Hb; subst. rewrite nadd_Q, Qaddr_eq. lra.
  - inversion Ha; inversion Hb; subst. apply IH; assumption.
Qed.
Lemma nonneg_zrow n : nonneg (zrow (T:=Q) n).
Proof. induction n; cbn [zrow repeat]; constructor; [rewrite nzero_Q; lra|assumption]. Qed.
Lemma nonneg_app0 r : nonneg r -> nonneg (r ++ [nzero (T:=Q)]).
Proof. intro H. apply Forall_app. split; [assumption|]. constructor; [rewrite nzero_Q; lra|constructor]. Qed.
Lemma nonneg_cons0 r : nonneg r -> nonneg (nzero (T:=Q) :: r).
Proof. intro. constructor; [rewrite nzero_Q; lra|assumption]. Qed.
Lemma nonneg_halve r : nonneg r -> nonneg (halve r).
Proof.
  intro H. unfold halve. induction H; cbn [map]; constructor; auto.
  rewrite ndiv_Q, Qdivr_eq, ntwo_Q. apply Qle_shift_div_l; lra.
Qed.
Lemma nonneg_sum4 a b c d : nonneg a -> nonneg b -> nonneg c -> nonneg d -> nonneg (sum4 a b c d).
Proof. intros. unfold sum4. repeat apply nonneg_vadd; assumption. Qed.

Lemma sub1_nonneg p : p <= 1 -> 0 <= nsub (T:=Q) none_ p.
Proof. intro. rewrite sub1_Q. lra. Qed.

Lemma nonneg_row_first p r : 0 <= p <= 1 -> nonneg r -> nonneg (row_first p r).
Proof.
  intros [H0 H1] H. apply nonneg_sum4; try apply nonneg_zrow.
  - apply nonneg_app0, nonneg_scale; assumption.
  - apply nonneg_cons0, nonneg_scale; [apply sub1_nonneg|]; assumption.
Qed.
Lemma nonneg_row_last q r : 0 <= q <= 1 -> nonneg r -> nonneg (row_last q r).
Proof.
  intros [H0 H1] H. apply nonneg_sum4; try apply nonneg_zrow.
  - apply nonneg_app0, nonneg_scale; [apply sub1_nonneg|]; assumption.
  - apply nonneg_cons0, nonneg_scale; assumption.
Qed.
Lemma nonneg_row_mid p q r prev : 0 <= p <= 1 -> 0 <= q <= 1 -> nonneg r -> nonneg prev ->
  nonneg (row_mid p q r prev).
Proof.
  intros [? ?] [? ?] ? ?. apply nonneg_halve, nonneg_sum4.
  - apply nonneg_app0, nonneg_scale; assumption.
  - apply nonneg_cons0, nonneg_scale; [apply sub1_nonneg|]; assumption.
  - apply nonneg_app0, nonneg_scale; [apply sub1_nonneg|]; assumption.
  - apply nonneg_cons0, nonneg_scale; assumption.
Qed.

(* ------------------------------------------------------------------ induction over the construction *)
Fixpoint rows_sat (R : nat -> list Q -> Prop) (i : nat) (rows : list (list Q)) : Prop :=
  match rows with [] => True | r :: rest => R i r /\ rows_sat R (S i) rest end.

Lemma rows_sat_nth R : forall rows i j, rows_sat R i rows -> (j < length rows)%nat ->
  R (i + j)%nat (nth j rows []).
Proof.
  induction rows as [|r rows IH]; intros i j H Hj; cbn in *; [lia|].
  destruct H as [H0 H]. destruct j as [|j].
  - rewrite Nat.add_0_r. assumption.
  - replace (i + S j)%nat with (S i + j)%nat by lia. apply IH; [assumption|lia].
Qed.

Section Step.
Variables (p q : Q) (k : nat).
Variables (Rold Rnew : nat -> list Q -> Prop).
Hypothesis Hfirst : forall r, Rold 0%nat r -> Rnew 0%nat (row_first p r).
Hypothesis Hmid : forall j r prev, (S j <= k)%nat -> Rold j prev -> Rold (S j) r -> Rnew (S j) (row_mid p q r prev).
Hypothesis Hlast : forall prev, Rold k prev -> Rnew (S k) (row_last q prev).

Lemma rw_mid_sat : forall rows prev i, (i + length rows = k)%nat ->
  Rold i prev -> rows_sat Rold (S i) rows -> rows_sat Rnew (S i) (rw_mid p q prev rows).
Proof.
  induction rows as [|r rows IH]; intros prev i L Hp Hr.
  - cbn in L. rewrite Nat.add_0_r in L. subst i. cbn. split; [|exact I].
    apply (Hlast prev Hp).
  - cbn in Hr. destruct Hr as [Hr0 Hr]. cbn [rw_mid]. cbn [rows_sat]. split.
    + apply Hmid; [cbn in L; lia|assumption|assumption].
    + apply IH; [cbn in L; lia|assumption|assumption].
Qed.

Lemma rw_step_sat m : length m = S k -> rows_sat Rold 0 m -> rows_sat Rnew 0 (rw_step p q m).
Proof.
  destruct m as [|r0 rest]; [discriminate|]. intros L [H0 H]. cbn [rw_step rows_sat]. split.
  - apply Hfirst. assumption.
  - apply rw_mid_sat; [cbn in L; lia|assumption|assumption].
Qed.
End Step.

Lemma rw_mid_length p q : forall rows prev, length (rw_mid (T:=Q) p q prev rows) = S (length rows).
Proof. induction rows as [|r rows IH]; intro prev; cbn; [reflexivity|]. rewrite IH. reflexivity. Qed.
Lemma rw_mat_length p q k : length (rw_mat (T:=Q) k p q) = S (S k).
Proof.
  induction k as [|k IH]; [reflexivity|]. cbn [rw_mat].
  destruct (rw_mat k p q) as [|r0 rest] eqn:E; [discriminate|].
  cbn [rw_step length]. rewrite rw_mid_length. cbn in IH. lia.
Qed.

(* invariant of level k (matrix of size k+2): row i has length k+2, is non-negative, sums to 1,
   first moment (k+1)(1-p) + i (p+q-1), second central moment (k+1) p (1-p) + i (q(1-q) - p(1-p)) *)
Definition Rk (p q : Q) (k i : nat) (r : list Q) : Prop :=
  length r = S (S k) /\ nonneg r /\ wsum w0 0 r == 1 /\
  wsum w1 0 r == natQ (S k) * (1 - p) + natQ i * (p + q - 1) /\
  wsum w2 0 r == natQ (S k) * (p * (1 - p)) + natQ i * (q * (1 - q) - p * (1 - p))
                 + (natQ (S k) * (1 - p) + natQ i * (p + q - 1)) * (natQ (S k) * (1 - p) + natQ i * (p + q - 1)).

Lemma rw_mat_inv p q : 0 <= p <= 1 -> 0 <= q <= 1 ->
  forall k, rows_sat (Rk p q k) 0 (rw_mat k p q).
Proof.
  intros Hp Hq. induction k as [|k IH].
  - cbn [rw_mat rows_sat]. unfold Rk, nonneg. cbn [length wsum]. unfold w0, w1, w2.
    assert (E1 : natQ 1 == 1) by reflexivity. assert (E0 : natQ 0 == 0) by reflexivity.
    pose proof (sub1_Q p) as Ep. pose proof (sub1_Q q) as Eq.
    repeat split; try (repeat constructor; lra); rewrite ?Ep, ?Eq, ?E1, ?E0; ring.
  - cbn [rw_mat]. apply (rw_step_sat p q (S k) (Rk p q k) (Rk p q (S k))).
    + (* first row *)
      intros r (L & N & M0 & M1 & M2). unfold Rk.
      split; [rewrite row_first_length; lia|]. split; [apply nonneg_row_first; assumption|].
      rewrite !wsum_row_first, w0_shift, w1_shift, w2_shift, M2, M1, M0.
      rewrite (natQ_S (S k)). repeat split; change (natQ 0) with 0; ring.
    + (* interior rows *)
      intros j r prev Hj (L' & N' & M0' & M1' & M2') (L & N & M0 & M1 & M2). unfold Rk.
      split; [rewrite row_mid_length; lia|]. split; [apply nonneg_row_mid; assumption|].
      rewrite !wsum_row_mid by lia. rewrite !w0_shift, !w1_shift, !w2_shift, M2, M1, M0, M2', M1', M0'.
      rewrite (natQ_S (S k)), (natQ_S j). repeat split; field.
    + (* last row *)
      intros r (L & N & M0 & M1 & M2). unfold Rk.
      split; [rewrite row_last_length; lia|]. split; [apply nonneg_row_last; assumption|].
      rewrite !wsum_row_last, w0_shift, w1_shift, w2_shift, M2, M1, M0.
      rewrite (natQ_S (S k)). repeat split; ring.
    + rewrite rw_mat_length. reflexivity.
    + exact IH.
Qed.

(* ------------------------------------------------------------------ rouwenhorst: theorems *)
Lemma wsum_w0_sum r : forall k, wsum w0 k r == sum_list r.
Proof. induction r as [|x r IH]; intro k; cbn [wsum sum_list]; [reflexivity|]. rewrite IH. unfold w0. ring. Qed.

Lemma rw_p_eq rho : ndiv (T:=Q) (nadd none_ rho) ntwo == (1 + rho) / 2.
Proof. rewrite ndiv_Q, Qdivr_eq, nadd_Q, Qaddr_eq, ntwo_Q, none_Q. reflexivity. Qed.

Lemma rw_mat_row p q k i : 0 <= p <= 1 -> 0 <= q <= 1 -> (i < S (S k))%nat ->
  Rk p q k i (nth i (rw_mat k p q) []).
Proof.
  intros Hp Hq Hi. pose proof (rows_sat_nth _ _ 0 i (rw_mat_inv p q Hp Hq k)) as H.
  rewrite rw_mat_length in H. apply H. assumption.
Qed.

Lemma rw_mat_stochastic p q k : 0 <= p <= 1 -> 0 <= q <= 1 ->
  length (rw_mat k p q) = S (S k) /\
  forall i, (i < S (S k))%nat ->
    length (nth i (rw_mat k p q) []) = S (S k) /\
    Forall (fun x => 0 <= x) (nth i (rw_mat k p q) []) /\
    sum_list (nth i (rw_mat k p q) []) == 1.
Proof.
  intros Hp Hq. split; [apply rw_mat_length|]. intros i Hi.
  destruct (rw_mat_row p q k i Hp Hq Hi) as (L & N & M0 & _).
  repeat split; try assumption. rewrite <- (wsum_w0_sum _ 0). assumption.
Qed.

Lemma rouwenhorst_stochastic n rho psi mu P y :
  -1 <= rho <= 1 -> rouwenhorst n rho psi mu = Some (P, y) ->
  (2 <= n)%nat /\ length P = n /\ length y = n /\
  forall i, (i < n)%nat ->
    length (nth i P []) = n /\ Forall (fun x => 0 <= x) (nth i P []) /\ sum_list (nth i P []) == 1.
Proof.
  intros Hr. unfold rouwenhorst. destruct (n <? 2)%nat eqn:E; [discriminate|].
  apply Nat.ltb_ge in E. intro H. injection H as HP Hy. subst P y.
  set (p := ndiv (nadd none_ rho) ntwo).
  assert (Hp : 0 <= p <= 1) by (unfold p; rewrite rw_p_eq; split; [apply Qle_shift_div_l|apply Qle_shift_div_r]; lra).
  destruct (rw_mat_stochastic p p (n - 2) Hp Hp) as [L R].
  replace (S (S (n - 2))) with n in * by lia.
  split; [assumption|]. split; [assumption|]. split.
  - rewrite map_length. unfold linspace. rewrite map_length, seq_length. reflexivity.
  - exact R.
Qed.

Lemma nth_map_default {A} (f : A -> Q) l j d : (j < length l)%nat -> nth j (map f l) 0 = f (nth j l d).
Proof. intro H. rewrite (nth_indep _ 0 (f d)) by (rewrite map_length; assumption). apply map_nth. Qed.

(* the grid: entry j is -psi + j * (2 psi/(n-1)) + mu/(1-rho) *)
Lemma linspace_nth (a b : Q) n j : (2 <= n)%nat -> (j < n)%nat ->
  nth j (linspace a b n) 0 == a + natQ j * ((b - a) / natQ (n - 1)).
Proof.
  intros Hn Hj. unfold linspace.
  rewrite (nth_map_default _ _ j 0%nat) by (rewrite seq_length; assumption).
  rewrite seq_nth by assumption. cbn [plus].
  assert (Hd : ~ natQ (n - 1) == 0) by (intro E; pose proof (natQ_pos (n - 1) ltac:(lia)); lra).
  destruct (j =? n - 1)%nat eqn:E.
  - apply Nat.eqb_eq in E. subst j. field. assumption.
  - rewrite nadd_Q, Qaddr_eq, nmul_Q, Qmulr_eq, ndiv_Q, Qdivr_eq, nsub_Q, Qsubr_eq, !of_nat_natQ. ring.
Qed.

Lemma linspace_length (a b : Q) n : length (linspace a b n) = n.
Proof. unfold linspace. rewrite map_length, seq_length. reflexivity. Qed.

Lemma dot_affine c s : forall r ys k, length ys = length r ->
  (forall j, (j < length r)%nat -> nth j ys 0 == c + natQ (k + j) * s) ->
  dot r ys == c * wsum w0 k r + s * wsum w1 k r.
Proof.
  induction r as [|x r IH]; intros [|y ys] k L H; cbn [length] in L; try discriminate; cbn [dot wsum]; [ring|].
  rewrite (IH ys (S k)).
  - pose proof (H 0%nat ltac:(cbn; lia)) as H0. cbn [nth] in H0. rewrite Nat.add_0_r in H0.
    rewrite H0. unfold w0, w1. ring.
  - lia.
  - intros j Hj. pose proof (H (S j) ltac:(cbn; lia)) as Hj'. cbn [nth] in Hj'.
    replace (S k + j)%nat with (k + S j)%nat by lia. exact Hj'.
Qed.

Lemma dot_quadratic c s : forall r ys k, length ys = length r ->
  (forall j, (j < length r)%nat -> nth j ys 0 == (c + natQ (k + j) * s) * (c + natQ (k + j) * s)) ->
  dot r ys == c * c * wsum w0 k r + 2 * c * s * wsum w1 k r + s * s * wsum w2 k r.
Proof.
  induction r as [|x r IH]; intros [|y ys] k L H; cbn [length] in L; try discriminate; cbn [dot wsum]; [ring|].
  rewrite (IH ys (S k)).
  - pose proof (H 0%nat ltac:(cbn; lia)) as H0. cbn [nth] in H0. rewrite Nat.add_0_r in H0.
    rewrite H0. unfold w0, w1, w2. ring.
  - lia.
  - intros j Hj. pose proof (H (S j) ltac:(cbn; lia)) as Hj'. cbn [nth] in Hj'.
    replace (S k + j)%nat with (k + S j)%nat by lia. exact Hj'.
Qed.

Section RouwenhorstMoments.
Variables (n : nat) (rho psi mu : Q) (P : list (list Q)) (y : list Q).
Hypothesis Hn : (2 <= n)%nat.
Hypothesis Hrho : -1 <= rho /\ rho < 1.
Hypothesis Hrun : rouwenhorst n rho psi mu = Some (P, y).

Let step : Q := (psi - - psi) / natQ (n - 1).
Let shift : Q := mu / (1 - rho).

Lemma rw_grid_nth j : (j < n)%nat -> nth j y 0 == - psi + natQ j * step + shift.
Proof.
  intro Hj. revert Hrun. unfold rouwenhorst. destruct (n <? 2)%nat eqn:E; [discriminate|].
  intro H. injection H as _ Hy. subst y.
  rewrite (nth_map_default _ _ j 0) by (rewrite linspace_length; assumption).
  cbv beta. rewrite nadd_Qeq, ndiv_Qeq, sub1_Q.
  rewrite linspace_nth by assumption.
  rewrite !Qsubr_eq.
  unfold step, shift. field. split; [lra|].
  intro E0; pose proof (natQ_pos (n - 1) ltac:(lia)); lra.
Qed.

Lemma rw_row_moments i : (i < n)%nat ->
  let r := nth i P [] in
  length r = n /\ wsum w0 0 r == 1 /\
  wsum w1 0 r == natQ (n - 1) * ((1 - rho) / 2) + natQ i * rho /\
  wsum w2 0 r == natQ (n - 1) * ((1 - rho * rho) / 4)
                 + (natQ (n - 1) * ((1 - rho) / 2) + natQ i * rho) * (natQ (n - 1) * ((1 - rho) / 2) + natQ i * rho).
Proof.
  intro Hi. revert Hrun. unfold rouwenhorst. destruct (n <? 2)%nat eqn:E; [discriminate|].
  intro H. injection H as HP _. subst P.
  set (p := ndiv (nadd none_ rho) ntwo).
  assert (Ep : p == (1 + rho) / 2) by apply rw_p_eq.
  assert (Hp : 0 <= p <= 1) by (rewrite Ep; split; [apply Qle_shift_div_l|apply Qle_shift_div_r]; lra).
  destruct (rw_mat_row p p (n - 2) i Hp Hp ltac:(lia)) as (L & N & M0 & M1 & M2).
  replace (S (n - 2)) with (n - 1)%nat in * by lia.
  cbv zeta. change (Qdivr (Qaddr 1 rho) (Qaddr 1 1)) with p.
  split; [lia|]. split; [assumption|]. split.
  - rewrite M1, Ep. field.
  - rewrite M2, Ep. field.
Qed.

Lemma rouwenhorst_cond_mean i : (i < n)%nat -> cmean (nth i P []) y == mu + rho * nth i y 0.
Proof.
  intro Hi. destruct (rw_row_moments i Hi) as (L & M0 & M1 & _). cbv zeta in *.
  assert (Ly : length y = n).
  { revert Hrun. unfold rouwenhorst. destruct (n <? 2)%nat; [discriminate|]. intro H. injection H as _ Hy. subst y.
    rewrite map_length, linspace_length. reflexivity. }
  unfold cmean. rewrite (dot_affine (- psi + shift) step _ y 0).
  - rewrite M0, M1, (rw_grid_nth i Hi). unfold step, shift.
    assert (Hd : ~ natQ (n - 1) == 0) by (intro E; pose proof (natQ_pos (n - 1) ltac:(lia)); lra).
    field. split; [lra|assumption].
  - congruence.
  - intros j Hj. rewrite rw_grid_nth by lia. cbn [plus]. ring.
Qed.

Lemma rouwenhorst_cond_var sigma i : -1 < rho ->
  psi * psi == natQ (n - 1) * (sigma * sigma) / (1 - rho * rho) ->
  (i < n)%nat -> cvar (nth i P []) y == sigma * sigma.
Proof.
  intros Hlo Hpsi Hi. destruct (rw_row_moments i Hi) as (L & M0 & M1 & M2). cbv zeta in *.
  assert (Ly : length y = n).
  { revert Hrun. unfold rouwenhorst. destruct (n <? 2)%nat; [discriminate|]. intro H. injection H as _ Hy. subst y.
    rewrite map_length, linspace_length. reflexivity. }
  unfold cvar. set (m := cmean (nth i P []) y).
  assert (Em : m == mu + rho * nth i y 0) by (apply rouwenhorst_cond_mean; assumption).
  rewrite (dot_quadratic (- psi + shift - m) step _ _ 0).
  - rewrite M0, M1, M2, Em, (rw_grid_nth i Hi). unfold step, shift.
    assert (Hd : ~ natQ (n - 1) == 0) by (intro E; pose proof (natQ_pos (n - 1) ltac:(lia)); lra).
    assert (Hr : ~ 1 - rho * rho == 0) by (intro E; nra).
    transitivity (psi * psi * (1 - rho * rho) / natQ (n - 1)).
    + field. split; [assumption|lra].
    + rewrite Hpsi. field. split; assumption.
  - rewrite map_length. congruence.
  - intros j Hj.
    rewrite (nth_map_default _ _ j 0) by lia.
    rewrite rw_grid_nth by lia. cbn [plus]. ring.
Qed.
End RouwenhorstMoments.

(* ------------------------------------------------------------------ tauchen *)
Lemma nth_map_seq {A} (f : nat -> A) (d : A) n j : (j < n)%nat -> nth j (map f (seq 0 n)) d = f j.
Proof.
  intro H. rewrite (nth_indep _ d (f 0%nat)) by (rewrite map_length, seq_length; assumption).
  rewrite map_nth, seq_nth by assumption. reflexivity.
Qed.

Lemma seq_front n : (1 <= n)%nat -> seq 0 n = 0%nat :: seq 1 (n - 1).
Proof. destruct n; [lia|]. intros _. cbn. rewrite Nat.sub_0_r. reflexivity. Qed.

Section TauchenProofs.
Variable Phi : Q -> Q.
Hypothesis Phi_mono : forall x y, x <= y -> Phi x <= Phi y.
Hypothesis Phi_range : forall x, 0 <= Phi x <= 1.

Lemma Phi_proper x y : x == y -> Phi x == Phi y.
Proof. intro E. apply Qle_antisym; apply Phi_mono; rewrite E; apply Qle_refl. Qed.

Definition val_up (o : option Q) : Q := match o with Some u => Phi u | None => 1 end.
Definition val_lo (o : option Q) : Q := match o with Some l => Phi l | None => 0 end.

Lemma cell_prob_eq c : cell_prob Phi c = val_up (snd c) - val_lo (fst c).
Proof. reflexivity. Qed.

(* consecutive cells share their edge; only the last cell is open above *)
Fixpoint chain_ok (u : option Q) (cells : list cell) : Prop :=
  match cells with
  | [] => u = None
  | c :: rest => match fst c, u with Some l, Some a => l == a | _, _ => False end /\ chain_ok (snd c) rest
  end.

Lemma chain_sum : forall cells u, chain_ok u cells ->
  sum_list (map (cell_prob Phi) cells) == 1 - val_up u.
Proof.
  induction cells as [|c rest IH]; intros u H; cbn [chain_ok map sum_list] in *.
  - subst u. cbn. ring.
  - destruct H as [H0 H]. rewrite (IH _ H), cell_prob_eq.
    destruct (fst c) as [l|]; [|contradiction]. destruct u as [a|]; [|contradiction].
    cbn [val_lo val_up]. rewrite (Phi_proper _ _ H0). ring.
Qed.

Definition cell_ordered (c : cell) : Prop :=
  match fst c, snd c with Some l, Some u => l <= u | _, _ => True end.

Lemma cell_prob_range c : cell_ordered c -> 0 <= cell_prob Phi c <= 1.
Proof.
  unfold cell_ordered. rewrite cell_prob_eq. destruct (fst c) as [l|], (snd c) as [u|]; cbn [val_lo val_up]; intro H.
  - pose proof (Phi_mono _ _ H). pose proof (Phi_range l). pose proof (Phi_range u). lra.
  - pose proof (Phi_range l). lra.
  - pose proof (Phi_range u). lra.
  - lra.
Qed.

Section Row.
Variables (n : nat) (rho sigma std_y n_std : Q) (i : nat).
Hypothesis Hn : (2 <= n)%nat.
Hypothesis Hsig : 0 < sigma.
Hypothesis Hw : 0 <= n_std * std_y.

Let xm : Q := n_std * std_y.
Let x (j : nat) : Q := getQ (tauchen_x n std_y n_std) j.
Let half : Q := (1 # 2) * ((xm - - xm) / natQ (n - 1)).
Let cellfn (j : nat) : cell :=
  let z := x j - rho * x i in
  ((if (j =? 0)%nat then None else Some (Qred ((z - half) / sigma))),
   (if (j =? n - 1)%nat then None else Some (Qred ((z + half) / sigma)))).

Lemma tauchen_row_eq : (i < n)%nat ->
  nth i (tauchen_args n rho sigma std_y n_std) [] = map cellfn (seq 0 n).
Proof. intro Hi. unfold tauchen_args. rewrite nth_map_seq by assumption. reflexivity. Qed.

Lemma tauchen_x_nth j : (j < n)%nat -> x j == - xm + natQ j * ((xm - - xm) / natQ (n - 1)).
Proof. intro Hj. unfold x, getQ, tauchen_x, linspaceQ. rewrite linspace_nth by assumption. reflexivity. Qed.

Lemma tauchen_x_step j : (S j < n)%nat -> x (S j) - x j == 2 * half.
Proof.
  intro Hj. rewrite !tauchen_x_nth by lia. rewrite natQ_S. unfold half.
  field. intro E; pose proof (natQ_pos (n - 1) ltac:(lia)); lra.
Qed.

Lemma half_nonneg : 0 <= half.
Proof.
  unfold half. apply Qmult_le_0_compat; [lra|]. apply Qle_shift_div_l.
  - apply natQ_pos. lia.
  - unfold xm. lra.
Qed.

Lemma tauchen_chain : forall m s, (1 <= s)%nat -> (s + m = n)%nat ->
  chain_ok (snd (cellfn (s - 1))) (map cellfn (seq s m)).
Proof.
  induction m as [|m IH]; intros s Hs Hsum.
  - cbn [seq map chain_ok]. unfold cellfn. cbn [snd].
    replace (s - 1 =? n - 1)%nat with true by (symmetry; apply Nat.eqb_eq; lia). reflexivity.
  - cbn [seq map chain_ok]. split.
    + unfold cellfn at 1 2. cbn [fst snd].
      replace (s =? 0)%nat with false by (symmetry; apply Nat.eqb_neq; lia).
      replace (s - 1 =? n - 1)%nat with false by (symmetry; apply Nat.eqb_neq; lia).
      rewrite !Qred_correct.
      pose proof (tauchen_x_step (s - 1) ltac:(lia)) as E. replace (S (s - 1)) with s in E by lia.
      assert (Ex : x s == x (s - 1) + 2 * half) by lra. rewrite Ex. field. lra.
    + specialize (IH (S s) ltac:(lia) ltac:(lia)). replace (S s - 1)%nat with s in IH by lia. exact IH.
Qed.

Lemma tauchen_cells_ordered j : cell_ordered (cellfn j).
Proof.
  unfold cell_ordered, cellfn. cbn [fst snd].
  destruct (j =? 0)%nat; [exact I|]. destruct (j =? n - 1)%nat; [exact I|].
  rewrite !Qred_correct. pose proof half_nonneg.
  apply Qmult_le_compat_r; [lra|]. apply Qlt_le_weak, Qinv_lt_0_compat. assumption.
Qed.

Lemma tauchen_row_spec : (i < n)%nat ->
  let r := nth i (tauchen_P Phi n rho sigma std_y n_std) [] in
  length r = n /\ Forall (fun v => 0 <= v <= 1) r /\ sum_list r == 1.
Proof.
  intro Hi. cbv zeta. unfold tauchen_P.
  assert (Hlen : length (tauchen_args n rho sigma std_y n_std) = n)
    by (unfold tauchen_args; rewrite map_length, seq_length; reflexivity).
  rewrite (nth_indep _ [] (map (cell_prob Phi) [])) by (rewrite map_length; lia).
  rewrite map_nth, tauchen_row_eq by assumption.
  split; [rewrite !map_length, seq_length; reflexivity|]. split.
  - apply Forall_forall. intros v Hv. apply in_map_iff in Hv. destruct Hv as (c & <- & Hc).
    apply in_map_iff in Hc. destruct Hc as (j & <- & _). apply cell_prob_range, tauchen_cells_ordered.
  - rewrite seq_front by lia. cbn [map sum_list].
    rewrite (chain_sum _ (snd (cellfn 0))).
    + rewrite cell_prob_eq. unfold cellfn at 2. cbn [fst Nat.eqb val_lo]. ring.
    + pose proof (tauchen_chain (n - 1) 1%nat ltac:(lia) ltac:(lia)) as H. cbn [Nat.sub] in H. exact H.
Qed.

(* explicit interior entries: Phi at the upper edge minus Phi at the lower edge of cell j seen from rho*x_i *)
Lemma tauchen_entry j : (i < n)%nat -> (j < n)%nat ->
  nth j (nth i (tauchen_P Phi n rho sigma std_y n_std) []) 0 ==
  (if (j =? n - 1)%nat then 1 else Phi ((x j - rho * x i + half) / sigma))
  - (if (j =? 0)%nat then 0 else Phi ((x j - rho * x i - half) / sigma)).
Proof.
  intros Hi Hj. unfold tauchen_P.
  assert (Hlen : length (tauchen_args n rho sigma std_y n_std) = n)
    by (unfold tauchen_args; rewrite map_length, seq_length; reflexivity).
  rewrite (nth_indep _ [] (map (cell_prob Phi) [])) by (rewrite map_length; lia).
  rewrite map_nth, tauchen_row_eq by assumption. rewrite map_map.
  rewrite nth_map_seq by assumption. rewrite cell_prob_eq. unfold cellfn. cbn [fst snd].
  destruct (j =? n - 1)%nat, (j =? 0)%nat; cbn [val_up val_lo];
    rewrite ?(Phi_proper _ _ (Qred_correct _)); reflexivity.
Qed.
End Row.

Lemma tauchen_rows n rho sigma std_y n_std :
  (2 <= n)%nat -> 0 < sigma -> 0 <= n_std * std_y ->
  let P := tauchen_P Phi n rho sigma std_y n_std in
  length P = n /\
  forall i, (i < n)%nat ->
    length (nth i P []) = n /\ Forall (fun v => 0 <= v <= 1) (nth i P []) /\ sum_list (nth i P []) == 1.
Proof.
  intros Hn Hs Hw. cbv zeta. split.
  - unfold tauchen_P, tauchen_args. rewrite !map_length, seq_length. reflexivity.
  - intros i Hi. apply tauchen_row_spec; assumption.
Qed.

Lemma tauchen_entry_spec n rho sigma std_y n_std i j :
  (2 <= n)%nat -> (i < n)%nat -> (j < n)%nat ->
  let x := fun k => getQ (tauchen_x n std_y n_std) k in
  let half := (1 # 2) * ((n_std * std_y - - (n_std * std_y)) / natQ (n - 1)) in
  nth j (nth i (tauchen_P Phi n rho sigma std_y n_std) []) 0 ==
  (if (j =? n - 1)%nat then 1 else Phi ((x j - rho * x i + half) / sigma))
  - (if (j =? 0)%nat then 0 else Phi ((x j - rho * x i - half) / sigma)).
Proof. intros Hn Hi Hj. cbv zeta. apply tauchen_entry; assumption. Qed.
End TauchenProofs.

(* the Tauchen grid: n evenly spaced points, n_std stationary standard deviations either side of mu/(1-rho) *)
Lemma tauchen_grid n rho std_y n_std mu j : (2 <= n)%nat -> (j < n)%nat -> rho < 1 ->
  length (tauchen_states n rho std_y n_std mu) = n /\
  nth j (tauchen_states n rho std_y n_std mu) 0 ==
    mu / (1 - rho) - n_std * std_y + natQ j * (2 * (n_std * std_y) / natQ (n - 1)).
Proof.
  intros Hn Hj Hr. unfold tauchen_states, tauchen_x, linspaceQ. split.
  - rewrite map_length, linspace_length. reflexivity.
  - rewrite (nth_map_default _ _ j 0) by (rewrite linspace_length; assumption).
    rewrite Qred_correct, linspace_nth by assumption.
    pose proof (natQ_pos (n - 1) ltac:(lia)).
    field. split; intro E; lra.
Qed.

(* ------------------------------------------------------------------ estimate_mc *)
Definition nsum (l : list nat) : nat := fold_right Nat.add O l.
Definition departures (tr : list (nat * nat)) (i : nat) : nat :=
  length (filter (fun ab => (fst ab =? i)%nat) tr).

Lemma natQ_add a b : natQ (a + b) == natQ a + natQ b.
Proof. unfold natQ. rewrite Nat2Z.inj_add, inject_Z_plus. reflexivity. Qed.

Lemma nsum_map_add (f g : nat -> nat) l :
  nsum (map (fun j => f j + g j)%nat l) = (nsum (map f l) + nsum (map g l))%nat.
Proof. induction l as [|x l IH]; cbn; [reflexivity|]. unfold nsum in IH. rewrite IH. lia. Qed.

Lemma nsum_indicator b : forall m s,
  nsum (map (fun j => if (b =? j)%nat then 1 else 0)%nat (seq s m)) =
  (if ((s <=? b) && (b <? s + m))%nat then 1 else 0)%nat.
Proof.
  induction m as [|m IH]; intro s; cbn [seq map nsum fold_right].
  - destruct ((s <=? b)%nat && (b <? s + 0)%nat) eqn:E; [lia|reflexivity].
  - fold (nsum (map (fun j => if (b =? j)%nat then 1%nat else 0%nat) (seq (S s) m))). rewrite IH.
    destruct (b =? s)%nat eqn:E0; destruct ((S s <=? b)%nat && (b <? S s + m)%nat) eqn:E1;
      destruct ((s <=? b)%nat && (b <? s + S m)%nat) eqn:E2; lia.
Qed.

Lemma count_tr_cons ab tr i j :
  count_tr (ab :: tr) i j =
  ((if ((fst ab =? i) && (snd ab =? j))%nat then 1 else 0) + count_tr tr i j)%nat.
Proof. unfold count_tr. cbn [filter]. destruct ((fst ab =? i)%nat && (snd ab =? j)%nat); reflexivity. Qed.

Lemma nsum_zero {A} (l : list A) : nsum (map (fun _ => 0%nat) l) = 0%nat.
Proof. induction l; cbn; auto. Qed.

(* row sums of the count matrix are the numbers of departures *)
Lemma out_is_departures n i : forall tr, (forall ab, In ab tr -> (snd ab < n)%nat) ->
  nsum (map (fun j => count_tr tr i j) (seq 0 n)) = departures tr i.
Proof.
  induction tr as [|ab tr IH]; intro Hb.
  - unfold count_tr, departures. cbn [filter length]. apply nsum_zero.
  - rewrite (map_ext _ (fun j => ((if ((fst ab =? i) && (snd ab =? j))%nat then 1 else 0) + count_tr tr i j)%nat))
      by (intro j; apply count_tr_cons).
    rewrite (nsum_map_add (fun j => if ((fst ab =? i) && (snd ab =? j))%nat then 1 else 0)%nat (fun j => count_tr tr i j)).
    rewrite IH by (intros; apply Hb; right; assumption).
    unfold departures. cbn [filter]. destruct (fst ab =? i)%nat eqn:E; cbn [andb length].
    + rewrite nsum_indicator. pose proof (Hb ab (or_introl eq_refl)).
      destruct ((0 <=? snd ab)%nat && (snd ab <? 0 + n)%nat) eqn:E1; lia.
    + rewrite nsum_zero. reflexivity.
Qed.

Lemma count_le_out tr i j n : (j < n)%nat ->
  (count_tr tr i j <= nsum (map (fun j => count_tr tr i j) (seq 0 n)))%nat.
Proof.
  intro Hj. assert (G : forall l, In j l -> (count_tr tr i j <= nsum (map (fun j => count_tr tr i j) l))%nat).
  { induction l as [|x l IH]; [intros []|]. intros [E|Hin]; cbn.
    - subst. lia.
    - specialize (IH Hin). unfold nsum in IH. lia. }
  apply G, in_seq. lia.
Qed.

Lemma normalize_row_nth r j : (j < length r)%nat ->
  nth j (normalize_row r) 0 == natQ (nth j r 0%nat) / natQ (nsum r).
Proof.
  intro Hj. unfold normalize_row. rewrite (nth_map_default _ _ j 0%nat) by assumption.
  rewrite Qred_correct. reflexivity.
Qed.

Lemma sum_normalize r : (0 < nsum r)%nat -> sum_list (normalize_row r) == 1.
Proof.
  intro Hpos. unfold normalize_row. fold (nsum r). set (s := natQ (nsum r)).
  assert (Hs : ~ s == 0) by (intro E; pose proof (natQ_pos _ Hpos); unfold s in E; lra).
  assert (G : forall l, sum_list (map (fun c => Qred (natQ c / s)) l) == natQ (nsum l) / s).
  { induction l as [|x l IH]; cbn [map sum_list nsum fold_right].
    - unfold natQ. cbn. field. assumption.
    - rewrite IH, Qred_correct. fold (nsum l). rewrite natQ_add. field. assumption. }
  rewrite G. unfold s. field. assumption.
Qed.

Lemma normalize_nonneg r : Forall (fun v => 0 <= v) (normalize_row r).
Proof.
  unfold normalize_row. apply Forall_forall. intros v Hv. apply in_map_iff in Hv.
  destruct Hv as (c & <- & _). rewrite Qred_correct.
  pose proof (natQ_nonneg c). pose proof (natQ_nonneg (fold_right Nat.add 0%nat r)) as Hs.
  destruct (Qeq_dec (natQ (fold_right Nat.add 0%nat r)) 0) as [E|E].
  - rewrite E. unfold Qdiv. setoid_replace (/ 0) with 0 by reflexivity. lra.
  - apply Qle_shift_div_l; lra.
Qed.

Lemma nth_map_gen {A B} (f : A -> B) l j d d' : (j < length l)%nat -> nth j (map f l) d' = f (nth j l d).
Proof. intro H. rewrite (nth_indep _ d' (f d)) by (rewrite map_length; assumption). apply map_nth. Qed.

(* membership and indices *)
Lemma Qeq_bool_sym a b : Qeq_bool a b = Qeq_bool b a.
Proof.
  destruct (Qeq_bool a b) eqn:E1, (Qeq_bool b a) eqn:E2; try reflexivity.
  - apply Qeq_bool_iff in E1. symmetry in E1. apply Qeq_bool_iff in E1. congruence.
  - apply Qeq_bool_iff in E2. symmetry in E2. apply Qeq_bool_iff in E2. congruence.
Qed.
Lemma lex_eqb_sym : forall a b, lex_eqb a b = lex_eqb b a.
Proof. induction a as [|x a IH]; intros [|y b]; cbn; try reflexivity. rewrite Qeq_bool_sym, IH. reflexivity. Qed.
Lemma lex_eqb_trans : forall a b c, lex_eqb a b = true -> lex_eqb b c = true -> lex_eqb a c = true.
Proof.
  induction a as [|x a IH]; intros [|y b] [|z c]; cbn; try discriminate; try reflexivity.
  intros H1 H2. apply andb_true_iff in H1, H2. destruct H1 as [H1 H1'], H2 as [H2 H2'].
  apply andb_true_iff. split; [|eapply IH; eassumption].
  apply Qeq_bool_iff in H1, H2. apply Qeq_bool_iff. rewrite H1. assumption.
Qed.
Lemma lex_eqb_refl : forall a, lex_eqb a a = true.
Proof. induction a as [|x a IH]; cbn; [reflexivity|]. rewrite IH, andb_true_r. apply Qeq_bool_iff. reflexivity. Qed.

Lemma uinsert_has x y : forall l,
  existsb (lex_eqb x) (uinsert y l) = lex_eqb x y || existsb (lex_eqb x) l.
Proof.
  induction l as [|h t IH]; cbn [uinsert existsb].
  - reflexivity.
  - destruct (lex_eqb y h) eqn:E1.
    + cbn [existsb]. destruct (lex_eqb x y) eqn:E2; [|reflexivity].
      rewrite (lex_eqb_trans _ _ _ E2 E1). reflexivity.
    + destruct (lex_ltb y h); cbn [existsb]; [reflexivity|]. rewrite IH.
      destruct (lex_eqb x h), (lex_eqb x y); reflexivity.
Qed.
Lemma unique_rows_has x : forall X, In x X -> existsb (lex_eqb x) (unique_rows X) = true.
Proof.
  induction X as [|y X IH]; [intros []|]. intros [E|H]; cbn [unique_rows fold_right]; rewrite uinsert_has.
  - subst. rewrite lex_eqb_refl. reflexivity.
  - fold (unique_rows X). rewrite (IH H). apply orb_true_r.
Qed.
Lemma index_of_lt x : forall l, existsb (lex_eqb x) l = true -> (index_of x l < length l)%nat.
Proof.
  induction l as [|h t IH]; cbn [existsb index_of length]; [discriminate|].
  destruct (lex_eqb x h); cbn [orb]; intro H; [lia|]. specialize (IH H). lia.
Qed.
Lemma index_of_hit x : forall l, existsb (lex_eqb x) l = true -> lex_eqb x (nth (index_of x l) l []) = true.
Proof.
  induction l as [|h t IH]; cbn [existsb index_of nth]; [discriminate|].
  destruct (lex_eqb x h) eqn:E; cbn [orb]; intro H; [assumption|]. apply IH. assumption.
Qed.

Lemma in_transitions_snd idx ab : In ab (transitions idx) -> In (snd ab) idx /\ In (fst ab) idx.
Proof.
  unfold transitions. destruct ab as [a b]. intro H. split.
  - apply in_combine_r in H. destruct idx; [contradiction|]. right. assumption.
  - apply in_combine_l in H. assumption.
Qed.

Lemma estimate_mc_spec X :
  let '(states, idx, P) := estimate_mc X in
  let n := length states in
  let tr := transitions idx in
  length idx = length X /\
  (forall t, (t < length X)%nat ->
     (nth t idx 0 < n)%nat /\ lex_eqb (nth t X []) (nth (nth t idx 0%nat) states []) = true) /\
  length P = n /\
  forall i, (i < n)%nat ->
    length (nth i P []) = n /\ Forall (fun v => 0 <= v) (nth i P []) /\
    (forall j, (j < n)%nat -> nth j (nth i P []) 0 * natQ (departures tr i) == natQ (count_tr tr i j)) /\
    ((0 < departures tr i)%nat -> sum_list (nth i P []) == 1).
Proof.
  unfold estimate_mc. set (states := unique_rows X). set (idx := map (fun x => index_of x states) X).
  cbv zeta. set (n := length states). set (tr := transitions idx).
  assert (Hidx : forall k, In k idx -> (k < n)%nat).
  { intros k Hk. unfold idx in Hk. apply in_map_iff in Hk. destruct Hk as (x & <- & Hx).
    apply index_of_lt, unique_rows_has. assumption. }
  assert (Htr : forall ab, In ab tr -> (snd ab < n)%nat).
  { intros ab Hab. apply Hidx. apply (in_transitions_snd idx ab). assumption. }
  split; [unfold idx; apply map_length|]. split.
  { intros t Ht. unfold idx.
    rewrite (nth_map_gen _ _ t []) by assumption. assert (Hin : In (nth t X []) X) by (apply nth_In; assumption).
    split; [apply index_of_lt, unique_rows_has; assumption|apply index_of_hit, unique_rows_has; assumption]. }
  split; [unfold count_matrix; rewrite !map_length, seq_length; reflexivity|].
  intros i Hi.
  assert (Hrow : nth i (map normalize_row (count_matrix n idx)) [] =
                 normalize_row (map (fun j => count_tr tr i j) (seq 0 n))).
  { rewrite (nth_map_gen _ _ i []) by (unfold count_matrix; rewrite !map_length, seq_length; assumption).
    unfold count_matrix. fold tr. rewrite nth_map_seq by assumption. reflexivity. }
  rewrite Hrow. pose proof (out_is_departures n i tr Htr) as Hout.
  split; [unfold normalize_row; rewrite !map_length, seq_length; reflexivity|].
  split; [apply normalize_nonneg|]. split.
  - intros j Hj. rewrite normalize_row_nth by (rewrite map_length, seq_length; assumption).
    rewrite nth_map_seq by assumption. fold (nsum (map (fun j0 => count_tr tr i j0) (seq 0 n))). rewrite Hout.
    destruct (departures tr i) as [|d] eqn:Ed.
    + pose proof (count_le_out tr i j n Hj) as Hle. rewrite Hout in Hle.
      assert (E0 : count_tr tr i j = 0%nat) by lia. rewrite E0. unfold natQ. cbn. ring.
    + field. intro E; pose proof (natQ_pos (S d) ltac:(lia)); lra.
  - intro Hpos. apply sum_normalize. rewrite Hout. assumption.
Qed.

(* ------------------------------------------------------------------ states = sorted distinct observations *)
Lemma Qltb_ge a b : Qltb a b = false <-> b <= a.
Proof.
  unfold Qltb. rewrite negb_false_iff. apply Qle_bool_iff.
Qed.

Ltac qb :=
  repeat match goal with
  | H : Qltb _ _ = true |- _ => apply Qltb_lt in H
  | H : Qltb _ _ = false |- _ => apply Qltb_ge in H
  end.

Lemma lex_ltb_trans : forall a b c, lex_ltb a b = true -> lex_ltb b c = true -> lex_ltb a c = true.
Proof.
  induction a as [|x a IH]; intros [|y b] [|z c] H1 H2; cbn [lex_ltb] in *; try discriminate; try reflexivity.
  destruct (Qltb x y) eqn:E1; [|destruct (Qltb y x) eqn:E2; [discriminate|]];
  (destruct (Qltb y z) eqn:E3; [|destruct (Qltb z y) eqn:E4; [discriminate|]]);
  destruct (Qltb x z) eqn:E5; try reflexivity; destruct (Qltb z x) eqn:E6; qb; try lra.
  eapply IH; eassumption.
Qed.

Lemma lex_trichotomy : forall a b, lex_ltb a b = false -> lex_eqb a b = false -> lex_ltb b a = true.
Proof.
  induction a as [|x a IH]; intros [|y b] H1 H2; cbn [lex_ltb lex_eqb] in *; try discriminate; try reflexivity.
  destruct (Qltb x y) eqn:E1; [discriminate|]. destruct (Qltb y x) eqn:E2; [reflexivity|].
  qb. assert (E : Qeq_bool x y = true) by (apply Qeq_bool_iff; lra). rewrite E in H2. cbn [andb] in H2.
  apply IH; assumption.
Qed.

Lemma lex_ltb_not_eqb : forall a b, lex_ltb a b = true -> lex_eqb a b = false.
Proof.
  induction a as [|x a IH]; intros [|y b] H; cbn [lex_ltb lex_eqb] in *; try discriminate; try reflexivity.
  destruct (Qltb x y) eqn:E1.
  - qb. destruct (Qeq_bool x y) eqn:E; [apply Qeq_bool_iff in E; lra|reflexivity].
  - destruct (Qltb y x) eqn:E2; [discriminate|]. rewrite (IH _ H). apply andb_false_r.
Qed.

Lemma uinsert_in x z : forall l, In z (uinsert x l) -> z = x \/ In z l.
Proof.
  induction l as [|h t IH]; cbn [uinsert]; intro H.
  - destruct H as [<-|[]]. left. reflexivity.
  - destruct (lex_eqb x h); [right; assumption|]. destruct (lex_ltb x h).
    + destruct H as [<-|H]; [left; reflexivity|right; assumption].
    + destruct H as [<-|H]; [right; left; reflexivity|]. destruct (IH H) as [->|H']; [left; reflexivity|right; right; assumption].
Qed.

Definition llt (a b : list Q) : Prop := lex_ltb a b = true.

Lemma uinsert_sorted x l : StronglySorted llt l -> StronglySorted llt (uinsert x l).
Proof.
  induction 1 as [|h t Hs IH Hf]; cbn [uinsert].
  - constructor; constructor.
  - destruct (lex_eqb x h) eqn:E1; [constructor; assumption|].
    destruct (lex_ltb x h) eqn:E2.
    + constructor; [constructor; assumption|]. constructor; [exact E2|].
      eapply Forall_impl; [|exact Hf]. intros z Hz. eapply lex_ltb_trans; eassumption.
    + constructor; [assumption|]. apply Forall_forall. intros z Hz.
      destruct (uinsert_in x z t Hz) as [->|Hin].
      * apply lex_trichotomy; assumption.
      * rewrite Forall_forall in Hf. apply Hf. assumption.
Qed.

(* np.unique: the states are strictly increasing in lexicographic order (hence pairwise distinct),
   every state is an observation and every observation equals (Qeq, componentwise) some state *)
Lemma unique_rows_spec X :
  StronglySorted llt (unique_rows X) /\
  (forall s, In s (unique_rows X) -> In s X) /\
  (forall x, In x X -> existsb (lex_eqb x) (unique_rows X) = true).
Proof.
  split; [|split].
  - induction X as [|x X IH]; cbn [unique_rows fold_right]; [constructor|]. apply uinsert_sorted. exact IH.
  - induction X as [|x X IH]; cbn [unique_rows fold_right]; intros s Hs; [contradiction|].
    destruct (uinsert_in x s _ Hs) as [->|H]; [left; reflexivity|right; apply IH; assumption].
  - intros x Hx. apply unique_rows_has. assumption.
Qed.

(* fit_discrete_mc is estimate_mc applied to the nearest-grid-point indices (C16 model) *)
Lemma fit_is_estimate_of_nearest orderF grids X :
  let ind := map (fun x => cartesian_nearest_index orderF grids x) X in
  let '(st, _, P) := estimate_mc (map (fun z => [inject_Z z]) ind) in
  fit_discrete_mc orderF grids X =
  (map (fun s => nth (Z.to_nat (Qnum (getQ s 0))) (cartesian 0 orderF grids) []) st, P).
Proof.
  cbv zeta. unfold fit_discrete_mc.
  destruct (estimate_mc _) as [[st idx] P]. reflexivity.
Qed.

From Coq Require Import ZArith QArith Qabs List Bool.
From QE Require Import Base.Num C13.Model C13.Proofs.
Import ListNotations.
Open Scope Q_scope.

Theorem C13_sumQ_cons : forall x l, sumQ (x :: l) == x + sumQ l.
Proof. exact sumQ_cons. Qed.
Print Assumptions C13_sumQ_cons.

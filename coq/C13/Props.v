(* C13 property theorems: statements only, each closed by `exact`, with Print Assumptions.
   rouwenhorst/linspace are the NumQ instance of the generic model (the NumF instance of the same
   text is what the harness compares bit-exactly with NumPy). *)
From Coq Require Import ZArith QArith Qabs List Bool Lqa Sorted.
From QE Require Import Base.Num C16.Model C13.Model C13.Proofs C13.Proofs2.
Import ListNotations.
Open Scope Q_scope.

(* ---- rouwenhorst: a stochastic matrix for every n >= 2 and rho in [-1,1] (p = q = (1+rho)/2 in [0,1]) *)
Theorem C13_rouwenhorst_stochastic : forall n rho psi mu P y,
  -1 <= rho <= 1 -> rouwenhorst n rho psi mu = Some (P, y) ->
  (2 <= n)%nat /\ length P = n /\ length y = n /\
  forall i, (i < n)%nat ->
    length (nth i P []) = n /\ Forall (fun x => 0 <= x) (nth i P []) /\ sum_list (nth i P []) == 1.
Proof. exact rouwenhorst_stochastic. Qed.
Print Assumptions C13_rouwenhorst_stochastic.

(* the recursive construction itself, for any p, q in [0,1] and any size k+2 *)
Theorem C13_rw_mat_stochastic : forall p q k, 0 <= p <= 1 -> 0 <= q <= 1 ->
  length (rw_mat k p q) = S (S k) /\
  forall i, (i < S (S k))%nat ->
    length (nth i (rw_mat k p q) []) = S (S k) /\
    Forall (fun x => 0 <= x) (nth i (rw_mat k p q) []) /\
    sum_list (nth i (rw_mat k p q) []) == 1.
Proof. exact rw_mat_stochastic. Qed.
Print Assumptions C13_rw_mat_stochastic.

(* conditional mean at every grid point = mu + rho * y_i (the AR(1) y' = mu + rho y + eps) *)
Theorem C13_rouwenhorst_cond_mean : forall n rho psi mu P y,
  (2 <= n)%nat -> -1 <= rho /\ rho < 1 -> rouwenhorst n rho psi mu = Some (P, y) ->
  forall i, (i < n)%nat -> cmean (nth i P []) y == mu + rho * nth i y 0.
Proof. exact rouwenhorst_cond_mean. Qed.
Print Assumptions C13_rouwenhorst_cond_mean.

(* conditional variance at every grid point = sigma^2, given psi^2 = (n-1) sigma^2/(1-rho^2) *)
Theorem C13_rouwenhorst_cond_var : forall n rho psi mu P y,
  (2 <= n)%nat -> -1 <= rho /\ rho < 1 -> rouwenhorst n rho psi mu = Some (P, y) ->
  forall sigma i, -1 < rho ->
  psi * psi == natQ (n - 1) * (sigma * sigma) / (1 - rho * rho) ->
  (i < n)%nat -> cvar (nth i P []) y == sigma * sigma.
Proof. exact rouwenhorst_cond_var. Qed.
Print Assumptions C13_rouwenhorst_cond_var.

(* the grid: evenly spaced from -psi to psi around mu/(1-rho) *)
Theorem C13_rouwenhorst_grid : forall n rho psi mu P y,
  (2 <= n)%nat -> -1 <= rho /\ rho < 1 -> rouwenhorst n rho psi mu = Some (P, y) ->
  forall j, (j < n)%nat -> nth j y 0 == - psi + natQ j * ((psi - - psi) / natQ (n - 1)) + mu / (1 - rho).
Proof. exact rw_grid_nth. Qed.
Print Assumptions C13_rouwenhorst_grid.

(* the Binomial(n-1,1/2) law  pi_j = C(n-1,j)/2^(n-1)  (binom: Pascal's rule, C16 model) is a probability
   vector and is stationary for P; under it the mean is mu/(1-rho) and the variance psi^2/(n-1),
   which is sigma^2/(1-rho^2) when psi^2 = (n-1) sigma^2/(1-rho^2) *)
Theorem C13_binomial_law : forall N,
  (forall j, 0 <= inject_Z (binom N j) / pow2 N) /\
  sum_list (map (fun j => inject_Z (binom N j) / pow2 N) (seq 0 (S N))) == 1.
Proof. exact (fun N => conj (pi_nonneg N) (pi_sums_to_one N)). Qed.
Print Assumptions C13_binomial_law.

Theorem C13_rouwenhorst_stationary : forall n rho psi mu P y,
  rouwenhorst n rho psi mu = Some (P, y) ->
  forall j, sum_list (map (fun i => (inject_Z (binom (n - 1) i) / pow2 (n - 1)) * getQ (nth i P []) j) (seq 0 n))
            == inject_Z (binom (n - 1) j) / pow2 (n - 1).
Proof. exact rouwenhorst_stationary. Qed.
Print Assumptions C13_rouwenhorst_stationary.

Theorem C13_rouwenhorst_uncond : forall n rho psi mu P y,
  (2 <= n)%nat -> -1 <= rho /\ rho < 1 -> rouwenhorst n rho psi mu = Some (P, y) ->
  let m := sum_list (map (fun j => getQ y j * pi (n - 1) j) (seq 0 n)) in
  m == mu / (1 - rho) /\
  sum_list (map (fun j => (getQ y j - m) * (getQ y j - m) * pi (n - 1) j) (seq 0 n)) == psi * psi / natQ (n - 1).
Proof. exact rouwenhorst_uncond. Qed.
Print Assumptions C13_rouwenhorst_uncond.

Example ex_rouwenhorst :
  exists P y, rouwenhorst 5%nat (3 # 5) 2 (1 # 2) = Some (P, y) /\
              2 * 2 == natQ (5 - 1) * ((4 # 5) * (4 # 5)) / (1 - (3 # 5) * (3 # 5)) /\
              Qeq_bool (cmean (nth 1 P []) y) ((1 # 2) + (3 # 5) * nth 1 y 0) = true /\
              Qeq_bool (cvar (nth 1 P []) y) ((4 # 5) * (4 # 5)) = true.
Proof. eexists. eexists. split; [vm_compute; reflexivity|]. split; [reflexivity|]. split; vm_compute; reflexivity. Qed.

(* ---- tauchen: for ANY monotone Phi with values in [0,1] *)
Section TauchenAnyCdf.
Variable Phi : Q -> Q.
Hypothesis Phi_mono : forall x y, x <= y -> Phi x <= Phi y.
Hypothesis Phi_range : forall x, 0 <= Phi x <= 1.

Theorem C13_tauchen_rows : forall n rho sigma std_y n_std,
  (2 <= n)%nat -> 0 < sigma -> 0 <= n_std * std_y ->
  let P := tauchen_P Phi n rho sigma std_y n_std in
  length P = n /\
  forall i, (i < n)%nat ->
    length (nth i P []) = n /\ Forall (fun v => 0 <= v <= 1) (nth i P []) /\ sum_list (nth i P []) == 1.
Proof. exact (tauchen_rows Phi Phi_mono Phi_range). Qed.

(* entry (i,j) is Phi at the upper edge minus Phi at the lower edge of cell j seen from rho*x_i; end cells open *)
Theorem C13_tauchen_entry : forall n rho sigma std_y n_std i j,
  (2 <= n)%nat -> (i < n)%nat -> (j < n)%nat ->
  let x := fun k => getQ (tauchen_x n std_y n_std) k in
  let half := (1 # 2) * ((n_std * std_y - - (n_std * std_y)) / natQ (n - 1)) in
  nth j (nth i (tauchen_P Phi n rho sigma std_y n_std) []) 0 ==
  (if (j =? n - 1)%nat then 1 else Phi ((x j - rho * x i + half) / sigma))
  - (if (j =? 0)%nat then 0 else Phi ((x j - rho * x i - half) / sigma)).
Proof. exact (tauchen_entry_spec Phi Phi_mono). Qed.
End TauchenAnyCdf.
Print Assumptions C13_tauchen_rows.
Print Assumptions C13_tauchen_entry.

Theorem C13_tauchen_grid : forall n rho std_y n_std mu j, (2 <= n)%nat -> (j < n)%nat -> rho < 1 ->
  length (tauchen_states n rho std_y n_std mu) = n /\
  nth j (tauchen_states n rho std_y n_std mu) 0 ==
    mu / (1 - rho) - n_std * std_y + natQ j * (2 * (n_std * std_y) / natQ (n - 1)).
Proof. exact tauchen_grid. Qed.
Print Assumptions C13_tauchen_grid.

(* the hypotheses on Phi are satisfiable: a clamped linear cdf *)
Definition ex_Phi (x : Q) : Q := if Qle_bool x (-1) then 0 else if Qle_bool 1 x then 1 else (x + 1) * (1 # 2).
Example ex_Phi_ok : (forall x y, x <= y -> ex_Phi x <= ex_Phi y) /\ (forall x, 0 <= ex_Phi x <= 1).
Proof.
  assert (B : forall a b, Qle_bool a b = false -> b < a).
  { intros a b H. apply Qnot_le_lt. intro L. apply Qle_bool_iff in L. congruence. }
  split; [intros x y Hxy|intro x]; unfold ex_Phi;
    repeat match goal with
    | |- context[Qle_bool ?a ?b] =>
        let E := fresh "E" in destruct (Qle_bool a b) eqn:E; [apply Qle_bool_iff in E|apply B in E]
    end; lra.
Qed.
Example ex_tauchen :
  let P := tauchen_P ex_Phi 3%nat (3 # 5) (4 # 5) 1 1 in
  Qeq_bool (sum_list (nth 1 P [])) 1 = true /\ Qeq_bool (nth 1 (nth 1 P []) 0) 1 = false.
Proof. vm_compute. split; reflexivity. Qed.

(* ---- estimate_mc *)
Theorem C13_estimate_mc_spec : forall X,
  let '(states, idx, P) := estimate_mc X in
  let n := length states in
  let tr := transitions idx in
  length idx = length X /\
  (forall t, (t < length X)%nat ->
     (nth t idx 0 < n)%nat /\ lex_eqb (nth t X []) (nth (nth t idx 0%nat) states []) = true) /\
  length P = n /\
  forall i, (i < n)%nat ->
    length (nth i P []) = n /\ Forall (fun v => 0 <= v) (nth i P []) /\
    (forall j, (j < n)%nat -> nth j (nth i P []) 0 * natQ (departures tr i) == natQ (count_tr tr i j)) /\
    ((0 < departures tr i)%nat -> sum_list (nth i P []) == 1).
Proof. exact estimate_mc_spec. Qed.
Print Assumptions C13_estimate_mc_spec.

(* np.unique: states strictly increasing (lexicographic on rows; hence distinct), each one an observation,
   and every observation equals some state *)
Theorem C13_estimate_states_sorted : forall X,
  StronglySorted (fun a b => lex_ltb a b = true) (unique_rows X) /\
  (forall s, In s (unique_rows X) -> In s X) /\
  (forall x, In x X -> existsb (lex_eqb x) (unique_rows X) = true).
Proof. exact unique_rows_spec. Qed.
Print Assumptions C13_estimate_states_sorted.

Theorem C13_lex_order_strict : forall a b, lex_ltb a b = true -> lex_eqb a b = false.
Proof. exact lex_ltb_not_eqb. Qed.
Print Assumptions C13_lex_order_strict.

(* fit_discrete_mc = estimate_mc of the nearest-grid-point indices (C16 model), states relabelled by the product grid *)
Theorem C13_fit_is_estimate_of_nearest : forall orderF grids X,
  let ind := map (fun x => cartesian_nearest_index orderF grids x) X in
  let '(st, _, P) := estimate_mc (map (fun z => [inject_Z z]) ind) in
  fit_discrete_mc orderF grids X =
  (map (fun s => nth (Z.to_nat (Qnum (getQ s 0))) (cartesian 0 orderF grids) []) st, P).
Proof. exact fit_is_estimate_of_nearest. Qed.
Print Assumptions C13_fit_is_estimate_of_nearest.

Example ex_estimate_mc :
  let '(states, idx, P) := estimate_mc [[3]; [1]; [3]; [3]; [1]] in
  states = [[1]; [3]] /\ idx = [1; 0; 1; 1; 0]%nat /\
  departures (transitions idx) 0 = 1%nat /\ departures (transitions idx) 1 = 3%nat /\
  P = [[0; 1]; [2 # 3; 1 # 3]].
Proof. vm_compute. repeat split; reflexivity. Qed.

(* C13 model: quantecon/markov/approximation.py (rouwenhorst, tauchen) and markov/estimate.py
   (estimate_mc, fit_discrete_mc).  Executable definitions over Q only; proofs live in Proofs.v. *)
From Coq Require Import ZArith QArith List Bool.
From QE Require Import Base.Num C16.Model.
Import ListNotations.
Open Scope Q_scope.

Definition natQ (n : nat) : Q := inject_Z (Z.of_nat n).
Definition getQ (l : list Q) (i : nat) : Q := nth i l 0.
Definition sumQ (l : list Q) : Q := fold_right (fun a b => Qred (a + b)) 0 l.

(* ------------------------------------------------------------------ rouwenhorst *)
(* Written once over the arithmetic signature Num: the NumQ instance is the one the theorems are
   about, the NumF instance (binary64, same operations in the order NumPy performs them:
   theta = ((p1 + p2) + p3) + p4 entrywise, then /2 on interior rows) is compared bit-exactly. *)
Section Rouwenhorst.
Context {T : Type} `{Num T}.

Definition ntwo : T := nadd none_ none_.
Fixpoint of_nat (n : nat) : T := match n with O => nzero | S n' => nadd (of_nat n') none_ end.

Definition scale (c : T) (r : list T) : list T := map (fun x => nmul c x) r.
Fixpoint vadd (a b : list T) : list T :=
  match a, b with
  | x :: a', y :: b' => nadd x y :: vadd a' b'
  | _, _ => []
  end.
Definition zrow (n : nat) : list T := repeat nzero n.
(* contributions to row i of theta from row r = m_i (blocks p1, p2) and from row r = m_{i-1} (p3, p4) *)
Definition blk1 (p : T) (r : list T) : list T := scale p r ++ [nzero].
Definition blk2 (p : T) (r : list T) : list T := nzero :: scale (nsub none_ p) r.
Definition blk3 (q : T) (r : list T) : list T := scale (nsub none_ q) r ++ [nzero].
Definition blk4 (q : T) (r : list T) : list T := nzero :: scale q r.
Definition sum4 (a b c d : list T) : list T := vadd (vadd (vadd a b) c) d.
Definition halve (r : list T) : list T := map (fun x => ndiv x ntwo) r.

(* theta for a smaller matrix m (rows m_0 .. m_k, each of length k+1):
   row 0 from m_0 only; row i from m_i and m_{i-1} (1<=i<=k, halved); row k+1 from m_k only *)
Fixpoint rw_mid (p q : T) (prev : list T) (rows : list (list T)) : list (list T) :=
  let z := zrow (S (length prev)) in
  match rows with
  | [] => [sum4 z z (blk3 q prev) (blk4 q prev)]
  | r :: rest => halve (sum4 (blk1 p r) (blk2 p r) (blk3 q prev) (blk4 q prev)) :: rw_mid p q r rest
  end.
Definition rw_step (p q : T) (m : list (list T)) : list (list T) :=
  match m with
  | [] => []
  | r0 :: rest => let z := zrow (S (length r0)) in sum4 (blk1 p r0) (blk2 p r0) z z :: rw_mid p q r0 rest
  end.
(* row_build_mat(k+2, p, q) *)
Fixpoint rw_mat (k : nat) (p q : T) : list (list T) :=
  match k with
  | O => [[p; nsub none_ p]; [nsub none_ q; q]]
  | S k' => rw_step p q (rw_mat k' p q)
  end.

(* np.linspace(a, b, n): step = (b-a)/(n-1); y_i = i*step + a; the last entry is set to b *)
Definition linspace (a b : T) (n : nat) : list T :=
  let step := ndiv (nsub b a) (of_nat (n - 1)) in
  map (fun i => if (i =? n - 1)%nat then b else nadd (nmul (of_nat i) step) a) (seq 0 n).

(* rouwenhorst(n, rho, sigma, mu): psi = y_sd * sqrt(n-1) is an input (a square root); the theorems
   assume psi^2 = (n-1) sigma^2/(1-rho^2) where they need it.  None: n < 2 raises ValueError. *)
Definition rouwenhorst (n : nat) (rho psi mu : T) : option (list (list T) * list T) :=
  if (n <? 2)%nat then None
  else let p := ndiv (nadd none_ rho) ntwo in
       let shift := ndiv mu (nsub none_ rho) in
       Some (rw_mat (n - 2) p p,
             map (fun b => nadd b shift) (linspace (nsub nzero psi) psi n)).
End Rouwenhorst.

(* exact np.linspace over Q for the Tauchen grid *)
Definition linspaceQ (a b : Q) (n : nat) : list Q := linspace a b n.

(* ------------------------------------------------------------------ tauchen *)
(* A cell of the transition matrix is Phi(up) - Phi(lo); an open end is None (Phi(-inf)=0, Phi(+inf)=1) *)
Definition cell := (option Q * option Q)%type.          (* (lo, up) cdf arguments *)

Definition tauchen_x (n : nat) (std_y : Q) (n_std : Q) : list Q :=
  linspaceQ (- (n_std * std_y)) (n_std * std_y) n.

Definition tauchen_args (n : nat) (rho sigma std_y n_std : Q) : list (list cell) :=
  let x_max := n_std * std_y in
  let x := tauchen_x n std_y n_std in
  let step := (x_max - (- x_max)) / natQ (n - 1) in
  let half := (1 # 2) * step in
  map (fun i =>
    map (fun j =>
      let z := getQ x j - rho * getQ x i in
      ((if (j =? 0)%nat then None else Some (Qred ((z - half) / sigma))),
       (if (j =? n - 1)%nat then None else Some (Qred ((z + half) / sigma)))))
      (seq 0 n))
    (seq 0 n).

Section Tauchen.
Variable Phi : Q -> Q.
Definition cell_prob (c : cell) : Q :=
  (match snd c with Some u => Phi u | None => 1 end) - (match fst c with Some l => Phi l | None => 0 end).
Definition tauchen_P (n : nat) (rho sigma std_y n_std : Q) : list (list Q) :=
  map (map cell_prob) (tauchen_args n rho sigma std_y n_std).
End Tauchen.

Definition tauchen_states (n : nat) (rho std_y n_std mu : Q) : list Q :=
  map (fun v => Qred (v + mu / (1 - rho))) (tauchen_x n std_y n_std).

(* ------------------------------------------------------------------ estimate_mc *)
(* observations are rows of rationals (a scalar observation is a one-element row);
   np.unique(X, axis=0) sorts rows lexicographically *)
Fixpoint lex_ltb (a b : list Q) : bool :=
  match a, b with
  | [], [] => false
  | [], _ :: _ => true
  | _ :: _, [] => false
  | x :: a', y :: b' => if Qltb x y then true else if Qltb y x then false else lex_ltb a' b'
  end.
Fixpoint lex_eqb (a b : list Q) : bool :=
  match a, b with
  | [], [] => true
  | x :: a', y :: b' => Qeq_bool x y && lex_eqb a' b'
  | _, _ => false
  end.
(* sorted insertion without duplicates *)
Fixpoint uinsert (x : list Q) (l : list (list Q)) : list (list Q) :=
  match l with
  | [] => [x]
  | h :: t => if lex_eqb x h then l else if lex_ltb x h then x :: l else h :: uinsert x t
  end.
Definition unique_rows (X : list (list Q)) : list (list Q) := fold_right uinsert [] X.
Fixpoint index_of (x : list Q) (l : list (list Q)) : nat :=
  match l with
  | [] => O
  | h :: t => if lex_eqb x h then O else S (index_of x t)
  end.

Definition transitions (idx : list nat) : list (nat * nat) := combine idx (tl idx).
Definition count_tr (tr : list (nat * nat)) (i j : nat) : nat :=
  length (filter (fun ab => (fst ab =? i)%nat && (snd ab =? j)%nat) tr).
Definition count_matrix (n : nat) (idx : list nat) : list (list nat) :=
  let tr := transitions idx in
  map (fun i => map (fun j => count_tr tr i j) (seq 0 n)) (seq 0 n).
Definition normalize_row (r : list nat) : list Q :=
  let s := natQ (fold_right Nat.add O r) in map (fun c => Qred (natQ c / s)) r.

(* (state_values, indices, P) *)
Definition estimate_mc (X : list (list Q)) : list (list Q) * list nat * list (list Q) :=
  let states := unique_rows X in
  let idx := map (fun x => index_of x states) X in
  (states, idx, map normalize_row (count_matrix (length states) idx)).

(* fit_discrete_mc(X, grids, order): nearest grid index (C16 model), estimate_mc on the indices,
   state values = rows of the product grid at the visited indices *)
Definition fit_discrete_mc (orderF : bool) (grids : list (list Q)) (X : list (list Q))
  : list (list Q) * list (list Q) :=
  let ind := map (fun x => cartesian_nearest_index orderF grids x) X in
  let '(st, _, P) := estimate_mc (map (fun z => [inject_Z z]) ind) in
  let prod := cartesian 0 orderF grids in
  (map (fun s => nth (Z.to_nat (Qnum (getQ s 0))) prod []) st, P).

(* ------------------------------------------------------------------ specification vocabulary
   (plain exact sums used in the statements of the theorems; not part of the executable model) *)
Fixpoint sum_list (l : list Q) : Q := match l with [] => 0 | x :: r => x + sum_list r end.
Fixpoint dot (a b : list Q) : Q :=
  match a, b with x :: a', y :: b' => x * y + dot a' b' | _, _ => 0 end.
(* conditional mean / variance of next period's value given row r of the transition matrix *)
Definition cmean (r y : list Q) : Q := dot r y.
Definition cvar (r y : list Q) : Q := dot r (map (fun v => (v - cmean r y) * (v - cmean r y)) y).

(* C13 proofs, part 2: the Binomial(n-1,1/2) law is stationary for the Rouwenhorst matrix (p = q).
   Key fact (Star): in the recursive construction the two contributions to an interior row,
   the one from row i of the smaller matrix and the one from row i-1, are equal; hence every row of
   the new matrix is the "up" image of row i and also the "down" image of row i-1. *)
From Coq Require Import ZArith QArith Qabs List Bool Lia Lqa Setoid Morphisms.
From QE Require Import Base.Num C16.Model C13.Model C13.Proofs.
Import ListNotations.
Open Scope Q_scope.

(* ------------------------------------------------------------------ entries of the building blocks *)
Lemma getQ_scale c : forall r j, getQ (scale (T:=Q) c r) j == c * getQ r j.
Proof.
  induction r as [|x r IH]; intros [|j]; unfold getQ in *; cbn [scale map nth]; try ring.
  - rewrite nmul_Q, Qmulr_eq. reflexivity.
  - apply IH.
Qed.
Lemma getQ_vadd : forall a b j, length a = length b -> getQ (vadd (T:=Q) a b) j == getQ a j + getQ b j.
Proof.
  induction a as [|x a IH]; intros [|y b] j L; cbn [length] in L; try discriminate; unfold getQ in *.
  - destruct j; cbn; ring.
  - destruct j as [|j]; cbn [vadd nth]; [rewrite nadd_Q, Qaddr_eq; reflexivity|]. apply IH. lia.
Qed.
Lemma getQ_app0 r j : getQ (r ++ [nzero (T:=Q)]) j == getQ r j.
Proof.
  unfold getQ. destruct (Nat.lt_ge_cases j (length r)) as [H|H].
  - rewrite app_nth1 by assumption. reflexivity.
  - rewrite app_nth2 by assumption. rewrite (nth_overflow r) by assumption.
    destruct (j - length r)%nat as [|[|m]]; reflexivity.
Qed.
Lemma nth_repeat_lt' {A} (d v : A) : forall k t, (t < k)%nat -> nth t (repeat v k) d = v.
Proof. induction k as [|k IH]; intros [|t] H; try lia; cbn; [reflexivity|apply IH; lia]. Qed.
Lemma getQ_zrow n j : getQ (zrow (T:=Q) n) j == 0.
Proof.
  unfold getQ, zrow. destruct (Nat.lt_ge_cases j n) as [H|H].
  - rewrite (nth_repeat_lt' 0 nzero) by assumption. reflexivity.
  - rewrite nth_overflow by (rewrite repeat_length; assumption). reflexivity.
Qed.
Lemma getQ_halve : forall r j, getQ (halve (T:=Q) r) j == getQ r j / 2.
Proof.
  induction r as [|x r IH]; intros [|j]; unfold getQ in *; cbn [halve map nth]; try (field; fail).
  - rewrite ndiv_Q, Qdivr_eq, ntwo_Q. reflexivity.
  - apply IH.
Qed.

(* sh r = the row shifted right by one: entry j of (0 :: r) is entry j-1 of r *)
Definition up (p : Q) (r : list Q) (j : nat) : Q := p * getQ r j + (1 - p) * getQ (0 :: r) j.
Definition dn (q : Q) (r : list Q) (j : nat) : Q := (1 - q) * getQ r j + q * getQ (0 :: r) j.

Lemma getQ_blk1 p r j : getQ (blk1 (T:=Q) p r) j == p * getQ r j.
Proof. unfold blk1. rewrite getQ_app0, getQ_scale. reflexivity. Qed.
Lemma getQ_blk2 p r j : getQ (blk2 (T:=Q) p r) j == (1 - p) * getQ (0 :: r) j.
Proof.
  unfold blk2. destruct j as [|j]; unfold getQ; cbn [nth]; [rewrite nzero_Q; ring|].
  fold (getQ (scale (nsub none_ p) r) j). rewrite getQ_scale, sub1_Q. reflexivity.
Qed.
Lemma getQ_blk3 q r j : getQ (blk3 (T:=Q) q r) j == (1 - q) * getQ r j.
Proof. unfold blk3. rewrite getQ_app0, getQ_scale, sub1_Q. reflexivity. Qed.
Lemma getQ_blk4 q r j : getQ (blk4 (T:=Q) q r) j == q * getQ (0 :: r) j.
Proof.
  unfold blk4. destruct j as [|j]; unfold getQ; cbn [nth]; [rewrite nzero_Q; ring|].
  fold (getQ (scale q r) j). rewrite getQ_scale. reflexivity.
Qed.
Lemma getQ_sum4 (a b c d : list Q) n j :
  length a = n -> length b = n -> length c = n -> length d = n ->
  getQ (sum4 a b c d) j == getQ a j + getQ b j + getQ c j + getQ d j.
Proof.
  intros. unfold sum4.
  assert (L1 : length (vadd a b) = n) by (rewrite vadd_length; congruence).
  assert (L2 : length (vadd (vadd a b) c) = n) by (rewrite vadd_length; congruence).
  rewrite !getQ_vadd by congruence. reflexivity.
Qed.

Lemma getQ_row_first p r j : getQ (row_first p r) j == up p r j.
Proof.
  unfold row_first, up. rewrite (getQ_sum4 _ _ _ _ (S (length r)));
    rewrite ?blk1_length, ?blk2_length, ?zrow_length; try reflexivity.
  rewrite getQ_blk1, getQ_blk2, !getQ_zrow. ring.
Qed.
Lemma getQ_row_last q r j : getQ (row_last q r) j == dn q r j.
Proof.
  unfold row_last, dn. rewrite (getQ_sum4 _ _ _ _ (S (length r)));
    rewrite ?blk3_length, ?blk4_length, ?zrow_length; try reflexivity.
  rewrite getQ_blk3, getQ_blk4, !getQ_zrow. ring.
Qed.
Lemma getQ_row_mid p q r prev j : length r = length prev ->
  getQ (row_mid p q r prev) j == (up p r j + dn q prev j) / 2.
Proof.
  intro L. unfold row_mid, up, dn. rewrite getQ_halve.
  rewrite (getQ_sum4 _ _ _ _ (S (length r)));
    rewrite ?blk1_length, ?blk2_length, ?blk3_length, ?blk4_length; try congruence.
  rewrite getQ_blk1, getQ_blk2, getQ_blk3, getQ_blk4. field.
Qed.

(* ------------------------------------------------------------------ rows of rw_step *)
Lemma rw_mid_nth p q : forall rows prev i,
  nth i (rw_mid p q prev rows) [] =
  if (i <? length rows)%nat then row_mid p q (nth i rows []) (nth i (prev :: rows) [])
  else if (i =? length rows)%nat then row_last q (nth i (prev :: rows) []) else [].
Proof.
  induction rows as [|r rows IH]; intros prev i.
  - cbn [rw_mid length]. destruct i as [|[|i]]; reflexivity.
  - cbn [rw_mid length]. destruct i as [|i]; [reflexivity|].
    cbn [nth]. rewrite IH. reflexivity.
Qed.

Lemma rw_step_nth p q (M : list (list Q)) i : (0 < length M)%nat ->
  nth i (rw_step p q M) [] =
  if (i =? 0)%nat then row_first p (nth 0 M [])
  else if (i <? length M)%nat then row_mid p q (nth i M []) (nth (i - 1) M [])
  else if (i =? length M)%nat then row_last q (nth (i - 1) M []) else [].
Proof.
  destruct M as [|r0 rest]; [cbn; lia|]. intros _. cbn [rw_step length].
  destruct i as [|i]; [reflexivity|]. cbn [nth Nat.eqb]. rewrite rw_mid_nth.
  replace (S i - 1)%nat with i by lia.
  change (S i <? S (length rest))%nat with (i <? length rest)%nat.
  change (S i =? S (length rest))%nat with (i =? length rest)%nat.
  reflexivity.
Qed.

(* ------------------------------------------------------------------ the Star property *)
Definition Star (p q : Q) (M : list (list Q)) : Prop :=
  forall i, (1 <= i < length M)%nat -> forall j, up p (nth i M []) j == dn q (nth (i - 1) M []) j.

Definition same_len (M : list (list Q)) (n : nat) : Prop := forall i, (i < length M)%nat -> length (nth i M []) = n.

Lemma rw_mat_same_len p q k : same_len (rw_mat (T:=Q) k p q) (S (S k)).
Proof.
  intros i Hi. rewrite rw_mat_length in Hi.
  (* lengths do not depend on p, q being in [0,1]: reuse the structural invariant with a trivial predicate *)
  assert (G : forall k, rows_sat (fun _ r => length r = S (S k)) 0 (rw_mat (T:=Q) k p q)).
  { clear. induction k as [|k IH]; [cbn; auto|].
    cbn [rw_mat]. apply (rw_step_sat p q (S k) (fun _ r => length r = S (S k)) (fun _ r => length r = S (S (S k)))).
    - intros r L. rewrite row_first_length. lia.
    - intros j r prev _ L' L. rewrite row_mid_length; lia.
    - intros r L. rewrite row_last_length. lia.
    - apply rw_mat_length.
    - exact IH. }
  pose proof (rows_sat_nth _ _ 0 i (G k)) as H. rewrite rw_mat_length in H. apply H. assumption.
Qed.

(* rows of the new matrix as up-images and as down-images *)
Lemma step_rows p q M n : (0 < length M)%nat -> same_len M n -> Star p q M ->
  (forall i, (i < length M)%nat -> forall j, getQ (nth i (rw_step p q M) []) j == up p (nth i M []) j) /\
  (forall i, (1 <= i <= length M)%nat -> forall j, getQ (nth i (rw_step p q M) []) j == dn q (nth (i - 1) M []) j).
Proof.
  intros HM HL HS. split; intros i Hi j; rewrite rw_step_nth by assumption.
  - destruct (i =? 0)%nat eqn:E0; [apply Nat.eqb_eq in E0; subst i; apply getQ_row_first|].
    apply Nat.eqb_neq in E0. replace (i <? length M)%nat with true by (symmetry; apply Nat.ltb_lt; lia).
    rewrite getQ_row_mid by (rewrite !HL by lia; reflexivity).
    rewrite <- (HS i ltac:(lia) j). field.
  - replace (i =? 0)%nat with false by (symmetry; apply Nat.eqb_neq; lia).
    destruct (i <? length M)%nat eqn:E1.
    + apply Nat.ltb_lt in E1. rewrite getQ_row_mid by (rewrite !HL by lia; reflexivity).
      rewrite (HS i ltac:(lia) j). field.
    + apply Nat.ltb_ge in E1. replace (i =? length M)%nat with true by (symmetry; apply Nat.eqb_eq; lia).
      apply getQ_row_last.
Qed.

(* Star at the shifted position j-1 *)
Lemma Star_shift p q r r' : (forall j, up p r j == dn q r' j) ->
  forall j, p * getQ (0 :: r) j + (1 - p) * getQ (0 :: 0 :: r) j == (1 - q) * getQ (0 :: r') j + q * getQ (0 :: 0 :: r') j.
Proof.
  intros H [|j]; unfold getQ; cbn [nth]; [ring|]. specialize (H j). unfold up, dn, getQ in H. exact H.
Qed.

(* pointwise equal rows have pointwise equal shifts *)
Lemma getQ_cons0_ext (r : list Q) (f : nat -> Q) : (forall j, getQ r j == f j) ->
  forall j, getQ (0 :: r) j == match j with O => 0 | S j' => f j' end.
Proof. intros H [|j]; unfold getQ; cbn [nth]; [reflexivity|apply H]. Qed.

Lemma Star_step p q M n : (0 < length M)%nat -> same_len M n -> Star p q M -> Star p q (rw_step p q M).
Proof.
  intros HM HL HS. destruct (step_rows p q M n HM HL HS) as [B B'].
  assert (LM : length (rw_step p q M) = S (length M)).
  { destruct M as [|r0 rest]; [cbn in HM; lia|]. cbn [rw_step length]. rewrite rw_mid_length. reflexivity. }
  intros i Hi j. rewrite LM in Hi.
  (* row i-1 of the new matrix is an up-image (i-1 < length M) *)
  pose proof (B (i - 1)%nat ltac:(lia)) as Bprev.
  pose proof (getQ_cons0_ext _ _ Bprev) as Bprev0.
  unfold up at 1, dn at 1. rewrite (Bprev j), (Bprev0 j).
  destruct (Nat.lt_ge_cases i (length M)) as [Hlt|Hge].
  - (* row i is an up-image of row i as well *)
    pose proof (B i Hlt) as Bi. pose proof (getQ_cons0_ext _ _ Bi) as Bi0.
    rewrite (Bi j), (Bi0 j).
    pose proof (HS i ltac:(lia)) as S1. pose proof (Star_shift _ _ _ _ S1) as S2.
    destruct j as [|j].
    + specialize (S1 0%nat). unfold up, dn in *. unfold getQ in *. cbn [nth] in *. rewrite S1. ring.
    + specialize (S1 (S j)). specialize (S2 (S j)). unfold up, dn in *. unfold getQ in *. cbn [nth] in *.
      pose proof (HS i ltac:(lia) j) as S3. unfold up, dn, getQ in S3.
      rewrite S1, S3. ring.
  - (* i = length M: row i is the down-image of row i-1 *)
    assert (i = length M) by lia. subst i.
    pose proof (B' (length M) ltac:(lia)) as Bi. pose proof (getQ_cons0_ext _ _ Bi) as Bi0.
    rewrite (Bi j), (Bi0 j). destruct j as [|j]; unfold up, dn, getQ; cbn [nth]; ring.
Qed.

Lemma rw_mat_Star p q : forall k, Star p q (rw_mat k p q).
Proof.
  induction k as [|k IH].
  - intros i Hi j. cbn [rw_mat length] in *. assert (i = 1%nat) by lia. subst i. cbn [nth Nat.sub].
    unfold up, dn, getQ. destruct j as [|[|[|j]]]; cbn [nth]; rewrite ?sub1_Q; try ring.
    destruct j; ring.
  - cbn [rw_mat]. apply (Star_step p q _ (S (S k))).
    + rewrite rw_mat_length. lia.
    + apply rw_mat_same_len.
    + exact IH.
Qed.

(* C13 proofs, part 2: the Binomial(n-1,1/2) law is stationary for the Rouwenhorst matrix (p = q).
   Key fact (Star): in the recursive construction the two contributions to an interior row,
   the one from row i of the smaller matrix and the one from row i-1, are equal; hence every row of
   the new matrix is the "up" image of row i and also the "down" image of row i-1. *)
From Coq Require Import ZArith QArith Qabs List Bool Lia Lqa Setoid Morphisms.
From QE Require Import Base.Num C16.Model C13.Model C13.Proofs.
Import ListNotations.
Open Scope Q_scope.

(* ------------------------------------------------------------------ entries of the building blocks *)
Lemma getQ_scale c : forall r j, getQ (scale (T:=Q) c r) j == c * getQ r j.
Proof.
  induction r as [|x r IH]; intros [|j]; unfold getQ in *; cbn [scale map nth]; try ring.
  - rewrite nmul_Q, Qmulr_eq. reflexivity.
  - apply IH.
Qed.
Lemma getQ_vadd : forall a b j, length a = length b -> getQ (vadd (T:=Q) a b) j == getQ a j + getQ b j.
Proof.
  induction a as [|x a IH]; intros [|y b] j L; cbn [length] in L; try discriminate; unfold getQ in *.
  - destruct j; cbn; ring.
  - destruct j as [|j]; cbn [vadd nth]; [rewrite nadd_Q, Qaddr_eq; reflexivity|]. apply IH. lia.
Qed.
Lemma getQ_app0 r j : getQ (r ++ [nzero (T:=Q)]) j == getQ r j.
Proof.
  unfold getQ. destruct (Nat.lt_ge_cases j (length r)) as [H|H].
  - rewrite app_nth1 by assumption. reflexivity.
  - rewrite app_nth2 by assumption. rewrite (nth_overflow r) by assumption.
    destruct (j - length r)%nat as [|[|m]]; reflexivity.
Qed.
Lemma nth_repeat_lt' {A} (d v : A) : forall k t, (t < k)%nat -> nth t (repeat v k) d = v.
Proof. induction k as [|k IH]; intros [|t] H; try lia; cbn; [reflexivity|apply IH; lia]. Qed.
Lemma getQ_zrow n j : getQ (zrow (T:=Q) n) j == 0.
Proof.
  unfold getQ, zrow. destruct (Nat.lt_ge_cases j n) as [H|H].
  - rewrite (nth_repeat_lt' 0 nzero) by assumption. reflexivity.
  - rewrite nth_overflow by (rewrite repeat_length; assumption). reflexivity.
Qed.
Lemma getQ_halve : forall r j, getQ (halve (T:=Q) r) j == getQ r j / 2.
Proof.
  induction r as [|x r IH]; intros [|j]; unfold getQ in *; cbn [halve map nth]; try (field; fail).
  - rewrite ndiv_Q, Qdivr_eq, ntwo_Q. reflexivity.
  - apply IH.
Qed.

(* sh r = the row shifted right by one: entry j of (0 :: r) is entry j-1 of r *)
Definition up (p : Q) (r : list Q) (j : nat) : Q := p * getQ r j + (1 - p) * getQ (0 :: r) j.
Definition dn (q : Q) (r : list Q) (j : nat) : Q := (1 - q) * getQ r j + q * getQ (0 :: r) j.

Lemma getQ_blk1 p r j : getQ (blk1 (T:=Q) p r) j == p * getQ r j.
Proof. unfold blk1. rewrite getQ_app0, getQ_scale. reflexivity. Qed.
Lemma getQ_blk2 p r j : getQ (blk2 (T:=Q) p r) j == (1 - p) * getQ (0 :: r) j.
Proof.
  unfold blk2. destruct j as [|j]; unfold getQ; cbn [nth]; [rewrite nzero_Q; ring|].
  fold (getQ (scale (nsub none_ p) r) j). rewrite getQ_scale, sub1_Q. reflexivity.
Qed.
Lemma getQ_blk3 q r j : getQ (blk3 (T:=Q) q r) j == (1 - q) * getQ r j.
Proof. unfold blk3. rewrite getQ_app0, getQ_scale, sub1_Q. reflexivity. Qed.
Lemma getQ_blk4 q r j : getQ (blk4 (T:=Q) q r) j == q * getQ (0 :: r) j.
Proof.
  unfold blk4. destruct j as [|j]; unfold getQ; cbn [nth]; [rewrite nzero_Q; ring|].
  fold (getQ (scale q r) j). rewrite getQ_scale. reflexivity.
Qed.
Lemma getQ_sum4 (a b c d : list Q) n j :
  length a = n -> length b = n -> length c = n -> length d = n ->
  getQ (sum4 a b c d) j == getQ a j + getQ b j + getQ c j + getQ d j.
Proof.
  intros. unfold sum4.
  assert (L1 : length (vadd a b) = n) by (rewrite vadd_length; congruence).
  assert (L2 : length (vadd (vadd a b) c) = n) by (rewrite vadd_length; congruence).
  rewrite !getQ_vadd by congruence. reflexivity.
Qed.

Lemma getQ_row_first p r j : getQ (row_first p r) j == up p r j.
Proof.
  unfold row_first, up. rewrite (getQ_sum4 _ _ _ _ (S (length r)));
    rewrite ?blk1_length, ?blk2_length, ?zrow_length; try reflexivity.
  rewrite getQ_blk1, getQ_blk2, !getQ_zrow. ring.
Qed.
Lemma getQ_row_last q r j : getQ (row_last q r) j == dn q r j.
Proof.
  unfold row_last, dn. rewrite (getQ_sum4 _ _ _ _ (S (length r)));
    rewrite ?blk3_length, ?blk4_length, ?zrow_length; try reflexivity.
  rewrite getQ_blk3, getQ_blk4, !getQ_zrow. ring.
Qed.
Lemma getQ_row_mid p q r prev j : length r = length prev ->
  getQ (row_mid p q r prev) j == (up p r j + dn q prev j) / 2.
Proof.
  intro L. unfold row_mid, up, dn. rewrite getQ_halve.
  rewrite (getQ_sum4 _ _ _ _ (S (length r)));
    rewrite ?blk1_length, ?blk2_length, ?blk3_length, ?blk4_length; try congruence.
  rewrite getQ_blk1, getQ_blk2, getQ_blk3, getQ_blk4. field.
Qed.

(* ------------------------------------------------------------------ rows of rw_step *)
Lemma rw_mid_nth p q : forall rows prev i,
  nth i (rw_mid p q prev rows) [] =
  if (i <? length rows)%nat then row_mid p q (nth i rows []) (nth i (prev :: rows) [])
  else if (i =? length rows)%nat then row_last q (nth i (prev :: rows) []) else [].
Proof.
  induction rows as [|r rows IH]; intros prev i.
  - cbn [rw_mid length]. destruct i as [|[|i]]; reflexivity.
  - cbn [rw_mid length]. destruct i as [|i]; [reflexivity|].
    cbn [nth]. rewrite IH. reflexivity.
Qed.

Lemma rw_step_nth p q (M : list (list Q)) i : (0 < length M)%nat ->
  nth i (rw_step p q M) [] =
  if (i =? 0)%nat then row_first p (nth 0 M [])
  else if (i <? length M)%nat then row_mid p q (nth i M []) (nth (i - 1) M [])
  else if (i =? length M)%nat then row_last q (nth (i - 1) M []) else [].
Proof.
  destruct M as [|r0 rest]; [cbn; lia|]. intros _. cbn [rw_step length].
  destruct i as [|i]; [reflexivity|]. cbn [nth Nat.eqb]. rewrite rw_mid_nth.
  replace (S i - 1)%nat with i by lia.
  change (S i <? S (length rest))%nat with (i <? length rest)%nat.
  change (S i =? S (length rest))%nat with (i =? length rest)%nat.
  reflexivity.
Qed.

(* ------------------------------------------------------------------ the Star property *)
Definition Star (p q : Q) (M : list (list Q)) : Prop :=
  forall i, (1 <= i < length M)%nat -> forall j, up p (nth i M []) j == dn q (nth (i - 1) M []) j.

Definition same_len (M : list (list Q)) (n : nat) : Prop := forall i, (i < length M)%nat -> length (nth i M []) = n.

Lemma rw_mat_same_len p q k : same_len (rw_mat (T:=Q) k p q) (S (S k)).
Proof.
  intros i Hi. rewrite rw_mat_length in Hi.
  (* lengths do not depend on p, q being in [0,1]: reuse the structural invariant with a trivial predicate *)
  assert (G : forall k, rows_sat (fun _ r => length r = S (S k)) 0 (rw_mat (T:=Q) k p q)).
  { clear. induction k as [|k IH]; [cbn; auto|].
    cbn [rw_mat]. apply (rw_step_sat p q (S k) (fun _ r => length r = S (S k)) (fun _ r => length r = S (S (S k)))).
    - intros r L. rewrite row_first_length. lia.
    - intros j r prev _ L' L. rewrite row_mid_length; lia.
    - intros r L. rewrite row_last_length. lia.
    - apply rw_mat_length.
    - exact IH. }
  pose proof (rows_sat_nth _ _ 0 i (G k)) as H. rewrite rw_mat_length in H. apply H. assumption.
Qed.

(* rows of the new matrix as up-images and as down-images *)
Lemma step_rows p q M n : (0 < length M)%nat -> same_len M n -> Star p q M ->
  (forall i, (i < length M)%nat -> forall j, getQ (nth i (rw_step p q M) []) j == up p (nth i M []) j) /\
  (forall i, (1 <= i <= length M)%nat -> forall j, getQ (nth i (rw_step p q M) []) j == dn q (nth (i - 1) M []) j).
Proof.
  intros HM HL HS. split; intros i Hi j; rewrite rw_step_nth by assumption.
  - destruct (i =? 0)%nat eqn:E0; [apply Nat.eqb_eq in E0; subst i; apply getQ_row_first|].
    apply Nat.eqb_neq in E0. replace (i <? length M)%nat with true by (symmetry; apply Nat.ltb_lt; lia).
    rewrite getQ_row_mid by (rewrite !HL by lia; reflexivity).
    rewrite <- (HS i ltac:(lia) j). field.
  - replace (i =? 0)%nat with false by (symmetry; apply Nat.eqb_neq; lia).
    destruct (i <? length M)%nat eqn:E1.
    + apply Nat.ltb_lt in E1. rewrite getQ_row_mid by (rewrite !HL by lia; reflexivity).
      rewrite (HS i ltac:(lia) j). field.
    + apply Nat.ltb_ge in E1. replace (i =? length M)%nat with true by (symmetry; apply Nat.eqb_eq; lia).
      apply getQ_row_last.
Qed.

(* Star at the shifted position j-1 *)
Lemma Star_shift p q r r' : (forall j, up p r j == dn q r' j) ->
  forall j, p * getQ (0 :: r) j + (1 - p) * getQ (0 :: 0 :: r) j == (1 - q) * getQ (0 :: r') j + q * getQ (0 :: 0 :: r') j.
Proof.
  intros H [|j]; unfold getQ; cbn [nth]; [ring|]. specialize (H j). unfold up, dn, getQ in H. exact H.
Qed.

(* pointwise equal rows have pointwise equal shifts *)
Lemma getQ_cons0_ext (r : list Q) (f : nat -> Q) : (forall j, getQ r j == f j) ->
  forall j, getQ (0 :: r) j == match j with O => 0 | S j' => f j' end.
Proof. intros H [|j]; unfold getQ; cbn [nth]; [reflexivity|apply H]. Qed.

Lemma Star_step p q M n : (0 < length M)%nat -> same_len M n -> Star p q M -> Star p q (rw_step p q M).
Proof.
  intros HM HL HS. destruct (step_rows p q M n HM HL HS) as [B B'].
  assert (LM : length (rw_step p q M) = S (length M)).
  { destruct M as [|r0 rest]; [cbn in HM; lia|]. cbn [rw_step length]. rewrite rw_mid_length. reflexivity. }
  intros i Hi j. rewrite LM in Hi.
  (* row i-1 of the new matrix is an up-image (i-1 < length M) *)
  pose proof (B (i - 1)%nat ltac:(lia)) as Bprev.
  pose proof (getQ_cons0_ext _ _ Bprev) as Bprev0.
  unfold up at 1, dn at 1. rewrite (Bprev j), (Bprev0 j).
  destruct (Nat.lt_ge_cases i (length M)) as [Hlt|Hge].
  - (* row i is an up-image of row i as well *)
    pose proof (B i Hlt) as Bi. pose proof (getQ_cons0_ext _ _ Bi) as Bi0.
    rewrite (Bi j), (Bi0 j).
    pose proof (HS i ltac:(lia)) as S1.
    destruct j as [|j].
    + rewrite (S1 0%nat). unfold up, dn, getQ. cbn [nth]. ring.
    + rewrite (S1 (S j)), (S1 j). unfold up, dn, getQ. cbn [nth]. destruct j; ring.
  - (* i = length M: row i is the down-image of row i-1 *)
    assert (i = length M) by lia. subst i.
    pose proof (B' (length M) ltac:(lia)) as Bi. pose proof (getQ_cons0_ext _ _ Bi) as Bi0.
    rewrite (Bi j), (Bi0 j). destruct j as [|j]; unfold up, dn, getQ; cbn [nth]; ring.
Qed.

Lemma rw_mat_Star p q : forall k, Star p q (rw_mat k p q).
Proof.
  induction k as [|k IH].
  - intros i Hi j. cbn [rw_mat length] in *. assert (i = 1%nat) by lia. subst i. cbn [nth Nat.sub].
    unfold up, dn, getQ. destruct j as [|[|[|j]]]; cbn [nth]; rewrite ?sub1_Q; try ring.
    destruct j; ring.
  - cbn [rw_mat]. apply (Star_step p q _ (S (S k))).
    + rewrite rw_mat_length. lia.
    + apply rw_mat_same_len.
    + exact IH.
Qed.

(* ------------------------------------------------------------------ sums *)
Lemma sum_list_ext {A} (f g : A -> Q) l : (forall x, In x l -> f x == g x) -> sum_list (map f l) == sum_list (map g l).
Proof.
  induction l as [|x l IH]; intro H; cbn [map sum_list]; [reflexivity|].
  rewrite (H x (or_introl eq_refl)), IH; [reflexivity|]. intros; apply H; right; assumption.
Qed.
Lemma sum_list_scale {A} c (f : A -> Q) l : sum_list (map (fun x => c * f x) l) == c * sum_list (map f l).
Proof. induction l as [|x l IH]; cbn [map sum_list]; [ring|]. rewrite IH. ring. Qed.
Lemma sum_list_plus {A} (f g : A -> Q) l :
  sum_list (map (fun x => f x + g x) l) == sum_list (map f l) + sum_list (map g l).
Proof. induction l as [|x l IH]; cbn [map sum_list]; [ring|]. rewrite IH. ring. Qed.
Lemma sum_list_app a b : sum_list (a ++ b) == sum_list a + sum_list b.
Proof. induction a as [|x a IH]; cbn [app sum_list]; [ring|]. rewrite IH. ring. Qed.
Lemma sum_seq_S_last (f : nat -> Q) m : sum_list (map f (seq 0 (S m))) == sum_list (map f (seq 0 m)) + f m.
Proof. rewrite seq_S, map_app, sum_list_app. cbn [map sum_list plus]. ring. Qed.
Lemma sum_seq_S_first (f : nat -> Q) m : sum_list (map f (seq 0 (S m))) == f 0%nat + sum_list (map (fun k => f (S k)) (seq 0 m)).
Proof. cbn [seq map sum_list]. rewrite <- seq_shift, map_map. reflexivity. Qed.

(* ------------------------------------------------------------------ Binomial(N,1/2) weights *)
Fixpoint pow2 (n : nat) : Q := match n with O => 1 | S n' => 2 * pow2 n' end.
Lemma pow2_pos n : 0 < pow2 n.
Proof. induction n as [|n IH]; cbn [pow2]; lra. Qed.

Definition pi (N j : nat) : Q := inject_Z (binom N j) / pow2 N.
Definition pim (N j : nat) : Q := match j with O => 0 | S j' => pi N j' end.

Lemma binom_0_r n : binom n 0 = 1%Z. Proof. destruct n; reflexivity. Qed.
Lemma binom_gt n : forall k, (n < k)%nat -> binom n k = 0%Z.
Proof.
  induction n as [|n IH]; intros [|k] Hk; cbn [binom]; try lia.
  rewrite (IH k), (IH (S k)) by lia. reflexivity.
Qed.
Lemma binom_nonneg n : forall k, (0 <= binom n k)%Z.
Proof.
  induction n as [|n IH]; intros [|k]; cbn [binom]; try lia.
  specialize (IH k) as H1. specialize (IH (S k)) as H2. lia.
Qed.

Lemma pi_S N j : pi (S N) j == (pim N j + pi N j) / 2.
Proof.
  pose proof (pow2_pos N). unfold pi, pim. cbn [pow2]. destruct j as [|j].
  - rewrite !binom_0_r. field. lra.
  - cbn [binom]. rewrite inject_Z_plus. unfold pi. field. lra.
Qed.
Lemma pi_over N j : (N < j)%nat -> pi N j == 0.
Proof. intro H. unfold pi. rewrite binom_gt by assumption. pose proof (pow2_pos N). change (inject_Z 0) with 0. field. lra. Qed.
Lemma pi_nonneg N j : 0 <= pi N j.
Proof.
  unfold pi. pose proof (pow2_pos N). apply Qle_shift_div_l; [assumption|]. rewrite Qmult_0_l.
  change 0 with (inject_Z 0). rewrite <- Zle_Qle. apply binom_nonneg.
Qed.

(* ------------------------------------------------------------------ stationarity *)
Definition colsum (M : list (list Q)) (w : nat -> Q) (j : nat) : Q :=
  sum_list (map (fun i => w i * getQ (nth i M []) j) (seq 0 (length M))).

Lemma rw_stationary p : forall k j, colsum (rw_mat k p p) (pi (S k)) j == pi (S k) j.
Proof.
  induction k as [|k IH]; intro j.
  - unfold colsum. cbn [rw_mat length seq map sum_list nth]. unfold pi. cbn [pow2 binom].
    unfold getQ. pose proof (sub1_Q p) as Ep.
    destruct j as [|[|j]]; cbn [nth binom]; unfold inject_Z; cbn [Z.add]; rewrite ?Ep.
    + field.
    + field.
    + destruct j; field.
  - set (M := rw_mat k p p) in *.
    assert (LM : length M = S (S k)) by apply rw_mat_length.
    destruct (step_rows p p M (S (S k)) ltac:(lia) (rw_mat_same_len p p k) (rw_mat_Star p p k)) as [B B'].
    assert (LM' : length (rw_mat (S k) p p) = S (S (S k))) by apply rw_mat_length.
    assert (IHm : forall j, sum_list (map (fun i => pi (S k) i * getQ (0 :: nth i M []) j) (seq 0 (S (S k)))) == pim (S k) j).
    { intros [|j']; unfold pim.
      - rewrite (sum_list_ext _ (fun _ => 0 * 0)) by (intros; unfold getQ; cbn [nth]; ring).
        induction (seq 0 (S (S k))); cbn [map sum_list]; [reflexivity|]. rewrite IHl. ring.
      - rewrite <- (IH j'). unfold colsum. rewrite LM. apply sum_list_ext. intros i _. unfold getQ. cbn [nth]. reflexivity. }
    unfold colsum. rewrite LM'. cbn [rw_mat]. fold M.
    (* split pi (S N) i = (pim N i + pi N i)/2 *)
    rewrite (sum_list_ext _ (fun i => (1 # 2) * (pim (S k) i * getQ (nth i (rw_step p p M) []) j)
                                      + (1 # 2) * (pi (S k) i * getQ (nth i (rw_step p p M) []) j))).
    2:{ intros i _. rewrite pi_S. field. }
    rewrite sum_list_plus, !sum_list_scale.
    (* part with pi N: the last term vanishes, the others are up-images *)
    rewrite (sum_seq_S_last (fun i => pi (S k) i * getQ (nth i (rw_step p p M) []) j) (S (S k))).
    rewrite (pi_over (S k) (S (S k))) by lia.
    rewrite (sum_list_ext (fun i => pi (S k) i * getQ (nth i (rw_step p p M) []) j)
                          (fun i => p * (pi (S k) i * getQ (nth i M []) j) + (1 - p) * (pi (S k) i * getQ (0 :: nth i M []) j))).
    2:{ intros i Hi. apply in_seq in Hi. rewrite B by lia. unfold up. ring. }
    rewrite sum_list_plus, !sum_list_scale.
    (* part with pim N: the first term vanishes, the others are down-images *)
    rewrite (sum_seq_S_first (fun i => pim (S k) i * getQ (nth i (rw_step p p M) []) j) (S (S k))).
    rewrite (sum_list_ext (fun i => pim (S k) (S i) * getQ (nth (S i) (rw_step p p M) []) j)
                          (fun i => (1 - p) * (pi (S k) i * getQ (nth i M []) j) + p * (pi (S k) i * getQ (0 :: nth i M []) j))).
    2:{ intros i Hi. apply in_seq in Hi. rewrite B' by lia. replace (S i - 1)%nat with i by lia. unfold dn, pim. ring. }
    rewrite sum_list_plus, !sum_list_scale.
    rewrite IHm. pose proof (IH j) as IHj. unfold colsum in IHj. rewrite LM in IHj. rewrite IHj.
    rewrite (pi_S (S k) j). unfold pim at 1. field.
Qed.

(* rouwenhorst: Binomial(n-1,1/2) is a stationary distribution of P *)
Lemma rouwenhorst_stationary n rho psi mu P y :
  rouwenhorst n rho psi mu = Some (P, y) ->
  forall j, sum_list (map (fun i => pi (n - 1) i * getQ (nth i P []) j) (seq 0 n)) == pi (n - 1) j.
Proof.
  unfold rouwenhorst. destruct (n <? 2)%nat eqn:E; [discriminate|]. apply Nat.ltb_ge in E.
  intro H. injection H as HP _. subst P. intro j.
  set (p := ndiv (nadd none_ rho) ntwo).
  pose proof (rw_stationary p (n - 2) j) as Hst. unfold colsum in Hst. rewrite rw_mat_length in Hst.
  replace (S (n - 2)) with (n - 1)%nat in Hst by lia. replace (S (n - 1)) with n in Hst by lia. exact Hst.
Qed.

Lemma pi_sums_to_one : forall N, sum_list (map (pi N) (seq 0 (S N))) == 1.
Proof.
  induction N as [|N IH].
  - cbn [seq map sum_list]. unfold pi. cbn [binom pow2]. unfold inject_Z. field.
  - rewrite (sum_list_ext _ (fun j => (1 # 2) * pim N j + (1 # 2) * pi N j)) by (intros; rewrite pi_S; field).
    rewrite sum_list_plus, !sum_list_scale.
    rewrite (sum_seq_S_first (pim N)). cbn [pim].
    rewrite (sum_seq_S_last (pi N) (S N)), (pi_over N (S N)) by lia.
    change (fun k : nat => pi N k) with (pi N). rewrite IH. field.
Qed.

(* ------------------------------------------------------------------ moments of Binomial(N,1/2) *)
Lemma pi_sum_step (f : nat -> Q) N :
  sum_list (map (fun j => f j * pi (S N) j) (seq 0 (S (S N)))) ==
  (1 # 2) * sum_list (map (fun j => f (S j) * pi N j) (seq 0 (S N)))
  + (1 # 2) * sum_list (map (fun j => f j * pi N j) (seq 0 (S N))).
Proof.
  rewrite (sum_list_ext _ (fun j => (1 # 2) * (f j * pim N j) + (1 # 2) * (f j * pi N j))) by (intros; rewrite pi_S; field).
  rewrite sum_list_plus, !sum_list_scale.
  rewrite (sum_seq_S_first (fun j => f j * pim N j)). cbn [pim].
  rewrite (sum_seq_S_last (fun j => f j * pi N j) (S N)), (pi_over N (S N)) by lia. ring.
Qed.

Lemma pi_moment0 N : sum_list (map (fun j => 1 * pi N j) (seq 0 (S N))) == 1.
Proof. rewrite sum_list_scale. change (fun j : nat => pi N j) with (pi N). rewrite pi_sums_to_one. ring. Qed.

Lemma pi_moment1 : forall N, sum_list (map (fun j => natQ j * pi N j) (seq 0 (S N))) == natQ N / 2.
Proof.
  induction N as [|N IH].
  - cbn [seq map sum_list]. change (natQ 0) with 0. field.
  - rewrite (pi_sum_step natQ N).
    rewrite (sum_list_ext (fun j => natQ (S j) * pi N j) (fun j => natQ j * pi N j + 1 * pi N j))
      by (intros; rewrite natQ_S; ring).
    rewrite sum_list_plus, IH, pi_moment0, natQ_S. field.
Qed.

Lemma pi_moment2 : forall N, sum_list (map (fun j => (natQ j * natQ j) * pi N j) (seq 0 (S N)))
                             == natQ N / 4 + natQ N * natQ N / 4.
Proof.
  induction N as [|N IH].
  - cbn [seq map sum_list]. change (natQ 0) with 0. field.
  - rewrite (pi_sum_step (fun j => natQ j * natQ j) N).
    rewrite (sum_list_ext (fun j => natQ (S j) * natQ (S j) * pi N j)
                          (fun j => (natQ j * natQ j) * pi N j + (2 * (natQ j * pi N j) + 1 * pi N j)))
      by (intros; rewrite natQ_S; ring).
    rewrite sum_list_plus, (sum_list_plus (fun j => 2 * (natQ j * pi N j))), sum_list_scale.
    rewrite IH, pi_moment1, pi_moment0, natQ_S. field.
Qed.

(* ------------------------------------------------------------------ unconditional mean and variance under the stationary law *)
Lemma rouwenhorst_uncond n rho psi mu P y :
  (2 <= n)%nat -> -1 <= rho /\ rho < 1 -> rouwenhorst n rho psi mu = Some (P, y) ->
  let m := sum_list (map (fun j => getQ y j * pi (n - 1) j) (seq 0 n)) in
  m == mu / (1 - rho) /\
  sum_list (map (fun j => (getQ y j - m) * (getQ y j - m) * pi (n - 1) j) (seq 0 n)) == psi * psi / natQ (n - 1).
Proof.
  intros Hn Hr Hrun. cbv zeta.
  pose proof (rw_grid_nth n rho psi mu P y Hn Hr Hrun) as G.
  assert (HN : ~ natQ (n - 1) == 0) by (intro E; pose proof (natQ_pos (n - 1) ltac:(lia)); lra).
  set (s := (psi - - psi) / natQ (n - 1)) in *. set (c := mu / (1 - rho)) in *.
  replace (seq 0 n) with (seq 0 (S (n - 1))) by (f_equal; lia).
  assert (Em : sum_list (map (fun j => getQ y j * pi (n - 1) j) (seq 0 (S (n - 1)))) == c).
  { rewrite (sum_list_ext _ (fun j => (- psi + c) * (1 * pi (n - 1) j) + s * (natQ j * pi (n - 1) j))).
    2:{ intros j Hj. apply in_seq in Hj. unfold getQ. rewrite G by lia. ring. }
    rewrite sum_list_plus, !sum_list_scale.
    change (fun x : nat => 1 * pi (n - 1) x) with (fun j : nat => 1 * pi (n - 1) j).
    rewrite pi_sums_to_one, pi_moment1. unfold s. field. assumption. }
  split; [exact Em|].
  rewrite (sum_list_ext _ (fun j => (psi * psi) * (1 * pi (n - 1) j)
                                    + ((- (2) * psi * s) * (natQ j * pi (n - 1) j)
                                       + (s * s) * ((natQ j * natQ j) * pi (n - 1) j)))).
  2:{ intros j Hj. apply in_seq in Hj. rewrite Em. unfold getQ. rewrite G by lia. ring. }
  rewrite sum_list_plus, (sum_list_plus (fun j => (- (2) * psi * s) * (natQ j * pi (n - 1) j))), !sum_list_scale.
  rewrite pi_sums_to_one, pi_moment1, pi_moment2. unfold s. field. assumption.
Qed.

(* C04: the solver tolerances read from /repo's current source (Gen/Consts.v) are inside the
   range for which the property's quantifier ("every non-zero tableau quantity is >= 7e-5, so
   the tolerances cannot change a decision") makes the tolerance-0 theorems applicable. *)
From Coq Require Import ZArith QArith Lia Lqa.
From QE Require Import Gen.Consts.
Open Scope Q_scope.

Theorem C04_tolerances_below_resolution :
  0 < lp_FEA_TOL < 7 # 100000 /\ 0 < lp_TOL_PIV < 7 # 100000 /\ 0 < lp_TOL_RATIO_DIFF < 7 # 100000 /\
  0 < piv_TOL_PIV < 7 # 100000 /\ 0 < piv_TOL_RATIO_DIFF < 7 # 100000 /\
  (1000 <= lp_max_iter_z)%Z /\ (1000 <= lcp_max_iter_z)%Z.
Proof. vm_compute. repeat split; intro H; discriminate H. Qed.
Print Assumptions C04_tolerances_below_resolution.

(* C04 property theorems: statements only, each closed by `exact`, with Print Assumptions.
   Everything is about the exact instance (NumQ) of coq/C04/Model.v + Base/Pivot.v.
   Entries of A_ub, A_eq, b_ub, b_eq, c are read with `get`/`vget` (0 outside the arrays) both by the
   model and by the specification, so the matrices need no shape hypotheses; b_ub, b_eq must have
   exactly m and k entries (the code reads b_signs from them). *)
From Coq Require Import List Bool Arith QArith.
From QE Require Import Base.Num Base.Pivot Base.PivotProofs C04.Model
     C04.Proofs C04.Proofs2 C04.Proofs3 C04.Proofs4 C04.Proofs5 C04.Proofs6 C04.Proofs7 C04.Proofs8 C04.Proofs9 C04.ProofsMM1 C04.ProofsMM2 C04.ProofsMM3 C04.Sep C04.ProofsSep C04.ProofsSep2.
Import ListNotations.
Open Scope Q_scope.

(* weak duality certificate, all dimensions: a primal feasible x and a dual feasible lambd (>= 0 on the
   inequality rows, A' lambd >= c) with c.x = b.lambd are both optimal *)
Theorem C04_certificate_optimal : forall n m k c Aub bub Aeq beq x lam,
  primal_feasible n m k Aub bub Aeq beq x -> dual_feasible n m k c Aub Aeq lam ->
  dotn n c x == dual_obj m k bub beq lam ->
  (forall x', primal_feasible n m k Aub bub Aeq beq x' -> dotn n c x' <= dotn n c x) /\
  (forall lam', dual_feasible n m k c Aub Aeq lam' -> dual_obj m k bub beq lam <= dual_obj m k bub beq lam').
Proof. exact certificate_optimal_both. Qed.
Print Assumptions C04_certificate_optimal.

(* the initial tableau satisfies the self-certifying invariant and has a non-negative right-hand side *)
Theorem C04_initial_tableau_inv : forall n m k Aub bub Aeq beq,
  tab_inv (m + k) (n + m + (m + k) + 1) (n + m) (T0 n m k Aub bub Aeq beq) (obj1 n m k)
          (fst (initialize_tableau n m k Aub bub Aeq beq)) (snd (initialize_tableau n m k Aub bub Aeq beq)) /\
  rhs_nonneg (m + k) (n + m + (m + k) + 1) (fst (initialize_tableau n m k Aub bub Aeq beq)).
Proof. exact init_inv. Qed.
Print Assumptions C04_initial_tableau_inv.

(* solve_tableau keeps the invariant (rows = aux-block combination of the initial rows, criterion row =
   objective + combination, unit columns of the basic variables, solutions of the current rows solve the
   initial rows) for every fuel, both phases, every tolerance with tol_piv >= 0 *)
Theorem C04_solve_tableau_inv : forall L nc a T0 obj (o : @PivOptions Q) skip,
  0 <= tol_piv o ->
  forall fuel T basis ni,
    tab_inv L nc a T0 obj T basis ->
    let '(T', basis', _, _, _) := solve_tableau_loop fuel T basis skip o ni in
    tab_inv L nc a T0 obj T' basis'.
Proof. exact solve_tableau_inv. Qed.
Print Assumptions C04_solve_tableau_inv.

(* tolerance 0: the right-hand side stays non-negative (min-ratio test) *)
Theorem C04_solve_tableau_rhs_nonneg : forall L nc a T0 obj skip fuel T basis ni,
  tab_inv L nc a T0 obj T basis -> rhs_nonneg L nc T ->
  let '(T', _, _, _, _) := solve_tableau_loop fuel T basis skip opts0 ni in
  rhs_nonneg L nc T'.
Proof. exact solve_tableau_rhs_nonneg. Qed.
Print Assumptions C04_solve_tableau_rhs_nonneg.

(* status 0 of linprog_simplex (tolerances 0, any max_iter): success, x primal feasible, lambd dual
   feasible, c.x = fun = b.lambd *)
Theorem C04_status0_certificate : forall c m k Aub bub Aeq beq max_iter x lam fn success ni,
  length bub = m -> length beq = k ->
  linprog_simplex c m k Aub bub Aeq beq max_iter opts0 = (x, lam, fn, success, 0%nat, ni) ->
  let n := length c in
  success = true /\
  primal_feasible n m k Aub bub Aeq beq x /\
  dual_feasible n m k c Aub Aeq lam /\
  dotn n c x == fn /\ fn == dual_obj m k bub beq lam.
Proof. exact status0_certificate. Qed.
Print Assumptions C04_status0_certificate.

(* hence x is an optimum *)
Theorem C04_status0_optimal : forall c m k Aub bub Aeq beq max_iter x lam fn success ni,
  length bub = m -> length beq = k ->
  linprog_simplex c m k Aub bub Aeq beq max_iter opts0 = (x, lam, fn, success, 0%nat, ni) ->
  let n := length c in
  primal_feasible n m k Aub bub Aeq beq x /\
  (forall x', primal_feasible n m k Aub bub Aeq beq x' -> dotn n c x' <= dotn n c x) /\
  dotn n c x == fn.
Proof. exact status0_optimal. Qed.
Print Assumptions C04_status0_optimal.

(* status 2 (tolerances 0, any max_iter): the constraints have no solution (the optimal Phase-1 tableau
   is a Farkas certificate) *)
Theorem C04_status2_infeasible : forall c m k Aub bub Aeq beq max_iter x lam fn success ni,
  linprog_simplex c m k Aub bub Aeq beq max_iter opts0 = (x, lam, fn, success, 2%nat, ni) ->
  forall x', ~ primal_feasible (length c) m k Aub bub Aeq beq x'.
Proof. exact status2_infeasible. Qed.
Print Assumptions C04_status2_infeasible.

(* status 3 (tolerances 0, any max_iter): a feasible point and a feasible ray d (d >= 0, A_ub d <= 0,
   A_eq d = 0) with c.d > 0, hence the objective is unbounded on the feasible set *)
Theorem C04_status3_unbounded : forall c m k Aub bub Aeq beq max_iter x lam fn success ni,
  linprog_simplex c m k Aub bub Aeq beq max_iter opts0 = (x, lam, fn, success, 3%nat, ni) ->
  let n := length c in
  (exists x0 d, primal_feasible n m k Aub bub Aeq beq x0 /\ feasible_ray n m k Aub Aeq d /\ 0 < dotn n c d) /\
  lp_unbounded n m k c Aub bub Aeq beq.
Proof. exact status3_both. Qed.
Print Assumptions C04_status3_unbounded.

(* optimal / infeasible / unbounded exclude each other *)
Theorem C04_certificates_exclusive : forall n m k c Aub bub Aeq beq,
  ~ (lp_optimal n m k c Aub bub Aeq beq /\ lp_infeasible n m k Aub bub Aeq beq) /\
  ~ (lp_optimal n m k c Aub bub Aeq beq /\ lp_unbounded n m k c Aub bub Aeq beq) /\
  ~ (lp_infeasible n m k Aub bub Aeq beq /\ lp_unbounded n m k c Aub bub Aeq beq).
Proof. exact certificates_exclusive. Qed.
Print Assumptions C04_certificates_exclusive.

(* unless the iteration cap is reported (status 1), the status is exactly the classification of the LP *)
Theorem C04_status_iff : forall c m k Aub bub Aeq beq max_iter x lam fn success status ni,
  length bub = m -> length beq = k ->
  linprog_simplex c m k Aub bub Aeq beq max_iter opts0 = (x, lam, fn, success, status, ni) ->
  status <> 1%nat ->
  let n := length c in
  (status = 0%nat <-> lp_optimal n m k c Aub bub Aeq beq) /\
  (status = 2%nat <-> lp_infeasible n m k Aub bub Aeq beq) /\
  (status = 3%nat <-> lp_unbounded n m k c Aub bub Aeq beq).
Proof. exact status_iff. Qed.
Print Assumptions C04_status_iff.

(* tolerance irrelevance: if the separation check sep_ok (C04/Sep.v: every quantity compared with a tolerance
   along the run is <= 0 or > tol, every compared difference of ratios / clean-up entry is 0 or > tol in absolute
   value) succeeds, the run with tolerances o >= 0 IS the run with tolerance 0 *)
Theorem C04_tolerance_irrelevant_solve_tableau : forall (o : @PivOptions Q) skip,
  0 <= fea_tol o -> 0 <= tol_piv o -> 0 <= tol_ratio_diff o ->
  forall fuel T basis ni,
    solve_tableau_sep fuel T basis skip o = true ->
    solve_tableau_loop fuel T basis skip o ni = solve_tableau_loop fuel T basis skip opts0 ni.
Proof. exact solve_tableau_sep_eq. Qed.
Print Assumptions C04_tolerance_irrelevant_solve_tableau.

Theorem C04_tolerance_irrelevant_lex_min_ratio_test : forall nr (M : list (list Q)) pv ss tolp tolr,
  0 <= tolp -> 0 <= tolr -> lex_sep nr M pv ss tolp tolr = true ->
  lex_min_ratio_test_n nr M pv ss tolp tolr = lex_min_ratio_test_n nr M pv ss 0 0.
Proof. exact lex_sep_eq. Qed.
Print Assumptions C04_tolerance_irrelevant_lex_min_ratio_test.

Theorem C04_tolerance_irrelevant : forall c m k Aub bub Aeq beq max_iter (o : @PivOptions Q),
  0 <= fea_tol o -> 0 <= tol_piv o -> 0 <= tol_ratio_diff o ->
  linprog_sep c m k Aub bub Aeq beq max_iter o = true ->
  linprog_simplex c m k Aub bub Aeq beq max_iter o = linprog_simplex c m k Aub bub Aeq beq max_iter opts0.
Proof. exact tolerance_irrelevant. Qed.
Print Assumptions C04_tolerance_irrelevant.

(* corollaries for the run with the tolerances of the current source (Gen/Consts.v) under sep_ok *)
Theorem C04_status0_certificate_src : forall c m k Aub bub Aeq beq max_iter x lam fn success ni,
  length bub = m -> length beq = k ->
  linprog_sep c m k Aub bub Aeq beq max_iter opts_src = true ->
  linprog_simplex c m k Aub bub Aeq beq max_iter opts_src = (x, lam, fn, success, 0%nat, ni) ->
  let n := length c in
  success = true /\
  primal_feasible n m k Aub bub Aeq beq x /\
  dual_feasible n m k c Aub Aeq lam /\
  dotn n c x == fn /\ fn == dual_obj m k bub beq lam.
Proof. exact status0_certificate_src. Qed.
Print Assumptions C04_status0_certificate_src.

Theorem C04_status_iff_src : forall c m k Aub bub Aeq beq max_iter x lam fn success status ni,
  length bub = m -> length beq = k ->
  linprog_sep c m k Aub bub Aeq beq max_iter opts_src = true ->
  linprog_simplex c m k Aub bub Aeq beq max_iter opts_src = (x, lam, fn, success, status, ni) ->
  status <> 1%nat ->
  let n := length c in
  (status = 0%nat <-> lp_optimal n m k c Aub bub Aeq beq) /\
  (status = 2%nat <-> lp_infeasible n m k Aub bub Aeq beq) /\
  (status = 3%nat <-> lp_unbounded n m k c Aub bub Aeq beq).
Proof. exact status_iff_src. Qed.
Print Assumptions C04_status_iff_src.

Theorem C04_minmax_certificate_src : forall m n A max_iter v x y,
  (0 < m)%nat -> (0 < n)%nat -> wf m n A ->
  minmax_sep m n A max_iter opts_src = true ->
  minmax_inner_status m n A max_iter = 0%nat ->
  minmax m n A max_iter opts_src = (v, x, y) ->
  (forall i, (i < m)%nat -> 0 <= vget x i) /\ sumQ m (vget x) == 1 /\
  (forall j, (j < n)%nat -> 0 <= vget y j) /\ sumQ n (vget y) == 1 /\
  (forall j, (j < n)%nat -> v <= sumQ m (fun i => vget x i * get A i j)) /\
  (forall i, (i < m)%nat -> sumQ n (fun j => get A i j * vget y j) <= v).
Proof. exact minmax_certificate_src. Qed.
Print Assumptions C04_minmax_certificate_src.

(* not proved: termination of the lexicographic rule, i.e. that status 1 is not reported for a large
   enough max_iter (decided per case by the correspondence run: never observed without a tiny cap) *)
Definition C04_terminates_full : Prop :=
  forall c m k Aub bub Aeq beq, exists N, forall max_iter, (N <= max_iter)%nat ->
    let '(_, _, _, _, status, _) := linprog_simplex c m k Aub bub Aeq beq max_iter opts0 in status <> 1%nat.

(* minmax (tolerances 0, m x n payoff matrix A, every max_iter): if the solve_tableau call inside minmax ends
   with status 0 (minmax discards that status) then x, y are probability vectors, every column payoff of x
   is >= v and every row payoff against y is <= v, hence min_j (x'A)_j = v = max_i (A y)_i *)
Theorem C04_minmax_certificate : forall m n A max_iter v x y,
  (0 < m)%nat -> (0 < n)%nat -> wf m n A ->
  minmax_inner_status m n A max_iter = 0%nat ->
  minmax m n A max_iter opts0 = (v, x, y) ->
  (forall i, (i < m)%nat -> 0 <= vget x i) /\ sumQ m (vget x) == 1 /\
  (forall j, (j < n)%nat -> 0 <= vget y j) /\ sumQ n (vget y) == 1 /\
  (forall j, (j < n)%nat -> v <= sumQ m (fun i => vget x i * get A i j)) /\
  (forall i, (i < m)%nat -> sumQ n (fun j => get A i j * vget y j) <= v).
Proof. exact minmax_certificate. Qed.
Print Assumptions C04_minmax_certificate.

(* the inner solve of minmax can only end with status 0 or with the iteration cap (status 1): the lexicographic test
   always finds a row on this tableau and the value is bounded on the feasible set, so status 3 is impossible *)
Theorem C04_minmax_status_0_or_1 : forall m n A max_iter,
  (0 < m)%nat -> (0 < n)%nat -> wf m n A ->
  minmax_inner_status m n A max_iter = 0%nat \/ minmax_inner_status m n A max_iter = 1%nat.
Proof. exact minmax_status_0_or_1. Qed.
Print Assumptions C04_minmax_status_0_or_1.

(* hence: unless the cap max_iter is exhausted, minmax returns probability vectors x, y with
   min_j (x'A)_j = v = max_i (A y)_i (bounds for all j, i and both attained) *)
Theorem C04_minmax_certificate_unless_cap : forall m n A max_iter v x y,
  (0 < m)%nat -> (0 < n)%nat -> wf m n A ->
  minmax_inner_status m n A max_iter <> 1%nat ->
  minmax m n A max_iter opts0 = (v, x, y) ->
  ((forall i, (i < m)%nat -> 0 <= vget x i) /\ sumQ m (vget x) == 1 /\
   (forall j, (j < n)%nat -> 0 <= vget y j) /\ sumQ n (vget y) == 1 /\
   (forall j, (j < n)%nat -> v <= sumQ m (fun i => vget x i * get A i j)) /\
   (forall i, (i < m)%nat -> sumQ n (fun j => get A i j * vget y j) <= v)) /\
  (exists j, (j < n)%nat /\ sumQ m (fun i => vget x i * get A i j) == v) /\
  (exists i, (i < m)%nat /\ sumQ n (fun j => get A i j * vget y j) == v).
Proof. exact minmax_certificate_unless_cap. Qed.
Print Assumptions C04_minmax_certificate_unless_cap.

(* not proved (the only open point for minmax): the cap is not exhausted, i.e. status 1 does not occur for a large
   enough max_iter (termination of the lexicographic rule) *)
Definition C04_minmax_terminates_full : Prop :=
  forall m n A, (0 < m)%nat -> (0 < n)%nat -> wf m n A ->
    exists N, forall max_iter, (N <= max_iter)%nat -> minmax_inner_status m n A max_iter <> 1%nat.

(* the hypotheses are satisfiable by non-trivial objects: an LP with a negative right-hand side and an
   equality row on which the model ends with status 0 *)
Example ex_status0_instance :
  linprog_simplex [2; 1] 2 1 [[1; 1]; [-1; 0]] [4; -1] [[1; -1]] [-1] 100 opts0
  = ([3 # 2; 5 # 2], [3 # 2; 0; 1 # 2], 11 # 2, true, 0%nat, 5%nat).
Proof. vm_compute. reflexivity. Qed.
Example ex_status2_instance :
  linprog_simplex [1; 1] 1 0 [[1; 1]] [-1] [] [] 100 opts0 = ([], [], 0, false, 2%nat, 1%nat).
Proof. vm_compute. reflexivity. Qed.
Example ex_status3_instance :
  linprog_simplex [1; 0] 1 0 [[-1; 1]] [2] [] [] 100 opts0 = ([0; 2], [0], 0, false, 3%nat, 3%nat).
Proof. vm_compute. reflexivity. Qed.
Example ex_tab_inv_instance :
  exists T basis, tab_inv 2 7 4 (T0 2 2 0 [[1; 1]; [-1; 0]] [4; -1] [] []) (obj1 2 2 0) T basis /\ rhs_nonneg 2 7 T.
Proof. eexists. eexists. exact (init_inv 2 2 0 [[1; 1]; [-1; 0]] [4; -1] [] []). Qed.
Example ex_certificate_instance :
  primal_feasible 2 2 0 [[1; 1]; [-1; 0]] [4; -1] [] [] [4; 0] /\
  dual_feasible 2 2 0 [2; 1] [[1; 1]; [-1; 0]] [] [2; 0] /\
  dotn 2 [2; 1] [4; 0] == dual_obj 2 0 [4; -1] [] [2; 0].
Proof.
  pose proof (status0_certificate [2; 1] 2 0 [[1; 1]; [-1; 0]] [4; -1] [] [] 100 [4; 0] [2; 0] 8 true 5
                eq_refl eq_refl ltac:(vm_compute; reflexivity)) as (_ & Hp & Hd & E1 & E2).
  split; [exact Hp|split; [exact Hd|]]. rewrite E1. exact E2.
Qed.
Example ex_minmax_instance :
  minmax_inner_status 2 3 [[1; -1; 0]; [-1; 1; 2]] 100 = 0%nat /\
  minmax 2 3 [[1; -1; 0]; [-1; 1; 2]] 100 opts0 = (0, [1 # 2; 1 # 2], [1 # 2; 1 # 2; 0]).
Proof. vm_compute. split; reflexivity. Qed.
Example ex_sep_ok_instance :
  linprog_sep [2; 1] 2 1 [[1; 1]; [-1; 0]] [4; -1] [[1; -1]] [-1] 100 opts_src = true /\
  minmax_sep 2 3 [[1; -1; 0]; [-1; 1; 2]] 100 opts_src = true.
Proof. vm_compute. split; reflexivity. Qed.

(* C04 property theorems: statements only, each closed by `exact`, with Print Assumptions. *)
From Coq Require Import List Bool Arith QArith.
From QE Require Import Base.Num Base.Pivot C04.Model.
Import ListNotations.

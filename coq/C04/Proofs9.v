(* C04 proofs, part 9 (tolerance 0): status 3 => feasible point + improving feasible ray; the three
   certificates exclude each other; status <-> classification whenever the cap is not hit. *)
From Coq Require Import ZArith QArith List Bool Arith Lia Lqa Setoid Morphisms.
From QE Require Import Base.Num Base.Pivot Base.PivotProofs C04.Model C04.Proofs C04.Proofs2 C04.Proofs3 C04.Proofs4 C04.Proofs5 C04.Proofs6 C04.Proofs7 C04.Proofs8.
Import ListNotations.
Open Scope Q_scope.

(* a feasible ray: direction d >= 0 with A_ub d <= 0, A_eq d = 0 *)
Definition feasible_ray (n m k : nat) (Aub Aeq : matQ) (d : list Q) : Prop :=
  (forall j, (j < n)%nat -> 0 <= vget d j) /\
  (forall i, (i < m)%nat -> Arow n Aub i d <= 0) /\
  (forall i, (i < k)%nat -> Arow n Aeq i d == 0).

Lemma vget_tabv n (f : nat -> Q) j : (j < n)%nat -> vget (tabv n f) j = f j.
Proof. intros. unfold vget. apply nth_tabv. auto. Qed.

Section Gen.
Variables (n m k : nat) (Aub : matQ) (bub : list Q) (Aeq : matQ) (beq : list Q).
Let L := (m + k)%nat.
Let a := (n + m)%nat.
Let nc := (n + m + L + 1)%nat.
Notation T0' := (T0 n m k Aub bub Aeq beq).
Notation sg' := (sg m bub beq).
Notation b_of' := (b_of m bub beq).
Notation A_of' := (A_of m Aub Aeq).

Lemma row_eq_gen u i :
  solves L nc T0' u -> (forall j, (j < L)%nat -> u (a + j)%nat == 0) -> (i < L)%nat ->
  sumQ n (fun j => A_of' i j * u j) + (if Nat.ltb i m then u (n + i)%nat else 0) == b_of' i.
Proof.
  intros Hs Hart Hi. pose proof (Hs i Hi) as E.
  change (nc - 1)%nat with (n + m + (m + k) + 1 - 1)%nat in E. rewrite (sum_cols3 n m k) in E.
  rewrite (sumQ_ext n _ (fun j => sg' i * (A_of' i j * u j))) in E.
  2:{ intros j Hj. rewrite T0_x by auto. ring. }
  rewrite sumQ_scale in E.
  rewrite (sumQ_ext m _ (fun j => if Nat.eqb j i then sg' i * u (n + j)%nat else 0)) in E.
  2:{ intros j Hj. rewrite T0_slack by auto. destruct (Nat.ltb_spec i m); cbn [andb].
      - destruct (Nat.eqb j i); ring.
      - destruct (Nat.eqb_spec j i); [lia|ring]. }
  rewrite sumQ_delta in E.
  rewrite (sumQ_zero (m + k)) in E.
  2:{ intros j Hj. pose proof (Hart j Hj) as Ez. unfold a in Ez. rewrite Ez. ring. }
  rewrite T0_rhs in E by auto.
  pose proof (sg_sq m bub beq i) as Hsq.
  set (S := sumQ n (fun j => A_of' i j * u j)) in *.
  set (U := if Nat.ltb i m then u (n + i)%nat else 0).
  assert (E' : sg' i * S + sg' i * U == sg' i * b_of' i).
  { rewrite <- E. unfold U. destruct (Nat.ltb i m); ring. }
  setoid_replace (S + U) with ((sg' i * sg' i) * (S + U)) by (rewrite Hsq; ring).
  setoid_replace ((sg' i * sg' i) * (S + U)) with (sg' i * (sg' i * S + sg' i * U)) by ring.
  rewrite E'. setoid_replace (sg' i * (sg' i * b_of' i)) with ((sg' i * sg' i) * b_of' i) by ring.
  rewrite Hsq. ring.
Qed.

Lemma feasible_of_solution u :
  solves L nc T0' u -> (forall j, 0 <= u j) -> (forall j, (j < L)%nat -> u (a + j)%nat == 0) ->
  primal_feasible n m k Aub bub Aeq beq (tabv n u).
Proof.
  intros Hs Hu Hart.
  assert (Hrow : forall i A, Arow n A i (tabv n u) == sumQ n (fun j => get A i j * u j)).
  { intros i A. unfold Arow. apply sumQ_ext. intros j Hj. rewrite vget_tabv by auto. reflexivity. }
  split; [|split].
  - intros j Hj. rewrite vget_tabv by auto. apply Hu.
  - intros i Hi. pose proof (row_eq_gen u i Hs Hart ltac:(unfold L; lia)) as E. unfold A_of, b_of in E.
    destruct (Nat.ltb_spec i m); [|lia]. rewrite Hrow. pose proof (Hu (n + i)%nat). lra.
  - intros i Hi. pose proof (row_eq_gen u (m + i)%nat Hs Hart ltac:(unfold L; lia)) as E. unfold A_of, b_of in E.
    destruct (Nat.ltb_spec (m + i) m); [lia|]. replace (m + i - m)%nat with i in E by lia. rewrite Hrow. lra.
Qed.

Lemma ray_of_solutions u0 u1 :
  solves L nc T0' u0 -> solves L nc T0' u1 ->
  (forall j, (j < L)%nat -> u0 (a + j)%nat == 0) -> (forall j, (j < L)%nat -> u1 (a + j)%nat == 0) ->
  (forall j, u0 j <= u1 j) ->
  feasible_ray n m k Aub Aeq (tabv n (fun j => u1 j - u0 j)).
Proof.
  intros Hs0 Hs1 Ha0 Ha1 Hle.
  assert (Hrow : forall i A, Arow n A i (tabv n (fun j => u1 j - u0 j))
                             == sumQ n (fun j => get A i j * u1 j) - sumQ n (fun j => get A i j * u0 j)).
  { intros i A. unfold Arow.
    rewrite (sumQ_ext n _ (fun j => 1 * (get A i j * u1 j) + (-1) * (get A i j * u0 j))).
    - rewrite sumQ_lin. ring.
    - intros j Hj. rewrite vget_tabv by auto. ring. }
  split; [|split].
  - intros j Hj. rewrite vget_tabv by auto. specialize (Hle j). lra.
  - intros i Hi. pose proof (row_eq_gen u0 i Hs0 Ha0 ltac:(unfold L; lia)) as E0.
    pose proof (row_eq_gen u1 i Hs1 Ha1 ltac:(unfold L; lia)) as E1. unfold A_of, b_of in E0, E1.
    destruct (Nat.ltb_spec i m); [|lia]. rewrite Hrow. specialize (Hle (n + i)%nat). lra.
  - intros i Hi. pose proof (row_eq_gen u0 (m + i)%nat Hs0 Ha0 ltac:(unfold L; lia)) as E0.
    pose proof (row_eq_gen u1 (m + i)%nat Hs1 Ha1 ltac:(unfold L; lia)) as E1. unfold A_of, b_of in E0, E1.
    destruct (Nat.ltb_spec (m + i) m); [lia|]. replace (m + i - m)%nat with i in * by lia. rewrite Hrow. lra.
Qed.
End Gen.

(* ------------------------------------------------------------------ pure LP facts *)
Lemma Arow_lin n A i (x d : list Q) t :
  Arow n A i (tabv n (fun j => vget x j + t * vget d j)) == Arow n A i x + t * Arow n A i d.
Proof.
  unfold Arow. rewrite (sumQ_ext n _ (fun j => 1 * (get A i j * vget x j) + t * (get A i j * vget d j))).
  - rewrite sumQ_lin. ring.
  - intros j Hj. rewrite vget_tabv by auto. ring.
Qed.
Lemma dotn_lin n c (x d : list Q) t :
  dotn n c (tabv n (fun j => vget x j + t * vget d j)) == dotn n c x + t * dotn n c d.
Proof.
  unfold dotn. rewrite (sumQ_ext n _ (fun j => 1 * (vget c j * vget x j) + t * (vget c j * vget d j))).
  - rewrite sumQ_lin. ring.
  - intros j Hj. rewrite vget_tabv by auto. ring.
Qed.

Lemma ray_unbounded n m k c Aub bub Aeq beq x0 d :
  primal_feasible n m k Aub bub Aeq beq x0 -> feasible_ray n m k Aub Aeq d -> 0 < dotn n c d ->
  forall B, exists x', primal_feasible n m k Aub bub Aeq beq x' /\ B < dotn n c x'.
Proof.
  intros (Hx & Hub & Heq) (Hd & Hdub & Hdeq) Hpos B.
  set (t := if Qlt_le_dec B (dotn n c x0) then 0 else (B - dotn n c x0) / dotn n c d + 1).
  assert (Ht : 0 <= t).
  { unfold t. destruct (Qlt_le_dec B (dotn n c x0)); [lra|].
    assert (0 <= (B - dotn n c x0) / dotn n c d) by (apply Qle_shift_div_l; lra). lra. }
  exists (tabv n (fun j => vget x0 j + t * vget d j)). split; [split; [|split]|].
  - intros j Hj. rewrite vget_tabv by auto. specialize (Hx j Hj). specialize (Hd j Hj). nra.
  - intros i Hi. rewrite Arow_lin. specialize (Hub i Hi). specialize (Hdub i Hi). nra.
  - intros i Hi. rewrite Arow_lin. rewrite (Heq i Hi), (Hdeq i Hi). ring.
  - rewrite dotn_lin. unfold t. destruct (Qlt_le_dec B (dotn n c x0)); [lra|].
    setoid_replace (((B - dotn n c x0) / dotn n c d + 1) * dotn n c d) with (B - dotn n c x0 + dotn n c d) by (field; lra). lra.
Qed.

(* the three certificates exclude each other *)
Definition lp_optimal n m k c Aub bub Aeq beq : Prop :=
  exists x, primal_feasible n m k Aub bub Aeq beq x /\
            forall x', primal_feasible n m k Aub bub Aeq beq x' -> dotn n c x' <= dotn n c x.
Definition lp_infeasible n m k Aub bub Aeq beq : Prop := forall x, ~ primal_feasible n m k Aub bub Aeq beq x.
Definition lp_unbounded n m k c Aub bub Aeq beq : Prop :=
  (exists x, primal_feasible n m k Aub bub Aeq beq x) /\
  forall B, exists x', primal_feasible n m k Aub bub Aeq beq x' /\ B < dotn n c x'.

Lemma certificates_exclusive n m k c Aub bub Aeq beq :
  ~ (lp_optimal n m k c Aub bub Aeq beq /\ lp_infeasible n m k Aub bub Aeq beq) /\
  ~ (lp_optimal n m k c Aub bub Aeq beq /\ lp_unbounded n m k c Aub bub Aeq beq) /\
  ~ (lp_infeasible n m k Aub bub Aeq beq /\ lp_unbounded n m k c Aub bub Aeq beq).
Proof.
  split; [|split].
  - intros [(x & Hx & _) Hi]. exact (Hi x Hx).
  - intros [(x & Hx & Hopt) [_ Hu]]. destruct (Hu (dotn n c x)) as (x' & Hx' & Hlt). specialize (Hopt x' Hx'). lra.
  - intros [Hi [(x & Hx) _]]. exact (Hi x Hx).
Qed.

(* ------------------------------------------------------------------ status 3 *)
Theorem status3_ray c m k Aub bub Aeq beq max_iter x lam fn success ni :
  linprog_simplex c m k Aub bub Aeq beq max_iter opts0 = (x, lam, fn, success, 3%nat, ni) ->
  let n := length c in
  exists x0 d, primal_feasible n m k Aub bub Aeq beq x0 /\ feasible_ray n m k Aub Aeq d /\ 0 < dotn n c d.
Proof.
  cbv zeta. set (n := length c). set (L := (m + k)%nat). set (a := (n + m)%nat). set (nc := (n + m + L + 1)%nat).
  unfold linprog_simplex. fold n. cbv zeta. fold L.
  pose proof (init_inv n m k Aub bub Aeq beq) as [Hi0 Hr0]. unfold T1, basis1 in Hi0, Hr0.
  destruct (initialize_tableau n m k Aub bub Aeq beq) as [tb0 basis0]. cbn [fst snd] in Hi0, Hr0.
  fold L a nc in Hi0, Hr0.
  unfold solve_phase_1, solve_tableau.
  assert (Hanc : (a + L = nc - 1)%nat) by (unfold nc; lia).
  assert (E1 : (nrows tb0 - 1 = L)%nat) by (unfold nrows; destruct (ti_wf _ _ _ _ _ _ _ Hi0) as [-> _]; lia).
  assert (E2 : ncols tb0 = nc) by (apply (wf_ncols (S L)); [apply (ti_wf _ _ _ _ _ _ _ Hi0)|lia]).
  rewrite E1, E2.
  pose proof (phase1_spec L nc a _ _ max_iter tb0 basis0 0%nat Hi0 Hr0) as H1.
  pose proof (phase1_no_status3 L nc a _ max_iter tb0 basis0 0%nat Hanc Hi0 Hr0) as Hn3.
  destruct (solve_tableau_loop max_iter tb0 basis0 false opts0 0) as [[[[tb bs] su] st] ni1].
  destruct H1 as (Hi1 & Hr1 & Hs1).
  destruct su; cbn [negb].
  2:{ intros H. injection H as _ _ _ _ Hst _. congruence. }
  assert (E3 : ncols tb = nc) by (apply (wf_ncols (S L)); [apply (ti_wf _ _ _ _ _ _ _ Hi1)|lia]).
  rewrite E3.
  destruct (nltb (fea_tol opts0) (get tb L (nc - 1))) eqn:Ef.
  { intros H. inversion H. }
  apply nltb_false in Ef. cbn in Ef.
  assert (Haz : art_zero L nc a tb bs) by (eapply phase1_art_zero; eauto).
  replace (nc - (L + 1))%nat with a by (unfold nc; lia).
  pose proof (cleanup_spec L nc a _ _ tb bs ni1 Hi1 Hr1 Haz) as H2.
  change (tol_piv opts0) with 0.
  destruct (cleanup tb bs ni1 L a 0) as [[tb' bs'] ni1'].
  destruct H2 as (Hi2 & HP2).
  pose proof (set_criterion_row_spec L nc a _ _ tb' bs' c ltac:(fold n; unfold a; lia) Hi2 HP2) as H3.
  cbv zeta in H3. destruct H3 as (Hi3 & HP3).
  pose proof (solve_tableau_ind3 L nc a (T0 n m k Aub bub Aeq beq) (obj2f c) true (phase2_P L nc a) Hanc) as H4.
  assert (Hstep : forall (T : matQ) (basis : list nat) (c0 r : nat),
     tab_inv L nc a (T0 n m k Aub bub Aeq beq) (obj2f c) T basis -> phase2_P L nc a T basis -> (r < L)%nat ->
     (c0 < nc - 1 - (if true then L else 0))%nat -> 0 < get T r c0 -> 0 < get T L c0 ->
     (forall k0 : nat, (k0 < L)%nat -> 0 < get T k0 c0 -> ratio T c0 (nc - 1) r <= ratio T c0 (nc - 1) k0) ->
     phase2_P L nc a (pivoting T c0 r) (set_nth basis r c0)).
  { intros T1 b1 c0 r Hi' HP' Hr Hc Hp _ Hmin. eapply phase2_step; eauto. cbv iota in Hc. lia. }
  specialize (H4 Hstep (max_iter - ni1')%nat (set_criterion_row c bs' tb') bs' 0%nat Hi3 HP3).
  destruct (solve_tableau_loop (max_iter - ni1') (set_criterion_row c bs' tb') bs' true opts0 0) as [[[[tb3 bs3] su3] st3] ni2].
  destruct H4 as (Hi4 & (Hrhs4 & Haz4 & Har4) & H34).
  destruct (get_solution tb3 bs3 n L (b_signs bub beq)) as [[x0' lam0] fn0].
  intros H. injection H as _ _ _ _ Hst _. destruct (H34 Hst) as (c0 & Hc0 & Hpos & Hnp). cbv iota in Hc0.
  assert (Hc0a : (c0 < a)%nat) by lia.
  (* artificial components of every point of the half-line vanish *)
  assert (Hart : forall t j, (j < L)%nat -> ray_pt L nc tb3 bs3 c0 t (a + j)%nat == 0).
  { intros t j Hj. unfold ray_pt.
    assert (Eb : bsol L nc tb3 bs3 (a + j)%nat == 0).
    { apply sumQ_zero. intros i Hi. destruct (Nat.eqb_spec (nth i bs3 0%nat) (a + j)%nat) as [E|]; [|reflexivity].
      apply Haz4; auto. lia. }
    assert (Ec : bsolc L tb3 bs3 c0 (a + j)%nat == 0).
    { apply bsolc_zero. intros i Hi E. apply Har4; auto. lia. }
    destruct (Nat.eqb_spec (a + j) c0); [lia|]. rewrite Eb, Ec. ring. }
  destruct (ray_pt_props L nc a _ _ tb3 bs3 c0 0 Hi4 Hrhs4 ltac:(lia) Hnp ltac:(lra)) as (Hsl0 & Hn0 & Ev0).
  destruct (ray_pt_props L nc a _ _ tb3 bs3 c0 1 Hi4 Hrhs4 ltac:(lia) Hnp ltac:(lra)) as (Hsl1 & Hn1 & Ev1).
  exists (tabv n (ray_pt L nc tb3 bs3 c0 0)), (tabv n (fun j => ray_pt L nc tb3 bs3 c0 1 j - ray_pt L nc tb3 bs3 c0 0 j)).
  split; [|split].
  - apply feasible_of_solution; [exact Hsl0|exact Hn0|intros j Hj; apply Hart; auto].
  - apply (ray_of_solutions n m k Aub bub Aeq beq);
      [exact Hsl0|exact Hsl1|intros j Hj; apply Hart; auto|intros j Hj; apply Hart; auto|].
    intros j. unfold ray_pt. pose proof (bsolc_nonpos L tb3 bs3 c0 j Hnp).
    assert (0 <= (if Nat.eqb j c0 then 1 else 0) - bsolc L tb3 bs3 c0 j) by (destruct (Nat.eqb j c0); lra). lra.
  - (* c.d = (objective at t = 1) - (objective at t = 0) = criterion coefficient of column c0 *)
    assert (Hobj : forall u, sumQ (nc - 1) (fun j => obj2f c j * u j) == sumQ n (fun j => vget c j * u j)).
    { intros u. change (nc - 1)%nat with (n + m + (m + k) + 1 - 1)%nat. rewrite (sum_cols3 n m k).
      rewrite (sumQ_zero m), (sumQ_zero (m + k)).
      - rewrite !Qplus_0_r. apply sumQ_ext. intros j Hj. unfold obj2f. fold n. destruct (Nat.ltb_spec j n); [reflexivity|lia].
      - intros j Hj. unfold obj2f. fold n. destruct (Nat.ltb_spec (n + m + j) n); [lia|ring].
      - intros j Hj. unfold obj2f. fold n. destruct (Nat.ltb_spec (n + j) n); [lia|ring]. }
    rewrite Hobj in Ev0, Ev1. unfold dotn.
    rewrite (sumQ_ext n _ (fun j => 1 * (vget c j * ray_pt L nc tb3 bs3 c0 1 j) + (-1) * (vget c j * ray_pt L nc tb3 bs3 c0 0 j))).
    + rewrite sumQ_lin, Ev0, Ev1. lra.
    + intros j Hj. rewrite vget_tabv by auto. ring.
Qed.

Theorem status3_unbounded c m k Aub bub Aeq beq max_iter x lam fn success ni :
  linprog_simplex c m k Aub bub Aeq beq max_iter opts0 = (x, lam, fn, success, 3%nat, ni) ->
  lp_unbounded (length c) m k c Aub bub Aeq beq.
Proof.
  intros H. destruct (status3_ray _ _ _ _ _ _ _ _ _ _ _ _ _ H) as (x0 & d & Hx0 & Hd & Hpos).
  split; [eauto|]. eapply ray_unbounded; eauto.
Qed.

Lemma status3_both c m k Aub bub Aeq beq max_iter x lam fn success ni :
  linprog_simplex c m k Aub bub Aeq beq max_iter opts0 = (x, lam, fn, success, 3%nat, ni) ->
  let n := length c in
  (exists x0 d, primal_feasible n m k Aub bub Aeq beq x0 /\ feasible_ray n m k Aub Aeq d /\ 0 < dotn n c d) /\
  lp_unbounded n m k c Aub bub Aeq beq.
Proof. intros. split; [eapply status3_ray|eapply status3_unbounded]; eauto. Qed.

(* every status the model can return *)
Lemma linprog_status_range c m k Aub bub Aeq beq max_iter (o : @PivOptions Q) :
  let '(_, _, _, _, status, _) := linprog_simplex c m k Aub bub Aeq beq max_iter o in (status <= 3)%nat.
Proof.
  unfold linprog_simplex. cbv zeta. destruct (initialize_tableau _ _ _ _ _ _ _) as [tb0 basis0].
  unfold solve_phase_1, solve_tableau.
  pose proof (solve_tableau_status max_iter tb0 basis0 false o 0%nat) as H1.
  destruct (solve_tableau_loop max_iter tb0 basis0 false o 0) as [[[[tb bs] su] st] ni1].
  destruct su; cbn [negb]; [|lia].
  destruct (nltb _ _); [cbn; lia|].
  destruct (cleanup _ _ _ _ _ _) as [[tb' bs'] ni1']. cbn [negb].
  pose proof (solve_tableau_status (max_iter - ni1') (set_criterion_row c bs' tb') bs' true o 0%nat) as H2.
  destruct (solve_tableau_loop _ _ _ true o 0) as [[[[tb3 bs3] su3] st3] ni2].
  destruct (get_solution _ _ _ _ _) as [[x0 lam0] fn0]. lia.
Qed.

(* status <-> classification of the LP, whenever the iteration cap is not reported (status <> 1) *)
Theorem status_iff c m k Aub bub Aeq beq max_iter x lam fn success status ni :
  length bub = m -> length beq = k ->
  linprog_simplex c m k Aub bub Aeq beq max_iter opts0 = (x, lam, fn, success, status, ni) ->
  status <> 1%nat ->
  let n := length c in
  (status = 0%nat <-> lp_optimal n m k c Aub bub Aeq beq) /\
  (status = 2%nat <-> lp_infeasible n m k Aub bub Aeq beq) /\
  (status = 3%nat <-> lp_unbounded n m k c Aub bub Aeq beq).
Proof.
  intros Hb1 Hb2 H Hne. cbv zeta.
  pose proof (linprog_status_range c m k Aub bub Aeq beq max_iter opts0) as Hr. rewrite H in Hr.
  destruct (certificates_exclusive (length c) m k c Aub bub Aeq beq) as (X1 & X2 & X3).
  assert (S0 : status = 0%nat -> lp_optimal (length c) m k c Aub bub Aeq beq).
  { intros ->. destruct (status0_optimal _ _ _ _ _ _ _ _ _ _ _ _ _ Hb1 Hb2 H) as (Hp & Hopt & _). exists x. auto. }
  assert (S2 : status = 2%nat -> lp_infeasible (length c) m k Aub bub Aeq beq).
  { intros ->. exact (status2_infeasible _ _ _ _ _ _ _ _ _ _ _ _ _ H). }
  assert (S3 : status = 3%nat -> lp_unbounded (length c) m k c Aub bub Aeq beq).
  { intros ->. exact (status3_unbounded _ _ _ _ _ _ _ _ _ _ _ _ _ H). }
  assert (Hcases : status = 0%nat \/ status = 2%nat \/ status = 3%nat) by lia.
  split; [|split]; (split; [auto|]); intros Hc; destruct Hcases as [E|[E|E]]; auto; exfalso.
  - apply X1. split; [auto|apply S2; auto].
  - apply X2. split; [auto|apply S3; auto].
  - apply X1. split; [apply S0; auto|auto].
  - apply X3. split; [auto|apply S3; auto].
  - apply X2. split; [apply S0; auto|auto].
  - apply X3. split; [apply S2; auto|auto].
Qed.

(* C04: tie lemmas between kernels of quantecon/optimize/linprog_simplex.py REGENERATED from /repo's current
   source (Gen/Kernels2.v) and the hand-written model C04/Model.v, for every Num instance:
     _pivot_col      gen_pivot_col = pivot_col          (the code's pivcol = -1 when nothing is found; the model says 0)
     solve_tableau   gen_solve_tableau = solve_tableau  (status, num_iter, final tableau and basis; bounds flag true)
   for rectangular tableaux with 2 <= nrows <= ncols and a basis array of length nrows - 1.
   solve_tableau is tied along the model's own pivot path: at every visited tableau np.inf (parameter inf_) must act
   as +infinity on the ratios of the lexicographic ratio test (traj_ok); fuel Z.to_nat max_iter is adequate because
   num_iter increases by one per iteration. *)
From Coq Require Import ZArith List Bool Arith Lia.
From QE Require Import Base.Num Base.Pivot Gen.Kernels Gen.Kernels2 Base.PivotTie C04.Model.
Import ListNotations.

Section Tie.
Context {T : Type} {NT : Num T}.
Notation mat := (list (list T)).

Lemma row2_m1 (M : mat) : (0 < length M)%nat -> row2 M (-1) = nth (length M - 1) M [].
Proof. intro Hl. unfold row2. rewrite widx_m1, Nat2Z.id by exact Hl. reflexivity. Qed.
Lemma get2_m1row (M : mat) j : (0 < length M)%nat -> get2 M (-1) (Z.of_nat j) = get M (length M - 1) j.
Proof. intro Hl. unfold get2, get. rewrite row2_m1, widx_nat, Nat2Z.id by exact Hl. reflexivity. Qed.
Lemma inb2_m1row (M : mat) j : (0 < length M)%nat -> (j < length (nth (length M - 1) M []))%nat ->
  inb2 (-1) (Z.of_nat j) M = true.
Proof.
  intros Hl Hj. unfold inb2. rewrite row2_m1, widx_m1, widx_nat, !inb_nat by (assumption || lia). reflexivity.
Qed.

(* ------------------------------------------------------------------ _pivot_col *)
Definition enc (found : bool) (pc : nat) : Z := if found then Z.of_nat pc else (-1)%Z.

Lemma pivot_col_loop0_tie (M : mat) nr nc : rect nr nc M -> (0 < nr)%nat ->
  forall f j coeff found pc ok, (j + f <= nc)%nat ->
  exists coeff',
  gen_pivot_col_loop0 f (Z.of_nat j) coeff (enc found pc) found ok M =
    (coeff', enc (fst (pivot_col_loop (nth (nr - 1) M []) (seq j f) found pc coeff))
                 (snd (pivot_col_loop (nth (nr - 1) M []) (seq j f) found pc coeff)),
     fst (pivot_col_loop (nth (nr - 1) M []) (seq j f) found pc coeff), ok).
Proof.
  intros [Hl Hr] Hnr. induction f as [|f IH]; intros j coeff found pc ok Hj; cbn [gen_pivot_col_loop0 seq pivot_col_loop].
  - exists coeff. reflexivity.
  - change (- (1))%Z with (-1)%Z. rewrite inb2_m1row by (rewrite ?Hl, ?Hr; lia).
    rewrite get2_m1row by lia. rewrite Hl. unfold get. fold (vget (nth (nr - 1) M []) j). cbv zeta.
    replace (Z.of_nat j + 1)%Z with (Z.of_nat (S j)) by lia. rewrite !andb_true_r.
    destruct (nltb coeff (vget (nth (nr - 1) M []) j)).
    + exact (IH (S j) _ true j ok ltac:(lia)).
    + apply IH. lia.
Qed.

Theorem gen_pivot_col_tie (M : mat) nr nc skip (fea tolp tolr : T) : rect nr nc M -> (0 < nr)%nat ->
  let m := pivot_col M skip {| fea_tol := fea; tol_piv := tolp; tol_ratio_diff := tolr |} in
  gen_pivot_col M skip fea tolp tolr = ((fst m, enc (fst m) (snd m)), true).
Proof.
  intros HM Hnr. cbv zeta. unfold gen_pivot_col, pivot_col. cbv zeta. cbn [fea_tol].
  destruct HM as [Hl Hr]. unfold nrows2, ncols2, nrows, ncols. rewrite Hl, (Hr 0%nat Hnr).
  destruct skip; cbv beta iota zeta.
  - replace (Z.to_nat (Z.of_nat nc - 1 - (Z.of_nat nr - 1) - 0)) with (nc - 1 - (nr - 1))%nat by lia.
    destruct (pivot_col_loop0_tie M nr nc (conj Hl Hr) Hnr (nc - 1 - (nr - 1)) 0%nat fea false 0%nat true) as (c' & E); [lia|].
    change (enc false 0) with (-1)%Z in E. change (Z.of_nat 0) with 0%Z in E. change (- (1))%Z with (-1)%Z.
    rewrite E. reflexivity.
  - replace (Z.to_nat (Z.of_nat nc - 1 - 0)) with (nc - 1 - 0)%nat by lia.
    destruct (pivot_col_loop0_tie M nr nc (conj Hl Hr) Hnr (nc - 1 - 0) 0%nat fea false 0%nat true) as (c' & E); [lia|].
    change (enc false 0) with (-1)%Z in E. change (Z.of_nat 0) with 0%Z in E. change (- (1))%Z with (-1)%Z.
    rewrite E. reflexivity.
Qed.

Lemma pivot_col_loop_range crit : forall js found pc coeff p,
  pivot_col_loop crit js found pc coeff = (true, p) -> (found = true /\ p = pc) \/ In p js.
Proof.
  induction js as [|j js IH]; intros found pc coeff p H; cbn [pivot_col_loop] in H.
  - injection H as -> ->. left. split; reflexivity.
  - cbv zeta in H. destruct (nltb coeff (vget crit j)).
    + apply IH in H. destruct H as [[_ ->]|H]; right; [left; reflexivity|right; exact H].
    + apply IH in H. destruct H as [H|H]; [left; exact H|right; right; exact H].
Qed.
Lemma pivot_col_range (M : mat) skip o p : pivot_col M skip o = (true, p) -> (p < ncols M - 1)%nat.
Proof.
  unfold pivot_col. cbv zeta. intro H. apply pivot_col_loop_range in H. destruct H as [[H _]|H]; [discriminate|].
  apply in_seq in H. lia.
Qed.

(* ------------------------------------------------------------------ solve_tableau *)
Lemma upd_nth_set_nth {A} : forall (l : list A) i v, upd_nth l i v = set_nth l i v.
Proof. induction l as [|x l IH]; intros [|i] v; cbn; reflexivity. Qed.

Section Solve.
Variables (inf_ fea tolp tolr : T) (skip : bool) (nr nc : nat).
Hypothesis Hnr : (2 <= nr <= nc)%nat.
Let o := {| fea_tol := fea; tol_piv := tolp; tol_ratio_diff := tolr |}.

(* np.inf acts as +infinity on the ratios of the lexicographic test at every tableau of the model's run *)
Definition lex_hyp (M : mat) (pv : nat) : Prop :=
  forall i j, (i < nr - 1)%nat -> (j < nc)%nat -> nleb (get M i pv) tolp = false ->
    inf_like inf_ tolr (ndiv (get M i j) (get M i pv)).
Fixpoint traj_ok (fuel : nat) (M : mat) : Prop :=
  match fuel with
  | O => True
  | S f =>
    let '(cfound, pivcol) := pivot_col M skip o in
    if negb cfound then True
    else lex_hyp M pivcol /\
         let '(rfound, pivrow) := lex_min_ratio_test_n (nr - 1) M pivcol (nc - (nr - 1) - 1) tolp tolr in
         if negb rfound then True else traj_ok f (pivoting M pivcol pivrow)
  end.

Lemma solve_loop_tie : forall f (M : mat) (basis : list nat) (argmins : list Z) n ok,
  rect nr nc M -> length basis = (nr - 1)%nat -> length argmins = (nr - 1)%nat -> traj_ok f M ->
  exists argmins',
  gen_solve_tableau_loop0 f (Z.of_nat n) false 1 argmins M (zs basis) ok (Z.of_nat (n + f)) skip fea tolp tolr
      (Z.of_nat nr - 1) inf_
  = (let '(M', basis', success, status, ni) := solve_tableau_loop f M basis skip o n in
     (Z.of_nat ni, success, Z.of_nat status, argmins', M', zs basis', ok)).
Proof.
  induction f as [|f IH]; intros M basis argmins n ok HM Hb Ha Htr; cbn [gen_solve_tableau_loop0 solve_tableau_loop].
  - exists argmins. reflexivity.
  - replace (Z.of_nat n <? Z.of_nat (n + S f))%Z with true by (symmetry; apply Z.ltb_lt; lia).
    pose proof (gen_pivot_col_tie M nr nc skip fea tolp tolr HM ltac:(lia)) as Epc. cbv zeta in Epc. fold o in Epc.
    rewrite Epc. cbv beta iota zeta. rewrite andb_true_r. cbn [traj_ok] in Htr.
    replace (Z.of_nat n + 1)%Z with (Z.of_nat (S n)) by lia.
    destruct (pivot_col M skip o) as [cfound pc] eqn:Ec. cbn [fst snd negb].
    destruct cfound; cbn [negb]; [|exists argmins; reflexivity].
    destruct Htr as [Hlex Htr]. destruct HM as [Hl Hr].
    assert (Hpc : (pc < nc)%nat).
    { apply pivot_col_range in Ec. unfold ncols in Ec. rewrite Hr in Ec by lia. lia. }
    unfold nrows, ncols. rewrite Hl, (Hr 0%nat ltac:(lia)). unfold ncols2. rewrite (Hr 0%nat ltac:(lia)).
    unfold enc. replace (Z.of_nat nc - (Z.of_nat nr - 1) - 1)%Z with (Z.of_nat (nc - (nr - 1) - 1)) by lia.
    unfold droplast2. rewrite Hl.
    assert (HM1 : rect (nr - 1) nc (firstn (nr - 1) M)).
    { split; [apply firstn_length_le; lia|]. intros i Hi. rewrite nth_firstn_lt by exact Hi. apply Hr. lia. }
    assert (Hlex1 : forall i j, (i < nr - 1)%nat -> (j < nc)%nat -> nleb (get (firstn (nr - 1) M) i pc) tolp = false ->
               inf_like inf_ tolr (ndiv (get (firstn (nr - 1) M) i j) (get (firstn (nr - 1) M) i pc))).
    { intros i j Hi Hj. unfold get. rewrite nth_firstn_lt by exact Hi. apply Hlex; assumption. }
    pose proof (gen_lex_min_ratio_test_tie (firstn (nr - 1) M) (nr - 1) nc pc inf_ tolp tolr HM1 ltac:(lia) Hpc Hlex1
                  (nc - (nr - 1) - 1) argmins ltac:(lia) Ha) as Elex.
    cbv zeta in Elex. rewrite <- lex_min_ratio_test_n_firstn in Elex by lia.
    destruct (gen_lex_min_ratio_test inf_ (firstn (nr - 1) M) (Z.of_nat pc) (Z.of_nat (nc - (nr - 1) - 1)) argmins tolp tolr)
      as [[[gf gr] ga] gok]. cbn [fst snd] in Elex. destruct Elex as (E1 & -> & E3).
    cbn [tol_piv tol_ratio_diff o].
    destruct (lex_min_ratio_test_n (nr - 1) M pc (nc - (nr - 1) - 1) tolp tolr) as [rfound pr] eqn:Er.
    cbn [fst snd] in E1. injection E1 as -> ->. rewrite !andb_true_r.
    destruct rfound; cbn [negb]; [|exists ga; reflexivity].
    assert (Hpr : (pr < nr - 1)%nat) by (apply lex_min_ratio_test_n_range in Er; exact Er).
    rewrite (gen_pivoting_tie nr nc M pc pr (conj Hl Hr)) by lia. cbv beta iota zeta. rewrite andb_true_r.
    rewrite inb_nat by (rewrite zs_length; lia). rewrite andb_true_r, Nat2Z.id, upd_nth_zs, upd_nth_set_nth.
    replace (Z.of_nat (n + S f)) with (Z.of_nat (S n + f)) by lia.
    apply IH.
    + apply rect_pivoting; [split; assumption|lia].
    + rewrite <- upd_nth_set_nth, upd_nth_length. exact Hb.
    + exact E3.
    + exact Htr.
Qed.

Theorem gen_solve_tableau_tie (M : mat) (basis : list nat) (max_iter : nat) :
  rect nr nc M -> length basis = (nr - 1)%nat -> traj_ok max_iter M ->
  gen_solve_tableau inf_ M (zs basis) (Z.of_nat max_iter) skip fea tolp tolr =
    (let '(M', basis', success, status, ni) := solve_tableau M basis max_iter skip o in
     (((success, Z.of_nat status, Z.of_nat ni), M', zs basis'), true)).
Proof.
  intros HM Hb Htr. unfold gen_solve_tableau, solve_tableau. cbv zeta.
  destruct HM as [Hl Hr]. unfold nrows2. rewrite Hl, Nat2Z.id.
  destruct (solve_loop_tie max_iter M basis (repeat 0%Z (Z.to_nat (Z.of_nat nr - 1))) 0 true (conj Hl Hr) Hb) as (a' & E).
  - rewrite repeat_length. lia.
  - exact Htr.
  - change (Z.of_nat 0) with 0%Z in E. cbn [Nat.add] in E. rewrite E.
    destruct (solve_tableau_loop max_iter M basis skip o 0) as [[[[M' b'] s'] st'] ni']. reflexivity.
Qed.

(* the trajectory hypothesis is decidable (inf_like is two boolean equations): a checker and its soundness *)
Definition inf_likeb (x : T) : bool := negb (nltb (nadd inf_ tolr) x) && nltb x (nsub inf_ tolr).
Definition lex_hypb (M : mat) (pv : nat) : bool :=
  forallb (fun i => forallb (fun j => nleb (get M i pv) tolp || inf_likeb (ndiv (get M i j) (get M i pv)))
                            (seq 0 nc)) (seq 0 (nr - 1)).
Fixpoint traj_okb (fuel : nat) (M : mat) : bool :=
  match fuel with
  | O => true
  | S f =>
    let '(cfound, pivcol) := pivot_col M skip o in
    if negb cfound then true
    else lex_hypb M pivcol &&
         let '(rfound, pivrow) := lex_min_ratio_test_n (nr - 1) M pivcol (nc - (nr - 1) - 1) tolp tolr in
         if negb rfound then true else traj_okb f (pivoting M pivcol pivrow)
  end.
Lemma lex_hypb_sound M pv : lex_hypb M pv = true -> lex_hyp M pv.
Proof.
  intros Hb i j Hi Hj Hp. unfold lex_hypb in Hb. rewrite forallb_forall in Hb.
  specialize (Hb i ltac:(apply in_seq; lia)). rewrite forallb_forall in Hb.
  specialize (Hb j ltac:(apply in_seq; lia)). rewrite Hp in Hb. cbn [orb] in Hb.
  unfold inf_likeb in Hb. apply andb_prop in Hb. destruct Hb as [H1 H2]. apply negb_true_iff in H1. split; assumption.
Qed.
Lemma traj_okb_sound : forall f M, traj_okb f M = true -> traj_ok f M.
Proof.
  induction f as [|f IH]; intros M Hb; cbn [traj_ok traj_okb] in *; [exact I|].
  destruct (pivot_col M skip o) as [cfound pc]. destruct (negb cfound); [exact I|].
  apply andb_prop in Hb. destruct Hb as [H1 H2]. split; [apply lex_hypb_sound, H1|].
  destruct (lex_min_ratio_test_n (nr - 1) M pc (nc - (nr - 1) - 1) tolp tolr) as [rfound pr].
  destruct (negb rfound); [exact I|]. apply IH, H2.
Qed.
End Solve.
End Tie.


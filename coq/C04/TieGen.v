(* C04: tie lemmas between kernels of quantecon/optimize/linprog_simplex.py REGENERATED from /repo's current
   source (Gen/Kernels2.v) and the hand-written model C04/Model.v, for every Num instance:
     _pivot_col      gen_pivot_col = pivot_col          (the code's pivcol = -1 when nothing is found; the model says 0)
     solve_tableau   gen_solve_tableau = solve_tableau  (status, num_iter, final tableau and basis; bounds flag true)
   for rectangular tableaux with 2 <= nrows <= ncols and a basis array of length nrows - 1.
   solve_tableau is tied along the model's own pivot path: at every visited tableau np.inf (parameter inf_) must act
   as +infinity on the ratios of the lexicographic ratio test (traj_ok); fuel Z.to_nat max_iter is adequate because
   num_iter increases by one per iteration. *)
From Coq Require Import ZArith List Bool Arith Lia.
From QE Require Import Base.Num Base.Pivot Gen.Kernels Gen.Kernels2 Base.PivotTie C04.Model.
Import ListNotations.

Section Tie.
Context {T : Type} {NT : Num T}.
Notation mat := (list (list T)).

Lemma row2_m1 (M : mat) : (0 < length M)%nat -> row2 M (-1) = nth (length M - 1) M [].
Proof. intro Hl. unfold row2. rewrite widx_m1, Nat2Z.id by exact Hl. reflexivity. Qed.
Lemma get2_m1row (M : mat) j : (0 < length M)%nat -> get2 M (-1) (Z.of_nat j) = get M (length M - 1) j.
Proof. intro Hl. unfold get2, get. rewrite row2_m1, widx_nat, Nat2Z.id by exact Hl. reflexivity. Qed.
Lemma inb2_m1row (M : mat) j : (0 < length M)%nat -> (j < length (nth (length M - 1) M []))%nat ->
  inb2 (-1) (Z.of_nat j) M = true.
Proof.
  intros Hl Hj. unfold inb2. rewrite row2_m1, widx_m1, widx_nat, !inb_nat by (assumption || lia). reflexivity.
Qed.

(* ------------------------------------------------------------------ _pivot_col *)
Definition enc (found : bool) (pc : nat) : Z := if found then Z.of_nat pc else (-1)%Z.

Lemma pivot_col_loop0_tie (M : mat) nr nc : rect nr nc M -> (0 < nr)%nat ->
  forall f j coeff found pc ok, (j + f <= nc)%nat ->
  exists coeff',
  gen_pivot_col_loop0 f (Z.of_nat j) coeff (enc found pc) found ok M =
    (coeff', enc (fst (pivot_col_loop (nth (nr - 1) M []) (seq j f) found pc coeff))
                 (snd (pivot_col_loop (nth (nr - 1) M []) (seq j f) found pc coeff)),
     fst (pivot_col_loop (nth (nr - 1) M []) (seq j f) found pc coeff), ok).
Proof.
  intros [Hl Hr] Hnr. induction f as [|f IH]; intros j coeff found pc ok Hj; cbn [gen_pivot_col_loop0 seq pivot_col_loop].
  - exists coeff. reflexivity.
  - change (- (1))%Z with (-1)%Z. rewrite inb2_m1row by (rewrite ?Hl, ?Hr; lia).
    rewrite get2_m1row by lia. rewrite Hl. unfold get. fold (vget (nth (nr - 1) M []) j). cbv zeta.
    replace (Z.of_nat j + 1)%Z with (Z.of_nat (S j)) by lia. rewrite !andb_true_r.
    destruct (nltb coeff (vget (nth (nr - 1) M []) j)).
    + exact (IH (S j) _ true j ok ltac:(lia)).
    + apply IH. lia.
Qed.

Theorem gen_pivot_col_tie (M : mat) nr nc skip (fea tolp tolr : T) : rect nr nc M -> (0 < nr)%nat ->
  let m := pivot_col M skip {| fea_tol := fea; tol_piv := tolp; tol_ratio_diff := tolr |} in
  gen_pivot_col M skip fea tolp tolr = ((fst m, enc (fst m) (snd m)), true).
Proof.
  intros HM Hnr. cbv zeta. unfold gen_pivot_col, pivot_col. cbv zeta. cbn [fea_tol].
  destruct HM as [Hl Hr]. unfold nrows2, ncols2, nrows, ncols. rewrite Hl, (Hr 0%nat Hnr).
  destruct skip; cbv beta iota zeta.
  - replace (Z.to_nat (Z.of_nat nc - 1 - (Z.of_nat nr - 1) - 0)) with (nc - 1 - (nr - 1))%nat by lia.
    destruct (pivot_col_loop0_tie M nr nc (conj Hl Hr) Hnr (nc - 1 - (nr - 1)) 0%nat fea false 0%nat true) as (c' & E); [lia|].
    change (enc false 0) with (-1)%Z in E. change (Z.of_nat 0) with 0%Z in E. change (- (1))%Z with (-1)%Z.
    rewrite E. reflexivity.
  - replace (Z.to_nat (Z.of_nat nc - 1 - 0)) with (nc - 1 - 0)%nat by lia.
    destruct (pivot_col_loop0_tie M nr nc (conj Hl Hr) Hnr (nc - 1 - 0) 0%nat fea false 0%nat true) as (c' & E); [lia|].
    change (enc false 0) with (-1)%Z in E. change (Z.of_nat 0) with 0%Z in E. change (- (1))%Z with (-1)%Z.
    rewrite E. reflexivity.
Qed.

Lemma pivot_col_loop_range crit : forall js found pc coeff p,
  pivot_col_loop crit js found pc coeff = (true, p) -> (found = true /\ p = pc) \/ In p js.
Proof.
  induction js as [|j js IH]; intros found pc coeff p H; cbn [pivot_col_loop] in H.
  - injection H as -> ->. left. split; reflexivity.
  - cbv zeta in H. destruct (nltb coeff (vget crit j)).
    + apply IH in H. destruct H as [[_ ->]|H]; right; [left; reflexivity|right; exact H].
    + apply IH in H. destruct H as [H|H]; [left; exact H|right; right; exact H].
Qed.
Lemma pivot_col_range (M : mat) skip o p : pivot_col M skip o = (true, p) -> (p < ncols M - 1)%nat.
Proof.
  unfold pivot_col. cbv zeta. intro H. apply pivot_col_loop_range in H. destruct H as [[H _]|H]; [discriminate|].
  apply in_seq in H. lia.
Qed.

(* ------------------------------------------------------------------ solve_tableau *)
Lemma upd_nth_set_nth {A} : forall (l : list A) i v, upd_nth l i v = set_nth l i v.
Proof. induction l as [|x l IH]; intros [|i] v; cbn; reflexivity. Qed.

Section Solve.
Variables (inf_ fea tolp tolr : T) (skip : bool) (nr nc : nat).
Hypothesis Hnr : (2 <= nr <= nc)%nat.
Let o := {| fea_tol := fea; tol_piv := tolp; tol_ratio_diff := tolr |}.

(* np.inf acts as +infinity on the ratios of the lexicographic test at every tableau of the model's run *)
Definition lex_hyp (M : mat) (pv : nat) : Prop :=
  forall i j, (i < nr - 1)%nat -> (j < nc)%nat -> nleb (get M i pv) tolp = false ->
    inf_like inf_ tolr (ndiv (get M i j) (get M i pv)).
Fixpoint traj_ok (fuel : nat) (M : mat) : Prop :=
  match fuel with
  | O => True
  | S f =>
    let '(cfound, pivcol) := pivot_col M skip o in
    if negb cfound then True
    else lex_hyp M pivcol /\
         let '(rfound, pivrow) := lex_min_ratio_test_n (nr - 1) M pivcol (nc - (nr - 1) - 1) tolp tolr in
         if negb rfound then True else traj_ok f (pivoting M pivcol pivrow)
  end.

Lemma solve_loop_tie : forall f (M : mat) (basis : list nat) (argmins : list Z) n ok,
  rect nr nc M -> length basis = (nr - 1)%nat -> length argmins = (nr - 1)%nat -> traj_ok f M ->
  exists argmins',
  gen_solve_tableau_loop0 f (Z.of_nat n) false 1 argmins M (zs basis) ok (Z.of_nat (n + f)) skip fea tolp tolr
      (Z.of_nat nr - 1) inf_
  = (let '(M', basis', success, status, ni) := solve_tableau_loop f M basis skip o n in
     (Z.of_nat ni, success, Z.of_nat status, argmins', M', zs basis', ok)).
Proof.
  induction f as [|f IH]; intros M basis argmins n ok HM Hb Ha Htr; cbn [gen_solve_tableau_loop0 solve_tableau_loop].
  - exists argmins. reflexivity.
  - replace (Z.of_nat n <? Z.of_nat (n + S f))%Z with true by (symmetry; apply Z.ltb_lt; lia).
    pose proof (gen_pivot_col_tie M nr nc skip fea tolp tolr HM ltac:(lia)) as Epc. cbv zeta in Epc. fold o in Epc.
    rewrite Epc. cbv beta iota zeta. rewrite andb_true_r. cbn [traj_ok] in Htr.
    replace (Z.of_nat n + 1)%Z with (Z.of_nat (S n)) by lia.
    destruct (pivot_col M skip o) as [cfound pc] eqn:Ec. cbn [fst snd negb].
    destruct cfound; cbn [negb]; [|exists argmins; reflexivity].
    destruct Htr as [Hlex Htr]. destruct HM as [Hl Hr].
    assert (Hpc : (pc < nc)%nat).
    { apply pivot_col_range in Ec. unfold ncols in Ec. rewrite Hr in Ec by lia. lia. }
    unfold nrows, ncols. rewrite Hl, (Hr 0%nat ltac:(lia)). unfold ncols2. rewrite (Hr 0%nat ltac:(lia)).
    unfold enc. replace (Z.of_nat nc - (Z.of_nat nr - 1) - 1)%Z with (Z.of_nat (nc - (nr - 1) - 1)) by lia.
    unfold droplast2. rewrite Hl.
    assert (HM1 : rect (nr - 1) nc (firstn (nr - 1) M)).
    { split; [apply firstn_length_le; lia|]. intros i Hi. rewrite nth_firstn_lt by exact Hi. apply Hr. lia. }
    assert (Hlex1 : forall i j, (i < nr - 1)%nat -> (j < nc)%nat -> nleb (get (firstn (nr - 1) M) i pc) tolp = false ->
               inf_like inf_ tolr (ndiv (get (firstn (nr - 1) M) i j) (get (firstn (nr - 1) M) i pc))).
    { intros i j Hi Hj. unfold get. rewrite nth_firstn_lt by exact Hi. apply Hlex; assumption. }
    pose proof (gen_lex_min_ratio_test_tie (firstn (nr - 1) M) (nr - 1) nc pc inf_ tolp tolr HM1 ltac:(lia) Hpc Hlex1
                  (nc - (nr - 1) - 1) argmins ltac:(lia) Ha) as Elex.
    cbv zeta in Elex. rewrite <- lex_min_ratio_test_n_firstn in Elex by lia.
    destruct (gen_lex_min_ratio_test inf_ (firstn (nr - 1) M) (Z.of_nat pc) (Z.of_nat (nc - (nr - 1) - 1)) argmins tolp tolr)
      as [[[gf gr] ga] gok]. cbn [fst snd] in Elex. destruct Elex as (E1 & -> & E3).
    cbn [tol_piv tol_ratio_diff o].
    destruct (lex_min_ratio_test_n (nr - 1) M pc (nc - (nr - 1) - 1) tolp tolr) as [rfound pr] eqn:Er.
    cbn [fst snd] in E1. injection E1 as -> ->. rewrite !andb_true_r.
    destruct rfound; cbn [negb]; [|exists ga; reflexivity].
    assert (Hpr : (pr < nr - 1)%nat) by (apply lex_min_ratio_test_n_range in Er; exact Er).
    rewrite (gen_pivoting_tie nr nc M pc pr (conj Hl Hr)) by lia. cbv beta iota zeta. rewrite andb_true_r.
    rewrite inb_nat by (rewrite zs_length; lia). rewrite andb_true_r, Nat2Z.id, upd_nth_zs, upd_nth_set_nth.
    replace (Z.of_nat (n + S f)) with (Z.of_nat (S n + f)) by lia.
    apply IH.
    + apply rect_pivoting; [split; assumption|lia].
    + rewrite <- upd_nth_set_nth, upd_nth_length. exact Hb.
    + exact E3.
    + exact Htr.
Qed.

Theorem gen_solve_tableau_tie (M : mat) (basis : list nat) (max_iter : nat) :
  rect nr nc M -> length basis = (nr - 1)%nat -> traj_ok max_iter M ->
  gen_solve_tableau inf_ M (zs basis) (Z.of_nat max_iter) skip fea tolp tolr =
    (let '(M', basis', success, status, ni) := solve_tableau M basis max_iter skip o in
     (((success, Z.of_nat status, Z.of_nat ni), M', zs basis'), true)).
Proof.
  intros HM Hb Htr. unfold gen_solve_tableau, solve_tableau. cbv zeta.
  destruct HM as [Hl Hr]. unfold nrows2. rewrite Hl, Nat2Z.id.
  destruct (solve_loop_tie max_iter M basis (repeat 0%Z (Z.to_nat (Z.of_nat nr - 1))) 0 true (conj Hl Hr) Hb) as (a' & E).
  - rewrite repeat_length. lia.
  - exact Htr.
  - change (Z.of_nat 0) with 0%Z in E. cbn [Nat.add] in E. rewrite E.
    destruct (solve_tableau_loop max_iter M basis skip o 0) as [[[[M' b'] s'] st'] ni']. reflexivity.
Qed.

(* the trajectory hypothesis is decidable (inf_like is two boolean equations): a checker and its soundness *)
Definition inf_likeb (x : T) : bool := negb (nltb (nadd inf_ tolr) x) && nltb x (nsub inf_ tolr).
Definition lex_hypb (M : mat) (pv : nat) : bool :=
  forallb (fun i => forallb (fun j => nleb (get M i pv) tolp || inf_likeb (ndiv (get M i j) (get M i pv)))
                            (seq 0 nc)) (seq 0 (nr - 1)).
Fixpoint traj_okb (fuel : nat) (M : mat) : bool :=
  match fuel with
  | O => true
  | S f =>
    let '(cfound, pivcol) := pivot_col M skip o in
    if negb cfound then true
    else lex_hypb M pivcol &&
         let '(rfound, pivrow) := lex_min_ratio_test_n (nr - 1) M pivcol (nc - (nr - 1) - 1) tolp tolr in
         if negb rfound then true else traj_okb f (pivoting M pivcol pivrow)
  end.
Lemma lex_hypb_sound M pv : lex_hypb M pv = true -> lex_hyp M pv.
Proof.
  intros Hb i j Hi Hj Hp. unfold lex_hypb in Hb. rewrite forallb_forall in Hb.
  specialize (Hb i ltac:(apply in_seq; lia)). rewrite forallb_forall in Hb.
  specialize (Hb j ltac:(apply in_seq; lia)). rewrite Hp in Hb. cbn [orb] in Hb.
  unfold inf_likeb in Hb. apply andb_prop in Hb. destruct Hb as [H1 H2]. apply negb_true_iff in H1. split; assumption.
Qed.
Lemma traj_okb_sound : forall f M, traj_okb f M = true -> traj_ok f M.
Proof.
  induction f as [|f IH]; intros M Hb; cbn [traj_ok traj_okb] in *; [exact I|].
  destruct (pivot_col M skip o) as [cfound pc]. destruct (negb cfound); [exact I|].
  apply andb_prop in Hb. destruct Hb as [H1 H2]. split; [apply lex_hypb_sound, H1|].
  destruct (lex_min_ratio_test_n (nr - 1) M pc (nc - (nr - 1) - 1) tolp tolr) as [rfound pr].
  destruct (negb rfound); [exact I|]. apply IH, H2.
Qed.
End Solve.

(* ------------------------------------------------------------------ _set_criterion_row *)
Lemma set2_m1row (M : mat) j v : (0 < length M)%nat ->
  set2 M (-1) (Z.of_nat j) v = upd_nth M (length M - 1) (upd_nth (nth (length M - 1) M []) j v).
Proof. intro Hl. unfold set2. rewrite row2_m1, widx_m1, widx_nat, !Nat2Z.id by exact Hl. reflexivity. Qed.

Lemma nth_row_loop (g : nat -> T -> T) : forall f j row k, (j + f <= length row)%nat ->
  nth k (row_loop g f j row) nzero =
    if Nat.leb j k && Nat.ltb k (j + f) then g k (nth k row nzero) else nth k row nzero.
Proof.
  induction f as [|f IH]; intros j row k Hj; cbn [row_loop].
  - replace (Nat.ltb k (j + 0)) with (Nat.ltb k j) by (f_equal; lia).
    destruct (Nat.leb j k) eqn:E1; cbn [andb]; [|reflexivity].
    apply Nat.leb_le in E1. replace (Nat.ltb k j) with false by (symmetry; apply Nat.ltb_ge; lia). reflexivity.
  - rewrite IH by (rewrite upd_nth_length; lia).
    destruct (Nat.eq_dec k j) as [->|Hne].
    + rewrite nth_upd_nth_eq by lia.
      replace (Nat.leb (S j) j) with false by (symmetry; apply Nat.leb_gt; lia). cbn [andb].
      rewrite Nat.leb_refl. replace (Nat.ltb j (j + S f)) with true by (symmetry; apply Nat.ltb_lt; lia). reflexivity.
    + rewrite nth_upd_nth_neq by exact Hne.
      assert (E : Nat.leb (S j) k && Nat.ltb k (S j + f) = Nat.leb j k && Nat.ltb k (j + S f)).
      { destruct (Nat.leb (S j) k) eqn:A, (Nat.ltb k (S j + f)) eqn:B, (Nat.leb j k) eqn:C, (Nat.ltb k (j + S f)) eqn:D;
          try reflexivity; exfalso;
          repeat match goal with
                 | H : Nat.leb _ _ = true |- _ => apply Nat.leb_le in H
                 | H : Nat.leb _ _ = false |- _ => apply Nat.leb_gt in H
                 | H : Nat.ltb _ _ = true |- _ => apply Nat.ltb_lt in H
                 | H : Nat.ltb _ _ = false |- _ => apply Nat.ltb_ge in H
                 end; lia. }
      rewrite E. reflexivity.
Qed.

Lemma upd_nth_last {A} : forall (l : list A) n v, length l = S n -> upd_nth l n v = firstn n l ++ [v].
Proof.
  induction l as [|x l IH]; intros n v Hl; [discriminate|]. destruct n as [|n]; cbn in *.
  - destruct l; [reflexivity|discriminate].
  - f_equal. apply IH. lia.
Qed.

Section Crit.
Variables (L nc : nat) (c : list T) (basis : list nat).
Hypothesis Hc : (length c <= nc)%nat.
Hypothesis Hbl : length basis = L.
Hypothesis Hbr : forall i, (i < L)%nat -> (nth i basis 0 < nc)%nat.

Lemma crit_loop0_tie : forall f j (Tb : mat) ok, rect (S L) nc Tb -> (j + f <= length c)%nat ->
  gen_set_criterion_row_loop0 f (Z.of_nat j) Tb ok c =
    (upd_nth Tb L (row_loop (fun j _ => vget c j) f j (nth L Tb [])), ok).
Proof.
  induction f as [|f IH]; intros j Tb ok HT Hj; cbn [gen_set_criterion_row_loop0 row_loop].
  - rewrite upd_nth_same. reflexivity.
  - destruct HT as [Hl Hr]. change (- (1))%Z with (-1)%Z.
    rewrite inb_nat, inb2_m1row by (rewrite ?Hl; cbn [Nat.sub]; rewrite ?Nat.sub_0_r, ?Hr; lia).
    rewrite !andb_true_r, set2_m1row, Nat2Z.id by lia. rewrite Hl. cbn [Nat.sub]. rewrite Nat.sub_0_r.
    replace (Z.of_nat j + 1)%Z with (Z.of_nat (S j)) by lia.
    rewrite IH; [|apply rect_upd_row; [split; assumption|rewrite upd_nth_length; apply Hr; lia]|lia].
    rewrite nth_upd_nth_eq by lia. rewrite upd_nth_twice. reflexivity.
Qed.

Lemma crit_loop2_tie i m : (i < L)%nat -> forall f j (Tb : mat) ok, rect (S L) nc Tb -> (j + f <= nc)%nat ->
  gen_set_criterion_row_loop2 f (Z.of_nat j) Tb ok (Z.of_nat i) m =
    (upd_nth Tb L (row_loop (fun j x => nsub x (nmul (nth j (nth i Tb []) nzero) m)) f j (nth L Tb [])), ok).
Proof.
  intros Hi. induction f as [|f IH]; intros j Tb ok HT Hj; cbn [gen_set_criterion_row_loop2 row_loop].
  - rewrite upd_nth_same. reflexivity.
  - destruct HT as [Hl Hr]. change (- (1))%Z with (-1)%Z.
    rewrite inb2_nat, inb2_m1row by (rewrite ?Hl; cbn [Nat.sub]; rewrite ?Nat.sub_0_r, ?Hr; lia).
    rewrite !andb_true_r, set2_m1row, get2_m1row, get2_nat by lia. rewrite Hl. cbn [Nat.sub]. rewrite Nat.sub_0_r.
    replace (Z.of_nat j + 1)%Z with (Z.of_nat (S j)) by lia.
    rewrite IH; [|apply rect_upd_row; [split; assumption|rewrite upd_nth_length; apply Hr; lia]|lia].
    rewrite nth_upd_nth_eq by lia. rewrite nth_upd_nth_neq by lia. rewrite upd_nth_twice. unfold get. reflexivity.
Qed.

Definition crit_step (Tb : mat) (crit : list T) (i : nat) : list T :=
  let mult := vget crit (nth i basis 0%nat) in map2 (fun x y => nsub x (nmul y mult)) crit (nth i Tb []).

Lemma crit_loop1_tie (Tb0 : mat) : rect (S L) nc Tb0 -> forall f i crit ok, length crit = nc -> (i + f <= L)%nat ->
  gen_set_criterion_row_loop1 f (Z.of_nat i) (upd_nth Tb0 L crit) ok (zs basis) =
    (upd_nth Tb0 L (fold_left (crit_step Tb0) (seq i f) crit), ok).
Proof.
  intros [Hl Hr]. induction f as [|f IH]; intros i crit ok Hcr Hi; cbn [gen_set_criterion_row_loop1 seq fold_left]; [reflexivity|].
  assert (HT : rect (S L) nc (upd_nth Tb0 L crit)) by (apply rect_upd_row; [split; assumption|exact Hcr]).
  change (- (1))%Z with (-1)%Z. rewrite Nat2Z.id, nth_zs.
  rewrite inb_nat by (rewrite zs_length; lia).
  rewrite inb2_m1row by (rewrite ?upd_nth_length, ?Hl; cbn [Nat.sub]; rewrite ?Nat.sub_0_r, ?nth_upd_nth_eq by lia; try rewrite Hcr; try apply Hbr; lia).
  rewrite get2_m1row by (rewrite upd_nth_length; lia). rewrite upd_nth_length, Hl. cbn [Nat.sub]. rewrite Nat.sub_0_r.
  unfold get at 1. rewrite nth_upd_nth_eq by lia. fold (vget crit (nth i basis 0%nat)).
  assert (Hnc : ncols2 (upd_nth Tb0 L crit) = Z.of_nat nc) by (unfold ncols2; destruct HT as [_ HTr]; rewrite HTr by lia; reflexivity).
  rewrite Hnc. replace (Z.to_nat (Z.of_nat nc - 0)) with nc by lia. rewrite !andb_true_r.
  pose proof (crit_loop2_tie i (vget crit (nth i basis 0%nat)) ltac:(lia) nc 0 (upd_nth Tb0 L crit) ok HT ltac:(lia)) as E2.
  change (Z.of_nat 0) with 0%Z in E2. rewrite E2. clear E2.
  rewrite nth_upd_nth_eq by lia. rewrite nth_upd_nth_neq by lia. rewrite upd_nth_twice.
  rewrite <- Hcr at 1. rewrite row_loop_full. unfold mapi.
  rewrite (mapi_from_map2 (fun a b => nsub a (nmul b (vget crit (nth i basis 0%nat)))) crit (nth i Tb0 []) 0 [] eq_refl)
    by (rewrite Hr by lia; lia).
  replace (Z.of_nat i + 1)%Z with (Z.of_nat (S i)) by lia.
  fold (crit_step Tb0 crit i). apply IH; [|lia].
  unfold crit_step. cbv zeta. rewrite length_map2, Hcr, Hr by lia. apply Nat.min_id.
Qed.

Lemma fill2_lastrow_from (Tb : mat) k v : rect (S L) nc Tb -> (k <= nc)%nat ->
  fill2 Tb (Ix (-1)) (Sl (Bnd (Z.of_nat k)) BndEnd) v =
    upd_nth Tb L (mapi (fun j x => if Nat.leb k j then v else x) (nth L Tb [])).
Proof.
  intros [Hl Hr] Hk. unfold fill2. cbn [sel_lo sel_hi]. rewrite widx_m1, Hl by lia. cbn [Nat.sub]. rewrite Nat.sub_0_r.
  apply (nth_ext _ _ [] []); [rewrite mapz_from_length, upd_nth_length; reflexivity|].
  intros i Hi. rewrite mapz_from_length in Hi. rewrite nth_mapz_from by exact Hi. rewrite Z.add_0_l.
  destruct (Nat.eq_dec i L) as [->|Hne].
  - replace (Z.of_nat L <=? Z.of_nat L)%Z with true by (symmetry; apply Z.leb_le; lia).
    replace (Z.of_nat L <? Z.of_nat L + 1)%Z with true by (symmetry; apply Z.ltb_lt; lia). cbn [andb].
    rewrite nth_upd_nth_eq by lia. unfold fill1, mapi. cbn [sel_lo sel_hi bnd_val]. rewrite widx_nat.
    apply (nth_ext _ _ nzero nzero); [rewrite mapz_from_length, mapi_from_length; reflexivity|].
    intros j Hj. rewrite mapz_from_length in Hj. rewrite nth_mapz_from by exact Hj. rewrite Z.add_0_l.
    rewrite (mapi_from_nth _ nzero nzero _ 0 j) by exact Hj. cbn [Nat.add].
    rewrite Hr in * by lia.
    replace (Z.of_nat j <? Z.of_nat nc)%Z with true by (symmetry; apply Z.ltb_lt; lia). rewrite andb_true_r.
    destruct (Nat.leb k j) eqn:E; [apply Nat.leb_le in E|apply Nat.leb_gt in E].
    + replace (Z.min (Z.of_nat nc) (Z.max 0 (Z.of_nat k)) <=? Z.of_nat j)%Z with true by (symmetry; apply Z.leb_le; lia). reflexivity.
    + replace (Z.min (Z.of_nat nc) (Z.max 0 (Z.of_nat k)) <=? Z.of_nat j)%Z with false by (symmetry; apply Z.leb_gt; lia). reflexivity.
  - rewrite nth_upd_nth_neq by exact Hne.
    destruct ((Z.of_nat L <=? Z.of_nat i)%Z && (Z.of_nat i <? Z.of_nat L + 1)%Z) eqn:E; [|reflexivity].
    apply andb_prop in E. destruct E as [E1 E2]. apply Z.leb_le in E1. apply Z.ltb_lt in E2. lia.
Qed.

Theorem gen_set_criterion_row_tie (Tb : mat) : rect (S L) nc Tb ->
  gen_set_criterion_row c (zs basis) Tb = (set_criterion_row c basis Tb, true).
Proof.
  intros HT. pose proof HT as [Hl Hr]. unfold gen_set_criterion_row, set_criterion_row. cbv zeta.
  replace (Z.to_nat (Z.of_nat (length c) - 0)) with (length c) by lia.
  pose proof (crit_loop0_tie (length c) 0 Tb true HT ltac:(lia)) as E0. change (Z.of_nat 0) with 0%Z in E0. rewrite E0. clear E0.
  set (r0 := row_loop (fun j _ => vget c j) (length c) 0 (nth L Tb [])).
  assert (Hr0 : length r0 = nc) by (unfold r0; rewrite row_loop_length; apply Hr; lia).
  assert (HT1 : rect (S L) nc (upd_nth Tb L r0)) by (apply rect_upd_row; assumption).
  change (- (1))%Z with (-1)%Z. rewrite widx_m1, upd_nth_length, Hl by (rewrite upd_nth_length; lia).
  cbn [Nat.sub]. rewrite Nat.sub_0_r, inb_nat by (rewrite upd_nth_length; lia). cbn [andb].
  rewrite (fill2_lastrow_from _ (length c) nzero HT1 Hc). rewrite nth_upd_nth_eq by lia. rewrite upd_nth_twice.
  rewrite zs_length, Hbl. replace (Z.to_nat (Z.of_nat L - 0)) with L by lia.
  set (crit0 := mapi (fun j x => if Nat.leb (length c) j then nzero else x) r0).
  assert (Hcrit0 : crit0 = tabv nc (fun j => if Nat.ltb j (length c) then vget c j else nzero)).
  { apply (nth_ext _ _ nzero nzero).
    - unfold crit0, mapi. rewrite mapi_from_length, tabv_length. exact Hr0.
    - intros j Hj. unfold crit0, mapi in *. rewrite mapi_from_length, Hr0 in Hj.
      rewrite (mapi_from_nth _ nzero nzero _ 0 j) by lia. cbn [Nat.add].
      rewrite nth_tabv_lt by exact Hj.
      unfold r0. rewrite nth_row_loop by (rewrite Hr; lia). cbn [Nat.leb andb Nat.add].
      destruct (Nat.ltb j (length c)) eqn:E.
      + apply Nat.ltb_lt in E. replace (Nat.leb (length c) j) with false by (symmetry; apply Nat.leb_gt; lia). reflexivity.
      + apply Nat.ltb_ge in E. replace (Nat.leb (length c) j) with true by (symmetry; apply Nat.leb_le; lia). reflexivity. }
  assert (Hlc : length crit0 = nc) by (unfold crit0, mapi; rewrite mapi_from_length; exact Hr0).
  pose proof (crit_loop1_tie Tb HT L 0 crit0 true Hlc ltac:(lia)) as E1. change (Z.of_nat 0) with 0%Z in E1. rewrite E1. clear E1.
  f_equal. unfold ncols. rewrite (Hr 0%nat ltac:(lia)). rewrite <- Hcrit0.
  change (fold_left _ (seq 0 L) crit0) with (fold_left (crit_step Tb) (seq 0 L) crit0).
  generalize (fold_left (crit_step Tb) (seq 0 L) crit0). intro cr.
  apply upd_nth_last, Hl.
Qed.
End Crit.

(* ------------------------------------------------------------------ get_solution *)
Lemma Zltb_nat a b : (Z.of_nat a <? Z.of_nat b)%Z = Nat.ltb a b.
Proof. destruct (Nat.ltb a b) eqn:E; [apply Nat.ltb_lt in E; apply Z.ltb_lt; lia|apply Nat.ltb_ge in E; apply Z.ltb_ge; lia]. Qed.

Section GetSol.
Variables (L nc n : nat) (Tb : mat) (basis : list nat) (bsigns : list bool).
Hypothesis HT : rect (S L) nc Tb.
Hypothesis Hnc : (S L <= nc)%nat.
Hypothesis Hbl : length basis = L.
Hypothesis Hsl : length bsigns = L.

Definition gsx_step (x : list T) (i : nat) : list T :=
  let b := nth i basis 0%nat in if Nat.ltb b n then set_nth x b (get Tb i (nc - 1)) else x.
Lemma gs_loop0_tie : forall f i x ok, length x = n -> (i + f <= L)%nat ->
  gen_get_solution_loop0 f (Z.of_nat i) x ok Tb (zs basis) (Z.of_nat n) = (fold_left gsx_step (seq i f) x, ok).
Proof.
  induction f as [|f IH]; intros i x ok Hx Hi; cbn [gen_get_solution_loop0 seq fold_left]; [reflexivity|].
  destruct HT as [Hl Hr]. rewrite inb_nat by (rewrite zs_length; lia). rewrite Nat2Z.id, nth_zs, Zltb_nat, andb_true_r.
  replace (Z.of_nat i + 1)%Z with (Z.of_nat (S i)) by lia. unfold gsx_step at 2. cbv zeta.
  destruct (Nat.ltb (nth i basis 0%nat) n) eqn:E.
  - apply Nat.ltb_lt in E. change (- (1))%Z with (-1)%Z. rewrite inb2_m1 by (rewrite ?Hr; lia).
    rewrite inb_nat by lia. rewrite !andb_true_r, Nat2Z.id, get2_m1 by (rewrite ?Hr; lia). rewrite Hr by lia.
    rewrite upd_nth_set_nth. apply IH; [rewrite <- upd_nth_set_nth, upd_nth_length; exact Hx|lia].
  - rewrite ?andb_true_r. apply IH; [exact Hx|lia].
Qed.

Definition lam_entry (j : nat) : T :=
  let v := get Tb L (nc - L - 1 + j) in
  if negb (neqb v nzero) && nth j bsigns false then nmul v (nsub nzero none_) else v.
Lemma gs_loop1_tie : forall f j rest ok, (f <= length rest)%nat -> (j + f <= L)%nat ->
  gen_get_solution_loop1 f (Z.of_nat j) (map lam_entry (seq 0 j) ++ rest) ok Tb bsigns (Z.of_nat (nc - L - 1)) =
    (map lam_entry (seq 0 (j + f)) ++ skipn f rest, ok).
Proof.
  induction f as [|f IH]; intros j rest ok Hf Hj; cbn [gen_get_solution_loop1 skipn].
  - rewrite Nat.add_0_r. reflexivity.
  - destruct rest as [|x rest]; [cbn in Hf; lia|]. cbn [length] in Hf. destruct HT as [Hl Hr].
    assert (Hlen : length (map lam_entry (seq 0 j)) = j) by (rewrite map_length, seq_length; reflexivity).
    change (- (1))%Z with (-1)%Z. rewrite <- Nat2Z.inj_add.
    rewrite inb2_m1row by (rewrite ?Hl; cbn [Nat.sub]; rewrite ?Nat.sub_0_r, ?Hr; lia).
    rewrite inb_nat by (rewrite app_length, Hlen; cbn; lia). rewrite !andb_true_r, Nat2Z.id.
    rewrite get2_m1row by lia. rewrite Hl. cbn [Nat.sub]. rewrite Nat.sub_0_r.
    set (v := get Tb L (nc - L - 1 + j)).
    assert (Hupd : forall y w, upd_nth (map lam_entry (seq 0 j) ++ y :: rest) j w = map lam_entry (seq 0 j) ++ w :: rest)
      by (intros y w; pose proof (upd_nth_mid (map lam_entry (seq 0 j)) y w rest) as Hu; rewrite Hlen in Hu; exact Hu).
    rewrite Hupd.
    assert (Hnth : forall y, nth j (map lam_entry (seq 0 j) ++ y :: rest) nzero = y)
      by (intro y; rewrite app_nth2, Hlen, Nat.sub_diag by lia; reflexivity).
    rewrite inb_nat by (rewrite app_length, Hlen; cbn; lia). rewrite Hnth.
    assert (Hib : inb (Z.of_nat j) bsigns = true) by (apply inb_nat; lia). rewrite Hib.
    replace (true && (if negb (neqb v nzero) then true else true)) with true by (destruct (negb (neqb v nzero)); reflexivity).
    rewrite andb_true_r.
    assert (Hfin : forall y ok', y = lam_entry j ->
      gen_get_solution_loop1 f (Z.of_nat j + 1) (map lam_entry (seq 0 j) ++ y :: rest) ok' Tb bsigns (Z.of_nat (nc - L - 1)) =
      (map lam_entry (seq 0 (j + S f)) ++ skipn f rest, ok')).
    { intros y ok' ->. replace (Z.of_nat j + 1)%Z with (Z.of_nat (S j)) by lia.
      replace (map lam_entry (seq 0 j) ++ lam_entry j :: rest) with (map lam_entry (seq 0 (S j)) ++ rest)
        by (rewrite seq_S, map_app, <- app_assoc; reflexivity).
      rewrite IH by lia. rewrite Nat.add_succ_r. reflexivity. }
    destruct (negb (neqb v nzero) && nth j bsigns false) eqn:E.
    + rewrite ?andb_true_r, ?Hnth, Hupd. apply Hfin. unfold lam_entry. cbv zeta. fold v. rewrite E. reflexivity.
    + rewrite ?andb_true_r. apply Hfin. unfold lam_entry. cbv zeta. fold v. rewrite E. reflexivity.
Qed.

Theorem gen_get_solution_tie (x lambd : list T) : length x = n -> length lambd = L ->
  gen_get_solution Tb (zs basis) x lambd bsigns =
    (let '(xm, lm, fn) := C04.Model.get_solution Tb basis n L bsigns in ((fn, xm, lm), true)).
Proof.
  intros Hx Hlam. pose proof HT as [Hl Hr]. unfold gen_get_solution, get_solution. cbv zeta.
  rewrite Hx, Hlam, fill1_all, Hx. unfold ncols2, ncols. rewrite (Hr 0%nat ltac:(lia)).
  replace (Z.to_nat (Z.of_nat L - 0)) with L by lia.
  pose proof (gs_loop0_tie L 0 (repeat nzero n) true (repeat_length _ _) ltac:(lia)) as E0.
  change (Z.of_nat 0) with 0%Z in E0. rewrite E0. clear E0.
  replace (Z.of_nat nc - Z.of_nat L - 1)%Z with (Z.of_nat (nc - L - 1)) by lia.
  pose proof (gs_loop1_tie L 0 lambd true ltac:(lia) ltac:(lia)) as E1. cbn [seq map app Nat.add] in E1.
  change (Z.of_nat 0) with 0%Z in E1. rewrite E1. clear E1. rewrite skipn_all2, app_nil_r by lia.
  change (- (1))%Z with (-1)%Z.
  assert (Hlast : inb2 (-1) (-1) Tb = true).
  { unfold inb2. rewrite row2_m1, !widx_m1 by (rewrite ?Hl, ?Hr; try lia; cbn [Nat.sub]; rewrite ?Nat.sub_0_r, ?Hr; lia).
    rewrite !inb_nat; [reflexivity| |lia]. rewrite Hl. cbn [Nat.sub]. rewrite Nat.sub_0_r, Hr by lia. lia. }
  rewrite Hlast. cbn [andb].
  assert (Hget : get2 Tb (-1) (-1) = get Tb L (nc - 1)).
  { unfold get2, get. rewrite row2_m1, Hl by lia. cbn [Nat.sub]. rewrite Nat.sub_0_r, Hr, widx_m1, Nat2Z.id by lia. reflexivity. }
  rewrite Hget. unfold tabv, mone. reflexivity.
Qed.
End GetSol.
End Tie.

(* C04 proofs, minmax part 3 (tolerance 0): the inner solve_tableau of minmax never ends with status 3
   (the lexicographic test always finds a row: rows tying on the slack block AND the right-hand side would
   be equal up to a factor; and the value v is bounded below on the feasible set), so it ends with status 0
   unless the iteration cap is exhausted; min_j (x'A)_j = v = max_i (A y)_i with equality. *)
From Coq Require Import ZArith QArith List Bool Arith Lia Lqa Setoid Morphisms.
From QE Require Import Base.Num Base.Pivot Base.PivotProofs C04.Model C04.Proofs C04.Proofs2 C04.Proofs5 C04.Proofs7
     C04.ProofsMM1 C04.ProofsMM2.
Import ListNotations.
Open Scope Q_scope.

Lemma tab_invG_nonsing L nc ac T0 obj T basis c r r' :
  tab_invG L nc ac T0 obj T basis -> (r < L)%nat -> (r' < L)%nat -> r <> r' ->
  0 < get T r c -> 0 < get T r' c ->
  ~ (forall k, (k < L)%nat -> ac k <> c -> ratio T c (ac k) r == ratio T c (ac k) r').
Proof.
  intros Hinv Hr Hr' Hne Hp Hp' Heq.
  set (rho := get T r c / get T r' c).
  assert (Hblk : forall k, (k < L)%nat -> get T r (ac k) == rho * get T r' (ac k)).
  { intros k Hk. unfold rho. destruct (Nat.eq_dec (ac k) c) as [E|E].
    - rewrite E. field. lra.
    - pose proof (Heq k Hk E) as H. unfold ratio in H.
      setoid_replace (get T r (ac k)) with (get T r (ac k) / get T r c * get T r c) by (field; lra).
      rewrite H. field. lra. }
  pose proof (tg_rows _ _ _ _ _ _ _ Hinv r Hr) as Rr. pose proof (tg_rows _ _ _ _ _ _ _ Hinv r' Hr') as Rr'.
  pose proof (tg_bas _ _ _ _ _ _ _ Hinv r Hr) as Hb.
  assert (Hj : (nth r basis 0 < nc)%nat) by lia.
  pose proof (Rr _ Hj) as E1. pose proof (Rr' _ Hj) as E2. unfold rowf in E1, E2.
  rewrite (tg_unit _ _ _ _ _ _ _ Hinv r r Hr ltac:(lia)) in E1. rewrite Nat.eqb_refl in E1.
  rewrite (tg_unit _ _ _ _ _ _ _ Hinv r r' Hr ltac:(lia)) in E2. destruct (Nat.eqb_spec r' r); [congruence|].
  rewrite (sumQ_ext L _ (fun k => rho * ((get T r' (ac k) - 0) * get T0 k (nth r basis 0%nat)))) in E1.
  2:{ intros k Hk. rewrite (Hblk k Hk). ring. }
  rewrite sumQ_scale in E1.
  set (S := sumQ L (fun k => (get T r' (ac k) - 0) * get T0 k (nth r basis 0%nat))) in *.
  assert (ES : S == 0) by lra. rewrite ES in E1. lra.
Qed.

(* induction principle with the information available at status 3; the certifying columns must lie in the
   tie-breaking block or be the right-hand-side column *)
Theorem solve_tableau_indG3 L nc ac T0 obj (P : matQ -> list nat -> Prop) :
  (forall k, (k < L)%nat -> (nc - L - 1 <= ac k < nc - L - 1 + L)%nat \/ ac k = (nc - 1)%nat) ->
  (forall T basis c r,
      tab_invG L nc ac T0 obj T basis -> P T basis ->
      (r < L)%nat -> (c < nc - 1)%nat -> 0 < get T r c -> 0 < get T L c ->
      (forall k, (k < L)%nat -> 0 < get T k c -> ratio T c (nc - 1) r <= ratio T c (nc - 1) k) ->
      P (pivoting T c r) (set_nth basis r c)) ->
  forall fuel T basis ni,
    tab_invG L nc ac T0 obj T basis -> P T basis ->
    let '(T', basis', success, status, _) := solve_tableau_loop fuel T basis false opts0 ni in
    tab_invG L nc ac T0 obj T' basis' /\ P T' basis' /\
    (status = 3%nat -> exists c, (c < nc - 1)%nat /\ 0 < get T' L c /\ forall k, (k < L)%nat -> get T' k c <= 0).
Proof.
  intros Hac Hstep. induction fuel as [|f IH]; intros T basis ni Hinv HP; cbn [solve_tableau_loop].
  { split; [auto|split; [auto|discriminate]]. }
  destruct (pivot_col T false opts0) as [cf pc] eqn:Epc.
  pose proof (pivot_col_spec L nc T false opts0 _ _ (tg_wf _ _ _ _ _ _ _ Hinv) Epc) as [Hc Hnc]. cbv zeta in Hc, Hnc.
  destruct cf; cbn [negb].
  2:{ split; [auto|split; [auto|discriminate]]. }
  assert (E1 : (nrows T - 1 = L)%nat) by (unfold nrows; destruct (tg_wf _ _ _ _ _ _ _ Hinv) as [-> _]; lia).
  assert (E2 : ncols T = nc) by (apply (wf_ncols (S L)); [apply (tg_wf _ _ _ _ _ _ _ Hinv)|lia]).
  rewrite E1, E2.
  destruct (Hc eq_refl) as [Hc1 Hc2]. cbn in Hc2. cbv iota in Hc1.
  destruct (lex_min_ratio_test_n L T pc (nc - L - 1) (tol_piv opts0) (tol_ratio_diff opts0)) as [rf pr] eqn:Er.
  destruct rf; cbn [negb].
  2:{ split; [auto|split; [auto|]]. intros _. exists pc. split; [lia|split; [auto|]].
      apply (lex_min_ratio_test_n_complete_rhs L T pc (nc - L - 1)).
      - intros r r' Hr Hr' Hne Hp Hp' Heq.
        apply (tab_invG_nonsing L nc ac T0 obj T basis pc r r' Hinv Hr Hr' Hne Hp Hp').
        intros k Hk Hne'. apply Heq; auto. rewrite E2. destruct (Hac k Hk) as [H|H]; [left; lia|right; auto].
      - change (tol_piv opts0) with 0 in Er. change (tol_ratio_diff opts0) with 0 in Er. rewrite Er. reflexivity. }
  pose proof (lex_min_ratio_test_n_spec _ _ _ _ _ _ _ Er) as [Hr Hp].
  pose proof (lex_min_ratio_test_n_min _ _ _ _ _ Er) as Hmin. rewrite E2 in Hmin. cbn in Hp.
  apply IH.
  - apply tab_invG_pivot; auto; [lia|lra].
  - eapply Hstep; eauto. lia.
Qed.

(* feasible half-line from a column with positive criterion coefficient and no positive entry *)
Lemma ray_props_G L nc ac T0 obj T basis c t :
  tab_invG L nc ac T0 obj T basis -> rhs_nonneg L nc T ->
  (c < nc - 1)%nat -> (forall k, (k < L)%nat -> get T k c <= 0) -> 0 <= t ->
  let ut := fun j => bsol L nc T basis j + t * ((if Nat.eqb j c then 1 else 0) - bsolc L T basis c j) in
  solves L nc T0 ut /\ (forall j, 0 <= ut j) /\
  sumQ (nc - 1) (fun j => obj j * ut j) == obj (nc - 1)%nat - get T L (nc - 1)%nat + t * get T L c.
Proof.
  intros Hinv Hrhs Hc Hnp Ht. cbv zeta.
  set (ut := fun j => bsol L nc T basis j + t * ((if Nat.eqb j c then 1 else 0) - bsolc L T basis c j)).
  pose proof (tg_bas _ _ _ _ _ _ _ Hinv) as Hbas. pose proof (tg_unit _ _ _ _ _ _ _ Hinv) as Hunit.
  assert (Hdot : forall k, (k < S L)%nat ->
            sumQ (nc - 1) (fun j => get T k j * ut j) == (if Nat.ltb k L then get T k (nc - 1)%nat else t * get T k c)).
  { intros k Hk. unfold ut.
    rewrite (sumQ_ext _ _ (fun j => 1 * (get T k j * bsol L nc T basis j)
               + t * ((if Nat.eqb j c then get T k j else 0) + (-1) * (get T k j * bsolc L T basis c j)))).
    2:{ intros j Hj. destruct (Nat.eqb j c); ring. }
    rewrite sumQ_lin. rewrite sumQ_plus, sumQ_scale, sumQ_delta.
    destruct (Nat.ltb_spec c (nc - 1)); [|lia].
    rewrite (bsolc_row (S L) (nc - 1) L T basis c k) by (auto; lia).
    destruct (Nat.ltb_spec k L).
    - rewrite (bsol_solves (S L) nc L T basis ltac:(lia) Hbas Hunit k) by auto. ring.
    - rewrite (bsol_dot_crit (S L)) by (auto; lia). ring. }
  assert (Hsol : solves L nc T0 ut).
  { apply (tg_sol _ _ _ _ _ _ _ Hinv). intros k Hk. rewrite Hdot by lia. destruct (Nat.ltb_spec k L); [reflexivity|lia]. }
  split; [auto|split].
  - intros j. unfold ut. pose proof (bsol_nonneg L nc T basis j Hrhs). pose proof (bsolc_nonpos L T basis c j Hnp).
    assert (0 <= (if Nat.eqb j c then 1 else 0) - bsolc L T basis c j) by (destruct (Nat.eqb j c); lra). nra.
  - pose proof (crit_dotG _ _ _ _ _ _ _ _ Hinv Hsol) as E. rewrite Hdot in E by lia.
    destruct (Nat.ltb_spec L L); [lia|]. lra.
Qed.

(* the solve_tableau call inside minmax ends with status 0 or with the iteration cap *)
Theorem minmax_status_0_or_1 m n A max_iter :
  (0 < m)%nat -> (0 < n)%nat -> wf m n A ->
  minmax_inner_status m n A max_iter = 0%nat \/ minmax_inner_status m n A max_iter = 1%nat.
Proof.
  intros Hm Hn HA. unfold minmax_inner_status, solve_tableau.
  pose proof (solve_tableau_status (max_iter - 2) (tb2 m n A) (basis2 m n A) false opts0 0%nat) as Hst.
  pose proof (solve_tableau_indG3 (S m) (n + 1 + m + 1) (ac m n) (tb0 m n A) (objm n)
                (fun T _ => rhs_nonneg (S m) (n + 1 + m + 1) T)) as H.
  assert (Hac : forall k, (k < S m)%nat ->
     (n + 1 + m + 1 - S m - 1 <= ac m n k < n + 1 + m + 1 - S m - 1 + S m)%nat \/ ac m n k = (n + 1 + m + 1 - 1)%nat).
  { intros k Hk. unfold ac. destruct (Nat.ltb_spec k m); [left; lia|right; reflexivity]. }
  assert (Hstep : forall (T : matQ) (basis : list nat) (c r : nat),
     tab_invG (S m) (n + 1 + m + 1) (ac m n) (tb0 m n A) (objm n) T basis -> rhs_nonneg (S m) (n + 1 + m + 1) T -> (r < S m)%nat ->
     (c < n + 1 + m + 1 - 1)%nat -> 0 < get T r c -> 0 < get T (S m) c ->
     (forall k : nat, (k < S m)%nat -> 0 < get T k c -> ratio T c (n + 1 + m + 1 - 1) r <= ratio T c (n + 1 + m + 1 - 1) k) ->
     rhs_nonneg (S m) (n + 1 + m + 1) (pivoting T c r)).
  { intros T1 b1 c r Hi1 HP1 Hr Hc Hp _ Hmin i Hi.
    apply (pivoting_rhs_nonneg (S (S m)) (n + 1 + m + 1) (S m)); auto.
    - apply (tg_wf _ _ _ _ _ _ _ Hi1).
    - lia. }
  specialize (H Hac Hstep (max_iter - 2)%nat (tb2 m n A) (basis2 m n A) 0%nat ltac:(apply inv_tb2; auto) ltac:(apply rhs_tb2; auto)).
  destruct (solve_tableau_loop (max_iter - 2) (tb2 m n A) (basis2 m n A) false opts0 0) as [[[[T bs] su] st] ni].
  destruct H as (Hinv & Hrhs & H3).
  destruct Hst as [E|[E|E]]; [left; auto|right; auto|exfalso].
  destruct (H3 E) as (c & Hc & Hpos & Hnp).
  (* along the half-line the column-player's value v = u_n would become negative *)
  set (t := get T (S m) (n + 1 + m + 1 - 1)%nat / get T (S m) c + 1).
  destruct (ray_props_G _ _ _ _ _ T bs c 0 Hinv Hrhs Hc Hnp ltac:(lra)) as (_ & Hn0 & Ev0). cbv zeta in Hn0, Ev0.
  assert (Hobj : forall u, sumQ (n + 1 + m + 1 - 1) (fun j => objm n j * u j) == - u n).
  { intros u. rewrite (sumQ_ext _ _ (fun j => if Nat.eqb j n then (-1) * u j else 0)).
    - rewrite sumQ_delta. destruct (Nat.ltb_spec n (n + 1 + m + 1 - 1)); [ring|lia].
    - intros j Hj. unfold objm. destruct (Nat.eqb j n); ring. }
  assert (Eo : objm n (n + 1 + m + 1 - 1)%nat == 0).
  { unfold objm. destruct (Nat.eqb_spec (n + 1 + m + 1 - 1) n); [lia|reflexivity]. }
  rewrite Hobj, Eo in Ev0. pose proof (Hn0 n) as Hv0.
  assert (HV : 0 <= get T (S m) (n + 1 + m + 1 - 1)%nat) by lra.
  assert (Ht : 0 <= t).
  { unfold t. assert (0 <= get T (S m) (n + 1 + m + 1 - 1)%nat / get T (S m) c) by (apply Qle_shift_div_l; lra). lra. }
  destruct (ray_props_G _ _ _ _ _ T bs c t Hinv Hrhs Hc Hnp Ht) as (_ & Hn1 & Ev1). cbv zeta in Hn1, Ev1.
  rewrite Hobj, Eo in Ev1. pose proof (Hn1 n) as Hv1.
  assert (t * get T (S m) c == get T (S m) (n + 1 + m + 1 - 1)%nat + get T (S m) c) by (unfold t; field; lra).
  lra.
Qed.

(* ------------------------------------------------------------------ min_j (x'A)_j = v = max_i (A y)_i *)
Lemma exists_pos n (y : nat -> Q) : sumQ n y == 1 -> (forall j, (j < n)%nat -> 0 <= y j) -> exists j, (j < n)%nat /\ 0 < y j.
Proof.
  induction n; cbn [sumQ]; intros Hs Hy; [lra|].
  destruct (Qlt_le_dec 0 (y n)) as [H|H]; [exists n; split; [lia|auto]|].
  assert (y n == 0) by (specialize (Hy n ltac:(lia)); lra).
  destruct IHn as (j & Hj & Hp); [lra|intros; apply Hy; lia|]. exists j. split; [lia|auto].
Qed.

Lemma saddle_attained m n (A : matQ) v (x y : list Q) :
  (forall i, (i < m)%nat -> 0 <= vget x i) -> sumQ m (vget x) == 1 ->
  (forall j, (j < n)%nat -> 0 <= vget y j) -> sumQ n (vget y) == 1 ->
  (forall j, (j < n)%nat -> v <= sumQ m (fun i => vget x i * get A i j)) ->
  (forall i, (i < m)%nat -> sumQ n (fun j => get A i j * vget y j) <= v) ->
  (exists j, (j < n)%nat /\ sumQ m (fun i => vget x i * get A i j) == v) /\
  (exists i, (i < m)%nat /\ sumQ n (fun j => get A i j * vget y j) == v).
Proof.
  intros Hx Sx Hy Sy Hc Hr.
  set (xA := fun j => sumQ m (fun i => vget x i * get A i j)). set (Ay := fun i => sumQ n (fun j => get A i j * vget y j)).
  assert (Esw : sumQ n (fun j => vget y j * xA j) == sumQ m (fun i => vget x i * Ay i)).
  { unfold xA, Ay.
    rewrite (sumQ_ext n _ (fun j => sumQ m (fun i => vget x i * get A i j * vget y j))).
    2:{ intros j Hj. rewrite <- sumQ_scale. apply sumQ_ext. intros; ring. }
    rewrite sumQ_swap. apply sumQ_ext. intros i Hi. rewrite <- sumQ_scale. apply sumQ_ext. intros; ring. }
  assert (L1 : v <= sumQ n (fun j => vget y j * xA j)).
  { apply Qle_trans with (sumQ n (fun j => v * vget y j)); [rewrite sumQ_scale, Sy; lra|]. apply sumQ_le. intros j Hj.
    specialize (Hy j Hj). specialize (Hc j Hj). fold (xA j) in Hc. nra. }
  assert (L2 : sumQ m (fun i => vget x i * Ay i) <= v).
  { apply Qle_trans with (sumQ m (fun i => v * vget x i)); [|rewrite sumQ_scale, Sx; lra]. apply sumQ_le. intros i Hi.
    specialize (Hx i Hi). specialize (Hr i Hi). fold (Ay i) in Hr. nra. }
  split.
  - destruct (exists_pos n (vget y) Sy Hy) as (j & Hj & Hp). exists j. split; [auto|]. fold (xA j).
    assert (Hz : forall j, (j < n)%nat -> vget y j * (xA j - v) == 0).
    { apply sumQ_nonneg_zero.
      - intros j0 Hj0. specialize (Hy j0 Hj0). specialize (Hc j0 Hj0). fold (xA j0) in Hc. nra.
      - rewrite (sumQ_ext n _ (fun j0 => 1 * (vget y j0 * xA j0) + (- v) * vget y j0)) by (intros; ring).
        rewrite sumQ_lin, Sy. lra. }
    specialize (Hz j Hj). nra.
  - destruct (exists_pos m (vget x) Sx Hx) as (i & Hi & Hp). exists i. split; [auto|]. fold (Ay i).
    assert (Hz : forall i, (i < m)%nat -> vget x i * (v - Ay i) == 0).
    { apply sumQ_nonneg_zero.
      - intros i0 Hi0. specialize (Hx i0 Hi0). specialize (Hr i0 Hi0). fold (Ay i0) in Hr. nra.
      - rewrite (sumQ_ext m _ (fun i0 => v * vget x i0 + (-1) * (vget x i0 * Ay i0))) by (intros; ring).
        rewrite sumQ_lin, Sx. lra. }
    specialize (Hz i Hi). nra.
Qed.

(* unless the iteration cap is exhausted, minmax returns a saddle point and the value of the game *)
Theorem minmax_certificate_unless_cap m n A max_iter v x y :
  (0 < m)%nat -> (0 < n)%nat -> wf m n A ->
  minmax_inner_status m n A max_iter <> 1%nat ->
  minmax m n A max_iter opts0 = (v, x, y) ->
  ((forall i, (i < m)%nat -> 0 <= vget x i) /\ sumQ m (vget x) == 1 /\
   (forall j, (j < n)%nat -> 0 <= vget y j) /\ sumQ n (vget y) == 1 /\
   (forall j, (j < n)%nat -> v <= sumQ m (fun i => vget x i * get A i j)) /\
   (forall i, (i < m)%nat -> sumQ n (fun j => get A i j * vget y j) <= v)) /\
  (exists j, (j < n)%nat /\ sumQ m (fun i => vget x i * get A i j) == v) /\
  (exists i, (i < m)%nat /\ sumQ n (fun j => get A i j * vget y j) == v).
Proof.
  intros Hm Hn HA Hne H.
  destruct (minmax_status_0_or_1 m n A max_iter Hm Hn HA) as [E|E]; [|contradiction].
  pose proof (minmax_certificate m n A max_iter v x y Hm Hn HA E H) as C. split; [exact C|].
  destruct C as (C1 & C2 & C3 & C4 & C5 & C6). apply saddle_attained; auto.
Qed.

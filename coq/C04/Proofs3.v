(* C04 proofs, part 3 (tolerance 0): end of Phase 1 (artificial variables vanish), clean-up pivots,
   _set_criterion_row, Phase 2. *)
From Coq Require Import ZArith QArith List Bool Arith Lia Lqa Setoid Morphisms.
From QE Require Import Base.Num Base.Pivot Base.PivotProofs C04.Model C04.Proofs C04.Proofs2.
Import ListNotations.
Open Scope Q_scope.

(* rows whose basic variable is artificial (column >= a): right-hand side 0 / zero on the columns < a *)
Definition art_zero (L nc a : nat) (T : matQ) (basis : list nat) : Prop :=
  forall i, (i < L)%nat -> (a <= nth i basis 0)%nat -> get T i (nc - 1)%nat == 0.
Definition art_rows_zero (t a : nat) (T : matQ) (basis : list nat) : Prop :=
  forall i, (i < t)%nat -> (a <= nth i basis 0)%nat -> forall j, (j < a)%nat -> get T i j == 0.

Definition obj1f (a L : nat) : nat -> Q := fun j => if Nat.leb a j && Nat.ltb j (a + L) then -1 else 0.

(* Phase 1 ended with criterion value <= 0: every artificial variable of the basic solution is 0 *)
Lemma phase1_art_zero L nc a T0 T basis :
  (a + L = nc - 1)%nat ->
  tab_inv L nc a T0 (obj1f a L) T basis -> rhs_nonneg L nc T -> get T L (nc - 1)%nat <= 0 ->
  art_zero L nc a T basis.
Proof.
  intros Hnc Hinv Hrhs Hle.
  pose proof (obj_value _ _ _ _ _ _ _ Hinv) as Hv.
  set (u := bsol L nc T basis) in *.
  assert (Hu0 : forall j, 0 <= u j) by (intros; apply bsol_nonneg; auto).
  rewrite <- Hnc in Hv at 1. rewrite sumQ_split in Hv.
  rewrite (sumQ_zero a) in Hv.
  2:{ intros j Hj. unfold obj1f. destruct (Nat.leb_spec a j); [lia|]. cbn [andb]. ring. }
  rewrite (sumQ_ext L _ (fun k => (-1) * u (a + k)%nat)) in Hv.
  2:{ intros k Hk. unfold obj1f. destruct (Nat.leb_spec a (a + k)); [|lia]. destruct (Nat.ltb_spec (a + k) (a + L)); [|lia]. reflexivity. }
  rewrite sumQ_scale in Hv.
  assert (E : obj1f a L (nc - 1)%nat == 0).
  { unfold obj1f. destruct (Nat.ltb_spec (nc - 1) (a + L)); [lia|]. now rewrite andb_false_r. }
  rewrite E in Hv.
  assert (Hz : forall k, (k < L)%nat -> u (a + k)%nat == 0).
  { apply sumQ_nonneg_zero; [intros; apply Hu0|]. lra. }
  intros i Hi Hb.
  pose proof (ti_bas _ _ _ _ _ _ _ Hinv i Hi) as Hlt.
  rewrite <- (bsol_basic (S L) nc L T basis i) by (auto; apply (ti_unit _ _ _ _ _ _ _ Hinv)).
  fold u. replace (nth i basis 0%nat) with (a + (nth i basis 0%nat - a))%nat by lia. apply Hz. lia.
Qed.

Definition phase2_P (L nc a : nat) (T : matQ) (basis : list nat) : Prop :=
  rhs_nonneg L nc T /\ art_zero L nc a T basis /\ art_rows_zero L a T basis.

Lemma phase2_step L nc a T0 obj T basis c r :
  tab_inv L nc a T0 obj T basis -> phase2_P L nc a T basis ->
  (r < L)%nat -> (c < a)%nat -> 0 < get T r c ->
  (forall k, (k < L)%nat -> 0 < get T k c -> ratio T c (nc - 1) r <= ratio T c (nc - 1) k) ->
  phase2_P L nc a (pivoting T c r) (set_nth basis r c).
Proof.
  intros Hinv (Hrhs & Haz & Har) Hr Hc Hp Hmin.
  pose proof (ti_wf _ _ _ _ _ _ _ Hinv) as Hwf. pose proof (ti_nc _ _ _ _ _ _ _ Hinv) as Hnc.
  pose proof (ti_len _ _ _ _ _ _ _ Hinv) as Hlen. pose proof (ti_a _ _ _ _ _ _ _ Hinv) as Ha.
  assert (Hsame : forall i, (i < L)%nat -> (a <= nth i (set_nth basis r c) 0)%nat ->
                  i <> r /\ (a <= nth i basis 0)%nat /\ forall j, (j < nc)%nat -> get (pivoting T c r) i j == get T i j).
  { intros i Hi Hb. destruct (Nat.eq_dec i r) as [->|Hne].
    - rewrite nth_set_nth_eq in Hb by lia. lia.
    - rewrite nth_set_nth_neq in Hb by auto. split; [auto|split; [auto|]]. intros j Hj.
      rewrite (get_pivoting (S L) nc) by (auto; lia).
      destruct (Nat.eqb_spec i r); [contradiction|]. rewrite (Har i Hi Hb c Hc). ring. }
  split; [|split].
  - intros i Hi. eapply (pivoting_rhs_nonneg (S L) nc L); eauto; lia.
  - intros i Hi Hb. destruct (Hsame i Hi Hb) as (Hne & Hb' & He). rewrite He by lia. auto.
  - intros i Hi Hb j Hj. destruct (Hsame i Hi Hb) as (Hne & Hb' & He). rewrite He by lia. auto.
Qed.

(* ------------------------------------------------------------------ clean-up pivots after Phase 1 *)
Lemma cleanup_col_some (T : matQ) i nm j :
  cleanup_col T i nm 0 = Some j -> (j < nm)%nat /\ ~ get T i j == 0.
Proof.
  unfold cleanup_col. intros H. apply find_some in H. destruct H as [H1 H2]. apply in_seq in H1. split; [lia|].
  change (nsub nzero 0) with (Qsubr 0 0) in H2. apply orb_true_iff in H2. destruct H2 as [H2|H2]; apply nltb_lt in H2.
  - rewrite Qsubr_eq in H2. lra.
  - lra.
Qed.
Lemma cleanup_col_none (T : matQ) i nm :
  cleanup_col T i nm 0 = None -> forall j, (j < nm)%nat -> get T i j == 0.
Proof.
  unfold cleanup_col. intros H j Hj. pose proof (find_none _ _ H j) as Hn.
  assert (Hin : In j (seq 0 nm)) by (apply in_seq; lia). specialize (Hn Hin). cbv beta zeta in Hn.
  apply orb_false_iff in Hn. destruct Hn as [H1 H2]. apply nltb_false in H1, H2.
  change (nsub nzero 0) with (Qsubr 0 0) in H1. rewrite Qsubr_eq in H1. lra.
Qed.

Definition cleanup_inv (L nc a : nat) (T0 : matQ) (obj : nat -> Q) (t : nat) (st : matQ * list nat * nat) : Prop :=
  let '(T, basis, _) := st in
  tab_inv L nc a T0 obj T basis /\ rhs_nonneg L nc T /\ art_zero L nc a T basis /\ art_rows_zero t a T basis.

Lemma cleanup_step L nc a T0 obj t T basis ni :
  (t < L)%nat ->
  cleanup_inv L nc a T0 obj t (T, basis, ni) ->
  cleanup_inv L nc a T0 obj (S t)
    (if Nat.leb a (nth t basis 0%nat) then
       match cleanup_col T t a 0 with
       | Some j => (pivoting T j t, set_nth basis t j, S ni)
       | None => (T, basis, ni)
       end
     else (T, basis, ni)).
Proof.
  intros Ht (Hinv & Hrhs & Haz & Har).
  pose proof (ti_wf _ _ _ _ _ _ _ Hinv) as Hwf. pose proof (ti_nc _ _ _ _ _ _ _ Hinv) as Hnc.
  pose proof (ti_len _ _ _ _ _ _ _ Hinv) as Hlen. pose proof (ti_a _ _ _ _ _ _ _ Hinv) as Ha.
  destruct (Nat.leb_spec a (nth t basis 0%nat)) as [Hb|Hb].
  2:{ split; [auto|split; [auto|split; [auto|]]]. intros i Hi Hbi. destruct (Nat.eq_dec i t) as [->|]; [lia|]. apply Har; auto; lia. }
  destruct (cleanup_col T t a 0) as [j|] eqn:Ec.
  2:{ split; [auto|split; [auto|split; [auto|]]]. intros i Hi Hbi. destruct (Nat.eq_dec i t) as [->|].
      - apply cleanup_col_none; auto.
      - apply Har; auto; lia. }
  apply cleanup_col_some in Ec. destruct Ec as [Hj Hp].
  assert (Ht0 : get T t (nc - 1)%nat == 0) by (apply Haz; auto).
  (* the right-hand side column does not change *)
  assert (Hrc : forall i, (i < L)%nat -> get (pivoting T j t) i (nc - 1)%nat == get T i (nc - 1)%nat).
  { intros i Hi. rewrite (get_pivoting (S L) nc) by (auto; lia). destruct (Nat.eqb_spec i t) as [->|].
    - rewrite Ht0. field; auto.
    - rewrite Ht0. field; auto. }
  split; [|split; [|split]].
  - apply tab_inv_pivot; auto. lia.
  - intros i Hi. rewrite Hrc by auto. auto.
  - intros i Hi Hbi. rewrite Hrc by auto. destruct (Nat.eq_dec i t) as [->|Hne].
    + auto.
    + rewrite nth_set_nth_neq in Hbi by auto. auto.
  - intros i Hi Hbi j' Hj'. destruct (Nat.eq_dec i t) as [->|Hne].
    + rewrite nth_set_nth_eq in Hbi by lia. lia.
    + rewrite nth_set_nth_neq in Hbi by auto.
      rewrite (get_pivoting (S L) nc) by (auto; lia). destruct (Nat.eqb_spec i t); [contradiction|].
      rewrite (Har i ltac:(lia) Hbi j' Hj'), (Har i ltac:(lia) Hbi j Hj). ring.
Qed.

Lemma cleanup_fold L nc a T0 obj :
  forall len s st, (s + len <= L)%nat ->
    cleanup_inv L nc a T0 obj s st ->
    cleanup_inv L nc a T0 obj (s + len)
      (fold_left (fun st i =>
          let '(tb, bs, ni) := st in
          if Nat.leb a (nth i bs 0%nat) then
            match cleanup_col tb i a 0 with
            | Some j => (pivoting tb j i, set_nth bs i j, S ni)
            | None => st
            end
          else st) (seq s len) st).
Proof.
  induction len as [|len IH]; intros s st Hs Hinv; cbn [seq fold_left].
  - now rewrite Nat.add_0_r.
  - replace (s + S len)%nat with (S s + len)%nat by lia. apply IH; [lia|].
    destruct st as [[T basis] ni]. apply cleanup_step; auto. lia.
Qed.

Lemma cleanup_spec L nc a T0 obj T basis ni :
  tab_inv L nc a T0 obj T basis -> rhs_nonneg L nc T -> art_zero L nc a T basis ->
  let '(T', basis', _) := cleanup T basis ni L a 0 in
  tab_inv L nc a T0 obj T' basis' /\ phase2_P L nc a T' basis'.
Proof.
  intros Hinv Hrhs Haz.
  pose proof (cleanup_fold L nc a T0 obj L 0 (T, basis, ni) ltac:(lia)) as H.
  cbn [plus] in H.
  change (cleanup_inv L nc a T0 obj 0 (T, basis, ni) -> cleanup_inv L nc a T0 obj L (cleanup T basis ni L a 0)) in H.
  destruct (cleanup T basis ni L a 0) as [[T' basis'] ni'].
  destruct H as (H1 & H2 & H3 & H4).
  - split; [auto|split; [auto|split; [auto|]]]. intros i Hi. lia.
  - split; auto. split; auto.
Qed.

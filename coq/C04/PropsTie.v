(* C04 / C11 / C05 (shared pivoting core): the kernels of quantecon/optimize/pivoting.py as REGENERATED from
   /repo's current source on every run (Gen/Kernels2.v, bounds-checked translation by harness/py2coq.py)
   compute the functions of the hand-written model Base/Pivot.v, for EVERY Num instance (exact Q and binary64
   included), and read/store only inside their arrays, for rectangular tableaux and in-range indices.
   Hence the theorems about Base/Pivot.v (Base/PivotProofs.v, C04/Props.v, C11/Props.v) transport to the current
   text of these kernels.  Statements only; proofs in Base/PivotTie.v.
   The last component `true` of a generated result is the bounds flag (no access outside an array).
   np.inf is the extra parameter inf_ of the generated ratio tests; the model uses None for it.  They agree when
   inf_ behaves like +infinity against the ratios compared with it (inf_like: not inf_ + tol < x, and
   x < inf_ - tol); for binary64 with inf_ = infinity this holds for every finite x. *)
From Coq Require Import ZArith QArith List Bool PrimFloat.
From QE Require Import Base.Num Base.Pivot Gen.Kernels Gen.Kernels2 Base.PivotTie.
Import ListNotations.

Theorem C04_tie_pivoting :
  forall (T : Type) (NT : Num T) (nr nc : nat) (M : list (list T)) (c r : nat),
  rect nr nc M -> (r < nr)%nat -> (c < nc)%nat ->
  @gen_pivoting T NT M (Z.of_nat c) (Z.of_nat r) = (pivoting M c r, true).
Proof. exact (@gen_pivoting_tie). Qed.
Print Assumptions C04_tie_pivoting.

(* argmins = zs a (zs = map Z.of_nat), candidates a[:ncand]; the test column is passed either as an index
   tc >= 0 or as -1 (last column, tc = nc - 1).  Result: the number of minimisers, and argmins[:that number]
   are the model's minimisers in the model's order. *)
Theorem C04_tie_min_ratio_test :
  forall (T : Type) (NT : Num T) (M : list (list T)) (nr nc pv tc : nat) (tcZ : Z) (inf_ tolp tolr : T)
         (a : list nat) (ncand : nat),
  rect nr nc M -> (pv < nc)%nat -> (tc < nc)%nat ->
  (tcZ = Z.of_nat tc \/ (tcZ = (-1)%Z /\ tc = (nc - 1)%nat)) ->
  (ncand <= length a)%nat -> (forall i, In i (firstn ncand a) -> (i < nr)%nat) ->
  (forall i, In i (firstn ncand a) -> nleb (get M i pv) tolp = false ->
             inf_like inf_ tolr (ndiv (get M i tc) (get M i pv))) ->
  let r := @gen_min_ratio_test_no_tie_breaking T NT inf_ M (Z.of_nat pv) tcZ (zs a) (Z.of_nat ncand) tolp tolr in
  let res := min_ratio_test M pv tc tolp tolr (firstn ncand a) in
  fst (fst r) = Z.of_nat (length res) /\ firstn (length res) (snd (fst r)) = zs res /\
  length (snd (fst r)) = length a /\ snd r = true.
Proof. exact (@gen_min_ratio_test_result). Qed.
Print Assumptions C04_tie_min_ratio_test.

(* argmins: any integer array of length nrows (the callers pass np.empty) *)
Theorem C04_tie_lex_min_ratio_test :
  forall (T : Type) (NT : Num T) (M : list (list T)) (nr nc pv : nat) (inf_ tolp tolr : T),
  rect nr nc M -> (0 < nr)%nat -> (pv < nc)%nat ->
  (forall i j, (i < nr)%nat -> (j < nc)%nat -> nleb (get M i pv) tolp = false ->
               inf_like inf_ tolr (ndiv (get M i j) (get M i pv))) ->
  forall (ss : nat) (argmins : list Z), (ss + nr <= nc)%nat -> length argmins = nr ->
  let r := @gen_lex_min_ratio_test T NT inf_ M (Z.of_nat pv) (Z.of_nat ss) argmins tolp tolr in
  let m := lex_min_ratio_test M pv ss tolp tolr in
  fst (fst r) = (fst m, Z.of_nat (snd m)) /\ snd r = true /\ length (snd (fst r)) = nr.
Proof. exact (@gen_lex_min_ratio_test_tie). Qed.
Print Assumptions C04_tie_lex_min_ratio_test.

(* ------------------------------------------------------------------ non-vacuity *)
(* a degenerate tableau (rows 0 and 2 tie on the right-hand side; the tie is broken in column 3), exact Q *)
Definition exM : list (list Q) := [[2;1;1;0;0;4];[1;3;0;1;0;6];[1;1;0;0;1;2]]%Q.
Example C04_tie_hyps_example :
  rect 3 6 exM /\
  (forall i j, (i < 3)%nat -> (j < 6)%nat -> nleb (get exM i 0) 0%Q = false ->
               inf_like (1000000%Q) 0%Q (ndiv (get exM i j) (get exM i 0))) /\
  gen_lex_min_ratio_test (1000000%Q) exM 0 2 [7;7;7]%Z 0%Q 0%Q = (((true, 2%Z), [2;2;2]%Z), true) /\
  lex_min_ratio_test exM 0 2 0%Q 0%Q = (true, 2%nat) /\
  gen_pivoting exM 0 2 = (pivoting exM 0 2, true).
Proof.
  split; [split; [reflexivity|intros [|[|[|i]]] Hi; try reflexivity; exfalso; inversion Hi as [|? H1]; inversion H1 as [|? H2]; inversion H2 as [|? H3]; inversion H3]|].
  split; [|vm_compute; repeat split].
  intros [|[|[|i]]] j Hi Hj _; [| | |exfalso; inversion Hi as [|? H1]; inversion H1 as [|? H2]; inversion H2 as [|? H3]; inversion H3];
    (destruct j as [|[|[|[|[|[|j]]]]]];
     [split; vm_compute; reflexivity ..|
      exfalso; do 6 (apply le_S_n in Hj); inversion Hj]).
Qed.

(* binary64: inf_ = infinity; the same tableau *)
Definition exF : list (list float) := [[2;1;1;0;0;4];[1;3;0;1;0;6];[1;1;0;0;1;2]]%float.
Example C04_tie_float_example :
  gen_lex_min_ratio_test infinity exF 0 2 [7;7;7]%Z (0x1p-20)%float (0x1p-40)%float = (((true, 2%Z), [2;2;2]%Z), true) /\
  lex_min_ratio_test exF 0 2 (0x1p-20)%float (0x1p-40)%float = (true, 2%nat) /\
  inf_like infinity (0x1p-40)%float (ndiv (get exF 0 5) (get exF 0 0)).
Proof. vm_compute. repeat split. Qed.

(* ---------------------------------------------------------------------------------------------
   linprog_simplex.py: _pivot_col and solve_tableau as regenerated from the current source = C04/Model.v
   (proofs in C04/TieGen.v).  enc found pc = pc if found else -1 (the code's "not found" value).
   solve_tableau: for every tableau with 2 <= nrows <= ncols, every basis array of length nrows - 1, every
   max_iter, along the model's own pivot path (traj_ok: at each visited tableau the parameter inf_ acts as
   +infinity on the ratios of the lexicographic test; decidable, checker traj_okb): same status, num_iter,
   final tableau and basis, and no access outside an array (tableau, basis, argmins).
   --------------------------------------------------------------------------------------------- *)
From QE Require Import C04.Model C04.TieGen.

Theorem C04_tie_pivot_col :
  forall (T : Type) (NT : Num T) (M : list (list T)) (nr nc : nat) (skip : bool) (fea tolp tolr : T),
  rect nr nc M -> (0 < nr)%nat ->
  let m := pivot_col M skip {| fea_tol := fea; tol_piv := tolp; tol_ratio_diff := tolr |} in
  @gen_pivot_col T NT M skip fea tolp tolr = ((fst m, enc (fst m) (snd m)), true).
Proof. exact (@gen_pivot_col_tie). Qed.
Print Assumptions C04_tie_pivot_col.

Theorem C04_tie_solve_tableau :
  forall (T : Type) (NT : Num T) (inf_ fea tolp tolr : T) (skip : bool) (nr nc : nat), (2 <= nr <= nc)%nat ->
  forall (M : list (list T)) (basis : list nat) (max_iter : nat),
  rect nr nc M -> length basis = (nr - 1)%nat -> traj_ok inf_ fea tolp tolr skip nr nc max_iter M ->
  @gen_solve_tableau T NT inf_ M (zs basis) (Z.of_nat max_iter) skip fea tolp tolr =
    (let '(M', basis', success, status, ni) :=
         solve_tableau M basis max_iter skip {| fea_tol := fea; tol_piv := tolp; tol_ratio_diff := tolr |} in
     (((success, Z.of_nat status, Z.of_nat ni), M', zs basis'), true)).
Proof. exact (@gen_solve_tableau_tie). Qed.
Print Assumptions C04_tie_solve_tableau.

Theorem C04_traj_okb_sound :
  forall (T : Type) (NT : Num T) (inf_ fea tolp tolr : T) (skip : bool) (nr nc : nat), (2 <= nr <= nc)%nat ->
  forall (f : nat) (M : list (list T)),
  traj_okb inf_ fea tolp tolr skip nr nc f M = true -> traj_ok inf_ fea tolp tolr skip nr nc f M.
Proof. exact (@traj_okb_sound). Qed.
Print Assumptions C04_traj_okb_sound.

(* non-vacuity: max x0 + x1 s.t. 2 x0 + x1 <= 4, x0 + 3 x1 <= 6 (phase-2 tableau with slack basis), exact Q
   and binary64; three iterations (two pivots, then optimal) *)
Definition lpQ : list (list Q) := [[2;1;1;0;4];[1;3;0;1;6];[1;1;0;0;0]]%Q.
Example C04_tie_solve_tableau_example :
  rect 3 5 lpQ /\ traj_ok (1000000%Q) 0%Q 0%Q 0%Q false 3 5 10 lpQ /\
  gen_solve_tableau (1000000%Q) lpQ [2;3]%Z 10 false 0%Q 0%Q 0%Q =
    (((true, 0%Z, 3%Z), [[1;0;3#5;-1#5;6#5];[0;1;-1#5;2#5;8#5];[0;0;-2#5;-1#5;-14#5]]%Q, [0;1]%Z), true).
Proof.
  split; [split; [reflexivity|intros [|[|[|i]]] Hi; try reflexivity; exfalso; inversion Hi as [|? H1]; inversion H1 as [|? H2]; inversion H2 as [|? H3]; inversion H3]|].
  split; [apply traj_okb_sound; [split; repeat constructor|vm_compute; reflexivity]|vm_compute; reflexivity].
Qed.
Definition lpF : list (list float) := [[2;1;1;0;4];[1;3;0;1;6];[1;1;0;0;0]]%float.
Example C04_tie_solve_tableau_float_example :
  traj_okb infinity (0x1p-20)%float (0x1p-23)%float (0x1p-43)%float false 3 5 10 lpF = true /\
  fst (fst (fst (gen_solve_tableau infinity lpF [2;3]%Z 10 false (0x1p-20)%float (0x1p-23)%float (0x1p-43)%float))) = (true, 0%Z, 3%Z) /\
  snd (gen_solve_tableau infinity lpF [2;3]%Z 10 false (0x1p-20)%float (0x1p-23)%float (0x1p-43)%float) = true.
Proof. vm_compute. repeat split. Qed.

(* _set_criterion_row and get_solution as regenerated from the current source = C04/Model.v: for every tableau with
   L+1 rows of length nc, basis entries inside the tableau, any (junk) initial contents of x and lambd *)
Theorem C04_tie_set_criterion_row :
  forall (T : Type) (NT : Num T) (L nc : nat) (c : list T) (basis : list nat),
  (length c <= nc)%nat -> length basis = L -> (forall i, (i < L)%nat -> (nth i basis 0 < nc)%nat) ->
  forall Tb : list (list T), rect (S L) nc Tb ->
  @gen_set_criterion_row T NT c (zs basis) Tb = (set_criterion_row c basis Tb, true).
Proof. exact (@gen_set_criterion_row_tie). Qed.
Print Assumptions C04_tie_set_criterion_row.

Theorem C04_tie_get_solution :
  forall (T : Type) (NT : Num T) (L nc n : nat) (Tb : list (list T)) (basis : list nat) (bsigns : list bool),
  rect (S L) nc Tb -> (S L <= nc)%nat -> length basis = L -> length bsigns = L ->
  forall x lambd : list T, length x = n -> length lambd = L ->
  @gen_get_solution T NT Tb (zs basis) x lambd bsigns =
    (let '(xm, lm, fn) := get_solution Tb basis n L bsigns in ((fn, xm, lm), true)).
Proof. exact (@gen_get_solution_tie). Qed.
Print Assumptions C04_tie_get_solution.

Example C04_tie_criterion_solution_example :
  gen_set_criterion_row [1;1]%Q [2;3]%Z [[2;1;1;0;4];[1;3;0;1;6];[9;9;9;9;9]]%Q = (lpQ, true) /\
  gen_get_solution [[1;0;3#5;-1#5;6#5];[0;1;-1#5;2#5;8#5];[0;0;-2#5;-1#5;-14#5]]%Q [0;1]%Z [7;7]%Q [7;7]%Q [true;true]
    = ((14#5, [6#5; 8#5], [2#5; 1#5])%Q, true).
Proof. vm_compute. split; reflexivity. Qed.

(* _initialize_tableau as regenerated from the current source = C04/Model.v (proof in C04/TieGenInit.v): for every
   n, m, k, well-shaped A_ub (m x n), A_eq (k x n), b_ub, b_eq, and ANY initial contents of a tableau of shape
   (m+k+1) x (n+m+(m+k)+1) and of a basis array of length m+k *)
From QE Require Import C04.TieGenInit.
Theorem C04_tie_initialize_tableau :
  forall (T : Type) (NT : Num T) (n m k : nat) (A_ub A_eq : list (list T)) (b_ub b_eq : list T),
  rect m n A_ub -> rect k n A_eq -> length b_ub = m -> length b_eq = k ->
  forall (Tb : list (list T)) (basis : list Z),
  rect (S (m + k)) (n + m + (m + k) + 1) Tb -> length basis = (m + k)%nat ->
  @gen_initialize_tableau T NT A_ub b_ub A_eq b_eq Tb basis =
    ((fst (initialize_tableau n m k A_ub b_ub A_eq b_eq), zs (snd (initialize_tableau n m k A_ub b_ub A_eq b_eq))), true).
Proof. exact (@gen_initialize_tableau_tie). Qed.
Print Assumptions C04_tie_initialize_tableau.

Example C04_tie_initialize_tableau_example :
  gen_initialize_tableau [[2;1];[-1;-3]]%Q [4;-6]%Q [[1;1]]%Q [-3]%Q (repeat (repeat (7#2)%Q 8) 4) [9;9;9]%Z
  = (([[2;1;1;0;1;0;0;4]; [1;3;0;-1;0;1;0;6]; [-1;-1;0;0;0;0;1;3]; [2;3;1;-1;0;0;0;13]]%Q, [4;5;6]%Z), true).
Proof. vm_compute. reflexivity. Qed.

(* solve_phase_1 as regenerated from the current source (Gen/Kernels3.v; it calls the regenerated solve_tableau and
   _pivoting) = C04/Model.v (proof in C04/TieGen3.v): Phase-1 solve, feasibility test, clean-up pivots that drive the
   artificial variables out of the basis *)
From QE Require Import Gen.Kernels3 C04.TieGen3.
Theorem C04_tie_solve_phase_1 :
  forall (T : Type) (NT : Num T) (inf_ fea tolp tolr : T) (nr nc : nat), (2 <= nr <= nc)%nat ->
  forall (M : list (list T)) (basis : list nat) (max_iter : nat),
  rect nr nc M -> length basis = (nr - 1)%nat -> traj_ok inf_ fea tolp tolr false nr nc max_iter M ->
  @gen_solve_phase_1 T NT inf_ M (zs basis) (Z.of_nat max_iter) fea tolp tolr =
    (let '(M', bs', succ, st, ni) :=
         solve_phase_1 M basis max_iter {| fea_tol := fea; tol_piv := tolp; tol_ratio_diff := tolr |} in
     (((succ, Z.of_nat st, Z.of_nat ni), M', zs bs'), true)).
Proof. exact (@gen_solve_phase_1_tie). Qed.
Print Assumptions C04_tie_solve_phase_1.

(* non-vacuity: Phase 1 of  x0 + x1 >= 2 (as -x0 - x1 <= -2), x0 + 2 x1 = 3: initial tableau of C04_tie_initialize_tableau_example-like shape *)
Example C04_tie_solve_phase_1_example :
  let tb := fst (initialize_tableau 2 1 1 [[-1;-1]]%Q [-2]%Q [[1;2]]%Q [3]%Q) in
  traj_ok (1000000%Q) 0%Q 0%Q 0%Q false 3 7 20 tb /\
  fst (fst (fst (gen_solve_phase_1 (1000000%Q) tb [3;4]%Z 20 0%Q 0%Q 0%Q))) =
    (let '(_, _, succ, st, ni) := solve_phase_1 tb [3;4]%nat 20 {| fea_tol := 0%Q; tol_piv := 0%Q; tol_ratio_diff := 0%Q |} in
     (succ, Z.of_nat st, Z.of_nat ni)) /\
  fst (fst (fst (fst (fst (gen_solve_phase_1 (1000000%Q) tb [3;4]%Z 20 0%Q 0%Q 0%Q))))) = true.
Proof. cbv zeta. split; [apply traj_okb_sound; [split; repeat constructor|vm_compute; reflexivity]|]. vm_compute. split; reflexivity. Qed.

(* C04 proofs, part 1: LP duality (certificate_optimal), specification of _pivot_col, and the
   tableau invariant through solve_tableau.  All at the exact instance NumQ. *)
From Coq Require Import ZArith QArith List Bool Arith Lia Lqa Setoid Morphisms.
From QE Require Import Base.Num Base.Pivot Base.PivotProofs C04.Model.
Import ListNotations.
Open Scope Q_scope.

(* ------------------------------------------------------------------ the LP and its dual
   max c.x  s.t.  A_ub x <= b_ub,  A_eq x = b_eq,  x >= 0      (n variables, m + k rows) *)
Definition dotn (n : nat) (u v : list Q) : Q := sumQ n (fun j => vget u j * vget v j).
Definition Arow (n : nat) (A : matQ) (i : nat) (x : list Q) : Q := sumQ n (fun j => get A i j * vget x j).

Definition primal_feasible (n m k : nat) (Aub : matQ) (bub : list Q) (Aeq : matQ) (beq : list Q) (x : list Q) : Prop :=
  (forall j, (j < n)%nat -> 0 <= vget x j) /\
  (forall i, (i < m)%nat -> Arow n Aub i x <= vget bub i) /\
  (forall i, (i < k)%nat -> Arow n Aeq i x == vget beq i).

(* lam = (multipliers of the m inequality rows, multipliers of the k equality rows) *)
Definition Acol (m k : nat) (Aub Aeq : matQ) (j : nat) (lam : list Q) : Q :=
  sumQ m (fun i => get Aub i j * vget lam i) + sumQ k (fun i => get Aeq i j * vget lam (m + i)%nat).
Definition dual_feasible (n m k : nat) (c : list Q) (Aub Aeq : matQ) (lam : list Q) : Prop :=
  (forall i, (i < m)%nat -> 0 <= vget lam i) /\
  (forall j, (j < n)%nat -> vget c j <= Acol m k Aub Aeq j lam).
Definition dual_obj (m k : nat) (bub beq lam : list Q) : Q :=
  sumQ m (fun i => vget bub i * vget lam i) + sumQ k (fun i => vget beq i * vget lam (m + i)%nat).

Lemma weak_duality n m k c Aub bub Aeq beq x lam :
  primal_feasible n m k Aub bub Aeq beq x -> dual_feasible n m k c Aub Aeq lam ->
  dotn n c x <= dual_obj m k bub beq lam.
Proof.
  intros (Hx & Hub & Heq) (Hl & Hd).
  apply Qle_trans with (sumQ n (fun j => Acol m k Aub Aeq j lam * vget x j)).
  - apply sumQ_le. intros j Hj. apply Qmult_le_compat_r; auto.
  - unfold Acol, dual_obj.
    rewrite (sumQ_ext n _ (fun j => sumQ m (fun i => vget lam i * (get Aub i j * vget x j))
                                    + sumQ k (fun i => vget lam (m + i)%nat * (get Aeq i j * vget x j)))).
    2:{ intros j Hj. rewrite Qmult_plus_distr_l. apply Qplus_comp.
        - rewrite Qmult_comm, <- sumQ_scale. apply sumQ_ext. intros; ring.
        - rewrite Qmult_comm, <- sumQ_scale. apply sumQ_ext. intros; ring. }
    rewrite sumQ_plus.
    rewrite (sumQ_swap n m (fun j i => vget lam i * (get Aub i j * vget x j))).
    rewrite (sumQ_swap n k (fun j i => vget lam (m + i)%nat * (get Aeq i j * vget x j))).
    apply Qplus_le_compat.
    + apply sumQ_le. intros i Hi. rewrite sumQ_scale. fold (Arow n Aub i x).
      specialize (Hub i Hi). specialize (Hl i Hi). nra.
    + apply Qle_lteq. right. apply sumQ_ext. intros i Hi. rewrite sumQ_scale. fold (Arow n Aeq i x).
      rewrite (Heq i Hi). ring.
Qed.

(* C04 proofs, part 1: LP duality (certificate_optimal), specification of _pivot_col, and the
   tableau invariant through solve_tableau.  All at the exact instance NumQ. *)
From Coq Require Import ZArith QArith List Bool Arith Lia Lqa Setoid Morphisms.
From QE Require Import Base.Num Base.Pivot Base.PivotProofs C04.Model.
Import ListNotations.
Open Scope Q_scope.

(* ------------------------------------------------------------------ the LP and its dual
   max c.x  s.t.  A_ub x <= b_ub,  A_eq x = b_eq,  x >= 0      (n variables, m + k rows) *)
Definition dotn (n : nat) (u v : list Q) : Q := sumQ n (fun j => vget u j * vget v j).
Definition Arow (n : nat) (A : matQ) (i : nat) (x : list Q) : Q := sumQ n (fun j => get A i j * vget x j).

Definition primal_feasible (n m k : nat) (Aub : matQ) (bub : list Q) (Aeq : matQ) (beq : list Q) (x : list Q) : Prop :=
  (forall j, (j < n)%nat -> 0 <= vget x j) /\
  (forall i, (i < m)%nat -> Arow n Aub i x <= vget bub i) /\
  (forall i, (i < k)%nat -> Arow n Aeq i x == vget beq i).

(* lam = (multipliers of the m inequality rows, multipliers of the k equality rows) *)
Definition Acol (m k : nat) (Aub Aeq : matQ) (j : nat) (lam : list Q) : Q :=
  sumQ m (fun i => get Aub i j * vget lam i) + sumQ k (fun i => get Aeq i j * vget lam (m + i)%nat).
Definition dual_feasible (n m k : nat) (c : list Q) (Aub Aeq : matQ) (lam : list Q) : Prop :=
  (forall i, (i < m)%nat -> 0 <= vget lam i) /\
  (forall j, (j < n)%nat -> vget c j <= Acol m k Aub Aeq j lam).
Definition dual_obj (m k : nat) (bub beq lam : list Q) : Q :=
  sumQ m (fun i => vget bub i * vget lam i) + sumQ k (fun i => vget beq i * vget lam (m + i)%nat).

Lemma weak_duality n m k c Aub bub Aeq beq x lam :
  primal_feasible n m k Aub bub Aeq beq x -> dual_feasible n m k c Aub Aeq lam ->
  dotn n c x <= dual_obj m k bub beq lam.
Proof.
  intros (Hx & Hub & Heq) (Hl & Hd).
  apply Qle_trans with (sumQ n (fun j => Acol m k Aub Aeq j lam * vget x j)).
  - apply sumQ_le. intros j Hj. apply Qmult_le_compat_r; auto.
  - unfold Acol, dual_obj.
    rewrite (sumQ_ext n _ (fun j => sumQ m (fun i => vget lam i * (get Aub i j * vget x j))
                                    + sumQ k (fun i => vget lam (m + i)%nat * (get Aeq i j * vget x j)))).
    2:{ intros j Hj. rewrite Qmult_plus_distr_l. apply Qplus_comp.
        - rewrite Qmult_comm, <- sumQ_scale. apply sumQ_ext. intros; ring.
        - rewrite Qmult_comm, <- sumQ_scale. apply sumQ_ext. intros; ring. }
    rewrite sumQ_plus.
    rewrite (sumQ_swap n m (fun j i => vget lam i * (get Aub i j * vget x j))).
    rewrite (sumQ_swap n k (fun j i => vget lam (m + i)%nat * (get Aeq i j * vget x j))).
    apply Qplus_le_compat.
    + apply sumQ_le. intros i Hi. rewrite sumQ_scale. fold (Arow n Aub i x).
      specialize (Hub i Hi). specialize (Hl i Hi). nra.
    + apply Qle_lteq. right. apply sumQ_ext. intros i Hi. rewrite sumQ_scale. fold (Arow n Aeq i x).
      rewrite (Heq i Hi). ring.
Qed.
Lemma certificate_optimal n m k c Aub bub Aeq beq x lam :
  primal_feasible n m k Aub bub Aeq beq x -> dual_feasible n m k c Aub Aeq lam ->
  dotn n c x == dual_obj m k bub beq lam ->
  forall x', primal_feasible n m k Aub bub Aeq beq x' -> dotn n c x' <= dotn n c x.
Proof. intros Hp Hd He x' Hp'. rewrite He. eapply weak_duality; eauto. Qed.

(* and the multipliers are optimal for the dual *)
Lemma certificate_dual_optimal n m k c Aub bub Aeq beq x lam :
  primal_feasible n m k Aub bub Aeq beq x -> dual_feasible n m k c Aub Aeq lam ->
  dotn n c x == dual_obj m k bub beq lam ->
  forall lam', dual_feasible n m k c Aub Aeq lam' -> dual_obj m k bub beq lam <= dual_obj m k bub beq lam'.
Proof. intros Hp Hd He lam' Hd'. rewrite <- He. eapply weak_duality; eauto. Qed.

(* ------------------------------------------------------------------ _pivot_col *)
Notation optsQ := (@PivOptions Q).

Lemma pivot_col_loop_spec crit js found pc coeff f' pc' :
  pivot_col_loop crit js found pc coeff = (f', pc') ->
  (found = true -> vget crit pc == coeff) ->
  (f' = true -> (found = true /\ pc' = pc \/ In pc' js) /\ coeff <= vget crit pc'
                /\ forall j, In j js -> vget crit j <= vget crit pc') /\
  (f' = false -> found = false /\ forall j, In j js -> vget crit j <= coeff).
Proof.
  revert found pc coeff. induction js as [|j r IH]; intros found pc coeff H Hinv; cbn [pivot_col_loop] in H.
  - inversion H; subst. split.
    + intros ->. split; [left; auto|]. split; [rewrite Hinv by auto; lra|intros j []].
    + intros ->. split; auto. intros j [].
  - destruct (nltb coeff (vget crit j)) eqn:E.
    + apply nltb_lt in E. destruct (IH _ _ _ H) as [H1 H2]; [reflexivity|]. split.
      * intros Hf. destruct (H1 Hf) as (Ha & Hb & Hc). split; [|split].
        -- right. destruct Ha as [[_ ->]|Ha]; [now left|now right].
        -- lra.
        -- intros j' [<-|Hj']; auto.
      * intros Hf. destruct (H2 Hf) as [Hd _]. discriminate.
    + apply nltb_false in E. destruct (IH _ _ _ H Hinv) as [H1 H2]. split.
      * intros Hf. destruct (H1 Hf) as (Ha & Hb & Hc). split; [|split]; auto.
        -- destruct Ha as [Ha|Ha]; [left; auto|right; now right].
        -- intros j' [<-|Hj']; auto. lra.
      * intros Hf. destruct (H2 Hf) as [Hd He]. split; auto. intros j' [<-|Hj']; auto.
Qed.

Lemma pivot_col_spec L nc (T : matQ) skip (o : optsQ) f pc :
  wf (S L) nc T -> pivot_col T skip o = (f, pc) ->
  let stop := (nc - 1 - (if skip then L else 0))%nat in
  (f = true -> (pc < stop)%nat /\ fea_tol o < get T L pc) /\
  (f = false -> forall j, (j < stop)%nat -> get T L j <= fea_tol o).
Proof.
  intros Hwf H. unfold pivot_col in H.
  assert (E1 : (nrows T - 1 = L)%nat) by (unfold nrows; destruct Hwf as [-> _]; lia).
  assert (E2 : ncols T = nc) by (apply (wf_ncols (S L)); auto; lia).
  rewrite E1, E2 in H. cbv zeta.
  destruct (pivot_col_loop_spec _ _ _ _ _ _ _ H) as [H1 H2]; [discriminate|].
  change (vget (nth L T []) ?j) with (get T L j) in *.
  split.
  - intros Hf. destruct (H1 Hf) as (Ha & Hb & Hc). destruct Ha as [[? _]|Ha]; [discriminate|].
    apply in_seq in Ha. split; [lia|]. subst f.
    (* strictness: the first update was strict *)
    clear H1 H2. revert H. generalize (seq 0 (nc - 1 - (if skip then L else 0))).
    intros js H.
    assert (G : forall js found pc0 coeff, pivot_col_loop (nth L T []) js found pc0 coeff = (true, pc) ->
                 (found = true -> fea_tol o < coeff) -> (found = true -> get T L pc0 == coeff) ->
                 fea_tol o <= coeff -> fea_tol o < get T L pc).
    { clear. induction js as [|j r IH]; intros found pc0 coeff H Hs Hv Hle; cbn [pivot_col_loop] in H.
      - inversion H; subst. rewrite Hv by auto. auto.
      - change (vget (nth L T []) j) with (get T L j) in H. destruct (nltb coeff (get T L j)) eqn:E.
        + apply nltb_lt in E. apply (IH _ _ _ H); intros; try reflexivity; lra.
        + apply (IH _ _ _ H); auto. }
    apply (G _ _ _ _ H); try discriminate. lra.
  - intros Hf j Hj. destruct (H2 Hf) as [_ He]. apply He. apply in_seq. lia.
Qed.

(* ------------------------------------------------------------------ the tableau invariant *)
(* T0: the L constraint rows of the initial tableau, identity block at columns a .. a+L;
   obj: objective of the current phase as a function of the column *)
Record tab_inv (L nc a : nat) (T0 : matQ) (obj : nat -> Q) (T : matQ) (basis : list nat) : Prop := {
  ti_nc : (0 < nc)%nat;
  ti_a : (a + L <= nc - 1)%nat;
  ti_wf : wf (S L) nc T;
  ti_len : length basis = L;
  ti_bas : forall i, (i < L)%nat -> (nth i basis 0 < nc - 1)%nat;
  ti_rows : forall i, (i < L)%nat -> comb_lin L a nc T0 (rowf T i);
  ti_crit : comb_aff L a nc T0 obj (rowf T L);
  ti_unit : unit_cols (S L) L T basis;
  ti_sol : forall u, solves L nc T u -> solves L nc T0 u
}.
Definition rhs_nonneg (L nc : nat) (T : matQ) : Prop := forall i, (i < L)%nat -> 0 <= get T i (nc - 1)%nat.

Lemma tab_inv_pivot L nc a T0 obj T basis c r :
  tab_inv L nc a T0 obj T basis -> (r < L)%nat -> (c < nc - 1)%nat -> ~ get T r c == 0 ->
  tab_inv L nc a T0 obj (pivoting T c r) (set_nth basis r c).
Proof.
  intros [Hnc Ha Hwf Hlen Hbas Hrows Hcrit Hunit Hsol] Hr Hc Hp.
  constructor; auto.
  - apply wf_pivoting; auto.
  - now rewrite length_set_nth.
  - intros i Hi. rewrite nth_set_nth. destruct (Nat.eqb i r); [destruct (Nat.ltb r (length basis))|]; auto.
  - intros i Hi. destruct (Nat.eq_dec i r) as [->|Hne].
    + eapply pivoting_comb_lin_pivrow; eauto; lia.
    + eapply pivoting_comb_aff_other; eauto; try lia. apply Hrows; auto.
  - eapply pivoting_comb_aff_other; eauto; try lia.
  - eapply unit_cols_pivoting; eauto; try lia. intros i Hi. specialize (Hbas i Hi). lia.
  - intros u Hu. apply Hsol. eapply solves_pivoting_back; eauto; lia.
Qed.

(* one pass through the loop body of solve_tableau keeps the invariant, for all tolerances >= 0 *)
Theorem solve_tableau_inv L nc a T0 obj (o : optsQ) skip :
  0 <= tol_piv o ->
  forall fuel T basis ni,
    tab_inv L nc a T0 obj T basis ->
    let '(T', basis', _, _, _) := solve_tableau_loop fuel T basis skip o ni in
    tab_inv L nc a T0 obj T' basis'.
Proof.
  intros Htol. induction fuel as [|f IH]; intros T basis ni Hinv; cbn [solve_tableau_loop]; auto.
  destruct (pivot_col T skip o) as [cf pc] eqn:Epc.
  destruct cf; cbn [negb]; auto.
  assert (E1 : (nrows T - 1 = L)%nat) by (unfold nrows; destruct (ti_wf _ _ _ _ _ _ _ Hinv) as [-> _]; lia).
  assert (E2 : ncols T = nc) by (apply (wf_ncols (S L)); [apply (ti_wf _ _ _ _ _ _ _ Hinv)|lia]).
  rewrite E1, E2.
  destruct (lex_min_ratio_test_n L T pc (nc - L - 1) (tol_piv o) (tol_ratio_diff o)) as [rf pr] eqn:Er.
  destruct rf; cbn [negb]; auto.
  apply lex_min_ratio_test_n_spec in Er. destruct Er as [Hr Hp].
  destruct (pivot_col_spec L nc T skip o _ _ (ti_wf _ _ _ _ _ _ _ Hinv) Epc) as [Hc _].
  destruct (Hc eq_refl) as [Hc1 _].
  apply IH. apply tab_inv_pivot; auto; [lia|lra].
Qed.

(* tolerance 0: the right-hand side stays non-negative *)
Definition opts0 : optsQ := {| fea_tol := 0; tol_piv := 0; tol_ratio_diff := 0 |}.

Theorem solve_tableau_rhs_nonneg L nc a T0 obj skip :
  forall fuel T basis ni,
    tab_inv L nc a T0 obj T basis -> rhs_nonneg L nc T ->
    let '(T', _, _, _, _) := solve_tableau_loop fuel T basis skip opts0 ni in
    rhs_nonneg L nc T'.
Proof.
  induction fuel as [|f IH]; intros T basis ni Hinv Hrhs; cbn [solve_tableau_loop]; auto.
  destruct (pivot_col T skip opts0) as [cf pc] eqn:Epc.
  destruct cf; cbn [negb]; auto.
  assert (E1 : (nrows T - 1 = L)%nat) by (unfold nrows; destruct (ti_wf _ _ _ _ _ _ _ Hinv) as [-> _]; lia).
  assert (E2 : ncols T = nc) by (apply (wf_ncols (S L)); [apply (ti_wf _ _ _ _ _ _ _ Hinv)|lia]).
  rewrite E1, E2.
  destruct (lex_min_ratio_test_n L T pc (nc - L - 1) (tol_piv opts0) (tol_ratio_diff opts0)) as [rf pr] eqn:Er.
  destruct rf; cbn [negb]; auto.
  pose proof (lex_min_ratio_test_n_spec _ _ _ _ _ _ _ Er) as [Hr Hp].
  pose proof (lex_min_ratio_test_n_min _ _ _ _ _ Er) as Hmin. rewrite E2 in Hmin.
  destruct (pivot_col_spec L nc T skip opts0 _ _ (ti_wf _ _ _ _ _ _ _ Hinv) Epc) as [Hc _].
  destruct (Hc eq_refl) as [Hc1 _]. cbn in Hp.
  apply IH.
  - apply tab_inv_pivot; auto; [lia|lra].
  - intros i Hi. eapply (pivoting_rhs_nonneg (S L) nc L); eauto; try lia. apply (ti_wf _ _ _ _ _ _ _ Hinv).
Qed.

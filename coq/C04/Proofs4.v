(* C04 proofs, part 4 (tolerance 0): _set_criterion_row and Phase 2. *)
From Coq Require Import ZArith QArith List Bool Arith Lia Lqa Setoid Morphisms.
From QE Require Import Base.Num Base.Pivot Base.PivotProofs C04.Model C04.Proofs C04.Proofs2 C04.Proofs3.
Import ListNotations.
Open Scope Q_scope.

Definition obj2f (c : list Q) : nat -> Q := fun j => if Nat.ltb j (length c) then vget c j else 0.

(* one elimination step of _set_criterion_row on the criterion row `crit` *)
Definition crit_step (T : matQ) (basis : list nat) (crit : list Q) (i : nat) : list Q :=
  let mult := vget crit (nth i basis 0%nat) in
  map2 (fun x y => nsub x (nmul y mult)) crit (nth i T []).

Lemma crit_step_entry nr nc (T : matQ) basis crit i j :
  wf nr nc T -> (i < nr)%nat -> length crit = nc -> (j < nc)%nat ->
  vget (crit_step T basis crit i) j == vget crit j - vget crit (nth i basis 0%nat) * get T i j.
Proof.
  intros [Hl Hr] Hi Hc Hj. unfold crit_step, vget at 1.
  rewrite nth_map2 with (da := 0) (db := 0) by (rewrite ?Hr; auto; lia).
  change (nsub ?x (nmul ?y ?z)) with (Qsubr x (Qmulr y z)). rewrite Qsubr_eq, Qmulr_eq.
  change (nth j crit 0) with (vget crit j). change (nth j (nth i T []) 0) with (get T i j). ring.
Qed.
Lemma crit_step_length nr nc (T : matQ) basis crit i :
  wf nr nc T -> (i < nr)%nat -> length crit = nc -> length (crit_step T basis crit i) = nc.
Proof. intros [Hl Hr] Hi Hc. unfold crit_step. rewrite length_map2, Hc, Hr by auto. apply Nat.min_id. Qed.

Lemma crit_fold L nc a T0 obj1 obj T basis :
  tab_inv L nc a T0 obj1 T basis ->
  forall len s crit, (s + len <= L)%nat ->
    length crit = nc -> comb_aff L a nc T0 obj (vget crit) ->
    (forall i, (i < s)%nat -> vget crit (nth i basis 0%nat) == 0) ->
    let crit' := fold_left (crit_step T basis) (seq s len) crit in
    length crit' = nc /\ comb_aff L a nc T0 obj (vget crit') /\
    (forall i, (i < s + len)%nat -> vget crit' (nth i basis 0%nat) == 0).
Proof.
  intros Hinv.
  pose proof (ti_wf _ _ _ _ _ _ _ Hinv) as Hwf. pose proof (ti_a _ _ _ _ _ _ _ Hinv) as Ha.
  pose proof (ti_bas _ _ _ _ _ _ _ Hinv) as Hbas. pose proof (ti_unit _ _ _ _ _ _ _ Hinv) as Hunit.
  induction len as [|len IH]; intros s crit Hs Hlen Hcomb Hz; cbn [seq fold_left].
  - rewrite Nat.add_0_r. auto.
  - cbv zeta in IH. replace (s + S len)%nat with (S s + len)%nat by lia. apply IH; [lia| | |].
    + eapply crit_step_length; eauto. lia.
    + apply comb_aff_ext with (r1 := fun j => vget crit j - vget crit (nth s basis 0%nat) * rowf T s j); [lia| |].
      * intros j Hj. unfold rowf. symmetry. eapply crit_step_entry; eauto. lia.
      * apply comb_aff_sub; auto. apply (ti_rows _ _ _ _ _ _ _ Hinv). lia.
    + intros i Hi. assert (Hb : (nth i basis 0 < nc)%nat) by (specialize (Hbas i ltac:(lia)); lia).
      rewrite (crit_step_entry (S L) nc) by (auto; lia).
      destruct (Nat.eq_dec i s) as [->|Hne].
      * rewrite (Hunit s s) by lia. rewrite Nat.eqb_refl. ring.
      * rewrite (Hunit i s) by lia. destruct (Nat.eqb_spec s i); [lia|]. rewrite Hz by lia. ring.
Qed.

Lemma get_app_last (R : matQ) (crit : list Q) L j : length R = L -> get (R ++ [crit]) L j = vget crit j.
Proof. intros H. unfold get, vget. rewrite app_nth2 by lia. rewrite H, Nat.sub_diag. reflexivity. Qed.
Lemma nth_firstn_lt {A} (l : list A) L i d : (i < L)%nat -> nth i (firstn L l) d = nth i l d.
Proof. revert L i. induction l; intros [|L] [|i] H; cbn; auto; try lia. apply IHl. lia. Qed.
Lemma get_firstn_app (T : matQ) (crit : list Q) L i j : (i < L)%nat -> (L <= length T)%nat ->
  get (firstn L T ++ [crit]) i j = get T i j.
Proof.
  intros Hi HL. unfold get. rewrite app_nth1 by (rewrite firstn_length; lia).
  rewrite nth_firstn_lt by auto. reflexivity.
Qed.

(* _set_criterion_row re-establishes the invariant for the Phase-2 objective (c, 0, ..., 0) *)
Lemma set_criterion_row_spec L nc a T0 obj1 T basis c :
  (length c <= a)%nat ->
  tab_inv L nc a T0 obj1 T basis -> phase2_P L nc a T basis ->
  let T2 := set_criterion_row c basis T in
  tab_inv L nc a T0 (obj2f c) T2 basis /\ phase2_P L nc a T2 basis.
Proof.
  intros Hc Hinv (Hrhs & Haz & Har).
  pose proof (ti_wf _ _ _ _ _ _ _ Hinv) as Hwf. pose proof (ti_a _ _ _ _ _ _ _ Hinv) as Ha.
  pose proof (ti_nc _ _ _ _ _ _ _ Hinv) as Hnc. pose proof (ti_len _ _ _ _ _ _ _ Hinv) as Hlen.
  assert (E2 : ncols T = nc) by (apply (wf_ncols (S L)); auto; lia).
  unfold set_criterion_row. rewrite Hlen, E2. cbv zeta.
  set (crit0 := tabv nc (fun j => if Nat.ltb j (length c) then vget c j else nzero)).
  assert (H0 : forall j, (j < nc)%nat -> vget crit0 j = obj2f c j).
  { intros j Hj. unfold crit0, vget. rewrite nth_tabv by auto. reflexivity. }
  destruct (crit_fold L nc a T0 obj1 (obj2f c) T basis Hinv L 0 crit0) as (Hl & Hcomb & Hz).
  - lia.
  - apply length_tabv.
  - intros j Hj. rewrite H0 by auto. rewrite sumQ_zero; [ring|]. intros k0 Hk. rewrite H0 by lia. ring.
  - intros i Hi. lia.
  - cbn [plus] in Hz.
    change (fold_left (crit_step T basis) (seq 0 L) crit0)
      with (fold_left (fun crit i => let mult := vget crit (nth i basis 0%nat) in
                                     map2 (fun x y => nsub x (nmul y mult)) crit (nth i T [])) (seq 0 L) crit0) in *.
    set (crit := fold_left _ (seq 0 L) crit0) in *.
    destruct Hwf as [HlT HrT].
    assert (Hrow : forall i j, (i < L)%nat -> get (firstn L T ++ [crit]) i j = get T i j)
      by (intros; apply get_firstn_app; auto; lia).
    assert (Hlast : forall j, get (firstn L T ++ [crit]) L j = vget crit j)
      by (intros; apply get_app_last; rewrite firstn_length; lia).
    split; [constructor|split; [|split]]; auto.
    + split.
      * rewrite app_length, firstn_length. cbn. lia.
      * intros i Hi. destruct (Nat.lt_ge_cases i L).
        -- rewrite app_nth1 by (rewrite firstn_length; lia).
           rewrite nth_firstn_lt by auto. apply HrT. lia.
        -- rewrite app_nth2 by (rewrite firstn_length; lia). rewrite firstn_length.
           replace (i - Nat.min L (length T))%nat with 0%nat by lia. auto.
    + apply (ti_bas _ _ _ _ _ _ _ Hinv).
    + intros i Hi. apply comb_aff_ext with (r1 := rowf T i); [lia| |apply (ti_rows _ _ _ _ _ _ _ Hinv); auto].
      intros j Hj. unfold rowf. now rewrite Hrow.
    + apply comb_aff_ext with (r1 := vget crit); [lia| |auto].
      intros j Hj. unfold rowf. now rewrite Hlast.
    + intros i k0 Hi Hk. destruct (Nat.eq_dec k0 L) as [->|Hne].
      * rewrite Hlast. rewrite Hz by auto. destruct (Nat.eqb_spec L i); [lia|reflexivity].
      * rewrite Hrow by lia. apply (ti_unit _ _ _ _ _ _ _ Hinv); lia.
    + intros u Hu. apply (ti_sol _ _ _ _ _ _ _ Hinv). intros i Hi. specialize (Hu i Hi).
      rewrite Hrow in Hu by auto. rewrite <- Hu. apply sumQ_ext. intros j Hj. now rewrite Hrow.
    + intros i Hi. rewrite Hrow by auto. auto.
    + intros i Hi Hb. rewrite Hrow by auto. auto.
    + intros i Hi Hb j Hj. rewrite Hrow by auto. auto.
Qed.

(* Phase 2 (skip_aux = true): invariant, non-negative rhs, untouched artificial rows, and at status 0 no
   positive criterion coefficient on the columns < a *)
Lemma phase2_spec L nc a T0 obj fuel T basis ni :
  (a + L = nc - 1)%nat ->
  tab_inv L nc a T0 obj T basis -> phase2_P L nc a T basis ->
  let '(T', basis', success, status, _) := solve_tableau_loop fuel T basis true opts0 ni in
  tab_inv L nc a T0 obj T' basis' /\ phase2_P L nc a T' basis' /\ (success = true <-> status = 0%nat) /\
  (status = 0%nat -> forall j, (j < a)%nat -> get T' L j <= 0).
Proof.
  intros Hnc Hinv HP.
  pose proof (solve_tableau_ind L nc a T0 obj true (phase2_P L nc a)) as H.
  assert (Hstep : forall (T : matQ) (basis : list nat) (c r : nat),
     tab_inv L nc a T0 obj T basis -> phase2_P L nc a T basis -> (r < L)%nat ->
     (c < nc - 1 - (if true then L else 0))%nat -> 0 < get T r c -> 0 < get T L c ->
     (forall k : nat, (k < L)%nat -> 0 < get T k c -> ratio T c (nc - 1) r <= ratio T c (nc - 1) k) ->
     phase2_P L nc a (pivoting T c r) (set_nth basis r c)).
  { intros T1 b1 c r Hi1 HP1 Hr Hc Hp _ Hmin. eapply phase2_step; eauto. cbv iota in Hc. lia. }
  specialize (H Hstep fuel T basis ni Hinv HP).
  destruct (solve_tableau_loop fuel T basis true opts0 ni) as [[[[T' b'] su] st] n'].
  destruct H as (H1 & H2 & H3 & H4). split; [auto|split; [auto|split; [auto|]]].
  intros Hs j Hj. apply H4; auto. cbv iota. lia.
Qed.

(* Phase 1 (skip_aux = false) *)
Lemma phase1_spec L nc a T0 obj fuel T basis ni :
  tab_inv L nc a T0 obj T basis -> rhs_nonneg L nc T ->
  let '(T', basis', success, status, _) := solve_tableau_loop fuel T basis false opts0 ni in
  tab_inv L nc a T0 obj T' basis' /\ rhs_nonneg L nc T' /\ (success = true <-> status = 0%nat).
Proof.
  intros Hinv HP.
  pose proof (solve_tableau_ind L nc a T0 obj false (fun T _ => rhs_nonneg L nc T)) as H.
  assert (Hstep : forall (T : matQ) (basis : list nat) (c r : nat),
     tab_inv L nc a T0 obj T basis -> rhs_nonneg L nc T -> (r < L)%nat ->
     (c < nc - 1 - (if false then L else 0))%nat -> 0 < get T r c -> 0 < get T L c ->
     (forall k : nat, (k < L)%nat -> 0 < get T k c -> ratio T c (nc - 1) r <= ratio T c (nc - 1) k) ->
     rhs_nonneg L nc (pivoting T c r)).
  { intros T1 b1 c r Hi1 HP1 Hr Hc Hp _ Hmin i Hi.
    apply (pivoting_rhs_nonneg (S L) nc L); auto.
    - apply (ti_wf _ _ _ _ _ _ _ Hi1).
    - apply (ti_nc _ _ _ _ _ _ _ Hi1). }
  specialize (H Hstep fuel T basis ni Hinv HP).
  destruct (solve_tableau_loop fuel T basis false opts0 ni) as [[[[T' b'] su] st] n']. tauto.
Qed.

(* C04: tie lemma for _initialize_tableau of quantecon/optimize/linprog_simplex.py as REGENERATED from /repo's current
   source (Gen/Kernels2.v) against C04/Model.v (initialize_tableau), for every Num instance:
     gen_initialize_tableau A_ub b_ub A_eq b_eq tableau basis = ((init tableau, zs (init basis)), true)
   for any (junk) initial contents of a tableau of shape (L+1) x (n+m+L+1) and a basis array of length L.
   The proof is row-wise: every loop over i rewrites row i (or m+i) only, the last two loops only the criterion row. *)
From Coq Require Import ZArith List Bool Arith Lia.
From QE Require Import Base.Num Base.Pivot Gen.Kernels Gen.Kernels2 Base.PivotTie C04.Model C04.TieGen.
Import ListNotations.

Section Tie.
Context {T : Type} {NT : Num T}.
Notation mat := (list (list T)).

(* rows s+i, i in `is`, each rewritten by G i *)
Definition rows_upd (s : nat) (G : nat -> list T -> list T) (is : list nat) (M : mat) : mat :=
  fold_left (fun M i => upd_nth M (s + i) (G i (nth (s + i) M []))) is M.
Lemma rows_upd_cons s G i is M :
  rows_upd s G (i :: is) M = rows_upd s G is (upd_nth M (s + i) (G i (nth (s + i) M []))).
Proof. reflexivity. Qed.
Lemma rows_upd_length s G : forall is M, length (rows_upd s G is M) = length M.
Proof. induction is as [|i is IH]; intros M; [reflexivity|]. rewrite rows_upd_cons, IH. apply upd_nth_length. Qed.
Lemma rows_upd_nth s G : forall f i0 (M : mat) r, (s + i0 + f <= length M)%nat ->
  nth r (rows_upd s G (seq i0 f) M) [] =
    if Nat.leb (s + i0) r && Nat.ltb r (s + i0 + f) then G (r - s)%nat (nth r M []) else nth r M [].
Proof.
  induction f as [|f IH]; intros i0 M r Hl; cbn [seq]; [cbn [rows_upd fold_left]|rewrite rows_upd_cons].
  - destruct (Nat.leb (s + i0) r) eqn:E; cbn [andb]; [|reflexivity]. apply Nat.leb_le in E.
    replace (Nat.ltb r (s + i0 + 0)) with false by (symmetry; apply Nat.ltb_ge; lia). reflexivity.
  - rewrite IH by (rewrite upd_nth_length; lia).
    destruct (Nat.eq_dec r (s + i0)) as [->|Hne].
    + replace (Nat.leb (s + S i0) (s + i0)) with false by (symmetry; apply Nat.leb_gt; lia). cbn [andb].
      rewrite Nat.leb_refl. replace (Nat.ltb (s + i0) (s + i0 + S f)) with true by (symmetry; apply Nat.ltb_lt; lia).
      cbn [andb]. rewrite nth_upd_nth_eq by lia. f_equal. lia.
    + rewrite nth_upd_nth_neq by exact Hne.
      assert (E : Nat.leb (s + S i0) r && Nat.ltb r (s + S i0 + f) = Nat.leb (s + i0) r && Nat.ltb r (s + i0 + S f)).
      { destruct (Nat.leb (s + S i0) r) eqn:A, (Nat.ltb r (s + S i0 + f)) eqn:B, (Nat.leb (s + i0) r) eqn:C,
                 (Nat.ltb r (s + i0 + S f)) eqn:D; try reflexivity; exfalso;
          repeat match goal with
                 | H : Nat.leb _ _ = true |- _ => apply Nat.leb_le in H
                 | H : Nat.leb _ _ = false |- _ => apply Nat.leb_gt in H
                 | H : Nat.ltb _ _ = true |- _ => apply Nat.ltb_lt in H
                 | H : Nat.ltb _ _ = false |- _ => apply Nat.ltb_ge in H
                 end; lia. }
      rewrite E. reflexivity.
Qed.
Lemma rows_upd_rect s G nr nc : (forall i row, length row = nc -> length (G i row) = nc) ->
  forall is M, rect nr nc M -> rect nr nc (rows_upd s G is M).
Proof.
  intros HG. induction is as [|i is IH]; intros M HM; [exact HM|]. rewrite rows_upd_cons. apply IH.
  destruct (Nat.lt_ge_cases (s + i) nr) as [Hi|Hi].
  - apply rect_upd_row; [exact HM|]. apply HG, HM, Hi.
  - destruct HM as [Hl Hr]. replace (upd_nth M (s + i) (G i (nth (s + i) M []))) with M; [split; assumption|].
    clear - Hl Hi. revert Hi. rewrite <- Hl. generalize (s + i)%nat (G i (nth (s + i) M [])). clear.
    induction M as [|x M IH]; intros [|k] v Hk; cbn in *; try reflexivity; try lia. f_equal. apply IH. lia.
Qed.

(* accesses to the row that is being rewritten: the tableau is kept in the form upd_nth Tb i row *)
Section Focus.
Variables (Tb : mat) (i : nat) (row : list T).
Hypothesis Hi : (i < length Tb)%nat.
Lemma F_row : nth i (upd_nth Tb i row) [] = row. Proof. apply nth_upd_nth_eq, Hi. Qed.
Lemma F_get j : get2 (upd_nth Tb i row) (Z.of_nat i) (Z.of_nat j) = nth j row nzero.
Proof. rewrite get2_nat. unfold get. rewrite F_row. reflexivity. Qed.
Lemma F_get_m1 : (0 < length row)%nat -> get2 (upd_nth Tb i row) (Z.of_nat i) (-1) = nth (length row - 1) row nzero.
Proof. intro Hl. rewrite get2_m1 by (rewrite F_row; exact Hl). unfold get. rewrite F_row. reflexivity. Qed.
Lemma F_set j v : set2 (upd_nth Tb i row) (Z.of_nat i) (Z.of_nat j) v = upd_nth Tb i (upd_nth row j v).
Proof. rewrite set2_nat, F_row, upd_nth_twice. reflexivity. Qed.
Lemma F_set_m1 v : (0 < length row)%nat ->
  set2 (upd_nth Tb i row) (Z.of_nat i) (-1) v = upd_nth Tb i (upd_nth row (length row - 1) v).
Proof.
  intro Hl. unfold set2. rewrite row2_nat, widx_nat, F_row, widx_m1, !Nat2Z.id, upd_nth_twice by exact Hl. reflexivity.
Qed.
Lemma F_inb j : (j < length row)%nat -> inb2 (Z.of_nat i) (Z.of_nat j) (upd_nth Tb i row) = true.
Proof. intro Hj. apply inb2_nat; [rewrite upd_nth_length; exact Hi|rewrite F_row; exact Hj]. Qed.
Lemma F_inb_m1 : (0 < length row)%nat -> inb2 (Z.of_nat i) (-1) (upd_nth Tb i row) = true.
Proof. intro Hl. apply inb2_m1; [rewrite upd_nth_length; exact Hi|rewrite F_row; exact Hl]. Qed.
End Focus.

Section Init.
Variables (n m k : nat) (A_ub A_eq : mat) (b_ub b_eq : list T).
Hypothesis HAub : rect m n A_ub.
Hypothesis HAeq : rect k n A_eq.
Hypothesis Hbub : length b_ub = m.
Hypothesis Hbeq : length b_eq = k.
Let L := (m + k)%nat.
Let nc := (n + m + L + 1)%nat.
Notation mone := (nsub nzero none_).

Definition G1 (i : nat) (row : list T) : list T := row_loop (fun j _ => get A_ub i j) n 0 row.
Definition G3 (i : nat) (row : list T) : list T := row_loop (fun j _ => get A_eq i j) n 0 row.

Lemma init_loop1_tie i : (i < m)%nat -> forall f j (Tb : mat) ok, rect (S L) nc Tb -> (j + f <= n)%nat ->
  gen_initialize_tableau_loop1 f (Z.of_nat j) Tb ok A_ub (Z.of_nat i) =
    (upd_nth Tb i (row_loop (fun j _ => get A_ub i j) f j (nth i Tb [])), ok).
Proof.
  intros Hi. induction f as [|f IH]; intros j Tb ok HT Hj; cbn [gen_initialize_tableau_loop1 row_loop].
  - rewrite upd_nth_same. reflexivity.
  - destruct HT as [Hl Hr]. destruct HAub as [Hal Har].
    rewrite !inb2_nat by (rewrite ?Hr, ?Har; unfold L, nc in *; lia). rewrite !andb_true_r, set2_nat, get2_nat.
    replace (Z.of_nat j + 1)%Z with (Z.of_nat (S j)) by lia.
    rewrite IH; [|apply rect_upd_row; [split; assumption|rewrite upd_nth_length; apply Hr; unfold L; lia]|lia].
    rewrite nth_upd_nth_eq by (unfold L in *; lia). rewrite upd_nth_twice. reflexivity.
Qed.
Lemma init_loop0_tie : forall f i0 (Tb : mat) ok, rect (S L) nc Tb -> (i0 + f <= m)%nat ->
  gen_initialize_tableau_loop0 f (Z.of_nat i0) Tb ok A_ub (Z.of_nat n) = (rows_upd 0 G1 (seq i0 f) Tb, ok).
Proof.
  induction f as [|f IH]; intros i0 Tb ok HT Hi; cbn [gen_initialize_tableau_loop0 seq]; [reflexivity|].
  rewrite rows_upd_cons. replace (Z.to_nat (Z.of_nat n - 0)) with n by lia.
  pose proof (init_loop1_tie i0 ltac:(lia) n 0 Tb ok HT ltac:(lia)) as E. change (Z.of_nat 0) with 0%Z in E. rewrite E. clear E.
  replace (Z.of_nat i0 + 1)%Z with (Z.of_nat (S i0)) by lia. cbn [Nat.add]. fold (G1 i0 (nth i0 Tb [])).
  apply IH; [|lia]. apply rect_upd_row; [exact HT|]. unfold G1. rewrite row_loop_length. apply HT. unfold L. lia.
Qed.

Lemma init_loop3_tie i : (i < k)%nat -> forall f j (Tb : mat) ok, rect (S L) nc Tb -> (j + f <= n)%nat ->
  gen_initialize_tableau_loop3 f (Z.of_nat j) Tb ok A_eq (Z.of_nat m) (Z.of_nat i) =
    (upd_nth Tb (m + i) (row_loop (fun j _ => get A_eq i j) f j (nth (m + i) Tb [])), ok).
Proof.
  intros Hi. induction f as [|f IH]; intros j Tb ok HT Hj; cbn [gen_initialize_tableau_loop3 row_loop].
  - rewrite upd_nth_same. reflexivity.
  - destruct HT as [Hl Hr]. destruct HAeq as [Hal Har]. rewrite <- Nat2Z.inj_add.
    rewrite !inb2_nat by (rewrite ?Hr, ?Har; unfold L, nc in *; lia). rewrite !andb_true_r, set2_nat, get2_nat.
    replace (Z.of_nat j + 1)%Z with (Z.of_nat (S j)) by lia.
    rewrite IH; [|apply rect_upd_row; [split; assumption|rewrite upd_nth_length; apply Hr; unfold L; lia]|lia].
    rewrite nth_upd_nth_eq by (unfold L in *; lia). rewrite upd_nth_twice. reflexivity.
Qed.
Lemma init_loop2_tie : forall f i0 (Tb : mat) ok, rect (S L) nc Tb -> (i0 + f <= k)%nat ->
  gen_initialize_tableau_loop2 f (Z.of_nat i0) Tb ok A_eq (Z.of_nat m) (Z.of_nat n) = (rows_upd m G3 (seq i0 f) Tb, ok).
Proof.
  induction f as [|f IH]; intros i0 Tb ok HT Hi; cbn [gen_initialize_tableau_loop2 seq]; [reflexivity|].
  rewrite rows_upd_cons. replace (Z.to_nat (Z.of_nat n - 0)) with n by lia.
  pose proof (init_loop3_tie i0 ltac:(lia) n 0 Tb ok HT ltac:(lia)) as E. change (Z.of_nat 0) with 0%Z in E. rewrite E. clear E.
  replace (Z.of_nat i0 + 1)%Z with (Z.of_nat (S i0)) by lia. fold (G3 i0 (nth (m + i0) Tb [])).
  apply IH; [|lia]. apply rect_upd_row; [exact HT|]. unfold G3. rewrite row_loop_length. apply HT. unfold L. lia.
Qed.

(* sign flips of the first n entries of a row *)
Lemma init_loop5_tie i : (i < S L)%nat -> forall f j (Tb : mat) ok, rect (S L) nc Tb -> (j + f <= nc)%nat ->
  gen_initialize_tableau_loop5 f (Z.of_nat j) Tb ok (Z.of_nat i) =
    (upd_nth Tb i (row_loop (fun _ x => nmul x mone) f j (nth i Tb [])), ok).
Proof.
  intros Hi. induction f as [|f IH]; intros j Tb ok HT Hj; cbn [gen_initialize_tableau_loop5 row_loop].
  - rewrite upd_nth_same. reflexivity.
  - destruct HT as [Hl Hr].
    rewrite !inb2_nat by (rewrite ?Hr; lia). rewrite !andb_true_r, set2_nat, get2_nat.
    replace (Z.of_nat j + 1)%Z with (Z.of_nat (S j)) by lia.
    rewrite IH; [|apply rect_upd_row; [split; assumption|rewrite upd_nth_length; apply Hr; lia]|lia].
    rewrite nth_upd_nth_eq by lia. rewrite upd_nth_twice. unfold get. reflexivity.
Qed.
Lemma init_loop7_tie i : (m + i < S L)%nat -> forall f j (Tb : mat) ok, rect (S L) nc Tb -> (j + f <= nc)%nat ->
  gen_initialize_tableau_loop7 f (Z.of_nat j) Tb ok (Z.of_nat m) (Z.of_nat i) =
    (upd_nth Tb (m + i) (row_loop (fun _ x => nmul x mone) f j (nth (m + i) Tb [])), ok).
Proof.
  intros Hi. induction f as [|f IH]; intros j Tb ok HT Hj; cbn [gen_initialize_tableau_loop7 row_loop].
  - rewrite upd_nth_same. reflexivity.
  - destruct HT as [Hl Hr]. rewrite <- Nat2Z.inj_add.
    rewrite !inb2_nat by (rewrite ?Hr; lia). rewrite !andb_true_r, set2_nat, get2_nat.
    replace (Z.of_nat j + 1)%Z with (Z.of_nat (S j)) by lia.
    rewrite IH; [|apply rect_upd_row; [split; assumption|rewrite upd_nth_length; apply Hr; lia]|lia].
    rewrite nth_upd_nth_eq by lia. rewrite upd_nth_twice. unfold get. reflexivity.
Qed.

Definition G4 (i : nat) (row : list T) : list T :=
  let b := vget b_ub i in
  let row1 := upd_nth row (nc - 1) b in
  let row2 := if nltb b nzero
              then upd_nth (upd_nth (row_loop (fun _ x => nmul x mone) n 0 row1) (n + i) mone) (nc - 1) (nmul b mone)
              else upd_nth row1 (n + i) none_ in
  upd_nth row2 (n + m + i) none_.
Definition G6 (i : nat) (row : list T) : list T :=
  let b := vget b_eq i in
  let row1 := upd_nth row (nc - 1) b in
  let row2 := if nltb b nzero
              then upd_nth (row_loop (fun _ x => nmul x mone) n 0 row1) (nc - 1) (nmul b mone)
              else row1 in
  upd_nth row2 (n + m + m + i) none_.
Lemma G4_length i row : length (G4 i row) = length row.
Proof. unfold G4. cbv zeta. destruct (nltb _ _); rewrite ?upd_nth_length, ?row_loop_length, ?upd_nth_length; reflexivity. Qed.
Lemma G6_length i row : length (G6 i row) = length row.
Proof. unfold G6. cbv zeta. destruct (nltb _ _); rewrite ?upd_nth_length, ?row_loop_length, ?upd_nth_length; reflexivity. Qed.

Lemma init_loop4_tie : forall f i0 (Tb : mat) ok, rect (S L) nc Tb -> (i0 + f <= m)%nat ->
  gen_initialize_tableau_loop4 f (Z.of_nat i0) Tb ok b_ub (Z.of_nat m) (Z.of_nat n) = (rows_upd 0 G4 (seq i0 f) Tb, ok).
Proof.
  induction f as [|f IH]; intros i0 Tb ok HT Hi; cbn [gen_initialize_tableau_loop4 seq]; [reflexivity|].
  rewrite rows_upd_cons. cbn [Nat.add]. destruct HT as [Hl Hr].
  assert (Hi0 : (i0 < length Tb)%nat) by (unfold L in *; lia).
  assert (Hrow : length (nth i0 Tb []) = nc) by (apply Hr; unfold L; lia).
  set (row := nth i0 Tb []) in *. set (b := vget b_ub i0).
  change (- (1))%Z with (-1)%Z. rewrite Nat2Z.id. fold (vget b_ub i0). fold b.
  assert (E1 : set2 Tb (Z.of_nat i0) (-1) b = upd_nth Tb i0 (upd_nth row (nc - 1) b)).
  { rewrite <- (upd_nth_same Tb i0) at 1. fold row. rewrite F_set_m1 by (try exact Hi0; rewrite Hrow; unfold nc; lia).
    rewrite Hrow. reflexivity. }
  rewrite E1. clear E1. rewrite inb_nat by lia. rewrite (inb2_m1 Tb i0) by (try exact Hi0; fold row; rewrite Hrow; unfold nc; lia).
  set (row1 := upd_nth row (nc - 1) b).
  assert (Hrow1 : length row1 = nc) by (unfold row1; rewrite upd_nth_length; exact Hrow).
  rewrite F_inb_m1, F_get_m1 by (try exact Hi0; rewrite Hrow1; unfold nc; lia).
  assert (Hb1 : nth (nc - 1) row1 nzero = b) by (unfold row1; apply nth_upd_nth_eq; rewrite Hrow; unfold nc; lia).
  rewrite Hrow1, Hb1, !andb_true_r.
  replace (Z.of_nat i0 + 1)%Z with (Z.of_nat (S i0)) by lia.
  rewrite <- !Nat2Z.inj_add.
  assert (Hfin : forall row2 ok', length row2 = nc -> G4 i0 row = upd_nth row2 (n + m + i0) none_ ->
     gen_initialize_tableau_loop4 f (Z.of_nat (S i0))
       (set2 (upd_nth Tb i0 row2) (Z.of_nat i0) (Z.of_nat (n + m + i0)) none_)
       (ok' && inb2 (Z.of_nat i0) (Z.of_nat (n + m + i0)) (upd_nth Tb i0 row2)) b_ub (Z.of_nat m) (Z.of_nat n)
     = (rows_upd 0 G4 (seq (S i0) f) (upd_nth Tb i0 (G4 i0 row)), ok')).
  { intros row2 ok' Hl2 EG. rewrite F_inb, F_set by (try exact Hi0; rewrite Hl2; unfold nc, L; lia).
    rewrite andb_true_r, <- EG. apply IH; [|lia]. apply rect_upd_row; [split; assumption|]. rewrite G4_length. exact Hrow. }
  destruct (nltb b nzero) eqn:Eb; cbv beta iota zeta.
  - replace (Z.to_nat (Z.of_nat n - 0)) with n by lia.
    pose proof (init_loop5_tie i0 ltac:(unfold L in *; lia) n 0 (upd_nth Tb i0 row1) ok
                  (rect_upd_row _ _ _ _ _ (conj Hl Hr) Hrow1) ltac:(unfold nc; lia)) as E5.
    change (Z.of_nat 0) with 0%Z in E5. rewrite E5. clear E5. rewrite F_row, upd_nth_twice by exact Hi0.
    set (rowf := row_loop (fun _ x => nmul x mone) n 0 row1).
    assert (Hrowf : length rowf = nc) by (unfold rowf; rewrite row_loop_length; exact Hrow1).
    rewrite F_inb, F_set by (try exact Hi0; rewrite Hrowf; unfold nc, L; lia).
    set (rowg := upd_nth rowf (n + i0) mone).
    assert (Hrowg : length rowg = nc) by (unfold rowg; rewrite upd_nth_length; exact Hrowf).
    rewrite F_inb_m1, F_get_m1, F_set_m1 by (try exact Hi0; rewrite Hrowg; unfold nc; lia). rewrite Hrowg.
    assert (Hlast : nth (nc - 1) rowg nzero = b).
    { unfold rowg. rewrite nth_upd_nth_neq by (unfold nc, L in *; lia). unfold rowf.
      rewrite nth_row_loop by (rewrite Hrow1; unfold nc; lia). cbn [Nat.leb andb Nat.add].
      replace (Nat.ltb (nc - 1) n) with false by (symmetry; apply Nat.ltb_ge; unfold nc; lia).
      unfold row1. apply nth_upd_nth_eq. rewrite Hrow. unfold nc. lia. }
    rewrite Hlast, !andb_true_r. apply Hfin; [rewrite upd_nth_length; exact Hrowg|].
    unfold G4. cbv zeta. fold b. rewrite Eb. reflexivity.
  - rewrite F_inb, F_set by (try exact Hi0; rewrite Hrow1; unfold nc, L; lia). rewrite !andb_true_r.
    apply Hfin; [rewrite upd_nth_length; exact Hrow1|]. unfold G4. cbv zeta. fold b. rewrite Eb. reflexivity.
Qed.

Lemma init_loop6_tie : forall f i0 (Tb : mat) ok, rect (S L) nc Tb -> (i0 + f <= k)%nat ->
  gen_initialize_tableau_loop6 f (Z.of_nat i0) Tb ok b_eq (Z.of_nat m) (Z.of_nat n) = (rows_upd m G6 (seq i0 f) Tb, ok).
Proof.
  induction f as [|f IH]; intros i0 Tb ok HT Hi; cbn [gen_initialize_tableau_loop6 seq]; [reflexivity|].
  rewrite rows_upd_cons. destruct HT as [Hl Hr].
  assert (Hi0 : (m + i0 < length Tb)%nat) by (unfold L in *; lia).
  assert (Hrow : length (nth (m + i0) Tb []) = nc) by (apply Hr; unfold L; lia).
  set (row := nth (m + i0) Tb []) in *. set (b := vget b_eq i0).
  change (- (1))%Z with (-1)%Z. rewrite Nat2Z.id. fold (vget b_eq i0). fold b. rewrite <- !Nat2Z.inj_add.
  assert (E1 : set2 Tb (Z.of_nat (m + i0)) (-1) b = upd_nth Tb (m + i0) (upd_nth row (nc - 1) b)).
  { rewrite <- (upd_nth_same Tb (m + i0)) at 1. fold row. rewrite F_set_m1 by (try exact Hi0; rewrite Hrow; unfold nc; lia).
    rewrite Hrow. reflexivity. }
  rewrite E1. clear E1. rewrite inb_nat by lia.
  rewrite (inb2_m1 Tb (m + i0)) by (try exact Hi0; fold row; rewrite Hrow; unfold nc; lia).
  set (row1 := upd_nth row (nc - 1) b).
  assert (Hrow1 : length row1 = nc) by (unfold row1; rewrite upd_nth_length; exact Hrow).
  rewrite F_inb_m1, F_get_m1 by (try exact Hi0; rewrite Hrow1; unfold nc; lia).
  assert (Hb1 : nth (nc - 1) row1 nzero = b) by (unfold row1; apply nth_upd_nth_eq; rewrite Hrow; unfold nc; lia).
  rewrite Hrow1, Hb1, !andb_true_r.
  replace (Z.of_nat i0 + 1)%Z with (Z.of_nat (S i0)) by lia.
  assert (Hfin : forall row2 ok', length row2 = nc -> G6 i0 row = upd_nth row2 (n + m + m + i0) none_ ->
     gen_initialize_tableau_loop6 f (Z.of_nat (S i0))
       (set2 (upd_nth Tb (m + i0) row2) (Z.of_nat (m + i0)) (Z.of_nat (n + m + m + i0)) none_)
       (ok' && inb2 (Z.of_nat (m + i0)) (Z.of_nat (n + m + m + i0)) (upd_nth Tb (m + i0) row2)) b_eq (Z.of_nat m) (Z.of_nat n)
     = (rows_upd m G6 (seq (S i0) f) (upd_nth Tb (m + i0) (G6 i0 row)), ok')).
  { intros row2 ok' Hl2 EG. rewrite F_inb, F_set by (try exact Hi0; rewrite Hl2; unfold nc, L; lia).
    rewrite andb_true_r, <- EG. apply IH; [|lia]. apply rect_upd_row; [split; assumption|]. rewrite G6_length. exact Hrow. }
  destruct (nltb b nzero) eqn:Eb; cbv beta iota zeta.
  - replace (Z.to_nat (Z.of_nat n - 0)) with n by lia.
    pose proof (init_loop7_tie i0 ltac:(unfold L in *; lia) n 0 (upd_nth Tb (m + i0) row1) ok
                  (rect_upd_row _ _ _ _ _ (conj Hl Hr) Hrow1) ltac:(unfold nc; lia)) as E7.
    change (Z.of_nat 0) with 0%Z in E7. rewrite E7. clear E7. rewrite F_row, upd_nth_twice by exact Hi0.
    set (rowf := row_loop (fun _ x => nmul x mone) n 0 row1).
    assert (Hrowf : length rowf = nc) by (unfold rowf; rewrite row_loop_length; exact Hrow1).
    rewrite F_inb_m1, F_get_m1, F_set_m1 by (try exact Hi0; rewrite Hrowf; unfold nc; lia). rewrite Hrowf.
    assert (Hlast : nth (nc - 1) rowf nzero = b).
    { unfold rowf. rewrite nth_row_loop by (rewrite Hrow1; unfold nc; lia). cbn [Nat.leb andb Nat.add].
      replace (Nat.ltb (nc - 1) n) with false by (symmetry; apply Nat.ltb_ge; unfold nc; lia). exact Hb1. }
    rewrite Hlast, !andb_true_r. apply Hfin; [rewrite upd_nth_length; exact Hrowf|].
    unfold G6. cbv zeta. fold b. rewrite Eb. reflexivity.
  - apply Hfin; [exact Hrow1|]. unfold G6. cbv zeta. fold b. rewrite Eb. reflexivity.
Qed.

(* ---------------- criterion row: sums of the rows above it *)
Lemma init_loop9_tie i : (i < L)%nat -> forall f j (Tb : mat) ok, rect (S L) nc Tb -> (j + f <= nc)%nat ->
  gen_initialize_tableau_loop9 f (Z.of_nat j) Tb ok (Z.of_nat i) =
    (upd_nth Tb L (row_loop (fun j x => nadd x (nth j (nth i Tb []) nzero)) f j (nth L Tb [])), ok).
Proof.
  intros Hi. induction f as [|f IH]; intros j Tb ok HT Hj; cbn [gen_initialize_tableau_loop9 row_loop].
  - rewrite upd_nth_same. reflexivity.
  - destruct HT as [Hl Hr]. change (- (1))%Z with (-1)%Z.
    rewrite inb2_nat, inb2_m1row by (rewrite ?Hl; cbn [Nat.sub]; rewrite ?Nat.sub_0_r, ?Hr; lia).
    rewrite !andb_true_r, set2_m1row, get2_m1row, get2_nat by lia. rewrite Hl. cbn [Nat.sub]. rewrite Nat.sub_0_r.
    replace (Z.of_nat j + 1)%Z with (Z.of_nat (S j)) by lia.
    rewrite IH; [|apply rect_upd_row; [split; assumption|rewrite upd_nth_length; apply Hr; lia]|lia].
    rewrite nth_upd_nth_eq by lia. rewrite nth_upd_nth_neq by lia. rewrite upd_nth_twice. unfold get. reflexivity.
Qed.

Definition cstep (Tb0 : mat) (crit : list T) (i : nat) : list T :=
  upd_nth (row_loop (fun j x => nadd x (get Tb0 i j)) (n + m) 0 crit) (nc - 1)
          (nadd (nth (nc - 1) crit nzero) (get Tb0 i (nc - 1))).

Lemma init_loop8_tie (Tb0 : mat) : rect (S L) nc Tb0 -> forall f i0 crit ok, length crit = nc -> (i0 + f <= L)%nat ->
  gen_initialize_tableau_loop8 f (Z.of_nat i0) (upd_nth Tb0 L crit) ok (Z.of_nat m) (Z.of_nat n) =
    (upd_nth Tb0 L (fold_left (cstep Tb0) (seq i0 f) crit), ok).
Proof.
  intros [Hl Hr]. induction f as [|f IH]; intros i0 crit ok Hcr Hi; cbn [gen_initialize_tableau_loop8 seq fold_left]; [reflexivity|].
  assert (HT : rect (S L) nc (upd_nth Tb0 L crit)) by (apply rect_upd_row; [split; assumption|exact Hcr]).
  change (- (1))%Z with (-1)%Z. rewrite <- Nat2Z.inj_add. replace (Z.to_nat (Z.of_nat (n + m) - 0)) with (n + m)%nat by lia.
  pose proof (init_loop9_tie i0 ltac:(lia) (n + m) 0 (upd_nth Tb0 L crit) ok HT ltac:(unfold nc; lia)) as E9.
  change (Z.of_nat 0) with 0%Z in E9. rewrite E9. clear E9.
  rewrite nth_upd_nth_eq by lia. rewrite nth_upd_nth_neq by lia. rewrite upd_nth_twice.
  set (crit1 := row_loop (fun j x => nadd x (nth j (nth i0 Tb0 []) nzero)) (n + m) 0 crit).
  assert (Hc1 : length crit1 = nc) by (unfold crit1; rewrite row_loop_length; exact Hcr).
  assert (HL : (L < length Tb0)%nat) by lia.
  (* accesses to the last cell *)
  assert (Hlen : length (upd_nth Tb0 L crit1) = S L) by (rewrite upd_nth_length; exact Hl).
  assert (Hrow2 : row2 (upd_nth Tb0 L crit1) (-1) = crit1).
  { rewrite row2_m1, Hlen by (rewrite Hlen; lia). cbn [Nat.sub]. rewrite Nat.sub_0_r. apply nth_upd_nth_eq. lia. }
  assert (Hw1 : widx (-1) (length (upd_nth Tb0 L crit1)) = Z.of_nat L) by (rewrite Hlen, widx_m1 by lia; f_equal; lia).
  assert (Hw2 : widx (-1) (length crit1) = Z.of_nat (nc - 1)) by (rewrite Hc1; apply widx_m1; unfold nc; lia).
  assert (Hg : get2 (upd_nth Tb0 L crit1) (-1) (-1) = nth (nc - 1) crit1 nzero).
  { unfold get2. rewrite Hrow2, Hw2, Nat2Z.id. reflexivity. }
  assert (Hs : forall v, set2 (upd_nth Tb0 L crit1) (-1) (-1) v = upd_nth Tb0 L (upd_nth crit1 (nc - 1) v)).
  { intro v. unfold set2. rewrite Hrow2, Hw1, Hw2, !Nat2Z.id, upd_nth_twice. reflexivity. }
  assert (Hb : inb2 (-1) (-1) (upd_nth Tb0 L crit1) = true).
  { unfold inb2. rewrite Hrow2, Hw1, Hw2, !inb_nat by (rewrite ?Hlen, ?Hc1; unfold nc; lia). reflexivity. }
  assert (Hgi : get2 (upd_nth Tb0 L crit1) (Z.of_nat i0) (-1) = get Tb0 i0 (nc - 1)).
  { rewrite get2_m1 by (rewrite nth_upd_nth_neq, Hr by lia; unfold nc; lia). unfold get.
    rewrite nth_upd_nth_neq, Hr by lia. reflexivity. }
  assert (Hbi : inb2 (Z.of_nat i0) (-1) (upd_nth Tb0 L crit1) = true).
  { apply inb2_m1; [rewrite upd_nth_length; lia|]. rewrite nth_upd_nth_neq, Hr by lia. unfold nc. lia. }
  rewrite Hg, Hs, Hb, Hgi, Hbi, !andb_true_r.
  replace (Z.of_nat i0 + 1)%Z with (Z.of_nat (S i0)) by lia.
  assert (Estep : upd_nth crit1 (nc - 1) (nadd (nth (nc - 1) crit1 nzero) (get Tb0 i0 (nc - 1))) = cstep Tb0 crit i0).
  { unfold cstep, crit1, get. f_equal. f_equal.
    rewrite nth_row_loop by (rewrite Hcr; unfold nc; lia). cbn [Nat.leb andb Nat.add].
    replace (Nat.ltb (nc - 1) (n + m)) with false by (symmetry; apply Nat.ltb_ge; unfold nc; lia). reflexivity. }
  rewrite Estep. apply IH; [|lia]. rewrite <- Estep, upd_nth_length. exact Hc1.
Qed.

Lemma init_loop10_tie : forall f i rest ok, (f <= length rest)%nat ->
  @gen_initialize_tableau_loop10 T NT f (Z.of_nat i) (zs (seq (n + m) i) ++ rest) ok (Z.of_nat m) (Z.of_nat n) =
    (zs (seq (n + m) (i + f)) ++ skipn f rest, ok).
Proof.
  induction f as [|f IH]; intros i rest ok Hf; cbn [gen_initialize_tableau_loop10 skipn].
  - rewrite Nat.add_0_r. reflexivity.
  - destruct rest as [|x rest]; [cbn in Hf; lia|]. cbn [length] in Hf.
    rewrite inb_nat by (rewrite app_length, zs_length, seq_length; cbn; lia). rewrite andb_true_r, Nat2Z.id.
    replace i with (length (zs (seq (n + m) i))) at 3 by (rewrite zs_length, seq_length; reflexivity).
    rewrite upd_nth_mid. rewrite <- !Nat2Z.inj_add.
    replace (zs (seq (n + m) i) ++ Z.of_nat (n + m + i) :: rest) with (zs (seq (n + m) (S i)) ++ rest)
      by (rewrite seq_S, zs_app, <- app_assoc; reflexivity).
    replace (Z.of_nat i + 1)%Z with (Z.of_nat (S i)) by lia.
    rewrite IH by lia. rewrite Nat.add_succ_r. reflexivity.
Qed.

(* ---------------- entries of rows *)
Lemma nth_upd_nth_if {A} (d : A) (l : list A) i kk v : (i < length l)%nat ->
  nth kk (upd_nth l i v) d = if Nat.eqb kk i then v else nth kk l d.
Proof.
  intro Hi. destruct (Nat.eqb kk i) eqn:E.
  - apply Nat.eqb_eq in E. subst kk. apply nth_upd_nth_eq, Hi.
  - apply Nat.eqb_neq in E. apply nth_upd_nth_neq, E.
Qed.
Lemma nth_fill1_mid (row : list T) v j : length row = nc -> (j < nc)%nat ->
  nth j (fill1 row (Sl (Bnd (Z.of_nat n)) (Bnd (-1))) v) nzero =
    if Nat.leb n j && Nat.ltb j (nc - 1) then v else nth j row nzero.
Proof.
  intros Hl Hj. unfold fill1. rewrite nth_mapz_from by lia. rewrite Z.add_0_l. cbn [sel_lo sel_hi bnd_val].
  rewrite Hl, widx_nat, widx_m1 by (unfold nc; lia).
  destruct (Nat.leb n j) eqn:E1, (Nat.ltb j (nc - 1)) eqn:E2; cbn [andb];
    [apply Nat.leb_le in E1; apply Nat.ltb_lt in E2|apply Nat.leb_le in E1; apply Nat.ltb_ge in E2
    |apply Nat.leb_gt in E1; apply Nat.ltb_lt in E2|apply Nat.leb_gt in E1; apply Nat.ltb_ge in E2].
  - replace (Z.min (Z.of_nat nc) (Z.max 0 (Z.of_nat n)) <=? Z.of_nat j)%Z with true by (symmetry; apply Z.leb_le; unfold nc in *; lia).
    replace (Z.of_nat j <? Z.min (Z.of_nat nc) (Z.max 0 (Z.of_nat (nc - 1))))%Z with true by (symmetry; apply Z.ltb_lt; lia). reflexivity.
  - replace (Z.of_nat j <? Z.min (Z.of_nat nc) (Z.max 0 (Z.of_nat (nc - 1))))%Z with false by (symmetry; apply Z.ltb_ge; lia).
    rewrite andb_false_r. reflexivity.
  - replace (Z.min (Z.of_nat nc) (Z.max 0 (Z.of_nat n)) <=? Z.of_nat j)%Z with false by (symmetry; apply Z.leb_gt; unfold nc in *; lia). reflexivity.
  - replace (Z.min (Z.of_nat nc) (Z.max 0 (Z.of_nat n)) <=? Z.of_nat j)%Z with false by (symmetry; apply Z.leb_gt; unfold nc in *; lia). reflexivity.
Qed.
Lemma fill1_length {A} (row : list A) sel v : length (fill1 row sel v) = length row.
Proof. unfold fill1. apply mapz_from_length. Qed.

Lemma fill2_block_rows (Tb : mat) v : rect (S L) nc Tb ->
  rect (S L) nc (fill2 Tb (Sl (Bnd 0) (Bnd (Z.of_nat L))) (Sl (Bnd (Z.of_nat n)) (Bnd (-1))) v) /\
  forall i, (i < S L)%nat ->
    nth i (fill2 Tb (Sl (Bnd 0) (Bnd (Z.of_nat L))) (Sl (Bnd (Z.of_nat n)) (Bnd (-1))) v) [] =
    if Nat.ltb i L then fill1 (nth i Tb []) (Sl (Bnd (Z.of_nat n)) (Bnd (-1))) v else nth i Tb [].
Proof.
  intros [Hl Hr].
  assert (Hrow : forall i, (i < S L)%nat ->
    nth i (fill2 Tb (Sl (Bnd 0) (Bnd (Z.of_nat L))) (Sl (Bnd (Z.of_nat n)) (Bnd (-1))) v) [] =
    if Nat.ltb i L then fill1 (nth i Tb []) (Sl (Bnd (Z.of_nat n)) (Bnd (-1))) v else nth i Tb []).
  { intros i Hi. unfold fill2. rewrite nth_mapz_from by lia. rewrite Z.add_0_l. cbn [sel_lo sel_hi].
    rewrite bnd_val_0, bnd_val_nat by lia.
    replace (0 <=? Z.of_nat i)%Z with true by (symmetry; apply Z.leb_le; lia). cbn [andb]. rewrite Zltb_nat. reflexivity. }
  split; [|exact Hrow]. split; [unfold fill2; rewrite mapz_from_length; exact Hl|].
  intros i Hi. rewrite Hrow by exact Hi. destruct (Nat.ltb i L); [rewrite fill1_length|]; apply Hr, Hi.
Qed.

(* the closed form of row i < L of the model *)
Definition frow (i j : nat) : T :=
  let ub := Nat.ltb i m in
  let b := if ub then vget b_ub i else vget b_eq (i - m) in
  let neg := nltb b nzero in
  if Nat.ltb j n then
    let a := if ub then get A_ub i j else get A_eq (i - m) j in
    if neg then nmul a mone else a
  else if Nat.ltb j (n + m) then
    if ub && Nat.eqb (j - n) i then (if neg then mone else none_) else nzero
  else if Nat.ltb j (n + m + L) then
    if Nat.eqb (j - (n + m)) i then none_ else nzero
  else (if neg then nmul b mone else b).

Ltac boolcases :=
  repeat match goal with
         | |- context [Nat.eqb ?a ?b] => let E := fresh "E" in destruct (Nat.eqb a b) eqn:E;
               [apply Nat.eqb_eq in E|apply Nat.eqb_neq in E]
         | |- context [Nat.ltb ?a ?b] => let E := fresh "E" in destruct (Nat.ltb a b) eqn:E;
               [apply Nat.ltb_lt in E|apply Nat.ltb_ge in E]
         | |- context [Nat.leb ?a ?b] => let E := fresh "E" in destruct (Nat.leb a b) eqn:E;
               [apply Nat.leb_le in E|apply Nat.leb_gt in E]
         end; cbn [andb orb]; try reflexivity; try (exfalso; unfold nc, L in *; lia).

Lemma row_ub_entry i (row0 : list T) j : (i < m)%nat -> length row0 = nc -> (j < nc)%nat ->
  nth j (G4 i (fill1 (G1 i row0) (Sl (Bnd (Z.of_nat n)) (Bnd (-1))) nzero)) nzero = frow i j.
Proof.
  intros Hi Hl Hj.
  assert (H1 : length (G1 i row0) = nc) by (unfold G1; rewrite row_loop_length; exact Hl).
  set (r := fill1 (G1 i row0) (Sl (Bnd (Z.of_nat n)) (Bnd (-1))) nzero).
  assert (Hr : length r = nc) by (unfold r; rewrite fill1_length; exact H1).
  assert (Hrj : forall j', (j' < nc)%nat -> nth j' r nzero =
            if Nat.leb n j' && Nat.ltb j' (nc - 1) then nzero
            else if Nat.ltb j' n then get A_ub i j' else nth j' row0 nzero).
  { intros j' Hj'. unfold r. rewrite nth_fill1_mid by assumption. unfold G1.
    rewrite nth_row_loop by (rewrite Hl; unfold nc; lia). cbn [Nat.leb andb Nat.add]. reflexivity. }
  unfold G4, frow. cbv zeta. replace (Nat.ltb i m) with true by (symmetry; apply Nat.ltb_lt; exact Hi).
  set (b := vget b_ub i). destruct (nltb b nzero) eqn:Eb.
  - rewrite !nth_upd_nth_if by (rewrite ?upd_nth_length, ?row_loop_length, ?upd_nth_length, Hr; unfold nc, L; lia).
    rewrite nth_row_loop by (rewrite upd_nth_length, Hr; unfold nc; lia). cbn [Nat.leb andb Nat.add].
    rewrite nth_upd_nth_if by (rewrite Hr; unfold nc; lia). rewrite Hrj by exact Hj.
    boolcases.
  - rewrite !nth_upd_nth_if by (rewrite ?upd_nth_length, Hr; unfold nc, L; lia). rewrite Hrj by exact Hj.
    boolcases.
Qed.

Lemma row_eq_entry i (row0 : list T) j : (i < k)%nat -> length row0 = nc -> (j < nc)%nat ->
  nth j (G6 i (fill1 (G3 i row0) (Sl (Bnd (Z.of_nat n)) (Bnd (-1))) nzero)) nzero = frow (m + i) j.
Proof.
  intros Hi Hl Hj.
  assert (H1 : length (G3 i row0) = nc) by (unfold G3; rewrite row_loop_length; exact Hl).
  set (r := fill1 (G3 i row0) (Sl (Bnd (Z.of_nat n)) (Bnd (-1))) nzero).
  assert (Hr : length r = nc) by (unfold r; rewrite fill1_length; exact H1).
  assert (Hrj : forall j', (j' < nc)%nat -> nth j' r nzero =
            if Nat.leb n j' && Nat.ltb j' (nc - 1) then nzero
            else if Nat.ltb j' n then get A_eq i j' else nth j' row0 nzero).
  { intros j' Hj'. unfold r. rewrite nth_fill1_mid by assumption. unfold G3.
    rewrite nth_row_loop by (rewrite Hl; unfold nc; lia). cbn [Nat.leb andb Nat.add]. reflexivity. }
  unfold G6, frow. cbv zeta. replace (Nat.ltb (m + i) m) with false by (symmetry; apply Nat.ltb_ge; lia).
  replace (m + i - m)%nat with i by lia. cbn [andb].
  set (b := vget b_eq i). destruct (nltb b nzero) eqn:Eb.
  - rewrite !nth_upd_nth_if by (rewrite ?upd_nth_length, ?row_loop_length, ?upd_nth_length, Hr; unfold nc, L; lia).
    rewrite nth_row_loop by (rewrite upd_nth_length, Hr; unfold nc; lia). cbn [Nat.leb andb Nat.add].
    rewrite nth_upd_nth_if by (rewrite Hr; unfold nc; lia). rewrite Hrj by exact Hj.
    boolcases.
  - rewrite !nth_upd_nth_if by (rewrite ?upd_nth_length, Hr; unfold nc, L; lia). rewrite Hrj by exact Hj.
    boolcases.
Qed.

(* ---------------- entries of the criterion row *)
Lemma cstep_length Tb0 crit i : length (cstep Tb0 crit i) = length crit.
Proof. unfold cstep. rewrite upd_nth_length, row_loop_length. reflexivity. Qed.
Lemma cfold_entry (Tb0 : mat) j : (j < nc)%nat -> forall is crit, length crit = nc ->
  nth j (fold_left (cstep Tb0) is crit) nzero =
    if Nat.ltb j (n + m) || Nat.eqb j (n + m + L)
    then fold_left (fun acc i => nadd acc (get Tb0 i j)) is (nth j crit nzero)
    else nth j crit nzero.
Proof.
  intros Hj. induction is as [|i is IH]; intros crit Hc; cbn [fold_left].
  - destruct (Nat.ltb j (n + m) || Nat.eqb j (n + m + L)); reflexivity.
  - rewrite IH by (rewrite cstep_length; exact Hc).
    assert (Hstep : nth j (cstep Tb0 crit i) nzero =
              if Nat.ltb j (n + m) || Nat.eqb j (n + m + L) then nadd (nth j crit nzero) (get Tb0 i j) else nth j crit nzero).
    { unfold cstep. rewrite nth_upd_nth_if by (rewrite row_loop_length, Hc; unfold nc; lia).
      rewrite nth_row_loop by (rewrite Hc; unfold nc; lia). cbn [Nat.leb andb Nat.add].
      destruct (Nat.eqb j (nc - 1)) eqn:E1.
      + apply Nat.eqb_eq in E1. subst j.
        replace (Nat.eqb (nc - 1) (n + m + L)) with true by (symmetry; apply Nat.eqb_eq; unfold nc; lia).
        rewrite orb_true_r. reflexivity.
      + apply Nat.eqb_neq in E1.
        replace (Nat.eqb j (n + m + L)) with false by (symmetry; apply Nat.eqb_neq; unfold nc in *; lia).
        rewrite orb_false_r. destruct (Nat.ltb j (n + m)); reflexivity. }
    rewrite Hstep. destruct (Nat.ltb j (n + m) || Nat.eqb j (n + m + L)); reflexivity.
Qed.
Lemma fold_left_map_l {A B C} (f : A -> B -> A) (g : C -> B) : forall l a,
  fold_left f (map g l) a = fold_left (fun a x => f a (g x)) l a.
Proof. induction l as [|x l IH]; intros a; cbn; [reflexivity|]. apply IH. Qed.
Lemma firstn_as_map (M : mat) f : (f <= length M)%nat -> firstn f M = map (fun i => nth i M []) (seq 0 f).
Proof.
  intro Hf. change (map (fun i => nth i M []) (seq 0 f)) with (tabv f (fun i => nth i M [])).
  apply (nth_ext _ _ [] []); [rewrite firstn_length_le, tabv_length by exact Hf; reflexivity|].
  intros i Hi. rewrite firstn_length_le in Hi by exact Hf. rewrite nth_firstn_lt, nth_tabv_lt by exact Hi. reflexivity.
Qed.

Theorem gen_initialize_tableau_tie (Tb : mat) (basis : list Z) : rect (S L) nc Tb -> length basis = L ->
  gen_initialize_tableau A_ub b_ub A_eq b_eq Tb basis =
    ((fst (initialize_tableau n m k A_ub b_ub A_eq b_eq), zs (snd (initialize_tableau n m k A_ub b_ub A_eq b_eq))), true).
Proof.
  intros HT Hb. pose proof HT as [Hl Hr]. unfold gen_initialize_tableau. cbv zeta.
  assert (Em : nrows2 A_ub = Z.of_nat m) by (unfold nrows2; destruct HAub as [-> _]; reflexivity).
  assert (Ek : nrows2 A_eq = Z.of_nat k) by (unfold nrows2; destruct HAeq as [-> _]; reflexivity).
  assert (Enc : ncols2 Tb = Z.of_nat nc) by (unfold ncols2; rewrite Hr by lia; reflexivity).
  rewrite Em, Ek, Enc.
  replace (Z.of_nat nc - (Z.of_nat m + (Z.of_nat m + Z.of_nat k) + 1))%Z with (Z.of_nat n) by (unfold nc, L; lia).
  replace (Z.of_nat m + Z.of_nat k)%Z with (Z.of_nat L) by (unfold L; lia).
  replace (Z.to_nat (Z.of_nat m - 0)) with m by lia. replace (Z.to_nat (Z.of_nat k - 0)) with k by lia.
  replace (Z.to_nat (Z.of_nat L - 0)) with L by lia.
  (* the five passes over the rows above the criterion row *)
  pose proof (init_loop0_tie m 0 Tb true HT ltac:(lia)) as E. change (Z.of_nat 0) with 0%Z in E. rewrite E. clear E.
  set (TA := rows_upd 0 G1 (seq 0 m) Tb).
  assert (HA : rect (S L) nc TA) by (apply rows_upd_rect; [intros; unfold G1; rewrite row_loop_length; assumption|exact HT]).
  pose proof (init_loop2_tie k 0 TA true HA ltac:(lia)) as E. change (Z.of_nat 0) with 0%Z in E. rewrite E. clear E.
  set (TB := rows_upd m G3 (seq 0 k) TA).
  assert (HB : rect (S L) nc TB) by (apply rows_upd_rect; [intros; unfold G3; rewrite row_loop_length; assumption|exact HA]).
  change (- (1))%Z with (-1)%Z.
  destruct (fill2_block_rows TB nzero HB) as [HC RC].
  set (TC := fill2 TB (Sl (Bnd 0) (Bnd (Z.of_nat L))) (Sl (Bnd (Z.of_nat n)) (Bnd (-1))) nzero) in *.
  pose proof (init_loop4_tie m 0 TC true HC ltac:(lia)) as E. change (Z.of_nat 0) with 0%Z in E. rewrite E. clear E.
  set (TD := rows_upd 0 G4 (seq 0 m) TC).
  assert (HD : rect (S L) nc TD) by (apply rows_upd_rect; [intros; rewrite G4_length; assumption|exact HC]).
  pose proof (init_loop6_tie k 0 TD true HD ltac:(lia)) as E. change (Z.of_nat 0) with 0%Z in E. rewrite E. clear E.
  set (TE := rows_upd m G6 (seq 0 k) TD).
  assert (HE : rect (S L) nc TE) by (apply rows_upd_rect; [intros; rewrite G6_length; assumption|exact HD]).
  pose proof HE as [HEl HEr].
  (* criterion row *)
  rewrite HEl, widx_m1 by lia. cbn [Nat.sub]. rewrite Nat.sub_0_r, inb_nat by lia. cbn [andb].
  rewrite (fill2_lastrow_from L nc [] (repeat 0%nat L) (Nat.le_0_l _) (repeat_length _ _) TE 0 nzero HE (Nat.le_0_l _)).
  set (zeros := mapi (fun (j : nat) (x : T) => if Nat.leb 0 j then nzero else x) (nth L TE [])).
  assert (Hz : length zeros = nc) by (unfold zeros, mapi; rewrite mapi_from_length; apply HEr; lia).
  assert (Hzj : forall j, (j < nc)%nat -> nth j zeros nzero = nzero).
  { intros j Hj. unfold zeros, mapi. rewrite (mapi_from_nth _ nzero nzero) by (rewrite HEr; lia). reflexivity. }
  pose proof (init_loop8_tie TE HE L 0 zeros true Hz ltac:(lia)) as E. change (Z.of_nat 0) with 0%Z in E. rewrite E. clear E.
  pose proof (init_loop10_tie L 0 basis true ltac:(lia)) as E. change (zs (seq (n + m) 0) ++ basis) with basis in E.
  change (Z.of_nat 0) with 0%Z in E. rewrite E. clear E. rewrite skipn_all2, app_nil_r by lia. cbn [Nat.add].
  unfold initialize_tableau. cbv zeta. cbn [fst snd]. fold L. f_equal. f_equal.
  (* rows *)
  assert (Hrows : firstn L TE = init_rows n m k A_ub b_ub A_eq b_eq).
  { unfold init_rows. cbv zeta. fold L. fold nc. apply (nth_ext _ _ [] []).
    - rewrite firstn_length_le by lia. unfold tab. rewrite tabv_length. reflexivity.
    - intros i Hi. rewrite firstn_length_le in Hi by lia. rewrite nth_firstn_lt by exact Hi.
      unfold tab. rewrite nth_tabv_lt by exact Hi.
      apply (nth_ext _ _ nzero nzero); [rewrite HEr, tabv_length by lia; reflexivity|].
      intros j Hj. rewrite HEr in Hj by lia. rewrite nth_tabv_lt by exact Hj.
      change (nth j (nth i TE []) nzero = frow i j).
      unfold TE. rewrite rows_upd_nth by (rewrite (proj1 HD); unfold L; lia).
      destruct (Nat.ltb i m) eqn:Eim; [apply Nat.ltb_lt in Eim|apply Nat.ltb_ge in Eim].
      + replace (Nat.leb (m + 0) i && Nat.ltb i (m + 0 + k)) with false
          by (symmetry; apply andb_false_intro1; apply Nat.leb_gt; lia).
        unfold TD. rewrite rows_upd_nth by (rewrite (proj1 HC); unfold L; lia).
        replace (Nat.leb (0 + 0) i && Nat.ltb i (0 + 0 + m)) with true
          by (symmetry; apply andb_true_intro; split; [apply Nat.leb_le|apply Nat.ltb_lt]; lia).
        rewrite Nat.sub_0_r, RC by lia. replace (Nat.ltb i L) with true by (symmetry; apply Nat.ltb_lt; exact Hi).
        unfold TB. rewrite rows_upd_nth by (rewrite (proj1 HA); unfold L; lia).
        replace (Nat.leb (m + 0) i && Nat.ltb i (m + 0 + k)) with false
          by (symmetry; apply andb_false_intro1; apply Nat.leb_gt; lia).
        unfold TA. rewrite rows_upd_nth by (rewrite Hl; unfold L; lia).
        replace (Nat.leb (0 + 0) i && Nat.ltb i (0 + 0 + m)) with true
          by (symmetry; apply andb_true_intro; split; [apply Nat.leb_le|apply Nat.ltb_lt]; lia).
        rewrite Nat.sub_0_r. apply row_ub_entry; [exact Eim|apply Hr; lia|exact Hj].
      + replace (Nat.leb (m + 0) i && Nat.ltb i (m + 0 + k)) with true
          by (symmetry; apply andb_true_intro; split; [apply Nat.leb_le|apply Nat.ltb_lt]; unfold L in *; lia).
        unfold TD. rewrite rows_upd_nth by (rewrite (proj1 HC); unfold L; lia).
        replace (Nat.leb (0 + 0) i && Nat.ltb i (0 + 0 + m)) with false
          by (symmetry; apply andb_false_intro2; apply Nat.ltb_ge; lia).
        rewrite RC by lia. replace (Nat.ltb i L) with true by (symmetry; apply Nat.ltb_lt; exact Hi).
        unfold TB. rewrite rows_upd_nth by (rewrite (proj1 HA); unfold L; lia).
        replace (Nat.leb (m + 0) i && Nat.ltb i (m + 0 + k)) with true
          by (symmetry; apply andb_true_intro; split; [apply Nat.leb_le|apply Nat.ltb_lt]; unfold L in *; lia).
        unfold TA. rewrite rows_upd_nth by (rewrite Hl; unfold L; lia).
        replace (Nat.leb (0 + 0) i && Nat.ltb i (0 + 0 + m)) with false
          by (symmetry; apply andb_false_intro2; apply Nat.ltb_ge; lia).
        replace (frow i j) with (frow (m + (i - m)) j) by (f_equal; lia).
        apply row_eq_entry; [unfold L in *; lia|apply Hr; lia|exact Hj]. }
  rewrite (upd_nth_last TE L _ HEl), Hrows. f_equal. f_equal.
  (* criterion row *)
  unfold init_crit. fold nc. apply (nth_ext _ _ nzero nzero).
  - rewrite tabv_length. clear - Hz. revert Hz. generalize zeros. induction (seq 0 L) as [|i is IH]; intros cr Hc; cbn [fold_left]; [exact Hc|].
    apply IH. rewrite cstep_length. exact Hc.
  - intros j Hj.
    assert (Hj' : (j < nc)%nat).
    { revert Hj. clear - Hz. revert Hz. generalize zeros. induction (seq 0 L) as [|i is IH]; intros cr Hc Hj; cbn [fold_left] in Hj; [lia|].
      apply (IH (cstep TE cr i)); [rewrite cstep_length; exact Hc|exact Hj]. }
    rewrite nth_tabv_lt by exact Hj'. rewrite cfold_entry by assumption. rewrite Hzj by exact Hj'.
    destruct (Nat.ltb j (n + m) || Nat.eqb j (n + m + L)); [|reflexivity].
    rewrite <- Hrows, (firstn_as_map TE L) by lia. rewrite fold_left_map_l. reflexivity.
Qed.
End Init.
End Tie.

(* C04 proofs, part 8 (tolerance 0): the lexicographic test never gives up on a simplex tableau;
   status 3 => a feasible point and an improving feasible ray; Phase 1 never reports status 3. *)
From Coq Require Import ZArith QArith List Bool Arith Lia Lqa Setoid Morphisms.
From QE Require Import Base.Num Base.Pivot Base.PivotProofs C04.Model C04.Proofs C04.Proofs2 C04.Proofs3 C04.Proofs4 C04.Proofs5 C04.Proofs7.
Import ListNotations.
Open Scope Q_scope.

(* the aux block of the current tableau is non-singular: two distinct rows cannot be proportional on it *)
Lemma tab_inv_nonsing L nc a T0 obj T basis c r r' :
  tab_inv L nc a T0 obj T basis -> (r < L)%nat -> (r' < L)%nat -> r <> r' ->
  0 < get T r c -> 0 < get T r' c ->
  ~ (forall j, (a <= j < a + L)%nat -> j <> c -> ratio T c j r == ratio T c j r').
Proof.
  intros Hinv Hr Hr' Hne Hp Hp' Heq.
  set (rho := get T r c / get T r' c).
  assert (Hblk : forall k, (k < L)%nat -> get T r (a + k)%nat == rho * get T r' (a + k)%nat).
  { intros k Hk. unfold rho. destruct (Nat.eq_dec (a + k) c) as [E|E].
    - rewrite E. field. lra.
    - assert (Hrange : (a <= a + k < a + L)%nat) by lia.
      pose proof (Heq (a + k)%nat Hrange E) as H. unfold ratio in H.
      setoid_replace (get T r (a + k)%nat) with (get T r (a + k)%nat / get T r c * get T r c) by (field; lra).
      rewrite H. field. lra. }
  pose proof (ti_rows _ _ _ _ _ _ _ Hinv r Hr) as Rr. pose proof (ti_rows _ _ _ _ _ _ _ Hinv r' Hr') as Rr'.
  pose proof (ti_bas _ _ _ _ _ _ _ Hinv r Hr) as Hb.
  assert (Hj : (nth r basis 0 < nc)%nat) by lia.
  pose proof (Rr _ Hj) as E1. pose proof (Rr' _ Hj) as E2. unfold rowf in E1, E2.
  rewrite (ti_unit _ _ _ _ _ _ _ Hinv r r Hr ltac:(lia)) in E1. rewrite Nat.eqb_refl in E1.
  rewrite (ti_unit _ _ _ _ _ _ _ Hinv r r' Hr ltac:(lia)) in E2. destruct (Nat.eqb_spec r' r); [congruence|].
  rewrite (sumQ_ext L _ (fun k => rho * ((get T r' (a + k)%nat - 0) * get T0 k (nth r basis 0%nat)))) in E1.
  2:{ intros k Hk. rewrite (Hblk k Hk). ring. }
  rewrite sumQ_scale in E1.
  set (S := sumQ L (fun k => (get T r' (a + k)%nat - 0) * get T0 k (nth r basis 0%nat))) in *.
  assert (ES : S == 0) by lra. rewrite ES in E1. lra.
Qed.

(* induction principle with the information available at status 3 *)
Theorem solve_tableau_ind3 L nc a T0 obj (skip : bool) (P : matQ -> list nat -> Prop) :
  (a + L = nc - 1)%nat ->
  (forall T basis c r,
      tab_inv L nc a T0 obj T basis -> P T basis ->
      (r < L)%nat -> (c < nc - 1 - (if skip then L else 0))%nat ->
      0 < get T r c -> 0 < get T L c ->
      (forall k, (k < L)%nat -> 0 < get T k c -> ratio T c (nc - 1) r <= ratio T c (nc - 1) k) ->
      P (pivoting T c r) (set_nth basis r c)) ->
  forall fuel T basis ni,
    tab_inv L nc a T0 obj T basis -> P T basis ->
    let '(T', basis', success, status, _) := solve_tableau_loop fuel T basis skip opts0 ni in
    tab_inv L nc a T0 obj T' basis' /\ P T' basis' /\
    (status = 3%nat -> exists c, (c < nc - 1 - (if skip then L else 0))%nat /\ 0 < get T' L c /\
                                 forall k, (k < L)%nat -> get T' k c <= 0).
Proof.
  intros Hanc Hstep. induction fuel as [|f IH]; intros T basis ni Hinv HP; cbn [solve_tableau_loop].
  { split; [auto|split; [auto|discriminate]]. }
  destruct (pivot_col T skip opts0) as [cf pc] eqn:Epc.
  pose proof (pivot_col_spec L nc T skip opts0 _ _ (ti_wf _ _ _ _ _ _ _ Hinv) Epc) as [Hc Hnc]. cbv zeta in Hc, Hnc.
  destruct cf; cbn [negb].
  2:{ split; [auto|split; [auto|discriminate]]. }
  assert (E1 : (nrows T - 1 = L)%nat) by (unfold nrows; destruct (ti_wf _ _ _ _ _ _ _ Hinv) as [-> _]; lia).
  assert (E2 : ncols T = nc) by (apply (wf_ncols (S L)); [apply (ti_wf _ _ _ _ _ _ _ Hinv)|lia]).
  rewrite E1, E2.
  destruct (Hc eq_refl) as [Hc1 Hc2]. cbn in Hc2.
  destruct (lex_min_ratio_test_n L T pc (nc - L - 1) (tol_piv opts0) (tol_ratio_diff opts0)) as [rf pr] eqn:Er.
  destruct rf; cbn [negb].
  2:{ split; [auto|split; [auto|]]. intros _. exists pc. split; [auto|split; [auto|]].
      apply (lex_min_ratio_test_n_complete L T pc (nc - L - 1)).
      - intros r r' Hr Hr' Hne Hp Hp' Heq. replace (nc - L - 1)%nat with a in Heq by lia.
        exact (tab_inv_nonsing L nc a T0 obj T basis pc r r' Hinv Hr Hr' Hne Hp Hp' Heq).
      - change (tol_piv opts0) with 0 in Er. change (tol_ratio_diff opts0) with 0 in Er. rewrite Er. reflexivity. }
  pose proof (lex_min_ratio_test_n_spec _ _ _ _ _ _ _ Er) as [Hr Hp].
  pose proof (lex_min_ratio_test_n_min _ _ _ _ _ Er) as Hmin. rewrite E2 in Hmin. cbn in Hp.
  apply IH.
  - apply tab_inv_pivot; auto; [lia|lra].
  - eapply Hstep; eauto.
Qed.

(* the feasible half-line u + t d from a column c with positive criterion coefficient and no positive entry *)
Definition ray_pt (L nc : nat) (T : matQ) (basis : list nat) (c : nat) (t : Q) (j : nat) : Q :=
  bsol L nc T basis j + t * ((if Nat.eqb j c then 1 else 0) - bsolc L T basis c j).

Lemma ray_pt_props L nc a T0 obj T basis c t :
  tab_inv L nc a T0 obj T basis -> rhs_nonneg L nc T ->
  (c < nc - 1)%nat -> (forall k, (k < L)%nat -> get T k c <= 0) -> 0 <= t ->
  solves L nc T0 (ray_pt L nc T basis c t) /\
  (forall j, 0 <= ray_pt L nc T basis c t j) /\
  sumQ (nc - 1) (fun j => obj j * ray_pt L nc T basis c t j) == obj (nc - 1)%nat - get T L (nc - 1)%nat + t * get T L c.
Proof.
  intros Hinv Hrhs Hc Hnp Ht.
  pose proof (ti_bas _ _ _ _ _ _ _ Hinv) as Hbas. pose proof (ti_unit _ _ _ _ _ _ _ Hinv) as Hunit.
  assert (Hdot : forall k, (k < S L)%nat ->
            sumQ (nc - 1) (fun j => get T k j * ray_pt L nc T basis c t j)
            == (if Nat.ltb k L then get T k (nc - 1)%nat else t * get T k c)).
  { intros k Hk. unfold ray_pt.
    rewrite (sumQ_ext _ _ (fun j => 1 * (get T k j * bsol L nc T basis j)
               + t * ((if Nat.eqb j c then get T k j else 0) + (-1) * (get T k j * bsolc L T basis c j)))).
    2:{ intros j Hj. destruct (Nat.eqb j c); ring. }
    rewrite sumQ_lin. rewrite sumQ_plus, sumQ_scale, sumQ_delta.
    destruct (Nat.ltb_spec c (nc - 1)); [|lia].
    rewrite (bsolc_row (S L) (nc - 1) L T basis c k) by (auto; lia).
    destruct (Nat.ltb_spec k L).
    - rewrite (bsol_solves (S L) nc L T basis ltac:(lia) Hbas Hunit k) by auto. ring.
    - rewrite (bsol_dot_crit (S L)) by (auto; lia). ring. }
  assert (Hsol : solves L nc T0 (ray_pt L nc T basis c t)).
  { apply (ti_sol _ _ _ _ _ _ _ Hinv). intros k Hk. rewrite Hdot by lia. destruct (Nat.ltb_spec k L); [reflexivity|lia]. }
  split; [auto|split].
  - intros j. unfold ray_pt. pose proof (bsol_nonneg L nc T basis j Hrhs). pose proof (bsolc_nonpos L T basis c j Hnp).
    assert (0 <= (if Nat.eqb j c then 1 else 0) - bsolc L T basis c j) by (destruct (Nat.eqb j c); lra). nra.
  - pose proof (crit_dot _ _ _ _ _ _ _ _ Hinv Hsol) as E. rewrite Hdot in E by lia.
    destruct (Nat.ltb_spec L L); [lia|]. lra.
Qed.

(* Phase 1 cannot end with status 3 *)
Lemma phase1_no_status3 L nc a T0 fuel T basis ni :
  (a + L = nc - 1)%nat ->
  tab_inv L nc a T0 (obj1f a L) T basis -> rhs_nonneg L nc T ->
  let '(_, _, _, status, _) := solve_tableau_loop fuel T basis false opts0 ni in status <> 3%nat.
Proof.
  intros Hanc Hinv HP.
  pose proof (solve_tableau_ind3 L nc a T0 (obj1f a L) false (fun T _ => rhs_nonneg L nc T) Hanc) as H.
  assert (Hstep : forall (T : matQ) (basis : list nat) (c r : nat),
     tab_inv L nc a T0 (obj1f a L) T basis -> rhs_nonneg L nc T -> (r < L)%nat ->
     (c < nc - 1 - (if false then L else 0))%nat -> 0 < get T r c -> 0 < get T L c ->
     (forall k : nat, (k < L)%nat -> 0 < get T k c -> ratio T c (nc - 1) r <= ratio T c (nc - 1) k) ->
     rhs_nonneg L nc (pivoting T c r)).
  { intros T1 b1 c r Hi1 HP1 Hr Hc Hp _ Hmin i Hi.
    apply (pivoting_rhs_nonneg (S L) nc L); auto.
    - apply (ti_wf _ _ _ _ _ _ _ Hi1).
    - apply (ti_nc _ _ _ _ _ _ _ Hi1). }
  specialize (H Hstep fuel T basis ni Hinv HP).
  destruct (solve_tableau_loop fuel T basis false opts0 ni) as [[[[T' b'] su] st] n'].
  destruct H as (Hi' & Hr' & H3). intros ->. destruct (H3 eq_refl) as (c & Hc & Hpos & Hnp). cbv iota in Hc.
  assert (Hobj : forall u, (forall j, 0 <= u j) -> sumQ (nc - 1) (fun j => obj1f a L j * u j) <= 0).
  { intros u Hu. apply Qle_trans with (sumQ (nc - 1) (fun _ => 0)); [|rewrite sumQ_zero; [lra|reflexivity]].
    apply sumQ_le. intros j Hj. unfold obj1f. specialize (Hu j). destruct (_ && _); lra. }
  assert (E0 : obj1f a L (nc - 1)%nat == 0).
  { unfold obj1f. destruct (Nat.ltb_spec (nc - 1) (a + L)); [lia|]. now rewrite andb_false_r. }
  destruct (ray_pt_props L nc a T0 _ T' b' c 0 Hi' Hr' ltac:(lia) Hnp ltac:(lra)) as (_ & Hn0 & Ev0).
  pose proof (Hobj _ Hn0) as Hle0. rewrite Ev0, E0 in Hle0.
  set (t := get T' L (nc - 1)%nat / get T' L c + 1).
  assert (Ht : 0 <= t).
  { unfold t. assert (0 <= get T' L (nc - 1)%nat / get T' L c) by (apply Qle_shift_div_l; lra). lra. }
  destruct (ray_pt_props L nc a T0 _ T' b' c t Hi' Hr' ltac:(lia) Hnp Ht) as (_ & Hn1 & Ev1).
  pose proof (Hobj _ Hn1) as Hle1. rewrite Ev1, E0 in Hle1.
  assert (t * get T' L c == get T' L (nc - 1)%nat + get T' L c) by (unfold t; field; lra). lra.
Qed.

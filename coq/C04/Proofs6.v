From Coq Require Import ZArith QArith List Bool Arith Lia Lqa Setoid Morphisms.
From QE Require Import Base.Num Base.Pivot Base.PivotProofs C04.Model C04.Proofs C04.Proofs2 C04.Proofs3 C04.Proofs4 C04.Proofs5.
Import ListNotations.
Open Scope Q_scope.

Theorem status0_certificate c m k Aub bub Aeq beq max_iter x lam fn success ni :
  length bub = m -> length beq = k ->
  linprog_simplex c m k Aub bub Aeq beq max_iter opts0 = (x, lam, fn, success, 0%nat, ni) ->
  let n := length c in
  success = true /\
  primal_feasible n m k Aub bub Aeq beq x /\
  dual_feasible n m k c Aub Aeq lam /\
  dotn n c x == fn /\ fn == dual_obj m k bub beq lam.
Proof.
  intros Hbub Hbeq. cbv zeta. set (n := length c). set (L := (m + k)%nat). set (a := (n + m)%nat).
  set (nc := (n + m + L + 1)%nat).
  unfold linprog_simplex. fold n. cbv zeta. fold L.
  pose proof (init_inv n m k Aub bub Aeq beq) as [Hi0 Hr0]. unfold T1, basis1 in Hi0, Hr0.
  destruct (initialize_tableau n m k Aub bub Aeq beq) as [tb0 basis0]. cbn [fst snd] in Hi0, Hr0.
  fold L a nc in Hi0, Hr0.
  unfold solve_phase_1, solve_tableau.
  assert (E1 : (nrows tb0 - 1 = L)%nat) by (unfold nrows; destruct (ti_wf _ _ _ _ _ _ _ Hi0) as [-> _]; lia).
  assert (E2 : ncols tb0 = nc) by (apply (wf_ncols (S L)); [apply (ti_wf _ _ _ _ _ _ _ Hi0)|lia]).
  rewrite E1, E2.
  pose proof (phase1_spec L nc a _ _ max_iter tb0 basis0 0%nat Hi0 Hr0) as H1.
  destruct (solve_tableau_loop max_iter tb0 basis0 false opts0 0) as [[[[tb bs] su] st] ni1].
  destruct H1 as (Hi1 & Hr1 & Hs1).
  destruct su; cbn [negb].
  2:{ intros H. inversion H; subst. destruct Hs1 as [_ Hs1]. specialize (Hs1 eq_refl). discriminate. }
  assert (E3 : ncols tb = nc) by (apply (wf_ncols (S L)); [apply (ti_wf _ _ _ _ _ _ _ Hi1)|lia]).
  rewrite E3.
  destruct (nltb (fea_tol opts0) (get tb L (nc - 1))) eqn:Ef.
  { intros H. inversion H. }
  apply nltb_false in Ef. cbn in Ef.
  assert (Hanc : (a + L = nc - 1)%nat) by (unfold nc; lia).
  assert (Haz : art_zero L nc a tb bs) by (eapply phase1_art_zero; eauto).
  replace (nc - (L + 1))%nat with a by (unfold nc; lia).
  pose proof (cleanup_spec L nc a _ _ tb bs ni1 Hi1 Hr1 Haz) as H2.
  change (tol_piv opts0) with 0.
  destruct (cleanup tb bs ni1 L a 0) as [[tb' bs'] ni1'].
  destruct H2 as (Hi2 & HP2).
  pose proof (set_criterion_row_spec L nc a _ _ tb' bs' c ltac:(fold n; unfold a; lia) Hi2 HP2) as H3.
  cbv zeta in H3. destruct H3 as (Hi3 & HP3).
  pose proof (phase2_spec L nc a _ _ (max_iter - ni1') (set_criterion_row c bs' tb') bs' 0%nat Hanc Hi3 HP3) as H4.
  destruct (solve_tableau_loop (max_iter - ni1') (set_criterion_row c bs' tb') bs' true opts0 0) as [[[[tb3 bs3] su3] st3] ni2].
  destruct H4 as (Hi4 & HP4 & Hs4 & Hopt).
  intros H.
  assert (Hg : get_solution tb3 bs3 n L (b_signs bub beq) = (x, lam, fn) /\ su3 = success /\ st3 = 0%nat).
  { destruct (get_solution tb3 bs3 n L (b_signs bub beq)) as [[x' lam'] fn'].
    injection H as Hx Hl Hf Hsu Hst Hni. subst. auto. }
  destruct Hg as (Eg & Hsu & Hst). subst st3. rewrite <- Hsu. clear H.
  specialize (Hopt eq_refl).
  assert (Ex : x = fst (fst (get_solution tb3 bs3 n L (b_signs bub beq)))) by now rewrite Eg.
  assert (El : lam = snd (fst (get_solution tb3 bs3 n L (b_signs bub beq)))) by now rewrite Eg.
  assert (Efn : fn = snd (get_solution tb3 bs3 n L (b_signs bub beq))) by now rewrite Eg.
  split; [apply Hs4; reflexivity|]. rewrite Ex, El, Efn.
  split; [|split; [|split]].
  - eapply (primal_ok n m k c); eauto.
  - eapply (dual_ok n m k c); eauto.
  - eapply (fn_primal n m k c); eauto.
  - eapply (fn_dual n m k c); eauto.
Qed.

(* status 0 is an optimum of the LP and of its dual *)
Theorem status0_optimal c m k Aub bub Aeq beq max_iter x lam fn success ni :
  length bub = m -> length beq = k ->
  linprog_simplex c m k Aub bub Aeq beq max_iter opts0 = (x, lam, fn, success, 0%nat, ni) ->
  let n := length c in
  primal_feasible n m k Aub bub Aeq beq x /\
  (forall x', primal_feasible n m k Aub bub Aeq beq x' -> dotn n c x' <= dotn n c x) /\
  dotn n c x == fn.
Proof.
  intros Hb1 Hb2 H. destruct (status0_certificate _ _ _ _ _ _ _ _ _ _ _ _ _ Hb1 Hb2 H) as (_ & Hp & Hd & E1 & E2).
  cbv zeta. split; [auto|split; [|auto]].
  intros x' Hx'. eapply certificate_optimal; eauto. rewrite E1. auto.
Qed.

Lemma certificate_optimal_both n m k c Aub bub Aeq beq x lam :
  primal_feasible n m k Aub bub Aeq beq x -> dual_feasible n m k c Aub Aeq lam ->
  dotn n c x == dual_obj m k bub beq lam ->
  (forall x', primal_feasible n m k Aub bub Aeq beq x' -> dotn n c x' <= dotn n c x) /\
  (forall lam', dual_feasible n m k c Aub Aeq lam' -> dual_obj m k bub beq lam <= dual_obj m k bub beq lam').
Proof. intros. split; [eapply certificate_optimal|eapply certificate_dual_optimal]; eauto. Qed.

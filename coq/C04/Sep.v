(* C04: executable "separation" check (sep_ok).  Along the run WITH TOLERANCE 0 it records whether every
   quantity that the source compares with a tolerance is decision-stable: x <= 0 or tol < x for pivot-column
   entries and criterion coefficients, d = 0 or |d| > tol for differences of ratios and clean-up entries.
   Definitions only (ProofsSep.v: sep_ok => the run with the source tolerances equals the run with
   tolerance 0). *)
From Coq Require Import List Bool Arith.
From QE Require Import Base.Num Base.Pivot C04.Model.
Import ListNotations.

Section Sep.
Context {T : Type} `{Num T}.

Definition o0 : @PivOptions T := {| fea_tol := nzero; tol_piv := nzero; tol_ratio_diff := nzero |}.

Definition sep1 (tol x : T) : bool := nleb x nzero || nltb tol x.
Definition sep_abs (tol d : T) : bool :=
  (nleb d nzero && nleb nzero d) || nltb tol d || nltb d (nsub nzero tol).

Definition sep_crit (tableau : mat) (skip_aux : bool) (o : PivOptions) : bool :=
  let L := nrows tableau - 1 in
  let stop := ncols tableau - 1 - (if skip_aux then L else 0) in
  forallb (fun j => sep1 (fea_tol o) (vget (nth L tableau []) j)) (seq 0 stop).

Fixpoint mrt_sep (M : mat) (pivot test_col : nat) (tolp tolr : T) (cands : list nat) (rmin : option T) : bool :=
  match cands with
  | [] => true
  | i :: rest =>
    let a := get M i pivot in
    sep1 tolp a &&
    if nleb a nzero then mrt_sep M pivot test_col tolp tolr rest rmin
    else
      let ratio := ndiv (get M i test_col) a in
      match rmin with
      | None => mrt_sep M pivot test_col tolp tolr rest (Some ratio)
      | Some rm =>
        sep_abs tolr (nsub ratio rm) &&
        if nltb (nadd rm nzero) ratio then mrt_sep M pivot test_col tolp tolr rest rmin
        else if nltb ratio (nsub rm nzero) then mrt_sep M pivot test_col tolp tolr rest (Some ratio)
        else mrt_sep M pivot test_col tolp tolr rest rmin
      end
  end.

Fixpoint lex_loop_sep (M : mat) (pivot : nat) (tolp tolr : T) (cols : list nat) (am : list nat) : bool :=
  match cols with
  | [] => true
  | j :: rest =>
    if Nat.eqb j pivot then lex_loop_sep M pivot tolp tolr rest am
    else
      mrt_sep M pivot j tolp tolr am None &&
      let am' := min_ratio_test M pivot j nzero nzero am in
      match am' with
      | [_] => true
      | _ => lex_loop_sep M pivot tolp tolr rest am'
      end
  end.

Definition lex_sep (nr : nat) (M : mat) (pivot slack_start : nat) (tolp tolr : T) : bool :=
  mrt_sep M pivot (ncols M - 1) tolp tolr (seq 0 nr) None &&
  let am := min_ratio_test M pivot (ncols M - 1) nzero nzero (seq 0 nr) in
  match am with
  | [] => true
  | [_] => true
  | _ => lex_loop_sep M pivot tolp tolr (seq slack_start nr) am
  end.

Fixpoint solve_tableau_sep (fuel : nat) (tableau : mat) (basis : list nat) (skip_aux : bool) (o : PivOptions) : bool :=
  match fuel with
  | O => true
  | S f =>
    sep_crit tableau skip_aux o &&
    let '(cfound, pivcol) := pivot_col tableau skip_aux o0 in
    if negb cfound then true
    else
      let L := nrows tableau - 1 in
      let aux_start := ncols tableau - L - 1 in
      lex_sep L tableau pivcol aux_start (tol_piv o) (tol_ratio_diff o) &&
      let '(rfound, pivrow) := lex_min_ratio_test_n L tableau pivcol aux_start nzero nzero in
      if negb rfound then true
      else solve_tableau_sep f (pivoting tableau pivcol pivrow) (set_nth basis pivrow pivcol) skip_aux o
  end.

Fixpoint cleanup_sep (is : list nat) (tb : mat) (bs : list nat) (nm : nat) (tolp : T) : bool :=
  match is with
  | [] => true
  | i :: rest =>
    if Nat.leb nm (nth i bs 0) then
      forallb (fun j => sep_abs tolp (get tb i j)) (seq 0 nm) &&
      match cleanup_col tb i nm nzero with
      | Some j => cleanup_sep rest (pivoting tb j i) (set_nth bs i j) nm tolp
      | None => cleanup_sep rest tb bs nm tolp
      end
    else cleanup_sep rest tb bs nm tolp
  end.

(* sep_ok of a whole linprog_simplex run *)
Definition linprog_sep (c : list T) (m k : nat) (A_ub : mat) (b_ub : list T) (A_eq : mat) (b_eq : list T)
           (max_iter : nat) (o : PivOptions) : bool :=
  let n := length c in
  let '(tb0, basis0) := initialize_tableau n m k A_ub b_ub A_eq b_eq in
  let L := nrows tb0 - 1 in
  let nm := ncols tb0 - (L + 1) in
  solve_tableau_sep max_iter tb0 basis0 false o &&
  let '(tb, bs, success, _, ni) := solve_tableau tb0 basis0 max_iter false o0 in
  if negb success then true
  else
    let v := get tb L (ncols tb - 1) in
    sep1 (fea_tol o) v &&
    if nltb nzero v then true
    else
      cleanup_sep (seq 0 L) tb bs nm (tol_piv o) &&
      let '(tb', bs', ni') := cleanup tb bs ni L nm nzero in
      solve_tableau_sep (max_iter - ni') (set_criterion_row c bs' tb') bs' true o.

Definition minmax_sep (m n : nat) (A : mat) (max_iter : nat) (o : PivOptions) : bool :=
  let const := minmax_const A in
  let tb0 := minmax_tableau m n A const in
  let pivrow := minmax_pivrow m tb0 in
  let tb2 := pivoting (pivoting tb0 n pivrow) 0 m in
  let basis := set_nth (set_nth (seq (n + 1) (m + 1)) pivrow n) m 0 in
  solve_tableau_sep (max_iter - 2) tb2 basis false o.

End Sep.

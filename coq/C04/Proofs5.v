(* C04 proofs, part 5 (tolerance 0): get_solution and the certificate at status 0. *)
From Coq Require Import ZArith QArith List Bool Arith Lia Lqa Setoid Morphisms.
From QE Require Import Base.Num Base.Pivot Base.PivotProofs C04.Model C04.Proofs C04.Proofs2 C04.Proofs3 C04.Proofs4.
Import ListNotations.
Open Scope Q_scope.

Lemma basis_distinct nr L (T : matQ) basis i i' :
  (L <= nr)%nat -> unit_cols nr L T basis -> (i < L)%nat -> (i' < L)%nat -> i <> i' ->
  nth i basis 0%nat <> nth i' basis 0%nat.
Proof.
  intros HL Hu Hi Hi' Hne E.
  pose proof (Hu i i Hi ltac:(lia)) as H1. pose proof (Hu i' i Hi' ltac:(lia)) as H2.
  rewrite E in H1. rewrite H1 in H2. rewrite Nat.eqb_refl in H2. destruct (Nat.eqb_spec i i'); [contradiction|]. lra.
Qed.

Lemma vget_set_nth (x : list Q) b v j :
  vget (set_nth x b v) j = if Nat.eqb j b then (if Nat.ltb b (length x) then v else vget x j) else vget x j.
Proof. unfold vget. apply nth_set_nth. Qed.

Lemma vget_repeat0 n j : vget (repeat (@nzero Q NumQ) n) j == 0.
Proof. unfold vget. revert j; induction n; intros [|j]; cbn; try reflexivity. apply IHn. Qed.

(* the x part of get_solution is the basic solution on the columns < n *)
Lemma x_fold nr L nc n (T : matQ) basis :
  (L <= nr)%nat -> unit_cols nr L T basis ->
  forall len s x, (s + len <= L)%nat -> length x = n ->
    (forall j, (j < n)%nat -> vget x j == sumQ s (fun i => if Nat.eqb (nth i basis 0%nat) j then get T i (nc - 1)%nat else 0)) ->
    let x' := fold_left (fun x i => let b := nth i basis 0%nat in
                                    if Nat.ltb b n then set_nth x b (get T i (nc - 1)%nat) else x) (seq s len) x in
    length x' = n /\
    forall j, (j < n)%nat -> vget x' j == sumQ (s + len) (fun i => if Nat.eqb (nth i basis 0%nat) j then get T i (nc - 1)%nat else 0).
Proof.
  intros HL Hu. induction len as [|len IH]; intros s x Hs Hlen Hx; cbn [seq fold_left].
  - rewrite Nat.add_0_r. auto.
  - cbv zeta in IH. replace (s + S len)%nat with (S s + len)%nat by lia. apply IH; [lia| |].
    + destruct (Nat.ltb _ n); auto. now rewrite length_set_nth.
    + intros j Hj. cbn [sumQ]. destruct (Nat.ltb_spec (nth s basis 0%nat) n) as [Hb|Hb].
      * rewrite vget_set_nth, Hlen. destruct (Nat.ltb_spec (nth s basis 0%nat) n); [|lia].
        destruct (Nat.eqb_spec j (nth s basis 0%nat)) as [->|Hne].
        -- rewrite Nat.eqb_refl. rewrite sumQ_zero; [ring|]. intros i Hi.
           destruct (Nat.eqb_spec (nth i basis 0%nat) (nth s basis 0%nat)) as [E|]; [|reflexivity].
           exfalso. eapply (basis_distinct nr L T basis i s); eauto; lia.
        -- destruct (Nat.eqb_spec (nth s basis 0%nat) j); [congruence|]. rewrite Hx by auto. ring.
      * destruct (Nat.eqb_spec (nth s basis 0%nat) j); [lia|]. rewrite Hx by auto. ring.
Qed.

Section Final.
Variables (n m k : nat) (c : list Q) (Aub : matQ) (bub : list Q) (Aeq : matQ) (beq : list Q).
Hypothesis Hn : length c = n.
Hypothesis Hbub : length bub = m.
Hypothesis Hbeq : length beq = k.
Let L := (m + k)%nat.
Let a := (n + m)%nat.
Let nc := (n + m + L + 1)%nat.
Notation T0' := (T0 n m k Aub bub Aeq beq).
Notation sg' := (sg m bub beq).
Notation b_of' := (b_of m bub beq).
Notation A_of' := (A_of m Aub Aeq).

Lemma T0_rhs' i : (i < L)%nat -> get T0' i (nc - 1)%nat == sg' i * b_of' i.
Proof. exact (T0_rhs n m k Aub bub Aeq beq i). Qed.

Lemma bsigns_nth i : (i < L)%nat -> nth i (b_signs bub beq) false = true <-> sg' i == 1.
Proof.
  intros Hi. unfold b_signs.
  assert (E : nth i (map (fun b : Q => nleb nzero b) (bub ++ beq)) false = Qle_bool 0 (b_of' i)).
  { rewrite nth_map_lt with (d := 0) by (rewrite app_length; lia).
    unfold b_of. destruct (Nat.ltb_spec i m).
    - rewrite app_nth1 by lia. reflexivity.
    - rewrite app_nth2 by lia. rewrite Hbub. reflexivity. }
  rewrite E. unfold sg, Qltb. destruct (Qle_bool 0 (b_of' i)); cbn [negb]; split; intros H; try reflexivity; try discriminate.
Qed.

Variables (T : matQ) (basis : list nat).
Hypothesis Hinv : tab_inv L nc a T0' (obj2f c) T basis.
Hypothesis HP : phase2_P L nc a T basis.
Hypothesis Hopt : forall j, (j < a)%nat -> get T L j <= 0.

Let u := bsol L nc T basis.
Let x := fst (fst (get_solution T basis n L (b_signs bub beq))).
Let lam := snd (fst (get_solution T basis n L (b_signs bub beq))).
Let fn := snd (get_solution T basis n L (b_signs bub beq)).

Lemma Hncols : ncols T = nc.
Proof. apply (wf_ncols (S L)); [apply (ti_wf _ _ _ _ _ _ _ Hinv)|lia]. Qed.

Lemma x_u j : (j < n)%nat -> vget x j == u j.
Proof.
  intros Hj. unfold x, get_solution. cbn [fst]. rewrite Hncols.
  destruct (x_fold (S L) L nc n T basis ltac:(lia) (ti_unit _ _ _ _ _ _ _ Hinv) L 0 (repeat nzero n)) as [_ H]; auto.
  - apply repeat_length.
  - intros j' Hj'. cbn [sumQ]. apply vget_repeat0.
  - apply H; auto.
Qed.

Lemma lam_entry i : (i < L)%nat -> vget lam i == - sg' i * get T L (a + i)%nat.
Proof.
  intros Hi. unfold lam, get_solution. cbn [fst snd]. rewrite Hncols. unfold vget. rewrite nth_tabv by auto.
  replace (nc - L - 1)%nat with a by (unfold nc, a; lia).
  change (neqb ?v nzero) with (Qeq_bool v 0). change (nmul ?v mone) with (Qmulr v mone).
  pose proof (bsigns_nth i Hi) as Hs.
  destruct (nth i (b_signs bub beq) false).
  - assert (E : sg' i == 1) by (apply Hs; reflexivity). rewrite E.
    destruct (Qeq_bool (get T L (a + i)%nat) 0) eqn:E0; cbn [negb andb].
    + apply Qeq_bool_iff in E0. rewrite E0. ring.
    + rewrite Qmulr_eq, mone_eq. ring.
  - assert (E : sg' i == -1).
    { unfold sg in *. destruct (Qltb (b_of' i) 0); [reflexivity|]. exfalso. assert (false = true) by (apply Hs; reflexivity). discriminate. }
    rewrite E, andb_false_r. ring.
Qed.

Lemma fn_eq : fn == - get T L (nc - 1)%nat.
Proof.
  unfold fn, get_solution. cbn [snd]. rewrite Hncols. change (nmul ?v mone) with (Qmulr v mone).
  rewrite Qmulr_eq, mone_eq. ring.
Qed.

Lemma u_solves : solves L nc T0' u.
Proof. apply (ti_sol _ _ _ _ _ _ _ Hinv). apply (bsol_solves (S L)); [lia|apply (ti_bas _ _ _ _ _ _ _ Hinv)|apply (ti_unit _ _ _ _ _ _ _ Hinv)]. Qed.
Lemma u_nonneg j : 0 <= u j.
Proof. apply bsol_nonneg. apply HP. Qed.
Lemma u_art j : (j < L)%nat -> u (a + j)%nat == 0.
Proof.
  intros Hj. apply sumQ_zero. intros i Hi.
  destruct (Nat.eqb_spec (nth i basis 0%nat) (a + j)%nat) as [E|]; [|reflexivity].
  destruct HP as (_ & Haz & _). apply Haz; auto. lia.
Qed.

(* sum over the columns x | slack | aux *)
Lemma sum_cols (f : nat -> Q) :
  sumQ (nc - 1) f == sumQ n f + sumQ m (fun j => f (n + j)%nat) + sumQ L (fun j => f (a + j)%nat).
Proof.
  replace (nc - 1)%nat with (n + (m + L))%nat by (unfold nc; lia).
  rewrite sumQ_split, sumQ_split.
  rewrite (sumQ_ext L (fun j => f (n + (m + j))%nat) (fun j => f (a + j)%nat)).
  - ring.
  - intros j Hj. unfold a. now rewrite Nat.add_assoc.
Qed.

(* each initial row at the basic solution: A_i.x (+ slack_i) = b_i *)
Lemma row_eq i : (i < L)%nat ->
  sumQ n (fun j => A_of' i j * vget x j) + (if Nat.ltb i m then u (n + i)%nat else 0) == b_of' i.
Proof.
  intros Hi. pose proof (u_solves i Hi) as E. rewrite sum_cols in E.
  rewrite (sumQ_ext n _ (fun j => sg' i * (A_of' i j * vget x j))) in E.
  2:{ intros j Hj. rewrite T0_x by auto. rewrite x_u by auto. ring. }
  rewrite sumQ_scale in E.
  rewrite (sumQ_ext m _ (fun j => if Nat.eqb j i then sg' i * u (n + j)%nat else 0)) in E.
  2:{ intros j Hj. rewrite T0_slack by auto. destruct (Nat.ltb_spec i m); cbn [andb].
      - destruct (Nat.eqb j i); ring.
      - destruct (Nat.eqb_spec j i); [lia|ring]. }
  rewrite sumQ_delta in E.
  rewrite (sumQ_zero L) in E.
  2:{ intros j Hj. rewrite u_art by auto. ring. }
  rewrite T0_rhs' in E by auto.
  pose proof (sg_sq m bub beq i) as Hsq.
  set (S := sumQ n (fun j => A_of' i j * vget x j)) in *.
  set (U := if Nat.ltb i m then u (n + i)%nat else 0).
  assert (E' : sg' i * S + sg' i * U == sg' i * b_of' i).
  { rewrite <- E. unfold U. destruct (Nat.ltb i m); ring. }
  setoid_replace (S + U) with ((sg' i * sg' i) * (S + U)) by (rewrite Hsq; ring).
  setoid_replace ((sg' i * sg' i) * (S + U)) with (sg' i * (sg' i * S + sg' i * U)) by ring.
  rewrite E'. setoid_replace (sg' i * (sg' i * b_of' i)) with ((sg' i * sg' i) * b_of' i) by ring.
  rewrite Hsq. ring.
Qed.

Lemma primal_ok : primal_feasible n m k Aub bub Aeq beq x.
Proof.
  split; [|split].
  - intros j Hj. rewrite x_u by auto. apply u_nonneg.
  - intros i Hi. pose proof (row_eq i ltac:(lia)) as E. unfold A_of, b_of in E.
    destruct (Nat.ltb_spec i m); [|lia]. unfold Arow. pose proof (u_nonneg (n + i)%nat). lra.
  - intros i Hi. pose proof (row_eq (m + i)%nat ltac:(lia)) as E. unfold A_of, b_of in E.
    destruct (Nat.ltb_spec (m + i) m); [lia|]. replace (m + i - m)%nat with i in E by lia. unfold Arow. lra.
Qed.

(* criterion row: T[L,j] = obj_j + sum_k nu_k T0[k,j], nu_k = T[L,a+k] = - sg_k lam_k *)
Lemma crit_eq j : (j < nc)%nat ->
  get T L j == obj2f c j - sumQ L (fun i => vget lam i * (sg' i * get T0' i j)).
Proof.
  intros Hj. pose proof (ti_crit _ _ _ _ _ _ _ Hinv j Hj) as E. unfold rowf in E. rewrite E.
  transitivity (obj2f c j + sumQ L (fun i => (-1) * (vget lam i * (sg' i * get T0' i j)))).
  - apply Qplus_comp; [reflexivity|]. apply sumQ_ext. intros i Hi.
    rewrite lam_entry by auto. unfold obj2f. rewrite Hn. destruct (Nat.ltb_spec (a + i) n); [unfold a in *; lia|].
    pose proof (sg_sq m bub beq i) as Hsq.
    setoid_replace (-1 * (- sg' i * get T L (a + i)%nat * (sg' i * get T0' i j)))
      with ((sg' i * sg' i) * (get T L (a + i)%nat * get T0' i j)) by ring.
    rewrite Hsq. ring.
  - rewrite sumQ_scale. ring.
Qed.

Lemma sum_rows (f : nat -> Q) : sumQ L f == sumQ m f + sumQ k (fun i => f (m + i)%nat).
Proof. unfold L. apply sumQ_split. Qed.

Lemma dual_ok : dual_feasible n m k c Aub Aeq lam.
Proof.
  split.
  - intros i Hi. pose proof (crit_eq (n + i)%nat ltac:(unfold nc; lia)) as E.
    pose proof (Hopt (n + i)%nat ltac:(unfold a; lia)) as Hle.
    unfold obj2f in E. rewrite Hn in E. destruct (Nat.ltb_spec (n + i) n); [lia|].
    rewrite (sumQ_ext L _ (fun i' => if Nat.eqb i' i then vget lam i' else 0)) in E.
    2:{ intros i' Hi'. rewrite T0_slack by auto. pose proof (sg_sq m bub beq i') as Hsq.
        destruct (Nat.eqb_spec i' i) as [->|Hne].
        - rewrite Nat.eqb_refl. destruct (Nat.ltb_spec i m); [|lia]. cbn [andb].
          setoid_replace (vget lam i * (sg' i * sg' i)) with (vget lam i * 1) by (rewrite Hsq; reflexivity). ring.
        - destruct (Nat.eqb_spec i i'); [congruence|]. rewrite andb_false_r. ring. }
    rewrite sumQ_delta in E. destruct (Nat.ltb_spec i L); [|unfold L in *; lia]. lra.
  - intros j Hj. pose proof (crit_eq j ltac:(unfold nc; lia)) as E.
    pose proof (Hopt j ltac:(unfold a; lia)) as Hle.
    unfold obj2f in E. rewrite Hn in E. destruct (Nat.ltb_spec j n); [|lia].
    rewrite (sumQ_ext L _ (fun i => A_of' i j * vget lam i)) in E.
    2:{ intros i Hi. rewrite T0_x by auto. pose proof (sg_sq m bub beq i) as Hsq.
        setoid_replace (vget lam i * (sg' i * (sg' i * A_of' i j))) with ((sg' i * sg' i) * (A_of' i j * vget lam i)) by ring.
        rewrite Hsq. ring. }
    rewrite sum_rows in E. unfold Acol.
    rewrite (sumQ_ext m (fun i => get Aub i j * vget lam i) (fun i => A_of' i j * vget lam i)).
    2:{ intros i Hi. unfold A_of. destruct (Nat.ltb_spec i m); [reflexivity|lia]. }
    rewrite (sumQ_ext k (fun i => get Aeq i j * vget lam (m + i)%nat) (fun i => A_of' (m + i)%nat j * vget lam (m + i)%nat)).
    2:{ intros i Hi. unfold A_of. destruct (Nat.ltb_spec (m + i) m); [lia|]. replace (m + i - m)%nat with i by lia. reflexivity. }
    lra.
Qed.

Lemma fn_dual : fn == dual_obj m k bub beq lam.
Proof.
  rewrite fn_eq. pose proof (crit_eq (nc - 1)%nat ltac:(unfold nc; lia)) as E. rewrite E.
  unfold obj2f. rewrite Hn. destruct (Nat.ltb_spec (nc - 1) n); [unfold nc in *; lia|].
  rewrite (sumQ_ext L _ (fun i => b_of' i * vget lam i)).
  2:{ intros i Hi. rewrite T0_rhs' by auto. pose proof (sg_sq m bub beq i) as Hsq.
      setoid_replace (vget lam i * (sg' i * (sg' i * b_of' i))) with ((sg' i * sg' i) * (b_of' i * vget lam i)) by ring.
      rewrite Hsq. ring. }
  rewrite sum_rows. unfold dual_obj.
  rewrite (sumQ_ext m (fun i => vget bub i * vget lam i) (fun i => b_of' i * vget lam i)).
  2:{ intros i Hi. unfold b_of. destruct (Nat.ltb_spec i m); [reflexivity|lia]. }
  rewrite (sumQ_ext k (fun i => vget beq i * vget lam (m + i)%nat) (fun i => b_of' (m + i)%nat * vget lam (m + i)%nat)).
  2:{ intros i Hi. unfold b_of. destruct (Nat.ltb_spec (m + i) m); [lia|]. replace (m + i - m)%nat with i by lia. reflexivity. }
  ring.
Qed.

Lemma fn_primal : dotn n c x == fn.
Proof.
  rewrite fn_eq. pose proof (obj_value _ _ _ _ _ _ _ Hinv) as E. fold u in E. rewrite sum_cols in E.
  rewrite (sumQ_zero m) in E.
  2:{ intros j Hj. unfold obj2f. rewrite Hn. destruct (Nat.ltb_spec (n + j) n); [lia|ring]. }
  rewrite (sumQ_zero L) in E.
  2:{ intros j Hj. unfold obj2f. rewrite Hn. destruct (Nat.ltb_spec (a + j) n); [unfold a in *; lia|ring]. }
  assert (E0 : obj2f c (nc - 1)%nat == 0).
  { unfold obj2f. rewrite Hn. destruct (Nat.ltb_spec (nc - 1) n); [unfold nc in *; lia|reflexivity]. }
  rewrite E0 in E. unfold dotn.
  rewrite (sumQ_ext n _ (fun j => obj2f c j * u j)).
  - lra.
  - intros j Hj. unfold obj2f. rewrite Hn. destruct (Nat.ltb_spec j n); [|lia]. rewrite x_u by auto. reflexivity.
Qed.
End Final.

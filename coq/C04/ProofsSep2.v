(* C04: the tolerance-0 theorems transferred to the run with the source tolerances under sep_ok. *)
From Coq Require Import ZArith QArith List Bool Arith Lia Lqa.
From QE Require Import Base.Num Base.Pivot Base.PivotProofs C04.Model C04.Proofs C04.Proofs6 C04.Proofs9 C04.Sep C04.ProofsSep
     C04.ProofsMM2 Gen.Consts.
Import ListNotations.
Open Scope Q_scope.

(* PivOptions() of the current source *)
Definition opts_src : @PivOptions Q := {| fea_tol := lp_FEA_TOL; tol_piv := lp_TOL_PIV; tol_ratio_diff := lp_TOL_RATIO_DIFF |}.
Lemma opts_src_nonneg : 0 <= fea_tol opts_src /\ 0 <= tol_piv opts_src /\ 0 <= tol_ratio_diff opts_src.
Proof. vm_compute. repeat split; intro H; discriminate H. Qed.

Theorem status0_certificate_src c m k Aub bub Aeq beq max_iter x lam fn success ni :
  length bub = m -> length beq = k ->
  linprog_sep c m k Aub bub Aeq beq max_iter opts_src = true ->
  linprog_simplex c m k Aub bub Aeq beq max_iter opts_src = (x, lam, fn, success, 0%nat, ni) ->
  let n := length c in
  success = true /\
  primal_feasible n m k Aub bub Aeq beq x /\
  dual_feasible n m k c Aub Aeq lam /\
  dotn n c x == fn /\ fn == dual_obj m k bub beq lam.
Proof.
  intros Hb1 Hb2 Hs H. destruct opts_src_nonneg as (H1 & H2 & H3).
  rewrite (tolerance_irrelevant _ _ _ _ _ _ _ _ _ H1 H2 H3 Hs) in H.
  exact (status0_certificate _ _ _ _ _ _ _ _ _ _ _ _ _ Hb1 Hb2 H).
Qed.

Theorem status_iff_src c m k Aub bub Aeq beq max_iter x lam fn success status ni :
  length bub = m -> length beq = k ->
  linprog_sep c m k Aub bub Aeq beq max_iter opts_src = true ->
  linprog_simplex c m k Aub bub Aeq beq max_iter opts_src = (x, lam, fn, success, status, ni) ->
  status <> 1%nat ->
  let n := length c in
  (status = 0%nat <-> lp_optimal n m k c Aub bub Aeq beq) /\
  (status = 2%nat <-> lp_infeasible n m k Aub bub Aeq beq) /\
  (status = 3%nat <-> lp_unbounded n m k c Aub bub Aeq beq).
Proof.
  intros Hb1 Hb2 Hs H. destruct opts_src_nonneg as (H1 & H2 & H3).
  rewrite (tolerance_irrelevant _ _ _ _ _ _ _ _ _ H1 H2 H3 Hs) in H.
  exact (status_iff _ _ _ _ _ _ _ _ _ _ _ _ _ _ Hb1 Hb2 H).
Qed.

Theorem minmax_certificate_src m n A max_iter v x y :
  (0 < m)%nat -> (0 < n)%nat -> wf m n A ->
  minmax_sep m n A max_iter opts_src = true ->
  minmax_inner_status m n A max_iter = 0%nat ->
  minmax m n A max_iter opts_src = (v, x, y) ->
  (forall i, (i < m)%nat -> 0 <= vget x i) /\ sumQ m (vget x) == 1 /\
  (forall j, (j < n)%nat -> 0 <= vget y j) /\ sumQ n (vget y) == 1 /\
  (forall j, (j < n)%nat -> v <= sumQ m (fun i => vget x i * get A i j)) /\
  (forall i, (i < m)%nat -> sumQ n (fun j => get A i j * vget y j) <= v).
Proof.
  intros Hm Hn HA Hs Hst H. destruct opts_src_nonneg as (H1 & H2 & H3).
  rewrite (minmax_tolerance_irrelevant _ _ _ _ _ H1 H2 H3 Hs) in H.
  exact (minmax_certificate _ _ _ _ _ _ _ Hm Hn HA Hst H).
Qed.

(* C04 proofs, minmax part 2: the minmax tableau, its two scripted pivots, and the saddle-point
   certificate when the inner solve_tableau ends with status 0 (tolerance 0). *)
From Coq Require Import ZArith QArith List Bool Arith Lia Lqa Setoid Morphisms.
From QE Require Import Base.Num Base.Pivot Base.PivotProofs C04.Model C04.Proofs C04.Proofs2 C04.Proofs5 C04.ProofsMM1.
Import ListNotations.
Open Scope Q_scope.

Lemma fold_min_le (l : list Q) a0 :
  let r := fold_left (fun a x => if nltb x a then x else a) l a0 in
  r <= a0 /\ forall x, In x l -> r <= x.
Proof.
  revert a0. induction l as [|y l IH]; intros a0; cbn [fold_left].
  - split; [lra|intros x []].
  - destruct (nltb y a0) eqn:E.
    + apply nltb_lt in E. destruct (IH y) as [H1 H2]. split; [lra|]. intros x [<-|Hx]; auto.
    + apply nltb_false in E. destruct (IH a0) as [H1 H2]. split; [auto|]. intros x [<-|Hx]; auto. lra.
Qed.

Lemma dec_exists_lt (P : nat -> Prop) n :
  (forall i, {P i} + {~ P i}) -> (exists i, (i < n)%nat /\ P i) \/ (forall i, (i < n)%nat -> ~ P i).
Proof.
  intros Hdec. induction n as [|n IH].
  - right. intros i Hi. lia.
  - destruct IH as [(i & Hi & HP)|Hno].
    + left. exists i. split; [lia|auto].
    + destruct (Hdec n) as [HP|HnP].
      * left. exists n. split; [lia|auto].
      * right. intros i Hi. destruct (Nat.eq_dec i n) as [->|]; auto. apply Hno. lia.
Qed.

Section MM.
Variables (m n : nat) (A : matQ).
Hypothesis Hm : (0 < m)%nat.
Hypothesis Hn : (0 < n)%nat.
Hypothesis HA : wf m n A.
Let L := S m.
Let nc := (n + 1 + m + 1)%nat.

Definition cst : Q := minmax_const A.
Definition Ab (i j : nat) : Q := get A i j + cst.

Lemma mat_min_le i j : (i < m)%nat -> (j < n)%nat -> mat_min A <= get A i j.
Proof.
  intros Hi Hj. unfold mat_min. destruct HA as [Hl Hr].
  destruct (fold_min_le (concat A) (vget (concat A) 0%nat)) as [_ H]. apply H.
  apply in_concat. exists (nth i A []). split.
  - apply nth_In. lia.
  - unfold get. apply nth_In. rewrite Hr by auto. auto.
Qed.

(* a positive lower bound of the shifted matrix *)
Definition lb : Q := if Qle_bool (mat_min A) 0 then 1 else mat_min A.
Lemma lb_pos : 0 < lb.
Proof. unfold lb. destruct (Qle_bool (mat_min A) 0) eqn:E; [lra|]. apply nleb_false in E. exact E. Qed.
Lemma Ab_lb i j : (i < m)%nat -> (j < n)%nat -> lb <= Ab i j.
Proof.
  intros Hi Hj. pose proof (mat_min_le i j Hi Hj) as H. unfold Ab, cst, minmax_const, lb.
  change (nleb (mat_min A) nzero) with (Qle_bool (mat_min A) 0).
  destruct (Qle_bool (mat_min A) 0) eqn:E.
  - change (nadd (nmul (mat_min A) mone) none_) with (Qaddr (Qmulr (mat_min A) mone) 1).
    rewrite Qaddr_eq, Qmulr_eq, mone_eq. lra.
  - change (@nzero Q NumQ) with 0. lra.
Qed.
Lemma Ab_pos i j : (i < m)%nat -> (j < n)%nat -> 0 < Ab i j.
Proof. intros. pose proof lb_pos. pose proof (Ab_lb i j H H0). lra. Qed.

Definition tb0 : matQ := minmax_tableau m n A cst.

Lemma wf_tb0 : wf (S L) nc tb0.
Proof. unfold tb0, minmax_tableau. replace (S L) with (m + 2)%nat by (unfold L; lia). apply wf_tab. Qed.

Lemma tb0_entry i j : (i < S L)%nat -> (j < nc)%nat ->
  get tb0 i j ==
    if Nat.ltb i m then
      (if Nat.ltb j n then Ab i j else if Nat.eqb j n then -1 else if Nat.eqb j (n + 1 + i) then 1 else 0)
    else if Nat.eqb i m then (if Nat.ltb j n || Nat.eqb j (n + 1 + m) then 1 else 0)
    else (if Nat.eqb j n then -1 else 0).
Proof.
  intros Hi Hj. unfold tb0, minmax_tableau. rewrite get_tab by (unfold L, nc in *; lia).
  destruct (Nat.ltb i m).
  - destruct (Nat.ltb j n).
    + change (nadd (get A i j) cst) with (Qaddr (get A i j) cst). rewrite Qaddr_eq. reflexivity.
    + destruct (Nat.eqb j n); [apply mone_eq|]. destruct (Nat.eqb j (n + 1 + i)); reflexivity.
  - destruct (Nat.eqb i m).
    + destruct (Nat.ltb j n || Nat.eqb j (n + 1 + m)); reflexivity.
    + destruct (Nat.eqb j n); [apply mone_eq|reflexivity].
Qed.

Definition ac (k : nat) : nat := if Nat.ltb k m then (n + 1 + k)%nat else (nc - 1)%nat.
Definition objm (j : nat) : Q := if Nat.eqb j n then -1 else 0.

Lemma ac_lt k : (k < L)%nat -> (ac k < nc)%nat.
Proof. intros. unfold ac, nc. destruct (Nat.ltb_spec k m); lia. Qed.

Lemma tb0_ident k j : (k < L)%nat -> (j < L)%nat -> get tb0 k (ac j) == if Nat.eqb k j then 1 else 0.
Proof.
  intros Hk Hj. rewrite tb0_entry by (auto using ac_lt; lia). unfold ac, nc, L in *.
  destruct (Nat.ltb_spec k m); destruct (Nat.ltb_spec j m).
  - destruct (Nat.ltb_spec (n + 1 + j) n); [lia|]. destruct (Nat.eqb_spec (n + 1 + j) n); [lia|].
    destruct (Nat.eqb_spec (n + 1 + j) (n + 1 + k)); destruct (Nat.eqb_spec k j); try lia; reflexivity.
  - destruct (Nat.ltb_spec (n + 1 + m + 1 - 1) n); [lia|]. destruct (Nat.eqb_spec (n + 1 + m + 1 - 1) n); [lia|].
    destruct (Nat.eqb_spec (n + 1 + m + 1 - 1) (n + 1 + k)); [lia|]. destruct (Nat.eqb_spec k j); [lia|reflexivity].
  - destruct (Nat.eqb_spec k m); [|lia]. destruct (Nat.ltb_spec (n + 1 + j) n); [lia|].
    destruct (Nat.eqb_spec (n + 1 + j) (n + 1 + m)); [lia|]. cbn [orb]. destruct (Nat.eqb_spec k j); [lia|reflexivity].
  - destruct (Nat.eqb_spec k m); [|lia]. destruct (Nat.eqb_spec (n + 1 + m + 1 - 1) (n + 1 + m)); [|lia].
    rewrite orb_true_r. destruct (Nat.eqb_spec k j); [reflexivity|lia].
Qed.

Lemma tb0_rows i : (i < L)%nat -> comb_linG L ac nc tb0 (rowf tb0 i).
Proof. intros Hi. apply comb_linG_init; auto. intros; apply tb0_ident; auto. Qed.

Lemma tb0_crit : comb_affG L ac nc tb0 objm (rowf tb0 L).
Proof.
  assert (E1 : Nat.ltb L m = false) by (apply Nat.ltb_ge; unfold L; lia).
  assert (E2 : Nat.eqb L m = false) by (apply Nat.eqb_neq; unfold L; lia).
  intros j Hj. unfold rowf. rewrite tb0_entry by (auto; lia). rewrite E1, E2.
  rewrite sumQ_zero; [unfold objm; destruct (Nat.eqb j n); ring|].
  intros k Hk. rewrite tb0_entry by (auto using ac_lt; lia). rewrite E1, E2.
  unfold objm. assert (ac k <> n) by (unfold ac, nc; destruct (Nat.ltb_spec k m); lia).
  destruct (Nat.eqb_spec (ac k) n); [contradiction|]. ring.
Qed.

(* the scripted pivots *)
Definition pr0 : nat := minmax_pivrow m tb0.

Lemma pr0_spec : (pr0 < m)%nat /\ forall i, (i < m)%nat -> get tb0 i 0%nat <= get tb0 pr0 0%nat.
Proof.
  unfold pr0, minmax_pivrow.
  assert (G : forall len s r mx, (r < s)%nat -> mx = get tb0 r 0%nat -> (forall i, (i < s)%nat -> get tb0 i 0%nat <= mx) ->
     let res := fst (fold_left (fun (st : nat * Q) i => let '(r, mx) := st in
                       if nltb mx (get tb0 i 0%nat) then (i, get tb0 i 0%nat) else st) (seq s len) (r, mx)) in
     (res < s + len)%nat /\ forall i, (i < s + len)%nat -> get tb0 i 0%nat <= get tb0 res 0%nat).
  { induction len as [|len IH]; intros s r mx Hr Hmx Hall; cbn [seq fold_left fst].
    - rewrite Nat.add_0_r. split; [auto|]. intros i Hi. rewrite <- Hmx. auto.
    - cbv zeta in IH. replace (s + S len)%nat with (S s + len)%nat by lia.
      destruct (nltb mx (get tb0 s 0%nat)) eqn:E.
      + apply nltb_lt in E. apply IH; auto. intros i Hi. destruct (Nat.eq_dec i s) as [->|]; [lra|].
        specialize (Hall i ltac:(lia)). lra.
      + apply nltb_false in E. apply IH; auto. intros i Hi. destruct (Nat.eq_dec i s) as [->|]; [lra|]. apply Hall. lia. }
  destruct (G (m - 1)%nat 1%nat 0%nat (get tb0 0%nat 0%nat)) as [H1 H2]; auto.
  - intros i Hi. replace i with 0%nat by lia. lra.
  - cbv zeta in H1, H2. replace (1 + (m - 1))%nat with m in * by lia. split; auto.
Qed.

Definition tb1 : matQ := pivoting tb0 n pr0.
Definition tb2 : matQ := pivoting tb1 0 m.
Definition basis0 : list nat := seq (n + 1) (m + 1).
Definition basis2 : list nat := set_nth (set_nth basis0 pr0 n) m 0%nat.

Lemma wf_tb1 : wf (S L) nc tb1.
Proof. apply wf_pivoting; [apply wf_tb0|]. pose proof pr0_spec. unfold L. lia. Qed.
Lemma wf_tb2 : wf (S L) nc tb2.
Proof. apply wf_pivoting; [apply wf_tb1|]. unfold L. lia. Qed.

Lemma tb0_pn : get tb0 pr0 n == -1.
Proof.
  destruct pr0_spec as [Hp _]. rewrite tb0_entry by (unfold L, nc; lia).
  destruct (Nat.ltb_spec pr0 m); [|lia]. destruct (Nat.ltb_spec n n); [lia|]. now rewrite Nat.eqb_refl.
Qed.

Lemma tb1_entry i j : (i < S L)%nat -> (j < nc)%nat ->
  get tb1 i j == if Nat.eqb i pr0 then - get tb0 pr0 j else get tb0 i j + get tb0 pr0 j * get tb0 i n.
Proof.
  intros Hi Hj. destruct pr0_spec as [Hp _]. unfold tb1.
  rewrite (get_pivoting (S L) nc) by (auto; try apply wf_tb0; unfold L; lia).
  destruct (Nat.eqb i pr0); rewrite tb0_pn; field.
Qed.

Lemma tb1_row_m j : (j < nc)%nat -> get tb1 m j == get tb0 m j.
Proof.
  intros Hj. destruct pr0_spec as [Hp _]. rewrite tb1_entry by (auto; unfold L; lia).
  destruct (Nat.eqb_spec m pr0); [lia|].
  assert (E : get tb0 m n == 0).
  { rewrite tb0_entry by (unfold L, nc; lia). destruct (Nat.ltb_spec m m); [lia|]. rewrite Nat.eqb_refl.
    destruct (Nat.ltb_spec n n); [lia|]. destruct (Nat.eqb_spec n (n + 1 + m)); [lia|]. reflexivity. }
  rewrite E. ring.
Qed.
Lemma tb1_m0 : get tb1 m 0%nat == 1.
Proof.
  rewrite tb1_row_m by (unfold nc; lia). rewrite tb0_entry by (unfold L, nc; lia).
  destruct (Nat.ltb_spec m m); [lia|]. rewrite Nat.eqb_refl. destruct (Nat.ltb_spec 0 n); [reflexivity|lia].
Qed.

Lemma basis0_nth i : (i < L)%nat -> nth i basis0 0%nat = (n + 1 + i)%nat.
Proof. intros Hi. unfold basis0. apply seq_nth. unfold L in Hi. lia. Qed.

Lemma tb0_slack_col k i : (k < S L)%nat -> (i < m)%nat -> get tb0 k (n + 1 + i)%nat == if Nat.eqb k i then 1 else 0.
Proof.
  intros Hk Hi. rewrite tb0_entry by (auto; unfold nc; lia).
  destruct (Nat.ltb_spec k m).
  - destruct (Nat.ltb_spec (n + 1 + i) n); [lia|]. destruct (Nat.eqb_spec (n + 1 + i) n); [lia|].
    destruct (Nat.eqb_spec (n + 1 + i) (n + 1 + k)); destruct (Nat.eqb_spec k i); try lia; reflexivity.
  - destruct (Nat.eqb_spec k i); [lia|]. destruct (Nat.eqb_spec k m).
    + destruct (Nat.ltb_spec (n + 1 + i) n); [lia|]. destruct (Nat.eqb_spec (n + 1 + i) (n + 1 + m)); [lia|]. reflexivity.
    + destruct (Nat.eqb_spec (n + 1 + i) n); [lia|reflexivity].
Qed.

Lemma basis1_nth i : (i < L)%nat -> nth i (set_nth basis0 pr0 n) 0%nat = if Nat.eqb i pr0 then n else (n + 1 + i)%nat.
Proof.
  intros Hi. destruct pr0_spec as [Hp _]. rewrite nth_set_nth. unfold basis0 at 1. rewrite seq_length.
  destruct (Nat.eqb i pr0); [destruct (Nat.ltb_spec pr0 (m + 1)); [auto|lia]|apply basis0_nth; auto].
Qed.
Lemma basis2_nth i : (i < L)%nat ->
  nth i basis2 0%nat = if Nat.eqb i m then 0%nat else if Nat.eqb i pr0 then n else (n + 1 + i)%nat.
Proof.
  intros Hi. unfold basis2. rewrite nth_set_nth, length_set_nth. unfold basis0 at 1. rewrite seq_length.
  destruct (Nat.eqb i m); [destruct (Nat.ltb_spec m (m + 1)); [auto|lia]|apply basis1_nth; auto].
Qed.

Lemma unit_tb2 : unit_cols (S L) L tb2 basis2.
Proof.
  destruct pr0_spec as [Hp _].
  assert (U0 : unit_colsP (S L) L (fun i => (i < m)%nat) tb0 basis0).
  { intros i k0 Hi Him Hk. rewrite basis0_nth by auto. apply tb0_slack_col; auto. }
  assert (U1 : unit_colsP (S L) L (fun i => (i < m)%nat \/ i = pr0) tb1 (set_nth basis0 pr0 n)).
  { apply (unit_colsP_pivoting (S L) nc L _ tb0 basis0 n pr0);
      [apply wf_tb0|lia| |unfold L; lia|unfold nc; lia| | |exact U0|].
    - unfold basis0. rewrite seq_length. unfold L. lia.
    - intros i Hi. rewrite basis0_nth by auto. unfold nc, L in *. lia.
    - rewrite tb0_pn. lra.
    - intros i Hi Him Hne. rewrite basis0_nth by auto. rewrite tb0_slack_col by (auto; unfold L; lia).
      destruct (Nat.eqb_spec pr0 i); [congruence|reflexivity]. }
  assert (U2 : unit_colsP (S L) L (fun i => ((i < m)%nat \/ i = pr0) \/ i = m) tb2 basis2).
  { apply (unit_colsP_pivoting (S L) nc L _ tb1 (set_nth basis0 pr0 n) 0%nat m);
      [apply wf_tb1|lia| |unfold L; lia|unfold nc; lia| | |exact U1|].
    - rewrite length_set_nth. unfold basis0. rewrite seq_length. unfold L. lia.
    - intros i Hi. rewrite basis1_nth by auto. destruct (Nat.eqb i pr0); unfold nc, L in *; lia.
    - rewrite tb1_m0. lra.
    - intros i Hi HS Hne. rewrite basis1_nth by auto.
      assert (Him : (i < m)%nat) by (unfold L in Hi; destruct HS; lia).
      destruct (Nat.eqb i pr0).
      + rewrite tb1_row_m by (unfold nc; lia). rewrite tb0_entry by (unfold L, nc; lia).
        destruct (Nat.ltb_spec m m); [lia|]. rewrite Nat.eqb_refl. destruct (Nat.ltb_spec n n); [lia|].
        destruct (Nat.eqb_spec n (n + 1 + m)); [lia|reflexivity].
      + rewrite tb1_row_m by (unfold nc; lia). rewrite tb0_slack_col by (auto; unfold L; lia).
        destruct (Nat.eqb_spec m i); [lia|reflexivity]. }
  apply (unit_colsP_all (S L) L (fun i => ((i < m)%nat \/ i = pr0) \/ i = m)); [|exact U2].
  intros i Hi. unfold L in Hi. destruct (Nat.eq_dec i m); [right; auto|left; left; lia].
Qed.

Lemma sol_tb2 u : solves L nc tb2 u -> solves L nc tb0 u.
Proof.
  destruct pr0_spec as [Hp _]. intros H.
  apply (solves_pivoting_back (S L) nc L tb0 n pr0 u); [apply wf_tb0|lia|unfold L; lia|unfold nc; lia|rewrite tb0_pn; lra|].
  apply (solves_pivoting_back (S L) nc L tb1 0 m u); [apply wf_tb1|lia|unfold L; lia|unfold nc; lia|rewrite tb1_m0; lra|auto].
Qed.

Lemma rows_tb2 i : (i < S L)%nat -> comb_affG L ac nc tb0 (if Nat.eqb i L then objm else fun _ => 0) (rowf tb2 i).
Proof.
  destruct pr0_spec as [Hp _]. intros Hi.
  assert (R0 : forall i, (i < S L)%nat -> comb_affG L ac nc tb0 (if Nat.eqb i L then objm else fun _ => 0) (rowf tb0 i)).
  { intros i0 Hi0. destruct (Nat.eqb_spec i0 L) as [->|]; [apply tb0_crit|apply tb0_rows; lia]. }
  assert (R1 : forall i, (i < S L)%nat -> comb_affG L ac nc tb0 (if Nat.eqb i L then objm else fun _ => 0) (rowf tb1 i)).
  { intros i0 Hi0. destruct (Nat.eq_dec i0 pr0) as [->|Hne].
    - destruct (Nat.eqb_spec pr0 L); [unfold L in *; lia|].
      apply (pivoting_comb_linG_pivrow (S L) nc); [apply wf_tb0|unfold L; lia|apply ac_lt|apply tb0_rows; unfold L; lia].
    - apply (pivoting_comb_affG_other (S L) nc); [apply wf_tb0|unfold L; lia|auto|auto|apply ac_lt|apply tb0_rows; unfold L; lia|apply R0; auto]. }
  destruct (Nat.eq_dec i m) as [->|Hne].
  - destruct (Nat.eqb_spec m L); [unfold L in *; lia|].
    apply (pivoting_comb_linG_pivrow (S L) nc); [apply wf_tb1|unfold L; lia|apply ac_lt|].
    specialize (R1 m ltac:(unfold L; lia)). destruct (Nat.eqb_spec m L); [unfold L in *; lia|exact R1].
  - apply (pivoting_comb_affG_other (S L) nc); [apply wf_tb1|unfold L; lia|auto|auto|apply ac_lt| |apply R1; auto].
    specialize (R1 m ltac:(unfold L; lia)). destruct (Nat.eqb_spec m L); [unfold L in *; lia|exact R1].
Qed.

Lemma tb0_rhs_lt i : (i < m)%nat -> get tb0 i (nc - 1)%nat == 0.
Proof.
  intros Hi. rewrite tb0_entry by (unfold L, nc; lia). destruct (Nat.ltb_spec i m); [|lia]. unfold nc.
  destruct (Nat.ltb_spec (n + 1 + m + 1 - 1) n); [lia|]. destruct (Nat.eqb_spec (n + 1 + m + 1 - 1) n); [lia|].
  destruct (Nat.eqb_spec (n + 1 + m + 1 - 1) (n + 1 + i)); [lia|reflexivity].
Qed.
Lemma tb0_rhs_m : get tb0 m (nc - 1)%nat == 1.
Proof.
  rewrite tb0_entry by (unfold L, nc; lia). destruct (Nat.ltb_spec m m); [lia|]. rewrite Nat.eqb_refl. unfold nc.
  destruct (Nat.eqb_spec (n + 1 + m + 1 - 1) (n + 1 + m)); [|lia]. now rewrite orb_true_r.
Qed.
Lemma tb0_x i j : (i < m)%nat -> (j < n)%nat -> get tb0 i j == Ab i j.
Proof.
  intros Hi Hj. rewrite tb0_entry by (unfold L, nc; lia). destruct (Nat.ltb_spec i m); [|lia].
  destruct (Nat.ltb_spec j n); [reflexivity|lia].
Qed.
Lemma tb0_v i : (i < m)%nat -> get tb0 i n == -1.
Proof.
  intros Hi. rewrite tb0_entry by (unfold L, nc; lia). destruct (Nat.ltb_spec i m); [|lia].
  destruct (Nat.ltb_spec n n); [lia|]. now rewrite Nat.eqb_refl.
Qed.

Lemma rhs_tb2 : rhs_nonneg L nc tb2.
Proof.
  destruct pr0_spec as [Hp Hmax]. intros i Hi. unfold tb2.
  rewrite (get_pivoting (S L) nc) by (auto; try apply wf_tb1; unfold L, nc in *; lia).
  pose proof (tb1_row_m (nc - 1)%nat ltac:(unfold nc; lia)) as Em. rewrite tb0_rhs_m in Em.
  destruct (Nat.eqb_spec i m) as [->|Hne].
  - rewrite tb1_m0, Em. setoid_replace (1 / 1) with 1 by field. lra.
  - assert (Him : (i < m)%nat) by (unfold L in Hi; lia).
    rewrite tb1_m0, Em. rewrite !tb1_entry by (unfold L, nc in *; lia).
    pose proof (Ab_pos pr0 0%nat Hp Hn) as Hpos. rewrite <- tb0_x in Hpos by auto.
    specialize (Hmax i Him).
    destruct (Nat.eqb i pr0).
    + rewrite !tb0_rhs_lt by auto. field_simplify. lra.
    + rewrite !tb0_rhs_lt, !tb0_v by auto. field_simplify. lra.
Qed.

Lemma inv_tb2 : tab_invG L nc ac tb0 objm tb2 basis2.
Proof.
  destruct pr0_spec as [Hp _]. constructor.
  - unfold nc. lia.
  - apply ac_lt.
  - apply wf_tb2.
  - unfold basis2. rewrite !length_set_nth. unfold basis0. rewrite seq_length. unfold L. lia.
  - intros i Hi. rewrite basis2_nth by auto. destruct (Nat.eqb_spec i m); [unfold nc; lia|].
    destruct (Nat.eqb i pr0); unfold nc, L in *; lia.
  - intros i Hi. pose proof (rows_tb2 i ltac:(lia)) as H. destruct (Nat.eqb_spec i L); [lia|exact H].
  - pose proof (rows_tb2 L ltac:(lia)) as H. rewrite Nat.eqb_refl in H. exact H.
  - apply unit_tb2.
  - apply sol_tb2.
Qed.
End MM.

(* ------------------------------------------------------------------ the certificate at status 0 *)
Section MMFinal.
Variables (m n : nat) (A : matQ).
Hypothesis Hm : (0 < m)%nat.
Hypothesis Hn : (0 < n)%nat.
Hypothesis HA : wf m n A.
Let L := S m.
Let nc := (n + 1 + m + 1)%nat.
Notation tb0' := (tb0 m n A).
Notation Ab' := (Ab A).
Variables (T : matQ) (bs : list nat).
Hypothesis Hinv : tab_invG L nc (ac m n) tb0' (objm n) T bs.
Hypothesis Hrhs : rhs_nonneg L nc T.
Hypothesis Hopt : forall j, (j < nc - 1)%nat -> get T L j <= 0.

Let u := bsol L nc T bs.
Definition mm_y : list Q :=
  fold_left (fun y i => let b := nth i bs 0%nat in
                        if Nat.ltb b n then set_nth y b (get T i (nc - 1)%nat) else y)
            (seq 0 L) (repeat nzero n).
Definition mm_x : list Q :=
  tabv m (fun j => let v := get T L (n + 1 + j)%nat in if negb (neqb v nzero) then nmul v mone else v).
Definition mm_v : Q := nsub (get T L (nc - 1)%nat) (cst A).
Let V := get T L (nc - 1)%nat.

Lemma tb0_rhs_lt' i : (i < m)%nat -> get tb0' i (nc - 1)%nat == 0.
Proof. intros. apply tb0_rhs_lt; auto. Qed.
Lemma tb0_rhs_m' : get tb0' m (nc - 1)%nat == 1.
Proof. apply tb0_rhs_m; auto. Qed.

Lemma y_u j : (j < n)%nat -> vget mm_y j == u j.
Proof.
  intros Hj. unfold mm_y.
  destruct (x_fold (S L) L nc n T bs ltac:(lia) (tg_unit _ _ _ _ _ _ _ Hinv) L 0 (repeat nzero n)) as [_ H]; auto.
  - apply repeat_length.
  - intros j' Hj'. cbn [sumQ]. apply vget_repeat0.
  - apply H; auto.
Qed.
Lemma x_e i : (i < m)%nat -> vget mm_x i == - get T L (n + 1 + i)%nat.
Proof.
  intros Hi. unfold mm_x, vget. rewrite nth_tabv by auto. cbv zeta.
  change (neqb ?v nzero) with (Qeq_bool v 0). change (nmul ?v mone) with (Qmulr v mone).
  destruct (Qeq_bool (get T L (n + 1 + i)%nat) 0) eqn:E0; cbn [negb].
  - apply Qeq_bool_iff in E0. rewrite E0. ring.
  - rewrite Qmulr_eq, mone_eq. ring.
Qed.
Lemma v_e : mm_v == V - cst A.
Proof. unfold mm_v. change (nsub ?a ?b) with (Qsubr a b). apply Qsubr_eq. Qed.

Lemma u_solves_mm : solves L nc tb0' u.
Proof. apply (tg_sol _ _ _ _ _ _ _ Hinv). apply (bsol_solves (S L)); [lia|apply (tg_bas _ _ _ _ _ _ _ Hinv)|apply (tg_unit _ _ _ _ _ _ _ Hinv)]. Qed.
Lemma u_nonneg_mm j : 0 <= u j.
Proof. apply bsol_nonneg. apply Hrhs. Qed.

Lemma sum_cols_mm (f : nat -> Q) :
  sumQ (nc - 1) f == sumQ n f + f n + sumQ m (fun k => f (n + 1 + k)%nat).
Proof.
  replace (nc - 1)%nat with (n + (1 + m))%nat by (unfold nc; lia).
  rewrite sumQ_split, sumQ_split. cbn [sumQ]. rewrite Nat.add_0_r.
  rewrite (sumQ_ext m (fun j => f (n + (1 + j))%nat) (fun k => f (n + 1 + k)%nat)).
  - ring.
  - intros j Hj. now rewrite Nat.add_assoc.
Qed.

Lemma row_lt i : (i < m)%nat -> sumQ n (fun j => Ab' i j * u j) - u n + u (n + 1 + i)%nat == 0.
Proof.
  intros Hi. pose proof (u_solves_mm i ltac:(unfold L; lia)) as E. rewrite sum_cols_mm in E.
  rewrite tb0_rhs_lt' in E by auto.
  rewrite (sumQ_ext n _ (fun j => Ab' i j * u j)) in E by (intros j Hj; rewrite (tb0_x m n A) by auto; reflexivity).
  rewrite (tb0_v m n A) in E by auto.
  rewrite (sumQ_ext m _ (fun k => if Nat.eqb k i then u (n + 1 + k)%nat else 0)) in E.
  2:{ intros k Hk. rewrite (tb0_slack_col m n A) by (auto; lia).
      destruct (Nat.eqb_spec i k), (Nat.eqb_spec k i); try lia; ring. }
  rewrite sumQ_delta in E. destruct (Nat.ltb_spec i m); [|lia]. lra.
Qed.
Lemma row_m : sumQ n u == 1.
Proof.
  pose proof (u_solves_mm m ltac:(unfold L; lia)) as E. rewrite sum_cols_mm in E.
  rewrite tb0_rhs_m' in E.
  rewrite (sumQ_ext n _ u) in E.
  2:{ intros j Hj. rewrite (tb0_entry m n A) by (unfold nc; lia). destruct (Nat.ltb_spec m m); [lia|].
      rewrite Nat.eqb_refl. destruct (Nat.ltb_spec j n); [|lia]. cbn [orb]. ring. }
  assert (E1 : get tb0' m n == 0).
  { rewrite (tb0_entry m n A) by (unfold nc; lia). destruct (Nat.ltb_spec m m); [lia|]. rewrite Nat.eqb_refl.
    destruct (Nat.ltb_spec n n); [lia|]. destruct (Nat.eqb_spec n (n + 1 + m)); [lia|reflexivity]. }
  rewrite E1 in E.
  rewrite (sumQ_zero m) in E.
  2:{ intros k Hk. rewrite (tb0_slack_col m n A) by (auto; lia). destruct (Nat.eqb_spec m k); [lia|ring]. }
  lra.
Qed.

Lemma crit_mm j : (j < nc)%nat ->
  get T L j == objm n j + sumQ m (fun k => get T L (n + 1 + k)%nat * get tb0' k j) + V * get tb0' m j.
Proof.
  intros Hj. pose proof (tg_crit _ _ _ _ _ _ _ Hinv j Hj) as E. unfold rowf in E.
  change (get T L j == objm n j + sumQ (S m) (fun k => (get T L (ac m n k) - objm n (ac m n k)) * get tb0' k j)) in E.
  cbn [sumQ] in E. rewrite E. clear E.
  rewrite <- Qplus_assoc. apply Qplus_comp; [reflexivity|]. apply Qplus_comp.
  - apply sumQ_ext. intros k Hk. unfold ac, objm. destruct (Nat.ltb_spec k m); [|lia].
    destruct (Nat.eqb_spec (n + 1 + k) n); [lia|]. ring.
  - unfold ac, objm, V. destruct (Nat.ltb_spec m m); [lia|]. fold nc.
    destruct (Nat.eqb_spec (nc - 1) n); [unfold nc in *; lia|]. ring.
Qed.

Lemma x_nonneg i : (i < m)%nat -> 0 <= vget mm_x i.
Proof. intros Hi. rewrite x_e by auto. specialize (Hopt (n + 1 + i)%nat ltac:(unfold nc; lia)). lra. Qed.

Lemma un_V : u n == V.
Proof.
  pose proof (obj_valueG _ _ _ _ _ _ _ Hinv) as E. fold u in E.
  rewrite (sumQ_ext _ _ (fun j => if Nat.eqb j n then (-1) * u j else 0)) in E.
  2:{ intros j Hj. unfold objm. destruct (Nat.eqb j n); ring. }
  rewrite sumQ_delta in E. destruct (Nat.ltb_spec n (nc - 1)); [|unfold nc in *; lia].
  unfold objm in E. destruct (Nat.eqb_spec (nc - 1) n); [unfold nc in *; lia|]. unfold V. lra.
Qed.

Lemma un_pos : 0 < u n.
Proof.
  pose proof (row_lt 0%nat Hm) as E. pose proof (lb_pos A) as Hl.
  assert (lb A <= sumQ n (fun j => Ab' 0%nat j * u j)).
  { rewrite <- (Qmult_1_r (lb A)). rewrite <- row_m. rewrite <- sumQ_scale. apply sumQ_le. intros j Hj.
    apply Qmult_le_compat_r; [apply (Ab_lb m n A); auto|apply u_nonneg_mm]. }
  pose proof (u_nonneg_mm (n + 1 + 0)%nat). lra.
Qed.

Lemma x_sum : sumQ m (vget mm_x) == 1.
Proof.
  assert (Hb : exists i, (i < L)%nat /\ nth i bs 0%nat = n).
  { destruct (dec_exists_lt (fun i => nth i bs 0%nat = n) L ltac:(intros; apply Nat.eq_dec)) as [H|H]; auto.
    exfalso. pose proof un_pos as Hp. assert (E : u n == 0) by (apply bsol_nonbasic; auto). lra. }
  destruct Hb as (i & Hi & Eb).
  pose proof (tg_unit _ _ _ _ _ _ _ Hinv i L Hi ltac:(lia)) as E0. rewrite Eb in E0.
  destruct (Nat.eqb_spec L i); [lia|].
  pose proof (crit_mm n ltac:(unfold nc; lia)) as E. rewrite E0 in E.
  assert (E1 : get tb0' m n == 0).
  { rewrite (tb0_entry m n A) by (unfold nc; lia). destruct (Nat.ltb_spec m m); [lia|]. rewrite Nat.eqb_refl.
    destruct (Nat.ltb_spec n n); [lia|]. destruct (Nat.eqb_spec n (n + 1 + m)); [lia|reflexivity]. }
  rewrite E1 in E. unfold objm in E. rewrite Nat.eqb_refl in E.
  rewrite (sumQ_ext m _ (vget mm_x)) in E.
  2:{ intros k Hk. rewrite x_e by auto. rewrite (tb0_v m n A) by auto. ring. }
  lra.
Qed.

Lemma y_sum : sumQ n (vget mm_y) == 1.
Proof. rewrite <- row_m. apply sumQ_ext. intros j Hj. apply y_u; auto. Qed.

(* column player: every row payoff against y is at most v; row player: every column payoff of x is at least v *)
Lemma col_bound j : (j < n)%nat -> mm_v <= sumQ m (fun i => vget mm_x i * get A i j).
Proof.
  intros Hj. rewrite v_e. pose proof (crit_mm j ltac:(unfold nc; lia)) as E.
  specialize (Hopt j ltac:(unfold nc; lia)). rewrite E in Hopt.
  unfold objm in Hopt. destruct (Nat.eqb_spec j n); [lia|].
  assert (E1 : get tb0' m j == 1).
  { rewrite (tb0_entry m n A) by (unfold nc; lia). destruct (Nat.ltb_spec m m); [lia|]. rewrite Nat.eqb_refl.
    destruct (Nat.ltb_spec j n); [reflexivity|lia]. }
  rewrite E1 in Hopt.
  rewrite (sumQ_ext m _ (fun i => (-1) * (vget mm_x i * get A i j) + (- cst A) * vget mm_x i)) in Hopt.
  2:{ intros i Hi. rewrite x_e by auto. rewrite (tb0_x m n A) by auto. unfold Ab. ring. }
  rewrite sumQ_lin, x_sum in Hopt. lra.
Qed.
Lemma row_bound i : (i < m)%nat -> sumQ n (fun j => get A i j * vget mm_y j) <= mm_v.
Proof.
  intros Hi. rewrite v_e. pose proof (row_lt i Hi) as E.
  rewrite (sumQ_ext n _ (fun j => 1 * (get A i j * vget mm_y j) + cst A * vget mm_y j)) in E.
  2:{ intros j Hj. rewrite y_u by auto. unfold Ab. ring. }
  rewrite sumQ_lin, y_sum in E. rewrite un_V in E. pose proof (u_nonneg_mm (n + 1 + i)%nat). lra.
Qed.
Lemma y_nonneg j : (j < n)%nat -> 0 <= vget mm_y j.
Proof. intros Hj. rewrite y_u by auto. apply u_nonneg_mm. Qed.
End MMFinal.

(* status of the solve_tableau call inside minmax (minmax itself discards it) *)
Definition minmax_inner_status (m n : nat) (A : matQ) (max_iter : nat) : nat :=
  let '(_, _, _, st, _) := solve_tableau (tb2 m n A) (basis2 m n A) (max_iter - 2) false opts0 in st.

Theorem minmax_certificate m n A max_iter v x y :
  (0 < m)%nat -> (0 < n)%nat -> wf m n A ->
  minmax_inner_status m n A max_iter = 0%nat ->
  minmax m n A max_iter opts0 = (v, x, y) ->
  (forall i, (i < m)%nat -> 0 <= vget x i) /\ sumQ m (vget x) == 1 /\
  (forall j, (j < n)%nat -> 0 <= vget y j) /\ sumQ n (vget y) == 1 /\
  (forall j, (j < n)%nat -> v <= sumQ m (fun i => vget x i * get A i j)) /\
  (forall i, (i < m)%nat -> sumQ n (fun j => get A i j * vget y j) <= v).
Proof.
  intros Hm Hn HA Hst. unfold minmax, minmax_inner_status in *. cbv zeta.
  change (pivoting (pivoting (minmax_tableau m n A (minmax_const A)) n
                             (minmax_pivrow m (minmax_tableau m n A (minmax_const A)))) 0 m) with (tb2 m n A).
  change (set_nth (set_nth (seq (n + 1) (m + 1)) (minmax_pivrow m (minmax_tableau m n A (minmax_const A))) n) m 0%nat)
    with (basis2 m n A).
  unfold solve_tableau in *.
  pose proof (solve_tableau_indG (S m) (n + 1 + m + 1) (ac m n) (tb0 m n A) (objm n) false
                (fun T _ => rhs_nonneg (S m) (n + 1 + m + 1) T)) as H.
  assert (Hstep : forall (T : matQ) (basis : list nat) (c r : nat),
     tab_invG (S m) (n + 1 + m + 1) (ac m n) (tb0 m n A) (objm n) T basis -> rhs_nonneg (S m) (n + 1 + m + 1) T -> (r < S m)%nat ->
     (c < n + 1 + m + 1 - 1 - (if false then S m else 0))%nat -> 0 < get T r c -> 0 < get T (S m) c ->
     (forall k : nat, (k < S m)%nat -> 0 < get T k c -> ratio T c (n + 1 + m + 1 - 1) r <= ratio T c (n + 1 + m + 1 - 1) k) ->
     rhs_nonneg (S m) (n + 1 + m + 1) (pivoting T c r)).
  { intros T1 b1 c r Hi1 HP1 Hr Hc Hp _ Hmin i Hi.
    apply (pivoting_rhs_nonneg (S (S m)) (n + 1 + m + 1) (S m)); auto.
    - apply (tg_wf _ _ _ _ _ _ _ Hi1).
    - lia. }
  specialize (H Hstep (max_iter - 2)%nat (tb2 m n A) (basis2 m n A) 0%nat ltac:(apply inv_tb2; auto) ltac:(apply rhs_tb2; auto)).
  destruct (solve_tableau_loop (max_iter - 2) (tb2 m n A) (basis2 m n A) false opts0 0) as [[[[T bs] su] st] ni].
  destruct H as (Hinv & Hrhs & _ & Hopt). subst st. specialize (Hopt eq_refl). cbv iota in Hopt.
  replace (n + 1 + m + 1 - 1 - 0)%nat with (n + 1 + m + 1 - 1)%nat in Hopt by lia.
  replace (m + 1)%nat with (S m) by lia.
  intros E.
  assert (Ev : v = mm_v m n A T) by (injection E; intros; subst; reflexivity).
  assert (Ex : x = mm_x m n T) by (injection E; intros; subst; reflexivity).
  assert (Ey : y = mm_y m n T bs) by (injection E; intros; subst; reflexivity).
  subst v x y.
  split; [|split; [|split; [|split; [|split]]]].
  - intros i Hi. eapply x_nonneg; eauto.
  - eapply x_sum; eauto.
  - intros j Hj. eapply y_nonneg; eauto.
  - eapply y_sum; eauto.
  - intros j Hj. eapply col_bound; eauto.
  - intros i Hi. eapply row_bound; eauto.
Qed.

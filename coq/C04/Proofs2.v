(* C04 proofs, part 2 (tolerance 0): induction principle for solve_tableau, value of the objective at
   the basic solution, the initial tableau satisfies the invariant. *)
From Coq Require Import ZArith QArith List Bool Arith Lia Lqa Setoid Morphisms.
From QE Require Import Base.Num Base.Pivot Base.PivotProofs C04.Model C04.Proofs.
Import ListNotations.
Open Scope Q_scope.

(* ------------------------------------------------------------------ induction principle for solve_tableau *)
Theorem solve_tableau_ind L nc a T0 obj (skip : bool) (P : matQ -> list nat -> Prop) :
  (forall T basis c r,
      tab_inv L nc a T0 obj T basis -> P T basis ->
      (r < L)%nat -> (c < nc - 1 - (if skip then L else 0))%nat ->
      0 < get T r c -> 0 < get T L c ->
      (forall k, (k < L)%nat -> 0 < get T k c -> ratio T c (nc - 1) r <= ratio T c (nc - 1) k) ->
      P (pivoting T c r) (set_nth basis r c)) ->
  forall fuel T basis ni,
    tab_inv L nc a T0 obj T basis -> P T basis ->
    let '(T', basis', success, status, _) := solve_tableau_loop fuel T basis skip opts0 ni in
    tab_inv L nc a T0 obj T' basis' /\ P T' basis' /\ (success = true <-> status = 0%nat) /\
    (status = 0%nat -> forall j, (j < nc - 1 - (if skip then L else 0))%nat -> get T' L j <= 0).
Proof.
  intros Hstep. induction fuel as [|f IH]; intros T basis ni Hinv HP; cbn [solve_tableau_loop].
  { split; [auto|split; [auto|split; [split; discriminate|discriminate]]]. }
  destruct (pivot_col T skip opts0) as [cf pc] eqn:Epc.
  pose proof (pivot_col_spec L nc T skip opts0 _ _ (ti_wf _ _ _ _ _ _ _ Hinv) Epc) as [Hc Hnc]. cbv zeta in Hc, Hnc.
  destruct cf; cbn [negb].
  2:{ split; [auto|split; [auto|split; [split; reflexivity|intros _; apply Hnc; reflexivity]]]. }
  assert (E1 : (nrows T - 1 = L)%nat) by (unfold nrows; destruct (ti_wf _ _ _ _ _ _ _ Hinv) as [-> _]; lia).
  assert (E2 : ncols T = nc) by (apply (wf_ncols (S L)); [apply (ti_wf _ _ _ _ _ _ _ Hinv)|lia]).
  rewrite E1, E2.
  destruct (lex_min_ratio_test_n L T pc (nc - L - 1) (tol_piv opts0) (tol_ratio_diff opts0)) as [rf pr] eqn:Er.
  destruct rf; cbn [negb].
  2:{ split; [auto|split; [auto|split; [split; discriminate|discriminate]]]. }
  pose proof (lex_min_ratio_test_n_spec _ _ _ _ _ _ _ Er) as [Hr Hp].
  pose proof (lex_min_ratio_test_n_min _ _ _ _ _ Er) as Hmin. rewrite E2 in Hmin.
  destruct (Hc eq_refl) as [Hc1 Hc2]. cbn in Hp, Hc2.
  apply IH.
  - apply tab_inv_pivot; auto; [lia|lra].
  - eapply Hstep; eauto.
Qed.

(* ------------------------------------------------------------------ objective value at the basic solution *)
Lemma obj_value L nc a T0 obj T basis :
  tab_inv L nc a T0 obj T basis ->
  sumQ (nc - 1) (fun j => obj j * bsol L nc T basis j) == obj (nc - 1)%nat - get T L (nc - 1)%nat.
Proof.
  intros Hinv. destruct Hinv as [Hnc0 Ha Hwf Hlen Hbas Hrows Hcrit Hunit Hsol].
  set (u := bsol L nc T basis).
  assert (Hu : solves L nc T0 u) by (apply Hsol; apply (bsol_solves (S L)); auto).
  assert (H0 : sumQ (nc - 1) (fun j => get T L j * u j) == 0) by (apply (bsol_dot_crit (S L)); auto).
  set (mu := fun k => get T L (a + k)%nat - obj (a + k)%nat).
  rewrite (sumQ_ext _ _ (fun j => 1 * (obj j * u j) + 1 * sumQ L (fun k => mu k * (get T0 k j * u j)))) in H0.
  2:{ intros j Hj. assert (Hj' : (j < nc)%nat) by lia. pose proof (Hcrit j Hj') as E. unfold rowf in E. rewrite E.
      rewrite Qmult_plus_distr_l. apply Qplus_comp; [ring|].
      rewrite Qmult_1_l, Qmult_comm, <- sumQ_scale. apply sumQ_ext. intros. unfold mu. ring. }
  rewrite sumQ_lin in H0.
  rewrite (sumQ_swap (nc - 1) L (fun j k => mu k * (get T0 k j * u j))) in H0.
  rewrite (sumQ_ext L _ (fun k => mu k * get T0 k (nc - 1)%nat)) in H0.
  2:{ intros k Hk. rewrite sumQ_scale. rewrite (Hu k Hk). reflexivity. }
  assert (Hnc : (nc - 1 < nc)%nat) by lia.
  pose proof (Hcrit (nc - 1)%nat Hnc) as E.
  change (get T L (nc - 1)%nat == obj (nc - 1)%nat + sumQ L (fun k => mu k * get T0 k (nc - 1)%nat)) in E.
  rewrite E. lra.
Qed.
(* ------------------------------------------------------------------ the initial tableau *)
Lemma sumQ_S_front n f : sumQ (S n) f == f 0%nat + sumQ n (fun k => f (S k)).
Proof. induction n; cbn [sumQ]; [ring|]. cbn [sumQ] in IHn. rewrite IHn. ring. Qed.

Lemma fold_left_col_sum (rows : matQ) j acc :
  fold_left (fun acc row => nadd acc (vget row j)) rows acc == acc + sumQ (length rows) (fun k => get rows k j).
Proof.
  revert acc. induction rows as [|r rows IH]; intros acc; cbn [fold_left length].
  - cbn. ring.
  - rewrite IH. rewrite sumQ_S_front. change (nadd acc (vget r j)) with (Qaddr acc (vget r j)). rewrite Qaddr_eq.
    unfold get at 2. cbn [nth]. unfold vget.
    rewrite (sumQ_ext _ (fun k => get (r :: rows) (S k) j) (fun k => get rows k j)) by (intros; reflexivity).
    change (@nzero Q NumQ) with 0. ring.
Qed.

Section Init.
Variables (n m k : nat) (Aub : matQ) (bub : list Q) (Aeq : matQ) (beq : list Q).
Let L := (m + k)%nat.
Let a := (n + m)%nat.
Let nc := (n + m + L + 1)%nat.

(* right-hand side and sign of row i, coefficient A_ij of row i *)
Definition b_of (i : nat) : Q := if Nat.ltb i m then vget bub i else vget beq (i - m).
Definition sg (i : nat) : Q := if Qltb (b_of i) 0 then -1 else 1.
Definition A_of (i j : nat) : Q := if Nat.ltb i m then get Aub i j else get Aeq (i - m) j.
Definition T0 : matQ := init_rows n m k Aub bub Aeq beq.

Lemma sg_sq i : sg i * sg i == 1.
Proof. unfold sg. destruct (Qltb _ _); ring. Qed.
Lemma sg_b_nonneg i : 0 <= sg i * b_of i.
Proof. unfold sg. destruct (Qltb (b_of i) 0) eqn:E; [apply Qltb_lt in E; lra|]. apply nltb_false in E. lra. Qed.

Lemma wf_T0 : wf L nc T0.
Proof. apply wf_tab. Qed.

Lemma mone_eq : @mone Q NumQ == -1.
Proof. reflexivity. Qed.

Lemma T0_x i j : (i < L)%nat -> (j < n)%nat -> get T0 i j == sg i * A_of i j.
Proof.
  intros Hi Hj. unfold T0, init_rows. rewrite get_tab by (fold L; lia). cbv zeta.
  destruct (Nat.ltb_spec j n); [|lia].
  unfold sg, A_of, b_of. change (@nltb Q NumQ) with Qltb. change (@nzero Q NumQ) with 0.
  destruct (Nat.ltb i m); destruct (Qltb _ 0);
    try (change (nmul ?x mone) with (Qmulr x mone); rewrite Qmulr_eq, mone_eq); ring.
Qed.
Lemma T0_slack i j : (i < L)%nat -> (j < m)%nat ->
  get T0 i (n + j)%nat == if Nat.ltb i m && Nat.eqb j i then sg i else 0.
Proof.
  intros Hi Hj. unfold T0, init_rows. rewrite get_tab by (fold L; lia). cbv zeta.
  destruct (Nat.ltb_spec (n + j) n); [lia|]. destruct (Nat.ltb_spec (n + j) (n + m)); [|lia].
  replace (n + j - n)%nat with j by lia.
  unfold sg, b_of. change (@nltb Q NumQ) with Qltb. change (@nzero Q NumQ) with 0.
  destruct (Nat.ltb i m); cbn [andb]; [|reflexivity].
  destruct (Nat.eqb j i); [|reflexivity]. destruct (Qltb _ 0); reflexivity.
Qed.
Lemma T0_aux i j : (i < L)%nat -> (j < L)%nat -> get T0 i (a + j)%nat == if Nat.eqb i j then 1 else 0.
Proof.
  intros Hi Hj. unfold T0, init_rows. rewrite get_tab by (fold L; unfold a; lia). cbv zeta. unfold a.
  destruct (Nat.ltb_spec (n + m + j) n); [lia|]. destruct (Nat.ltb_spec (n + m + j) (n + m)); [lia|].
  fold L. destruct (Nat.ltb_spec (n + m + j) (n + m + L)); [|lia].
  replace (n + m + j - (n + m))%nat with j by lia. rewrite Nat.eqb_sym. destruct (Nat.eqb i j); reflexivity.
Qed.
Lemma T0_rhs i : (i < L)%nat -> get T0 i (nc - 1)%nat == sg i * b_of i.
Proof.
  intros Hi. unfold T0, init_rows. rewrite get_tab by (fold L; unfold nc; lia). cbv zeta. unfold nc. fold L.
  destruct (Nat.ltb_spec (n + m + L + 1 - 1) n); [lia|]. destruct (Nat.ltb_spec (n + m + L + 1 - 1) (n + m)); [lia|].
  destruct (Nat.ltb_spec (n + m + L + 1 - 1) (n + m + L)); [lia|].
  unfold sg, b_of. change (@nltb Q NumQ) with Qltb. change (@nzero Q NumQ) with 0.
  destruct (Nat.ltb i m); destruct (Qltb _ 0);
    try (change (nmul ?x mone) with (Qmulr x mone); rewrite Qmulr_eq, mone_eq); ring.
Qed.

Definition obj1 : nat -> Q := fun j => if Nat.leb a j && Nat.ltb j (a + L) then -1 else 0.

Definition T1 : matQ := fst (initialize_tableau n m k Aub bub Aeq beq).
Definition basis1 : list nat := snd (initialize_tableau n m k Aub bub Aeq beq).

Lemma T1_rows i j : (i < L)%nat -> get T1 i j = get T0 i j.
Proof.
  intros Hi. unfold T1, initialize_tableau. cbn [fst]. unfold get. fold T0.
  rewrite app_nth1; auto. destruct wf_T0 as [-> _]. auto.
Qed.
Lemma T1_crit j : (j < nc)%nat ->
  get T1 L j == if Nat.ltb j a || Nat.eqb j (nc - 1) then sumQ L (fun i => get T0 i j) else 0.
Proof.
  intros Hj. unfold T1, initialize_tableau. cbn [fst]. unfold get at 1. fold T0.
  rewrite app_nth2 by (destruct wf_T0 as [-> _]; fold L; lia).
  destruct wf_T0 as [Hl _]. rewrite Hl. fold L. rewrite Nat.sub_diag. cbn [nth].
  unfold init_crit. rewrite nth_tabv by (fold L nc; lia).
  fold a. replace (nc - 1)%nat with (a + L)%nat by (unfold nc, a, L; lia).
  destruct (Nat.ltb j a || Nat.eqb j (a + L)); [|reflexivity].
  rewrite fold_left_col_sum. rewrite Hl. change (@nzero Q NumQ) with 0. ring.
Qed.

Lemma wf_T1 : wf (S L) nc T1.
Proof.
  unfold T1, initialize_tableau. cbn [fst]. fold T0. destruct wf_T0 as [Hl Hr]. split.
  - rewrite app_length, Hl. cbn. lia.
  - intros i Hi. destruct (Nat.lt_ge_cases i L).
    + rewrite app_nth1 by lia. auto.
    + rewrite app_nth2 by lia. replace (i - length T0)%nat with 0%nat by lia. cbn [nth].
      unfold init_crit. rewrite length_tabv. unfold nc, L. lia.
Qed.

Lemma init_inv : tab_inv L nc a T0 obj1 T1 basis1 /\ rhs_nonneg L nc T1.
Proof.
  assert (Hb : forall i, (i < L)%nat -> nth i basis1 0%nat = (a + i)%nat).
  { intros i Hi. unfold basis1, initialize_tableau. cbn [snd]. apply seq_nth. auto. }
  split; [constructor|].
  - unfold nc; lia.
  - unfold nc, a, L; lia.
  - apply wf_T1.
  - unfold basis1, initialize_tableau. cbn [snd]. apply seq_length.
  - intros i Hi. rewrite Hb by auto. unfold nc, a, L in *. lia.
  - intros i Hi. apply comb_aff_ext with (r1 := rowf T0 i).
    + unfold nc, a, L; lia.
    + intros j Hj. unfold rowf. now rewrite T1_rows.
    + apply comb_lin_init; auto. intros. apply T0_aux; auto.
  - intros j Hj. unfold rowf. rewrite T1_crit by auto.
    rewrite (sumQ_ext L (fun k0 => (get T1 L (a + k0)%nat - obj1 (a + k0)%nat) * get T0 k0 j) (fun k0 => get T0 k0 j)).
    2:{ intros i Hi. rewrite T1_crit by (unfold nc, a, L in *; lia).
        destruct (Nat.ltb_spec (a + i) a); [lia|]. destruct (Nat.eqb_spec (a + i) (nc - 1)); [unfold nc, a, L in *; lia|].
        cbn [orb]. unfold obj1. destruct (Nat.leb_spec a (a + i)); [|lia]. destruct (Nat.ltb_spec (a + i) (a + L)); [|lia].
        cbn [andb]. ring. }
    unfold obj1.
    destruct (Nat.ltb_spec j a).
    + cbn [orb]. destruct (Nat.leb_spec a j); [lia|]. cbn [andb]. ring.
    + destruct (Nat.eqb_spec j (nc - 1)); cbn [orb].
      * destruct (Nat.ltb_spec j (a + L)); [unfold nc, a, L in *; lia|]. rewrite andb_false_r. ring.
      * destruct (Nat.leb_spec a j); [|lia]. destruct (Nat.ltb_spec j (a + L)); [|unfold nc, a, L in *; lia]. cbn [andb].
        replace j with (a + (j - a))%nat by lia.
        rewrite (sumQ_ext L _ (fun i => if Nat.eqb i (j - a) then 1 else 0)) by (intros; apply T0_aux; lia).
        rewrite (sumQ_delta L (j - a) (fun _ => 1)). destruct (Nat.ltb_spec (j - a) L); [ring|lia].
  - intros i k0 Hi Hk. rewrite Hb by auto. destruct (Nat.eq_dec k0 L) as [->|Hne].
    + rewrite T1_crit by (unfold nc, a, L in *; lia).
      destruct (Nat.ltb_spec (a + i) a); [lia|]. destruct (Nat.eqb_spec (a + i) (nc - 1)); [unfold nc, a, L in *; lia|].
      cbn [orb]. destruct (Nat.eqb_spec L i); [lia|reflexivity].
    + rewrite T1_rows by lia. apply T0_aux; lia.
  - intros u Hu i Hi. specialize (Hu i Hi). rewrite T1_rows in Hu by auto.
    rewrite <- Hu. apply sumQ_ext. intros j Hj. rewrite T1_rows by auto. reflexivity.
  - intros i Hi. rewrite T1_rows by auto. rewrite T0_rhs by auto. apply sg_b_nonneg.
Qed.
End Init.

(* C04 proofs, minmax part 1: the tableau invariant with non-contiguous certifying columns (generic),
   induction principle for solve_tableau, objective value. *)
From Coq Require Import ZArith QArith List Bool Arith Lia Lqa Setoid Morphisms.
From QE Require Import Base.Num Base.Pivot Base.PivotProofs C04.Model C04.Proofs C04.Proofs2.
Import ListNotations.
Open Scope Q_scope.

Record tab_invG (L nc : nat) (ac : nat -> nat) (T0 : matQ) (obj : nat -> Q) (T : matQ) (basis : list nat) : Prop := {
  tg_nc : (0 < nc)%nat;
  tg_ac : forall k, (k < L)%nat -> (ac k < nc)%nat;
  tg_wf : wf (S L) nc T;
  tg_len : length basis = L;
  tg_bas : forall i, (i < L)%nat -> (nth i basis 0 < nc - 1)%nat;
  tg_rows : forall i, (i < L)%nat -> comb_linG L ac nc T0 (rowf T i);
  tg_crit : comb_affG L ac nc T0 obj (rowf T L);
  tg_unit : unit_cols (S L) L T basis;
  tg_sol : forall u, solves L nc T u -> solves L nc T0 u
}.

Lemma tab_invG_pivot L nc ac T0 obj T basis c r :
  tab_invG L nc ac T0 obj T basis -> (r < L)%nat -> (c < nc - 1)%nat -> ~ get T r c == 0 ->
  tab_invG L nc ac T0 obj (pivoting T c r) (set_nth basis r c).
Proof.
  intros [Hnc Ha Hwf Hlen Hbas Hrows Hcrit Hunit Hsol] Hr Hc Hp.
  constructor; auto.
  - apply wf_pivoting; auto.
  - now rewrite length_set_nth.
  - intros i Hi. rewrite nth_set_nth. destruct (Nat.eqb i r); [destruct (Nat.ltb r (length basis))|]; auto.
  - intros i Hi. destruct (Nat.eq_dec i r) as [->|Hne].
    + eapply pivoting_comb_linG_pivrow; eauto; lia.
    + eapply pivoting_comb_affG_other; eauto; try lia. apply Hrows; auto.
  - eapply pivoting_comb_affG_other; eauto; try lia.
  - eapply unit_cols_pivoting; eauto; try lia. intros i Hi. specialize (Hbas i Hi). lia.
  - intros u Hu. apply Hsol. eapply solves_pivoting_back; eauto; lia.
Qed.

Theorem solve_tableau_indG L nc ac T0 obj (skip : bool) (P : matQ -> list nat -> Prop) :
  (forall T basis c r,
      tab_invG L nc ac T0 obj T basis -> P T basis ->
      (r < L)%nat -> (c < nc - 1 - (if skip then L else 0))%nat ->
      0 < get T r c -> 0 < get T L c ->
      (forall k, (k < L)%nat -> 0 < get T k c -> ratio T c (nc - 1) r <= ratio T c (nc - 1) k) ->
      P (pivoting T c r) (set_nth basis r c)) ->
  forall fuel T basis ni,
    tab_invG L nc ac T0 obj T basis -> P T basis ->
    let '(T', basis', success, status, _) := solve_tableau_loop fuel T basis skip opts0 ni in
    tab_invG L nc ac T0 obj T' basis' /\ P T' basis' /\ (success = true <-> status = 0%nat) /\
    (status = 0%nat -> forall j, (j < nc - 1 - (if skip then L else 0))%nat -> get T' L j <= 0).
Proof.
  intros Hstep. induction fuel as [|f IH]; intros T basis ni Hinv HP; cbn [solve_tableau_loop].
  { split; [auto|split; [auto|split; [split; discriminate|discriminate]]]. }
  destruct (pivot_col T skip opts0) as [cf pc] eqn:Epc.
  pose proof (pivot_col_spec L nc T skip opts0 _ _ (tg_wf _ _ _ _ _ _ _ Hinv) Epc) as [Hc Hnc]. cbv zeta in Hc, Hnc.
  destruct cf; cbn [negb].
  2:{ split; [auto|split; [auto|split; [split; reflexivity|intros _; apply Hnc; reflexivity]]]. }
  assert (E1 : (nrows T - 1 = L)%nat) by (unfold nrows; destruct (tg_wf _ _ _ _ _ _ _ Hinv) as [-> _]; lia).
  assert (E2 : ncols T = nc) by (apply (wf_ncols (S L)); [apply (tg_wf _ _ _ _ _ _ _ Hinv)|lia]).
  rewrite E1, E2.
  destruct (lex_min_ratio_test_n L T pc (nc - L - 1) (tol_piv opts0) (tol_ratio_diff opts0)) as [rf pr] eqn:Er.
  destruct rf; cbn [negb].
  2:{ split; [auto|split; [auto|split; [split; discriminate|discriminate]]]. }
  pose proof (lex_min_ratio_test_n_spec _ _ _ _ _ _ _ Er) as [Hr Hp].
  pose proof (lex_min_ratio_test_n_min _ _ _ _ _ Er) as Hmin. rewrite E2 in Hmin.
  destruct (Hc eq_refl) as [Hc1 Hc2]. cbn in Hp, Hc2.
  apply IH.
  - apply tab_invG_pivot; auto; [lia|lra].
  - eapply Hstep; eauto.
Qed.

(* criterion row times any solution of the initial rows *)
Lemma crit_dotG L nc ac T0 obj T basis u :
  tab_invG L nc ac T0 obj T basis -> solves L nc T0 u ->
  sumQ (nc - 1) (fun j => get T L j * u j)
  == sumQ (nc - 1) (fun j => obj j * u j) + get T L (nc - 1)%nat - obj (nc - 1)%nat.
Proof.
  intros Hinv Hu. destruct Hinv as [Hnc0 Ha Hwf Hlen Hbas Hrows Hcrit Hunit Hsol].
  set (mu := fun k => get T L (ac k) - obj (ac k)).
  rewrite (sumQ_ext _ (fun j => get T L j * u j)
             (fun j => 1 * (obj j * u j) + 1 * sumQ L (fun k => mu k * (get T0 k j * u j)))).
  2:{ intros j Hj. assert (Hj' : (j < nc)%nat) by lia. pose proof (Hcrit j Hj') as E. unfold rowf in E. rewrite E.
      rewrite Qmult_plus_distr_l. apply Qplus_comp; [ring|].
      rewrite Qmult_1_l, Qmult_comm, <- sumQ_scale. apply sumQ_ext. intros. unfold mu. ring. }
  rewrite sumQ_lin.
  rewrite (sumQ_swap (nc - 1) L (fun j k => mu k * (get T0 k j * u j))).
  rewrite (sumQ_ext L _ (fun k => mu k * get T0 k (nc - 1)%nat)).
  2:{ intros k Hk. rewrite sumQ_scale. rewrite (Hu k Hk). reflexivity. }
  assert (Hnc : (nc - 1 < nc)%nat) by lia.
  pose proof (Hcrit (nc - 1)%nat Hnc) as E.
  change (get T L (nc - 1)%nat == obj (nc - 1)%nat + sumQ L (fun k => mu k * get T0 k (nc - 1)%nat)) in E.
  rewrite E. ring.
Qed.

(* at the basic solution the criterion row vanishes: value of the objective *)
Lemma obj_valueG L nc ac T0 obj T basis :
  tab_invG L nc ac T0 obj T basis ->
  sumQ (nc - 1) (fun j => obj j * bsol L nc T basis j) == obj (nc - 1)%nat - get T L (nc - 1)%nat.
Proof.
  intros Hinv.
  assert (Hu : solves L nc T0 (bsol L nc T basis)).
  { apply (tg_sol _ _ _ _ _ _ _ Hinv). apply (bsol_solves (S L)); [lia|apply (tg_bas _ _ _ _ _ _ _ Hinv)|apply (tg_unit _ _ _ _ _ _ _ Hinv)]. }
  pose proof (crit_dotG _ _ _ _ _ _ _ _ Hinv Hu) as E.
  rewrite (bsol_dot_crit (S L)) in E; [lra|lia|lia|apply (tg_bas _ _ _ _ _ _ _ Hinv)|apply (tg_unit _ _ _ _ _ _ _ Hinv)].
Qed.

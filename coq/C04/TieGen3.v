(* C04: tie lemma for solve_phase_1 of quantecon/optimize/linprog_simplex.py as REGENERATED from /repo's current source
   (Gen/Kernels3.v; it calls the regenerated solve_tableau and _pivoting of Gen/Kernels2.v) against C04/Model.v, for
   every Num instance: same (success, status, num_iter), final tableau and basis, bounds flag true, along the model's
   pivot path of the Phase-1 solve (traj_ok of C04/TieGen.v). *)
From Coq Require Import ZArith List Bool Arith Lia.
From QE Require Import Base.Num Base.Pivot Gen.Kernels Gen.Kernels2 Gen.Kernels3 Base.PivotTie C04.Model C04.TieGen.
Import ListNotations.

Section Tie.
Context {T : Type} {NT : Num T}.
Notation mat := (list (list T)).

Section Phase1.
Variables (inf_ fea tolp tolr : T) (nr nc : nat).
Hypothesis Hnr : (2 <= nr <= nc)%nat.
Let o := {| fea_tol := fea; tol_piv := tolp; tol_ratio_diff := tolr |}.
Let L := (nr - 1)%nat.
Let nm := (nc - (L + 1))%nat.

Lemma solve_tableau_loop_rect skip : forall f (M : mat) basis n, rect nr nc M -> length basis = L ->
  rect nr nc (fst (fst (fst (fst (solve_tableau_loop f M basis skip o n))))) /\
  length (snd (fst (fst (fst (solve_tableau_loop f M basis skip o n))))) = L.
Proof.
  induction f as [|f IH]; intros M basis n HM Hb; cbn [solve_tableau_loop]; [split; assumption|].
  destruct (pivot_col M skip o) as [cf pc] eqn:Ec. destruct cf; cbn [negb]; [|split; assumption].
  destruct HM as [Hl Hr]. unfold nrows, ncols. rewrite Hl.
  destruct (lex_min_ratio_test_n (nr - 1) M pc _ (tol_piv o) (tol_ratio_diff o)) as [rf pr] eqn:Er.
  destruct rf; cbn [negb]; [|split; [split|]; assumption].
  apply lex_min_ratio_test_n_range in Er. apply IH.
  - apply rect_pivoting; [split; assumption|lia].
  - rewrite <- upd_nth_set_nth, upd_nth_length. exact Hb.
Qed.

Definition cl_P (Tb : mat) (i j : nat) : bool :=
  let v := get Tb i j in nltb v (nsub nzero tolp) || nltb tolp v.

Lemma phase1_loop1_tie i : (i < L)%nat -> forall f j (Tb : mat) (basis : list nat) ni ok,
  rect nr nc Tb -> length basis = L -> (j + f <= nm)%nat ->
  gen_solve_phase_1_loop1 f (Z.of_nat j) (zs basis) (Z.of_nat ni) Tb ok tolp (Z.of_nat i) =
    match find (cl_P Tb i) (seq j f) with
    | Some j' => (zs (set_nth basis i j'), Z.of_nat (S ni), pivoting Tb j' i, ok)
    | None => (zs basis, Z.of_nat ni, Tb, ok)
    end.
Proof.
  intros Hi. induction f as [|f IH]; intros j Tb basis ni ok HT Hb Hj; cbn [gen_solve_phase_1_loop1 seq find]; [reflexivity|].
  pose proof HT as [Hl Hr]. rewrite !inb2_nat by (rewrite ?Hr; unfold nm, L in *; lia). rewrite get2_nat.
  replace (ok && (true && (if nltb (get Tb i j) (nsub nzero tolp) then true else true))) with ok
    by (destruct (nltb (get Tb i j) (nsub nzero tolp)); rewrite ?andb_true_r; reflexivity).
  fold (cl_P Tb i j). destruct (cl_P Tb i j).
  - rewrite (gen_pivoting_tie nr nc Tb j i HT) by (unfold nm, L in *; lia). cbv beta iota zeta.
    rewrite inb_nat by (rewrite zs_length; lia). rewrite !andb_true_r, Nat2Z.id, upd_nth_zs, upd_nth_set_nth.
    replace (Z.of_nat ni + 1)%Z with (Z.of_nat (S ni)) by lia. reflexivity.
  - replace (Z.of_nat j + 1)%Z with (Z.of_nat (S j)) by lia. apply IH; [exact HT|exact Hb|lia].
Qed.

Definition cl_step (st : mat * list nat * nat) (i : nat) : mat * list nat * nat :=
  let '(tb, bs, ni) := st in
  if Nat.leb nm (nth i bs 0%nat) then
    match cleanup_col tb i nm tolp with
    | Some j => (pivoting tb j i, set_nth bs i j, S ni)
    | None => st
    end
  else st.

Lemma phase1_loop0_tie : forall f i0 (Tb : mat) (basis : list nat) ni ok,
  rect nr nc Tb -> length basis = L -> (i0 + f <= L)%nat ->
  gen_solve_phase_1_loop0 f (Z.of_nat i0) (zs basis) (Z.of_nat ni) Tb ok (Z.of_nat nm) tolp =
    (let '(tb, bs, ni') := fold_left cl_step (seq i0 f) (Tb, basis, ni) in (zs bs, Z.of_nat ni', tb, ok)).
Proof.
  induction f as [|f IH]; intros i0 Tb basis ni ok HT Hb Hi; cbn [gen_solve_phase_1_loop0 seq fold_left]; [reflexivity|].
  rewrite inb_nat by (rewrite zs_length; lia). rewrite andb_true_r, Nat2Z.id, nth_zs.
  replace (Z.of_nat (nth i0 basis 0%nat) >=? Z.of_nat nm)%Z with (Nat.leb nm (nth i0 basis 0%nat)).
  2:{ rewrite Z.geb_leb. destruct (Nat.leb nm (nth i0 basis 0%nat)) eqn:E; symmetry;
        [apply Nat.leb_le in E; apply Z.leb_le; lia|apply Nat.leb_gt in E; apply Z.leb_gt; lia]. }
  replace (Z.of_nat i0 + 1)%Z with (Z.of_nat (S i0)) by lia. replace (Z.to_nat (Z.of_nat nm - 0)) with nm by lia.
  unfold cl_step at 2. destruct (Nat.leb nm (nth i0 basis 0%nat)).
  - pose proof (phase1_loop1_tie i0 ltac:(lia) nm 0 Tb basis ni ok HT Hb ltac:(lia)) as E1.
    change (Z.of_nat 0) with 0%Z in E1. rewrite E1. clear E1. unfold cleanup_col. fold (cl_P Tb i0).
    change (fun j : nat => let v := get Tb i0 j in nltb v (nsub nzero tolp) || nltb tolp v) with (cl_P Tb i0).
    destruct (find (cl_P Tb i0) (seq 0 nm)) as [j'|] eqn:Ef.
    + apply find_some in Ef. destruct Ef as [Hin _]. apply in_seq in Hin.
      apply IH; [apply rect_pivoting; [exact HT|unfold L in *; lia]|rewrite <- upd_nth_set_nth, upd_nth_length; exact Hb|lia].
    + apply IH; [exact HT|exact Hb|lia].
  - apply IH; [exact HT|exact Hb|lia].
Qed.

Theorem gen_solve_phase_1_tie (M : mat) (basis : list nat) (max_iter : nat) :
  rect nr nc M -> length basis = L -> traj_ok inf_ fea tolp tolr false nr nc max_iter M ->
  gen_solve_phase_1 inf_ M (zs basis) (Z.of_nat max_iter) fea tolp tolr =
    (let '(M', bs', succ, st, ni) := solve_phase_1 M basis max_iter o in
     (((succ, Z.of_nat st, Z.of_nat ni), M', zs bs'), true)).
Proof.
  intros HM Hb Htr. unfold gen_solve_phase_1, solve_phase_1. cbv zeta.
  rewrite (gen_solve_tableau_tie inf_ fea tolp tolr false nr nc Hnr M basis max_iter HM Hb Htr). fold o.
  pose proof (solve_tableau_loop_rect false max_iter M basis 0 HM Hb) as HR. unfold solve_tableau.
  destruct (solve_tableau_loop max_iter M basis false o 0) as [[[[M1 b1] s1] st1] n1]. cbn [fst snd] in HR.
  destruct HR as [HM1 Hb1]. cbv beta iota zeta. cbn [andb].
  destruct s1; cbn [negb]; [|reflexivity].
  pose proof HM as [Hl Hr]. pose proof HM1 as [Hl1 Hr1]. unfold nrows, ncols, nrows2, ncols2.
  rewrite ?Hl, ?Hl1, ?(Hr 0%nat ltac:(lia)), ?(Hr1 0%nat ltac:(lia)).
  change (- (1))%Z with (-1)%Z.
  assert (Hlast : inb2 (-1) (-1) M1 = true).
  { unfold inb2. rewrite row2_m1, !widx_m1 by (rewrite ?Hl1, ?Hr1; try lia; rewrite Hr1; lia).
    rewrite !inb_nat; [reflexivity| |lia]. rewrite Hl1, Hr1 by lia. lia. }
  assert (Hget : get2 M1 (-1) (-1) = get M1 (nr - 1) (nc - 1)).
  { unfold get2, get. rewrite row2_m1, Hl1 by lia. rewrite Hr1, widx_m1, Nat2Z.id by lia. reflexivity. }
  rewrite Hlast, Hget. cbn [andb]. change (fea_tol o) with fea. change (tol_piv o) with tolp.
  destruct (nltb fea (get M1 (nr - 1) (nc - 1))); [reflexivity|].
  replace (Z.of_nat nc - (Z.of_nat nr - 1 + 1))%Z with (Z.of_nat nm) by (unfold nm, L; lia).
  replace (Z.to_nat (Z.of_nat nr - 1 - 0)) with L by (unfold L; lia).
  pose proof (phase1_loop0_tie L 0 M1 b1 n1 true HM1 Hb1 ltac:(lia)) as E0. change (Z.of_nat 0) with 0%Z in E0. rewrite E0. clear E0.
  assert (EQ : forall (X Y : mat * list nat * nat), X = Y ->
    (let '(b, n, t, o0) := (let '(tb, bs, ni') := X in (zs bs, Z.of_nat ni', tb, true)) in (true, Z.of_nat st1, n, t, b, o0)) =
    (let '(M', bs', succ, st, ni) := (let '(tb', bs', ni') := Y in (tb', bs', true, st1, ni')) in
     (succ, Z.of_nat st, Z.of_nat ni, M', zs bs', true))).
  { intros X Y ->. destruct Y as [[tb' bs'] ni']. reflexivity. }
  apply EQ. reflexivity.
Qed.
End Phase1.
End Tie.

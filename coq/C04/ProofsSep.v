(* C04 proofs: tolerance irrelevance.  If the separation check (C04/Sep.v) succeeds, the run with
   tolerances o (all >= 0) coincides with the run with tolerance 0. *)
From Coq Require Import ZArith QArith List Bool Arith Lia Lqa Setoid Morphisms.
From QE Require Import Base.Num Base.Pivot Base.PivotProofs C04.Model C04.Proofs C04.Sep.
Import ListNotations.
Open Scope Q_scope.

Notation optsQ := (@PivOptions Q).

Lemma bool_eq_iff (a b : bool) : (a = true <-> b = true) -> a = b.
Proof. destruct a, b; intros [H1 H2]; try reflexivity; [discriminate (H1 eq_refl)|exact (H2 eq_refl)]. Qed.

Lemma sep1_le tol x : 0 <= tol -> sep1 tol x = true -> nleb x tol = nleb x 0.
Proof.
  intros Ht H. unfold sep1 in H. apply orb_true_iff in H. apply bool_eq_iff. rewrite !nleb_le.
  destruct H as [H|H]; [apply nleb_le in H|apply nltb_lt in H]; change (@nzero Q NumQ) with 0 in *; split; intros; lra.
Qed.
Lemma sep1_lt tol x : 0 <= tol -> sep1 tol x = true -> nltb tol x = nltb 0 x.
Proof.
  intros Ht H. unfold sep1 in H. apply orb_true_iff in H. apply bool_eq_iff. rewrite !nltb_lt.
  destruct H as [H|H]; [apply nleb_le in H|apply nltb_lt in H]; change (@nzero Q NumQ) with 0 in *; split; intros; lra.
Qed.
Lemma sep_abs_spec tol d : sep_abs tol d = true -> d == 0 \/ tol < d \/ d < - tol.
Proof.
  unfold sep_abs. intros H. apply orb_true_iff in H. destruct H as [H|H]; [apply orb_true_iff in H; destruct H as [H|H]|].
  - apply andb_true_iff in H. destruct H as [H1 H2]. apply nleb_le in H1, H2. change (@nzero Q NumQ) with 0 in *. left. lra.
  - apply nltb_lt in H. auto.
  - apply nltb_lt in H. change (nsub nzero tol) with (Qsubr 0 tol) in H. rewrite Qsubr_eq in H. right. right. lra.
Qed.

(* ------------------------------------------------------------------ _pivot_col *)
Lemma pivot_col_loop_sep crit js pc tol :
  0 <= tol -> forallb (fun j => sep1 tol (vget crit j)) js = true ->
  pivot_col_loop crit js false pc tol = pivot_col_loop crit js false pc 0.
Proof.
  intros Ht. revert pc. induction js as [|j r IH]; intros pc H; cbn [pivot_col_loop forallb] in *; auto.
  apply andb_true_iff in H. destruct H as [H1 H2].
  rewrite (sep1_lt tol _ Ht H1). destruct (nltb 0 (vget crit j)); auto.
Qed.
Lemma pivot_col_sep (T : matQ) skip (o : optsQ) :
  0 <= fea_tol o -> sep_crit T skip o = true -> pivot_col T skip o = pivot_col T skip o0.
Proof. intros Ht H. unfold pivot_col, sep_crit in *. apply pivot_col_loop_sep; auto. Qed.

(* ------------------------------------------------------------------ min-ratio tests *)
Lemma mrt_loop_sep (M : matQ) pv tc tolp tolr cands :
  0 <= tolp -> 0 <= tolr -> forall rmin acc,
  mrt_sep M pv tc tolp tolr cands rmin = true ->
  mrt_loop M pv tc tolp tolr cands rmin acc = mrt_loop M pv tc 0 0 cands rmin acc.
Proof.
  intros Hp Hr. induction cands as [|i rest IH]; intros rmin acc H; cbn [mrt_loop mrt_sep] in *; auto.
  apply andb_true_iff in H. destruct H as [H1 H].
  rewrite (sep1_le tolp _ Hp H1). change (@nzero Q NumQ) with 0 in *.
  destruct (nleb (get M i pv) 0); [auto|].
  destruct rmin as [rm|]; [|auto].
  apply andb_true_iff in H. destruct H as [H2 H].
  apply sep_abs_spec in H2. change (nsub ?a ?b) with (Qsubr a b) in *. change (nadd ?a ?b) with (Qaddr a b) in *.
  rewrite Qsubr_eq in H2.
  set (ratio := ndiv (get M i tc) (get M i pv)) in *.
  assert (E1 : nltb (Qaddr rm tolr) ratio = nltb (Qaddr rm 0) ratio).
  { apply bool_eq_iff. rewrite !nltb_lt, !Qaddr_eq. destruct H2 as [H2|[H2|H2]]; split; intros; lra. }
  assert (E2 : nltb ratio (Qsubr rm tolr) = nltb ratio (Qsubr rm 0)).
  { apply bool_eq_iff. rewrite !nltb_lt, !Qsubr_eq. destruct H2 as [H2|[H2|H2]]; split; intros; lra. }
  rewrite E1, E2. destruct (nltb (Qaddr rm 0) ratio); [auto|]. destruct (nltb ratio (Qsubr rm 0)); auto.
Qed.
Lemma min_ratio_test_sep (M : matQ) pv tc tolp tolr cands :
  0 <= tolp -> 0 <= tolr -> mrt_sep M pv tc tolp tolr cands None = true ->
  min_ratio_test M pv tc tolp tolr cands = min_ratio_test M pv tc 0 0 cands.
Proof. intros. unfold min_ratio_test. apply mrt_loop_sep; auto. Qed.

Lemma lex_loop_sep_eq (M : matQ) pv tolp tolr cols :
  0 <= tolp -> 0 <= tolr -> forall am,
  lex_loop_sep M pv tolp tolr cols am = true ->
  lex_loop M pv tolp tolr cols am = lex_loop M pv 0 0 cols am.
Proof.
  intros Hp Hr. induction cols as [|j rest IH]; intros am H; cbn [lex_loop lex_loop_sep] in *; auto.
  destruct (Nat.eqb j pv); [auto|].
  apply andb_true_iff in H. destruct H as [H1 H]. change (@nzero Q NumQ) with 0 in *.
  rewrite (min_ratio_test_sep M pv j tolp tolr am Hp Hr H1).
  destruct (min_ratio_test M pv j 0 0 am) as [|a0 [|b0 l0]]; auto.
Qed.

Lemma lex_sep_eq nr (M : matQ) pv ss tolp tolr :
  0 <= tolp -> 0 <= tolr -> lex_sep nr M pv ss tolp tolr = true ->
  lex_min_ratio_test_n nr M pv ss tolp tolr = lex_min_ratio_test_n nr M pv ss 0 0.
Proof.
  intros Hp Hr H. unfold lex_sep, lex_min_ratio_test_n in *. apply andb_true_iff in H. destruct H as [H1 H].
  change (@nzero Q NumQ) with 0 in *.
  rewrite (min_ratio_test_sep M pv _ tolp tolr _ Hp Hr H1).
  destruct (min_ratio_test M pv (ncols M - 1) 0 0 (seq 0 nr)) as [|a0 [|b0 l0]]; auto.
  rewrite (lex_loop_sep_eq M pv tolp tolr _ Hp Hr _ H). reflexivity.
Qed.

(* ------------------------------------------------------------------ solve_tableau *)
Theorem solve_tableau_sep_eq (o : optsQ) skip :
  0 <= fea_tol o -> 0 <= tol_piv o -> 0 <= tol_ratio_diff o ->
  forall fuel T basis ni,
    solve_tableau_sep fuel T basis skip o = true ->
    solve_tableau_loop fuel T basis skip o ni = solve_tableau_loop fuel T basis skip o0 ni.
Proof.
  intros Hf Hp Hr. induction fuel as [|f IH]; intros T basis ni H; cbn [solve_tableau_loop solve_tableau_sep] in *; auto.
  apply andb_true_iff in H. destruct H as [H1 H].
  rewrite (pivot_col_sep T skip o Hf H1).
  destruct (pivot_col T skip o0) as [cf pc]. destruct cf; cbn [negb] in *; [|auto].
  apply andb_true_iff in H. destruct H as [H2 H].
  rewrite (lex_sep_eq _ T pc _ (tol_piv o) (tol_ratio_diff o) Hp Hr H2).
  change (tol_piv o0) with 0. change (tol_ratio_diff o0) with 0. change (@nzero Q NumQ) with 0 in H.
  destruct (lex_min_ratio_test_n (nrows T - 1) T pc (ncols T - (nrows T - 1) - 1) 0 0) as [rf pr].
  destruct rf; cbn [negb] in *; auto.
Qed.

(* ------------------------------------------------------------------ clean-up pivots *)
Lemma cleanup_col_sep (T : matQ) i nm tolp :
  0 <= tolp -> forallb (fun j => sep_abs tolp (get T i j)) (seq 0 nm) = true ->
  cleanup_col T i nm tolp = cleanup_col T i nm 0.
Proof.
  intros Hp H. unfold cleanup_col. revert H. generalize (seq 0 nm). intros l.
  induction l as [|j r IH]; intros H; cbn [find forallb] in *; auto.
  apply andb_true_iff in H. destruct H as [H1 H2]. apply sep_abs_spec in H1.
  change (nsub nzero ?t) with (Qsubr 0 t).
  assert (E : nltb (get T i j) (Qsubr 0 tolp) || nltb tolp (get T i j) = nltb (get T i j) (Qsubr 0 0) || nltb 0 (get T i j)).
  { apply bool_eq_iff. rewrite !orb_true_iff, !nltb_lt, !Qsubr_eq. destruct H1 as [H1|[H1|H1]]; split; intros [?|?]; lra. }
  rewrite E. clear E. destruct (nltb (get T i j) (Qsubr 0 0) || nltb 0 (get T i j)); [reflexivity|apply IH; exact H2].
Qed.

Lemma cleanup_sep_eq nm tolp :
  0 <= tolp -> forall is (tb : matQ) bs ni,
  cleanup_sep is tb bs nm tolp = true ->
  fold_left (fun st i =>
      let '(tb, bs, ni) := st in
      if Nat.leb nm (nth i bs 0%nat) then
        match cleanup_col tb i nm tolp with
        | Some j => (pivoting tb j i, set_nth bs i j, S ni)
        | None => st
        end
      else st) is (tb, bs, ni)
  = fold_left (fun st i =>
      let '(tb, bs, ni) := st in
      if Nat.leb nm (nth i bs 0%nat) then
        match cleanup_col tb i nm 0 with
        | Some j => (pivoting tb j i, set_nth bs i j, S ni)
        | None => st
        end
      else st) is (tb, bs, ni).
Proof.
  intros Hp. induction is as [|i rest IH]; intros tb bs ni H; cbn [fold_left cleanup_sep] in *; auto.
  destruct (Nat.leb nm (nth i bs 0%nat)); [|auto].
  apply andb_true_iff in H. destruct H as [H1 H]. rewrite (cleanup_col_sep tb i nm tolp Hp H1).
  change (@nzero Q NumQ) with 0 in H. destruct (cleanup_col tb i nm 0); auto.
Qed.

Lemma cleanup_sep_eq' L nm tolp (tb : matQ) bs ni :
  0 <= tolp -> cleanup_sep (seq 0 L) tb bs nm tolp = true ->
  cleanup tb bs ni L nm tolp = cleanup tb bs ni L nm 0.
Proof. intros Hp H. unfold cleanup. apply cleanup_sep_eq; auto. Qed.

(* ------------------------------------------------------------------ linprog_simplex, minmax *)
Theorem tolerance_irrelevant c m k Aub bub Aeq beq max_iter (o : optsQ) :
  0 <= fea_tol o -> 0 <= tol_piv o -> 0 <= tol_ratio_diff o ->
  linprog_sep c m k Aub bub Aeq beq max_iter o = true ->
  linprog_simplex c m k Aub bub Aeq beq max_iter o = linprog_simplex c m k Aub bub Aeq beq max_iter opts0.
Proof.
  intros Hf Hp Hr H. unfold linprog_simplex, linprog_sep in *. cbv zeta in *.
  destruct (initialize_tableau (length c) m k Aub bub Aeq beq) as [tb0 basis0].
  unfold solve_phase_1, solve_tableau in *.
  apply andb_true_iff in H. destruct H as [H1 H].
  rewrite (solve_tableau_sep_eq o false Hf Hp Hr max_iter tb0 basis0 0%nat H1).
  change opts0 with (@o0 Q NumQ).
  destruct (solve_tableau_loop max_iter tb0 basis0 false o0 0) as [[[[tb bs] su] st] ni1].
  destruct su; cbn [negb] in *; [|reflexivity].
  apply andb_true_iff in H. destruct H as [H2 H].
  rewrite (sep1_lt (fea_tol o) _ Hf H2). change (fea_tol o0) with 0. change (@nzero Q NumQ) with 0 in H.
  destruct (nltb 0 (get tb (nrows tb0 - 1) (ncols tb - 1))); [reflexivity|].
  apply andb_true_iff in H. destruct H as [H3 H].
  rewrite (cleanup_sep_eq' _ _ (tol_piv o) tb bs ni1 Hp H3).
  change (tol_piv o0) with 0.
  destruct (cleanup tb bs ni1 (nrows tb0 - 1) (ncols tb0 - (nrows tb0 - 1 + 1)) 0) as [[tb' bs'] ni1'].
  cbn [negb].
  rewrite (solve_tableau_sep_eq o true Hf Hp Hr _ _ _ 0%nat H). reflexivity.
Qed.

Theorem minmax_tolerance_irrelevant m n A max_iter (o : optsQ) :
  0 <= fea_tol o -> 0 <= tol_piv o -> 0 <= tol_ratio_diff o ->
  minmax_sep m n A max_iter o = true -> minmax m n A max_iter o = minmax m n A max_iter opts0.
Proof.
  intros Hf Hp Hr H. unfold minmax, minmax_sep, solve_tableau in *. cbv zeta in *.
  rewrite (solve_tableau_sep_eq o false Hf Hp Hr _ _ _ 0%nat H). reflexivity.
Qed.

(* C04 model: quantecon/optimize/linprog_simplex.py (_initialize_tableau, _set_criterion_row,
   _pivot_col, solve_tableau, solve_phase_1, get_solution, linprog_simplex) and
   quantecon/optimize/minmax.py (minmax), generic over Base.Num.Num; the pivoting kernels are
   Base/Pivot.v.  Executable definitions only; tolerances and max_iter are parameters.
   Tableau: (L+1) x (n+m+L+1), L = m+k; columns x(0..n) | slack(n..n+m) | aux(n+m..n+m+L) | rhs. *)
From Coq Require Import List Bool Arith.
From QE Require Import Base.Num Base.Pivot.
Import ListNotations.

Section Simplex.
Context {T : Type} `{Num T}.

Definition mone : T := nsub nzero none_.          (* the literal -1 *)
Definition mat := list (list T).

Record PivOptions := { fea_tol : T; tol_piv : T; tol_ratio_diff : T }.

(* rows 0..L-1 of the initial tableau *)
Definition init_rows (n m k : nat) (A_ub : mat) (b_ub : list T) (A_eq : mat) (b_eq : list T) : mat :=
  let L := m + k in
  tab L (n + m + L + 1) (fun i j =>
    let ub := Nat.ltb i m in
    let b := if ub then vget b_ub i else vget b_eq (i - m) in
    let neg := nltb b nzero in
    if Nat.ltb j n then
      let a := if ub then get A_ub i j else get A_eq (i - m) j in
      if neg then nmul a mone else a
    else if Nat.ltb j (n + m) then
      if ub && Nat.eqb (j - n) i then (if neg then mone else none_) else nzero
    else if Nat.ltb j (n + m + L) then
      if Nat.eqb (j - (n + m)) i then none_ else nzero
    else (if neg then nmul b mone else b)).

(* tableau[-1, :] = 0; for i in range(L): tableau[-1, j] += tableau[i, j]  (j < n+m and j = -1) *)
Definition init_crit (n m L : nat) (rows : mat) : list T :=
  tabv (n + m + L + 1) (fun j =>
    if Nat.ltb j (n + m) || Nat.eqb j (n + m + L)
    then fold_left (fun acc row => nadd acc (vget row j)) rows nzero
    else nzero).

Definition initialize_tableau (n m k : nat) (A_ub : mat) (b_ub : list T) (A_eq : mat) (b_eq : list T)
  : mat * list nat :=
  let L := m + k in
  let rows := init_rows n m k A_ub b_ub A_eq b_eq in
  (rows ++ [init_crit n m L rows], seq (n + m) L).

Definition b_signs (b_ub b_eq : list T) : list bool :=
  map (fun b => nleb nzero b) (b_ub ++ b_eq).

(* _set_criterion_row *)
Definition set_criterion_row (c : list T) (basis : list nat) (tableau : mat) : mat :=
  let L := length basis in
  let n := length c in
  let nc := ncols tableau in
  let crit0 := tabv nc (fun j => if Nat.ltb j n then vget c j else nzero) in
  let crit := fold_left (fun crit i =>
                let mult := vget crit (nth i basis 0) in
                map2 (fun x y => nsub x (nmul y mult)) crit (nth i tableau []))
              (seq 0 L) crit0 in
  firstn L tableau ++ [crit].

(* _pivot_col: largest coefficient strictly above fea_tol, first one on ties *)
Fixpoint pivot_col_loop (crit : list T) (js : list nat) (found : bool) (pivcol : nat) (coeff : T)
  : bool * nat :=
  match js with
  | [] => (found, pivcol)
  | j :: r => let v := vget crit j in
              if nltb coeff v then pivot_col_loop crit r true j v
              else pivot_col_loop crit r found pivcol coeff
  end.
(* pivcol = -1 when not found; the callers never read it then: modelled as 0 *)
Definition pivot_col (tableau : mat) (skip_aux : bool) (o : PivOptions) : bool * nat :=
  let L := nrows tableau - 1 in
  let stop := ncols tableau - 1 - (if skip_aux then L else 0) in
  pivot_col_loop (nth L tableau []) (seq 0 stop) false 0 (fea_tol o).

(* solve_tableau: returns (tableau, basis, success, status, num_iter); fuel = max_iter *)
Fixpoint solve_tableau_loop (fuel : nat) (tableau : mat) (basis : list nat) (skip_aux : bool)
         (o : PivOptions) (num_iter : nat) : mat * list nat * bool * nat * nat :=
  match fuel with
  | O => (tableau, basis, false, 1, num_iter)
  | S f =>
    let num_iter := S num_iter in
    let '(cfound, pivcol) := pivot_col tableau skip_aux o in
    if negb cfound then (tableau, basis, true, 0, num_iter)
    else
      let L := nrows tableau - 1 in
      let aux_start := ncols tableau - L - 1 in
      let '(rfound, pivrow) :=
          lex_min_ratio_test_n L tableau pivcol aux_start (tol_piv o) (tol_ratio_diff o) in
      if negb rfound then (tableau, basis, false, 3, num_iter)
      else solve_tableau_loop f (pivoting tableau pivcol pivrow) (set_nth basis pivrow pivcol)
                              skip_aux o num_iter
  end.
Definition solve_tableau (tableau : mat) (basis : list nat) (max_iter : nat) (skip_aux : bool)
           (o : PivOptions) :=
  solve_tableau_loop max_iter tableau basis skip_aux o 0.

(* first j < nm with tableau[i, j] < -tol_piv or tableau[i, j] > tol_piv *)
Definition cleanup_col (tableau : mat) (i nm : nat) (tolp : T) : option nat :=
  find (fun j => let v := get tableau i j in nltb v (nsub nzero tolp) || nltb tolp v) (seq 0 nm).

Definition cleanup (tableau : mat) (basis : list nat) (num_iter : nat) (L nm : nat) (tolp : T)
  : mat * list nat * nat :=
  fold_left (fun st i =>
      let '(tb, bs, ni) := st in
      if Nat.leb nm (nth i bs 0) then
        match cleanup_col tb i nm tolp with
        | Some j => (pivoting tb j i, set_nth bs i j, S ni)
        | None => st
        end
      else st) (seq 0 L) (tableau, basis, num_iter).

Definition solve_phase_1 (tableau : mat) (basis : list nat) (max_iter : nat) (o : PivOptions)
  : mat * list nat * bool * nat * nat :=
  let L := nrows tableau - 1 in
  let nm := ncols tableau - (L + 1) in
  let '(tb, bs, success, status, ni) := solve_tableau tableau basis max_iter false o in
  if negb success then (tb, bs, success, status, ni)
  else if nltb (fea_tol o) (get tb L (ncols tb - 1)) then (tb, bs, false, 2, ni)
  else let '(tb', bs', ni') := cleanup tb bs ni L nm (tol_piv o) in (tb', bs', true, status, ni').

(* get_solution: (x, lambd, fun) *)
Definition get_solution (tableau : mat) (basis : list nat) (n L : nat) (bsigns : list bool)
  : list T * list T * T :=
  let nc := ncols tableau in
  let aux_start := nc - L - 1 in
  let x := fold_left (fun x i => let b := nth i basis 0 in
                                 if Nat.ltb b n then set_nth x b (get tableau i (nc - 1)) else x)
                     (seq 0 L) (repeat nzero n) in
  let lambd := tabv L (fun j => let v := get tableau L (aux_start + j) in
                                if negb (neqb v nzero) && nth j bsigns false then nmul v mone else v) in
  (x, lambd, nmul (get tableau L (nc - 1)) mone).

(* linprog_simplex: (x, lambd, fun, success, status, num_iter).  When Phase 1 fails the code
   returns uninitialised x, lambd and fun = -inf: modelled as ([], [], 0), never compared. *)
Definition linprog_simplex (c : list T) (m k : nat) (A_ub : mat) (b_ub : list T) (A_eq : mat) (b_eq : list T)
           (max_iter : nat) (o : PivOptions) : list T * list T * T * bool * nat * nat :=
  let n := length c in
  let L := m + k in
  let bs := b_signs b_ub b_eq in
  let '(tb0, basis0) := initialize_tableau n m k A_ub b_ub A_eq b_eq in
  let '(tb1, basis1, success, status, ni1) := solve_phase_1 tb0 basis0 max_iter o in
  if negb success then ([], [], nzero, success, status, ni1)
  else
    let tb2 := set_criterion_row c basis1 tb1 in
    let '(tb3, basis3, success, status, ni2) := solve_tableau tb2 basis1 (max_iter - ni1) true o in
    let '(x, lambd, fn) := get_solution tb3 basis3 n L bs in
    (x, lambd, fn, success, status, ni1 + ni2).

(* ---------------------------------------------------------------- minmax *)
Definition mat_min (A : mat) : T :=
  let fl := concat A in
  fold_left (fun a x => if nltb x a then x else a) fl (vget fl 0).

Definition minmax_const (A : mat) : T :=
  let mn := mat_min A in
  if nleb mn nzero then nadd (nmul mn mone) none_ else nzero.

Definition minmax_tableau (m n : nat) (A : mat) (const : T) : mat :=
  tab (m + 2) (n + 1 + m + 1) (fun i j =>
    if Nat.ltb i m then
      if Nat.ltb j n then nadd (get A i j) const
      else if Nat.eqb j n then mone
      else if Nat.eqb j (n + 1 + i) then none_ else nzero
    else if Nat.eqb i m then
      if Nat.ltb j n || Nat.eqb j (n + 1 + m) then none_ else nzero
    else if Nat.eqb j n then mone else nzero).

(* first row attaining the maximum of column 0 among rows 0..m-1 *)
Definition minmax_pivrow (m : nat) (tb : mat) : nat :=
  fst (fold_left (fun st i => let '(r, mx) := st in
                              if nltb mx (get tb i 0) then (i, get tb i 0) else st)
                 (seq 1 (m - 1)) (0, get tb 0 0)).

(* returns (v, x, y) *)
Definition minmax (m n : nat) (A : mat) (max_iter : nat) (o : PivOptions) : T * list T * list T :=
  let const := minmax_const A in
  let tb0 := minmax_tableau m n A const in
  let pivrow := minmax_pivrow m tb0 in
  let tb1 := pivoting tb0 n pivrow in
  let tb2 := pivoting tb1 0 m in
  let basis := set_nth (set_nth (seq (n + 1) (m + 1)) pivrow n) m 0 in
  let '(tb, bs, _, _, _) := solve_tableau tb2 basis (max_iter - 2) false o in
  let nc := n + 1 + m + 1 in
  let y := fold_left (fun y i => let b := nth i bs 0 in
                                 if Nat.ltb b n then set_nth y b (get tb i (nc - 1)) else y)
                     (seq 0 (m + 1)) (repeat nzero n) in
  let x := tabv m (fun j => let v := get tb (m + 1) (n + 1 + j) in
                            if negb (neqb v nzero) then nmul v mone else v) in
  (nsub (get tb (m + 1) (nc - 1)) const, x, y).

End Simplex.

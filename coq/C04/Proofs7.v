(* C04 proofs, part 7 (tolerance 0): status 2 => the LP is infeasible. *)
From Coq Require Import ZArith QArith List Bool Arith Lia Lqa Setoid Morphisms.
From QE Require Import Base.Num Base.Pivot Base.PivotProofs C04.Model C04.Proofs C04.Proofs2 C04.Proofs3 C04.Proofs4 C04.Proofs5.
Import ListNotations.
Open Scope Q_scope.

Lemma sum_cols3 n m k (f : nat -> Q) :
  sumQ (n + m + (m + k) + 1 - 1) f
  == sumQ n f + sumQ m (fun j => f (n + j)%nat) + sumQ (m + k) (fun j => f (n + m + j)%nat).
Proof.
  replace (n + m + (m + k) + 1 - 1)%nat with (n + (m + (m + k)))%nat by lia.
  rewrite sumQ_split, sumQ_split.
  rewrite (sumQ_ext (m + k) (fun j => f (n + (m + j))%nat) (fun j => f (n + m + j)%nat)).
  - ring.
  - intros j Hj. now rewrite Nat.add_assoc.
Qed.

Lemma solve_tableau_status fuel : forall (T : matQ) basis skip (o : @PivOptions Q) ni,
  let '(_, _, success, status, _) := solve_tableau_loop fuel T basis skip o ni in
  (status = 0 \/ status = 1 \/ status = 3)%nat.
Proof.
  induction fuel as [|f IH]; intros T basis skip o ni; cbn [solve_tableau_loop]; [auto|].
  destruct (pivot_col T skip o) as [cf pc]. destruct cf; cbn [negb]; [|auto].
  destruct (lex_min_ratio_test_n _ _ _ _ _ _) as [rf pr]. destruct rf; cbn [negb]; [|auto].
  apply IH.
Qed.

(* criterion row times any solution of the initial rows *)
Lemma crit_dot L nc a T0 obj T basis u :
  tab_inv L nc a T0 obj T basis -> solves L nc T0 u ->
  sumQ (nc - 1) (fun j => get T L j * u j)
  == sumQ (nc - 1) (fun j => obj j * u j) + get T L (nc - 1)%nat - obj (nc - 1)%nat.
Proof.
  intros Hinv Hu. destruct Hinv as [Hnc0 Ha Hwf Hlen Hbas Hrows Hcrit Hunit Hsol].
  set (mu := fun k => get T L (a + k)%nat - obj (a + k)%nat).
  rewrite (sumQ_ext _ (fun j => get T L j * u j)
             (fun j => 1 * (obj j * u j) + 1 * sumQ L (fun k => mu k * (get T0 k j * u j)))).
  2:{ intros j Hj. assert (Hj' : (j < nc)%nat) by lia. pose proof (Hcrit j Hj') as E. unfold rowf in E. rewrite E.
      rewrite Qmult_plus_distr_l. apply Qplus_comp; [ring|].
      rewrite Qmult_1_l, Qmult_comm, <- sumQ_scale. apply sumQ_ext. intros. unfold mu. ring. }
  rewrite sumQ_lin.
  rewrite (sumQ_swap (nc - 1) L (fun j k => mu k * (get T0 k j * u j))).
  rewrite (sumQ_ext L _ (fun k => mu k * get T0 k (nc - 1)%nat)).
  2:{ intros k Hk. rewrite sumQ_scale. rewrite (Hu k Hk). reflexivity. }
  assert (Hnc : (nc - 1 < nc)%nat) by lia.
  pose proof (Hcrit (nc - 1)%nat Hnc) as E.
  change (get T L (nc - 1)%nat == obj (nc - 1)%nat + sumQ L (fun k => mu k * get T0 k (nc - 1)%nat)) in E.
  rewrite E. ring.
Qed.

(* Phase 1 with the optimality condition at status 0 *)
Lemma phase1_spec_opt L nc a T0 obj fuel T basis ni :
  tab_inv L nc a T0 obj T basis -> rhs_nonneg L nc T ->
  let '(T', basis', success, status, _) := solve_tableau_loop fuel T basis false opts0 ni in
  tab_inv L nc a T0 obj T' basis' /\ (success = true <-> status = 0%nat) /\
  (status = 0%nat -> forall j, (j < nc - 1)%nat -> get T' L j <= 0).
Proof.
  intros Hinv HP.
  pose proof (solve_tableau_ind L nc a T0 obj false (fun T _ => rhs_nonneg L nc T)) as H.
  assert (Hstep : forall (T : matQ) (basis : list nat) (c r : nat),
     tab_inv L nc a T0 obj T basis -> rhs_nonneg L nc T -> (r < L)%nat ->
     (c < nc - 1 - (if false then L else 0))%nat -> 0 < get T r c -> 0 < get T L c ->
     (forall k : nat, (k < L)%nat -> 0 < get T k c -> ratio T c (nc - 1) r <= ratio T c (nc - 1) k) ->
     rhs_nonneg L nc (pivoting T c r)).
  { intros T1 b1 c r Hi1 HP1 Hr Hc Hp _ Hmin i Hi.
    apply (pivoting_rhs_nonneg (S L) nc L); auto.
    - apply (ti_wf _ _ _ _ _ _ _ Hi1).
    - apply (ti_nc _ _ _ _ _ _ _ Hi1). }
  specialize (H Hstep fuel T basis ni Hinv HP).
  destruct (solve_tableau_loop fuel T basis false opts0 ni) as [[[[T' b'] su] st] n'].
  destruct H as (H1 & H2 & H3 & H4). split; [auto|split; [auto|]].
  intros Hs j Hj. apply H4; auto. cbv iota. lia.
Qed.

Theorem status2_infeasible c m k Aub bub Aeq beq max_iter x lam fn success ni :
  linprog_simplex c m k Aub bub Aeq beq max_iter opts0 = (x, lam, fn, success, 2%nat, ni) ->
  forall x', ~ primal_feasible (length c) m k Aub bub Aeq beq x'.
Proof.
  set (n := length c). set (L := (m + k)%nat). set (a := (n + m)%nat). set (nc := (n + m + L + 1)%nat).
  unfold linprog_simplex. fold n. cbv zeta. fold L.
  pose proof (init_inv n m k Aub bub Aeq beq) as [Hi0 Hr0]. unfold T1, basis1 in Hi0, Hr0.
  destruct (initialize_tableau n m k Aub bub Aeq beq) as [tb0 basis0]. cbn [fst snd] in Hi0, Hr0.
  fold L a nc in Hi0, Hr0.
  unfold solve_phase_1, solve_tableau.
  assert (E1 : (nrows tb0 - 1 = L)%nat) by (unfold nrows; destruct (ti_wf _ _ _ _ _ _ _ Hi0) as [-> _]; lia).
  assert (E2 : ncols tb0 = nc) by (apply (wf_ncols (S L)); [apply (ti_wf _ _ _ _ _ _ _ Hi0)|lia]).
  rewrite E1, E2.
  pose proof (phase1_spec_opt L nc a _ _ max_iter tb0 basis0 0%nat Hi0 Hr0) as H1.
  pose proof (solve_tableau_status max_iter tb0 basis0 false opts0 0%nat) as Hst1.
  destruct (solve_tableau_loop max_iter tb0 basis0 false opts0 0) as [[[[tb bs] su] st] ni1].
  destruct H1 as (Hi1 & Hs1 & Hopt1).
  destruct su; cbn [negb].
  2:{ intros H. injection H as _ _ _ _ Hst _. lia. }
  assert (E3 : ncols tb = nc) by (apply (wf_ncols (S L)); [apply (ti_wf _ _ _ _ _ _ _ Hi1)|lia]).
  rewrite E3.
  destruct (nltb (fea_tol opts0) (get tb L (nc - 1))) eqn:Ef.
  - (* the infeasibility branch *)
    intros _ x' (Hx & Hub & Heq).
    apply nltb_lt in Ef. cbn in Ef.
    assert (Hst0 : st = 0%nat) by (apply Hs1; reflexivity). specialize (Hopt1 Hst0).
    set (u := fun j => if Nat.ltb j n then vget x' j
                       else if Nat.ltb j (n + m) then vget bub (j - n) - Arow n Aub (j - n) x' else 0).
    assert (Hu0 : forall j, 0 <= u j).
    { intros j. unfold u; cbv beta. destruct (Nat.ltb_spec j n); [apply Hx; auto|].
      destruct (Nat.ltb_spec j (n + m)); [|lra]. specialize (Hub (j - n)%nat ltac:(lia)). lra. }
    assert (Hus : solves L nc (T0 n m k Aub bub Aeq beq) u).
    { intros i Hi. change (nc - 1)%nat with (n + m + (m + k) + 1 - 1)%nat.
      rewrite (sum_cols3 n m k). rewrite T0_rhs by auto.
      rewrite (sumQ_ext n _ (fun j => sg m bub beq i * (A_of m Aub Aeq i j * vget x' j))).
      2:{ intros j Hj. rewrite T0_x by auto. unfold u; cbv beta. destruct (Nat.ltb_spec j n); [ring|lia]. }
      rewrite sumQ_scale.
      rewrite (sumQ_ext m _ (fun j => if Nat.eqb j i then sg m bub beq i * u (n + j)%nat else 0)).
      2:{ intros j Hj. rewrite T0_slack by auto. destruct (Nat.ltb_spec i m); cbn [andb].
          - destruct (Nat.eqb j i); ring.
          - destruct (Nat.eqb_spec j i); [lia|ring]. }
      rewrite sumQ_delta.
      rewrite (sumQ_zero (m + k)).
      2:{ intros j Hj. unfold u; cbv beta. destruct (Nat.ltb_spec (n + m + j) n); [lia|].
          destruct (Nat.ltb_spec (n + m + j) (n + m)); [lia|]. ring. }
      unfold A_of, b_of. destruct (Nat.ltb_spec i m) as [Him|Him].
      - unfold u; cbv beta. destruct (Nat.ltb_spec (n + i) n); [lia|]. destruct (Nat.ltb_spec (n + i) (n + m)); [|lia].
        replace (n + i - n)%nat with i by lia. unfold Arow. ring.
      - unfold Arow in Heq. rewrite (Heq (i - m)%nat) by (unfold L in Hi; lia). ring. }
    pose proof (crit_dot _ _ _ _ _ _ _ u Hi1 Hus) as E.
    assert (Hle : sumQ (nc - 1) (fun j => get tb L j * u j) <= 0).
    { setoid_replace 0 with (sumQ (nc - 1) (fun _ => 0)) by (symmetry; apply sumQ_zero; reflexivity).
      apply sumQ_le. intros j Hj. specialize (Hopt1 j Hj). specialize (Hu0 j). nra. }
    assert (Hobj : sumQ (nc - 1) (fun j => obj1 n m k j * u j) == 0).
    { apply sumQ_zero. intros j Hj. unfold obj1, u; cbv beta.
      destruct (Nat.leb_spec (n + m) j); cbn [andb]; [|ring].
      destruct (Nat.ltb_spec j n); [lia|]. destruct (Nat.ltb_spec j (n + m)); [lia|]. ring. }
    assert (Hr : obj1 n m k (nc - 1)%nat == 0).
    { unfold obj1. destruct (Nat.ltb_spec (nc - 1) (n + m + (m + k))); [unfold nc, L in *; lia|]. now rewrite andb_false_r. }
    rewrite Hobj, Hr in E. lra.
  - (* Phase 2 never reports status 2 *)
    replace (nc - (L + 1))%nat with a by (unfold nc; lia).
    destruct (cleanup tb bs ni1 L a (tol_piv opts0)) as [[tb' bs'] ni1'].
    pose proof (solve_tableau_status (max_iter - ni1') (set_criterion_row c bs' tb') bs' true opts0 0%nat) as Hst2.
    destruct (solve_tableau_loop (max_iter - ni1') (set_criterion_row c bs' tb') bs' true opts0 0) as [[[[tb3 bs3] su3] st3] ni2].
    destruct (get_solution tb3 bs3 n L (b_signs bub beq)) as [[x0 lam0] fn0].
    intros H. injection H as _ _ _ _ Hst _. lia.
Qed.

(* C08 model: quantecon/quad.py and quantecon/_ce_util.py over exact rationals.
   Executable definitions only; proofs live in Proofs.v.

   Closed-form rules (linspace, _qnwtrap1, _qnwsimp1), the tensor-product
   machinery (ckron, gridmake, _make_multidim_func), the affine maps of
   qnwlege/qnwunif/qnwnorm, quadrect and the qnwequi weights are modelled
   operation by operation.  The Gauss kernels iterate Newton's method with
   cos/lgamma/sqrt starting values; what is modelled of them is the
   three-term recurrence evaluated inside the loop (as an exact function
   z |-> (p_n(z), p_n'(z)...)) and the weight formula applied to the
   converged z.  Qred only normalises fractions (Qred q == q). *)
From Coq Require Import ZArith QArith Qabs List Bool.
Import ListNotations.
Open Scope Q_scope.

Definition qn (i : nat) : Q := inject_Z (Z.of_nat i).
Definition nthq (l : list Q) (i : nat) : Q := nth i l 0.

(* ---------- numba's np.linspace(start, stop, num):
   step = (stop-start)/(num-1); arr[i] = start + i*step; arr[-1] = stop (num>1) *)
Definition linspace (a b : Q) (n : nat) : list Q :=
  match n with
  | O => []
  | S m => match m with
           | O => [a]
           | S _ => let step := (b - a) / qn m in
                    map (fun i => if Nat.eqb i m then b else a + qn i * step) (seq 0 n)
           end
  end.

(* ---------- _qnwtrap1(n, a, b).  The code raises for n < 1 and reads
   nodes[1] out of bounds for n = 1; the property's quantifier is n >= 2:
   the model rejects n < 2. *)
Definition qnwtrap1 (n : nat) (a b : Q) : option (list Q * list Q) :=
  if Nat.ltb n 2 then None else
  let nodes := linspace a b n in
  let dx := nthq nodes 1 - nthq nodes 0 in
  Some (nodes,
        map (fun i => if Nat.eqb i 0 || Nat.eqb i (n - 1) then dx * 1 * (1 # 2) else dx * 1)
            (seq 0 n)).

(* ---------- _qnwsimp1(n, a, b): even n is increased by one; weights
   kron(ones((n+1)//2), [2,4])[:n] with both ends set to 1, times dx/3.
   n = 1 (and n = 0 -> 1) reads nodes[1] out of bounds: rejected. *)
Definition simp_n (n : nat) : nat := if Nat.even n then S n else n.
Definition simp_coef (n i : nat) : Q :=
  if Nat.eqb i 0 || Nat.eqb i (n - 1) then 1 else if Nat.even i then 2 else 4.
Definition qnwsimp1 (n0 : nat) (a b : Q) : option (list Q * list Q) :=
  let n := simp_n n0 in
  if Nat.ltb n 3 then None else
  let nodes := linspace a b n in
  let dx := nthq nodes 1 - nthq nodes 0 in
  Some (nodes, map (fun i => dx / 3 * simp_coef n i) (seq 0 n)).

(* ---------- _ce_util.ckron = reduce(np.kron, arrays); np.kron(a,b)[i*len(b)+j] = a[i]*b[j] *)
Definition kron (a b : list Q) : list Q := flat_map (fun x => map (Qmult x) b) a.
Definition ckron (ws : list (list Q)) : list Q :=
  match ws with
  | [] => []
  | w :: r => fold_left kron r w
  end.

(* ---------- _ce_util.gridmake: _gridmake2(x1, x2) = column_stack([tile(x1, len(x2)), repeat(x2, len(x1))])
   (first argument varies fastest); further arrays are folded in from the left.
   gridmake of fewer than two arrays raises (IndexError on arrays[1]). *)
Definition gridmake2 (rows : list (list Q)) (y : list Q) : list (list Q) :=
  flat_map (fun yv => map (fun row => row ++ [yv]) rows) y.
Definition gridmake_rows (x1 : list Q) (rest : list (list Q)) : list (list Q) :=
  fold_left gridmake2 rest (map (fun x => [x]) x1).
Definition gridmake (xs : list (list Q)) : option (list (list Q)) :=
  match xs with
  | x1 :: x2 :: r => Some (gridmake_rows x1 (x2 :: r))
  | _ => None
  end.

(* ---------- _make_multidim_func for d >= 2 dimensions (d = 1 calls the
   1-d routine directly): nodes = gridmake of the node arrays, weights = ckron of the reversed weight arrays *)
Fixpoint all_some {A} (l : list (option A)) : option (list A) :=
  match l with
  | [] => Some []
  | None :: _ => None
  | Some x :: r => match all_some r with None => None | Some t => Some (x :: t) end
  end.

Definition tensor_rule (rules : list (list Q * list Q)) : option (list (list Q) * list Q) :=
  match gridmake (map fst rules) with
  | None => None
  | Some nodes => Some (nodes, ckron (rev (map snd rules)))
  end.

Definition make_multidim (one_d : nat -> Q -> Q -> option (list Q * list Q))
           (params : list (nat * Q * Q)) : option (list (list Q) * list Q) :=
  match all_some (map (fun p => one_d (fst (fst p)) (snd (fst p)) (snd p)) params) with
  | None => None
  | Some rules => tensor_rule rules
  end.

Definition qnwtrap := make_multidim qnwtrap1.
Definition qnwsimp := make_multidim qnwsimp1.

(* ---------- applying a rule: quadrect = weights.dot(f(nodes)) *)
Definition dotq (a b : list Q) : Q :=
  fold_right (fun p acc => fst p * snd p + acc) 0 (combine a b).
Definition quadrect {X} (f : X -> Q) (nodes : list X) (weights : list Q) : Q :=
  dotq weights (map f nodes).
(* sum_r w_r * f(x_r): node r is paired with weight r *)
Definition quad {X} (nodes : list X) (weights : list Q) (f : X -> Q) : Q :=
  fold_right (fun p acc => snd p * f (fst p) + acc) 0 (combine nodes weights).

Definition sumq (l : list Q) : Q := fold_right Qplus 0 l.
Definition prodq (l : list Q) : Q := fold_right Qmult 1 l.
Fixpoint qpow (x : Q) (e : nat) : Q := match e with O => 1 | S e' => x * qpow x e' end.
(* product monomial  prod_i row_i ^ e_i *)
Fixpoint monomial (es : list nat) (row : list Q) : Q :=
  match es, row with
  | e :: es', x :: row' => qpow x e * monomial es' row'
  | _, _ => 1
  end.

(* ---------- qnwequi weights: prod(b-a)/n * ones(n), n = prod(n_i) *)
Definition equi_weights (n : nat) (a b : list Q) : list Q :=
  let r := map (fun p => snd p - fst p) (combine a b) in
  repeat (prodq r / qn n * 1) n.

(* ---------- Gauss-Legendre kernel (_qnwlege1) ----------
   for j in 1..n: p3 = p2; p2 = p1; p1 = ((2j-1) z p2 - (j-1) p3)/j
   pp = n (z p1 - p2)/(z^2 - 1);  weight = 2 xl/((1-z^2) pp pp) *)
Fixpoint lege_loop (k j : nat) (z p1 p2 : Q) : Q * Q :=
  match k with
  | O => (p1, p2)
  | S k' => lege_loop k' (S j) z
              (Qred (((2 * qn j - 1) * z * p1 - (qn j - 1) * p2) / qn j)) p1
  end.
Definition lege_eval (n : nat) (z : Q) : Q * Q :=
  let '(p1, p2) := lege_loop n 1 z 1 0 in
  (p1, qn n * (z * p1 - p2) / (z * z - 1)).
Definition lege_weight (xl z pp : Q) : Q := 2 * xl / ((1 - z * z) * pp * pp).

(* nodes[i] = xm - xl z_i, nodes[n-1-i] = xm + xl z_i for i < m = (n+1)/2 (the
   second assignment wins at the middle index of an odd n) *)
Definition lege_m (n : nat) : nat := Nat.div (n + 1) 2.
Definition qnwlege1_from_roots (n : nat) (a b : Q) (zs : list Q) : list Q * list Q :=
  let xm := (1 # 2) * (b + a) in
  let xl := (1 # 2) * (b - a) in
  let m := lege_m n in
  (map (fun k => if Nat.ltb k (n - m) then xm - xl * nthq zs k else xm + xl * nthq zs (n - 1 - k)) (seq 0 n),
   map (fun k => let z := nthq zs (if Nat.ltb k (n - m) then k else n - 1 - k) in
                 Qred (lege_weight xl z (snd (lege_eval n z)))) (seq 0 n)).

(* Newton-converged root: |p| <= tol |p'| *)
Definition root_ok (tol : Q) (ppp : Q * Q) : bool :=
  Qle_bool (Qabs (fst ppp)) (tol * Qabs (snd ppp)).

(* affine image of the [-1,1] rule (what qnwlege does to z and to the weights) *)
Definition affine_rule (a b : Q) (rule : list Q * list Q) : list Q * list Q :=
  let xm := (1 # 2) * (b + a) in
  let xl := (1 # 2) * (b - a) in
  (map (fun t => xm + xl * t) (fst rule), map (fun w => xl * w) (snd rule)).

(* qnwunif: weights / prod(b - a) *)
Definition unif_weights (weights : list Q) (a b : list Q) : list Q :=
  let vol := prodq (map (fun p => snd p - fst p) (combine a b)) in
  map (fun w => w / vol) weights.

(* ---------- Gauss-Hermite (_qnwnorm1).  The kernel works with the orthonormal
   recurrence (square roots) and rescales nodes by sqrt(2) and weights by
   1/sqrt(pi); in terms of the returned node x this is the probabilists'
   recurrence He_j = x He_{j-1} - (j-1) He_{j-2}, He_n' = n He_{n-1},
   weight = n!/(n^2 He_{n-1}(x)^2)  (rational reformulation, not the literal loop) *)
Fixpoint herm_loop (k j : nat) (x p1 p2 : Q) : Q * Q :=
  match k with
  | O => (p1, p2)
  | S k' => herm_loop k' (S j) x (Qred (x * p1 - (qn j - 1) * p2)) p1
  end.
Fixpoint qfact (n : nat) : Q := match n with O => 1 | S n' => qn n * qfact n' end.
Definition herm_eval (n : nat) (x : Q) : Q * Q :=
  let '(p1, p2) := herm_loop n 1 x 1 0 in (p1, qn n * p2).
Definition herm_weight (n : nat) (x : Q) : Q :=
  let '(_, p2) := herm_loop n 1 x 1 0 in Qred (qfact n / (qn n * qn n * p2 * p2)).

(* qnwnorm: nodes.dot(R) + mu (d > 1), nodes * r + mu (d = 1) *)
Definition row_times (x : list Q) (R : list (list Q)) (mu : list Q) : list Q :=
  map (fun jm => dotq x (map (fun Rrow => nthq Rrow (fst jm)) R) + snd jm)
      (combine (seq 0 (length mu)) mu).
Definition norm_map (nodes : list (list Q)) (R : list (list Q)) (mu : list Q) : list (list Q) :=
  map (fun x => row_times x R mu) nodes.
Definition norm_map1 (nodes : list Q) (r mu : Q) : list Q := map (fun x => x * r + mu) nodes.

(* ---------- Gauss-Laguerre (_qnwgamma1), a already decremented (a := a-1):
   p1 = ((2j-1+a-z) p2 - (j-1+a) p3)/j ; pp = (n p1 - (n+a) p2)/z ;
   weight = factor/(pp n p2), factor = -Gamma(a+n)/(Gamma(n) Gamma(a+1)) (a rational
   number: a rising product); nodes are z*b *)
Fixpoint rising (a : Q) (k : nat) : Q :=    (* (a+1)(a+2)...(a+k) = Gamma(a+k+1)/Gamma(a+1) *)
  match k with O => 1 | S k' => rising a k' * (a + qn k) end.
Fixpoint lag_loop (k j : nat) (a z p1 p2 : Q) : Q * Q :=
  match k with
  | O => (p1, p2)
  | S k' => lag_loop k' (S j) a z
              (Qred (((2 * qn j - 1 + a - z) * p1 - (qn j - 1 + a) * p2) / qn j)) p1
  end.
Definition lag_eval (n : nat) (a z : Q) : Q * Q :=
  let '(p1, p2) := lag_loop n 1 a z 1 0 in (p1, (qn n * p1 - (qn n + a) * p2) / z).
Definition lag_weight (n : nat) (a z : Q) : Q :=
  let '(p1, p2) := lag_loop n 1 a z 1 0 in
  let pp := (qn n * p1 - (qn n + a) * p2) / z in
  let factor := - (rising a (n - 1) / qfact (n - 1)) in
  Qred (factor / (pp * qn n * p2)).

(* ---------- Gauss-Jacobi (_qnwbeta1), a, b already decremented:
   weights[i] = temp/(pp p2) * G1 / (2 G2),
   G1 = Gamma(a+n)Gamma(b+n)/(Gamma(n+1)Gamma(n+ab+1)), G2 = Gamma(a+1)Gamma(b+1)/Gamma(ab+2) *)
Fixpoint jac_loop (k j : nat) (a b z p1 p2 : Q) : Q * Q :=
  match k with
  | O => (p1, p2)
  | S k' =>
      let ab := a + b in
      let temp := 2 * qn j + ab in
      let aa := 2 * qn j * (qn j + ab) * (temp - 2) in
      let bb := (temp - 1) * (a * a - b * b + temp * (temp - 2) * z) in
      let c := 2 * (qn j - 1 + a) * (qn j - 1 + b) * temp in
      jac_loop k' (S j) a b z (Qred ((bb * p1 - c * p2) / aa)) p1
  end.
Definition jac_p12 (n : nat) (a b z : Q) : Q * Q :=
  jac_loop (n - 1) 2 a b z ((a - b + (2 + (a + b)) * z) / 2) 1.
Definition jac_temp (n : nat) (a b : Q) : Q := 2 * qn (Nat.max n 1) + (a + b).
Definition jac_eval (n : nat) (a b z : Q) : Q * Q :=
  let '(p1, p2) := jac_p12 n a b z in
  let temp := jac_temp n a b in
  (p1, (qn n * (a - b - temp * z) * p1 + 2 * (qn n + a) * (qn n + b) * p2) / (temp * (1 - z * z))).
Definition jac_weight (n : nat) (a b z : Q) : Q :=
  let '(p1, p2) := jac_p12 n a b z in
  let temp := jac_temp n a b in
  let pp := snd (jac_eval n a b z) in
  let g := rising a (n - 1) * rising b (n - 1) / (rising (a + b + 1) (n - 1) * qfact n * 2) in
  Qred (temp / (pp * p2) * g).

(* ---------- one pass per node: (p_n(z), p_n'(z), weight) for the output-level correspondence *)
Definition lege_node (n : nat) (xl z : Q) : Q * Q * Q :=
  let '(p, pp) := lege_eval n z in (p, pp, lege_weight xl z pp).
Definition herm_node (n : nat) (x : Q) : Q * Q * Q :=
  let '(p1, p2) := herm_loop n 1 x 1 0 in
  (p1, qn n * p2, qfact n / (qn n * qn n * p2 * p2)).
Definition lag_node (n : nat) (a z : Q) : Q * Q * Q :=
  let '(p1, p2) := lag_loop n 1 a z 1 0 in
  let pp := (qn n * p1 - (qn n + a) * p2) / z in
  (p1, pp, - (rising a (n - 1) / qfact (n - 1)) / (pp * qn n * p2)).
Definition jac_node (n : nat) (a b z : Q) : Q * Q * Q :=
  let '(p1, p2) := jac_p12 n a b z in
  let temp := jac_temp n a b in
  let pp := (qn n * (a - b - temp * z) * p1 + 2 * (qn n + a) * (qn n + b) * p2) / (temp * (1 - z * z)) in
  (p1, pp, temp / (pp * p2) *
           (rising a (n - 1) * rising b (n - 1) / (rising (a + b + 1) (n - 1) * qfact n * 2))).
(* |p| <= tol_root |p'| and the recomputed weight within tol_w (relative) of the returned one *)
Definition node_ok (tol_root tol_w : Q) (r : Q * Q * Q) (w : Q) : bool :=
  let '(p, pp, mw) := r in
  Qle_bool (Qabs p) (tol_root * Qabs pp) && Qle_bool (Qabs (mw - w)) (tol_w * Qabs w).

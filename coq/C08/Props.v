(* C08 property theorems: statements only, each closed by `exact`, with Print Assumptions.
   All statements are about the exact-rational model coq/C08/Model.v (== is equality of rationals). *)
From Coq Require Import ZArith QArith Qabs List Bool Lia.
From QE Require Import Base.Cases C08.Model C08.Proofs.
Import ListNotations.
Open Scope Q_scope.

(* quadrect = weights . f(nodes) = sum_r w_r f(x_r) *)
Theorem C08_quadrect_is_dot : forall (X : Type) (f : X -> Q) nodes weights,
  quadrect f nodes weights == quad nodes weights f.
Proof. exact @quadrect_is_quad. Qed.
Print Assumptions C08_quadrect_is_dot.

(* trapezoid rule, every n >= 2 and a < b *)
Theorem C08_trap_exact_deg1 : forall n a b, (2 <= n)%nat -> a < b ->
  exists nodes weights, qnwtrap1 n a b = Some (nodes, weights) /\
    length nodes = n /\ length weights = n /\
    Forall (fun x => a <= x <= b) nodes /\
    Forall (fun w => 0 < w) weights /\
    sumq weights == b - a /\
    forall c0 c1, quad nodes weights (fun x => c0 + c1 * x)
                  == c0 * (b - a) + c1 * ((b * b - a * a) * (1 # 2)).
Proof. exact trap_spec. Qed.
Print Assumptions C08_trap_exact_deg1.

(* Simpson rule, every requested n >= 2 (even n rounded up to simp_n n), a < b: exact for cubics *)
Theorem C08_simp_exact_deg3 : forall n0 a b, (2 <= n0)%nat -> a < b ->
  exists nodes weights, qnwsimp1 n0 a b = Some (nodes, weights) /\
    length nodes = simp_n n0 /\ length weights = simp_n n0 /\
    Forall (fun x => a <= x <= b) nodes /\
    Forall (fun w => 0 < w) weights /\
    sumq weights == b - a /\
    forall c0 c1 c2 c3,
      quad nodes weights (fun x => c0 + c1 * x + c2 * (x * x) + c3 * (x * x * x))
      == c0 * (b - a) + c1 * ((b * b - a * a) * (1 # 2))
         + c2 * ((b * b * b - a * a * a) * (1 # 3))
         + c3 * ((b * b * b * b - a * a * a * a) * (1 # 4)).
Proof. exact simp_spec'. Qed.
Print Assumptions C08_simp_exact_deg3.

(* tensor products, any number d >= 2 of dimensions: rs lists, per dimension, the 1-d rule
   (nodes, weights), an integrand f_i and the value I_i the 1-d rule gives for it.  The rule built by
   _make_multidim_func (gridmake of the nodes, ckron of the reversed weights; node row r paired with
   weight r by `quad`) has equally many nodes and weights, positive weights if the factors have,
   total mass the product of the masses, and integrates the separable function prod_i f_i(x_i)
   to prod_i I_i. *)
Theorem C08_tensor_product_exact : forall (rs : list ((list Q * list Q) * ((Q -> Q) * Q))),
  (2 <= length rs)%nat ->
  Forall (fun r => length (fst (fst r)) = length (snd (fst r)) /\
                   quad (fst (fst r)) (snd (fst r)) (fst (snd r)) == snd (snd r)) rs ->
  exists nodes weights, tensor_rule (map fst rs) = Some (nodes, weights) /\
    length nodes = length weights /\
    (Forall (fun r => Forall (fun w => 0 < w) (snd (fst r))) rs -> Forall (fun w => 0 < w) weights) /\
    sumq weights == prodq (map (fun r => sumq (snd (fst r))) rs) /\
    quad nodes weights (prodfun (map (fun r => fst (snd r)) rs)) == prodq (map (fun r => snd (snd r)) rs).
Proof. exact tensor_spec. Qed.
Print Assumptions C08_tensor_product_exact.

(* the separable integrand of exponents es is the product monomial of the model *)
Theorem C08_monomial_is_separable : forall es row,
  monomial es row = prodfun (map (fun e x => qpow x e) es) row.
Proof. exact monomial_prodfun. Qed.
Print Assumptions C08_monomial_is_separable.

(* affine change of interval (what qnwlege does to the [-1,1] rule): exactness for the monomials
   t^k, k <= p, on [-1,1] transfers to [a,b]; the exact moment of x^k on [lo,hi] is
   (hi^(k+1) - lo^(k+1))/(k+1) *)
Theorem C08_affine_preserves_degree : forall p a b ts ws,
  (forall k, (k <= p)%nat ->
     quad ts ws (fun t => qpow t k) == (qpow 1 (S k) - qpow (-1) (S k)) / qn (S k)) ->
  forall k, (k <= p)%nat ->
    quad (fst (affine_rule a b (ts, ws))) (snd (affine_rule a b (ts, ws))) (fun x => qpow x k)
    == (qpow b (S k) - qpow a (S k)) / qn (S k).
Proof. exact affine_spec. Qed.
Print Assumptions C08_affine_preserves_degree.

(* qnwunif: every integral of the Legendre rule divided by the volume of the box *)
Theorem C08_qnwunif_scale : forall (X : Type) (nodes : list X) ws a b f,
  quad nodes (unif_weights ws a b) f
  == quad nodes ws f / prodq (map (fun p => snd p - fst p) (combine a b)).
Proof. exact @unif_scale. Qed.
Print Assumptions C08_qnwunif_scale.

(* the loop of _qnwlege1 computes the Legendre polynomial of Bonnet's recurrence, and the kernel's
   derivative formula n (z P_n - P_{n-1})/(z^2 - 1) is the formal derivative of that recurrence
   (legPD in Proofs.v: j P_j = (2j-1) z P_{j-1} - (j-1) P_{j-2} and its termwise derivative) *)
Theorem C08_legendre_recurrence_is_Pn : forall n z, ~ z * z - 1 == 0 ->
  fst (lege_eval n z) == legP n z /\ snd (lege_eval n z) == legP' n z.
Proof. exact lege_eval_spec. Qed.
Print Assumptions C08_legendre_recurrence_is_Pn.

Theorem C08_legendre_normalisation : forall n, legP n 1 == 1.
Proof. intros n. exact (proj1 (legP_at_1 n)). Qed.
Print Assumptions C08_legendre_normalisation.

(* Algebraic core of Gauss's theorem, proved over Q for ANY rational nodes (no distinctness needed) and ANY
   linear functional given by its moments m(0), m(1), ...: if the n-point rule reproduces m(0..n-1)
   (interpolatory weights) and the node polynomial omega = prod (x - x_i) (coefficient list nodepoly nodes)
   is orthogonal to 1, x, .., x^(n-1)  (mf m j omega = L(x^j omega) = sum_c omega_c m(j+c) = 0),
   then the rule reproduces m(0..2n-1).  What stays unproved is only that the floating-point kernels'
   nodes/weights satisfy these two hypotheses for the Legendre/Hermite/Jacobi/Laguerre functionals. *)
Theorem C08_gauss_algebraic_core : forall (nodes ws : list Q) (m : nat -> Q),
  let n := length nodes in
  (forall k, (k < n)%nat -> quad nodes ws (fun x => qpow x k) == m k) ->
  (forall j, (j < n)%nat -> mf m j (nodepoly nodes) == 0) ->
  forall k, (k < 2 * n)%nat -> quad nodes ws (fun x => qpow x k) == m k.
Proof. exact gauss_core. Qed.
Print Assumptions C08_gauss_algebraic_core.

(* the coefficient list really is the monic node polynomial: it vanishes at every node and has leading coefficient 1 *)
Theorem C08_nodepoly_spec : forall xs,
  (forall x, In x xs -> peval (nodepoly xs) x == 0) /\
  exists q, nodepoly xs = q ++ [1] /\ length q = length xs.
Proof. intros xs. split; [intros x; apply nodepoly_root | apply nodepoly_monic]. Qed.
Print Assumptions C08_nodepoly_spec.

(* NOT PROVED (classical Gauss theorem): nodes = the roots of P_n, weights 2/((1-z^2) P_n'(z)^2)
   integrate every monomial of degree <= 2n-1 exactly.  Over Q the hypothesis "all n roots" is
   satisfiable only for n = 1 (P_n has no other rational roots), so the statement that matters is
   about real roots; it is decided for the implementation's floating-point nodes by the oracle
   (all moments up to 2n-1, 1e-10) and the root/weight correspondence. *)
Definition C08_gauss_exact_2n_minus_1_full : Prop :=
  forall n zs, (1 <= n)%nat -> length zs = n ->
    (forall i j, (i < j < n)%nat -> ~ nthq zs i == nthq zs j) ->
    (forall z, In z zs -> legP n z == 0) ->
    forall k, (k <= 2 * n - 1)%nat ->
      quad zs (map (fun z => 2 / ((1 - z * z) * legP' n z * legP' n z)) zs) (fun x => qpow x k)
      == (qpow 1 (S k) - qpow (-1) (S k)) / qn (S k).

(* end to end: the rules returned by qnwtrap / qnwsimp for 2 and 3 dimensions (the property's d <= 3)
   integrate products of linear (resp. cubic) polynomials in the coordinates exactly, have positive
   weights and total mass the volume of the box.  lin c x = c0 + c1 x, cub c x = c0 + .. + c3 x^3,
   lin_int / cub_int their exact integrals over [a,b] (Proofs.v). *)
Theorem C08_qnwtrap_2d_exact : forall n1 a1 b1 n2 a2 b2 c1 c2,
  (2 <= n1)%nat -> a1 < b1 -> (2 <= n2)%nat -> a2 < b2 ->
  exists nodes weights, qnwtrap [(n1, a1, b1); (n2, a2, b2)] = Some (nodes, weights) /\
    length nodes = (n2 * n1)%nat /\ length weights = (n2 * n1)%nat /\
    Forall (fun w => 0 < w) weights /\
    sumq weights == (b1 - a1) * (b2 - a2) /\
    quad nodes weights (prodfun [lin c1; lin c2]) == lin_int c1 a1 b1 * lin_int c2 a2 b2.
Proof. exact qnwtrap_2d. Qed.
Print Assumptions C08_qnwtrap_2d_exact.

Theorem C08_qnwtrap_3d_exact : forall n1 a1 b1 n2 a2 b2 n3 a3 b3 c1 c2 c3,
  (2 <= n1)%nat -> a1 < b1 -> (2 <= n2)%nat -> a2 < b2 -> (2 <= n3)%nat -> a3 < b3 ->
  exists nodes weights, qnwtrap [(n1, a1, b1); (n2, a2, b2); (n3, a3, b3)] = Some (nodes, weights) /\
    length nodes = length weights /\
    Forall (fun w => 0 < w) weights /\
    sumq weights == (b1 - a1) * (b2 - a2) * (b3 - a3) /\
    quad nodes weights (prodfun [lin c1; lin c2; lin c3])
    == lin_int c1 a1 b1 * lin_int c2 a2 b2 * lin_int c3 a3 b3.
Proof. exact qnwtrap_3d. Qed.
Print Assumptions C08_qnwtrap_3d_exact.

Theorem C08_qnwsimp_2d_exact : forall n1 a1 b1 n2 a2 b2 c1 c2,
  (2 <= n1)%nat -> a1 < b1 -> (2 <= n2)%nat -> a2 < b2 ->
  exists nodes weights, qnwsimp [(n1, a1, b1); (n2, a2, b2)] = Some (nodes, weights) /\
    length nodes = length weights /\
    Forall (fun w => 0 < w) weights /\
    sumq weights == (b1 - a1) * (b2 - a2) /\
    quad nodes weights (prodfun [cub c1; cub c2]) == cub_int c1 a1 b1 * cub_int c2 a2 b2.
Proof. exact qnwsimp_2d. Qed.
Print Assumptions C08_qnwsimp_2d_exact.

Theorem C08_qnwsimp_3d_exact : forall n1 a1 b1 n2 a2 b2 n3 a3 b3 c1 c2 c3,
  (2 <= n1)%nat -> a1 < b1 -> (2 <= n2)%nat -> a2 < b2 -> (2 <= n3)%nat -> a3 < b3 ->
  exists nodes weights, qnwsimp [(n1, a1, b1); (n2, a2, b2); (n3, a3, b3)] = Some (nodes, weights) /\
    length nodes = length weights /\
    Forall (fun w => 0 < w) weights /\
    sumq weights == (b1 - a1) * (b2 - a2) * (b3 - a3) /\
    quad nodes weights (prodfun [cub c1; cub c2; cub c3])
    == cub_int c1 a1 b1 * cub_int c2 a2 b2 * cub_int c3 a3 b3.
Proof. exact qnwsimp_3d. Qed.
Print Assumptions C08_qnwsimp_3d_exact.

(* the hypotheses are satisfiable: 3-point trapezoid on [0,1] x 3-point Simpson on [0,2], monomial x*y^3 *)
Example ex_trap : match qnwtrap1 3 0 1 with
  | Some (x, w) => Qs_eqb x [0; 1 # 2; 1] && Qs_eqb w [1 # 4; 1 # 2; 1 # 4] | None => false end = true.
Proof. vm_compute. reflexivity. Qed.
Example ex_tensor : match qnwtrap1 3 0 1, qnwsimp1 2 0 2 with
  | Some r1, Some r2 =>
      match tensor_rule [r1; r2] with
      | Some (nodes, weights) =>
          Nat.eqb (length nodes) 9 && Qeq_bool (quad nodes weights (monomial [1%nat; 3%nat])) ((1 # 2) * 4)
      | None => false end
  | _, _ => false end = true.
Proof. vm_compute. reflexivity. Qed.
Example ex_affine_hyp : forall k, (k <= 1)%nat ->
  quad [0] [2] (fun t => qpow t k) == (qpow 1 (S k) - qpow (-1) (S k)) / qn (S k).
Proof. intros [|[|k]] H; [vm_compute; reflexivity | vm_compute; reflexivity | exfalso; inversion H as [|? H']; inversion H']. Qed.
(* hypotheses of the algebraic core are satisfiable: the 1-point Gauss-Legendre rule (node 0, weight 2) *)
Example ex_gauss_core_hyp :
  let m := fun k => (qpow 1 (S k) - qpow (-1) (S k)) / qn (S k) in
  (forall k, (k < 1)%nat -> quad [0] [2] (fun x => qpow x k) == m k) /\
  (forall j, (j < 1)%nat -> mf m j (nodepoly [0]) == 0).
Proof.
  split; intros [|k] H; try (exfalso; lia); vm_compute; reflexivity.
Qed.

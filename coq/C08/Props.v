(* C08 property theorems: statements only, each closed by `exact`, with Print Assumptions.
   All statements are about the exact-rational model coq/C08/Model.v (== is equality of rationals). *)
From Coq Require Import ZArith QArith Qabs List Bool.
From QE Require Import Base.Cases C08.Model C08.Proofs.
Import ListNotations.
Open Scope Q_scope.

(* quadrect = weights . f(nodes) = sum_r w_r f(x_r) *)
Theorem C08_quadrect_is_dot : forall (X : Type) (f : X -> Q) nodes weights,
  quadrect f nodes weights == quad nodes weights f.
Proof. exact @quadrect_is_quad. Qed.
Print Assumptions C08_quadrect_is_dot.

(* trapezoid rule, every n >= 2 and a < b *)
Theorem C08_trap_exact_deg1 : forall n a b, (2 <= n)%nat -> a < b ->
  exists nodes weights, qnwtrap1 n a b = Some (nodes, weights) /\
    length nodes = n /\ length weights = n /\
    Forall (fun x => a <= x <= b) nodes /\
    Forall (fun w => 0 < w) weights /\
    sumq weights == b - a /\
    forall c0 c1, quad nodes weights (fun x => c0 + c1 * x)
                  == c0 * (b - a) + c1 * ((b * b - a * a) * (1 # 2)).
Proof. exact trap_spec. Qed.
Print Assumptions C08_trap_exact_deg1.

(* Simpson rule, every requested n >= 2 (even n rounded up to simp_n n), a < b: exact for cubics *)
Theorem C08_simp_exact_deg3 : forall n0 a b, (2 <= n0)%nat -> a < b ->
  exists nodes weights, qnwsimp1 n0 a b = Some (nodes, weights) /\
    length nodes = simp_n n0 /\ length weights = simp_n n0 /\
    Forall (fun x => a <= x <= b) nodes /\
    Forall (fun w => 0 < w) weights /\
    sumq weights == b - a /\
    forall c0 c1 c2 c3,
      quad nodes weights (fun x => c0 + c1 * x + c2 * (x * x) + c3 * (x * x * x))
      == c0 * (b - a) + c1 * ((b * b - a * a) * (1 # 2))
         + c2 * ((b * b * b - a * a * a) * (1 # 3))
         + c3 * ((b * b * b * b - a * a * a * a) * (1 # 4)).
Proof. exact simp_spec'. Qed.
Print Assumptions C08_simp_exact_deg3.

(* tensor products, any number d >= 2 of dimensions: rs lists, per dimension, the 1-d rule
   (nodes, weights), an integrand f_i and the value I_i the 1-d rule gives for it.  The rule built by
   _make_multidim_func (gridmake of the nodes, ckron of the reversed weights; node row r paired with
   weight r by `quad`) has equally many nodes and weights, positive weights if the factors have,
   total mass the product of the masses, and integrates the separable function prod_i f_i(x_i)
   to prod_i I_i. *)
Theorem C08_tensor_product_exact : forall (rs : list ((list Q * list Q) * ((Q -> Q) * Q))),
  (2 <= length rs)%nat ->
  Forall (fun r => length (fst (fst r)) = length (snd (fst r)) /\
                   quad (fst (fst r)) (snd (fst r)) (fst (snd r)) == snd (snd r)) rs ->
  exists nodes weights, tensor_rule (map fst rs) = Some (nodes, weights) /\
    length nodes = length weights /\
    (Forall (fun r => Forall (fun w => 0 < w) (snd (fst r))) rs -> Forall (fun w => 0 < w) weights) /\
    sumq weights == prodq (map (fun r => sumq (snd (fst r))) rs) /\
    quad nodes weights (prodfun (map (fun r => fst (snd r)) rs)) == prodq (map (fun r => snd (snd r)) rs).
Proof. exact tensor_spec. Qed.
Print Assumptions C08_tensor_product_exact.

(* the separable integrand of exponents es is the product monomial of the model *)
Theorem C08_monomial_is_separable : forall es row,
  monomial es row = prodfun (map (fun e x => qpow x e) es) row.
Proof. exact monomial_prodfun. Qed.
Print Assumptions C08_monomial_is_separable.

(* the hypotheses are satisfiable: 3-point trapezoid on [0,1] x 3-point Simpson on [0,2], monomial x*y^3 *)
Example ex_trap : match qnwtrap1 3 0 1 with
  | Some (x, w) => Qs_eqb x [0; 1 # 2; 1] && Qs_eqb w [1 # 4; 1 # 2; 1 # 4] | None => false end = true.
Proof. vm_compute. reflexivity. Qed.
Example ex_tensor : match qnwtrap1 3 0 1, qnwsimp1 2 0 2 with
  | Some r1, Some r2 =>
      match tensor_rule [r1; r2] with
      | Some (nodes, weights) =>
          Nat.eqb (length nodes) 9 && Qeq_bool (quad nodes weights (monomial [1%nat; 3%nat])) ((1 # 2) * 4)
      | None => false end
  | _, _ => false end = true.
Proof. vm_compute. reflexivity. Qed.

(* C08 property theorems: statements only, each closed by `exact`, with Print Assumptions. *)
From Coq Require Import ZArith QArith Qabs List Bool.
From QE Require Import C08.Model C08.Proofs.
Import ListNotations.
Open Scope Q_scope.

Theorem C08_quadrect_is_dot : forall (X : Type) (f : X -> Q) nodes weights,
  quadrect f nodes weights == quad nodes weights f.
Proof. exact @quadrect_is_quad. Qed.
Print Assumptions C08_quadrect_is_dot.

(* C08 lemmas *)
From Coq Require Import ZArith QArith Qabs List Bool Lia Lqa.
From QE Require Import C08.Model.
Import ListNotations.
Open Scope Q_scope.

Lemma quadrect_is_quad {X} (f : X -> Q) nodes weights :
  quadrect f nodes weights == quad nodes weights f.
Proof.
  unfold quadrect, quad, dotq. revert weights.
  induction nodes as [|x r IH]; intros [|w ws]; simpl; try reflexivity.
  rewrite IH. reflexivity.
Qed.

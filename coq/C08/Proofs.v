(* C08 lemmas: closed-form rules (trapezoid, Simpson), quadrect, tensor products *)
From Coq Require Import ZArith QArith Qabs List Bool Lia Lqa Morphisms.
From QE Require Import C08.Model.
Import ListNotations.
Open Scope Q_scope.

(* ------------------------------------------------------------------ sums *)
Lemma sumq_app l1 l2 : sumq (l1 ++ l2) == sumq l1 + sumq l2.
Proof. induction l1; simpl; [ring | rewrite IHl1; ring]. Qed.

Lemma sumq_map_ext {A} (g g' : A -> Q) l :
  (forall i, In i l -> g i == g' i) -> sumq (map g l) == sumq (map g' l).
Proof.
  induction l; simpl; intros H; [reflexivity|].
  rewrite (H a) by (now left). rewrite IHl; [reflexivity|]. intros; apply H; now right.
Qed.

Lemma sumq_seq_S g s n : sumq (map g (seq s (S n))) == sumq (map g (seq s n)) + g (s + n)%nat.
Proof. rewrite seq_S, map_app, sumq_app. simpl. ring. Qed.

Lemma sumq_map_scale {A} c (g : A -> Q) l : sumq (map (fun i => c * g i) l) == c * sumq (map g l).
Proof. induction l; simpl; [ring | rewrite IHl; ring]. Qed.

Lemma quad_tab {X} (x : nat -> X) (w : nat -> Q) f l :
  quad (map x l) (map w l) f == sumq (map (fun i => w i * f (x i)) l).
Proof. unfold quad. induction l; simpl; [reflexivity | rewrite IHl; reflexivity]. Qed.

Lemma quadrect_is_quad {X} (f : X -> Q) nodes weights :
  quadrect f nodes weights == quad nodes weights f.
Proof.
  unfold quadrect, quad, dotq. revert weights.
  induction nodes as [|x r IH]; intros [|w ws]; simpl; try reflexivity.
  rewrite IH. reflexivity.
Qed.

Lemma quad_ext {X} (nodes : list X) weights f g :
  (forall x, f x == g x) -> quad nodes weights f == quad nodes weights g.
Proof.
  intros H. unfold quad. generalize (combine nodes weights). intros l.
  induction l; simpl; [reflexivity|]. rewrite IHl, H. reflexivity.
Qed.

Lemma quad_const1 {X} (nodes : list X) weights :
  length nodes = length weights -> quad nodes weights (fun _ => 1) == sumq weights.
Proof.
  unfold quad. revert weights. induction nodes as [|x r IH]; intros [|w ws]; simpl; intros H; try discriminate; [reflexivity|].
  rewrite IH by lia. ring.
Qed.

(* ------------------------------------------------------------------ qn *)
Lemma qn_S i : qn (S i) == qn i + 1.
Proof. unfold qn. rewrite Nat2Z.inj_succ, <- Z.add_1_r, inject_Z_plus. reflexivity. Qed.
Lemma qn_0 : qn 0 == 0. Proof. reflexivity. Qed.
Lemma qn_pos i : (0 < i)%nat -> 0 < qn i.
Proof. intros. unfold qn. change 0 with (inject_Z 0). rewrite <- Zlt_Qlt. lia. Qed.
Lemma qn_nonneg i : 0 <= qn i.
Proof. unfold qn. change 0 with (inject_Z 0). rewrite <- Zle_Qle. lia. Qed.
Lemma qn_le i j : (i <= j)%nat -> qn i <= qn j.
Proof. intros. unfold qn. rewrite <- Zle_Qle. lia. Qed.
Lemma qn_add i j : qn (i + j) == qn i + qn j.
Proof. unfold qn. rewrite Nat2Z.inj_add, inject_Z_plus. reflexivity. Qed.

(* ------------------------------------------------------------------ linspace *)
Lemma linspace_length a b n : length (linspace a b n) = n.
Proof. destruct n as [|[|m]]; simpl; auto. rewrite map_length, seq_length. reflexivity. Qed.

(* for n = m+1 >= 2 points every node is a + i h, h = (b-a)/m (the forced last node b included) *)
Lemma linspace_nth a b m i : (1 <= m)%nat -> (i <= m)%nat ->
  nthq (linspace a b (S m)) i == a + qn i * ((b - a) / qn m).
Proof.
  intros Hm Hi. destruct m as [|k]; [lia|].
  unfold nthq, linspace.
  set (g := fun i0 : nat => if Nat.eqb i0 (S k) then b else a + qn i0 * ((b - a) / qn (S k))).
  rewrite (nth_indep _ 0 (g 0%nat)) by (rewrite map_length, seq_length; lia).
  rewrite (map_nth g), seq_nth by lia. simpl Nat.add. unfold g at 1.
  destruct (Nat.eqb i (S k)) eqn:E.
  - apply Nat.eqb_eq in E. subst i. field. intro H. pose proof (qn_pos (S k) ltac:(lia)). lra.
  - reflexivity.
Qed.

Lemma linspace_map a b m : (1 <= m)%nat ->
  linspace a b (S m) = map (fun i => if Nat.eqb i m then b else a + qn i * ((b - a) / qn m)) (seq 0 (S m)).
Proof. intros. destruct m; [lia|]. reflexivity. Qed.

Lemma node_eq a b m i : (1 <= m)%nat -> (i <= m)%nat ->
  (if Nat.eqb i m then b else a + qn i * ((b - a) / qn m)) == a + qn i * ((b - a) / qn m).
Proof.
  intros Hm Hi. destruct (Nat.eqb i m) eqn:E; [|reflexivity].
  apply Nat.eqb_eq in E. subst i. field. intro H. pose proof (qn_pos m ltac:(lia)). lra.
Qed.

Lemma node_range a b m i : a < b -> (1 <= m)%nat -> (i <= m)%nat ->
  a <= a + qn i * ((b - a) / qn m) <= b.
Proof.
  intros Hab Hm Hi.
  pose proof (qn_pos m ltac:(lia)) as Pm. pose proof (qn_nonneg i) as Pi. pose proof (qn_le i m Hi) as Pim.
  set (h := (b - a) / qn m).
  assert (Hh : h * qn m == b - a) by (unfold h; field; lra).
  assert (Hpos : 0 < h) by (unfold h; apply Qlt_shift_div_l; lra).
  split.
  - assert (0 <= qn i * h) by (apply Qmult_le_0_compat; lra). lra.
  - assert (qn i * h <= qn m * h) by (apply Qmult_le_compat_r; lra). lra.
Qed.

Lemma dx_eq a b m : (1 <= m)%nat ->
  nthq (linspace a b (S m)) 1 - nthq (linspace a b (S m)) 0 == (b - a) / qn m.
Proof.
  intros Hm. rewrite !linspace_nth by lia. change (qn 1) with 1. change (qn 0) with 0. ring.
Qed.

(* ------------------------------------------------------------------ trapezoid *)
(* weights before the last index: h/2 at 0, h elsewhere *)
Definition trap_w0 (h : Q) (i : nat) : Q := if Nat.eqb i 0 then h * (1 # 2) else h.

Section Trap.
Variables (a h c0 c1 : Q).
Let f (x : Q) := c0 + c1 * x.
Let F (x : Q) := c0 * x + c1 * (x * x) * (1 # 2).
Let g (i : nat) := f (a + qn i * h).

Lemma trap_sum m : (1 <= m)%nat ->
  sumq (map (fun i => trap_w0 h i * g i) (seq 0 m)) + h * (1 # 2) * g m == F (a + qn m * h) - F a.
Proof.
  induction m as [|m IH]; [lia|]. intros _.
  destruct m as [|m'].
  - simpl. unfold g, f, F, trap_w0. simpl Nat.eqb. cbv iota. change (qn 0) with 0. change (qn 1) with 1. ring.
  - rewrite sumq_seq_S. simpl Nat.add.
    assert (IH' := IH ltac:(lia)). clear IH.
    assert (E : trap_w0 h (S m') = h) by reflexivity. rewrite E.
    unfold g, f, F in *. rewrite (qn_S (S m')).
    set (S0 := sumq _) in *. set (q := qn (S m')) in *.
    transitivity ((S0 + h * (1 # 2) * (c0 + c1 * (a + q * h))) +
                  (h * (1 # 2) * (c0 + c1 * (a + q * h)) + h * (1 # 2) * (c0 + c1 * (a + (q + 1) * h)))); [ring|].
    rewrite IH'. ring.
Qed.
End Trap.

Lemma trap_spec n a b : (2 <= n)%nat -> a < b ->
  exists nodes weights, qnwtrap1 n a b = Some (nodes, weights) /\
    length nodes = n /\ length weights = n /\
    Forall (fun x => a <= x <= b) nodes /\
    Forall (fun w => 0 < w) weights /\
    sumq weights == b - a /\
    forall c0 c1, quad nodes weights (fun x => c0 + c1 * x)
                  == c0 * (b - a) + c1 * ((b * b - a * a) * (1 # 2)).
Proof.
  intros Hn Hab. destruct n as [|[|k]]; try lia. set (m := S k). assert (Hm : (1 <= m)%nat) by (unfold m; lia).
  unfold qnwtrap1. replace (Nat.ltb (S m) 2) with false by (symmetry; apply Nat.ltb_ge; lia).
  eexists; eexists; split; [reflexivity|].
  pose proof (qn_pos m ltac:(lia)) as Pm.
  set (h := (b - a) / qn m).
  assert (Hh : h * qn m == b - a) by (unfold h; field; lra).
  assert (Hpos : 0 < h) by (unfold h; apply Qlt_shift_div_l; lra).
  assert (Hdx := dx_eq a b m Hm). fold h in Hdx.
  set (dx := nthq (linspace a b (S m)) 1 - nthq (linspace a b (S m)) 0) in *.
  assert (Hquad : forall c0 c1,
    quad (linspace a b (S m))
         (map (fun i => if Nat.eqb i 0 || Nat.eqb i (S m - 1) then dx * 1 * (1 # 2) else dx * 1) (seq 0 (S m)))
         (fun x => c0 + c1 * x) == c0 * (b - a) + c1 * ((b * b - a * a) * (1 # 2))).
  { intros c0 c1. rewrite linspace_map by lia. rewrite quad_tab.
    rewrite sumq_seq_S. simpl Nat.add.
    rewrite (sumq_map_ext _ (fun i => trap_w0 h i * (c0 + c1 * (a + qn i * h)))).
    2:{ intros i Hi. apply in_seq in Hi.
        replace (Nat.eqb i (S m - 1)) with false by (symmetry; apply Nat.eqb_neq; lia).
        replace (Nat.eqb i m) with false by (symmetry; apply Nat.eqb_neq; lia).
        unfold trap_w0. fold h. destruct (Nat.eqb i 0); simpl orb; cbv iota; rewrite Hdx; ring. }
    replace (Nat.eqb m 0) with false by (symmetry; apply Nat.eqb_neq; lia).
    replace (Nat.eqb m (S m - 1)) with true by (symmetry; apply Nat.eqb_eq; lia).
    rewrite Nat.eqb_refl. simpl orb. cbv iota.
    pose proof (trap_sum a h c0 c1 m Hm) as T. cbv zeta in T.
    rewrite Hdx.
    assert (Hb : b == a + qn m * h) by lra.
    set (S0 := sumq _) in *.
    transitivity (S0 + h * (1 # 2) * (c0 + c1 * (a + qn m * h))).
    { rewrite <- Hb. ring. }
    rewrite T. rewrite <- Hb. ring. }
  split; [apply linspace_length|]. split; [rewrite map_length, seq_length; reflexivity|].
  split; [|split; [|split]].
  - rewrite linspace_map by lia. apply Forall_forall. intros x Hx. apply in_map_iff in Hx.
    destruct Hx as [i [Hx Hi]]. apply in_seq in Hi. subst x.
    rewrite node_eq by lia. apply node_range; auto; lia.
  - apply Forall_forall. intros w Hw. apply in_map_iff in Hw. destruct Hw as [i [Hw _]]. subst w.
    destruct (_ || _); rewrite Hdx; lra.
  - rewrite <- quad_const1 with (nodes := linspace a b (S m)).
    2:{ rewrite linspace_length, map_length, seq_length. reflexivity. }
    rewrite (quad_ext _ _ _ (fun x => 1 + 0 * x)) by (intros; ring).
    rewrite Hquad. ring.
  - exact Hquad.
Qed.

(* ------------------------------------------------------------------ Simpson *)
Definition simp_c0 (i : nat) : Q := if Nat.eqb i 0 then 1 else if Nat.even i then 2 else 4.

Lemma even_2p p : Nat.even (2 * p) = true.
Proof. rewrite Nat.even_mul. reflexivity. Qed.
Lemma even_2p1 p : Nat.even (2 * p + 1) = false.
Proof. rewrite Nat.even_add, even_2p. reflexivity. Qed.

Section Simp.
Variables (a h c0 c1 c2 c3 : Q).
Let f (x : Q) := c0 + c1 * x + c2 * (x * x) + c3 * (x * x * x).
Let F (x : Q) := c0 * x + c1 * (x * x) * (1 # 2) + c2 * (x * x * x) * (1 # 3) + c3 * (x * x * x * x) * (1 # 4).
Let g (i : nat) := f (a + qn i * h).

Local Instance simp_f_proper : Proper (Qeq ==> Qeq) f.
Proof. unfold f. solve_proper. Qed.
Local Instance simp_F_proper : Proper (Qeq ==> Qeq) F.
Proof. unfold F. solve_proper. Qed.

Lemma simp_panel x : h * (1 # 3) * (f x + 4 * f (x + h) + f (x + 2 * h)) == F (x + 2 * h) - F x.
Proof. unfold f, F. ring. Qed.

Lemma simp_sum p : (1 <= p)%nat ->
  h * (1 # 3) * (sumq (map (fun i => simp_c0 i * g i) (seq 0 (2 * p))) + g (2 * p)%nat)
  == F (a + qn (2 * p) * h) - F a.
Proof.
  induction p as [|p IH]; [lia|]. intros _.
  destruct p as [|p'].
  - simpl. unfold g, simp_c0. simpl Nat.eqb. simpl Nat.even. cbv iota.
    pose proof (simp_panel a) as P. unfold f, F in *.
    change (qn 0) with 0. change (qn 1) with 1. change (qn 2) with 2.
    rewrite <- P. ring.
  - assert (IH' := IH ltac:(lia)). clear IH.
    replace (2 * S (S p'))%nat with (S (S (2 * S p'))) by lia.
    rewrite !sumq_seq_S. rewrite !Nat.add_0_l.
    assert (E1 : simp_c0 (2 * S p') = 2).
    { unfold simp_c0. rewrite even_2p. replace (Nat.eqb (2 * S p') 0) with false; [reflexivity|].
      symmetry. apply Nat.eqb_neq. lia. }
    assert (E2 : simp_c0 (S (2 * S p')) = 4).
    { unfold simp_c0. replace (S (2 * S p')) with (2 * S p' + 1)%nat by lia. rewrite even_2p1.
      replace (Nat.eqb (2 * S p' + 1) 0) with false; [reflexivity|]. symmetry. apply Nat.eqb_neq. lia. }
    rewrite E1, E2.
    set (k := (2 * S p')%nat) in *.
    pose proof (simp_panel (a + qn k * h)) as P.
    unfold g in *. rewrite !qn_S.
    set (S0 := sumq _) in *.
    transitivity ((h * (1 # 3) * (S0 + f (a + qn k * h))) +
                  h * (1 # 3) * (f (a + qn k * h) + 4 * f (a + qn k * h + h) + f (a + qn k * h + 2 * h))).
    { unfold f. ring. }
    rewrite IH', P. unfold F. ring.
Qed.
End Simp.

Lemma simp_n_odd n0 : Nat.even (simp_n n0) = false.
Proof.
  unfold simp_n. destruct (Nat.even n0) eqn:E; [|exact E].
  rewrite Nat.even_succ. rewrite <- Nat.negb_even, E. reflexivity.
Qed.

Lemma simp_spec n0 a b : (3 <= simp_n n0)%nat -> a < b ->
  exists nodes weights, qnwsimp1 n0 a b = Some (nodes, weights) /\
    length nodes = simp_n n0 /\ length weights = simp_n n0 /\
    Forall (fun x => a <= x <= b) nodes /\
    Forall (fun w => 0 < w) weights /\
    sumq weights == b - a /\
    forall c0 c1 c2 c3,
      quad nodes weights (fun x => c0 + c1 * x + c2 * (x * x) + c3 * (x * x * x))
      == c0 * (b - a) + c1 * ((b * b - a * a) * (1 # 2))
         + c2 * ((b * b * b - a * a * a) * (1 # 3))
         + c3 * ((b * b * b * b - a * a * a * a) * (1 # 4)).
Proof.
  intros Hn Hab. unfold qnwsimp1.
  pose proof (simp_n_odd n0) as Hodd. set (n := simp_n n0) in *.
  assert (Hp : exists p, n = (2 * p + 1)%nat).
  { assert (O : Nat.odd n = true) by (rewrite <- Nat.negb_even, Hodd; reflexivity).
    apply Nat.odd_spec in O. exact O. }
  destruct Hp as [p Hp]. assert (Hp1 : (1 <= p)%nat) by lia.
  replace (Nat.ltb n 3) with false by (symmetry; apply Nat.ltb_ge; lia).
  eexists; eexists; split; [reflexivity|].
  set (m := (2 * p)%nat). assert (Hnm : n = S m) by lia. assert (Hm : (1 <= m)%nat) by lia.
  pose proof (qn_pos m ltac:(lia)) as Pm.
  set (h := (b - a) / qn m).
  assert (Hh : h * qn m == b - a) by (unfold h; field; lra).
  assert (Hpos : 0 < h) by (unfold h; apply Qlt_shift_div_l; lra).
  rewrite Hnm in *.
  assert (Hdx := dx_eq a b m Hm). fold h in Hdx.
  set (dx := nthq (linspace a b (S m)) 1 - nthq (linspace a b (S m)) 0) in *.
  assert (Hquad : forall c0 c1 c2 c3,
    quad (linspace a b (S m)) (map (fun i => dx / 3 * simp_coef (S m) i) (seq 0 (S m)))
         (fun x => c0 + c1 * x + c2 * (x * x) + c3 * (x * x * x))
    == c0 * (b - a) + c1 * ((b * b - a * a) * (1 # 2))
         + c2 * ((b * b * b - a * a * a) * (1 # 3))
         + c3 * ((b * b * b * b - a * a * a * a) * (1 # 4))).
  { intros c0 c1 c2 c3. rewrite linspace_map by lia. rewrite quad_tab.
    rewrite sumq_seq_S. simpl Nat.add.
    set (f := fun x : Q => c0 + c1 * x + c2 * (x * x) + c3 * (x * x * x)).
    rewrite (sumq_map_ext _ (fun i => h * (1 # 3) * (simp_c0 i * f (a + qn i * h)))).
    2:{ intros i Hi. apply in_seq in Hi. unfold simp_coef, simp_c0.
        replace (Nat.eqb i (S m - 1)) with false by (symmetry; apply Nat.eqb_neq; lia).
        replace (Nat.eqb i m) with false by (symmetry; apply Nat.eqb_neq; lia).
        fold h. rewrite orb_false_r. rewrite Hdx. unfold f. set (cc := if Nat.eqb i 0 then _ else _). field. }
    rewrite sumq_map_scale.
    unfold simp_coef. replace (Nat.eqb m (S m - 1)) with true by (symmetry; apply Nat.eqb_eq; lia).
    rewrite orb_true_r. rewrite Nat.eqb_refl.
    pose proof (simp_sum a h c0 c1 c2 c3 p Hp1) as T. cbv zeta in T. fold m in T. fold f in T.
    rewrite Hdx.
    assert (Hb : b == a + qn m * h) by lra.
    set (S0 := sumq _) in *.
    assert (Efb : f b == f (a + qn m * h)) by (unfold f; rewrite <- Hb; reflexivity).
    transitivity (h * (1 # 3) * (S0 + f b)).
    { unfold f. field. }
    rewrite Efb, T. rewrite <- Hb. ring. }
  split; [apply linspace_length|]. split; [rewrite map_length, seq_length; reflexivity|].
  split; [|split; [|split]].
  - rewrite linspace_map by lia. apply Forall_forall. intros x Hx. apply in_map_iff in Hx.
    destruct Hx as [i [Hx Hi]]. apply in_seq in Hi. subst x.
    rewrite node_eq by lia. apply node_range; auto; lia.
  - apply Forall_forall. intros w Hw. apply in_map_iff in Hw. destruct Hw as [i [Hw _]]. subst w.
    rewrite Hdx. unfold simp_coef.
    assert (0 < h / 3) by (apply Qlt_shift_div_l; lra).
    destruct (_ || _); [lra|]. destruct (Nat.even i); lra.
  - rewrite <- quad_const1 with (nodes := linspace a b (S m)).
    2:{ rewrite linspace_length, map_length, seq_length. reflexivity. }
    rewrite (quad_ext _ _ _ (fun x => 1 + 0 * x + 0 * (x * x) + 0 * (x * x * x))) by (intros; ring).
    rewrite Hquad. ring.
  - exact Hquad.
Qed.

(* ------------------------------------------------------------------ tensor products *)
(* prepend a dimension that varies fastest *)
Definition prep (x0 : list Q) (R : list (list Q)) : list (list Q) :=
  flat_map (fun row => map (fun x => x :: row) x0) R.

Lemma flat_map_map {A B C} (f : A -> B) (g : B -> list C) l :
  flat_map g (map f l) = flat_map (fun a => g (f a)) l.
Proof. induction l; simpl; [reflexivity | rewrite IHl; reflexivity]. Qed.

Lemma map_flat_map {A B C} (f : B -> C) (g : A -> list B) l :
  map f (flat_map g l) = flat_map (fun a => map f (g a)) l.
Proof. induction l; simpl; [reflexivity | rewrite map_app, IHl; reflexivity]. Qed.

Lemma flat_map_flat_map {A B C} (f : A -> list B) (g : B -> list C) l :
  flat_map g (flat_map f l) = flat_map (fun a => flat_map g (f a)) l.
Proof. induction l; simpl; [reflexivity | rewrite flat_map_app, IHl; reflexivity]. Qed.

Lemma flat_map_ext' {A B} (f g : A -> list B) l : (forall a, f a = g a) -> flat_map f l = flat_map g l.
Proof. intros H. induction l; simpl; [reflexivity | rewrite H, IHl; reflexivity]. Qed.

(* swapping the two enumerations is NOT what happens: gridmake2 appends a slowest dimension, and
   this commutes with prepending a fastest one *)
Lemma gridmake2_prep x0 R y : gridmake2 (prep x0 R) y = prep x0 (gridmake2 R y).
Proof.
  unfold gridmake2, prep.
  rewrite flat_map_flat_map.
  apply flat_map_ext'. intros yv.
  rewrite map_flat_map, flat_map_map.
  apply flat_map_ext'. intros row. rewrite map_map. reflexivity.
Qed.

Lemma fold_gridmake2_prep x0 ys : forall R,
  fold_left gridmake2 ys (prep x0 R) = prep x0 (fold_left gridmake2 ys R).
Proof. induction ys as [|y ys IH]; intros R; simpl; [reflexivity|]. rewrite gridmake2_prep. apply IH. Qed.

Lemma gridmake_rows_cons x0 x1 rest :
  gridmake_rows x0 (x1 :: rest) = prep x0 (gridmake_rows x1 rest).
Proof.
  unfold gridmake_rows. simpl fold_left.
  rewrite <- fold_gridmake2_prep. f_equal.
  unfold gridmake2, prep. rewrite flat_map_map.
  apply flat_map_ext'. intros yv. rewrite map_map. reflexivity.
Qed.

Lemma ckron_rev_cons w0 w1 rest :
  ckron (rev (w0 :: w1 :: rest)) = kron (ckron (rev (w1 :: rest))) w0.
Proof.
  change (rev (w0 :: w1 :: rest)) with (rev (w1 :: rest) ++ [w0]).
  destruct (rev (w1 :: rest)) as [|u t] eqn:E.
  - exfalso. apply (f_equal (@length _)) in E. rewrite rev_length in E. simpl in E. lia.
  - simpl. rewrite fold_left_app. reflexivity.
Qed.

Lemma quad_app {X} (l1 l2 : list X) m1 m2 f : length l1 = length m1 ->
  quad (l1 ++ l2) (m1 ++ m2) f == quad l1 m1 f + quad l2 m2 f.
Proof.
  revert m1. induction l1 as [|x l1 IH]; intros [|w m1] H; simpl in H; try discriminate.
  - unfold quad. simpl. ring.
  - unfold quad in *. simpl. rewrite IH by lia. ring.
Qed.

Lemma quad_cons {X} (x : X) l w m f : quad (x :: l) (w :: m) f == w * f x + quad l m f.
Proof. unfold quad. simpl. reflexivity. Qed.

(* separable integrand  row |-> prod_i f_i(row_i) *)
Fixpoint prodfun (fs : list (Q -> Q)) (row : list Q) : Q :=
  match fs, row with
  | f :: fs', x :: row' => f x * prodfun fs' row'
  | _, _ => 1
  end.

Lemma quad_inner (x0 w0 : list Q) (f0 : Q -> Q) fs row Wv :
  quad (map (fun x => x :: row) x0) (map (Qmult Wv) w0) (prodfun (f0 :: fs))
  == Wv * prodfun fs row * quad x0 w0 f0.
Proof.
  unfold quad. revert w0. induction x0 as [|x x0 IH]; intros [|w w0]; simpl; try ring.
  rewrite IH. ring.
Qed.

Lemma quad_prep_kron x0 w0 f0 fs : length x0 = length w0 -> forall R W,
  quad (prep x0 R) (kron W w0) (prodfun (f0 :: fs)) == quad x0 w0 f0 * quad R W (prodfun fs).
Proof.
  intros Hl. induction R as [|row R IH]; intros [|Wv W].
  - unfold quad. simpl. ring.
  - unfold quad. simpl. ring.
  - unfold prep, kron. simpl flat_map at 2. unfold quad at 1.
    replace (combine _ []) with (@nil (list Q * Q)) by (destruct (flat_map _ _); reflexivity).
    unfold quad. simpl. ring.
  - unfold prep, kron. simpl flat_map. fold (prep x0 R). fold (kron W w0).
    rewrite quad_app by (rewrite !map_length; exact Hl).
    rewrite IH, quad_inner, quad_cons. ring.
Qed.

Lemma length_prep x0 R : length (prep x0 R) = (length R * length x0)%nat.
Proof. unfold prep. induction R; simpl; [reflexivity|]. rewrite app_length, map_length, IHR. reflexivity. Qed.
Lemma length_kron W w0 : length (kron W w0) = (length W * length w0)%nat.
Proof. unfold kron. induction W; simpl; [reflexivity|]. rewrite app_length, map_length, IHW. reflexivity. Qed.

(* total versions of the two enumerations for d >= 1 *)
Definition grid_of (xs : list (list Q)) : list (list Q) :=
  match xs with [] => [[]] | x0 :: rest => gridmake_rows x0 rest end.

(* rules: ((nodes, weights), (f, I)) with quad nodes weights f == I *)
Definition rule_ok (r : (list Q * list Q) * ((Q -> Q) * Q)) : Prop :=
  length (fst (fst r)) = length (snd (fst r)) /\
  quad (fst (fst r)) (snd (fst r)) (fst (snd r)) == snd (snd r).

Lemma tensor_gen : forall (rest : list ((list Q * list Q) * ((Q -> Q) * Q))) r0,
  Forall rule_ok (r0 :: rest) ->
  let rules := map fst (r0 :: rest) in
  let nodes := grid_of (map fst rules) in
  let weights := ckron (rev (map snd rules)) in
  length nodes = length weights /\
  quad nodes weights (prodfun (map (fun r => fst (snd r)) (r0 :: rest)))
  == prodq (map (fun r => snd (snd r)) (r0 :: rest)).
Proof.
  induction rest as [|r1 rest IH]; intros [[x0 w0] [f0 I0]] H; cbv zeta.
  - apply Forall_inv in H. destruct H as [Hl Hq]. simpl in *.
    unfold gridmake_rows. simpl. split; [rewrite map_length; exact Hl|].
    rewrite <- Hq. unfold quad. clear Hq. revert w0 Hl.
    induction x0 as [|x x0 IHx]; intros [|w w0] Hl; simpl in *; try discriminate; try ring.
    rewrite IHx by lia. ring.
  - pose proof (Forall_inv H) as [Hl Hq]. apply Forall_inv_tail in H. simpl in Hl, Hq.
    specialize (IH r1 H). cbv zeta in IH. destruct IH as [IHl IHq].
    destruct r1 as [[x1 w1] [f1 I1]].
    simpl map in *. simpl grid_of in *.
    rewrite gridmake_rows_cons, ckron_rev_cons.
    split.
    + rewrite length_prep, length_kron. rewrite IHl, Hl. reflexivity.
    + rewrite quad_prep_kron by exact Hl.
      change (prodfun (f1 :: map (fun r => fst (snd r)) rest)) with
             (prodfun (map (fun r => fst (snd r)) (((x1, w1), (f1, I1)) :: rest))).
      simpl map. rewrite IHq, Hq. simpl. reflexivity.
Qed.

Lemma kron_pos W w0 : Forall (fun w => 0 < w) W -> Forall (fun w => 0 < w) w0 ->
  Forall (fun w => 0 < w) (kron W w0).
Proof.
  intros HW Hw. unfold kron. induction HW; simpl; [constructor|].
  apply Forall_app. split; [|assumption].
  apply Forall_forall. intros v Hv. apply in_map_iff in Hv. destruct Hv as [u [Hv Hu]]. subst v.
  rewrite Forall_forall in Hw. specialize (Hw u Hu).
  apply Qmult_lt_0_compat; assumption.
Qed.

Lemma ckron_rev_pos ws : Forall (Forall (fun w => 0 < w)) ws -> Forall (fun w => 0 < w) (ckron (rev ws)).
Proof.
  destruct ws as [|w0 rest]; [constructor|]. revert w0.
  induction rest as [|w1 rest IH]; intros w0 H.
  - simpl. apply Forall_inv in H. exact H.
  - rewrite ckron_rev_cons. apply kron_pos.
    + apply IH. apply Forall_inv_tail in H. exact H.
    + apply Forall_inv in H. exact H.
Qed.

Lemma monomial_prodfun es row : monomial es row = prodfun (map (fun e x => qpow x e) es) row.
Proof. revert row. induction es as [|e es IH]; intros [|x row]; simpl; try reflexivity. rewrite IH. reflexivity. Qed.

(* ------------------------------------------------------------------ statements used by Props.v *)
Lemma simp_n_ge3 n0 : (2 <= n0)%nat -> (3 <= simp_n n0)%nat.
Proof.
  intros H. unfold simp_n. destruct (Nat.even n0) eqn:E; [lia|].
  destruct n0 as [|[|[|k]]]; try lia. simpl in E. discriminate.
Qed.

Lemma simp_spec' n0 a b : (2 <= n0)%nat -> a < b ->
  exists nodes weights, qnwsimp1 n0 a b = Some (nodes, weights) /\
    length nodes = simp_n n0 /\ length weights = simp_n n0 /\
    Forall (fun x => a <= x <= b) nodes /\
    Forall (fun w => 0 < w) weights /\
    sumq weights == b - a /\
    forall c0 c1 c2 c3,
      quad nodes weights (fun x => c0 + c1 * x + c2 * (x * x) + c3 * (x * x * x))
      == c0 * (b - a) + c1 * ((b * b - a * a) * (1 # 2))
         + c2 * ((b * b * b - a * a * a) * (1 # 3))
         + c3 * ((b * b * b * b - a * a * a * a) * (1 # 4)).
Proof. intros. apply simp_spec; auto. apply simp_n_ge3; auto. Qed.

Lemma sumq_kron W w0 : sumq (kron W w0) == sumq W * sumq w0.
Proof.
  unfold kron. induction W as [|x W IH]; simpl; [ring|].
  rewrite sumq_app, IH.
  assert (E : sumq (map (Qmult x) w0) == x * sumq w0).
  { clear. induction w0; simpl; [ring | rewrite IHw0; ring]. }
  rewrite E. ring.
Qed.

Lemma ckron_rev_mass : forall (rest : list (list Q)) w0,
  sumq (ckron (rev (w0 :: rest))) == prodq (map sumq (w0 :: rest)).
Proof.
  induction rest as [|w1 rest IH]; intros w0.
  - simpl. ring.
  - rewrite ckron_rev_cons, sumq_kron, IH. simpl. ring.
Qed.

Lemma tensor_spec (rs : list ((list Q * list Q) * ((Q -> Q) * Q))) :
  (2 <= length rs)%nat ->
  Forall (fun r => length (fst (fst r)) = length (snd (fst r)) /\
                   quad (fst (fst r)) (snd (fst r)) (fst (snd r)) == snd (snd r)) rs ->
  exists nodes weights, tensor_rule (map fst rs) = Some (nodes, weights) /\
    length nodes = length weights /\
    (Forall (fun r => Forall (fun w => 0 < w) (snd (fst r))) rs -> Forall (fun w => 0 < w) weights) /\
    sumq weights == prodq (map (fun r => sumq (snd (fst r))) rs) /\
    quad nodes weights (prodfun (map (fun r => fst (snd r)) rs)) == prodq (map (fun r => snd (snd r)) rs).
Proof.
  intros Hd H. destruct rs as [|r0 [|r1 rest]]; simpl in Hd; try lia.
  pose proof (tensor_gen (r1 :: rest) r0 H) as T. cbv zeta in T. destruct T as [Tl Tq].
  unfold tensor_rule. simpl map. simpl gridmake.
  eexists; eexists; split; [reflexivity|].
  simpl map in Tl, Tq. simpl grid_of in Tl, Tq.
  split; [exact Tl|]. split; [|split; [|exact Tq]].
  - intros Hp. change (snd (fst r0) :: snd (fst r1) :: map snd (map fst rest))
      with (map snd (map fst (r0 :: r1 :: rest))).
    apply ckron_rev_pos. rewrite map_map. apply Forall_map. exact Hp.
  - rewrite ckron_rev_mass. simpl. rewrite !map_map. reflexivity.
Qed.

(* ------------------------------------------------------------------ affine change of interval *)
Fixpoint bsum (n : nat) (f : nat -> Q) : Q := match n with O => 0 | S k => bsum k f + f k end.

Lemma bsum_ext n f g : (forall i, (i < n)%nat -> f i == g i) -> bsum n f == bsum n g.
Proof. induction n; intros H; simpl; [reflexivity|]. rewrite IHn, (H n) by (intros; try apply H; lia). reflexivity. Qed.
Lemma bsum_shift n f : bsum (S n) f == f 0%nat + bsum n (fun j => f (S j)).
Proof. induction n; simpl in *; [ring|]. rewrite IHn. ring. Qed.
Lemma bsum_add n f g : bsum n (fun i => f i + g i) == bsum n f + bsum n g.
Proof. induction n; simpl; [ring|]. rewrite IHn. ring. Qed.
Lemma bsum_sub n f g : bsum n (fun i => f i - g i) == bsum n f - bsum n g.
Proof. induction n; simpl; [ring|]. rewrite IHn. ring. Qed.
Lemma bsum_scale n c f : bsum n (fun i => c * f i) == c * bsum n f.
Proof. induction n; simpl; [ring|]. rewrite IHn. ring. Qed.

Global Instance qpow_proper : Proper (Qeq ==> eq ==> Qeq) qpow.
Proof. intros x y E n m <-. induction n; simpl; [reflexivity|]. rewrite IHn, E. reflexivity. Qed.
Lemma qpow_mul x y n : qpow (x * y) n == qpow x n * qpow y n.
Proof. induction n; simpl; [ring|]. rewrite IHn. ring. Qed.
Lemma qpow_S_r x n : qpow x (S n) == qpow x n * x.
Proof. simpl. ring. Qed.

(* Pascal's triangle over Q *)
Fixpoint bin (n k : nat) : Q :=
  match k with
  | O => 1
  | S k' => match n with O => 0 | S n' => bin n' k' + bin n' k end
  end.
Lemma bin_gt n : forall k, (n < k)%nat -> bin n k == 0.
Proof.
  induction n; intros [|k] H; simpl; try lia; try reflexivity.
  rewrite !IHn by lia. ring.
Qed.
Lemma bin_n_0 n : bin n 0 = 1. Proof. destruct n; reflexivity. Qed.
Lemma bin_1 n : bin n 1 == qn n.
Proof.
  induction n; [reflexivity|]. change (bin (S n) 1) with (bin n 0 + bin n 1).
  rewrite bin_n_0, IHn, qn_S. ring.
Qed.
Lemma bin_absorb n : forall k, qn (S k) * bin (S n) (S k) == qn (S n) * bin n k.
Proof.
  induction n as [|m IH]; intros k.
  - destruct k as [|k]; [reflexivity|]. simpl. ring.
  - destruct k as [|k'].
    + rewrite bin_1, bin_n_0. change (qn 1) with 1. ring.
    + change (bin (S (S m)) (S (S k'))) with (bin (S m) (S k') + bin (S m) (S (S k'))).
      rewrite Qmult_plus_distr_r. rewrite (IH (S k')).
      rewrite (qn_S (S k')). rewrite Qmult_plus_distr_l. rewrite (IH k').
      change (bin (S m) (S k')) with (bin m k' + bin m (S k')).
      rewrite (qn_S (S m)). ring.
Qed.

Lemma binomial x y n :
  qpow (x + y) n == bsum (S n) (fun j => bin n j * qpow x j * qpow y (n - j)).
Proof.
  induction n as [|n IH].
  - simpl. ring.
  - change (qpow (x + y) (S n)) with ((x + y) * qpow (x + y) n). rewrite IH.
    set (T := fun j => bin n j * qpow x j * qpow y (n - j)).
    set (T' := fun j => bin (S n) j * qpow x j * qpow y (S n - j)).
    set (U := fun j => bin n (S j) * qpow x (S j) * qpow y (n - j)).
    assert (R : bsum (S (S n)) T' == qpow y (S n) + (x * bsum (S n) T + bsum (S n) U)).
    { rewrite bsum_shift. apply Qplus_comp.
      - unfold T'. rewrite bin_n_0, Nat.sub_0_r. simpl qpow at 1. ring.
      - rewrite <- bsum_scale, <- bsum_add. apply bsum_ext. intros j Hj. unfold T', T, U.
        change (bin (S n) (S j)) with (bin n j + bin n (S j)).
        replace (S n - S j)%nat with (n - j)%nat by lia. simpl. ring. }
    assert (Ey : y * bsum (S n) T == qpow y (S n) + bsum n U).
    { rewrite <- bsum_scale. rewrite bsum_shift. apply Qplus_comp.
      - unfold T. rewrite bin_n_0, Nat.sub_0_r. simpl. ring.
      - apply bsum_ext. intros j Hj. unfold T, U. replace (n - j)%nat with (S (n - S j)) by lia. simpl. ring. }
    assert (EU : bsum (S n) U == bsum n U).
    { simpl. unfold U at 2. rewrite (bin_gt n (S n)) by lia. ring. }
    rewrite R, EU. transitivity (x * bsum (S n) T + y * bsum (S n) T); [ring|]. rewrite Ey. ring.
Qed.

(* linearity of quad *)
Lemma quad_add {X} (nodes : list X) ws f g :
  quad nodes ws (fun x => f x + g x) == quad nodes ws f + quad nodes ws g.
Proof. unfold quad. generalize (combine nodes ws). intros l. induction l; simpl; [ring|]. rewrite IHl. ring. Qed.
Lemma quad_scale {X} (nodes : list X) ws c f :
  quad nodes ws (fun x => c * f x) == c * quad nodes ws f.
Proof. unfold quad. generalize (combine nodes ws). intros l. induction l; simpl; [ring|]. rewrite IHl. ring. Qed.
Lemma quad_zero {X} (nodes : list X) ws : quad nodes ws (fun _ => 0) == 0.
Proof. unfold quad. generalize (combine nodes ws). intros l. induction l; simpl; [ring|]. rewrite IHl. ring. Qed.
Lemma quad_bsum {X} (nodes : list X) ws n (F : nat -> X -> Q) :
  quad nodes ws (fun x => bsum n (fun j => F j x)) == bsum n (fun j => quad nodes ws (F j)).
Proof.
  induction n; simpl; [apply quad_zero|]. rewrite quad_add, IHn. reflexivity.
Qed.
Lemma quad_affine (ts ws : list Q) xm xl f :
  quad (map (fun t => xm + xl * t) ts) (map (fun w => xl * w) ws) f
  == xl * quad ts ws (fun t => f (xm + xl * t)).
Proof.
  unfold quad. revert ws. induction ts as [|t ts IH]; intros [|w ws]; simpl; try ring.
  rewrite IH. ring.
Qed.

(* exact moments of Lebesgue measure on [lo,hi] *)
Definition moment (lo hi : Q) (k : nat) : Q := (qpow hi (S k) - qpow lo (S k)) / qn (S k).

Lemma affine_moment xm xl k :
  xl * bsum (S k) (fun j => bin k j * qpow xl j * qpow xm (k - j) * moment (-1) 1 j)
  == moment (xm - xl) (xm + xl) k.
Proof.
  unfold moment at 2.
  assert (Hk : ~ qn (S k) == 0) by (pose proof (qn_pos (S k) ltac:(lia)); lra).
  (* expand both powers with the binomial theorem, x := +-xl, y := xm *)
  assert (Eb : xm + xl == xl + xm) by ring. assert (Ea : xm - xl == (- xl) + xm) by ring.
  rewrite Eb, Ea. rewrite !binomial.
  rewrite <- bsum_sub. rewrite (bsum_shift (S k)).
  rewrite bin_n_0. simpl qpow at 1 2 3 4.
  (* termwise *)
  assert (E : bsum (S k)
     (fun j => bin (S k) (S j) * qpow xl (S j) * qpow xm (S k - S j) -
               bin (S k) (S j) * qpow (- xl) (S j) * qpow xm (S k - S j))
     == qn (S k) * (xl * bsum (S k) (fun j => bin k j * qpow xl j * qpow xm (k - j) * moment (-1) 1 j))).
  { rewrite <- !bsum_scale. apply bsum_ext. intros j Hj.
    replace (S k - S j)%nat with (k - j)%nat by lia.
    assert (Hj1 : ~ qn (S j) == 0) by (pose proof (qn_pos (S j) ltac:(lia)); lra).
    assert (Hneg : qpow (- xl) (S j) == qpow (-1) (S j) * qpow xl (S j)).
    { rewrite <- qpow_mul. apply qpow_proper; [ring | reflexivity]. }
    rewrite Hneg. unfold moment.
    assert (Hone : qpow 1 (S j) == 1) by (clear; induction j; simpl in *; [ring | rewrite IHj; ring]).
    rewrite Hone.
    pose proof (bin_absorb k j) as A.
    set (B1 := bin (S k) (S j)) in *. set (B0 := bin k j) in *. set (s := qpow (-1) (S j)).
    set (P := qpow xl (S j)). assert (EP : P == xl * qpow xl j) by reflexivity.
    set (Y := qpow xm (k - j)).
    (* B1 = qn (S k) * B0 / qn (S j) *)
    assert (EB : B1 == qn (S k) * B0 / qn (S j)) by (field_simplify_eq; [lra | exact Hj1]).
    rewrite EB, EP. field. exact Hj1. }
  rewrite E. rewrite Nat.sub_0_r. simpl qpow. set (BS := bsum _ _). field. exact Hk.
Qed.

Lemma affine_spec p a b ts ws :
  (forall k, (k <= p)%nat -> quad ts ws (fun t => qpow t k) == moment (-1) 1 k) ->
  forall k, (k <= p)%nat ->
    quad (fst (affine_rule a b (ts, ws))) (snd (affine_rule a b (ts, ws))) (fun x => qpow x k)
    == moment a b k.
Proof.
  intros H k Hk. unfold affine_rule. simpl fst. simpl snd.
  set (xm := (1 # 2) * (b + a)). set (xl := (1 # 2) * (b - a)).
  rewrite quad_affine.
  assert (Ea : a == xm - xl) by (unfold xm, xl; ring).
  assert (Eb : b == xm + xl) by (unfold xm, xl; ring).
  unfold moment at 1. rewrite Ea, Eb. fold (moment (xm - xl) (xm + xl) k).
  rewrite <- affine_moment.
  apply Qmult_comp; [reflexivity|].
  rewrite (quad_ext _ _ _ (fun t => bsum (S k) (fun j => (bin k j * qpow xl j * qpow xm (k - j)) * qpow t j))).
  2:{ intros t. assert (E : xm + xl * t == xl * t + xm) by ring. rewrite E, binomial.
      apply bsum_ext. intros j _. rewrite qpow_mul. ring. }
  rewrite (quad_bsum ts ws (S k) (fun j t => bin k j * qpow xl j * qpow xm (k - j) * qpow t j)).
  apply bsum_ext. intros j Hj. rewrite quad_scale. rewrite H by lia. reflexivity.
Qed.

(* qnwunif: dividing the weights by the volume divides every integral by it *)
Lemma unif_scale {X} (nodes : list X) ws a b f :
  quad nodes (unif_weights ws a b) f
  == quad nodes ws f / prodq (map (fun p => snd p - fst p) (combine a b)).
Proof.
  unfold unif_weights. set (vol := prodq _). unfold quad. revert ws.
  induction nodes as [|x nodes IH]; intros [|w ws]; simpl; try (unfold Qdiv; ring).
  rewrite IH. unfold Qdiv. ring.
Qed.

(* ------------------------------------------------------------------ Legendre recurrence *)
(* (P_n, P_{n-1}, P_n', P_{n-1}') from Bonnet's recurrence j P_j = (2j-1) z P_{j-1} - (j-1) P_{j-2}
   and its formal derivative j P_j' = (2j-1)(P_{j-1} + z P_{j-1}') - (j-1) P_{j-2}' *)
Fixpoint legPD (n : nat) (z : Q) : Q * Q * Q * Q :=
  match n with
  | O => (1, 0, 0, 0)
  | S m => let '(p1, p2, d1, d2) := legPD m z in
           let j := qn (S m) in
           (((2 * j - 1) * z * p1 - (j - 1) * p2) / j, p1,
            ((2 * j - 1) * (p1 + z * d1) - (j - 1) * d2) / j, d1)
  end.
Definition legP (n : nat) (z : Q) : Q := fst (fst (fst (legPD n z))).
Definition legP' (n : nat) (z : Q) : Q := snd (fst (legPD n z)).

Lemma legPD_prev n z :
  snd (fst (fst (legPD (S n) z))) = legP n z /\ snd (legPD (S n) z) = legP' n z.
Proof.
  unfold legP, legP'. simpl. destruct (legPD n z) as [[[p1 p2] d1] d2]. simpl. split; reflexivity.
Qed.

(* the loop of _qnwlege1 computes (P_n, P_{n-1}) *)
Lemma lege_loop_spec : forall k j z p1 p2, (1 <= j)%nat ->
  p1 == legP (j - 1) z -> p2 == snd (fst (fst (legPD (j - 1) z))) ->
  fst (lege_loop k j z p1 p2) == legP (j - 1 + k) z /\
  snd (lege_loop k j z p1 p2) == snd (fst (fst (legPD (j - 1 + k) z))).
Proof.
  induction k as [|k IH]; intros j z p1 p2 Hj H1 H2.
  - rewrite Nat.add_0_r. simpl. split; assumption.
  - cbn [lege_loop].
    replace (j - 1 + S k)%nat with (S j - 1 + k)%nat by lia.
    apply IH; [lia| |].
    + rewrite Qred_correct. replace (S j - 1)%nat with (S (j - 1)) by lia.
      unfold legP in *. simpl legPD.
      destruct (legPD (j - 1) z) as [[[q1 q2] e1] e2]. simpl in *.
      replace (S (j - 1)) with j by lia. rewrite H1, H2. reflexivity.
    + replace (S j - 1)%nat with (S (j - 1)) by lia.
      destruct (legPD_prev (j - 1) z) as [E _]. rewrite E. exact H1.
Qed.

Lemma legPD_identities n z :
  let '(p1, p2, d1, d2) := legPD n z in
  (z * z - 1) * d1 == qn n * (z * p1 - p2) /\ z * d1 - d2 == qn n * p1.
Proof.
  induction n as [|n IH].
  - cbn [legPD]. change (qn 0) with 0. split; ring.
  - simpl legPD. destruct (legPD n z) as [[[p1 p2] d1] d2]. destruct IH as [A C].
    set (j := qn (S n)).
    assert (Hj : j == qn n + 1) by apply qn_S.
    assert (Hj0 : ~ j == 0) by (pose proof (qn_pos (S n) ltac:(lia)); unfold j; lra).
    set (p1' := ((2 * j - 1) * z * p1 - (j - 1) * p2) / j).
    set (d1' := ((2 * j - 1) * (p1 + z * d1) - (j - 1) * d2) / j).
    assert (Ed2 : d2 == z * d1 - qn n * p1) by lra.
    assert (B : d1' == z * d1 + j * p1).
    { unfold d1'. rewrite Ed2. assert (En : qn n == j - 1) by lra. rewrite En. field. exact Hj0. }
    assert (Ep : j * p1' == (2 * j - 1) * z * p1 - (j - 1) * p2) by (unfold p1'; field; exact Hj0).
    assert (A' : (z * z - 1) * d1 == (j - 1) * (z * p1 - p2)) by (rewrite A; assert (En : qn n == j - 1) by lra; rewrite En; reflexivity).
    split.
    + rewrite B. transitivity (z * ((z * z - 1) * d1) + j * (z * z - 1) * p1); [ring|].
      rewrite A'. transitivity (z * (j * p1') - j * p1); [rewrite Ep; ring | ring].
    + rewrite B. transitivity ((z * z - 1) * d1 + j * z * p1); [ring|]. rewrite A', Ep. ring.
Qed.

(* lege_eval returns P_n(z) and, away from z = +-1, the formal derivative P_n'(z) *)
Lemma lege_eval_spec n z : ~ z * z - 1 == 0 ->
  fst (lege_eval n z) == legP n z /\ snd (lege_eval n z) == legP' n z.
Proof.
  intros Hz. unfold lege_eval.
  destruct (lege_loop_spec n 1 z 1 0 ltac:(lia)) as [E1 E2]; [reflexivity | reflexivity |].
  simpl Nat.sub in E1, E2. simpl Nat.add in E1, E2.
  destruct (lege_loop n 1 z 1 0) as [p1 p2]. simpl fst in *. simpl snd in *.
  split; [exact E1|].
  pose proof (legPD_identities n z) as I. unfold legP, legP' in *.
  destruct (legPD n z) as [[[q1 q2] d1] d2]. simpl in *. destruct I as [A _].
  rewrite E1, E2. rewrite <- A. field. exact Hz.
Qed.

Lemma legP_at_1 n : legP n 1 == 1 /\ snd (fst (fst (legPD n 1))) == (if Nat.eqb n 0 then 0 else 1).
Proof.
  unfold legP. induction n as [|n IH]; [simpl; split; reflexivity|].
  simpl legPD. destruct (legPD n 1) as [[[p1 p2] d1] d2]. simpl in *. destruct IH as [I1 I2].
  assert (Hj0 : ~ qn (S n) == 0) by (pose proof (qn_pos (S n) ltac:(lia)); lra).
  split; [|exact I1]. rewrite I1, I2. destruct n as [|n]; simpl Nat.eqb; cbv iota.
  - change (qn 1) with 1. field.
  - field. exact Hj0.
Qed.

(* ------------------------------------------------------------------ end to end: qnwtrap / qnwsimp in 2 and 3 dimensions *)
Definition lin (c : Q * Q) (x : Q) : Q := fst c + snd c * x.
Definition lin_int (c : Q * Q) (a b : Q) : Q := fst c * (b - a) + snd c * ((b * b - a * a) * (1 # 2)).
Definition cub (c : Q * Q * Q * Q) (x : Q) : Q :=
  let '(c0, c1, c2, c3) := c in c0 + c1 * x + c2 * (x * x) + c3 * (x * x * x).
Definition cub_int (c : Q * Q * Q * Q) (a b : Q) : Q :=
  let '(c0, c1, c2, c3) := c in
  c0 * (b - a) + c1 * ((b * b - a * a) * (1 # 2)) + c2 * ((b * b * b - a * a * a) * (1 # 3))
  + c3 * ((b * b * b * b - a * a * a * a) * (1 # 4)).

Lemma qnwtrap_2d n1 a1 b1 n2 a2 b2 c1 c2 :
  (2 <= n1)%nat -> a1 < b1 -> (2 <= n2)%nat -> a2 < b2 ->
  exists nodes weights, qnwtrap [(n1, a1, b1); (n2, a2, b2)] = Some (nodes, weights) /\
    length nodes = (n2 * n1)%nat /\ length weights = (n2 * n1)%nat /\
    Forall (fun w => 0 < w) weights /\
    sumq weights == (b1 - a1) * (b2 - a2) /\
    quad nodes weights (prodfun [lin c1; lin c2]) == lin_int c1 a1 b1 * lin_int c2 a2 b2.
Proof.
  intros H1 H1' H2 H2'.
  destruct (trap_spec n1 a1 b1 H1 H1') as [x1 [w1 [E1 [L1 [L1' [_ [P1 [M1 Q1]]]]]]]].
  destruct (trap_spec n2 a2 b2 H2 H2') as [x2 [w2 [E2 [L2 [L2' [_ [P2 [M2 Q2]]]]]]]].
  unfold qnwtrap, make_multidim. simpl map. simpl fst. simpl snd. rewrite E1, E2. simpl all_some.
  destruct (tensor_spec [((x1, w1), (lin c1, lin_int c1 a1 b1)); ((x2, w2), (lin c2, lin_int c2 a2 b2))])
    as [nodes [weights [E [L [P [M Qd]]]]]].
  - simpl. lia.
  - repeat constructor; simpl; try lia; [destruct c1 as [u v]; apply Q1 | destruct c2 as [u v]; apply Q2].
  - simpl map in E. rewrite E. exists nodes, weights. split; [reflexivity|].
    assert (Lw : length weights = (n2 * n1)%nat).
    { unfold tensor_rule in E. simpl in E. inversion E; subst. rewrite length_kron. lia. }
    split; [lia|]. split; [exact Lw|]. split; [apply P; repeat constructor; assumption|].
    split; [rewrite M; simpl; rewrite M1, M2; ring|].
    rewrite Qd. simpl. ring.
Qed.

Lemma qnwtrap_3d n1 a1 b1 n2 a2 b2 n3 a3 b3 c1 c2 c3 :
  (2 <= n1)%nat -> a1 < b1 -> (2 <= n2)%nat -> a2 < b2 -> (2 <= n3)%nat -> a3 < b3 ->
  exists nodes weights, qnwtrap [(n1, a1, b1); (n2, a2, b2); (n3, a3, b3)] = Some (nodes, weights) /\
    length nodes = length weights /\
    Forall (fun w => 0 < w) weights /\
    sumq weights == (b1 - a1) * (b2 - a2) * (b3 - a3) /\
    quad nodes weights (prodfun [lin c1; lin c2; lin c3])
    == lin_int c1 a1 b1 * lin_int c2 a2 b2 * lin_int c3 a3 b3.
Proof.
  intros H1 H1' H2 H2' H3 H3'.
  destruct (trap_spec n1 a1 b1 H1 H1') as [x1 [w1 [E1 [L1 [L1' [_ [P1 [M1 Q1]]]]]]]].
  destruct (trap_spec n2 a2 b2 H2 H2') as [x2 [w2 [E2 [L2 [L2' [_ [P2 [M2 Q2]]]]]]]].
  destruct (trap_spec n3 a3 b3 H3 H3') as [x3 [w3 [E3 [L3 [L3' [_ [P3 [M3 Q3]]]]]]]].
  unfold qnwtrap, make_multidim. simpl map. simpl fst. simpl snd. rewrite E1, E2, E3. simpl all_some.
  destruct (tensor_spec [((x1, w1), (lin c1, lin_int c1 a1 b1)); ((x2, w2), (lin c2, lin_int c2 a2 b2));
                         ((x3, w3), (lin c3, lin_int c3 a3 b3))])
    as [nodes [weights [E [L [P [M Qd]]]]]].
  - simpl. lia.
  - repeat constructor; simpl; try lia;
      [destruct c1 as [u v]; apply Q1 | destruct c2 as [u v]; apply Q2 | destruct c3 as [u v]; apply Q3].
  - simpl map in E. rewrite E. exists nodes, weights. split; [reflexivity|].
    split; [exact L|]. split; [apply P; repeat constructor; assumption|].
    split; [rewrite M; simpl; rewrite M1, M2, M3; ring|].
    rewrite Qd. simpl. ring.
Qed.

Lemma qnwsimp_2d n1 a1 b1 n2 a2 b2 c1 c2 :
  (2 <= n1)%nat -> a1 < b1 -> (2 <= n2)%nat -> a2 < b2 ->
  exists nodes weights, qnwsimp [(n1, a1, b1); (n2, a2, b2)] = Some (nodes, weights) /\
    length nodes = length weights /\
    Forall (fun w => 0 < w) weights /\
    sumq weights == (b1 - a1) * (b2 - a2) /\
    quad nodes weights (prodfun [cub c1; cub c2]) == cub_int c1 a1 b1 * cub_int c2 a2 b2.
Proof.
  intros H1 H1' H2 H2'.
  destruct (simp_spec' n1 a1 b1 H1 H1') as [x1 [w1 [E1 [L1 [L1' [_ [P1 [M1 Q1]]]]]]]].
  destruct (simp_spec' n2 a2 b2 H2 H2') as [x2 [w2 [E2 [L2 [L2' [_ [P2 [M2 Q2]]]]]]]].
  unfold qnwsimp, make_multidim. simpl map. simpl fst. simpl snd. rewrite E1, E2. simpl all_some.
  destruct (tensor_spec [((x1, w1), (cub c1, cub_int c1 a1 b1)); ((x2, w2), (cub c2, cub_int c2 a2 b2))])
    as [nodes [weights [E [L [P [M Qd]]]]]].
  - simpl. lia.
  - repeat constructor; simpl; try lia;
      [destruct c1 as [[[u0 u1] u2] u3]; apply Q1 | destruct c2 as [[[u0 u1] u2] u3]; apply Q2].
  - simpl map in E. rewrite E. exists nodes, weights. split; [reflexivity|].
    split; [exact L|]. split; [apply P; repeat constructor; assumption|].
    split; [rewrite M; simpl; rewrite M1, M2; ring|].
    rewrite Qd. simpl. ring.
Qed.

Lemma qnwsimp_3d n1 a1 b1 n2 a2 b2 n3 a3 b3 c1 c2 c3 :
  (2 <= n1)%nat -> a1 < b1 -> (2 <= n2)%nat -> a2 < b2 -> (2 <= n3)%nat -> a3 < b3 ->
  exists nodes weights, qnwsimp [(n1, a1, b1); (n2, a2, b2); (n3, a3, b3)] = Some (nodes, weights) /\
    length nodes = length weights /\
    Forall (fun w => 0 < w) weights /\
    sumq weights == (b1 - a1) * (b2 - a2) * (b3 - a3) /\
    quad nodes weights (prodfun [cub c1; cub c2; cub c3])
    == cub_int c1 a1 b1 * cub_int c2 a2 b2 * cub_int c3 a3 b3.
Proof.
  intros H1 H1' H2 H2' H3 H3'.
  destruct (simp_spec' n1 a1 b1 H1 H1') as [x1 [w1 [E1 [L1 [L1' [_ [P1 [M1 Q1]]]]]]]].
  destruct (simp_spec' n2 a2 b2 H2 H2') as [x2 [w2 [E2 [L2 [L2' [_ [P2 [M2 Q2]]]]]]]].
  destruct (simp_spec' n3 a3 b3 H3 H3') as [x3 [w3 [E3 [L3 [L3' [_ [P3 [M3 Q3]]]]]]]].
  unfold qnwsimp, make_multidim. simpl map. simpl fst. simpl snd. rewrite E1, E2, E3. simpl all_some.
  destruct (tensor_spec [((x1, w1), (cub c1, cub_int c1 a1 b1)); ((x2, w2), (cub c2, cub_int c2 a2 b2));
                         ((x3, w3), (cub c3, cub_int c3 a3 b3))])
    as [nodes [weights [E [L [P [M Qd]]]]]].
  - simpl. lia.
  - repeat constructor; simpl; try lia;
      [destruct c1 as [[[u0 u1] u2] u3]; apply Q1 | destruct c2 as [[[u0 u1] u2] u3]; apply Q2
       | destruct c3 as [[[u0 u1] u2] u3]; apply Q3].
  - simpl map in E. rewrite E. exists nodes, weights. split; [reflexivity|].
    split; [exact L|]. split; [apply P; repeat constructor; assumption|].
    split; [rewrite M; simpl; rewrite M1, M2, M3; ring|].
    rewrite Qd. simpl. ring.
Qed.

(* ------------------------------------------------------------------ algebraic core of Gauss's theorem over Q *)
(* polynomials as coefficient lists (constant term first) *)
Fixpoint peval (p : list Q) (x : Q) : Q := match p with [] => 0 | c :: r => c + x * peval r x end.
(* a linear functional given by its moments m(0), m(1), ...: mf m j p = L(x^j p(x)) = sum_c p_c m(j+c) *)
Fixpoint mf (m : nat -> Q) (j : nat) (p : list Q) : Q :=
  match p with [] => 0 | c :: r => c * m j + mf m (S j) r end.
(* (X - x) * p, as  ml x 0 p *)
Fixpoint ml (x prev : Q) (p : list Q) : list Q :=
  match p with [] => [prev] | c :: r => (prev - x * c) :: ml x c r end.
Fixpoint nodepoly (xs : list Q) : list Q :=
  match xs with [] => [1] | x :: r => ml x 0 (nodepoly r) end.

Lemma peval_ml x t : forall p prev, peval (ml x prev p) t == prev + (t - x) * peval p t.
Proof. induction p as [|c r IH]; intros prev; simpl; [ring|]. rewrite IH. ring. Qed.

Lemma nodepoly_root xs x : In x xs -> peval (nodepoly xs) x == 0.
Proof.
  induction xs as [|y r IH]; intros Hin; [destruct Hin|]. simpl nodepoly. rewrite peval_ml.
  destruct Hin as [->|Hin]; [ring | rewrite IH by exact Hin; ring].
Qed.

Lemma last_indep (l : list Q) d d' : l <> [] -> last l d = last l d'.
Proof. induction l as [|a l IH]; [congruence|]. intros _. destruct l; [reflexivity|]. apply IH. congruence. Qed.

Lemma ml_monic x : forall p prev, exists q, ml x prev p = q ++ [last p prev] /\ length q = length p.
Proof.
  induction p as [|c r IH]; intros prev; simpl ml.
  - exists []. split; reflexivity.
  - destruct (IH c) as [q [E L]]. exists ((prev - x * c) :: q). split; [|simpl; rewrite L; reflexivity].
    rewrite E. simpl app. f_equal. f_equal. destruct r; [reflexivity|]. f_equal. apply last_indep. congruence.
Qed.

Lemma nodepoly_monic xs : exists q, nodepoly xs = q ++ [1] /\ length q = length xs.
Proof.
  induction xs as [|x r IH]; [exists []; split; reflexivity|].
  destruct IH as [q [E L]]. simpl nodepoly. destruct (ml_monic x (nodepoly r) 0) as [q' [E' L']].
  exists q'. split.
  - rewrite E'. f_equal. f_equal. rewrite E. clear. induction q as [|a q IH]; [reflexivity|].
    simpl app. destruct (q ++ [1]) eqn:D; [destruct q; discriminate|]. rewrite <- D. simpl last. rewrite D in *. exact IH.
  - rewrite L', E, app_length, L. simpl. lia.
Qed.

Lemma mf_app m : forall a j b, mf m j (a ++ b) == mf m j a + mf m (j + length a) b.
Proof.
  induction a as [|c a IH]; intros j b; simpl.
  - rewrite Nat.add_0_r. ring.
  - rewrite IH. replace (S j + length a)%nat with (j + S (length a))%nat by lia. ring.
Qed.

Lemma mf_ext m m' : forall p j, (forall t, (j <= t < j + length p)%nat -> m t == m' t) -> mf m j p == mf m' j p.
Proof.
  induction p as [|c r IH]; intros j H; simpl; [reflexivity|].
  rewrite (H j) by (simpl; lia). rewrite IH; [reflexivity|]. intros t Ht. apply H. simpl. lia.
Qed.

Lemma quad_ext_in {X} (nodes : list X) ws f g :
  (forall x, In x nodes -> f x == g x) -> quad nodes ws f == quad nodes ws g.
Proof.
  unfold quad. revert ws. induction nodes as [|x r IH]; intros [|w ws] H; simpl; try reflexivity.
  rewrite (H x) by (left; reflexivity). rewrite IH; [reflexivity|]. intros; apply H; right; assumption.
Qed.

(* the rule's own moment functional applied to x^j p(x) *)
Lemma mf_quad nodes ws : forall p j,
  mf (fun t => quad nodes ws (fun x => qpow x t)) j p == quad nodes ws (fun x => qpow x j * peval p x).
Proof.
  induction p as [|c r IH]; intros j; simpl.
  - rewrite (quad_ext _ _ _ (fun _ => 0)) by (intros; ring). rewrite quad_zero. reflexivity.
  - rewrite IH. rewrite <- quad_scale, <- quad_add. apply quad_ext. intros x. simpl. ring.
Qed.

(* If an n-point rule reproduces the moments m(0..n-1) (it is interpolatory) and the node polynomial
   omega(x) = prod (x - x_i) is orthogonal to 1, x, ..., x^(n-1) for the functional with moments m,
   then the rule reproduces m(0..2n-1).  No distinctness of the nodes is needed. *)
Theorem gauss_core (nodes ws : list Q) (m : nat -> Q) :
  let n := length nodes in
  (forall k, (k < n)%nat -> quad nodes ws (fun x => qpow x k) == m k) ->
  (forall j, (j < n)%nat -> mf m j (nodepoly nodes) == 0) ->
  forall k, (k < 2 * n)%nat -> quad nodes ws (fun x => qpow x k) == m k.
Proof.
  intros n H1 H2. set (qm := fun t => quad nodes ws (fun x => qpow x t)).
  destruct (nodepoly_monic nodes) as [om [Eom Lom]]. fold n in Lom.
  assert (H3 : forall j, mf qm j (nodepoly nodes) == 0).
  { intros j. unfold qm. rewrite mf_quad. rewrite (quad_ext_in _ _ _ (fun _ => 0)); [apply quad_zero|].
    intros x Hx. rewrite nodepoly_root by exact Hx. ring. }
  intros k. induction k as [k IH] using lt_wf_ind. intros Hk.
  destruct (Nat.lt_ge_cases k n) as [Hlt|Hge]; [apply H1; exact Hlt|].
  set (j := (k - n)%nat). assert (Hj : (j < n)%nat) by (unfold j; lia).
  pose proof (H3 j) as Q0. pose proof (H2 j Hj) as L0. rewrite Eom in Q0, L0.
  rewrite mf_app in Q0, L0. simpl mf in Q0, L0. rewrite Lom in Q0, L0.
  replace (j + n)%nat with k in Q0, L0 by (unfold j; lia).
  assert (E : mf qm j om == mf m j om).
  { apply mf_ext. intros t Ht. unfold qm. apply IH; unfold j in *; lia. }
  fold (qm k). rewrite E in Q0. lra.
Qed.

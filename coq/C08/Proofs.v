(* C08 lemmas: closed-form rules (trapezoid, Simpson), quadrect, tensor products *)
From Coq Require Import ZArith QArith Qabs List Bool Lia Lqa Morphisms.
From QE Require Import C08.Model.
Import ListNotations.
Open Scope Q_scope.

(* ------------------------------------------------------------------ sums *)
Lemma sumq_app l1 l2 : sumq (l1 ++ l2) == sumq l1 + sumq l2.
Proof. induction l1; simpl; [ring | rewrite IHl1; ring]. Qed.

Lemma sumq_map_ext {A} (g g' : A -> Q) l :
  (forall i, In i l -> g i == g' i) -> sumq (map g l) == sumq (map g' l).
Proof.
  induction l; simpl; intros H; [reflexivity|].
  rewrite (H a) by (now left). rewrite IHl; [reflexivity|]. intros; apply H; now right.
Qed.

Lemma sumq_seq_S g s n : sumq (map g (seq s (S n))) == sumq (map g (seq s n)) + g (s + n)%nat.
Proof. rewrite seq_S, map_app, sumq_app. simpl. ring. Qed.

Lemma sumq_map_scale {A} c (g : A -> Q) l : sumq (map (fun i => c * g i) l) == c * sumq (map g l).
Proof. induction l; simpl; [ring | rewrite IHl; ring]. Qed.

Lemma quad_tab {X} (x : nat -> X) (w : nat -> Q) f l :
  quad (map x l) (map w l) f == sumq (map (fun i => w i * f (x i)) l).
Proof. unfold quad. induction l; simpl; [reflexivity | rewrite IHl; reflexivity]. Qed.

Lemma quadrect_is_quad {X} (f : X -> Q) nodes weights :
  quadrect f nodes weights == quad nodes weights f.
Proof.
  unfold quadrect, quad, dotq. revert weights.
  induction nodes as [|x r IH]; intros [|w ws]; simpl; try reflexivity.
  rewrite IH. reflexivity.
Qed.

Lemma quad_ext {X} (nodes : list X) weights f g :
  (forall x, f x == g x) -> quad nodes weights f == quad nodes weights g.
Proof.
  intros H. unfold quad. generalize (combine nodes weights). intros l.
  induction l; simpl; [reflexivity|]. rewrite IHl, H. reflexivity.
Qed.

Lemma quad_const1 {X} (nodes : list X) weights :
  length nodes = length weights -> quad nodes weights (fun _ => 1) == sumq weights.
Proof.
  unfold quad. revert weights. induction nodes as [|x r IH]; intros [|w ws]; simpl; intros H; try discriminate; [reflexivity|].
  rewrite IH by lia. ring.
Qed.

(* ------------------------------------------------------------------ qn *)
Lemma qn_S i : qn (S i) == qn i + 1.
Proof. unfold qn. rewrite Nat2Z.inj_succ, <- Z.add_1_r, inject_Z_plus. reflexivity. Qed.
Lemma qn_0 : qn 0 == 0. Proof. reflexivity. Qed.
Lemma qn_pos i : (0 < i)%nat -> 0 < qn i.
Proof. intros. unfold qn. change 0 with (inject_Z 0). rewrite <- Zlt_Qlt. lia. Qed.
Lemma qn_nonneg i : 0 <= qn i.
Proof. unfold qn. change 0 with (inject_Z 0). rewrite <- Zle_Qle. lia. Qed.
Lemma qn_le i j : (i <= j)%nat -> qn i <= qn j.
Proof. intros. unfold qn. rewrite <- Zle_Qle. lia. Qed.
Lemma qn_add i j : qn (i + j) == qn i + qn j.
Proof. unfold qn. rewrite Nat2Z.inj_add, inject_Z_plus. reflexivity. Qed.

(* ------------------------------------------------------------------ linspace *)
Lemma linspace_length a b n : length (linspace a b n) = n.
Proof. destruct n as [|[|m]]; simpl; auto. rewrite map_length, seq_length. reflexivity. Qed.

(* for n = m+1 >= 2 points every node is a + i h, h = (b-a)/m (the forced last node b included) *)
Lemma linspace_nth a b m i : (1 <= m)%nat -> (i <= m)%nat ->
  nthq (linspace a b (S m)) i == a + qn i * ((b - a) / qn m).
Proof.
  intros Hm Hi. destruct m as [|k]; [lia|].
  unfold nthq, linspace.
  set (g := fun i0 : nat => if Nat.eqb i0 (S k) then b else a + qn i0 * ((b - a) / qn (S k))).
  rewrite (nth_indep _ 0 (g 0%nat)) by (rewrite map_length, seq_length; lia).
  rewrite (map_nth g), seq_nth by lia. simpl Nat.add. unfold g at 1.
  destruct (Nat.eqb i (S k)) eqn:E.
  - apply Nat.eqb_eq in E. subst i. field. intro H. pose proof (qn_pos (S k) ltac:(lia)). lra.
  - reflexivity.
Qed.

Lemma linspace_map a b m : (1 <= m)%nat ->
  linspace a b (S m) = map (fun i => if Nat.eqb i m then b else a + qn i * ((b - a) / qn m)) (seq 0 (S m)).
Proof. intros. destruct m; [lia|]. reflexivity. Qed.

Lemma node_eq a b m i : (1 <= m)%nat -> (i <= m)%nat ->
  (if Nat.eqb i m then b else a + qn i * ((b - a) / qn m)) == a + qn i * ((b - a) / qn m).
Proof.
  intros Hm Hi. destruct (Nat.eqb i m) eqn:E; [|reflexivity].
  apply Nat.eqb_eq in E. subst i. field. intro H. pose proof (qn_pos m ltac:(lia)). lra.
Qed.

Lemma node_range a b m i : a < b -> (1 <= m)%nat -> (i <= m)%nat ->
  a <= a + qn i * ((b - a) / qn m) <= b.
Proof.
  intros Hab Hm Hi.
  pose proof (qn_pos m ltac:(lia)) as Pm. pose proof (qn_nonneg i) as Pi. pose proof (qn_le i m Hi) as Pim.
  set (h := (b - a) / qn m).
  assert (Hh : h * qn m == b - a) by (unfold h; field; lra).
  assert (Hpos : 0 < h) by (unfold h; apply Qlt_shift_div_l; lra).
  split.
  - assert (0 <= qn i * h) by (apply Qmult_le_0_compat; lra). lra.
  - assert (qn i * h <= qn m * h) by (apply Qmult_le_compat_r; lra). lra.
Qed.

Lemma dx_eq a b m : (1 <= m)%nat ->
  nthq (linspace a b (S m)) 1 - nthq (linspace a b (S m)) 0 == (b - a) / qn m.
Proof.
  intros Hm. rewrite !linspace_nth by lia. change (qn 1) with 1. change (qn 0) with 0. ring.
Qed.

(* ------------------------------------------------------------------ trapezoid *)
(* weights before the last index: h/2 at 0, h elsewhere *)
Definition trap_w0 (h : Q) (i : nat) : Q := if Nat.eqb i 0 then h * (1 # 2) else h.

Section Trap.
Variables (a h c0 c1 : Q).
Let f (x : Q) := c0 + c1 * x.
Let F (x : Q) := c0 * x + c1 * (x * x) * (1 # 2).
Let g (i : nat) := f (a + qn i * h).

Lemma trap_sum m : (1 <= m)%nat ->
  sumq (map (fun i => trap_w0 h i * g i) (seq 0 m)) + h * (1 # 2) * g m == F (a + qn m * h) - F a.
Proof.
  induction m as [|m IH]; [lia|]. intros _.
  destruct m as [|m'].
  - simpl. unfold g, f, F, trap_w0. simpl Nat.eqb. cbv iota. change (qn 0) with 0. change (qn 1) with 1. ring.
  - rewrite sumq_seq_S. simpl Nat.add.
    assert (IH' := IH ltac:(lia)). clear IH.
    assert (E : trap_w0 h (S m') = h) by reflexivity. rewrite E.
    unfold g, f, F in *. rewrite (qn_S (S m')).
    set (S0 := sumq _) in *. set (q := qn (S m')) in *.
    transitivity ((S0 + h * (1 # 2) * (c0 + c1 * (a + q * h))) +
                  (h * (1 # 2) * (c0 + c1 * (a + q * h)) + h * (1 # 2) * (c0 + c1 * (a + (q + 1) * h)))); [ring|].
    rewrite IH'. ring.
Qed.
End Trap.

Lemma trap_spec n a b : (2 <= n)%nat -> a < b ->
  exists nodes weights, qnwtrap1 n a b = Some (nodes, weights) /\
    length nodes = n /\ length weights = n /\
    Forall (fun x => a <= x <= b) nodes /\
    Forall (fun w => 0 < w) weights /\
    sumq weights == b - a /\
    forall c0 c1, quad nodes weights (fun x => c0 + c1 * x)
                  == c0 * (b - a) + c1 * ((b * b - a * a) * (1 # 2)).
Proof.
  intros Hn Hab. destruct n as [|[|k]]; try lia. set (m := S k). assert (Hm : (1 <= m)%nat) by (unfold m; lia).
  unfold qnwtrap1. replace (Nat.ltb (S m) 2) with false by (symmetry; apply Nat.ltb_ge; lia).
  eexists; eexists; split; [reflexivity|].
  pose proof (qn_pos m ltac:(lia)) as Pm.
  set (h := (b - a) / qn m).
  assert (Hh : h * qn m == b - a) by (unfold h; field; lra).
  assert (Hpos : 0 < h) by (unfold h; apply Qlt_shift_div_l; lra).
  assert (Hdx := dx_eq a b m Hm). fold h in Hdx.
  set (dx := nthq (linspace a b (S m)) 1 - nthq (linspace a b (S m)) 0) in *.
  assert (Hquad : forall c0 c1,
    quad (linspace a b (S m))
         (map (fun i => if Nat.eqb i 0 || Nat.eqb i (S m - 1) then dx * 1 * (1 # 2) else dx * 1) (seq 0 (S m)))
         (fun x => c0 + c1 * x) == c0 * (b - a) + c1 * ((b * b - a * a) * (1 # 2))).
  { intros c0 c1. rewrite linspace_map by lia. rewrite quad_tab.
    rewrite sumq_seq_S. simpl Nat.add.
    rewrite (sumq_map_ext _ (fun i => trap_w0 h i * (c0 + c1 * (a + qn i * h)))).
    2:{ intros i Hi. apply in_seq in Hi.
        replace (Nat.eqb i (S m - 1)) with false by (symmetry; apply Nat.eqb_neq; lia).
        replace (Nat.eqb i m) with false by (symmetry; apply Nat.eqb_neq; lia).
        unfold trap_w0. fold h. destruct (Nat.eqb i 0); simpl orb; cbv iota; rewrite Hdx; ring. }
    replace (Nat.eqb m 0) with false by (symmetry; apply Nat.eqb_neq; lia).
    replace (Nat.eqb m (S m - 1)) with true by (symmetry; apply Nat.eqb_eq; lia).
    rewrite Nat.eqb_refl. simpl orb. cbv iota.
    pose proof (trap_sum a h c0 c1 m Hm) as T. cbv zeta in T.
    rewrite Hdx.
    assert (Hb : b == a + qn m * h) by lra.
    set (S0 := sumq _) in *.
    transitivity (S0 + h * (1 # 2) * (c0 + c1 * (a + qn m * h))).
    { rewrite <- Hb. ring. }
    rewrite T. rewrite <- Hb. ring. }
  split; [apply linspace_length|]. split; [rewrite map_length, seq_length; reflexivity|].
  split; [|split; [|split]].
  - rewrite linspace_map by lia. apply Forall_forall. intros x Hx. apply in_map_iff in Hx.
    destruct Hx as [i [Hx Hi]]. apply in_seq in Hi. subst x.
    rewrite node_eq by lia. apply node_range; auto; lia.
  - apply Forall_forall. intros w Hw. apply in_map_iff in Hw. destruct Hw as [i [Hw _]]. subst w.
    destruct (_ || _); rewrite Hdx; lra.
  - rewrite <- quad_const1 with (nodes := linspace a b (S m)).
    2:{ rewrite linspace_length, map_length, seq_length. reflexivity. }
    rewrite (quad_ext _ _ _ (fun x => 1 + 0 * x)) by (intros; ring).
    rewrite Hquad. ring.
  - exact Hquad.
Qed.

(* ------------------------------------------------------------------ Simpson *)
Definition simp_c0 (i : nat) : Q := if Nat.eqb i 0 then 1 else if Nat.even i then 2 else 4.

Lemma even_2p p : Nat.even (2 * p) = true.
Proof. rewrite Nat.even_mul. reflexivity. Qed.
Lemma even_2p1 p : Nat.even (2 * p + 1) = false.
Proof. rewrite Nat.even_add, even_2p. reflexivity. Qed.

Section Simp.
Variables (a h c0 c1 c2 c3 : Q).
Let f (x : Q) := c0 + c1 * x + c2 * (x * x) + c3 * (x * x * x).
Let F (x : Q) := c0 * x + c1 * (x * x) * (1 # 2) + c2 * (x * x * x) * (1 # 3) + c3 * (x * x * x * x) * (1 # 4).
Let g (i : nat) := f (a + qn i * h).

Local Instance simp_f_proper : Proper (Qeq ==> Qeq) f.
Proof. unfold f. solve_proper. Qed.
Local Instance simp_F_proper : Proper (Qeq ==> Qeq) F.
Proof. unfold F. solve_proper. Qed.

Lemma simp_panel x : h * (1 # 3) * (f x + 4 * f (x + h) + f (x + 2 * h)) == F (x + 2 * h) - F x.
Proof. unfold f, F. ring. Qed.

Lemma simp_sum p : (1 <= p)%nat ->
  h * (1 # 3) * (sumq (map (fun i => simp_c0 i * g i) (seq 0 (2 * p))) + g (2 * p)%nat)
  == F (a + qn (2 * p) * h) - F a.
Proof.
  induction p as [|p IH]; [lia|]. intros _.
  destruct p as [|p'].
  - simpl. unfold g, simp_c0. simpl Nat.eqb. simpl Nat.even. cbv iota.
    pose proof (simp_panel a) as P. unfold f, F in *.
    change (qn 0) with 0. change (qn 1) with 1. change (qn 2) with 2.
    rewrite <- P. ring.
  - assert (IH' := IH ltac:(lia)). clear IH.
    replace (2 * S (S p'))%nat with (S (S (2 * S p'))) by lia.
    rewrite !sumq_seq_S. rewrite !Nat.add_0_l.
    assert (E1 : simp_c0 (2 * S p') = 2).
    { unfold simp_c0. rewrite even_2p. replace (Nat.eqb (2 * S p') 0) with false; [reflexivity|].
      symmetry. apply Nat.eqb_neq. lia. }
    assert (E2 : simp_c0 (S (2 * S p')) = 4).
    { unfold simp_c0. replace (S (2 * S p')) with (2 * S p' + 1)%nat by lia. rewrite even_2p1.
      replace (Nat.eqb (2 * S p' + 1) 0) with false; [reflexivity|]. symmetry. apply Nat.eqb_neq. lia. }
    rewrite E1, E2.
    set (k := (2 * S p')%nat) in *.
    pose proof (simp_panel (a + qn k * h)) as P.
    unfold g in *. rewrite !qn_S.
    set (S0 := sumq _) in *.
    transitivity ((h * (1 # 3) * (S0 + f (a + qn k * h))) +
                  h * (1 # 3) * (f (a + qn k * h) + 4 * f (a + qn k * h + h) + f (a + qn k * h + 2 * h))).
    { unfold f. ring. }
    rewrite IH', P. unfold F. ring.
Qed.
End Simp.

Lemma simp_n_odd n0 : Nat.even (simp_n n0) = false.
Proof.
  unfold simp_n. destruct (Nat.even n0) eqn:E; [|exact E].
  rewrite Nat.even_succ. rewrite <- Nat.negb_even, E. reflexivity.
Qed.

Lemma simp_spec n0 a b : (3 <= simp_n n0)%nat -> a < b ->
  exists nodes weights, qnwsimp1 n0 a b = Some (nodes, weights) /\
    length nodes = simp_n n0 /\ length weights = simp_n n0 /\
    Forall (fun x => a <= x <= b) nodes /\
    Forall (fun w => 0 < w) weights /\
    sumq weights == b - a /\
    forall c0 c1 c2 c3,
      quad nodes weights (fun x => c0 + c1 * x + c2 * (x * x) + c3 * (x * x * x))
      == c0 * (b - a) + c1 * ((b * b - a * a) * (1 # 2))
         + c2 * ((b * b * b - a * a * a) * (1 # 3))
         + c3 * ((b * b * b * b - a * a * a * a) * (1 # 4)).
Proof.
  intros Hn Hab. unfold qnwsimp1.
  pose proof (simp_n_odd n0) as Hodd. set (n := simp_n n0) in *.
  assert (Hp : exists p, n = (2 * p + 1)%nat).
  { assert (O : Nat.odd n = true) by (rewrite <- Nat.negb_even, Hodd; reflexivity).
    apply Nat.odd_spec in O. exact O. }
  destruct Hp as [p Hp]. assert (Hp1 : (1 <= p)%nat) by lia.
  replace (Nat.ltb n 3) with false by (symmetry; apply Nat.ltb_ge; lia).
  eexists; eexists; split; [reflexivity|].
  set (m := (2 * p)%nat). assert (Hnm : n = S m) by lia. assert (Hm : (1 <= m)%nat) by lia.
  pose proof (qn_pos m ltac:(lia)) as Pm.
  set (h := (b - a) / qn m).
  assert (Hh : h * qn m == b - a) by (unfold h; field; lra).
  assert (Hpos : 0 < h) by (unfold h; apply Qlt_shift_div_l; lra).
  rewrite Hnm in *.
  assert (Hdx := dx_eq a b m Hm). fold h in Hdx.
  set (dx := nthq (linspace a b (S m)) 1 - nthq (linspace a b (S m)) 0) in *.
  assert (Hquad : forall c0 c1 c2 c3,
    quad (linspace a b (S m)) (map (fun i => dx / 3 * simp_coef (S m) i) (seq 0 (S m)))
         (fun x => c0 + c1 * x + c2 * (x * x) + c3 * (x * x * x))
    == c0 * (b - a) + c1 * ((b * b - a * a) * (1 # 2))
         + c2 * ((b * b * b - a * a * a) * (1 # 3))
         + c3 * ((b * b * b * b - a * a * a * a) * (1 # 4))).
  { intros c0 c1 c2 c3. rewrite linspace_map by lia. rewrite quad_tab.
    rewrite sumq_seq_S. simpl Nat.add.
    set (f := fun x : Q => c0 + c1 * x + c2 * (x * x) + c3 * (x * x * x)).
    rewrite (sumq_map_ext _ (fun i => h * (1 # 3) * (simp_c0 i * f (a + qn i * h)))).
    2:{ intros i Hi. apply in_seq in Hi. unfold simp_coef, simp_c0.
        replace (Nat.eqb i (S m - 1)) with false by (symmetry; apply Nat.eqb_neq; lia).
        replace (Nat.eqb i m) with false by (symmetry; apply Nat.eqb_neq; lia).
        fold h. rewrite orb_false_r. rewrite Hdx. unfold f. set (cc := if Nat.eqb i 0 then _ else _). field. }
    rewrite sumq_map_scale.
    unfold simp_coef. replace (Nat.eqb m (S m - 1)) with true by (symmetry; apply Nat.eqb_eq; lia).
    rewrite orb_true_r. rewrite Nat.eqb_refl.
    pose proof (simp_sum a h c0 c1 c2 c3 p Hp1) as T. cbv zeta in T. fold m in T. fold f in T.
    rewrite Hdx.
    assert (Hb : b == a + qn m * h) by lra.
    set (S0 := sumq _) in *.
    assert (Efb : f b == f (a + qn m * h)) by (unfold f; rewrite <- Hb; reflexivity).
    transitivity (h * (1 # 3) * (S0 + f b)).
    { unfold f. field. }
    rewrite Efb, T. rewrite <- Hb. ring. }
  split; [apply linspace_length|]. split; [rewrite map_length, seq_length; reflexivity|].
  split; [|split; [|split]].
  - rewrite linspace_map by lia. apply Forall_forall. intros x Hx. apply in_map_iff in Hx.
    destruct Hx as [i [Hx Hi]]. apply in_seq in Hi. subst x.
    rewrite node_eq by lia. apply node_range; auto; lia.
  - apply Forall_forall. intros w Hw. apply in_map_iff in Hw. destruct Hw as [i [Hw _]]. subst w.
    rewrite Hdx. unfold simp_coef.
    assert (0 < h / 3) by (apply Qlt_shift_div_l; lra).
    destruct (_ || _); [lra|]. destruct (Nat.even i); lra.
  - rewrite <- quad_const1 with (nodes := linspace a b (S m)).
    2:{ rewrite linspace_length, map_length, seq_length. reflexivity. }
    rewrite (quad_ext _ _ _ (fun x => 1 + 0 * x + 0 * (x * x) + 0 * (x * x * x))) by (intros; ring).
    rewrite Hquad. ring.
  - exact Hquad.
Qed.

(* ------------------------------------------------------------------ tensor products *)
(* prepend a dimension that varies fastest *)
Definition prep (x0 : list Q) (R : list (list Q)) : list (list Q) :=
  flat_map (fun row => map (fun x => x :: row) x0) R.

Lemma flat_map_map {A B C} (f : A -> B) (g : B -> list C) l :
  flat_map g (map f l) = flat_map (fun a => g (f a)) l.
Proof. induction l; simpl; [reflexivity | rewrite IHl; reflexivity]. Qed.

Lemma map_flat_map {A B C} (f : B -> C) (g : A -> list B) l :
  map f (flat_map g l) = flat_map (fun a => map f (g a)) l.
Proof. induction l; simpl; [reflexivity | rewrite map_app, IHl; reflexivity]. Qed.

Lemma flat_map_flat_map {A B C} (f : A -> list B) (g : B -> list C) l :
  flat_map g (flat_map f l) = flat_map (fun a => flat_map g (f a)) l.
Proof. induction l; simpl; [reflexivity | rewrite flat_map_app, IHl; reflexivity]. Qed.

Lemma flat_map_ext' {A B} (f g : A -> list B) l : (forall a, f a = g a) -> flat_map f l = flat_map g l.
Proof. intros H. induction l; simpl; [reflexivity | rewrite H, IHl; reflexivity]. Qed.

(* swapping the two enumerations is NOT what happens: gridmake2 appends a slowest dimension, and
   this commutes with prepending a fastest one *)
Lemma gridmake2_prep x0 R y : gridmake2 (prep x0 R) y = prep x0 (gridmake2 R y).
Proof.
  unfold gridmake2, prep.
  rewrite flat_map_flat_map.
  apply flat_map_ext'. intros yv.
  rewrite map_flat_map, flat_map_map.
  apply flat_map_ext'. intros row. rewrite map_map. reflexivity.
Qed.

Lemma fold_gridmake2_prep x0 ys : forall R,
  fold_left gridmake2 ys (prep x0 R) = prep x0 (fold_left gridmake2 ys R).
Proof. induction ys as [|y ys IH]; intros R; simpl; [reflexivity|]. rewrite gridmake2_prep. apply IH. Qed.

Lemma gridmake_rows_cons x0 x1 rest :
  gridmake_rows x0 (x1 :: rest) = prep x0 (gridmake_rows x1 rest).
Proof.
  unfold gridmake_rows. simpl fold_left.
  rewrite <- fold_gridmake2_prep. f_equal.
  unfold gridmake2, prep. rewrite flat_map_map.
  apply flat_map_ext'. intros yv. rewrite map_map. reflexivity.
Qed.

Lemma ckron_rev_cons w0 w1 rest :
  ckron (rev (w0 :: w1 :: rest)) = kron (ckron (rev (w1 :: rest))) w0.
Proof.
  change (rev (w0 :: w1 :: rest)) with (rev (w1 :: rest) ++ [w0]).
  destruct (rev (w1 :: rest)) as [|u t] eqn:E.
  - exfalso. apply (f_equal (@length _)) in E. rewrite rev_length in E. simpl in E. lia.
  - simpl. rewrite fold_left_app. reflexivity.
Qed.

Lemma quad_app {X} (l1 l2 : list X) m1 m2 f : length l1 = length m1 ->
  quad (l1 ++ l2) (m1 ++ m2) f == quad l1 m1 f + quad l2 m2 f.
Proof.
  revert m1. induction l1 as [|x l1 IH]; intros [|w m1] H; simpl in H; try discriminate.
  - unfold quad. simpl. ring.
  - unfold quad in *. simpl. rewrite IH by lia. ring.
Qed.

Lemma quad_cons {X} (x : X) l w m f : quad (x :: l) (w :: m) f == w * f x + quad l m f.
Proof. unfold quad. simpl. reflexivity. Qed.

(* separable integrand  row |-> prod_i f_i(row_i) *)
Fixpoint prodfun (fs : list (Q -> Q)) (row : list Q) : Q :=
  match fs, row with
  | f :: fs', x :: row' => f x * prodfun fs' row'
  | _, _ => 1
  end.

Lemma quad_inner (x0 w0 : list Q) (f0 : Q -> Q) fs row Wv :
  quad (map (fun x => x :: row) x0) (map (Qmult Wv) w0) (prodfun (f0 :: fs))
  == Wv * prodfun fs row * quad x0 w0 f0.
Proof.
  unfold quad. revert w0. induction x0 as [|x x0 IH]; intros [|w w0]; simpl; try ring.
  rewrite IH. ring.
Qed.

Lemma quad_prep_kron x0 w0 f0 fs : length x0 = length w0 -> forall R W,
  quad (prep x0 R) (kron W w0) (prodfun (f0 :: fs)) == quad x0 w0 f0 * quad R W (prodfun fs).
Proof.
  intros Hl. induction R as [|row R IH]; intros [|Wv W].
  - unfold quad. simpl. ring.
  - unfold quad. simpl. ring.
  - unfold prep, kron. simpl flat_map at 2. unfold quad at 1.
    replace (combine _ []) with (@nil (list Q * Q)) by (destruct (flat_map _ _); reflexivity).
    unfold quad. simpl. ring.
  - unfold prep, kron. simpl flat_map. fold (prep x0 R). fold (kron W w0).
    rewrite quad_app by (rewrite !map_length; exact Hl).
    rewrite IH, quad_inner, quad_cons. ring.
Qed.

Lemma length_prep x0 R : length (prep x0 R) = (length R * length x0)%nat.
Proof. unfold prep. induction R; simpl; [reflexivity|]. rewrite app_length, map_length, IHR. reflexivity. Qed.
Lemma length_kron W w0 : length (kron W w0) = (length W * length w0)%nat.
Proof. unfold kron. induction W; simpl; [reflexivity|]. rewrite app_length, map_length, IHW. reflexivity. Qed.

(* total versions of the two enumerations for d >= 1 *)
Definition grid_of (xs : list (list Q)) : list (list Q) :=
  match xs with [] => [[]] | x0 :: rest => gridmake_rows x0 rest end.

(* rules: ((nodes, weights), (f, I)) with quad nodes weights f == I *)
Definition rule_ok (r : (list Q * list Q) * ((Q -> Q) * Q)) : Prop :=
  length (fst (fst r)) = length (snd (fst r)) /\
  quad (fst (fst r)) (snd (fst r)) (fst (snd r)) == snd (snd r).

Lemma tensor_gen : forall (rest : list ((list Q * list Q) * ((Q -> Q) * Q))) r0,
  Forall rule_ok (r0 :: rest) ->
  let rules := map fst (r0 :: rest) in
  let nodes := grid_of (map fst rules) in
  let weights := ckron (rev (map snd rules)) in
  length nodes = length weights /\
  quad nodes weights (prodfun (map (fun r => fst (snd r)) (r0 :: rest)))
  == prodq (map (fun r => snd (snd r)) (r0 :: rest)).
Proof.
  induction rest as [|r1 rest IH]; intros [[x0 w0] [f0 I0]] H; cbv zeta.
  - apply Forall_inv in H. destruct H as [Hl Hq]. simpl in *.
    unfold gridmake_rows. simpl. split; [rewrite map_length; exact Hl|].
    rewrite <- Hq. unfold quad. clear Hq. revert w0 Hl.
    induction x0 as [|x x0 IHx]; intros [|w w0] Hl; simpl in *; try discriminate; try ring.
    rewrite IHx by lia. ring.
  - pose proof (Forall_inv H) as [Hl Hq]. apply Forall_inv_tail in H. simpl in Hl, Hq.
    specialize (IH r1 H). cbv zeta in IH. destruct IH as [IHl IHq].
    destruct r1 as [[x1 w1] [f1 I1]].
    simpl map in *. simpl grid_of in *.
    rewrite gridmake_rows_cons, ckron_rev_cons.
    split.
    + rewrite length_prep, length_kron. rewrite IHl, Hl. reflexivity.
    + rewrite quad_prep_kron by exact Hl.
      change (prodfun (f1 :: map (fun r => fst (snd r)) rest)) with
             (prodfun (map (fun r => fst (snd r)) (((x1, w1), (f1, I1)) :: rest))).
      simpl map. rewrite IHq, Hq. simpl. reflexivity.
Qed.

Lemma kron_pos W w0 : Forall (fun w => 0 < w) W -> Forall (fun w => 0 < w) w0 ->
  Forall (fun w => 0 < w) (kron W w0).
Proof.
  intros HW Hw. unfold kron. induction HW; simpl; [constructor|].
  apply Forall_app. split; [|assumption].
  apply Forall_forall. intros v Hv. apply in_map_iff in Hv. destruct Hv as [u [Hv Hu]]. subst v.
  rewrite Forall_forall in Hw. specialize (Hw u Hu).
  apply Qmult_lt_0_compat; assumption.
Qed.

Lemma ckron_rev_pos ws : Forall (Forall (fun w => 0 < w)) ws -> Forall (fun w => 0 < w) (ckron (rev ws)).
Proof.
  destruct ws as [|w0 rest]; [constructor|]. revert w0.
  induction rest as [|w1 rest IH]; intros w0 H.
  - simpl. apply Forall_inv in H. exact H.
  - rewrite ckron_rev_cons. apply kron_pos.
    + apply IH. apply Forall_inv_tail in H. exact H.
    + apply Forall_inv in H. exact H.
Qed.

Lemma monomial_prodfun es row : monomial es row = prodfun (map (fun e x => qpow x e) es) row.
Proof. revert row. induction es as [|e es IH]; intros [|x row]; simpl; try reflexivity. rewrite IH. reflexivity. Qed.

(* ------------------------------------------------------------------ statements used by Props.v *)
Lemma simp_n_ge3 n0 : (2 <= n0)%nat -> (3 <= simp_n n0)%nat.
Proof.
  intros H. unfold simp_n. destruct (Nat.even n0) eqn:E; [lia|].
  destruct n0 as [|[|[|k]]]; try lia. simpl in E. discriminate.
Qed.

Lemma simp_spec' n0 a b : (2 <= n0)%nat -> a < b ->
  exists nodes weights, qnwsimp1 n0 a b = Some (nodes, weights) /\
    length nodes = simp_n n0 /\ length weights = simp_n n0 /\
    Forall (fun x => a <= x <= b) nodes /\
    Forall (fun w => 0 < w) weights /\
    sumq weights == b - a /\
    forall c0 c1 c2 c3,
      quad nodes weights (fun x => c0 + c1 * x + c2 * (x * x) + c3 * (x * x * x))
      == c0 * (b - a) + c1 * ((b * b - a * a) * (1 # 2))
         + c2 * ((b * b * b - a * a * a) * (1 # 3))
         + c3 * ((b * b * b * b - a * a * a * a) * (1 # 4)).
Proof. intros. apply simp_spec; auto. apply simp_n_ge3; auto. Qed.

Lemma sumq_kron W w0 : sumq (kron W w0) == sumq W * sumq w0.
Proof.
  unfold kron. induction W as [|x W IH]; simpl; [ring|].
  rewrite sumq_app, IH.
  assert (E : sumq (map (Qmult x) w0) == x * sumq w0).
  { clear. induction w0; simpl; [ring | rewrite IHw0; ring]. }
  rewrite E. ring.
Qed.

Lemma ckron_rev_mass : forall (rest : list (list Q)) w0,
  sumq (ckron (rev (w0 :: rest))) == prodq (map sumq (w0 :: rest)).
Proof.
  induction rest as [|w1 rest IH]; intros w0.
  - simpl. ring.
  - rewrite ckron_rev_cons, sumq_kron, IH. simpl. ring.
Qed.

Lemma tensor_spec (rs : list ((list Q * list Q) * ((Q -> Q) * Q))) :
  (2 <= length rs)%nat ->
  Forall (fun r => length (fst (fst r)) = length (snd (fst r)) /\
                   quad (fst (fst r)) (snd (fst r)) (fst (snd r)) == snd (snd r)) rs ->
  exists nodes weights, tensor_rule (map fst rs) = Some (nodes, weights) /\
    length nodes = length weights /\
    (Forall (fun r => Forall (fun w => 0 < w) (snd (fst r))) rs -> Forall (fun w => 0 < w) weights) /\
    sumq weights == prodq (map (fun r => sumq (snd (fst r))) rs) /\
    quad nodes weights (prodfun (map (fun r => fst (snd r)) rs)) == prodq (map (fun r => snd (snd r)) rs).
Proof.
  intros Hd H. destruct rs as [|r0 [|r1 rest]]; simpl in Hd; try lia.
  pose proof (tensor_gen (r1 :: rest) r0 H) as T. cbv zeta in T. destruct T as [Tl Tq].
  unfold tensor_rule. simpl map. simpl gridmake.
  eexists; eexists; split; [reflexivity|].
  simpl map in Tl, Tq. simpl grid_of in Tl, Tq.
  split; [exact Tl|]. split; [|split; [|exact Tq]].
  - intros Hp. change (snd (fst r0) :: snd (fst r1) :: map snd (map fst rest))
      with (map snd (map fst (r0 :: r1 :: rest))).
    apply ckron_rev_pos. rewrite map_map. apply Forall_map. exact Hp.
  - rewrite ckron_rev_mass. simpl. rewrite !map_map. reflexivity.
Qed.

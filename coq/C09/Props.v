(* C09 property theorems: statements only, each closed by `exact`, with Print Assumptions.
   Model: C09/Model.v (+ certifying solver C09/Solve.v); spec-level notions (ext_le, ext_lt,
   dotS, pair_valS, ddp_ok, Tv_at, greedy_at, amax_inv, iterT) are defined in C09/Proofs1-3.v. *)
From Coq Require Import ZArith QArith Qabs List Bool Arith Lia Lqa Sorted.
From QE Require Import Base.Num Base.Cases C09.Solve C09.Model C09.Proofs C09.Findings.
Import ListNotations.

(* ---- state-wise max kernel: every Num instance whose nltb is a strict weak order ---- *)
Theorem C09_swise_max_spec :
  forall (T : Type) (NT : Num T),
  (forall a : T, nltb a a = false) ->
  (forall a b c : T, nltb a b = true -> nltb b c = true -> nltb a c = true) ->
  (forall a b c : T, nltb a b = true -> nltb a c = true \/ nltb c b = true) ->
  forall (aidx indptr : list nat) (vals : list (ext T)) (n s : nat),
  (s < n)%nat -> (getn indptr s < getn indptr (S s))%nat ->
  exists m, nth s (s_wise_max_argmax aidx indptr vals n) None = Some (gete vals m, getn aidx m) /\
            nth s (s_wise_max aidx indptr vals n) None = Some (gete vals m) /\
            (getn indptr s <= m < getn indptr (S s))%nat /\
            (forall i, (getn indptr s <= i < getn indptr (S s))%nat -> ext_gtb (gete vals i) (gete vals m) = false) /\
            (forall i, (getn indptr s <= i < m)%nat -> ext_gtb (gete vals m) (gete vals i) = true).
Proof. exact (@swise_max_spec). Qed.
Print Assumptions C09_swise_max_spec.

Theorem C09_swise_max_spec_Q :
  forall aidx indptr (vals : list (ext Q)) n s,
  (s < n)%nat -> (getn indptr s < getn indptr (S s))%nat ->
  exists m, (getn indptr s <= m < getn indptr (S s))%nat /\
            nth s (s_wise_max_argmax aidx indptr vals n) None = Some (gete vals m, getn aidx m) /\
            nth s (s_wise_max aidx indptr vals n) None = Some (gete vals m) /\
            (forall j, (getn indptr s <= j < getn indptr (S s))%nat -> ext_le (gete vals j) (gete vals m)) /\
            (forall j, (getn indptr s <= j < m)%nat -> ext_lt (gete vals j) (gete vals m)).
Proof. exact swise_max_spec_Q. Qed.
Print Assumptions C09_swise_max_spec_Q.

(* ---- bellman_operator / compute_greedy ---- *)
Theorem C09_bellman_is_max :
  forall (d : ddp Q) v s, ddp_ok d -> (s < d_n d)%nat ->
  exists m r,
    (seg_lo d s <= m < seg_hi d s)%nat /\
    gete (d_R d) m = Fin r /\
    Tv_at d v s == r + d_beta d * dotS (getrow (d_Q d) m) v /\
    greedy_at d v s = getn (d_aidx d) m /\
    (forall j, (seg_lo d s <= j < seg_hi d s)%nat ->
               ext_le (pair_valS (d_beta d) v (gete (d_R d) j) (getrow (d_Q d) j)) (Fin (Tv_at d v s))) /\
    (forall j, (seg_lo d s <= j < m)%nat ->
               ext_lt (pair_valS (d_beta d) v (gete (d_R d) j) (getrow (d_Q d) j)) (Fin (Tv_at d v s))).
Proof. exact bellman_is_max. Qed.
Print Assumptions C09_bellman_is_max.

(* ---- T_sigma, RQ_sigma / controlled_mc, evaluate_policy ---- *)
Theorem C09_T_sigma_affine :
  forall beta Rs Qs v i, (i < length Rs)%nat -> (i < length Qs)%nat ->
  nth i (T_sigma_rq beta Rs Qs v) 0 == nth i Rs 0 + beta * dotS (nth i Qs []) v.
Proof. exact T_sigma_entry. Qed.
Print Assumptions C09_T_sigma_affine.

Theorem C09_RQ_sigma_rows :
  forall (d : ddp Q) sigma Rs Qs,
  RQ_sigma d sigma = Some (Rs, Qs) ->
  exists idx, sigma_indices d sigma = Some idx /\ Rs = map (gete (d_R d)) idx /\ Qs = map (getrow (d_Q d)) idx /\
              controlled_mc d sigma = Some Qs /\
              length idx = d_n d /\ length sigma = d_n d /\
              forall s, (s < d_n d)%nat ->
                (getn (d_indptr d) s <= getn idx s < getn (d_indptr d) (S s))%nat /\
                getn (d_aidx d) (getn idx s) = getn sigma s.
Proof. exact RQ_sigma_rows_full. Qed.
Print Assumptions C09_RQ_sigma_rows.

Theorem C09_solve_checked_correct :
  forall (A : list (list Q)) (b x : list Q),
  solve_checked A b = Some x ->
  length x = length A /\ length b = length A /\ forall i, (i < length A)%nat -> dotS (nth i A []) x == nth i b 0.
Proof. exact solve_checked_correct. Qed.
Print Assumptions C09_solve_checked_correct.

Theorem C09_evaluate_policy_fixpoint :
  forall (d : ddp Q) sigma Rs Qs x,
  RQ_sigma_fin d sigma = Some (Rs, Qs) ->
  (forall i, (i < length Qs)%nat -> length (nth i Qs []) = length Qs) ->
  evaluate_policy d sigma = Some x ->
  length x = length Qs /\ length Rs = length Qs /\
  forall i, (i < length Qs)%nat -> nth i x 0 == nth i (T_sigma_rq (d_beta d) Rs Qs x) 0.
Proof. exact evaluate_policy_fixpoint. Qed.
Print Assumptions C09_evaluate_policy_fixpoint.

(* ---- backward induction: every horizon, every Num instance (so also beta = 1 and floats) ---- *)
Theorem C09_backward_induction_spec :
  forall (T : Type) (NT : Num T) (d : ddp T) (vT : list T) (H : nat),
  let '(vs, sg) := backward_induction d H vT in
  length vs = S H /\ length sg = H /\
  (forall t, (t <= H)%nat -> nth t vs [] = iterT (H - t) (bellman_operator d) vT) /\
  (forall t, (t < H)%nat -> nth t sg [] = compute_greedy d (nth (S t) vs [])).
Proof. exact (@backward_induction_spec). Qed.
Print Assumptions C09_backward_induction_spec.

(* finite-horizon optimality (beta >= 0 arbitrary, so also beta = 1; rows non-negative of length n):
   no (non-stationary, deterministic) policy sequence has a larger value than vs[0] in any state ... *)
Theorem C09_backward_induction_dominates :
  forall d : ddp Q, ddp_ok d -> kernel_nonneg d ->
  forall vT, length vT = d_n d ->
  forall pol, (forall sg, In sg pol -> RQ_sigma_fin d sg <> None) ->
  (forall s, (s < d_n d)%nat ->
     nth s (pol_value d pol vT) 0 <= nth s (hd [] (fst (backward_induction d (length pol) vT))) 0) /\
  length (pol_value d pol vT) = d_n d.
Proof. exact backward_induction_dominates. Qed.
Print Assumptions C09_backward_induction_dominates.

(* ... and the returned policies are feasible and attain it: vs[0] is the value of the sequence sigmas *)
Theorem C09_backward_induction_attained :
  forall d : ddp Q, ddp_ok d -> ddp_distinct d ->
  forall vT, length vT = d_n d -> forall H,
  let '(vs, sg) := backward_induction d H vT in
  (forall s, In s sg -> RQ_sigma_fin d s <> None) /\ length (pol_value d sg vT) = d_n d /\
  (forall s, (s < d_n d)%nat -> nth s (pol_value d sg vT) 0 == nth s (hd [] vs) 0).
Proof. exact backward_induction_attained. Qed.
Print Assumptions C09_backward_induction_attained.

(* ---- constructor: pointer scan and feasibility check ---- *)
Theorem C09_generate_a_indptr_safe :
  forall n sidx,
  exists p, generate_a_indptr n sidx = RVal p /\ length p = S n /\
            Forall (fun i => (i <= length sidx)%nat) p /\
            last p 0%nat = length sidx /\ (n > 0 -> hd 1%nat p = 0%nat)%nat.
Proof. exact generate_a_indptr_safe. Qed.
Print Assumptions C09_generate_a_indptr_safe.

Theorem C09_generate_a_indptr_sorted :
  forall n sidx, StronglySorted le sidx -> Forall (fun s => (s < n)%nat) sidx ->
  generate_a_indptr n sidx = RVal (map (fun i => length (filter (fun s => (s <? i)%nat) sidx)) (seq 0 (S n))).
Proof. exact generate_a_indptr_sorted. Qed.
Print Assumptions C09_generate_a_indptr_sorted.

Theorem C09_generate_a_indptr_oob_refuted :
  exists n sidx, has_sorted_sa_indices sidx (seq 0 (length sidx)) = true /\
                 generate_a_indptr_old n sidx = ROob (length sidx).
Proof. exact generate_a_indptr_oob_refuted. Qed.
Print Assumptions C09_generate_a_indptr_oob_refuted.

Theorem C09_constructor_no_index_error :
  forall (T : Type) (NT : Num T) n sidx aidx (R : list (ext T)) Qm beta i,
  mk_sa n sidx aidx R Qm beta <> CIndexError i.
Proof. exact (@mk_sa_no_index_error). Qed.
Print Assumptions C09_constructor_no_index_error.

Theorem C09_constructor_prod_no_index_error :
  forall (T : Type) (NT : Num T) n m (R : list (list (ext T))) Qm beta i,
  mk_prod n m R Qm beta <> CIndexError i.
Proof. exact (@mk_prod_no_index_error). Qed.
Print Assumptions C09_constructor_prod_no_index_error.

Theorem C09_constructor_unsorted_trailing_empty_refuted :
  exists n sidx aidx R Qm beta,
    has_sorted_sa_indices sidx aidx = false /\ ~ In (n - 1)%nat sidx /\
    mk_sa_old (T:=Q) n sidx aidx R Qm beta = CIndexError 3.
Proof. exact constructor_unsorted_trailing_empty_refuted. Qed.
Print Assumptions C09_constructor_unsorted_trailing_empty_refuted.

Theorem C09_constructor_rejects_missing_state :
  forall (T : Type) (NT : Num T) n sidx aidx (R : list (ext T)) Qm beta,
  shapes_ok n sidx aidx R Qm = true ->
  has_sorted_sa_indices sidx aidx = true \/ trip_has_dup (trip_sort (zip3 sidx aidx 0)) = false ->
  (exists s, (s < n)%nat /\ ~ In s sidx) ->
  mk_sa n sidx aidx R Qm beta = CValueError.
Proof. exact (@mk_sa_rejects_missing_state). Qed.
Print Assumptions C09_constructor_rejects_missing_state.

(* every ddp accepted by either constructor satisfies the hypothesis ddp_ok of the operator theorems *)
Theorem C09_constructed_ddp_ok :
  (forall n sidx aidx (R : list (ext Q)) Qm beta d,
     mk_sa n sidx aidx R Qm beta = COk d -> ddp_ok d /\ 0 <= d_beta d <= 1) /\
  (forall n m (R : list (list (ext Q))) Qm beta d,
     mk_prod n m R Qm beta = COk d -> ddp_ok d /\ 0 <= d_beta d <= 1).
Proof. exact (conj mk_sa_ok mk_prod_ok). Qed.
Print Assumptions C09_constructed_ddp_ok.

(* the feasibility test itself (both formulations go through finish_ctor) *)
Theorem C09_constructor_rejects_partial :
  forall n sidx aidx indptr (R : list (ext Q)) Qm beta prod,
  (forall s, (s < n)%nat -> (getn indptr s <= getn indptr (S s))%nat) ->
  (finish_ctor n sidx aidx indptr R Qm beta prod = CValueError <->
     (exists s, (s < n)%nat /\
        (getn indptr s = getn indptr (S s) \/
         forall j, (getn indptr s <= j < getn indptr (S s))%nat -> gete R j = NegInf))
     \/ ~ (0 <= beta <= 1)).
Proof. exact constructor_rejects_partial. Qed.
Print Assumptions C09_constructor_rejects_partial.

(* full statement of the constructor clause in terms of the *input* arrays (sorted or unsorted distinct pairs):
   ValueError exactly when some state has only -inf rewards among its pairs -- in particular no pair at all --
   or beta is outside [0,1]; together with C09_constructor_no_index_error: never IndexError *)
Definition C09_constructor_rejects_full : Prop :=
  forall n sidx aidx (R : list (ext Q)) Qm beta,
  shapes_ok n sidx aidx R Qm = true ->
  has_sorted_sa_indices sidx aidx = true \/ trip_has_dup (trip_sort (zip3 sidx aidx 0)) = false ->
  (mk_sa n sidx aidx R Qm beta = CValueError <->
     (exists s, (s < n)%nat /\ forall j, (j < length sidx)%nat -> getn sidx j = s -> gete R j = NegInf)
     \/ ~ (0 <= beta <= 1)).
Theorem C09_constructor_rejects : C09_constructor_rejects_full.
Proof. exact constructor_rejects_full. Qed.
Print Assumptions C09_constructor_rejects.

(* ---- form conversion ---- *)
(* the sa-pair constructor (sorted or unsorted input) stores exactly the input pairs, each retrievable by
   (state, action) with its reward and transition row *)
Theorem C09_constructor_stores_pairs :
  forall n sidx aidx (R : list (ext Q)) Qm beta d',
  mk_sa n sidx aidx R Qm beta = COk d' ->
  (forall j, (j < length sidx)%nat ->
     exists j', lookup_pair d' (getn sidx j) (getn aidx j) = Some j' /\
                gete (d_R d') j' = gete R j /\ getrow (d_Q d') j' = getrow Qm j) /\
  (forall s a j', lookup_pair d' s a = Some j' ->
     exists j, (j < length sidx)%nat /\ getn sidx j = s /\ getn aidx j = a /\
               gete (d_R d') j' = gete R j /\ getrow (d_Q d') j' = getrow Qm j).
Proof. intros n sidx aidx R Qm beta d' H. split; [exact (mk_sa_lookup _ _ _ _ _ _ _ H)|intros s a j'; exact (mk_sa_lookup_inv _ _ _ _ _ _ _ s a j' H)]. Qed.
Print Assumptions C09_constructor_stores_pairs.

(* to_sa_pair_form of a product ddp keeps exactly the pairs with a finite reward, with their rewards and rows *)
Theorem C09_to_sa_pair_form_preserves :
  forall n m (Rt : list (list (ext Q))) Qt beta d d',
  mk_prod n m Rt Qt beta = COk d -> to_sa_pair_form d = COk d' ->
  (forall s a r, (s < n)%nat -> (a < m)%nat -> nth a (nth s Rt []) NegInf = Fin r ->
     exists j', lookup_pair d' s a = Some j' /\ gete (d_R d') j' = Fin r /\ getrow (d_Q d') j' = nth a (nth s Qt []) []) /\
  (forall s a j', lookup_pair d' s a = Some j' ->
     (s < n)%nat /\ (a < m)%nat /\ exists r, nth a (nth s Rt []) NegInf = Fin r /\ gete (d_R d') j' = Fin r /\
                                         getrow (d_Q d') j' = nth a (nth s Qt []) []).
Proof. intros n m Rt Qt beta d d' H1 H2. split; [exact (to_sa_preserves _ _ _ _ _ _ _ H1 H2)|exact (to_sa_feasible_only _ _ _ _ _ _ _ H1 H2)]. Qed.
Print Assumptions C09_to_sa_pair_form_preserves.

(* to_product_form of an sa-pair ddp: R[s,a], Q[s,a,:] of pair (s,a) if present, else -inf and a zero row *)
Theorem C09_to_product_form_entries :
  forall d' d'' : ddp Q, d_prod d' = None -> to_product_form d' = COk d'' ->
  forall s a, (s < d_n d')%nat -> (a < S (list_max (d_aidx d')))%nat ->
    lookup_pair d'' s a = Some (s * S (list_max (d_aidx d')) + a)%nat /\
    gete (d_R d'') (s * S (list_max (d_aidx d')) + a) = match lookup_pair d' s a with Some j => gete (d_R d') j | None => NegInf end /\
    getrow (d_Q d'') (s * S (list_max (d_aidx d')) + a) = match lookup_pair d' s a with Some j => getrow (d_Q d') j | None => repeat 0 (d_n d') end.
Proof. exact to_product_entries. Qed.
Print Assumptions C09_to_product_form_entries.

(* round trip product -> sa-pair -> product: the identity on feasible pairs, and no feasible pair is created *)
Theorem C09_to_sa_to_product_roundtrip :
  forall n m (Rt : list (list (ext Q))) Qt beta d d' d'',
  mk_prod n m Rt Qt beta = COk d -> to_sa_pair_form d = COk d' -> to_product_form d' = COk d'' ->
  (forall s a r, (s < n)%nat -> (a < m)%nat -> nth a (nth s Rt []) NegInf = Fin r ->
     exists j'', lookup_pair d'' s a = Some j'' /\ gete (d_R d'') j'' = Fin r /\ getrow (d_Q d'') j'' = nth a (nth s Qt []) []) /\
  (forall s a j'' r, lookup_pair d'' s a = Some j'' -> gete (d_R d'') j'' = Fin r ->
     (s < n)%nat /\ (a < m)%nat /\ nth a (nth s Rt []) NegInf = Fin r /\ getrow (d_Q d'') j'' = nth a (nth s Qt []) []).
Proof.
  intros n m Rt Qt beta d d' d'' H1 H2 H3.
  split; [exact (roundtrip_feasible _ _ _ _ _ _ _ _ H1 H2 H3)|exact (roundtrip_feasible_only _ _ _ _ _ _ _ _ H1 H2 H3)].
Qed.
Print Assumptions C09_to_sa_to_product_roundtrip.

Example ex_roundtrip :
  exists d d' d'',
    mk_prod 2 2 [[Fin 5; Fin 10]; [Fin (-1); NegInf]] [[[1#2;1#2]; [0;1]]; [[0;1]; [1#2;1#2]]] (19#20) = COk d /\
    to_sa_pair_form d = COk d' /\ to_product_form d' = COk d'' /\ d_R d'' = d_R d /\ length (d_R d') = 3%nat.
Proof. eexists. eexists. eexists. vm_compute. repeat split. Qed.

(* ---- the hypotheses are satisfiable: Puterman's example with an extra -inf pair and a tie ---- *)
Definition ex_d : ddp Q :=
  mkDDP 2 [0;0;0;1;1]%nat [0;1;2;0;1]%nat [0;3;5]%nat
        [Fin 5; Fin 10; Fin 10; Fin (-1); NegInf]
        [[1#2;1#2]; [0;1]; [0;1]; [0;1]; [1;0]] (19#20) None.
Example ex_d_constructed :
  mk_sa 2 [1;0;0;1;0]%nat [1;2;0;0;1]%nat [NegInf; Fin 10; Fin 5; Fin (-1); Fin 10]
        [[1;0]; [0;1]; [1#2;1#2]; [0;1]; [0;1]] (19#20) = COk ex_d.
Proof. vm_compute. reflexivity. Qed.
Example ex_d_ok : ddp_ok ex_d.
Proof.
  constructor.
  - reflexivity.
  - intros s Hs. destruct s as [|[|s]]; cbn in *; lia.
  - intros s Hs. destruct s as [|[|s]]; [exists 0%nat, 5|exists 3%nat, (-1)|cbn in Hs; lia]; cbn; (split; [lia|reflexivity]).
Qed.
Example ex_d_kernel : kernel_nonneg ex_d.
Proof.
  constructor.
  - cbn. lra.
  - intros j Hj. do 5 (destruct j as [|j]; [reflexivity|]). cbn in Hj. lia.
  - intros j Hj. do 5 (destruct j as [|j]; [cbn; repeat constructor; lra|]). cbn in Hj. lia.
Qed.
Example ex_d_distinct : ddp_distinct ex_d.
Proof.
  intros s i j Hs Hi Hj. destruct s as [|[|s]]; cbn in *; [| |lia].
  - do 3 (destruct i as [|i]; [do 3 (destruct j as [|j]; [cbn; intro; (reflexivity || discriminate)|]); lia|]). lia.
  - do 3 (destruct i as [|i]; [lia|]). do 2 (destruct i as [|i]; [do 3 (destruct j as [|j]; [lia|]); do 2 (destruct j as [|j]; [cbn; intro; (reflexivity || discriminate)|]); lia|]). lia.
Qed.
Example ex_d_runs :
  bellman_operator ex_d [0;0] = [10; -1] /\ compute_greedy ex_d [0;0] = [1;0]%nat /\
  evaluate_policy ex_d [0;0]%nat = Some [-60#7; -20] /\
  RQ_sigma_fin ex_d [0;0]%nat = Some ([5; -1], [[1#2;1#2]; [0;1]]).
Proof. vm_compute. repeat split. Qed.

(* C09 property theorems: statements only, each closed by `exact`, with Print Assumptions. *)
From Coq Require Import ZArith QArith List Bool Arith.
From QE Require Import Base.Num Base.Cases C09.Solve C09.Model C09.Proofs C09.Findings.
Import ListNotations.

Theorem C09_generate_a_indptr_oob_refuted :
  exists n sidx, has_sorted_sa_indices sidx (seq 0 (length sidx)) = true /\
                 generate_a_indptr_old n sidx = ROob (length sidx).
Proof. exact generate_a_indptr_oob_refuted. Qed.
Print Assumptions C09_generate_a_indptr_oob_refuted.

(* C09 lemmas: re-export *)
From QE Require Export C09.Proofs1 C09.Proofs2 C09.Proofs3 C09.Proofs4 C09.Proofs4b C09.Proofs5 C09.Proofs6 C09.Proofs7.
From QE Require Export C09.Proofs8 C09.Proofs9a C09.Proofs9b C09.Proofs9c C09.Proofs9d.

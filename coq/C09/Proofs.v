(* C09 lemmas: re-export of Proofs1..8 *)
From QE Require Export C09.Proofs1 C09.Proofs2 C09.Proofs3 C09.Proofs4 C09.Proofs4b C09.Proofs5 C09.Proofs6 C09.Proofs7.
From QE Require Export C09.Proofs8.

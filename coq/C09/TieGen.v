(* C09: memory safety of markov/utilities.py::_generate_a_indptr proved directly about
   the definition REGENERATED from /repo's current source (Gen/Kernels.v, bounds-checked
   translation): for EVERY s_indices (sorted or not, any length, trailing/middle/leading
   states without pairs) and every out array of length num_states+1, no array read or
   store falls outside its array. (The pinned code's unbounded `while s_indices[idx] == s`
   fails this: see C09/Findings.v.) *)
From Coq Require Import ZArith List Bool Lia.
From QE Require Import Base.Num Gen.Kernels.
Import ListNotations.
Open Scope Z_scope.

Lemma upd_nth_length {A} : forall (l : list A) i v, length (upd_nth l i v) = length l.
Proof. induction l as [|x l IH]; intros [|i] v; cbn; auto. Qed.

Lemma gai_inner_safe (s_indices : list Z) (s : Z) : forall fuel idx,
  0 <= idx ->
  let '(idx', ok') := gen_generate_a_indptr_loop1 fuel idx true s_indices (Z.of_nat (length s_indices)) s in
  ok' = true /\ 0 <= idx'.
Proof.
  induction fuel as [|f IH]; intros idx Hidx; cbn [gen_generate_a_indptr_loop1].
  - split; [reflexivity|exact Hidx].
  - assert (G : (if idx <? Z.of_nat (length s_indices) then inb idx s_indices else true) = true).
    { destruct (Z.ltb_spec idx (Z.of_nat (length s_indices))); [unfold inb; lia|reflexivity]. }
    rewrite G. cbn [andb].
    destruct ((idx <? Z.of_nat (length s_indices)) && (nth (Z.to_nat idx) s_indices 0 =? s)).
    + apply IH. lia.
    + split; [reflexivity|exact Hidx].
Qed.

Lemma gai_outer_safe (s_indices : list Z) (n : Z) : forall fuel s idx out,
  0 <= idx -> 0 <= s -> s + Z.of_nat fuel <= Z.max (n - 1) s -> Z.of_nat (length out) = n + 1 ->
  let '(idx', out', ok') := gen_generate_a_indptr_loop0 fuel s idx out true s_indices (Z.of_nat (length s_indices)) in
  ok' = true /\ Z.of_nat (length out') = n + 1.
Proof.
  induction fuel as [|f IH]; intros s idx out Hidx Hs Hf Hlen; cbn [gen_generate_a_indptr_loop0].
  - split; [reflexivity|exact Hlen].
  - pose proof (gai_inner_safe s_indices s (S (length s_indices)) idx Hidx) as I.
    destruct (gen_generate_a_indptr_loop1 (S (length s_indices)) idx true s_indices (Z.of_nat (length s_indices)) s) as [idx' ok'].
    destruct I as (-> & Hidx').
    assert (G : inb (s + 1) out = true) by (unfold inb; lia).
    rewrite G. cbn [andb].
    apply IH; try lia. rewrite upd_nth_length. exact Hlen.
Qed.

Theorem gen_generate_a_indptr_safe : forall num_states s_indices out,
  0 <= num_states -> Z.of_nat (length out) = num_states + 1 ->
  snd (gen_generate_a_indptr num_states s_indices out) = true
  /\ length (fst (gen_generate_a_indptr num_states s_indices out)) = length out.
Proof.
  intros n s_indices out Hn Hlen. unfold gen_generate_a_indptr. cbv zeta.
  assert (G0 : inb 0 out = true) by (unfold inb; lia).
  rewrite G0. cbn [andb].
  pose proof (gai_outer_safe s_indices n (Z.to_nat (n - 1 - 0)) 0 0 (upd_nth out (Z.to_nat 0) 0)
                ltac:(lia) ltac:(lia) ltac:(lia)) as O.
  rewrite upd_nth_length in O. specialize (O Hlen).
  destruct (gen_generate_a_indptr_loop0 _ 0 0 _ true s_indices _) as [[idx' out'] ok'].
  destruct O as (-> & Hlen').
  assert (G1 : inb n out' = true) by (unfold inb; lia).
  rewrite G1. cbn [andb fst snd]. split; [reflexivity|].
  rewrite upd_nth_length. lia.
Qed.

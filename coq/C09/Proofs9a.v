From Coq Require Import ZArith QArith Qabs List Bool Arith Lia Lqa Sorted Permutation.
From QE Require Import Base.Num Base.Cases C09.Solve C09.Model C09.Proofs1 C09.Proofs2 C09.Proofs3 C09.Proofs4 C09.Proofs4b C09.Proofs5 C09.Proofs6 C09.Proofs7 C09.Proofs8.
Import ListNotations.

(* ---------- lexicographic order on (state, action) pairs ---------- *)
Definition lexlt (p q : nat * nat) : Prop := (fst p < fst q)%nat \/ (fst p = fst q /\ (snd p < snd q)%nat).
Lemma lexlt_trans p q r : lexlt p q -> lexlt q r -> lexlt p r.
Proof. unfold lexlt. intros [H1|[H1 H1']] [H2|[H2 H2']]; [left|left|left|right]; lia. Qed.
Lemma lexlt_irrefl p : ~ lexlt p p.
Proof. unfold lexlt. lia. Qed.

Lemma has_sorted_lex : forall s a, length a = length s ->
  has_sorted_sa_indices s a = true -> Sorted lexlt (combine s a).
Proof.
  induction s as [|s0 s IH]; intros a HL H; [constructor|].
  destruct a as [|a0 a]; [discriminate|]. destruct s as [|s1 s'].
  - cbn. constructor; constructor.
  - destruct a as [|a1 a']; [discriminate|]. cbn [has_sorted_sa_indices] in H.
    destruct (s1 <? s0)%nat eqn:E; [discriminate|]. apply Nat.ltb_ge in E.
    destruct ((s0 =? s1)%nat && (a1 <=? a0)%nat) eqn:E2; [discriminate|].
    cbn [combine]. constructor.
    + apply (IH (a1 :: a')); [cbn in *; lia|exact H].
    + constructor. unfold lexlt. cbn [fst snd]. apply andb_false_iff in E2. destruct E2 as [E2|E2].
      * apply Nat.eqb_neq in E2. left. lia.
      * apply Nat.leb_gt in E2. destruct (Nat.eq_dec s0 s1); [right; lia|left; lia].
Qed.

Definition tproj (t : nat * nat * nat) : nat * nat := (fst (fst t), snd (fst t)).
Lemma trip_ltb_lex p q : trip_ltb p q = true <-> lexlt (tproj p) (tproj q).
Proof.
  destruct p as [[s1 a1] i1], q as [[s2 a2] i2]. unfold trip_ltb, lexlt, tproj. cbn [fst snd].
  rewrite orb_true_iff, andb_true_iff, Nat.ltb_lt, Nat.eqb_eq, Nat.ltb_lt. tauto.
Qed.
Definition tle (p q : nat * nat * nat) : Prop := trip_ltb q p = false.
Lemma trip_insert_tle p : forall l, Sorted tle l -> Sorted tle (trip_insert p l).
Proof.
  induction l as [|q l IH]; intro H; cbn [trip_insert]; [repeat constructor|].
  destruct (trip_ltb p q) eqn:E.
  - constructor; [exact H|]. constructor. unfold tle.
    destruct (trip_ltb q p) eqn:E2; [|reflexivity]. apply trip_ltb_lex in E. apply trip_ltb_lex in E2.
    exfalso. apply (lexlt_irrefl (tproj p)). eapply lexlt_trans; eauto.
  - inversion H; subst. constructor; [apply IH; assumption|].
    destruct l as [|r l]; cbn [trip_insert]; [constructor; exact E|].
    destruct (trip_ltb p r); constructor; [exact E|]. inversion H3; assumption.
Qed.
Lemma trip_sort_tle l : Sorted tle (trip_sort l).
Proof. induction l as [|p l IH]; cbn [trip_sort fold_right]; [constructor|]. apply trip_insert_tle. exact IH. Qed.

Lemma tle_nodup_lex : forall l, Sorted tle l -> trip_has_dup l = false -> Sorted lexlt (map tproj l).
Proof.
  induction l as [|p l IH]; intros Hs Hd; [constructor|]. inversion Hs; subst. cbn [map].
  destruct l as [|q l'].
  - constructor; constructor.
  - cbn [trip_has_dup] in Hd. destruct p as [[s1 a1] i1], q as [[s2 a2] i2]. apply orb_false_iff in Hd. destruct Hd as [Hd1 Hd2].
    constructor; [apply IH; assumption|]. cbn [map]. constructor.
    inversion H2; subst. unfold tle, trip_ltb in H0. apply orb_false_iff in H0. destruct H0 as [A B].
    apply Nat.ltb_ge in A. unfold lexlt, tproj. cbn [fst snd].
    destruct (Nat.eq_dec s1 s2) as [->|Hne]; [|left; lia]. right. split; [reflexivity|].
    rewrite Nat.eqb_refl in B, Hd1. cbn [andb] in B, Hd1. apply Nat.ltb_ge in B. apply Nat.eqb_neq in Hd1. lia.
Qed.

(* ---------- lookup in lexicographically sorted pair arrays with CSR pointers ---------- *)
Section Lookup.
Variables (n : nat) (S' A' : list nat).
Hypothesis HL : length A' = length S'.
Hypothesis Hlex : StronglySorted lexlt (combine S' A').
Hypothesis Hlt : Forall (fun s => (s < n)%nat) S'.

Lemma combine_nth_pair k : (k < length S')%nat -> nth k (combine S' A') (0,0)%nat = (nth k S' 0, nth k A' 0)%nat.
Proof. intro Hk. apply combine_nth. symmetry. exact HL. Qed.

Lemma lex_nth k k' : (k < k')%nat -> (k' < length S')%nat ->
  lexlt (nth k S' 0, nth k A' 0)%nat (nth k' S' 0, nth k' A' 0)%nat.
Proof.
  intros Hkk Hk'. rewrite <- !combine_nth_pair by lia.
  assert (G : forall (l : list (nat * nat)), StronglySorted lexlt l -> forall i j, (i < j)%nat -> (j < length l)%nat ->
              lexlt (nth i l (0,0)%nat) (nth j l (0,0)%nat)).
  { induction 1 as [|x l Hs IH Hx]; intros i j Hij Hj; [cbn in Hj; lia|].
    destruct j as [|j]; [lia|]. destruct i as [|i].
    - cbn [nth]. rewrite Forall_forall in Hx. apply Hx. apply nth_In. cbn in Hj. lia.
    - cbn [nth]. apply IH; cbn in Hj; lia. }
  apply G; [exact Hlex|exact Hkk|]. rewrite combine_length, HL, Nat.min_id. exact Hk'.
Qed.

Lemma S'_sorted : StronglySorted le S'.
Proof.
  apply Sorted_StronglySorted; [intros x y z; lia|].
  assert (G : forall s a, length a = length s -> Sorted lexlt (combine s a) -> Sorted le s).
  { induction s as [|s0 s IH]; intros a Hl Hs; [constructor|]. destruct a as [|a0 a]; [discriminate|].
    cbn [combine] in Hs. inversion Hs; subst. constructor; [apply (IH a); [cbn in Hl; lia|assumption]|].
    destruct s as [|s1 s']; [constructor|]. destruct a as [|a1 a']; [discriminate|]. cbn [combine] in H2.
    inversion H2; subst. constructor. unfold lexlt in H0. cbn [fst snd] in H0. lia. }
  apply (G S' A' HL). apply StronglySorted_Sorted. exact Hlex.
Qed.

Lemma seg_iff k s : (k < length S')%nat ->
  ((count_lt S' s <= k < count_lt S' (S s))%nat <-> nth k S' 0%nat = s).
Proof.
  intro Hk. pose proof (nth_error_nth' S' 0%nat Hk) as N.
  pose proof (count_lt_sorted_nth S' s S'_sorted k _ N) as B1.
  pose proof (count_lt_sorted_nth S' (S s) S'_sorted k _ N) as B2.
  split.
  - intros [H1 H2]. assert (~ (nth k S' 0 < s)%nat) by (intro X; apply B1 in X; lia).
    assert (nth k S' 0 < S s)%nat by (apply B2; exact H2). lia.
  - intro E. rewrite E in *. split.
    + destruct (le_lt_dec (count_lt S' s) k); [assumption|]. apply B1 in l. lia.
    + apply B2. lia.
Qed.

Definition lookupA (s a : nat) : option nat :=
  find_last A' a (count_lt S' s) (count_lt S' (S s) - count_lt S' s) None.

(* every stored pair is found at its own position ... *)
Lemma lookupA_self k : (k < length S')%nat -> lookupA (nth k S' 0%nat) (nth k A' 0%nat) = Some k.
Proof.
  intro Hk. unfold lookupA. set (s := nth k S' 0%nat). set (a := nth k A' 0%nat).
  pose proof (proj2 (seg_iff k s Hk) eq_refl) as Hseg.
  destruct (find_last_complete A' a (count_lt S' (S s) - count_lt S' s) (count_lt S' s) None) as [r Er].
  { right. exists k. split; [lia|reflexivity]. }
  rewrite Er. f_equal. apply find_last_spec in Er. destruct Er as [Er|[Hr Ha]]; [discriminate|].
  pose proof (count_lt_le_length S' (S s)) as Hle.
  assert (Hr' : (r < length S')%nat) by lia.
  assert (Es : nth r S' 0%nat = s) by (apply (seg_iff r s Hr'); lia).
  destruct (lt_eq_lt_dec r k) as [[H|H]|H]; [|exact H|]; exfalso.
  - pose proof (lex_nth r k H Hk) as X. fold s a in X. unfold getn in Ha. rewrite Es, Ha in X. apply (lexlt_irrefl _ X).
  - pose proof (lex_nth k r H Hr') as X. fold s a in X. unfold getn in Ha. rewrite Es, Ha in X. apply (lexlt_irrefl _ X).
Qed.
(* ... and whatever is found is a stored pair of that state and action *)
Lemma lookupA_some s a r : lookupA s a = Some r ->
  (r < length S')%nat /\ nth r S' 0%nat = s /\ nth r A' 0%nat = a.
Proof.
  unfold lookupA. intro H. apply find_last_spec in H. destruct H as [H|[Hr Ha]]; [discriminate|].
  pose proof (count_lt_le_length S' (S s)) as Hle.
  assert (Hr' : (r < length S')%nat) by lia.
  split; [exact Hr'|]. split; [apply (seg_iff r s Hr'); lia|exact Ha].
Qed.
End Lookup.

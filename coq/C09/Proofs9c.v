From Coq Require Import ZArith QArith Qabs List Bool Arith Lia Lqa Sorted Permutation.
From QE Require Import Base.Num Base.Cases C09.Solve C09.Model C09.Proofs1 C09.Proofs2 C09.Proofs3 C09.Proofs4 C09.Proofs4b C09.Proofs5 C09.Proofs6 C09.Proofs7 C09.Proofs8.
From QE Require Import C09.Proofs9a C09.Proofs9b.
Import ListNotations.

(* ---------- product layout ---------- *)
Lemma concat_nth {A} (d : A) m : forall (rows : list (list A)) s a,
  Forall (fun r => length r = m) rows -> (s < length rows)%nat -> (a < m)%nat ->
  nth (s * m + a) (concat rows) d = nth a (nth s rows []) d.
Proof.
  induction rows as [|r rows IH]; intros s a HF Hs Ha; [cbn in Hs; lia|].
  inversion HF; subst. cbn [concat]. destruct s as [|s].
  - cbn [Nat.mul Nat.add nth]. apply app_nth1. lia.
  - cbn [nth]. rewrite app_nth2 by (cbn; lia). replace (S s * length r + a - length r)%nat with (s * length r + a)%nat by (cbn; lia).
    apply IH; [assumption|cbn in Hs; lia|exact Ha].
Qed.
Lemma forallb_Forall_len {A} m (l : list (list A)) : forallb (fun r => (length r =? m)%nat) l = true -> Forall (fun r => length r = m) l.
Proof. intro H. apply Forall_forall. intros r Hr. rewrite forallb_forall in H. apply Nat.eqb_eq. apply H. exact Hr. Qed.
Lemma In_le_list_max x l : In x l -> (x <= list_max l)%nat.
Proof. intro H. pose proof (proj1 (list_max_le l (list_max l)) (Nat.le_refl _)) as F. rewrite Forall_forall in F. apply F. exact H. Qed.

Lemma nth_repeat_lt {A} (x d : A) : forall m a, (a < m)%nat -> nth a (repeat x m) d = x.
Proof. induction m as [|m IH]; intros a Ha; [lia|]. destruct a; cbn; [reflexivity|apply IH; lia]. Qed.

Section Prod.
Variables (n m : nat) (Rt : list (list (ext Q))) (Qt : list (list (list Q))) (beta : Q) (d : ddp Q).
Hypothesis Hmk : mk_prod n m Rt Qt beta = COk d.

Lemma mk_prod_shape :
  length Rt = n /\ length Qt = n /\ Forall (fun r => length r = m) Rt /\ Forall (fun q => length q = m) Qt /\
  d = mkDDP n (flat_map (fun s => repeat s m) (seq 0 n)) (flat_map (fun _ => seq 0 m) (seq 0 n))
            (map (fun i => (i * m)%nat) (seq 0 (S n))) (concat Rt) (concat Qt) beta (Some m).
Proof.
  unfold mk_prod in Hmk.
  destruct ((length Rt =? n)%nat && (length Qt =? n)%nat && forallb (fun r => (length r =? m)%nat) Rt &&
            forallb (fun q => (length q =? m)%nat && forallb (fun row => (length row =? n)%nat) q) Qt) eqn:Hsh;
    cbn [negb] in Hmk; [|discriminate].
  rewrite !andb_true_iff in Hsh. destruct Hsh as (((L1 & L2) & L3) & L4).
  apply Nat.eqb_eq in L1. apply Nat.eqb_eq in L2.
  split; [exact L1|]. split; [exact L2|]. split; [apply forallb_Forall_len; exact L3|]. split.
  - apply Forall_forall. intros q Hq. rewrite forallb_forall in L4. specialize (L4 q Hq). apply andb_prop in L4. apply Nat.eqb_eq. tauto.
  - apply finish_ctor_ok_eq in Hmk. exact Hmk.
Qed.

Lemma prod_entries s a : (s < n)%nat -> (a < m)%nat ->
  getn (d_sidx d) (s * m + a) = s /\ getn (d_aidx d) (s * m + a) = a /\
  gete (d_R d) (s * m + a) = nth a (nth s Rt []) NegInf /\
  getrow (d_Q d) (s * m + a) = nth a (nth s Qt []) [] /\
  getn (d_indptr d) s = (s * m)%nat /\ getn (d_indptr d) (S s) = (s * m + m)%nat.
Proof.
  intros Hs Ha. destruct mk_prod_shape as (L1 & L2 & F1 & F2 & ->). cbn [d_sidx d_aidx d_R d_Q d_indptr].
  unfold getn, gete, getrow. rewrite !flat_map_concat_map.
  assert (FS : Forall (fun r : list nat => length r = m) (map (fun s0 : nat => repeat s0 m) (seq 0 n))).
  { apply Forall_forall. intros r Hr. apply in_map_iff in Hr. destruct Hr as (x & <- & _). apply repeat_length. }
  assert (FA : Forall (fun r : list nat => length r = m) (map (fun _ : nat => seq 0 m) (seq 0 n))).
  { apply Forall_forall. intros r Hr. apply in_map_iff in Hr. destruct Hr as (x & <- & _). apply seq_length. }
  split; [|split; [|split; [|split; [|split]]]].
  - rewrite (concat_nth 0%nat m _ s a FS) by (try rewrite map_length, seq_length; lia).
    rewrite (nth_map_in (fun s0 : nat => repeat s0 m) (seq 0 n) s 0%nat []) by (rewrite seq_length; lia).
    rewrite seq_nth by lia. apply nth_repeat_lt. exact Ha.
  - rewrite (concat_nth 0%nat m _ s a FA) by (try rewrite map_length, seq_length; lia).
    rewrite (nth_map_in (fun _ : nat => seq 0 m) (seq 0 n) s 0%nat []) by (rewrite seq_length; lia).
    rewrite seq_nth by lia. reflexivity.
  - apply (concat_nth NegInf m); [assumption|lia|lia].
  - apply (concat_nth [] m); [assumption|lia|lia].
  - rewrite (nth_map_in (fun i : nat => (i * m)%nat) (seq 0 (S n)) s 0%nat 0%nat) by (rewrite seq_length; lia). rewrite seq_nth by lia. reflexivity.
  - rewrite (nth_map_in (fun i : nat => (i * m)%nat) (seq 0 (S n)) (S s) 0%nat 0%nat) by (rewrite seq_length; lia). rewrite seq_nth by lia. cbn. lia.
Qed.

Lemma prod_lookup s a : (s < n)%nat -> (a < m)%nat -> lookup_pair d s a = Some (s * m + a)%nat.
Proof.
  intros Hs Ha. unfold lookup_pair. destruct (prod_entries s a Hs Ha) as (_ & EA & _ & _ & P1 & P2). rewrite P1, P2.
  replace (s * m + m - s * m)%nat with m by lia.
  destruct (find_last_complete (d_aidx d) a m (s * m) None) as [r Er].
  { right. exists (s * m + a)%nat. split; [lia|exact EA]. }
  rewrite Er. f_equal. apply find_last_spec in Er. destruct Er as [Er|[Hr Hra]]; [discriminate|].
  destruct (prod_entries s (r - s * m) Hs ltac:(lia)) as (_ & EA' & _).
  replace (s * m + (r - s * m))%nat with r in EA' by lia. lia.
Qed.
Lemma prod_lookup_inv s a j : lookup_pair d s a = Some j -> (s < n)%nat /\ (a < m)%nat /\ j = (s * m + a)%nat.
Proof.
  intro H. destruct mk_prod_shape as (L1 & L2 & F1 & F2 & Ed).
  assert (Hs : (s < n)%nat).
  { destruct (le_lt_dec n s) as [Hge|]; [|assumption]. exfalso. unfold lookup_pair in H. rewrite Ed in H. cbn [d_indptr d_aidx] in H.
    assert (E : getn (map (fun i => (i * m)%nat) (seq 0 (S n))) (S s) = 0%nat) by (unfold getn; apply nth_overflow; rewrite map_length, seq_length; lia).
    rewrite E in H. cbn in H. discriminate. }
  split; [exact Hs|]. unfold lookup_pair in H. destruct (Nat.eq_dec m 0) as [->|Hm0].
  { destruct (le_lt_dec n s); [lia|]. rewrite Ed in H. cbn [d_indptr d_aidx] in H. unfold getn in H.
    rewrite !(nth_map_in _ _ _ 0%nat) in H by (rewrite seq_length; lia). rewrite !seq_nth in H by lia. rewrite !Nat.mul_0_r in H. cbn in H. discriminate. }
  destruct (prod_entries s 0 Hs ltac:(lia)) as (_ & _ & _ & _ & P1 & P2). rewrite P1, P2 in H.
  replace (s * m + m - s * m)%nat with m in H by lia.
  apply find_last_spec in H. destruct H as [H|[Hr Hra]]; [discriminate|].
  destruct (prod_entries s (j - s * m) Hs ltac:(lia)) as (_ & EA' & _).
  replace (s * m + (j - s * m))%nat with j in EA' by lia. split; lia.
Qed.
End Prod.

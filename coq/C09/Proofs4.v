From Coq Require Import ZArith QArith Qabs List Bool Arith Lia Lqa.
From QE Require Import Base.Num Base.Cases C09.Solve C09.Model.
From QE Require Import C09.Proofs1 C09.Proofs2 C09.Proofs3.
Import ListNotations.

(* ---------- the constructor's feasibility test ---------- *)
Lemma forallb_map_seq {A} (p : A -> bool) (f : nat -> A) n :
  forallb p (map f (seq 0 n)) = true <-> forall s, (s < n)%nat -> p (f s) = true.
Proof.
  rewrite forallb_forall. split.
  - intros H s Hs. apply H. apply in_map. apply in_seq. lia.
  - intros H x Hx. apply in_map_iff in Hx. destruct Hx as (s & <- & Hs). apply in_seq in Hs. apply H. lia.
Qed.

(* _check_action_feasibility passes iff every state has a (non-empty) segment of pairs, one of
   which has a finite reward; i.e. ValueError iff some state has no pair or only -inf rewards *)
Theorem feasible_check_iff aidx indptr (R : list (ext Q)) n :
  (forall s, (s < n)%nat -> (getn indptr s <= getn indptr (S s))%nat) ->
  (feasible_check aidx indptr R n = true <->
   forall s, (s < n)%nat ->
     (getn indptr s < getn indptr (S s))%nat /\
     exists j x, (getn indptr s <= j < getn indptr (S s))%nat /\ gete R j = Fin x).
Proof.
  intro Hmono. unfold feasible_check, s_wise_max, s_wise_max_argmax. rewrite map_map.
  rewrite forallb_map_seq. split.
  - intros H s Hs. specialize (H s Hs). cbv zeta in H.
    destruct (getn indptr s =? getn indptr (S s))%nat eqn:E; [discriminate|].
    apply Nat.eqb_neq in E. specialize (Hmono s Hs). assert (Hlt : (getn indptr s < getn indptr (S s))%nat) by lia.
    split; [exact Hlt|]. cbn [option_map fst] in H.
    destruct (@seg_argmax_spec Q NumQ Qltb_irrefl Qltb_trans Qltb_negtrans R _ _ Hlt) as (Hr & _ & _).
    destruct (gete R (seg_argmax R (getn indptr s) (getn indptr (S s)))) as [|x] eqn:G; [discriminate|].
    eexists _, x. split; [exact Hr|exact G].
  - intros H s Hs. destruct (H s Hs) as (Hlt & j & x & Hj & Rj). cbv zeta.
    destruct (getn indptr s =? getn indptr (S s))%nat eqn:E; [apply Nat.eqb_eq in E; lia|].
    cbn [option_map fst].
    destruct (@seg_argmax_spec Q NumQ Qltb_irrefl Qltb_trans Qltb_negtrans R _ _ Hlt) as (_ & Hmax & _).
    specialize (Hmax j Hj). apply egtQ_false in Hmax. rewrite Rj in Hmax.
    destruct (gete R (seg_argmax R (getn indptr s) (getn indptr (S s)))); [contradiction|reflexivity].
Qed.

Theorem finish_ctor_cases n sidx aidx indptr (R : list (ext Q)) Qm beta prod :
  (finish_ctor n sidx aidx indptr R Qm beta prod = CValueError <->
     feasible_check aidx indptr R n = false \/ beta_ok beta = false) /\
  (forall d, finish_ctor n sidx aidx indptr R Qm beta prod = COk d ->
     d = mkDDP n sidx aidx indptr R Qm beta prod /\ feasible_check aidx indptr R n = true /\ beta_ok beta = true) /\
  (forall i, finish_ctor n sidx aidx indptr R Qm beta prod <> CIndexError i).
Proof.
  unfold finish_ctor. destruct (feasible_check aidx indptr R n), (beta_ok beta); cbn [negb];
    repeat split; try tauto; try congruence; try (intros [?|?]; congruence); try (intros ? H; inversion H; auto).
Qed.

Lemma beta_ok_iff (beta : Q) : beta_ok beta = true <-> 0 <= beta <= 1.
Proof.
  unfold beta_ok. cbn [nleb NumQ nzero none_]. rewrite andb_true_iff, !Qle_bool_iff. tauto.
Qed.

(* a constructed ddp is well-formed and feasible, given the pointer array is monotone and within R *)
Theorem finish_ctor_ok n sidx aidx indptr (R : list (ext Q)) Qm beta prod d :
  length R = length Qm ->
  (forall s, (s < n)%nat -> (getn indptr s <= getn indptr (S s) <= length R)%nat) ->
  finish_ctor n sidx aidx indptr R Qm beta prod = COk d -> ddp_ok d /\ 0 <= d_beta d <= 1.
Proof.
  intros HL Hmono H. destruct (finish_ctor_cases n sidx aidx indptr R Qm beta prod) as (_ & Hok & _).
  destruct (Hok d H) as (-> & Hf & Hb). split; [|apply beta_ok_iff; exact Hb].
  assert (Hm' : forall s, (s < n)%nat -> (getn indptr s <= getn indptr (S s))%nat) by (intros s Hs; specialize (Hmono s Hs); lia).
  pose proof (proj1 (feasible_check_iff aidx indptr R n Hm') Hf) as Hf'. clear Hf. rename Hf' into Hf.
  constructor; cbn [d_R d_Q d_n d_indptr]; unfold seg_lo, seg_hi; cbn [d_indptr].
  - exact HL.
  - intros s Hs. destruct (Hf s Hs) as [Hlt _]. specialize (Hmono s Hs). lia.
  - intros s Hs. destruct (Hf s Hs) as [_ He]. exact He.
Qed.

From Coq Require Import ZArith QArith Qabs List Bool Arith Lia Lqa Sorted.
From QE Require Import Base.Num Base.Cases C09.Solve C09.Model.
From QE Require Import C09.Proofs1 C09.Proofs2 C09.Proofs3 C09.Proofs4 C09.Proofs4b.
Import ListNotations.

(* ---------- the pointer scan computes the CSR row pointers of sorted s_indices ---------- *)
Lemma count_lt_cons a l s : count_lt (a :: l) s = ((if (a <? s)%nat then 1 else 0) + count_lt l s)%nat.
Proof. unfold count_lt. cbn [filter]. destruct (a <? s)%nat; reflexivity. Qed.
Lemma count_lt_le_length l s : (count_lt l s <= length l)%nat.
Proof. induction l as [|a l IH]; [cbn; lia|]. rewrite count_lt_cons. cbn [length]. destruct (a <? s)%nat; lia. Qed.
Lemma count_lt_mono l s : (count_lt l s <= count_lt l (S s))%nat.
Proof.
  induction l as [|a l IH]; [cbn; lia|]. rewrite !count_lt_cons.
  destruct (a <? s)%nat eqn:E1, (a <? S s)%nat eqn:E2; try lia.
  apply Nat.ltb_lt in E1. apply Nat.ltb_ge in E2. lia.
Qed.
Lemma count_lt_0 l : count_lt l 0 = 0%nat.
Proof. induction l as [|a l IH]; [reflexivity|]. rewrite count_lt_cons, IH. reflexivity. Qed.
Lemma count_lt_all l n : Forall (fun s => (s < n)%nat) l -> count_lt l n = length l.
Proof.
  induction 1 as [|a l Ha _ IH]; [reflexivity|]. rewrite count_lt_cons, IH.
  replace (a <? n)%nat with true by (symmetry; apply Nat.ltb_lt; exact Ha). reflexivity.
Qed.
Lemma count_lt_notin l s : ~ In s l -> count_lt l (S s) = count_lt l s.
Proof.
  induction l as [|a l IH]; intro H; [reflexivity|]. rewrite !count_lt_cons, IH by (intro; apply H; right; assumption).
  assert (a <> s) by (intro; apply H; left; assumption).
  destruct (a <? S s)%nat eqn:E1, (a <? s)%nat eqn:E2; try reflexivity.
  - apply Nat.ltb_lt in E1. apply Nat.ltb_ge in E2. lia.
  - apply Nat.ltb_ge in E1. apply Nat.ltb_lt in E2. lia.
Qed.

Lemma count_lt_sorted_nth l s : StronglySorted le l ->
  forall i x, nth_error l i = Some x -> ((i < count_lt l s)%nat <-> (x < s)%nat).
Proof.
  induction 1 as [|a l Hs IH Ha]; intros i x Hn; [destruct i; discriminate|].
  rewrite count_lt_cons. destruct (a <? s)%nat eqn:E.
  - apply Nat.ltb_lt in E. destruct i as [|i]; cbn in Hn.
    + inversion Hn; subst. split; intro; lia.
    + specialize (IH i x Hn). split; intro; [apply IH; lia|]. apply IH in H. lia.
  - apply Nat.ltb_ge in E.
    assert (Z : count_lt l s = 0%nat).
    { clear IH Hn. induction l as [|b l IHl]; [reflexivity|]. inversion Ha; subst. inversion Hs; subst.
      rewrite count_lt_cons, IHl by assumption. replace (b <? s)%nat with false by (symmetry; apply Nat.ltb_ge; lia). reflexivity. }
    rewrite Z. cbn [Nat.add]. split; [lia|]. intro Hx. exfalso. destruct i as [|i]; cbn in Hn.
    + inversion Hn; subst. lia.
    + apply nth_error_In in Hn. rewrite Forall_forall in Ha. specialize (Ha x Hn). lia.
Qed.

Lemma gai_while_sorted sidx s : StronglySorted le sidx -> forall fuel idx,
  (count_lt sidx s <= idx <= count_lt sidx (S s))%nat -> (length sidx - idx < fuel)%nat ->
  gai_while fuel sidx (length sidx) s idx = RVal (count_lt sidx (S s)).
Proof.
  intro Hs. induction fuel as [|f IH]; intros idx Hr Hf; [lia|]. cbn [gai_while].
  pose proof (count_lt_le_length sidx (S s)) as HL.
  destruct (idx <? length sidx)%nat eqn:E.
  - apply Nat.ltb_lt in E. destruct (nth_error sidx idx) as [x|] eqn:N; [|apply nth_error_None in N; lia].
    pose proof (count_lt_sorted_nth sidx s Hs idx x N) as B1.
    pose proof (count_lt_sorted_nth sidx (S s) Hs idx x N) as B2.
    destruct (x =? s)%nat eqn:Ex.
    + apply Nat.eqb_eq in Ex. apply IH; [|lia]. assert (idx < count_lt sidx (S s))%nat by (apply B2; lia). lia.
    + apply Nat.eqb_neq in Ex. f_equal.
      assert (~ (x < s)%nat) by (intro Hx; apply B1 in Hx; lia).
      assert (~ (idx < count_lt sidx (S s))%nat) by (intro Hx; apply B2 in Hx; lia). lia.
  - apply Nat.ltb_ge in E. f_equal. lia.
Qed.

Lemma gai_for_sorted sidx : StronglySorted le sidx -> forall cnt k,
  gai_for sidx (length sidx) (seq k cnt) (count_lt sidx k) =
  RVal (map (fun s => count_lt sidx (S s)) (seq k cnt)).
Proof.
  intro Hs. induction cnt as [|c IH]; intro k; cbn [seq gai_for map]; [reflexivity|].
  rewrite (gai_while_sorted sidx k Hs) by (pose proof (count_lt_mono sidx k); lia).
  rewrite IH. reflexivity.
Qed.

Theorem generate_a_indptr_sorted n sidx :
  StronglySorted le sidx -> Forall (fun s => (s < n)%nat) sidx ->
  generate_a_indptr n sidx = RVal (csr_indptr n sidx).
Proof.
  intros Hs Hall. unfold generate_a_indptr, csr_indptr. destruct n as [|n'].
  - destruct sidx as [|a l]; [reflexivity|]. inversion Hall; lia.
  - pose proof (gai_for_sorted sidx Hs n' 0%nat) as G. rewrite count_lt_0 in G. rewrite G. f_equal.
    change (map (count_lt sidx) (seq 0 (S (S n')))) with (count_lt sidx 0 :: map (count_lt sidx) (seq 1 (S n'))).
    rewrite count_lt_0. f_equal.
    rewrite <- seq_shift, map_map. rewrite seq_S, map_app. cbn [map Nat.add]. f_equal. f_equal.
    symmetry. apply count_lt_all. exact Hall.
Qed.

Lemma has_sorted_strongly : forall s a, length a = length s ->
  has_sorted_sa_indices s a = true -> StronglySorted le s.
Proof.
  intros s a HL H. apply Sorted_StronglySorted; [intros x y z; lia|].
  revert a HL H. induction s as [|s0 s IH]; intros a HL H; [constructor|].
  destruct a as [|a0 a]; [discriminate|]. destruct s as [|s1 s'].
  - constructor; constructor.
  - destruct a as [|a1 a']; [discriminate|]. cbn [has_sorted_sa_indices] in H.
    destruct (s1 <? s0)%nat eqn:E; [discriminate|]. apply Nat.ltb_ge in E.
    destruct ((s0 =? s1)%nat && (a1 <=? a0)%nat); [discriminate|].
    constructor; [|constructor; exact E]. apply (IH (a1 :: a')); [cbn in *; lia|exact H].
Qed.

(* ---------- constructor: a state without any pair => ValueError (sorted or unsorted input) ---------- *)
Lemma feasible_check_nonempty {T} {NT : Num T} aidx indptr (R : list (ext T)) n :
  feasible_check aidx indptr R n = true -> forall s, (s < n)%nat -> getn indptr s <> getn indptr (S s).
Proof.
  unfold feasible_check, s_wise_max, s_wise_max_argmax. rewrite map_map, forallb_map_seq.
  intros H s Hs E. specialize (H s Hs). cbv zeta in H. rewrite E, Nat.eqb_refl in H. discriminate.
Qed.

Lemma csr_indptr_get n sidx s : (s <= n)%nat -> getn (csr_indptr n sidx) s = count_lt sidx s.
Proof. intro H. unfold getn, csr_indptr. apply nth_map_seq. lia. Qed.

Theorem mk_sa_rejects_missing_state {T} {NT : Num T} n sidx aidx (R : list (ext T)) Qm beta :
  shapes_ok n sidx aidx R Qm = true ->
  has_sorted_sa_indices sidx aidx = true \/ trip_has_dup (trip_sort (zip3 sidx aidx 0)) = false ->
  (exists s, (s < n)%nat /\ ~ In s sidx) ->
  mk_sa n sidx aidx R Qm beta = CValueError.
Proof.
  intros Hsh Hdup (s & Hs & Hnot). unfold mk_sa, mk_sa_gen. rewrite Hsh. cbn [negb].
  assert (Hshape := Hsh). unfold shapes_ok in Hshape. rewrite !andb_true_iff in Hshape.
  destruct Hshape as ((((L1 & L2) & L3) & _) & Hlt). apply Nat.eqb_eq in L1.
  assert (Hall : Forall (fun s => (s < n)%nat) sidx).
  { apply Forall_forall. intros x Hx. rewrite forallb_forall in Hlt. apply Nat.ltb_lt. apply Hlt. exact Hx. }
  assert (Hfin : forall sidx' aidx' R' Q' prod,
            finish_ctor n sidx' aidx' (csr_indptr n sidx) R' Q' beta prod = CValueError).
  { intros. unfold finish_ctor. destruct (feasible_check aidx' (csr_indptr n sidx) R' n) eqn:F; [|reflexivity].
    exfalso. apply (feasible_check_nonempty _ _ _ _ F s Hs).
    rewrite !csr_indptr_get by lia. symmetry. apply count_lt_notin. exact Hnot. }
  destruct (has_sorted_sa_indices sidx aidx) eqn:Hso.
  - rewrite (generate_a_indptr_sorted n sidx (has_sorted_strongly _ _ L1 Hso) Hall). apply Hfin.
  - destruct Hdup as [Hd|Hd]; [discriminate|]. rewrite Hd.
    destruct (fill_sidx_safe (csr_indptr n sidx) (seq 0 n)) as [r ->].
    + intros j Hj. apply in_seq in Hj. unfold csr_indptr. rewrite map_length, seq_length. lia.
    + apply Hfin.
Qed.

(* ---------- statement-level packaging used by Props.v ---------- *)
Lemma bounded_forall_or_exists (n : nat) (p : nat -> bool) :
  (forall s, (s < n)%nat -> p s = true) \/ (exists s, (s < n)%nat /\ p s = false).
Proof.
  induction n as [|n IH]; [left; intros s Hs; lia|].
  destruct IH as [IH|(s & Hs & Hp)]; [|right; exists s; split; [lia|exact Hp]].
  destruct (p n) eqn:E; [|right; exists n; split; [lia|exact E]].
  left. intros s Hs. destruct (Nat.eq_dec s n) as [->|Hne]; [exact E|apply IH; lia].
Qed.

Theorem RQ_sigma_rows_full :
  forall (d : ddp Q) sigma Rs Qs,
  RQ_sigma d sigma = Some (Rs, Qs) ->
  exists idx, sigma_indices d sigma = Some idx /\ Rs = map (gete (d_R d)) idx /\ Qs = map (getrow (d_Q d)) idx /\
              controlled_mc d sigma = Some Qs /\
              length idx = d_n d /\ length sigma = d_n d /\
              forall s, (s < d_n d)%nat ->
                (getn (d_indptr d) s <= getn idx s < getn (d_indptr d) (S s))%nat /\
                getn (d_aidx d) (getn idx s) = getn sigma s.
Proof.
  intros d sigma Rs Qs H. destruct (RQ_sigma_rows d sigma Rs Qs H) as (idx & E & ER & EQ & EC).
  destruct (sigma_indices_spec d sigma idx E) as (L1 & L2 & Hs).
  exists idx. split; [exact E|]. split; [exact ER|]. split; [exact EQ|]. split; [exact EC|]. split; [exact L1|]. split; [exact L2|exact Hs].
Qed.

Theorem constructor_rejects_partial :
  forall n sidx aidx indptr (R : list (ext Q)) Qm beta prod,
  (forall s, (s < n)%nat -> (getn indptr s <= getn indptr (S s))%nat) ->
  (finish_ctor n sidx aidx indptr R Qm beta prod = CValueError <->
     (exists s, (s < n)%nat /\
        (getn indptr s = getn indptr (S s) \/
         forall j, (getn indptr s <= j < getn indptr (S s))%nat -> gete R j = NegInf))
     \/ ~ (0 <= beta <= 1)).
Proof.
  intros n sidx aidx indptr R Qm beta prod Hmono.
  destruct (finish_ctor_cases n sidx aidx indptr R Qm beta prod) as (H1 & _ & _). rewrite H1. clear H1.
  pose proof (feasible_check_iff aidx indptr R n Hmono) as F. pose proof (beta_ok_iff beta) as B.
  split.
  - intros [Hf|Hb].
    + destruct (bounded_forall_or_exists n (fun s =>
        (getn indptr s <? getn indptr (S s))%nat &&
        existsb (fun j => match gete R j with Fin _ => true | NegInf => false end)
                (seq (getn indptr s) (getn indptr (S s) - getn indptr s)))) as [Hall|(s & Hs & Hbad)].
      * exfalso. assert (feasible_check aidx indptr R n = true); [|congruence]. apply F. intros s Hs.
        specialize (Hall s Hs). apply andb_prop in Hall. destruct Hall as [A1 A2]. apply Nat.ltb_lt in A1.
        split; [exact A1|]. apply existsb_exists in A2. destruct A2 as (j & Hj & Hfin). apply in_seq in Hj.
        destruct (gete R j) as [|x] eqn:G; [discriminate|]. exists j, x. split; [lia|exact G].
      * left. exists s. split; [exact Hs|]. apply andb_false_iff in Hbad. destruct Hbad as [A1|A2].
        -- apply Nat.ltb_ge in A1. specialize (Hmono s Hs). left. lia.
        -- right. intros j Hj. destruct (gete R j) as [|x] eqn:G; [reflexivity|]. exfalso.
           assert (existsb (fun j => match gete R j with Fin _ => true | NegInf => false end)
                     (seq (getn indptr s) (getn indptr (S s) - getn indptr s)) = true); [|congruence].
           apply existsb_exists. exists j. split; [apply in_seq; lia|rewrite G; reflexivity].
    + right. intro Hb'. apply B in Hb'. congruence.
  - intros [(s & Hs & Hbad)|Hb].
    + left. destruct (feasible_check aidx indptr R n) eqn:E; [|reflexivity]. exfalso.
      destruct (proj1 F eq_refl s Hs) as (Hlt & j & x & Hj & G). destruct Hbad as [Hb|Hb]; [lia|].
      rewrite (Hb j Hj) in G. discriminate.
    + right. destruct (beta_ok beta) eqn:E; [|reflexivity]. exfalso. apply Hb. apply B. reflexivity.
Qed.

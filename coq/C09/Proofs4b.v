From Coq Require Import ZArith QArith Qabs List Bool Arith Lia Lqa.
From QE Require Import Base.Num Base.Cases C09.Solve C09.Model.
From QE Require Import C09.Proofs1 C09.Proofs2 C09.Proofs3 C09.Proofs4.
Import ListNotations.

Lemma fill_sidx_safe indptr : forall is, (forall i, In i is -> (S i < length indptr)%nat) ->
  exists r, fill_sidx indptr is = RVal r.
Proof.
  induction is as [|i is IH]; intro H; cbn [fill_sidx]; [eexists; reflexivity|].
  assert (Hi : (S i < length indptr)%nat) by (apply H; left; reflexivity).
  destruct (nth_error indptr i) as [lo|] eqn:E1; [|apply nth_error_None in E1; lia].
  destruct (nth_error indptr (S i)) as [hi|] eqn:E2; [|apply nth_error_None in E2; lia].
  destruct IH as [r Er]; [intros j Hj; apply H; right; exact Hj|]. rewrite Er. eexists; reflexivity.
Qed.

(* the (repaired) constructor never indexes an array out of bounds, whatever the input:
   sorted or unsorted pairs, empty first / middle / trailing states, any rewards *)
Theorem mk_sa_no_index_error {T} {NT : Num T} n sidx aidx (R : list (ext T)) Qm beta i :
  mk_sa n sidx aidx R Qm beta <> CIndexError i.
Proof.
  unfold mk_sa, mk_sa_gen. destruct (negb (shapes_ok n sidx aidx R Qm)); [discriminate|].
  destruct (has_sorted_sa_indices sidx aidx).
  - destruct (generate_a_indptr_safe n sidx) as (p & -> & _).
    unfold finish_ctor. destruct (negb _); [discriminate|]. destruct (negb _); discriminate.
  - destruct (trip_has_dup _); [discriminate|].
    destruct (fill_sidx_safe (csr_indptr n sidx) (seq 0 n)) as [r ->].
    + intros j Hj. apply in_seq in Hj. unfold csr_indptr. rewrite map_length, seq_length. lia.
    + unfold finish_ctor. destruct (negb _); [discriminate|]. destruct (negb _); discriminate.
Qed.

Theorem mk_prod_no_index_error {T} {NT : Num T} n m (R : list (list (ext T))) Qm beta i :
  mk_prod n m R Qm beta <> CIndexError i.
Proof.
  unfold mk_prod. destruct (negb _); [discriminate|].
  unfold finish_ctor. destruct (negb _); [discriminate|]. destruct (negb _); discriminate.
Qed.

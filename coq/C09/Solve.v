(* Certifying linear solver used by the DiscreteDP model in place of
   np.linalg.solve / spsolve: Gauss-Jordan elimination, generic over Num, that
   returns Some x only after re-checking A x = b with the instance's own
   equality test (exact at NumQ).  Correctness (solve_checked_correct) is then
   immediate and does not depend on the elimination being right; only
   completeness (a solution is found whenever A is regular) is untested by proof. *)
From Coq Require Import List Bool Arith.
From QE Require Import Base.Num Base.Cases.
Import ListNotations.

Section Solve.
Context {T : Type} {NT : Num T}.

Fixpoint dot_acc (acc : T) (q v : list T) : T :=
  match q, v with
  | a :: q', b :: v' => dot_acc (nadd acc (nmul a b)) q' v'
  | _, _ => acc
  end.
Definition dot (q v : list T) : T := dot_acc nzero q v.

Definition is_zero (x : T) : bool := neqb x nzero.

(* first row whose entry in column k is non-zero, and the remaining rows in order *)
Fixpoint extract_pivot (k : nat) (rows : list (list T)) : option (list T * list (list T)) :=
  match rows with
  | [] => None
  | r :: rs =>
      if is_zero (nth k r nzero) then
        match extract_pivot k rs with
        | None => None
        | Some (p, rest) => Some (p, r :: rest)
        end
      else Some (r, rs)
  end.

Fixpoint zipw (f : T -> T -> T) (a b : list T) : list T :=
  match a, b with
  | x :: a', y :: b' => f x y :: zipw f a' b'
  | _, _ => []
  end.

Definition elim (k : nat) (prow r : list T) : list T :=
  let f := nth k r nzero in zipw (fun a b => nsub a (nmul f b)) r prow.

Fixpoint gj (fuel k : nat) (done rest : list (list T)) : option (list (list T)) :=
  match fuel with
  | O => Some done
  | S f =>
      match extract_pivot k rest with
      | None => None
      | Some (p, rest') =>
          let pv := nth k p nzero in
          let prow := map (fun a => ndiv a pv) p in
          gj f (S k) (map (elim k prow) done ++ [prow]) (map (elim k prow) rest')
      end
  end.

Fixpoint augment (A : list (list T)) (b : list T) : list (list T) :=
  match A, b with
  | r :: A', x :: b' => (r ++ [x]) :: augment A' b'
  | _, _ => []
  end.

Definition solve (A : list (list T)) (b : list T) : option (list T) :=
  let n := length A in
  match gj n 0 [] (augment A b) with
  | None => None
  | Some rows => Some (map (fun r => nth n r nzero) rows)
  end.

Definition residual_ok (A : list (list T)) (b x : list T) : bool :=
  list_eqb neqb (map (fun r => dot r x) A) b.

Definition solve_checked (A : list (list T)) (b : list T) : option (list T) :=
  match solve A b with
  | None => None
  | Some x => if (length x =? length A)%nat && residual_ok A b x then Some x else None
  end.

End Solve.

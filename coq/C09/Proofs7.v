From Coq Require Import ZArith QArith Qabs List Bool Arith Lia Lqa Sorted.
From QE Require Import Base.Num Base.Cases C09.Solve C09.Model.
From QE Require Import C09.Proofs1 C09.Proofs2 C09.Proofs3 C09.Proofs4 C09.Proofs4b C09.Proofs5 C09.Proofs6.
Import ListNotations.

Lemma trip_insert_length p : forall l, length (trip_insert p l) = S (length l).
Proof. induction l as [|q l IH]; cbn [trip_insert]; [reflexivity|]. destruct (trip_ltb p q); cbn [length]; lia. Qed.
Lemma trip_sort_length l : length (trip_sort l) = length l.
Proof. induction l as [|p l IH]; cbn [trip_sort fold_right]; [reflexivity|]. fold (trip_sort l). rewrite trip_insert_length, IH. reflexivity. Qed.
Lemma zip3_length : forall s a i, length a = length s -> length (zip3 s a i) = length s.
Proof. induction s as [|x s IH]; intros [|y a] i H; cbn in *; try lia. rewrite IH; lia. Qed.

(* every DiscreteDP accepted by the state-action-pair constructor is well formed and feasible
   (the hypothesis ddp_ok of the operator theorems), with 0 <= beta <= 1 *)
Theorem mk_sa_ok n sidx aidx (R : list (ext Q)) Qm beta d :
  mk_sa n sidx aidx R Qm beta = COk d -> ddp_ok d /\ 0 <= d_beta d <= 1.
Proof.
  unfold mk_sa, mk_sa_gen. destruct (shapes_ok n sidx aidx R Qm) eqn:Hsh; cbn [negb]; [|discriminate].
  assert (Hshape := Hsh). unfold shapes_ok in Hshape. rewrite !andb_true_iff in Hshape.
  destruct Hshape as ((((L1 & L2) & L3) & _) & Hlt).
  apply Nat.eqb_eq in L1. apply Nat.eqb_eq in L2. apply Nat.eqb_eq in L3.
  assert (Hall : Forall (fun s => (s < n)%nat) sidx).
  { apply Forall_forall. intros x Hx. rewrite forallb_forall in Hlt. apply Nat.ltb_lt. apply Hlt. exact Hx. }
  assert (Hptr : forall L, length sidx = L -> forall s, (s < n)%nat ->
            (getn (csr_indptr n sidx) s <= getn (csr_indptr n sidx) (S s) <= L)%nat).
  { intros L HL s Hs. rewrite !csr_indptr_get by lia. pose proof (count_lt_mono sidx s).
    pose proof (count_lt_le_length sidx (S s)). lia. }
  destruct (has_sorted_sa_indices sidx aidx) eqn:Hso.
  - rewrite (generate_a_indptr_sorted n sidx (has_sorted_strongly _ _ L1 Hso) Hall).
    apply finish_ctor_ok; [lia|]. apply Hptr. lia.
  - destruct (trip_has_dup _); [discriminate|].
    destruct (fill_sidx (csr_indptr n sidx) (seq 0 n)) as [sidx'|i|]; try discriminate.
    apply finish_ctor_ok.
    + rewrite !map_length. reflexivity.
    + apply Hptr. rewrite !map_length, trip_sort_length, zip3_length by exact L1. reflexivity.
Qed.

Lemma concat_length_const {A} m : forall (l : list (list A)),
  forallb (fun r => (length r =? m)%nat) l = true -> length (concat l) = (length l * m)%nat.
Proof.
  induction l as [|r l IH]; intro H; [reflexivity|]. cbn [forallb] in H. apply andb_prop in H. destruct H as [H1 H2].
  apply Nat.eqb_eq in H1. cbn [concat length]. rewrite app_length, IH by exact H2. lia.
Qed.

Theorem mk_prod_ok n m (R : list (list (ext Q))) Qm beta d :
  mk_prod n m R Qm beta = COk d -> ddp_ok d /\ 0 <= d_beta d <= 1.
Proof.
  unfold mk_prod.
  destruct ((length R =? n)%nat && (length Qm =? n)%nat && forallb (fun r => (length r =? m)%nat) R &&
            forallb (fun q => (length q =? m)%nat && forallb (fun row => (length row =? n)%nat) q) Qm) eqn:Hsh;
    cbn [negb]; [|discriminate].
  rewrite !andb_true_iff in Hsh. destruct Hsh as (((L1 & L2) & L3) & L4).
  apply Nat.eqb_eq in L1. apply Nat.eqb_eq in L2.
  assert (L4' : forallb (fun q : list (list Q) => (length q =? m)%nat) Qm = true).
  { rewrite forallb_forall in *. intros q Hq. specialize (L4 q Hq). apply andb_prop in L4. tauto. }
  pose proof (concat_length_const m R L3) as LR. pose proof (concat_length_const m Qm L4') as LQ.
  apply finish_ctor_ok; [lia|].
  intros s Hs. unfold getn. rewrite !nth_map_seq by lia. rewrite LR, L1. nia.
Qed.

From Coq Require Import ZArith QArith Qabs List Bool Arith Lia Lqa.
From QE Require Import Base.Num Base.Cases C09.Solve C09.Model.
From QE Require Import C09.Proofs1 C09.Proofs2.
Import ListNotations.

(* ---------- _generate_a_indptr (repaired loop): no read at an index >= L ---------- *)
Lemma gai_while_safe sidx s : forall fuel idx,
  (idx <= length sidx)%nat -> (length sidx - idx < fuel)%nat ->
  exists idx', gai_while fuel sidx (length sidx) s idx = RVal idx' /\ (idx <= idx' <= length sidx)%nat.
Proof.
  induction fuel as [|f IH]; intros idx Hle Hf; [lia|].
  cbn [gai_while]. destruct (idx <? length sidx)%nat eqn:E.
  - apply Nat.ltb_lt in E. destruct (nth_error sidx idx) as [x|] eqn:N.
    + destruct (x =? s)%nat.
      * destruct (IH (S idx)) as (i' & H1 & H2); [lia|lia|]. exists i'. split; [exact H1|lia].
      * exists idx. split; [reflexivity|lia].
    + apply nth_error_None in N. lia.
  - exists idx. split; [reflexivity|lia].
Qed.

Lemma gai_for_safe sidx : forall ss idx, (idx <= length sidx)%nat ->
  exists r, gai_for sidx (length sidx) ss idx = RVal r /\ length r = length ss /\
            Forall (fun i => (i <= length sidx)%nat) r.
Proof.
  induction ss as [|s ss IH]; intros idx Hle; cbn [gai_for].
  - exists []. repeat split; constructor.
  - destruct (gai_while_safe sidx s (S (length sidx)) idx Hle) as (i' & E & Hi'); [lia|].
    rewrite E. destruct (IH i') as (r & Er & Hl & Hall); [lia|]. rewrite Er.
    exists (i' :: r). split; [reflexivity|]. split; [cbn; lia|]. constructor; [lia|exact Hall].
Qed.

(* for every number of states and every s_indices (sorted or not, with empty first / middle /
   trailing states), the repaired pointer scan finishes without an out-of-bounds read and
   returns num_states+1 pointers, all <= L, the first 0 and the last L *)
Theorem generate_a_indptr_safe n sidx :
  exists p, generate_a_indptr n sidx = RVal p /\ length p = S n /\
            Forall (fun i => (i <= length sidx)%nat) p /\
            last p 0%nat = length sidx /\ (n > 0 -> hd 1%nat p = 0%nat)%nat.
Proof.
  unfold generate_a_indptr. destruct n as [|n'].
  - exists [length sidx]. repeat split; try reflexivity; try lia. constructor; [lia|constructor].
  - destruct (gai_for_safe sidx (seq 0 n') 0%nat) as (r & E & Hl & Hall); [lia|]. rewrite E.
    exists (0%nat :: r ++ [length sidx]). split; [reflexivity|]. split.
    + cbn. rewrite app_length, Hl, seq_length. cbn. lia.
    + split; [|split].
      * constructor; [lia|]. apply Forall_app. split; [exact Hall|]. constructor; [lia|constructor].
      * change (0%nat :: r ++ [length sidx]) with ((0%nat :: r) ++ [length sidx]). apply last_last.
      * reflexivity.
Qed.

(* ---------- backward induction (every Num instance) ---------- *)
Section BI.
Context {T : Type} {NT : Num T}.
Fixpoint iterT (k : nat) (f : list T -> list T) (x : list T) : list T :=
  match k with O => x | S k' => f (iterT k' f x) end.

Theorem backward_induction_spec (d : ddp T) (vT : list T) : forall H,
  let '(vs, sg) := backward_induction d H vT in
  length vs = S H /\ length sg = H /\
  (forall t, (t <= H)%nat -> nth t vs [] = iterT (H - t) (bellman_operator d) vT) /\
  (forall t, (t < H)%nat -> nth t sg [] = compute_greedy d (nth (S t) vs [])).
Proof.
  induction H as [|H IH]; cbn [backward_induction].
  - repeat split; try reflexivity; intros t Ht; [|lia]. replace t with 0%nat by lia. reflexivity.
  - destruct (backward_induction d H vT) as [vs sg]. destruct IH as (L1 & L2 & Hv & Hs).
    repeat split; cbn [length]; try lia.
    + intros t Ht. destruct t as [|t].
      * cbn [nth]. replace (S H - 0)%nat with (S H) by lia. cbn [iterT]. f_equal.
        destruct vs as [|v0 vs']; [cbn in L1; lia|]. cbn [hd]. specialize (Hv 0%nat ltac:(lia)).
        cbn [nth] in Hv. rewrite Hv. f_equal. lia.
      * cbn [nth]. rewrite Hv by lia. f_equal.
    + intros t Ht. destruct t as [|t].
      * cbn [nth]. destruct vs as [|v0 vs']; [cbn in L1; lia|]. reflexivity.
      * cbn [nth]. rewrite Hs by lia. reflexivity.
Qed.
End BI.

(* ---------- _find_indices / RQ_sigma select the pair (s, sigma s) ---------- *)
Lemma find_last_spec aidx a : forall cnt j cur r,
  find_last aidx a j cnt cur = Some r ->
  cur = Some r \/ ((j <= r < j + cnt)%nat /\ getn aidx r = a).
Proof.
  induction cnt as [|c IH]; intros j cur r H; cbn [find_last] in H; [left; exact H|].
  apply IH in H. destruct H as [H|[H1 H2]].
  - destruct (a =? getn aidx j)%nat eqn:E; [|left; exact H].
    inversion H; subst. right. split; [lia|]. apply Nat.eqb_eq in E. congruence.
  - right. split; [lia|exact H2].
Qed.

Lemma sequence_spec {A} (d : A) : forall (l : list (option A)) r,
  sequence l = Some r -> length r = length l /\ forall i, (i < length l)%nat -> nth i l None = Some (nth i r d).
Proof.
  induction l as [|o l IH]; intros r H; cbn [sequence] in H.
  - inversion H; subst. split; [reflexivity|]. intros i Hi. cbn in Hi. lia.
  - destruct o as [x|]; [|discriminate]. destruct (sequence l) as [r'|] eqn:E; [|discriminate].
    inversion H; subst. destruct (IH r' eq_refl) as [L Hn]. split; [cbn; lia|].
    intros i Hi. destruct i; [reflexivity|]. cbn [nth]. apply Hn. cbn in Hi. lia.
Qed.

Theorem sigma_indices_spec {T} (d : ddp T) sigma idx :
  sigma_indices d sigma = Some idx ->
  length idx = d_n d /\ length sigma = d_n d /\
  forall s, (s < d_n d)%nat ->
    (getn (d_indptr d) s <= getn idx s < getn (d_indptr d) (S s))%nat /\
    getn (d_aidx d) (getn idx s) = getn sigma s.
Proof.
  unfold sigma_indices. destruct (length sigma =? d_n d)%nat eqn:EL; [|discriminate].
  apply Nat.eqb_eq in EL. intro H. destruct (sequence_spec 0%nat _ _ H) as [L Hn].
  unfold find_indices in *. rewrite map_length, seq_length in *.
  split; [exact L|]. split; [exact EL|]. intros s Hs. specialize (Hn s Hs).
  rewrite nth_map_seq in Hn by exact Hs. cbv zeta in Hn.
  apply find_last_spec in Hn. destruct Hn as [Hn|[H1 H2]]; [discriminate|].
  fold (getn idx s) in H1, H2. split; [lia|exact H2].
Qed.

Theorem RQ_sigma_rows {T} {NT : Num T} (d : ddp T) sigma Rs Qs :
  RQ_sigma d sigma = Some (Rs, Qs) ->
  exists idx, sigma_indices d sigma = Some idx /\ Rs = map (gete (d_R d)) idx /\ Qs = map (getrow (d_Q d)) idx /\
              controlled_mc d sigma = Some Qs.
Proof.
  unfold RQ_sigma, controlled_mc, RQ_sigma. destruct (sigma_indices d sigma) as [idx|]; [|discriminate].
  intro H. inversion H; subst. exists idx. repeat split.
Qed.

(* ---------- T_sigma is the affine map R_sigma + beta Q_sigma v; evaluate_policy returns its fixed point ---------- *)
Lemma T_sigma_entry beta Rs Qs v i : (i < length Rs)%nat -> (i < length Qs)%nat ->
  nth i (T_sigma_rq beta Rs Qs v) 0 == nth i Rs 0 + beta * dotS (nth i Qs []) v.
Proof.
  intros H1 H2. unfold T_sigma_rq. rewrite (nth_map2 _ 0 [] 0) by assumption.
  rewrite nadd_Q, nmul_Q, Qaddr_eq, Qmulr_eq, dot_spec. reflexivity.
Qed.

Lemma list_eqb_nth {A} (eqb : A -> A -> bool) (da db : A) : forall a b,
  list_eqb eqb a b = true -> length a = length b /\ forall i, (i < length a)%nat -> eqb (nth i a da) (nth i b db) = true.
Proof.
  induction a as [|x a IH]; intros [|y b] H; cbn [list_eqb] in H; try discriminate.
  - split; [reflexivity|]. intros i Hi. cbn in Hi. lia.
  - apply andb_prop in H. destruct H as [H1 H2]. destruct (IH b H2) as [L Hn]. split; [cbn; lia|].
    intros i Hi. destruct i; [exact H1|]. cbn [nth]. apply Hn. cbn in Hi. lia.
Qed.

Definition imq_row (beta : Q) (i : nat) (q : list Q) : list Q :=
  map (fun jx : nat * Q => nsub (if (i =? fst jx)%nat then none_ else nzero) (nmul beta (snd jx)))
      (combine (seq 0 (length q)) q).

Lemma imq_row_dot beta i : forall (q x : list Q) k, length q = length x ->
  dotS (map (fun jx : nat * Q => nsub (if (i =? fst jx)%nat then none_ else nzero) (nmul beta (snd jx)))
            (combine (seq k (length q)) q)) x
  == (if (k <=? i)%nat then nth (i - k) x 0 else 0) - beta * dotS q x.
Proof.
  induction q as [|a q IH]; intros [|b x] k HL; cbn [length] in HL; try discriminate.
  - cbn. destruct (k <=? i)%nat; [destruct (i - k)%nat|]; lra.
  - cbn [length seq combine map dotS fst snd]. rewrite IH by lia.
    rewrite nsub_Q, nmul_Q, Qsubr_eq, Qmulr_eq, none_Q, nzero_Q.
    destruct (i =? k)%nat eqn:E1.
    + apply Nat.eqb_eq in E1. subst k. rewrite Nat.leb_refl, Nat.sub_diag. cbn [nth].
      replace (S i <=? i)%nat with false by (symmetry; apply Nat.leb_gt; lia). lra.
    + apply Nat.eqb_neq in E1. destruct (k <=? i)%nat eqn:E2.
      * apply Nat.leb_le in E2. replace (S k <=? i)%nat with true by (symmetry; apply Nat.leb_le; lia).
        replace (i - k)%nat with (S (i - S k)) by lia. cbn [nth]. lra.
      * apply Nat.leb_gt in E2. replace (S k <=? i)%nat with false by (symmetry; apply Nat.leb_gt; lia). lra.
Qed.

Lemma I_minus_bQ_nth beta (Qs : list (list Q)) i : (i < length Qs)%nat ->
  nth i (I_minus_bQ beta Qs) [] = imq_row beta i (nth i Qs []).
Proof.
  intro H. unfold I_minus_bQ.
  assert (G : forall (l : list (list Q)) k j, (j < length l)%nat ->
            nth j (map (fun iq : nat * list Q => imq_row beta (fst iq) (snd iq)) (combine (seq k (length l)) l)) [] =
            imq_row beta (k + j) (nth j l [])).
  { induction l as [|r l IH]; intros k j Hj; cbn [length] in Hj; [lia|].
    cbn [length seq combine map]. destruct j; [cbn [nth fst snd]; f_equal; lia|].
    cbn [nth]. rewrite IH by lia. f_equal. lia. }
  exact (G Qs 0%nat i H).
Qed.
Lemma I_minus_bQ_length beta (Qs : list (list Q)) : length (I_minus_bQ beta Qs) = length Qs.
Proof. unfold I_minus_bQ. rewrite map_length, combine_length, seq_length. lia. Qed.

Theorem solve_checked_correct (A : list (list Q)) (b x : list Q) :
  solve_checked A b = Some x ->
  length x = length A /\ length b = length A /\ forall i, (i < length A)%nat -> dotS (nth i A []) x == nth i b 0.
Proof.
  unfold solve_checked. destruct (solve A b) as [y|]; [|discriminate].
  destruct ((length y =? length A)%nat && residual_ok A b y) eqn:E; [|discriminate].
  intro H. inversion H; subst. apply andb_prop in E. destruct E as [E1 E2]. apply Nat.eqb_eq in E1.
  unfold residual_ok in E2. destruct (list_eqb_nth _ 0 0 _ _ E2) as [L Hn]. rewrite map_length in L.
  split; [exact E1|]. split; [lia|]. intros i Hi. specialize (Hn i). rewrite map_length in Hn. specialize (Hn Hi).
  change 0 with ((fun r : list Q => dot r x) []) in Hn at 1. rewrite map_nth in Hn.
  cbn [neqb NumQ] in Hn. apply Qeq_bool_iff in Hn. rewrite dot_spec in Hn. exact Hn.
Qed.

Theorem evaluate_policy_fixpoint (d : ddp Q) sigma Rs Qs x :
  RQ_sigma_fin d sigma = Some (Rs, Qs) ->
  (forall i, (i < length Qs)%nat -> length (nth i Qs []) = length Qs) ->
  evaluate_policy d sigma = Some x ->
  length x = length Qs /\ length Rs = length Qs /\
  forall i, (i < length Qs)%nat -> nth i x 0 == nth i (T_sigma_rq (d_beta d) Rs Qs x) 0.
Proof.
  intros HRQ Hsq. unfold evaluate_policy. destruct (neqb (d_beta d) none_); [discriminate|]. rewrite HRQ.
  intro H. apply solve_checked_correct in H. rewrite I_minus_bQ_length in H. destruct H as (L1 & L2 & Hres).
  split; [exact L1|]. split; [exact L2|]. intros i Hi. rewrite T_sigma_entry by lia.
  specialize (Hres i Hi). rewrite I_minus_bQ_nth in Hres by exact Hi. unfold imq_row in Hres.
  rewrite imq_row_dot in Hres by (rewrite Hsq by exact Hi; lia). cbn [Nat.leb] in Hres. rewrite Nat.sub_0_r in Hres. lra.
Qed.

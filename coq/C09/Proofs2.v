From Coq Require Import ZArith QArith Qabs List Bool Arith Lia Lqa.
From QE Require Import Base.Num Base.Cases C09.Solve C09.Model.
From QE Require Import C09.Proofs1.
Import ListNotations.

(* ---------- Q instance: order laws ---------- *)
Lemma Qltb_irrefl a : Qltb a a = false.
Proof. destruct (Qltb a a) eqn:E; [|reflexivity]. apply Qltb_lt in E. lra. Qed.
Lemma Qltb_trans a b c : Qltb a b = true -> Qltb b c = true -> Qltb a c = true.
Proof. rewrite !Qltb_lt. lra. Qed.
Lemma Qltb_negtrans a b c : Qltb a b = true -> Qltb a c = true \/ Qltb c b = true.
Proof. rewrite !Qltb_lt. intro. destruct (Qlt_le_dec a c); [left; assumption|right; lra]. Qed.
Lemma Qltb_false a b : Qltb a b = false <-> b <= a.
Proof.
  split; intro H.
  - destruct (Qlt_le_dec a b) as [H1|H1]; [|exact H1]. apply Qltb_lt in H1. congruence.
  - destruct (Qltb a b) eqn:E; [|reflexivity]. apply Qltb_lt in E. lra.
Qed.

(* order on the extended line *)
Definition ext_le (a b : ext Q) : Prop :=
  match a, b with
  | NegInf, _ => True
  | Fin _, NegInf => False
  | Fin x, Fin y => x <= y
  end.
Definition ext_lt (a b : ext Q) : Prop :=
  match a, b with
  | NegInf, Fin _ => True
  | Fin x, Fin y => x < y
  | _, NegInf => False
  end.
Lemma egtQ_false a b : ext_gtb (T:=Q) a b = false <-> ext_le a b.
Proof. destruct a, b; cbn; try tauto; try (split; [tauto|congruence]); try (split; [discriminate|tauto]). apply Qltb_false. Qed.
Lemma egtQ_true a b : ext_gtb (T:=Q) a b = true <-> ext_lt b a.
Proof. destruct a, b; cbn; try tauto; try (split; [discriminate|tauto]). apply Qltb_lt. Qed.
Lemma ext_le_trans a b c : ext_le a b -> ext_le b c -> ext_le a c.
Proof. destruct a, b, c; cbn; try tauto. lra. Qed.
Lemma ext_le_refl a : ext_le a a.
Proof. destruct a; cbn; [tauto|lra]. Qed.

(* the kernel over Q: maximum of the segment, first maximiser *)
Theorem swise_max_spec_Q aidx indptr (vals : list (ext Q)) n s :
  (s < n)%nat -> (getn indptr s < getn indptr (S s))%nat ->
  exists m, (getn indptr s <= m < getn indptr (S s))%nat /\
            nth s (s_wise_max_argmax aidx indptr vals n) None = Some (gete vals m, getn aidx m) /\
            nth s (s_wise_max aidx indptr vals n) None = Some (gete vals m) /\
            (forall j, (getn indptr s <= j < getn indptr (S s))%nat -> ext_le (gete vals j) (gete vals m)) /\
            (forall j, (getn indptr s <= j < m)%nat -> ext_lt (gete vals j) (gete vals m)).
Proof.
  intros Hs Hseg.
  destruct (@swise_max_spec Q NumQ Qltb_irrefl Qltb_trans Qltb_negtrans aidx indptr vals n s Hs Hseg)
    as (m & E1 & E2 & Hr & Hmax & Hfirst).
  exists m. repeat split; try assumption; try lia.
  - intros j Hj. apply egtQ_false. apply Hmax. exact Hj.
  - intros j Hj. apply egtQ_true. apply Hfirst. exact Hj.
Qed.

(* ---------- dot products ---------- *)
Fixpoint dotS (q v : list Q) : Q :=
  match q, v with
  | a :: q', b :: v' => a * b + dotS q' v'
  | _, _ => 0
  end.

Lemma nadd_Q (a b : Q) : nadd a b = Qaddr a b. Proof. reflexivity. Qed.
Lemma nmul_Q (a b : Q) : nmul a b = Qmulr a b. Proof. reflexivity. Qed.
Lemma nsub_Q (a b : Q) : nsub a b = Qsubr a b. Proof. reflexivity. Qed.
Lemma ndiv_Q (a b : Q) : ndiv a b = Qdivr a b. Proof. reflexivity. Qed.
Lemma nzero_Q : @nzero Q NumQ = 0. Proof. reflexivity. Qed.
Lemma none_Q : @none_ Q NumQ = 1. Proof. reflexivity. Qed.
Lemma dot_acc_spec : forall (q v : list Q) acc, dot_acc acc q v == acc + dotS q v.
Proof.
  induction q as [|a q IH]; intros [|b v] acc; cbn [dot_acc dotS]; try lra.
  rewrite IH, nadd_Q, nmul_Q, Qaddr_eq, Qmulr_eq. lra.
Qed.
Lemma dot_spec (q v : list Q) : dot q v == dotS q v.
Proof. unfold dot. rewrite dot_acc_spec, nzero_Q. lra. Qed.

(* ---------- entries of vals ---------- *)
Lemma nth_map2 {A B C} (f : A -> B -> C) (da : A) (db : B) (dc : C) : forall (a : list A) (b : list B) i,
  (i < length a)%nat -> (i < length b)%nat -> nth i (map2 f a b) dc = f (nth i a da) (nth i b db).
Proof.
  induction a as [|x a IH]; intros [|y b] i Ha Hb; cbn in *; try lia.
  destruct i; [reflexivity|]. apply IH; lia.
Qed.
Lemma map2_length {A B C} (f : A -> B -> C) : forall (a : list A) (b : list B),
  length (map2 f a b) = Nat.min (length a) (length b).
Proof. induction a; intros [|y b]; cbn; auto. Qed.

Lemma vals_entry (d : ddp Q) v j : (j < length (d_R d))%nat -> (j < length (d_Q d))%nat ->
  gete (vals d v) j = pair_val (d_beta d) v (gete (d_R d) j) (getrow (d_Q d) j).
Proof. intros. unfold gete, vals, getrow. apply nth_map2; assumption. Qed.

(* exact (unreduced) value of pair j *)
Definition pair_valS (beta : Q) (v : list Q) (r : ext Q) (q : list Q) : ext Q :=
  match r with NegInf => NegInf | Fin x => Fin (x + beta * dotS q v) end.
Definition ext_eq (a b : ext Q) : Prop :=
  match a, b with NegInf, NegInf => True | Fin x, Fin y => x == y | _, _ => False end.
Lemma pair_val_spec beta v r q : ext_eq (pair_val beta v r q) (pair_valS beta v r q).
Proof. destruct r; cbn [pair_val pair_valS ext_eq]; [tauto|]. rewrite nadd_Q, nmul_Q, Qaddr_eq, Qmulr_eq, dot_spec. reflexivity. Qed.

(* ---------- well-formed, feasible ddp (what the constructor establishes) ---------- *)
Definition seg_lo (d : ddp Q) s := getn (d_indptr d) s.
Definition seg_hi (d : ddp Q) s := getn (d_indptr d) (S s).
Record ddp_ok (d : ddp Q) : Prop := {
  ok_len : length (d_R d) = length (d_Q d);
  ok_seg : forall s, (s < d_n d)%nat -> (seg_lo d s < seg_hi d s <= length (d_R d))%nat;
  ok_fin : forall s, (s < d_n d)%nat -> exists j x, (seg_lo d s <= j < seg_hi d s)%nat /\ gete (d_R d) j = Fin x }.

Definition Tv_at (d : ddp Q) v s : Q := nth s (bellman_operator d v) 0.
Definition greedy_at (d : ddp Q) v s : nat := nth s (compute_greedy d v) 0%nat.

Lemma bellman_length (d : ddp Q) v : length (bellman_operator d v) = d_n d.
Proof. unfold bellman_operator, bellman_full, s_wise_max_argmax. rewrite !map_length, seq_length. reflexivity. Qed.
Lemma greedy_length (d : ddp Q) v : length (compute_greedy d v) = d_n d.
Proof. unfold compute_greedy, bellman_full, s_wise_max_argmax. rewrite !map_length, seq_length. reflexivity. Qed.

(* bellman_operator / compute_greedy: for every state the value is the maximum over the pairs of
   the state of r + beta * sum q v, it is finite, and the greedy action is the action of the first
   maximising pair, whose reward is finite *)
Theorem bellman_is_max (d : ddp Q) v s : ddp_ok d -> (s < d_n d)%nat ->
  exists m r,
    (seg_lo d s <= m < seg_hi d s)%nat /\
    gete (d_R d) m = Fin r /\
    Tv_at d v s == r + d_beta d * dotS (getrow (d_Q d) m) v /\
    greedy_at d v s = getn (d_aidx d) m /\
    (forall j, (seg_lo d s <= j < seg_hi d s)%nat ->
               ext_le (pair_valS (d_beta d) v (gete (d_R d) j) (getrow (d_Q d) j)) (Fin (Tv_at d v s))) /\
    (forall j, (seg_lo d s <= j < m)%nat ->
               ext_lt (pair_valS (d_beta d) v (gete (d_R d) j) (getrow (d_Q d) j)) (Fin (Tv_at d v s))).
Proof.
  intros Hok Hs. destruct (ok_seg d Hok s Hs) as [Hlt Hhi].
  destruct (swise_max_spec_Q (d_aidx d) (d_indptr d) (vals d v) (d_n d) s Hs Hlt)
    as (m & Hm & E1 & _ & Hmax & Hfirst).
  fold (seg_lo d s) in *. fold (seg_hi d s) in *.
  assert (HL : forall j, (j < seg_hi d s)%nat -> (j < length (d_R d))%nat /\ (j < length (d_Q d))%nat).
  { intros j Hj. rewrite <- (ok_len d Hok). lia. }
  assert (Hv : forall j, (j < seg_hi d s)%nat ->
             ext_eq (gete (vals d v) j) (pair_valS (d_beta d) v (gete (d_R d) j) (getrow (d_Q d) j))).
  { intros j Hj. destruct (HL j Hj). rewrite vals_entry by assumption. apply pair_val_spec. }
  (* the maximum is finite *)
  destruct (ok_fin d Hok s Hs) as (j0 & x0 & Hj0 & Rj0).
  pose proof (Hmax j0 Hj0) as Hle0. pose proof (Hv j0 (proj2 Hj0)) as Hv0. rewrite Rj0 in Hv0. cbn in Hv0.
  pose proof (Hv m (proj2 Hm)) as Hvm.
  destruct (gete (d_R d) m) as [|r] eqn:Rm.
  { cbn in Hvm. destruct (gete (vals d v) m); [|contradiction]. destruct (gete (vals d v) j0); contradiction. }
  cbn in Hvm. destruct (gete (vals d v) m) as [|x] eqn:Vm; [contradiction|].
  assert (ETv : Tv_at d v s = x).
  { unfold Tv_at, bellman_operator, bellman_full. change 0 with (out_val (T:=Q) None). rewrite map_nth, E1. reflexivity. }
  assert (EG : greedy_at d v s = getn (d_aidx d) m).
  { unfold greedy_at, compute_greedy, bellman_full. change 0%nat with (out_act (T:=Q) None). rewrite map_nth, E1. reflexivity. }
  exists m, r. split; [exact Hm|]. split; [exact Rm|]. split; [rewrite ETv; exact Hvm|]. split; [exact EG|].
  rewrite ETv. split.
  - intros j Hj. pose proof (Hmax j Hj) as H1. pose proof (Hv j (proj2 Hj)) as H2.
    destruct (gete (vals d v) j), (pair_valS (d_beta d) v (gete (d_R d) j) (getrow (d_Q d) j)); cbn in *; try tauto. lra.
  - intros j Hj. pose proof (Hfirst j Hj) as H1. assert (j < seg_hi d s)%nat by lia. pose proof (Hv j H) as H2.
    destruct (gete (vals d v) j), (pair_valS (d_beta d) v (gete (d_R d) j) (getrow (d_Q d) j)); cbn in *; try tauto. lra.
Qed.

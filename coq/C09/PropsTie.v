(* C09: theorem about the _generate_a_indptr kernel as REGENERATED from /repo's current source. Statements only. *)
From Coq Require Import ZArith List Bool.
From QE Require Import Base.Num Gen.Kernels C09.TieGen.
Import ListNotations.
Open Scope Z_scope.

Theorem C09_gen_generate_a_indptr_safe : forall num_states s_indices out,
  0 <= num_states -> Z.of_nat (length out) = num_states + 1 ->
  snd (gen_generate_a_indptr num_states s_indices out) = true
  /\ length (fst (gen_generate_a_indptr num_states s_indices out)) = length out.
Proof. exact gen_generate_a_indptr_safe. Qed.
Print Assumptions C09_gen_generate_a_indptr_safe.

(* non-vacuity + the trailing-empty-state input on which the pinned code read out of bounds *)
Example C09_gen_generate_a_indptr_trailing_empty :
  gen_generate_a_indptr 3 [0; 0] [7; 7; 7; 7] = ([0; 2; 2; 2], true).
Proof. vm_compute. reflexivity. Qed.

(* C09: theorem about the _generate_a_indptr kernel as REGENERATED from /repo's current source. Statements only. *)
From Coq Require Import ZArith List Bool.
From QE Require Import Base.Num Gen.Kernels C09.TieGen.
Import ListNotations.
Open Scope Z_scope.

Theorem C09_gen_generate_a_indptr_safe : forall num_states s_indices out,
  0 <= num_states -> Z.of_nat (length out) = num_states + 1 ->
  snd (gen_generate_a_indptr num_states s_indices out) = true
  /\ length (fst (gen_generate_a_indptr num_states s_indices out)) = length out.
Proof. exact gen_generate_a_indptr_safe. Qed.
Print Assumptions C09_gen_generate_a_indptr_safe.

(* non-vacuity + the trailing-empty-state input on which the pinned code read out of bounds *)
Example C09_gen_generate_a_indptr_trailing_empty :
  gen_generate_a_indptr 3 [0; 0] [7; 7; 7; 7] = ([0; 2; 2; 2], true).
Proof. vm_compute. reflexivity. Qed.

(* ---------------------------------------------------------------------------------------------
   Tie lemmas (C09/TieGen2.v): the utilities.py kernels as they read NOW compute the functions of the
   hand-written model C09/Model.v, and read/store only inside their arrays under CSR well-formedness.
   Hence the theorems of C09/Props.v about the model transport to the current source of these kernels.
   --------------------------------------------------------------------------------------------- *)
From QE Require Import C09.Solve C09.Model C09.TieGen2.

Theorem C09_tie_s_wise_max_argmax :
  forall (T : Type) (NT : Num T) (aidx indptr : list nat) (vals : list (ext T)) (om : list (ext T)) (oa : list Z),
  length oa = length om ->
  fst (@gen_s_wise_max_argmax (ext T) (NumExt NT) (zs aidx) (zs indptr) vals om oa) =
    (overlay (@fst (ext T) nat) om (s_wise_max_argmax aidx indptr vals (length om)),
     overlay (fun p : ext T * nat => Z.of_nat (snd p)) oa (s_wise_max_argmax aidx indptr vals (length om))) /\
  (((length om < length indptr)%nat /\
    forall s, (s < length om)%nat ->
      (getn indptr s <= getn indptr (S s) <= length vals)%nat /\ (getn indptr (S s) <= length aidx)%nat) ->
   snd (@gen_s_wise_max_argmax (ext T) (NumExt NT) (zs aidx) (zs indptr) vals om oa) = true).
Proof. exact (@gen_s_wise_max_argmax_tie). Qed.
Print Assumptions C09_tie_s_wise_max_argmax.

Theorem C09_tie_s_wise_max :
  forall (T : Type) (NT : Num T) (aidx indptr : list nat) (vals : list (ext T)) (om : list (ext T)),
  fst (@gen_s_wise_max (ext T) (NumExt NT) (zs aidx) (zs indptr) vals om) =
    overlay (fun x : ext T => x) om (s_wise_max aidx indptr vals (length om)) /\
  ((length om < length indptr)%nat ->
   (forall s, (s < length om)%nat -> (getn indptr s <= getn indptr (S s) <= length vals)%nat) ->
   snd (@gen_s_wise_max (ext T) (NumExt NT) (zs aidx) (zs indptr) vals om) = true).
Proof. exact (@gen_s_wise_max_tie). Qed.
Print Assumptions C09_tie_s_wise_max.

Theorem C09_tie_find_indices :
  forall (aidx indptr sigma : list nat) (out : list Z),
  length out = length sigma ->
  fst (gen_find_indices (zs aidx) (zs indptr) (zs sigma) out) =
    overlay Z.of_nat out (find_indices aidx indptr (length sigma) sigma) /\
  ((length sigma < length indptr)%nat ->
   (forall s, (s < length sigma)%nat -> (getn indptr s <= getn indptr (S s) <= length aidx)%nat) ->
   snd (gen_find_indices (zs aidx) (zs indptr) (zs sigma) out) = true).
Proof. exact gen_find_indices_tie. Qed.
Print Assumptions C09_tie_find_indices.

Theorem C09_tie_has_sorted_sa_indices :
  forall (s a : list nat), length a = length s ->
  gen_has_sorted_sa_indices (zs s) (zs a) = (has_sorted_sa_indices s a, true).
Proof. exact gen_has_sorted_sa_indices_tie. Qed.
Print Assumptions C09_tie_has_sorted_sa_indices.

Theorem C09_tie_generate_a_indptr :
  forall (sidx : list nat) (n : nat) (out : list Z) p,
  length out = S n -> generate_a_indptr n sidx = RVal p ->
  fst (gen_generate_a_indptr (Z.of_nat n) (zs sidx) out) = zs p.
Proof. exact gen_generate_a_indptr_tie. Qed.
Print Assumptions C09_tie_generate_a_indptr.

(* non-vacuity: Puterman's example with a tie and a -inf pair; states 0 (3 pairs) and 1 (2 pairs) *)
Example C09_tie_example :
  @gen_s_wise_max_argmax (ext Z) (NumExt NumZ) [0;1;2;0;1] [0;3;5]
     [Fin 5; Fin 10; Fin 10; NegInf; Fin (-1)] [NegInf; NegInf] [7;7]
  = ([Fin 10; Fin (-1)], [1; 1], true)
  /\ gen_find_indices [0;1;2;0;1] [0;3;5] [2;0] [9;9] = ([2;3], true)
  /\ gen_has_sorted_sa_indices [0;0;0;1;1] [0;1;2;0;1] = (true, true).
Proof. vm_compute. repeat split. Qed.

From Coq Require Import ZArith QArith Qabs List Bool Arith Lia Lqa Sorted Permutation.
From QE Require Import Base.Num Base.Cases C09.Solve C09.Model C09.Proofs1 C09.Proofs2 C09.Proofs3 C09.Proofs4 C09.Proofs4b C09.Proofs5 C09.Proofs6 C09.Proofs7 C09.Proofs8.
From QE Require Import C09.Proofs9a C09.Proofs9b C09.Proofs9c.
Import ListNotations.

(* ---------- to_product_form of an sa-pair ddp ---------- *)
Theorem to_product_entries (d' d'' : ddp Q) :
  d_prod d' = None -> to_product_form d' = COk d'' ->
  let na := S (list_max (d_aidx d')) in
  forall s a, (s < d_n d')%nat -> (a < na)%nat ->
    lookup_pair d'' s a = Some (s * na + a)%nat /\
    gete (d_R d'') (s * na + a) = match lookup_pair d' s a with Some j => gete (d_R d') j | None => NegInf end /\
    getrow (d_Q d'') (s * na + a) = match lookup_pair d' s a with Some j => getrow (d_Q d') j | None => repeat 0 (d_n d') end.
Proof.
  intros Hp H na s a Hs Ha. unfold to_product_form in H. rewrite Hp in H. fold na in H.
  split; [apply (prod_lookup _ _ _ _ _ _ H s a Hs Ha)|].
  destruct (prod_entries _ _ _ _ _ _ H s a Hs Ha) as (_ & _ & ER & EQ & _).
  rewrite ER, EQ. rewrite !nth_map_seq by lia. cbv beta. rewrite ?nth_map_seq by lia. split; reflexivity.
Qed.

(* ---------- to_sa_pair_form of a product ddp, and the round trip ---------- *)
Section RoundTrip.
Variables (n m : nat) (Rt : list (list (ext Q))) (Qt : list (list (list Q))) (beta : Q) (d d' d'' : ddp Q).
Hypothesis Hmk : mk_prod n m Rt Qt beta = COk d.
Hypothesis Hsa : to_sa_pair_form d = COk d'.
Hypothesis Hpr : to_product_form d' = COk d''.

Local Notation Rsa s a := (nth a (nth s Rt []) NegInf).
Local Notation Qsa s a := (nth a (nth s Qt []) []).

Lemma d_is_prod : d_prod d = Some m /\ d_n d = n /\ length (d_R d) = (n * m)%nat.
Proof.
  destruct (mk_prod_shape _ _ _ _ _ _ Hmk) as (L1 & L2 & F1 & F2 & ->). cbn [d_prod d_n d_R].
  split; [reflexivity|]. split; [reflexivity|]. clear - L1 F1. revert n L1. induction F1; intros n L1; cbn in *; [lia|].
  rewrite app_length, (IHF1 (length l) eq_refl). lia.
Qed.

Lemma to_sa_unfold :
  mk_sa n (map (getn (d_sidx d)) (finite_pair_positions d)) (map (getn (d_aidx d)) (finite_pair_positions d))
        (map (gete (d_R d)) (finite_pair_positions d)) (map (getrow (d_Q d)) (finite_pair_positions d)) (d_beta d) = COk d'.
Proof. destruct d_is_prod as (Ep & En & _). unfold to_sa_pair_form in Hsa. rewrite Ep, En in Hsa. exact Hsa. Qed.

(* to_sa_pair_form keeps exactly the pairs with a finite reward, with their rewards and rows *)
Theorem to_sa_preserves s a r : (s < n)%nat -> (a < m)%nat -> Rsa s a = Fin r ->
  exists j', lookup_pair d' s a = Some j' /\ gete (d_R d') j' = Fin r /\ getrow (d_Q d') j' = Qsa s a.
Proof.
  intros Hs Ha Hr. destruct d_is_prod as (_ & _ & LR).
  destruct (prod_entries _ _ _ _ _ _ Hmk s a Hs Ha) as (ES & EA & ER & EQ & _).
  set (j := (s * m + a)%nat) in *.
  assert (Hj : (j < length (d_R d))%nat) by (rewrite LR; unfold j; nia).
  assert (Hin : In j (finite_pair_positions d)).
  { unfold finite_pair_positions. apply filter_In. split; [apply in_seq; lia|]. rewrite ER, Hr. reflexivity. }
  apply In_nth with (d := 0%nat) in Hin. destruct Hin as (p & Hp & Ep).
  destruct (mk_sa_lookup _ _ _ _ _ _ _ to_sa_unfold p ltac:(rewrite map_length; exact Hp)) as (j' & Hl & ER' & EQ').
  set (pos := finite_pair_positions d) in *.
  assert (E1 : getn (map (getn (d_sidx d)) pos) p = s).
  { unfold getn at 1. rewrite (nth_map_in (getn (d_sidx d)) pos p 0%nat 0%nat Hp), Ep. exact ES. }
  assert (E2 : getn (map (getn (d_aidx d)) pos) p = a).
  { unfold getn at 1. rewrite (nth_map_in (getn (d_aidx d)) pos p 0%nat 0%nat Hp), Ep. exact EA. }
  assert (E3 : gete (map (gete (d_R d)) pos) p = Fin r).
  { unfold gete at 1. rewrite (nth_map_in (gete (d_R d)) pos p 0%nat NegInf Hp), Ep, ER. exact Hr. }
  assert (E4 : getrow (map (getrow (d_Q d)) pos) p = Qsa s a).
  { unfold getrow at 1. rewrite (nth_map_in (getrow (d_Q d)) pos p 0%nat [] Hp), Ep. exact EQ. }
  rewrite E1, E2 in Hl. rewrite E3 in ER'. rewrite E4 in EQ'.
  exists j'. split; [exact Hl|]. split; assumption.
Qed.
Theorem to_sa_feasible_only s a j' : lookup_pair d' s a = Some j' ->
  (s < n)%nat /\ (a < m)%nat /\ exists r, Rsa s a = Fin r /\ gete (d_R d') j' = Fin r /\ getrow (d_Q d') j' = Qsa s a.
Proof.
  intro Hl. destruct (mk_sa_lookup_inv _ _ _ _ _ _ _ _ _ _ to_sa_unfold Hl) as (p & Hp & ES & EA & ER & EQ).
  rewrite map_length in Hp. set (pos := finite_pair_positions d) in *.
  unfold getn at 1 in ES. rewrite (nth_map_in (getn (d_sidx d)) pos p 0%nat 0%nat Hp) in ES.
  unfold getn at 1 in EA. rewrite (nth_map_in (getn (d_aidx d)) pos p 0%nat 0%nat Hp) in EA.
  unfold gete at 2 in ER. rewrite (nth_map_in (gete (d_R d)) pos p 0%nat NegInf Hp) in ER.
  unfold getrow at 2 in EQ. rewrite (nth_map_in (getrow (d_Q d)) pos p 0%nat [] Hp) in EQ.
  unfold pos in *.
  set (j := nth p (finite_pair_positions d) 0%nat) in *.
  assert (Hin : In j (finite_pair_positions d)) by (apply nth_In; exact Hp).
  unfold finite_pair_positions in Hin. apply filter_In in Hin. destruct Hin as [Hj Hfin]. apply in_seq in Hj.
  destruct d_is_prod as (_ & _ & LR). rewrite LR in Hj.
  assert (Hm0 : (0 < m)%nat) by (destruct m; [lia|lia]).
  set (s0 := (j / m)%nat). set (a0 := (j mod m)%nat).
  assert (Hdm : j = (s0 * m + a0)%nat) by (unfold s0, a0; rewrite Nat.mul_comm; apply Nat.div_mod; lia).
  assert (Ha0 : (a0 < m)%nat) by (apply Nat.mod_upper_bound; lia).
  assert (Hs0 : (s0 < n)%nat) by (apply Nat.div_lt_upper_bound; [lia|]; rewrite Nat.mul_comm; lia).
  destruct (prod_entries _ _ _ _ _ _ Hmk s0 a0 Hs0 Ha0) as (ES0 & EA0 & ER0 & EQ0 & _).
  rewrite <- Hdm in *. fold (getn (d_sidx d) j) in ES. fold (getn (d_aidx d) j) in EA.
  rewrite ES0 in ES. rewrite EA0 in EA. subst s0 a0. rewrite <- ES, <- EA.
  split; [exact Hs0|]. split; [exact Ha0|].
  rewrite ER0 in Hfin, ER. rewrite EQ0 in EQ. rewrite ES, EA in *.
  destruct (Rsa s a) as [|r] eqn:E; [discriminate|]. exists r. repeat split; assumption.
Qed.

Lemma d'_facts : d_prod d' = None /\ d_n d' = n.
Proof. destruct (mk_sa_final _ _ _ _ _ _ _ to_sa_unfold) as [S' F]. split; [apply (sf_prod _ _ _ _ _ _ _ F)|apply (sf_n _ _ _ _ _ _ _ F)]. Qed.

(* round trip: product -> sa-pair -> product is the identity on feasible pairs ... *)
Theorem roundtrip_feasible s a r : (s < n)%nat -> (a < m)%nat -> Rsa s a = Fin r ->
  exists j'', lookup_pair d'' s a = Some j'' /\ gete (d_R d'') j'' = Fin r /\ getrow (d_Q d'') j'' = Qsa s a.
Proof.
  intros Hs Ha Hr. destruct (to_sa_preserves s a r Hs Ha Hr) as (j' & Hl & ER & EQ).
  destruct d'_facts as [Hp Hn].
  destruct (mk_sa_final _ _ _ _ _ _ _ to_sa_unfold) as [S' F].
  assert (Hana : (a < S (list_max (d_aidx d')))%nat).
  { rewrite (lookup_pair_final _ _ _ _ _ _ _ _ _ F Hs) in Hl.
    destruct (lookupA_some S' (d_aidx d') (sf_lenA _ _ _ _ _ _ _ F) (sf_lex _ _ _ _ _ _ _ F) s a j' Hl) as (Hj' & _ & EA).
    assert (In a (d_aidx d')) by (rewrite <- EA; apply nth_In; rewrite (sf_lenA _ _ _ _ _ _ _ F); exact Hj').
    pose proof (In_le_list_max _ _ H). lia. }
  destruct (to_product_entries d' d'' Hp Hpr s a ltac:(rewrite Hn; exact Hs) Hana) as (L2 & R2 & Q2).
  rewrite Hl in R2, Q2. eexists. split; [exact L2|]. split; [rewrite R2; exact ER|rewrite Q2; exact EQ].
Qed.
(* ... and creates no feasible pair: a finite reward in the result is a finite reward of the original *)
Theorem roundtrip_feasible_only s a j'' r : lookup_pair d'' s a = Some j'' -> gete (d_R d'') j'' = Fin r ->
  (s < n)%nat /\ (a < m)%nat /\ Rsa s a = Fin r /\ getrow (d_Q d'') j'' = Qsa s a.
Proof.
  intros Hl Hr. destruct d'_facts as [Hp Hn].
  unfold to_product_form in Hpr. rewrite Hp in Hpr.
  destruct (prod_lookup_inv _ _ _ _ _ _ Hpr s a j'' Hl) as (Hs & Ha & ->). rewrite Hn in Hs.
  assert (Hpr' : to_product_form d' = COk d'') by (unfold to_product_form; rewrite Hp; exact Hpr).
  destruct (to_product_entries d' d'' Hp Hpr' s a ltac:(rewrite Hn; exact Hs) Ha) as (_ & R2 & Q2).
  rewrite R2 in Hr. destruct (lookup_pair d' s a) as [j'|] eqn:El; [|discriminate].
  destruct (to_sa_feasible_only s a j' El) as (_ & Ham & r' & E1 & E2 & E3).
  rewrite E2 in Hr. inversion Hr; subst r'. split; [exact Hs|]. split; [exact Ham|]. split; [exact E1|]. rewrite Q2. exact E3.
Qed.
End RoundTrip.

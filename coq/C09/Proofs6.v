From Coq Require Import ZArith QArith Qabs List Bool Arith Lia Lqa.
From QE Require Import Base.Num Base.Cases C09.Solve C09.Model.
From QE Require Import C09.Proofs1 C09.Proofs2 C09.Proofs3 C09.Proofs4.
Import ListNotations.

(* ---------- shared list / dot-product lemmas (also used by C01) ---------- *)
Fixpoint sumQ (l : list Q) : Q := match l with [] => 0 | x :: r => x + sumQ r end.
Lemma sumQ_nonneg q : Forall (fun x => 0 <= x) q -> 0 <= sumQ q.
Proof. induction 1; cbn; lra. Qed.

Lemma dotS_diff_le c : forall q v w,
  Forall (fun x => 0 <= x) q -> length v = length q -> length w = length q ->
  (forall i, (i < length q)%nat -> nth i v 0 - nth i w 0 <= c) ->
  dotS q v - dotS q w <= c * sumQ q.
Proof.
  induction q as [|a q IH]; intros [|x v] [|y w] Hq Lv Lw H; cbn [length] in *; try discriminate.
  - cbn. lra.
  - inversion Hq; subst. cbn [dotS sumQ].
    assert (H0 := H 0%nat ltac:(lia)). cbn [nth] in H0.
    assert (IH' : dotS q v - dotS q w <= c * sumQ q).
    { apply IH; try assumption; try lia. intros i Hi. apply (H (S i)). lia. }
    nra.
Qed.
Lemma dotS_mono q v w :
  Forall (fun x => 0 <= x) q -> length v = length q -> length w = length q ->
  (forall i, (i < length q)%nat -> nth i v 0 <= nth i w 0) -> dotS q v <= dotS q w.
Proof.
  intros Hq Lv Lw H. pose proof (dotS_diff_le 0 q v w Hq Lv Lw) as G.
  assert (dotS q v - dotS q w <= 0 * sumQ q) by (apply G; intros i Hi; specialize (H i Hi); lra). lra.
Qed.
Lemma dotS_ext : forall q v w, length v = length w ->
  (forall i, (i < length v)%nat -> nth i v 0 == nth i w 0) -> dotS q v == dotS q w.
Proof.
  induction q as [|a q IH]; intros [|x v] [|y w] L H; cbn [length] in *; try discriminate; cbn [dotS]; try reflexivity.
  rewrite (IH v w) by (try lia; intros i Hi; apply (H (S i)); lia).
  assert (H0 := H 0%nat ltac:(lia)). cbn [nth] in H0. rewrite H0. reflexivity.
Qed.

Lemma nth_map_in {A B} (f : A -> B) (l : list A) i (da : A) (db : B) :
  (i < length l)%nat -> nth i (map f l) db = f (nth i l da).
Proof. intro H. rewrite (nth_indep _ db (f da)) by (rewrite map_length; exact H). apply map_nth. Qed.

Lemma nats_eqb_eq : forall a b, nats_eqb a b = true -> a = b.
Proof.
  induction a as [|x a IH]; intros [|y b] H; cbn in H; try discriminate; [reflexivity|].
  apply andb_prop in H. destruct H as [H1 H2]. apply Nat.eqb_eq in H1. f_equal; [exact H1|]. apply IH. exact H2.
Qed.

Lemma RQ_sigma_fin_spec (d : ddp Q) sigma Rs Qs :
  RQ_sigma_fin d sigma = Some (Rs, Qs) ->
  exists idx, sigma_indices d sigma = Some idx /\ length Rs = d_n d /\ length Qs = d_n d /\
    forall s, (s < d_n d)%nat ->
      gete (d_R d) (getn idx s) = Fin (nth s Rs 0) /\ nth s Qs [] = getrow (d_Q d) (getn idx s).
Proof.
  intro HRQ. unfold RQ_sigma_fin in HRQ. destruct (RQ_sigma d sigma) as [[Re Qs']|] eqn:ERQ; [|discriminate].
  destruct (fin_list Re) as [Rf|] eqn:EF; [|discriminate]. inversion HRQ; subst Rf Qs'. clear HRQ.
  destruct (RQ_sigma_rows d sigma Re Qs ERQ) as (idx & Eidx & -> & -> & _).
  destruct (sigma_indices_spec d sigma idx Eidx) as (Lidx & Lsig & Hidx).
  unfold fin_list in EF. destruct (sequence_spec 0 _ _ EF) as [LR HR]. rewrite !map_length in LR, HR.
  exists idx. split; [exact Eidx|]. split; [lia|]. split; [rewrite map_length; lia|].
  intros s Hs. split.
  - specialize (HR s ltac:(lia)).
    rewrite (nth_map_in _ _ _ NegInf) in HR by (rewrite map_length; lia).
    rewrite (nth_map_in _ _ _ 0%nat) in HR by lia. fold (getn idx s) in HR.
    destruct (gete (d_R d) (getn idx s)); [discriminate|]. inversion HR. reflexivity.
  - rewrite (nth_map_in _ _ _ 0%nat) by lia. reflexivity.
Qed.

(* within a state no action occurs twice (what sorted / de-duplicated pairs guarantee) *)
Definition ddp_distinct (d : ddp Q) : Prop :=
  forall s i j, (s < d_n d)%nat -> (seg_lo d s <= i < seg_hi d s)%nat -> (seg_lo d s <= j < seg_hi d s)%nat ->
                getn (d_aidx d) i = getn (d_aidx d) j -> i = j.

(* non-negative kernel: what monotonicity needs (no bound on beta, rows need not sum to 1) *)
Record kernel_nonneg (d : ddp Q) : Prop := {
  kn_beta : 0 <= d_beta d;
  kn_len : forall j, (j < length (d_Q d))%nat -> length (getrow (d_Q d) j) = d_n d;
  kn_nonneg : forall j, (j < length (d_Q d))%nat -> Forall (fun q => 0 <= q) (getrow (d_Q d) j) }.

Lemma seg_in_Q (d : ddp Q) s j : ddp_ok d -> (s < d_n d)%nat -> (seg_lo d s <= j < seg_hi d s)%nat -> (j < length (d_Q d))%nat.
Proof. intros Hok Hs Hj. pose proof (ok_seg d Hok s Hs). rewrite <- (ok_len d Hok). lia. Qed.

(* ---------- _find_indices is complete on available actions ---------- *)
Lemma find_last_complete aidx a : forall cnt j cur,
  (cur <> None \/ exists r, (j <= r < j + cnt)%nat /\ getn aidx r = a) ->
  exists r, find_last aidx a j cnt cur = Some r.
Proof.
  induction cnt as [|c IH]; intros j cur H; cbn [find_last].
  - destruct H as [H|(r & Hr & _)]; [destruct cur; [eauto|congruence]|lia].
  - apply IH. destruct (a =? getn aidx j)%nat eqn:E; [left; discriminate|].
    destruct H as [H|(r & Hr & Ha)]; [left; exact H|]. right. exists r. split; [|exact Ha].
    apply Nat.eqb_neq in E. assert (r <> j) by (intro; subst; congruence). lia.
Qed.

Lemma sequence_some {A} : forall (l : list (option A)), (forall o, In o l -> o <> None) -> exists r, sequence l = Some r.
Proof.
  induction l as [|o l IH]; intro H; [eexists; reflexivity|]. cbn [sequence].
  destruct o as [x|]; [|exfalso; apply (H None); [left; reflexivity|reflexivity]].
  destruct IH as [r ->]; [intros o Ho; apply H; right; exact Ho|]. eexists; reflexivity.
Qed.

Section BI.
Variable d : ddp Q.
Hypothesis Hok : ddp_ok d.
Hypothesis Hkn : kernel_nonneg d.
Local Notation n := (d_n d).

Definition vle (a b : list Q) : Prop := forall s, (s < n)%nat -> nth s a 0 <= nth s b 0.
Definition veq (a b : list Q) : Prop := forall s, (s < n)%nat -> nth s a 0 == nth s b 0.

(* value of following the (possibly non-stationary) policy sequence pol = [sigma_0; ...; sigma_{H-1}]
   with terminal value vT *)
Definition pol_value (pol : list (list nat)) (vT : list Q) : list Q :=
  fold_right (fun sg w => match T_sigma d sg w with Some y => y | None => w end) vT pol.

Lemma T_sigma_some sg w : RQ_sigma_fin d sg <> None ->
  exists Rs Qs, RQ_sigma_fin d sg = Some (Rs, Qs) /\ T_sigma d sg w = Some (T_sigma_rq (d_beta d) Rs Qs w) /\
                length (T_sigma_rq (d_beta d) Rs Qs w) = n.
Proof.
  intro H. unfold T_sigma. destruct (RQ_sigma_fin d sg) as [[Rs Qs]|] eqn:E; [|congruence].
  exists Rs, Qs. split; [reflexivity|]. split; [reflexivity|].
  destruct (RQ_sigma_fin_spec d sg Rs Qs E) as (_ & _ & L1 & L2 & _).
  unfold T_sigma_rq. rewrite map2_length. lia.
Qed.

(* one step: T_sigma w <= T w' whenever w <= w' *)
Lemma T_sigma_le_bellman sg Rs Qs w w' :
  RQ_sigma_fin d sg = Some (Rs, Qs) -> length w = n -> length w' = n -> vle w w' ->
  vle (T_sigma_rq (d_beta d) Rs Qs w) (bellman_operator d w').
Proof.
  intros HRQ Lw Lw' Hle s Hs.
  destruct (RQ_sigma_fin_spec d sg Rs Qs HRQ) as (idx & Eidx & LR & LQ & Hpair).
  destruct (sigma_indices_spec d sg idx Eidx) as (_ & _ & Hidx).
  destruct (Hidx s Hs) as [Hseg _]. fold (seg_lo d s) in Hseg. fold (seg_hi d s) in Hseg.
  destruct (Hpair s Hs) as [HRs HQs].
  rewrite T_sigma_entry by lia. rewrite HQs.
  destruct (bellman_is_max d w' s Hok Hs) as (_ & _ & _ & _ & _ & _ & Hmax & _).
  specialize (Hmax _ Hseg). rewrite HRs in Hmax. cbn in Hmax. fold (Tv_at d w' s).
  pose proof (seg_in_Q d s _ Hok Hs Hseg) as HjQ.
  pose proof (dotS_mono (getrow (d_Q d) (getn idx s)) w w' (kn_nonneg d Hkn _ HjQ)) as G.
  rewrite (kn_len d Hkn _ HjQ) in G. specialize (G Lw Lw' Hle).
  pose proof (kn_beta d Hkn). nra.
Qed.

Lemma bi_hd_length H vT : length vT = n ->
  length (hd [] (fst (backward_induction d H vT))) = n.
Proof.
  intro L. destruct H as [|H]; cbn [backward_induction]; [exact L|].
  destruct (backward_induction d H vT) as [vs sg]. cbn [fst hd]. apply bellman_length.
Qed.

(* no policy sequence does better than backward induction, in any state *)
Theorem backward_induction_dominates vT : length vT = n ->
  forall pol, (forall sg, In sg pol -> RQ_sigma_fin d sg <> None) ->
  vle (pol_value pol vT) (hd [] (fst (backward_induction d (length pol) vT))) /\
  length (pol_value pol vT) = n.
Proof.
  intro LT. induction pol as [|sg pol IH]; intro Hf.
  - cbn. split; [intros s Hs; lra|exact LT].
  - destruct IH as [IH Lp]; [intros x Hx; apply Hf; right; exact Hx|].
    pose proof (bi_hd_length (length pol) vT LT) as Lh.
    cbn [pol_value fold_right length backward_induction]. fold (pol_value pol vT).
    destruct (backward_induction d (length pol) vT) as [vs sgs]. cbn [fst hd] in *.
    destruct (T_sigma_some sg (pol_value pol vT) (Hf sg (or_introl eq_refl))) as (Rs & Qs & HRQ & -> & Ly).
    split; [|exact Ly]. eapply T_sigma_le_bellman; eauto.
Qed.

Hypothesis Hdis : ddp_distinct d.

(* the greedy policy is available, and T_greedy(v) w = T v whenever w = v pointwise *)
Lemma greedy_feasible_attains v w : length v = n -> length w = n -> veq w v ->
  exists Rs Qs, RQ_sigma_fin d (compute_greedy d v) = Some (Rs, Qs) /\
                veq (T_sigma_rq (d_beta d) Rs Qs w) (bellman_operator d v).
Proof.
  intros Lv Lw Hwv.
  assert (Hfind : forall s, (s < n)%nat -> exists r,
            find_last (d_aidx d) (getn (compute_greedy d v) s) (getn (d_indptr d) s)
                      (getn (d_indptr d) (S s) - getn (d_indptr d) s) None = Some r).
  { intros s Hs. apply find_last_complete. right.
    destruct (bellman_is_max d v s Hok Hs) as (m & r & Hm & _ & _ & Eg & _ & _).
    exists m. unfold seg_lo, seg_hi in Hm. split; [lia|]. rewrite <- Eg. reflexivity. }
  destruct (sequence_some (find_indices (d_aidx d) (d_indptr d) n (compute_greedy d v))) as [idx Eidx].
  { intros o Ho. unfold find_indices in Ho. apply in_map_iff in Ho. destruct Ho as (s & <- & Hs).
    apply in_seq in Hs. destruct (Hfind s ltac:(lia)) as [r ->]. discriminate. }
  assert (Esi : sigma_indices d (compute_greedy d v) = Some idx).
  { unfold sigma_indices. rewrite greedy_length, Nat.eqb_refl. exact Eidx. }
  destruct (sigma_indices_spec d _ idx Esi) as (Lidx & _ & Hidx).
  (* every chosen pair is the first maximiser, hence has a finite reward *)
  assert (Hm : forall s, (s < n)%nat -> exists r,
            gete (d_R d) (getn idx s) = Fin r /\
            Tv_at d v s == r + d_beta d * dotS (getrow (d_Q d) (getn idx s)) v).
  { intros s Hs. destruct (bellman_is_max d v s Hok Hs) as (m & r & Hm & Rm & Ev & Eg & _ & _).
    destruct (Hidx s Hs) as [Hseg Hact]. fold (seg_lo d s) in Hseg. fold (seg_hi d s) in Hseg.
    assert (m = getn idx s) by (apply (Hdis s); try assumption; rewrite Hact, <- Eg; reflexivity).
    subst m. exists r. split; assumption. }
  assert (Hfin : exists Rf, fin_list (map (gete (d_R d)) idx) = Some Rf).
  { unfold fin_list. apply sequence_some. intros o Ho. apply in_map_iff in Ho. destruct Ho as (e & <- & He).
    apply in_map_iff in He. destruct He as (j & <- & Hj). apply In_nth with (d := 0%nat) in Hj.
    destruct Hj as (s & Hs & <-). rewrite Lidx in Hs. destruct (Hm s Hs) as (r & Hr & _).
    unfold getn in Hr. rewrite Hr. discriminate. }
  destruct Hfin as [Rf ERf].
  assert (HRQ : RQ_sigma_fin d (compute_greedy d v) = Some (Rf, map (getrow (d_Q d)) idx)).
  { unfold RQ_sigma_fin, RQ_sigma. rewrite Esi, ERf. reflexivity. }
  exists Rf, (map (getrow (d_Q d)) idx). split; [exact HRQ|].
  destruct (RQ_sigma_fin_spec d _ _ _ HRQ) as (idx' & Eidx' & LR & LQ & Hpair).
  rewrite Esi in Eidx'. inversion Eidx'; subst idx'.
  intros s Hs. destruct (Hpair s Hs) as [HRs HQs]. destruct (Hm s Hs) as (r & Hr & Ev).
  rewrite HRs in Hr. inversion Hr; subst r. rewrite T_sigma_entry by lia. rewrite HQs.
  fold (Tv_at d v s). rewrite Ev. rewrite (dotS_ext _ w v) by (try lia; intros i Hi; apply Hwv; lia). reflexivity.
Qed.

(* ... and the policies it returns attain its values: vs[0] is the value of the sequence sigmas *)
Theorem backward_induction_attained vT : length vT = n -> forall H,
  let '(vs, sg) := backward_induction d H vT in
  (forall s, In s sg -> RQ_sigma_fin d s <> None) /\ length (pol_value sg vT) = n /\ veq (pol_value sg vT) (hd [] vs).
Proof.
  intro LT. induction H as [|H IH]; cbn [backward_induction].
  - cbn. split; [tauto|]. split; [exact LT|]. intros s Hs. reflexivity.
  - pose proof (bi_hd_length H vT LT) as Lh.
    destruct (backward_induction d H vT) as [vs sg]. cbn [fst hd] in *. destruct IH as (Hf & Lp & Heq).
    destruct (greedy_feasible_attains (hd [] vs) (pol_value sg vT) Lh Lp Heq) as (Rs & Qs & HRQ & Hatt).
    split; [|split].
    + intros s [<-|Hs]; [rewrite HRQ; discriminate|apply Hf; exact Hs].
    + cbn [pol_value fold_right]. fold (pol_value sg vT). unfold T_sigma. rewrite HRQ.
      destruct (RQ_sigma_fin_spec d _ _ _ HRQ) as (_ & _ & L1 & L2 & _). unfold T_sigma_rq. rewrite map2_length. lia.
    + cbn [pol_value fold_right]. fold (pol_value sg vT). unfold T_sigma. rewrite HRQ. exact Hatt.
Qed.
End BI.

(* C09: tie lemmas between the kernels REGENERATED from /repo's current source (Gen/Kernels.v,
   bounds-checked translation of markov/utilities.py) and the hand-written model C09/Model.v:
     fst (gen_X args) = <Model.v function> args      (for all inputs of matching lengths)
     snd (gen_X args) = true                         (no out-of-bounds read/store, under the CSR
                                                      well-formedness the constructor establishes)
   for _s_wise_max_argmax, _s_wise_max, _find_indices, _has_sorted_sa_indices, and the value tie for
   _generate_a_indptr (its memory safety is in TieGen.v).  The kernels are generic over Num and use only
   nltb / nzero; they are instantiated at "T or -inf" (the model's ext T, instance NumExt: < is the
   extended order, the default read is -inf), for every Num T.  In-place output arrays are related to
   the model's option lists by `overlay` (None = entry left untouched).  Indices: Z in the generated
   code, nat in the model (zs = map Z.of_nat). *)
From Coq Require Import ZArith List Bool Arith Lia.
From QE Require Import Base.Num Gen.Kernels C09.Solve C09.Model C09.TieGen.
Import ListNotations.

(* ------------------------------------------------------------------ *)

(* The generated kernels are generic over Num and use only nltb / nzero.  Values "T or -inf"
   (the model's ext T) form such an instance: < is the extended order, the default read is -inf. *)
Definition ext_lift2 {T} (f : T -> T -> T) (a b : ext T) : ext T :=
  match a, b with Fin x, Fin y => Fin (f x y) | _, _ => NegInf end.
Definition NumExt {T} (NT : Num T) : Num (ext T) := {|
  nzero := NegInf; none_ := Fin none_;
  nadd := ext_lift2 nadd; nmul := ext_lift2 nmul; nsub := ext_lift2 nsub; ndiv := ext_lift2 ndiv;
  nltb := fun a b => ext_gtb b a;
  nleb := fun a b => negb (ext_gtb a b);
  neqb := fun a b => negb (ext_gtb a b) && negb (ext_gtb b a) |}.

Definition zs (l : list nat) : list Z := map Z.of_nat l.

Lemma zs_length l : length (zs l) = length l. Proof. apply map_length. Qed.
Lemma nth_zs l i : nth (Z.to_nat (Z.of_nat i)) (zs l) 0%Z = Z.of_nat (getn l i).
Proof. rewrite Nat2Z.id. unfold zs, getn. change 0%Z with (Z.of_nat 0). apply map_nth. Qed.
Lemma inb_nat {A} (l : list A) i : inb (Z.of_nat i) l = (i <? length l)%nat.
Proof.
  unfold inb. destruct (i <? length l)%nat eqn:E.
  - apply Nat.ltb_lt in E. apply andb_true_intro. split; [apply Z.leb_le; lia|apply Z.ltb_lt; lia].
  - apply Nat.ltb_ge in E. apply andb_false_intro2. apply Z.ltb_ge. lia.
Qed.
Lemma inb_true {A} (l : list A) i : (i < length l)%nat -> inb (Z.of_nat i) l = true.
Proof. intro H. rewrite inb_nat. apply Nat.ltb_lt. exact H. Qed.

Lemma nth_upd_nth {A} (d : A) : forall (l : list A) i k v,
  nth k (upd_nth l i v) d = if (k =? i)%nat && (i <? length l)%nat then v else nth k l d.
Proof.
  induction l as [|x l IH]; intros i k v.
  - cbn [length]. replace (i <? 0)%nat with false by (symmetry; apply Nat.ltb_ge; lia).
    rewrite andb_false_r. destruct i; reflexivity.
  - destruct i as [|i], k as [|k]; cbn [upd_nth nth length Nat.eqb]; try reflexivity.
    rewrite IH. change (S i <? S (length l))%nat with (i <? length l)%nat. reflexivity.
Qed.

Lemma amax_loop_lt {T} {NT : Num T} (vals : list (ext T)) : forall cnt m j,
  (m < j)%nat -> (amax_loop vals m j cnt < j + cnt)%nat.
Proof.
  induction cnt as [|c IH]; intros m j H; cbn [amax_loop]; [lia|].
  destruct (ext_gtb (gete vals j) (gete vals m)).
  - specialize (IH j (S j) ltac:(lia)). lia.
  - specialize (IH m (S j) ltac:(lia)). lia.
Qed.

(* sequential in-place stores out[s] = g(entry s) for s = i .. i+f-1, and their closed form *)
Definition stepG {A B} (entry : nat -> option B) (g : B -> A) (out : list A) (s : nat) : list A :=
  match entry s with Some b => upd_nth out s (g b) | None => out end.
Definition overlay {A B} (g : B -> A) (out : list A) (upd : list (option B)) : list A :=
  map2 (fun b o => match o with Some x => g x | None => b end) out upd.

Lemma stepG_length {A B} (entry : nat -> option B) (g : B -> A) out s : length (stepG entry g out s) = length out.
Proof. unfold stepG. destruct (entry s); [apply upd_nth_length|reflexivity]. Qed.
Lemma fold_stepG_length {A B} (entry : nat -> option B) (g : B -> A) : forall f i out,
  length (fold_left (stepG entry g) (seq i f) out) = length out.
Proof. induction f as [|f IH]; intros i out; cbn [seq fold_left]; [reflexivity|]. rewrite IH. apply stepG_length. Qed.

Lemma upd_nth_app {A} (pre : list A) x rest v : upd_nth (pre ++ x :: rest) (length pre) v = pre ++ v :: rest.
Proof. induction pre as [|p pre IH]; cbn; [reflexivity|]. rewrite IH. reflexivity. Qed.

Lemma fold_stepG_overlay {A B} (entry : nat -> option B) (g : B -> A) : forall f i pre rest,
  length pre = i -> length rest = f ->
  fold_left (stepG entry g) (seq i f) (pre ++ rest) = pre ++ overlay g rest (map entry (seq i f)).
Proof.
  induction f as [|f IH]; intros i pre rest Hp Hr.
  - destruct rest; [reflexivity|discriminate].
  - destruct rest as [|x rest]; [discriminate|]. cbn [seq fold_left map overlay map2].
    set (y := match entry i with Some b => g b | None => x end).
    assert (E : stepG entry g (pre ++ x :: rest) i = (pre ++ [y]) ++ rest).
    { unfold stepG, y. rewrite <- app_assoc. cbn [app]. destruct (entry i); [|reflexivity].
      rewrite <- Hp. apply upd_nth_app. }
    rewrite E, (IH (S i) (pre ++ [y]) rest) by (try rewrite app_length; cbn in *; lia).
    rewrite <- app_assoc. reflexivity.
Qed.
Lemma fold_stepG_overlay0 {A B} (entry : nat -> option B) (g : B -> A) out :
  fold_left (stepG entry g) (seq 0 (length out)) out = overlay g out (map entry (seq 0 (length out))).
Proof. apply (fold_stepG_overlay entry g (length out) 0%nat [] out); reflexivity. Qed.

Section Arg.
Context {T : Type} (NT : Num T).
Variable vals : list (ext T).

Lemma argmax_loop1_tie : forall fuel j m ok,
  (m < j)%nat ->
  fst (@gen_s_wise_max_argmax_loop1 (ext T) (NumExt NT) fuel (Z.of_nat j) (Z.of_nat m) ok vals)
    = Z.of_nat (amax_loop vals m j fuel) /\
  (ok = true -> (j + fuel <= length vals)%nat ->
   snd (@gen_s_wise_max_argmax_loop1 (ext T) (NumExt NT) fuel (Z.of_nat j) (Z.of_nat m) ok vals) = true).
Proof.
  induction fuel as [|f IH]; intros j m ok Hm; cbn [gen_s_wise_max_argmax_loop1 amax_loop].
  - split; [reflexivity|]. intros -> _. reflexivity.
  - rewrite !Nat2Z.id. cbn [nltb nzero NumExt]. fold (gete vals m). fold (gete vals j).
    replace (Z.of_nat j + 1)%Z with (Z.of_nat (S j)) by lia.
    destruct (ext_gtb (gete vals j) (gete vals m)).
    + destruct (IH (S j) j (ok && (inb (Z.of_nat j) vals && inb (Z.of_nat m) vals)) ltac:(lia)) as [H1 H2].
      split; [exact H1|]. intros -> Hlen. apply H2; [|lia]. rewrite !inb_true by lia. reflexivity.
    + destruct (IH (S j) m (ok && (inb (Z.of_nat j) vals && inb (Z.of_nat m) vals)) ltac:(lia)) as [H1 H2].
      split; [exact H1|]. intros -> Hlen. apply H2; [|lia]. rewrite !inb_true by lia. reflexivity.
Qed.
End Arg.

(* ------------------------------------------------------------------ *)

Lemma Zeqb_nat a b : (Z.of_nat a =? Z.of_nat b)%Z = (a =? b)%nat.
Proof.
  destruct (a =? b)%nat eqn:E.
  - apply Nat.eqb_eq in E. subst. apply Z.eqb_refl.
  - apply Nat.eqb_neq in E. apply Z.eqb_neq. lia.
Qed.
Lemma Zsub_nat hi lo : Z.to_nat (Z.of_nat hi - (Z.of_nat lo + 1)) = (hi - S lo)%nat.
Proof. lia. Qed.

Section Arg0.
Context {T : Type} (NT : Num T).
Variables (aidx indptr : list nat) (vals : list (ext T)).

Definition entryM (s : nat) : option (ext T * nat) :=
  let lo := getn indptr s in let hi := getn indptr (S s) in
  if (lo =? hi)%nat then None
  else let m := seg_argmax vals lo hi in Some (gete vals m, getn aidx m).
Definition step_max := stepG entryM (@fst (ext T) nat).
Definition step_arg := stepG entryM (fun p : ext T * nat => Z.of_nat (snd p)).
(* CSR well-formedness of state s (what the constructor establishes) + room in the output arrays *)
Definition wf_state (lm la s : nat) : Prop :=
  (S s < length indptr)%nat /\ (getn indptr s <= getn indptr (S s) <= length vals)%nat /\
  (getn indptr (S s) <= length aidx)%nat /\ (s < lm)%nat /\ (s < la)%nat.

Lemma step_max_eq om s : step_max om s =
  if (getn indptr s =? getn indptr (S s))%nat then om
  else upd_nth om s (gete vals (seg_argmax vals (getn indptr s) (getn indptr (S s)))).
Proof. unfold step_max, stepG, entryM. cbv zeta. destruct (_ =? _)%nat; reflexivity. Qed.
Lemma step_arg_eq oa s : step_arg oa s =
  if (getn indptr s =? getn indptr (S s))%nat then oa
  else upd_nth oa s (Z.of_nat (getn aidx (seg_argmax vals (getn indptr s) (getn indptr (S s))))).
Proof. unfold step_arg, stepG, entryM. cbv zeta. destruct (_ =? _)%nat; reflexivity. Qed.

Lemma argmax_loop0_tie : forall fuel i om oa ok,
  let r := @gen_s_wise_max_argmax_loop0 (ext T) (NumExt NT) fuel (Z.of_nat i) om oa ok (zs aidx) (zs indptr) vals in
  fst (fst r) = fold_left step_max (seq i fuel) om /\
  snd (fst r) = fold_left step_arg (seq i fuel) oa /\
  (ok = true -> (forall s, (i <= s < i + fuel)%nat -> wf_state (length om) (length oa) s) -> snd r = true).
Proof.
  induction fuel as [|f IH]; intros i om oa ok; cbn [gen_s_wise_max_argmax_loop0 seq fold_left].
  - cbn. repeat split. intros -> _. reflexivity.
  - replace (Z.of_nat i + 1)%Z with (Z.of_nat (S i)) by lia. rewrite !nth_zs, Zeqb_nat.
    rewrite step_max_eq, step_arg_eq.
    destruct (getn indptr i =? getn indptr (S i))%nat eqn:E; cbn [negb].
    + specialize (IH (S i) om oa (ok && (inb (Z.of_nat i) (zs indptr) && inb (Z.of_nat (S i)) (zs indptr)))).
      cbv zeta in IH. destruct IH as (H1 & H2 & H3). split; [exact H1|]. split; [exact H2|].
      intros -> Hwf. apply H3.
      * destruct (Hwf i ltac:(lia)) as (W1 & _). rewrite !inb_true by (rewrite zs_length; lia). reflexivity.
      * intros s Hs. apply Hwf. lia.
    + rewrite Zsub_nat. replace (Z.of_nat (getn indptr i) + 1)%Z with (Z.of_nat (S (getn indptr i))) by lia.
      set (lo := getn indptr i) in *. set (hi := getn indptr (S i)) in *.
      set (ok3 := (ok && (inb (Z.of_nat i) (zs indptr) && inb (Z.of_nat (S i)) (zs indptr)) && inb (Z.of_nat i) (zs indptr) &&
                   inb (Z.of_nat i) (zs indptr) && inb (Z.of_nat (S i)) (zs indptr))).
      destruct (argmax_loop1_tie NT vals (hi - S lo) (S lo) lo ok3 ltac:(lia)) as [L1 L2].
      destruct (@gen_s_wise_max_argmax_loop1 (ext T) (NumExt NT) (hi - S lo) (Z.of_nat (S lo)) (Z.of_nat lo) ok3 vals) as [m' ok4].
      cbn [fst snd] in L1, L2. subst m'. fold (seg_argmax vals lo hi).
      rewrite nth_zs, !Nat2Z.id. cbn [nzero NumExt]. unfold gete.
      match goal with |- context [gen_s_wise_max_argmax_loop0 f _ ?om' ?oa' ?ok' _ _ _] =>
        specialize (IH (S i) om' oa' ok') end.
      cbv zeta in IH. destruct IH as (H1 & H2 & H3). split; [exact H1|]. split; [exact H2|].
      intros -> Hwf. apply H3.
      * destruct (Hwf i ltac:(lia)) as (W1 & W2 & W3 & W4 & W5). fold lo hi in W2, W3.
        apply Nat.eqb_neq in E.
        assert (Hm : (seg_argmax vals lo hi < hi)%nat).
        { unfold seg_argmax. pose proof (amax_loop_lt vals (hi - S lo) lo (S lo) ltac:(lia)). lia. }
        assert (ok3 = true) by (unfold ok3; rewrite !inb_true by (rewrite zs_length; lia); reflexivity).
        rewrite L2 by (try assumption; lia).
        rewrite !inb_true by (rewrite ?zs_length; lia). reflexivity.
      * intros s Hs. rewrite !upd_nth_length. apply Hwf. lia.
Qed.

(* CSR well-formedness the model's constructor establishes: n+1 pointers, monotone, within vals / a_indices *)
Definition csr_wf (n : nat) : Prop :=
  (n < length indptr)%nat /\
  forall s, (s < n)%nat -> (getn indptr s <= getn indptr (S s) <= length vals)%nat /\ (getn indptr (S s) <= length aidx)%nat.

Theorem gen_s_wise_max_argmax_tie (om : list (ext T)) (oa : list Z) :
  length oa = length om ->
  fst (@gen_s_wise_max_argmax (ext T) (NumExt NT) (zs aidx) (zs indptr) vals om oa) =
    (overlay (@fst (ext T) nat) om (s_wise_max_argmax aidx indptr vals (length om)),
     overlay (fun p : ext T * nat => Z.of_nat (snd p)) oa (s_wise_max_argmax aidx indptr vals (length om))) /\
  (csr_wf (length om) -> snd (@gen_s_wise_max_argmax (ext T) (NumExt NT) (zs aidx) (zs indptr) vals om oa) = true).
Proof.
  intro HL. unfold gen_s_wise_max_argmax. cbv zeta.
  replace (Z.to_nat (Z.of_nat (length om) - 0)) with (length om) by lia.
  pose proof (argmax_loop0_tie (length om) 0%nat om oa true) as H. cbv zeta in H. change (Z.of_nat 0) with 0%Z in H.
  destruct (@gen_s_wise_max_argmax_loop0 (ext T) (NumExt NT) (length om) 0%Z om oa true (zs aidx) (zs indptr) vals) as [[om' oa'] ok'].
  cbn [fst snd] in *. destruct H as (H1 & H2 & H3). split.
  - subst om' oa'. unfold step_max, step_arg. f_equal; [apply fold_stepG_overlay0|].
    rewrite <- HL. apply fold_stepG_overlay0.
  - intros (W1 & W2). apply H3; [reflexivity|]. intros s Hs. destruct (W2 s ltac:(lia)) as [A B].
    unfold wf_state. repeat split; try lia.
Qed.
End Arg0.

(* ------------------------------------------------------------------ *)

Section Max.
Context {T : Type} (NT : Num T).
Variables (aidx indptr : list nat) (vals : list (ext T)).

Lemma max_loop1_eq : forall fuel j m ok,
  @gen_s_wise_max_loop1 (ext T) (NumExt NT) fuel j m ok vals =
  @gen_s_wise_max_argmax_loop1 (ext T) (NumExt NT) fuel j m ok vals.
Proof.
  induction fuel as [|f IH]; intros j m ok; cbn [gen_s_wise_max_loop1 gen_s_wise_max_argmax_loop1]; [reflexivity|].
  destruct (nltb _ _); apply IH.
Qed.

Definition entryX (s : nat) : option (ext T) := option_map (@fst (ext T) nat) (entryM NT aidx indptr vals s).
Definition step_mx := stepG entryX (fun x : ext T => x).
Lemma step_mx_eq om s : step_mx om s =
  if (getn indptr s =? getn indptr (S s))%nat then om
  else upd_nth om s (gete vals (seg_argmax vals (getn indptr s) (getn indptr (S s)))).
Proof. unfold step_mx, stepG, entryX, entryM. cbv zeta. destruct (_ =? _)%nat; reflexivity. Qed.

Definition wf_state1 (lm s : nat) : Prop :=
  (S s < length indptr)%nat /\ (getn indptr s <= getn indptr (S s) <= length vals)%nat /\ (s < lm)%nat.

Lemma max_loop0_tie : forall fuel i om ok,
  let r := @gen_s_wise_max_loop0 (ext T) (NumExt NT) fuel (Z.of_nat i) om ok (zs indptr) vals in
  fst r = fold_left step_mx (seq i fuel) om /\
  (ok = true -> (forall s, (i <= s < i + fuel)%nat -> wf_state1 (length om) s) -> snd r = true).
Proof.
  induction fuel as [|f IH]; intros i om ok; cbn [gen_s_wise_max_loop0 seq fold_left].
  - cbn. split; [reflexivity|]. intros -> _. reflexivity.
  - replace (Z.of_nat i + 1)%Z with (Z.of_nat (S i)) by lia. rewrite !nth_zs, Zeqb_nat.
    rewrite step_mx_eq.
    destruct (getn indptr i =? getn indptr (S i))%nat eqn:E; cbn [negb].
    + specialize (IH (S i) om (ok && (inb (Z.of_nat i) (zs indptr) && inb (Z.of_nat (S i)) (zs indptr)))).
      cbv zeta in IH. destruct IH as (H1 & H3). split; [exact H1|].
      intros -> Hwf. apply H3.
      * destruct (Hwf i ltac:(lia)) as (W1 & _). rewrite !inb_true by (rewrite zs_length; lia). reflexivity.
      * intros s Hs. apply Hwf. lia.
    + rewrite Zsub_nat. replace (Z.of_nat (getn indptr i) + 1)%Z with (Z.of_nat (S (getn indptr i))) by lia.
      set (lo := getn indptr i) in *. set (hi := getn indptr (S i)) in *.
      set (ok3 := (ok && (inb (Z.of_nat i) (zs indptr) && inb (Z.of_nat (S i)) (zs indptr)) && inb (Z.of_nat i) (zs indptr) &&
                   inb (Z.of_nat i) (zs indptr) && inb (Z.of_nat (S i)) (zs indptr))).
      rewrite max_loop1_eq.
      destruct (argmax_loop1_tie NT vals (hi - S lo) (S lo) lo ok3 ltac:(lia)) as [L1 L2].
      destruct (@gen_s_wise_max_argmax_loop1 (ext T) (NumExt NT) (hi - S lo) (Z.of_nat (S lo)) (Z.of_nat lo) ok3 vals) as [m' ok4].
      cbn [fst snd] in L1, L2. subst m'. fold (seg_argmax vals lo hi).
      rewrite !Nat2Z.id. cbn [nzero NumExt]. unfold gete.
      match goal with |- context [gen_s_wise_max_loop0 f _ ?om' ?ok' _ _] =>
        specialize (IH (S i) om' ok') end.
      cbv zeta in IH. destruct IH as (H1 & H3). split; [exact H1|].
      intros -> Hwf. apply H3.
      * destruct (Hwf i ltac:(lia)) as (W1 & W2 & W4). fold lo hi in W2.
        apply Nat.eqb_neq in E.
        assert (Hm : (seg_argmax vals lo hi < hi)%nat).
        { unfold seg_argmax. pose proof (amax_loop_lt vals (hi - S lo) lo (S lo) ltac:(lia)). lia. }
        assert (ok3 = true) by (unfold ok3; rewrite !inb_true by (rewrite zs_length; lia); reflexivity).
        rewrite L2 by (try assumption; lia).
        rewrite !inb_true by (rewrite ?zs_length; lia). reflexivity.
      * intros s Hs. rewrite !upd_nth_length. apply Hwf. lia.
Qed.

Theorem gen_s_wise_max_tie (om : list (ext T)) :
  fst (@gen_s_wise_max (ext T) (NumExt NT) (zs aidx) (zs indptr) vals om) =
    overlay (fun x : ext T => x) om (s_wise_max aidx indptr vals (length om)) /\
  ((length om < length indptr)%nat ->
   (forall s, (s < length om)%nat -> (getn indptr s <= getn indptr (S s) <= length vals)%nat) ->
   snd (@gen_s_wise_max (ext T) (NumExt NT) (zs aidx) (zs indptr) vals om) = true).
Proof.
  unfold gen_s_wise_max. cbv zeta.
  replace (Z.to_nat (Z.of_nat (length om) - 0)) with (length om) by lia.
  pose proof (max_loop0_tie (length om) 0%nat om true) as H. cbv zeta in H. change (Z.of_nat 0) with 0%Z in H.
  destruct (@gen_s_wise_max_loop0 (ext T) (NumExt NT) (length om) 0%Z om true (zs indptr) vals) as [om' ok'].
  cbn [fst snd] in *. destruct H as (H1 & H3). split.
  - subst om'. unfold step_mx. rewrite fold_stepG_overlay0. unfold s_wise_max, s_wise_max_argmax. rewrite map_map. reflexivity.
  - intros W1 W2. apply H3; [reflexivity|]. intros s Hs. specialize (W2 s ltac:(lia)).
    unfold wf_state1. repeat split; lia.
Qed.
End Max.

(* ------------------------------------------------------------------ *)

Lemma upd_nth_twice {A} : forall (l : list A) i x y, upd_nth (upd_nth l i x) i y = upd_nth l i y.
Proof. induction l as [|a l IH]; intros [|i] x y; cbn; try reflexivity. rewrite IH. reflexivity. Qed.

Lemma find_last_some aidx a : forall cnt j c,
  find_last aidx a j cnt (Some c) = Some (match find_last aidx a j cnt None with Some r => r | None => c end).
Proof.
  induction cnt as [|n IH]; intros j c; cbn [find_last]; [reflexivity|].
  destruct (a =? getn aidx j)%nat.
  - rewrite (IH (S j) j). reflexivity.
  - apply IH.
Qed.

Section Find.
Variables (aidx indptr sigma : list nat).

Lemma find_loop1_tie (i : nat) : forall fuel j out ok,
  let r := gen_find_indices_loop1 fuel (Z.of_nat j) out ok (zs aidx) (zs sigma) (Z.of_nat i) in
  fst r = match find_last aidx (getn sigma i) j fuel None with
          | Some x => upd_nth out i (Z.of_nat x) | None => out end /\
  (ok = true -> (i < length sigma)%nat -> (i < length out)%nat -> (j + fuel <= length aidx)%nat -> snd r = true).
Proof.
  induction fuel as [|f IH]; intros j out ok; cbn [gen_find_indices_loop1 find_last].
  - cbn. split; [reflexivity|]. intros -> _ _ _. reflexivity.
  - rewrite !nth_zs, Zeqb_nat, ?Nat2Z.id. replace (Z.of_nat j + 1)%Z with (Z.of_nat (S j)) by lia.
    destruct (getn sigma i =? getn aidx j)%nat.
    + match goal with |- context [gen_find_indices_loop1 f _ ?o' ?ok' _ _ _] => specialize (IH (S j) o' ok') end.
      cbv zeta in IH. destruct IH as [H1 H2]. split.
      * rewrite H1, find_last_some. destruct (find_last aidx (getn sigma i) (S j) f None); [apply upd_nth_twice|reflexivity].
      * intros -> A B C. apply H2; try lia; [|rewrite upd_nth_length; lia].
        rewrite !inb_true by (rewrite ?zs_length; lia). reflexivity.
    + match goal with |- context [gen_find_indices_loop1 f _ ?o' ?ok' _ _ _] => specialize (IH (S j) o' ok') end.
      cbv zeta in IH. destruct IH as [H1 H2]. split; [exact H1|].
      intros -> A B C. apply H2; try lia. rewrite !inb_true by (rewrite ?zs_length; lia). reflexivity.
Qed.

Definition entryF (s : nat) : option nat :=
  find_last aidx (getn sigma s) (getn indptr s) (getn indptr (S s) - getn indptr s) None.
Definition step_f := stepG entryF Z.of_nat.

Lemma find_loop0_tie : forall fuel i out ok,
  let r := gen_find_indices_loop0 fuel (Z.of_nat i) out ok (zs aidx) (zs indptr) (zs sigma) in
  fst r = fold_left step_f (seq i fuel) out /\
  (ok = true ->
   (forall s, (i <= s < i + fuel)%nat ->
      (S s < length indptr)%nat /\ (getn indptr s <= getn indptr (S s) <= length aidx)%nat /\
      (s < length sigma)%nat /\ (s < length out)%nat) -> snd r = true).
Proof.
  induction fuel as [|f IH]; intros i out ok; cbn [gen_find_indices_loop0 seq fold_left].
  - cbn. split; [reflexivity|]. intros -> _. reflexivity.
  - replace (Z.of_nat i + 1)%Z with (Z.of_nat (S i)) by lia. rewrite !nth_zs.
    replace (Z.to_nat (Z.of_nat (getn indptr (S i)) - Z.of_nat (getn indptr i))) with (getn indptr (S i) - getn indptr i)%nat by lia.
    set (ok1 := ok && inb (Z.of_nat i) (zs indptr) && inb (Z.of_nat (S i)) (zs indptr)).
    destruct (find_loop1_tie i (getn indptr (S i) - getn indptr i) (getn indptr i) out ok1) as [L1 L2].
    destruct (gen_find_indices_loop1 (getn indptr (S i) - getn indptr i) (Z.of_nat (getn indptr i)) out ok1 (zs aidx) (zs sigma) (Z.of_nat i)) as [out' ok'].
    cbn [fst snd] in L1, L2.
    specialize (IH (S i) out' ok'). cbv zeta in IH. destruct IH as [H1 H2]. split.
    + rewrite H1. f_equal. rewrite L1. reflexivity.
    + intros -> Hwf. apply H2.
      * destruct (Hwf i ltac:(lia)) as (W1 & W2 & W3 & W4). apply L2; try lia.
        unfold ok1. rewrite !inb_true by (rewrite zs_length; lia). reflexivity.
      * intros s Hs. replace (length out') with (length out); [apply Hwf; lia|].
        rewrite L1. destruct (find_last _ _ _ _ _); [rewrite upd_nth_length|]; reflexivity.
Qed.

Theorem gen_find_indices_tie (out : list Z) :
  length out = length sigma ->
  fst (gen_find_indices (zs aidx) (zs indptr) (zs sigma) out) =
    overlay Z.of_nat out (find_indices aidx indptr (length sigma) sigma) /\
  ((length sigma < length indptr)%nat ->
   (forall s, (s < length sigma)%nat -> (getn indptr s <= getn indptr (S s) <= length aidx)%nat) ->
   snd (gen_find_indices (zs aidx) (zs indptr) (zs sigma) out) = true).
Proof.
  intro HL. unfold gen_find_indices. cbv zeta. rewrite zs_length.
  replace (Z.to_nat (Z.of_nat (length sigma) - 0)) with (length sigma) by lia.
  pose proof (find_loop0_tie (length sigma) 0%nat out true) as H. cbv zeta in H. change (Z.of_nat 0) with 0%Z in H.
  destruct (gen_find_indices_loop0 (length sigma) 0%Z out true (zs aidx) (zs indptr) (zs sigma)) as [out' ok'].
  cbn [fst snd] in *. destruct H as [H1 H2]. split.
  - subst out'. unfold step_f. rewrite <- HL. rewrite fold_stepG_overlay0. rewrite HL. reflexivity.
  - intros W1 W2. apply H2; [reflexivity|]. intros s Hs. specialize (W2 s ltac:(lia)). repeat split; lia.
Qed.
End Find.

(* ------------------------------------------------------------------ *)

Section GAI.
Variable sidx : list nat.
Local Notation L := (length sidx).

Lemma gai_inner_tie (s : nat) : forall fuel idx ok r,
  gai_while fuel sidx L s idx = RVal r ->
  fst (gen_generate_a_indptr_loop1 fuel (Z.of_nat idx) ok (zs sidx) (Z.of_nat L) (Z.of_nat s)) = Z.of_nat r.
Proof.
  induction fuel as [|f IH]; intros idx ok r H; cbn [gai_while] in H; [discriminate|].
  cbn [gen_generate_a_indptr_loop1]. rewrite nth_zs, Zeqb_nat.
  replace (Z.of_nat idx <? Z.of_nat L)%Z with (idx <? L)%nat
    by (destruct (idx <? L)%nat eqn:E; symmetry; [apply Nat.ltb_lt in E; apply Z.ltb_lt; lia|apply Nat.ltb_ge in E; apply Z.ltb_ge; lia]).
  destruct (idx <? L)%nat eqn:E.
  - apply Nat.ltb_lt in E. rewrite (nth_error_nth' sidx 0%nat E) in H. fold (getn sidx idx) in H. cbn [andb].
    destruct (getn sidx idx =? s)%nat.
    + replace (Z.of_nat idx + 1)%Z with (Z.of_nat (S idx)) by lia. apply IH. exact H.
    + inversion H. reflexivity.
  - inversion H. reflexivity.
Qed.

Lemma gai_for_length : forall ss idx r, gai_for sidx L ss idx = RVal r -> length r = length ss.
Proof.
  induction ss as [|s ss IH]; intros idx r H; cbn [gai_for] in H; [inversion H; reflexivity|].
  destruct (gai_while (S L) sidx L s idx) as [i'| |]; try discriminate.
  destruct (gai_for sidx L ss i') as [r'| |] eqn:E; try discriminate.
  inversion H. cbn. f_equal. eapply IH. exact E.
Qed.

Lemma gai_outer_tie : forall f s idx pre rest ok r,
  length pre = S s -> (f <= length rest)%nat ->
  gai_for sidx L (seq s f) idx = RVal r ->
  snd (fst (gen_generate_a_indptr_loop0 f (Z.of_nat s) (Z.of_nat idx) (pre ++ rest) ok (zs sidx) (Z.of_nat L)))
    = pre ++ zs r ++ skipn f rest.
Proof.
  induction f as [|f IH]; intros s idx pre rest ok r Hp Hr H; cbn [seq gai_for] in H.
  - inversion H. reflexivity.
  - destruct (gai_while (S L) sidx L s idx) as [i'| |] eqn:E1; try discriminate.
    destruct (gai_for sidx L (seq (S s) f) i') as [r'| |] eqn:E2; try discriminate.
    inversion H; subst r. clear H.
    cbn [gen_generate_a_indptr_loop0]. rewrite zs_length.
    pose proof (gai_inner_tie s (S L) idx ok i' E1) as T1.
    destruct (gen_generate_a_indptr_loop1 (S L) (Z.of_nat idx) ok (zs sidx) (Z.of_nat L) (Z.of_nat s)) as [idx' ok'].
    cbn [fst] in T1. subst idx'.
    destruct rest as [|y rest]; [cbn in Hr; lia|].
    replace (Z.to_nat (Z.of_nat s + 1)) with (length pre) by lia. rewrite upd_nth_app.
    replace (Z.of_nat s + 1)%Z with (Z.of_nat (S s)) by lia.
    change (pre ++ Z.of_nat i' :: rest) with (pre ++ [Z.of_nat i'] ++ rest). rewrite app_assoc.
    rewrite (IH (S s) i' (pre ++ [Z.of_nat i']) rest _ r') by (try rewrite app_length; cbn in *; try lia; exact E2).
    rewrite <- app_assoc. reflexivity.
Qed.

(* _generate_a_indptr as it reads now writes exactly the model's pointer array *)
Theorem gen_generate_a_indptr_tie (n : nat) (out : list Z) p :
  length out = S n -> generate_a_indptr n sidx = RVal p ->
  fst (gen_generate_a_indptr (Z.of_nat n) (zs sidx) out) = zs p.
Proof.
  intros HL H. unfold generate_a_indptr in H. unfold gen_generate_a_indptr. cbv zeta. rewrite zs_length.
  destruct n as [|n'].
  - inversion H; subst p. destruct out as [|x [|? ?]]; try discriminate. reflexivity.
  - destruct (gai_for sidx L (seq 0 n') 0%nat) as [r| |] eqn:E; try discriminate. inversion H; subst p. clear H.
    destruct out as [|x rest]; [discriminate|]. cbn [Z.to_nat upd_nth].
    replace (Z.to_nat (Z.of_nat (S n') - 1 - 0)) with n' by lia.
    pose proof (gai_outer_tie n' 0%nat 0%nat [0%Z] rest (true && inb 0 (x :: rest)) r eq_refl ltac:(cbn in HL; lia) E) as T1.
    change (Z.of_nat 0) with 0%Z in T1. change ([0%Z] ++ rest) with (0%Z :: rest) in T1 at 1.
    destruct (gen_generate_a_indptr_loop0 n' 0 0 (0%Z :: rest) (true && inb 0 (x :: rest)) (zs sidx) (Z.of_nat L)) as [[idx' out'] ok'].
    cbn [fst snd] in *. subst out'.
    pose proof (gai_for_length _ _ _ E) as Lr. rewrite seq_length in Lr.
    assert (Hs : exists z, skipn n' rest = [z]).
    { assert (length (skipn n' rest) = 1%nat) by (rewrite skipn_length; cbn in HL; lia).
      destruct (skipn n' rest) as [|z [|? ?]]; try discriminate. eauto. }
    destruct Hs as [z ->].
    replace (Z.to_nat (Z.of_nat (S n'))) with (length ([0%Z] ++ zs r)) by (rewrite app_length, zs_length; cbn; lia).
    rewrite app_assoc, upd_nth_app, <- app_assoc. unfold zs. cbn [map app]. rewrite map_app. reflexivity.
Qed.
End GAI.

(* ------------------------------------------------------------------ *)
Open Scope Z_scope.

Lemma nth_cons_Z {A} (d x : A) l k : 0 <= k -> nth (Z.to_nat (k + 1)) (x :: l) d = nth (Z.to_nat k) l d.
Proof. intro H. replace (Z.to_nat (k + 1)) with (S (Z.to_nat k)) by lia. reflexivity. Qed.
Lemma inb_cons_Z {A} (x : A) l k : 0 <= k -> inb (k + 1) (x :: l) = inb k l.
Proof.
  intro H. unfold inb. cbn [length]. rewrite Nat2Z.inj_succ.
  replace (0 <=? k + 1) with true by (symmetry; apply Z.leb_le; lia).
  replace (0 <=? k) with true by (symmetry; apply Z.leb_le; lia). cbn [andb].
  destruct (Z.ltb_spec (k + 1) (Z.succ (Z.of_nat (length l)))), (Z.ltb_spec k (Z.of_nat (length l))); try reflexivity; lia.
Qed.

Lemma hs_shift : forall fuel i ok x y s a, 0 <= i ->
  gen_has_sorted_sa_indices_loop0 fuel (i + 1) ok (x :: s) (y :: a) =
  gen_has_sorted_sa_indices_loop0 fuel i ok s a.
Proof.
  induction fuel as [|f IH]; intros i ok x y s a Hi; cbn [gen_has_sorted_sa_indices_loop0]; [reflexivity|].
  rewrite !nth_cons_Z, !inb_cons_Z by lia.
  destruct (_ >? _); [reflexivity|]. destruct (_ =? _).
  - destruct (_ >=? _); [reflexivity|]. apply IH. lia.
  - apply IH. lia.
Qed.

Lemma Zgtb_nat a b : (Z.of_nat a >? Z.of_nat b) = (b <? a)%nat.
Proof. destruct (b <? a)%nat eqn:E; [apply Nat.ltb_lt in E; apply Z.gtb_lt; lia|apply Nat.ltb_ge in E; rewrite Z.gtb_ltb; apply Z.ltb_ge; lia]. Qed.
Lemma Zgeb_nat a b : (Z.of_nat a >=? Z.of_nat b) = (b <=? a)%nat.
Proof. destruct (b <=? a)%nat eqn:E; [apply Nat.leb_le in E; apply Z.geb_le; lia|apply Nat.leb_gt in E; rewrite Z.geb_leb; apply Z.leb_gt; lia]. Qed.

Lemma hs_loop : forall (s a : list nat), length a = length s ->
  gen_has_sorted_sa_indices_loop0 (length s - 1) 0 true (zs s) (zs a) =
  if has_sorted_sa_indices s a then inr true else inl (false, true).
Proof.
  induction s as [|s0 s IH]; intros a HL.
  - reflexivity.
  - destruct a as [|a0 a]; [discriminate|]. destruct s as [|s1 s'].
    + destruct a; [reflexivity|discriminate].
    + destruct a as [|a1 a']; [discriminate|].
      replace (length (s0 :: s1 :: s') - 1)%nat with (S (length (s1 :: s') - 1)) by (cbn [length]; lia).
      cbn [gen_has_sorted_sa_indices_loop0 has_sorted_sa_indices].
      change (0 + 1) with 1. change (Z.to_nat 0) with 0%nat. change (Z.to_nat 1) with 1%nat.
      cbn [zs map nth]. 
      assert (I0 : forall A (x y : A) l, inb 0 (x :: y :: l) = true) by (intros; unfold inb; apply andb_true_intro; split; [apply Z.leb_le|apply Z.ltb_lt]; cbn [length]; lia).
      assert (I1 : forall A (x y : A) l, inb 1 (x :: y :: l) = true) by (intros; unfold inb; apply andb_true_intro; split; [apply Z.leb_le|apply Z.ltb_lt]; cbn [length]; lia).
      rewrite !I0, !I1. cbn [andb].
      rewrite Zgtb_nat, Zeqb_nat, Zgeb_nat.
      destruct (s1 <? s0)%nat; [reflexivity|].
      destruct (s0 =? s1)%nat; cbn [andb].
      * destruct (a1 <=? a0)%nat; [reflexivity|].
        pose proof (hs_shift (length (s1 :: s') - 1) 0 true (Z.of_nat s0) (Z.of_nat a0) (zs (s1 :: s')) (zs (a1 :: a')) ltac:(lia)) as Sh.
        cbn [zs map] in Sh. change (0 + 1) with 1 in Sh. rewrite Sh. apply (IH (a1 :: a')). cbn in *. lia.
      * pose proof (hs_shift (length (s1 :: s') - 1) 0 true (Z.of_nat s0) (Z.of_nat a0) (zs (s1 :: s')) (zs (a1 :: a')) ltac:(lia)) as Sh.
        cbn [zs map] in Sh. change (0 + 1) with 1 in Sh. rewrite Sh. apply (IH (a1 :: a')). cbn in *. lia.
Qed.

(* _has_sorted_sa_indices as it reads now = the model's function, and it reads only inside its arrays
   (the constructor calls it with len(a_indices) = len(s_indices)) *)
Theorem gen_has_sorted_sa_indices_tie (s a : list nat) : length a = length s ->
  gen_has_sorted_sa_indices (zs s) (zs a) = (has_sorted_sa_indices s a, true).
Proof.
  intro HL. unfold gen_has_sorted_sa_indices. cbv zeta. rewrite zs_length.
  replace (Z.to_nat (Z.of_nat (length s) - 1 - 0)) with (length s - 1)%nat by lia.
  rewrite hs_loop by exact HL. destruct (has_sorted_sa_indices s a); reflexivity.
Qed.

From Coq Require Import ZArith QArith Qabs List Bool Arith Lia Lqa Sorted Permutation.
From QE Require Import Base.Num Base.Cases C09.Solve C09.Model C09.Proofs1 C09.Proofs2 C09.Proofs3 C09.Proofs4 C09.Proofs4b C09.Proofs5 C09.Proofs6 C09.Proofs7 C09.Proofs8.
From QE Require Import C09.Proofs9a.
Import ListNotations.

Lemma combine_map_tproj (tr : list (nat * nat * nat)) :
  combine (map tfst tr) (map (fun t : nat * nat * nat => snd (fst t)) tr) = map tproj tr.
Proof. induction tr as [|[[s a] i] tr IH]; cbn; [reflexivity|]. rewrite IH. reflexivity. Qed.

(* what the sa-pair constructor stores: pairs in strict lexicographic order (S' = their states),
   CSR pointers of S', and a data-preserving correspondence between input pairs and stored pairs *)
Record sa_final (n : nat) (sidx aidx : list nat) (R : list (ext Q)) (Qm : list (list Q)) (d' : ddp Q) (S' : list nat) : Prop := {
  sf_n : d_n d' = n;
  sf_prod : d_prod d' = None;
  sf_lenS : length S' = length sidx;
  sf_lenA : length (d_aidx d') = length S';
  sf_lex : StronglySorted lexlt (combine S' (d_aidx d'));
  sf_lt : Forall (fun s => (s < n)%nat) S';
  sf_ptr : d_indptr d' = csr_indptr n S';
  sf_fwd : forall j, (j < length sidx)%nat -> exists k, (k < length S')%nat /\
             nth k S' 0%nat = getn sidx j /\ nth k (d_aidx d') 0%nat = getn aidx j /\
             gete (d_R d') k = gete R j /\ getrow (d_Q d') k = getrow Qm j;
  sf_bwd : forall k, (k < length S')%nat -> exists j, (j < length sidx)%nat /\
             nth k S' 0%nat = getn sidx j /\ nth k (d_aidx d') 0%nat = getn aidx j /\
             gete (d_R d') k = gete R j /\ getrow (d_Q d') k = getrow Qm j }.

Lemma finish_ctor_ok_eq n sidx aidx indptr (R : list (ext Q)) Qm beta prod d :
  finish_ctor n sidx aidx indptr R Qm beta prod = COk d -> d = mkDDP n sidx aidx indptr R Qm beta prod.
Proof. intro H. destruct (finish_ctor_cases n sidx aidx indptr R Qm beta prod) as (_ & Hok & _). apply (Hok d H). Qed.

Theorem mk_sa_final n sidx aidx (R : list (ext Q)) Qm beta d' :
  mk_sa n sidx aidx R Qm beta = COk d' -> exists S', sa_final n sidx aidx R Qm d' S'.
Proof.
  unfold mk_sa, mk_sa_gen. destruct (shapes_ok n sidx aidx R Qm) eqn:Hsh; cbn [negb]; [|discriminate].
  assert (Hshape := Hsh). unfold shapes_ok in Hshape. rewrite !andb_true_iff in Hshape.
  destruct Hshape as ((((L1 & L2) & L3) & _) & Hlt). apply Nat.eqb_eq in L1. apply Nat.eqb_eq in L2. apply Nat.eqb_eq in L3.
  assert (Hall : Forall (fun s => (s < n)%nat) sidx).
  { apply Forall_forall. intros x Hx. rewrite forallb_forall in Hlt. apply Nat.ltb_lt. apply Hlt. exact Hx. }
  destruct (has_sorted_sa_indices sidx aidx) eqn:Hso.
  - rewrite (generate_a_indptr_sorted n sidx (has_sorted_strongly _ _ L1 Hso) Hall).
    intro H. apply finish_ctor_ok_eq in H. subst d'. exists sidx.
    constructor; cbn [d_n d_prod d_aidx d_indptr d_R d_Q]; try reflexivity; try assumption.
    + apply Sorted_StronglySorted; [intros x y z; apply lexlt_trans|]. apply has_sorted_lex; assumption.
    + intros j Hj. exists j. repeat split; try reflexivity. exact Hj.
    + intros k Hk. exists k. repeat split; try reflexivity. exact Hk.
  - destruct (trip_has_dup (trip_sort (zip3 sidx aidx 0))) eqn:Hd; [discriminate|].
    destruct (fill_sidx (csr_indptr n sidx) (seq 0 n)) as [r|i|]; try discriminate.
    intro H. apply finish_ctor_ok_eq in H. subst d'.
    set (tr := trip_sort (zip3 sidx aidx 0)) in *.
    assert (Hperm : Permutation tr (zip3 sidx aidx 0)) by apply trip_sort_perm.
    assert (Ltr : length tr = length sidx) by (unfold tr; rewrite trip_sort_length, zip3_length by exact L1; reflexivity).
    exists (map tfst tr).
    assert (HnthS : forall k, (k < length tr)%nat -> nth k (map tfst tr) 0%nat = tfst (nth k tr (0,0,0)%nat))
      by (intros k Hk; apply (nth_map_in _ _ _ (0,0,0)%nat); exact Hk).
    assert (HnthA : forall k, (k < length tr)%nat ->
              nth k (map (fun t : nat * nat * nat => snd (fst t)) tr) 0%nat = snd (fst (nth k tr (0,0,0)%nat)))
      by (intros k Hk; exact (nth_map_in (fun t : nat * nat * nat => snd (fst t)) tr k (0,0,0)%nat 0%nat Hk)).
    assert (HnthR : forall k, (k < length tr)%nat ->
              gete (map (gete R) (map (fun t : nat * nat * nat => snd t) tr)) k = gete R (snd (nth k tr (0,0,0)%nat))).
    { intros k Hk. unfold gete at 1.
      rewrite (nth_map_in (gete R) (map (fun t : nat * nat * nat => snd t) tr) k 0%nat NegInf) by (rewrite map_length; exact Hk).
      f_equal. exact (nth_map_in (fun t : nat * nat * nat => snd t) tr k (0,0,0)%nat 0%nat Hk). }
    assert (HnthQ : forall k, (k < length tr)%nat ->
              getrow (map (getrow Qm) (map (fun t : nat * nat * nat => snd t) tr)) k = getrow Qm (snd (nth k tr (0,0,0)%nat))).
    { intros k Hk. unfold getrow at 1.
      rewrite (nth_map_in (getrow Qm) (map (fun t : nat * nat * nat => snd t) tr) k 0%nat []) by (rewrite map_length; exact Hk).
      f_equal. exact (nth_map_in (fun t : nat * nat * nat => snd t) tr k (0,0,0)%nat 0%nat Hk). }
    constructor; cbn [d_n d_prod d_aidx d_indptr d_R d_Q]; try reflexivity.
    + rewrite map_length. exact Ltr.
    + rewrite !map_length. reflexivity.
    + rewrite combine_map_tproj. apply Sorted_StronglySorted; [intros x y z; apply lexlt_trans|].
      apply tle_nodup_lex; [apply trip_sort_tle|exact Hd].
    + apply Forall_forall. intros x Hx. apply in_map_iff in Hx. destruct Hx as (t & <- & Ht).
      apply (Permutation_in _ Hperm) in Ht. apply (zip3_In sidx aidx 0 _ L1) in Ht. destruct Ht as (j & Hj & ->).
      unfold tfst. cbn [fst]. rewrite Forall_forall in Hall. apply Hall. apply nth_In. exact Hj.
    + unfold csr_indptr. apply map_ext. intro s. symmetry.
      rewrite (count_lt_perm _ (map tfst (zip3 sidx aidx 0)) s) by (apply Permutation_map; exact Hperm).
      rewrite zip3_firsts by exact L1. reflexivity.
    + intros j Hj.
      assert (Hin : In (nth j sidx 0%nat, nth j aidx 0%nat, j) tr).
      { apply (Permutation_in _ (Permutation_sym Hperm)). apply (zip3_In sidx aidx 0 _ L1). exists j. split; [exact Hj|reflexivity]. }
      apply In_nth with (d := (0,0,0)%nat) in Hin. destruct Hin as (k & Hk & Ek).
      exists k. rewrite map_length. split; [exact Hk|].
      rewrite HnthS, HnthA, HnthR, HnthQ by exact Hk. rewrite Ek. repeat split.
    + intros k Hk. rewrite map_length in Hk.
      pose proof (nth_In tr (0,0,0)%nat Hk) as Hin. apply (Permutation_in _ Hperm) in Hin.
      apply (zip3_In sidx aidx 0 _ L1) in Hin. destruct Hin as (j & Hj & Ej).
      exists j. split; [exact Hj|]. rewrite HnthS, HnthA, HnthR, HnthQ by exact Hk. rewrite Ej. repeat split.
Qed.

(* lookup_pair of a constructed sa ddp is the lookup in the lex-sorted arrays *)
Lemma lookup_pair_final n sidx aidx R Qm d' S' s a :
  sa_final n sidx aidx R Qm d' S' -> (s < n)%nat ->
  lookup_pair d' s a = lookupA S' (d_aidx d') s a.
Proof.
  intros F Hs. unfold lookup_pair, lookupA. rewrite (sf_ptr _ _ _ _ _ _ _ F), !csr_indptr_get by lia. reflexivity.
Qed.
Lemma lookup_pair_oob n sidx aidx R Qm d' S' s a :
  sa_final n sidx aidx R Qm d' S' -> (n <= s)%nat -> lookup_pair d' s a = None.
Proof.
  intros F Hs. unfold lookup_pair. rewrite (sf_ptr _ _ _ _ _ _ _ F).
  assert (E : getn (csr_indptr n S') (S s) = 0%nat).
  { unfold getn, csr_indptr. apply nth_overflow. rewrite map_length, seq_length. lia. }
  rewrite E. reflexivity.
Qed.

(* every input pair is retrievable, with its reward and its transition row ... *)
Theorem mk_sa_lookup n sidx aidx (R : list (ext Q)) Qm beta d' :
  mk_sa n sidx aidx R Qm beta = COk d' ->
  forall j, (j < length sidx)%nat ->
  exists j', lookup_pair d' (getn sidx j) (getn aidx j) = Some j' /\
             gete (d_R d') j' = gete R j /\ getrow (d_Q d') j' = getrow Qm j.
Proof.
  intros H j Hj. destruct (mk_sa_final _ _ _ _ _ _ _ H) as [S' F].
  destruct (sf_fwd _ _ _ _ _ _ _ F j Hj) as (k & Hk & ES & EA & ER & EQ).
  exists k. split; [|split; assumption].
  assert (Hs : (getn sidx j < n)%nat).
  { rewrite <- ES. pose proof (sf_lt _ _ _ _ _ _ _ F) as X. rewrite Forall_forall in X. apply X. apply nth_In. exact Hk. }
  rewrite (lookup_pair_final _ _ _ _ _ _ _ _ _ F Hs), <- ES, <- EA.
  apply (lookupA_self S' (d_aidx d') (sf_lenA _ _ _ _ _ _ _ F) (sf_lex _ _ _ _ _ _ _ F)). exact Hk.
Qed.
(* ... and nothing else is: feasibility is preserved exactly *)
Theorem mk_sa_lookup_inv n sidx aidx (R : list (ext Q)) Qm beta d' s a j' :
  mk_sa n sidx aidx R Qm beta = COk d' -> lookup_pair d' s a = Some j' ->
  exists j, (j < length sidx)%nat /\ getn sidx j = s /\ getn aidx j = a /\
            gete (d_R d') j' = gete R j /\ getrow (d_Q d') j' = getrow Qm j.
Proof.
  intros H Hl. destruct (mk_sa_final _ _ _ _ _ _ _ H) as [S' F].
  destruct (le_lt_dec n s) as [Hge|Hs]; [rewrite (lookup_pair_oob _ _ _ _ _ _ _ _ _ F Hge) in Hl; discriminate|].
  rewrite (lookup_pair_final _ _ _ _ _ _ _ _ _ F Hs) in Hl.
  destruct (lookupA_some S' (d_aidx d') (sf_lenA _ _ _ _ _ _ _ F) (sf_lex _ _ _ _ _ _ _ F) s a j' Hl) as (Hr & ES & EA).
  destruct (sf_bwd _ _ _ _ _ _ _ F j' Hr) as (j & Hj & ES' & EA' & ER & EQ).
  exists j. split; [exact Hj|]. split; [congruence|]. split; [congruence|]. split; assumption.
Qed.

From Coq Require Import ZArith QArith Qabs List Bool Arith Lia Lqa.
From QE Require Import Base.Num Base.Cases C09.Solve C09.Model.
Import ListNotations.

(* ---------- generic list facts ---------- *)
Lemma nth_map_seq {A} (f : nat -> A) (d : A) n i : (i < n)%nat -> nth i (map f (seq 0 n)) d = f i.
Proof.
  intro H. rewrite (nth_indep _ d (f 0%nat)) by (rewrite map_length, seq_length; exact H).
  rewrite (map_nth f (seq 0 n) 0%nat i), seq_nth by exact H. reflexivity.
Qed.

Section Order.
Context {T : Type} {NT : Num T}.
Hypothesis lt_irrefl : forall a : T, nltb a a = false.
Hypothesis lt_trans : forall a b c : T, nltb a b = true -> nltb b c = true -> nltb a c = true.
Hypothesis lt_negtrans : forall a b c : T, nltb a b = true -> nltb a c = true \/ nltb c b = true.

Lemma egt_irrefl (a : ext T) : ext_gtb a a = false.
Proof. destruct a; cbn; auto. Qed.
Lemma egt_trans (a b c : ext T) : ext_gtb a b = true -> ext_gtb b c = true -> ext_gtb a c = true.
Proof. destruct a, b, c; cbn; try congruence. intros H1 H2. eapply lt_trans; eauto. Qed.
Lemma egt_negtrans (a b c : ext T) : ext_gtb a b = true -> ext_gtb a c = true \/ ext_gtb c b = true.
Proof.
  destruct a, b, c; cbn; try congruence; auto.
  intro H. destruct (lt_negtrans _ _ x1 H); auto.
Qed.

Definition amax_inv (vals : list (ext T)) (lo m j : nat) : Prop :=
  (lo <= m < j)%nat /\
  (forall i, (lo <= i < j)%nat -> ext_gtb (gete vals i) (gete vals m) = false) /\
  (forall i, (lo <= i < m)%nat -> ext_gtb (gete vals m) (gete vals i) = true).

Lemma amax_loop_inv vals lo : forall cnt m j,
  amax_inv vals lo m j -> amax_inv vals lo (amax_loop vals m j cnt) (j + cnt).
Proof.
  induction cnt as [|c IH]; intros m j H.
  - rewrite Nat.add_0_r. exact H.
  - cbn [amax_loop]. replace (j + S c)%nat with (S j + c)%nat by lia. apply IH.
    destruct H as (Hr & Hmax & Hfirst).
    destruct (ext_gtb (gete vals j) (gete vals m)) eqn:E.
    + split; [lia|]. split.
      * intros i Hi. destruct (Nat.eq_dec i j) as [->|Hne]; [apply egt_irrefl|].
        destruct (ext_gtb (gete vals i) (gete vals j)) eqn:E2; [|reflexivity].
        rewrite <- (Hmax i) by lia. symmetry. eapply egt_trans; eauto.
      * intros i Hi. destruct (egt_negtrans _ _ (gete vals i) E) as [H1|H1]; [exact H1|].
        rewrite Hmax in H1 by lia. discriminate.
    + split; [lia|]. split.
      * intros i Hi. destruct (Nat.eq_dec i j) as [->|Hne]; [exact E|]. apply Hmax. lia.
      * exact Hfirst.
Qed.

(* _s_wise_max(_argmax) on a non-empty segment [lo, hi): the index m it settles on lies in the
   segment, no entry of the segment is greater than vals[m], and vals[m] is strictly greater
   than every earlier entry of the segment (first maximiser) *)
Lemma seg_argmax_spec vals lo hi : (lo < hi)%nat ->
  amax_inv vals lo (seg_argmax vals lo hi) hi.
Proof.
  intro H. unfold seg_argmax. replace hi with (S lo + (hi - S lo))%nat at 2 by lia.
  apply amax_loop_inv. split; [lia|]. split.
  - intros i Hi. replace i with lo by lia. apply egt_irrefl.
  - intros i Hi. lia.
Qed.

Lemma swise_entry aidx indptr vals n s : (s < n)%nat ->
  nth s (s_wise_max_argmax aidx indptr vals n) None =
  let lo := getn indptr s in let hi := getn indptr (S s) in
  if (lo =? hi)%nat then None else Some (gete vals (seg_argmax vals lo hi), getn aidx (seg_argmax vals lo hi)).
Proof. intro H. unfold s_wise_max_argmax. rewrite nth_map_seq by exact H. reflexivity. Qed.

Theorem swise_max_spec aidx indptr vals n s :
  (s < n)%nat -> (getn indptr s < getn indptr (S s))%nat ->
  exists m, nth s (s_wise_max_argmax aidx indptr vals n) None = Some (gete vals m, getn aidx m) /\
            nth s (s_wise_max aidx indptr vals n) None = Some (gete vals m) /\
            amax_inv vals (getn indptr s) m (getn indptr (S s)).
Proof.
  intros Hs Hseg. exists (seg_argmax vals (getn indptr s) (getn indptr (S s))).
  assert (E : nth s (s_wise_max_argmax aidx indptr vals n) None =
              Some (gete vals (seg_argmax vals (getn indptr s) (getn indptr (S s))),
                    getn aidx (seg_argmax vals (getn indptr s) (getn indptr (S s))))).
  { rewrite swise_entry by exact Hs. cbv zeta.
    destruct (getn indptr s =? getn indptr (S s))%nat eqn:E; [apply Nat.eqb_eq in E; lia|reflexivity]. }
  split; [exact E|]. split.
  - unfold s_wise_max. change (@None (ext T)) with (option_map (@fst (ext T) nat) None).
    rewrite map_nth, E. reflexivity.
  - apply seg_argmax_spec. exact Hseg.
Qed.
End Order.

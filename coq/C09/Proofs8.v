From Coq Require Import ZArith QArith Qabs List Bool Arith Lia Lqa Sorted Permutation.
From QE Require Import Base.Num Base.Cases C09.Solve C09.Model C09.Proofs1 C09.Proofs2 C09.Proofs3 C09.Proofs4 C09.Proofs4b C09.Proofs5 C09.Proofs6 C09.Proofs7.
Import ListNotations.

(* ---------- insertion sort of the (s, a, position) triples ---------- *)
Definition tfst (t : nat * nat * nat) : nat := fst (fst t).
Lemma trip_insert_perm p : forall l, Permutation (trip_insert p l) (p :: l).
Proof.
  induction l as [|q l IH]; cbn [trip_insert]; [apply Permutation_refl|].
  destruct (trip_ltb p q); [apply Permutation_refl|].
  eapply Permutation_trans; [apply perm_skip; exact IH|apply perm_swap].
Qed.
Lemma trip_sort_perm l : Permutation (trip_sort l) l.
Proof.
  induction l as [|p l IH]; cbn [trip_sort fold_right]; [apply Permutation_refl|]. fold (trip_sort l).
  eapply Permutation_trans; [apply trip_insert_perm|apply perm_skip; exact IH].
Qed.
Lemma trip_ltb_false_le p q : trip_ltb p q = false -> (tfst q <= tfst p)%nat.
Proof.
  destruct p as [[s1 a1] i1], q as [[s2 a2] i2]. unfold trip_ltb, tfst. cbn [fst].
  intro H. apply orb_false_iff in H. destruct H as [H _]. apply Nat.ltb_ge in H. exact H.
Qed.
Lemma trip_ltb_true_le p q : trip_ltb p q = true -> (tfst p <= tfst q)%nat.
Proof.
  destruct p as [[s1 a1] i1], q as [[s2 a2] i2]. unfold trip_ltb, tfst. cbn [fst].
  intro H. apply orb_true_iff in H. destruct H as [H|H]; [apply Nat.ltb_lt in H; lia|].
  apply andb_prop in H. destruct H as [H _]. apply Nat.eqb_eq in H. lia.
Qed.
Lemma trip_insert_sorted p : forall l, Sorted le (map tfst l) -> Sorted le (map tfst (trip_insert p l)).
Proof.
  induction l as [|q l IH]; intro H; cbn [trip_insert map]; [repeat constructor|].
  destruct (trip_ltb p q) eqn:E.
  - cbn [map]. constructor; [exact H|]. constructor. apply trip_ltb_true_le. exact E.
  - cbn [map]. inversion H; subst. constructor; [apply IH; assumption|].
    destruct l as [|r l]; cbn [trip_insert map].
    + constructor. apply trip_ltb_false_le. exact E.
    + destruct (trip_ltb p r); cbn [map]; constructor; [apply trip_ltb_false_le; exact E|].
      inversion H3; assumption.
Qed.
Lemma trip_sort_sorted l : StronglySorted le (map tfst (trip_sort l)).
Proof.
  apply Sorted_StronglySorted; [intros x y z; lia|].
  induction l as [|p l IH]; cbn [trip_sort fold_right]; [constructor|]. apply trip_insert_sorted. exact IH.
Qed.

Lemma count_lt_perm l l' s : Permutation l l' -> count_lt l s = count_lt l' s.
Proof.
  induction 1; [reflexivity| | |congruence].
  - rewrite !count_lt_cons. lia.
  - rewrite !count_lt_cons. lia.
Qed.

Lemma zip3_In : forall s a k t, length a = length s ->
  (In t (zip3 s a k) <-> exists j, (j < length s)%nat /\ t = (nth j s 0%nat, nth j a 0%nat, (k + j)%nat)).
Proof.
  induction s as [|x s IH]; intros [|y a] k t HL; cbn [length] in HL; try discriminate.
  - cbn. split; [tauto|]. intros (j & Hj & _). lia.
  - cbn [zip3 In length]. rewrite (IH a (S k) t) by lia. split.
    + intros [<-|(j & Hj & ->)]; [exists 0%nat; split; [lia|]; cbn [nth]; f_equal; lia|].
      exists (S j). split; [lia|]. cbn [nth]. f_equal. lia.
    + intros (j & Hj & ->). destruct j as [|j]; [left; cbn [nth]; f_equal; lia|].
      right. exists j. split; [lia|]. cbn [nth]. f_equal. lia.
Qed.
Lemma zip3_firsts : forall s a k, length a = length s -> map tfst (zip3 s a k) = s.
Proof. induction s as [|x s IH]; intros [|y a] k HL; cbn in *; try discriminate; [reflexivity|]. rewrite IH by lia. reflexivity. Qed.

(* ---------- a segment of sorted state indices = the positions holding that state ---------- *)
Lemma seg_char (S' : list nat) (R' : list (ext Q)) (s : nat) : StronglySorted le S' ->
  ((count_lt S' s = count_lt S' (S s) \/
    forall k, (count_lt S' s <= k < count_lt S' (S s))%nat -> gete R' k = NegInf) <->
   (forall k, (k < length S')%nat -> nth k S' 0%nat = s -> gete R' k = NegInf)).
Proof.
  intro Hs. split.
  - intros H k Hk Ek. pose proof (nth_error_nth' S' 0%nat Hk) as N. rewrite Ek in N.
    pose proof (count_lt_sorted_nth S' s Hs k s N) as B1. pose proof (count_lt_sorted_nth S' (S s) Hs k s N) as B2.
    assert (count_lt S' s <= k < count_lt S' (S s))%nat by (split; [destruct (le_lt_dec (count_lt S' s) k); [assumption|apply B1 in l; lia]|apply B2; lia]).
    destruct H as [H|H]; [lia|apply H; assumption].
  - intro H. right. intros k Hk. pose proof (count_lt_le_length S' (S s)).
    assert (Hlen : (k < length S')%nat) by lia. apply H; [exact Hlen|].
    pose proof (nth_error_nth' S' 0%nat Hlen) as N.
    pose proof (count_lt_sorted_nth S' s Hs k _ N) as B1. pose proof (count_lt_sorted_nth S' (S s) Hs k _ N) as B2.
    assert (~ (nth k S' 0 < s)%nat) by (intro X; apply B1 in X; lia).
    assert (nth k S' 0 < S s)%nat by (apply B2; lia). lia.
Qed.

Lemma finish_ctor_csr_iff n sidx sidx' aidx' (R' : list (ext Q)) Q' beta :
  (finish_ctor n sidx' aidx' (csr_indptr n sidx) R' Q' beta None = CValueError <->
   (exists s, (s < n)%nat /\
      (count_lt sidx s = count_lt sidx (S s) \/
       forall k, (count_lt sidx s <= k < count_lt sidx (S s))%nat -> gete R' k = NegInf)) \/ ~ (0 <= beta <= 1)).
Proof.
  rewrite (constructor_rejects_partial n sidx' aidx' (csr_indptr n sidx) R' Q' beta None).
  2:{ intros s Hs. rewrite !csr_indptr_get by lia. apply count_lt_mono. }
  split; (intros [(s & Hs & H)|H]; [left; exists s; split; [exact Hs|]|right; exact H]);
    rewrite !csr_indptr_get in * by lia; exact H.
Qed.

(* the constructor (sorted or unsorted distinct pairs) raises ValueError exactly when some state has only
   -inf rewards among its pairs -- in particular no pair at all -- or beta is outside [0,1] *)
Theorem constructor_rejects_full :
  forall n sidx aidx (R : list (ext Q)) Qm beta,
  shapes_ok n sidx aidx R Qm = true ->
  has_sorted_sa_indices sidx aidx = true \/ trip_has_dup (trip_sort (zip3 sidx aidx 0)) = false ->
  (mk_sa n sidx aidx R Qm beta = CValueError <->
     (exists s, (s < n)%nat /\ forall j, (j < length sidx)%nat -> getn sidx j = s -> gete R j = NegInf)
     \/ ~ (0 <= beta <= 1)).
Proof.
  intros n sidx aidx R Qm beta Hsh Hdup. unfold mk_sa, mk_sa_gen. rewrite Hsh. cbn [negb].
  assert (Hshape := Hsh). unfold shapes_ok in Hshape. rewrite !andb_true_iff in Hshape.
  destruct Hshape as ((((L1 & L2) & L3) & _) & Hlt). apply Nat.eqb_eq in L1. apply Nat.eqb_eq in L2.
  assert (Hall : Forall (fun s => (s < n)%nat) sidx).
  { apply Forall_forall. intros x Hx. rewrite forallb_forall in Hlt. apply Nat.ltb_lt. apply Hlt. exact Hx. }
  destruct (has_sorted_sa_indices sidx aidx) eqn:Hso.
  - pose proof (has_sorted_strongly _ _ L1 Hso) as Hss.
    rewrite (generate_a_indptr_sorted n sidx Hss Hall), finish_ctor_csr_iff.
    split; (intros [(s & Hs & H)|H]; [left; exists s; split; [exact Hs|]|right; exact H]).
    + apply (proj1 (seg_char sidx R s Hss)). exact H.
    + apply (proj2 (seg_char sidx R s Hss)). exact H.
  - destruct Hdup as [Hd|Hd]; [discriminate|]. rewrite Hd.
    destruct (fill_sidx_safe (csr_indptr n sidx) (seq 0 n)) as [r ->].
    { intros j Hj. apply in_seq in Hj. unfold csr_indptr. rewrite map_length, seq_length. lia. }
    rewrite finish_ctor_csr_iff.
    set (tr := trip_sort (zip3 sidx aidx 0)) in *.
    set (S' := map tfst tr).
    assert (Hperm : Permutation tr (zip3 sidx aidx 0)) by apply trip_sort_perm.
    assert (HS' : StronglySorted le S') by apply trip_sort_sorted.
    assert (Hcnt : forall s, count_lt S' s = count_lt sidx s).
    { intro s. unfold S'. rewrite (count_lt_perm _ (map tfst (zip3 sidx aidx 0)) s) by (apply Permutation_map; exact Hperm).
      rewrite zip3_firsts by exact L1. reflexivity. }
    assert (LS : length S' = length sidx).
    { unfold S'. rewrite map_length. unfold tr. rewrite trip_sort_length, zip3_length by exact L1. reflexivity. }
    set (R' := map (gete R) (map (fun t : nat * nat * nat => snd t) tr)).
    assert (HR' : forall k, (k < length S')%nat -> gete R' k = gete R (snd (nth k tr (0,0,0)%nat))).
    { intros k Hk. unfold R', gete at 1. rewrite (nth_map_in _ _ _ 0%nat) by (rewrite map_length; unfold S' in Hk; rewrite map_length in Hk; exact Hk).
      f_equal. rewrite (nth_map_in _ _ _ (0,0,0)%nat) by (unfold S' in Hk; rewrite map_length in Hk; exact Hk). reflexivity. }
    assert (Hbij : forall s,
       (forall k, (k < length S')%nat -> nth k S' 0%nat = s -> gete R' k = NegInf) <->
       (forall j, (j < length sidx)%nat -> getn sidx j = s -> gete R j = NegInf)).
    { intro s. split.
      - intros H j Hj Ej.
        assert (Hin : In (nth j sidx 0%nat, nth j aidx 0%nat, j) tr).
        { apply (Permutation_in _ (Permutation_sym Hperm)). apply (zip3_In sidx aidx 0 _ L1). exists j. split; [exact Hj|reflexivity]. }
        apply In_nth with (d := (0,0,0)%nat) in Hin. destruct Hin as (k & Hk & Ek).
        assert (Hk' : (k < length S')%nat) by (unfold S'; rewrite map_length; exact Hk).
        specialize (H k Hk'). rewrite HR' in H by exact Hk'. rewrite Ek in H. cbn [snd] in H. apply H.
        unfold S'. rewrite (nth_map_in _ _ _ (0,0,0)%nat) by exact Hk. rewrite Ek. exact Ej.
      - intros H k Hk Ek. rewrite HR' by exact Hk.
        assert (Hk' : (k < length tr)%nat) by (unfold S' in Hk; rewrite map_length in Hk; exact Hk).
        pose proof (nth_In tr (0,0,0)%nat Hk') as Hin. apply (Permutation_in _ Hperm) in Hin.
        apply (zip3_In sidx aidx 0 _ L1) in Hin. destruct Hin as (j & Hj & Ej).
        unfold S' in Ek. rewrite (nth_map_in _ _ _ (0,0,0)%nat) in Ek by exact Hk'. rewrite Ej in *. cbn [snd tfst fst] in *.
        apply H; [exact Hj|exact Ek]. }
    split; (intros [(s & Hs & H)|H]; [left; exists s; split; [exact Hs|]|right; exact H]).
    + apply (proj1 (Hbij s)). apply (proj1 (seg_char S' R' s HS')). rewrite !Hcnt. exact H.
    + pose proof (proj2 (seg_char S' R' s HS') (proj2 (Hbij s) H)) as G. rewrite !Hcnt in G. exact G.
Qed.

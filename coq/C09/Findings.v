(* Faithful model of the pinned (pre-4b26855) _generate_a_indptr:
     for s in range(num_states-1):
         while s_indices[idx] == s: idx += 1        <- no bound on idx
         out[s+1] = idx
   kept so that the refutation of the memory-safety claim for the old code
   stays machine-checked (finding D3, repaired in /repo by commit 4b26855). *)
From Coq Require Import List Bool Arith.
From QE Require Import C09.Model.
Import ListNotations.

Fixpoint gai_while_old (fuel : nat) (sidx : list nat) (s idx : nat) : rres nat :=
  match fuel with
  | O => RFuel
  | S f =>
      match nth_error sidx idx with
      | None => ROob idx
      | Some x => if (x =? s)%nat then gai_while_old f sidx s (S idx) else RVal idx
      end
  end.

Fixpoint gai_for_old (sidx : list nat) (ss : list nat) (idx : nat) : rres (list nat) :=
  match ss with
  | [] => RVal []
  | s :: ss' =>
      match gai_while_old (S (S (length sidx))) sidx s idx with
      | RVal idx' => match gai_for_old sidx ss' idx' with
                     | RVal r => RVal (idx' :: r)
                     | ROob i => ROob i
                     | RFuel => RFuel
                     end
      | ROob i => ROob i
      | RFuel => RFuel
      end
  end.

Definition generate_a_indptr_old (n : nat) (sidx : list nat) : rres (list nat) :=
  let L := length sidx in
  match n with
  | O => RVal [L]
  | S n' => match gai_for_old sidx (seq 0 n') 0%nat with
            | RVal r => RVal (0%nat :: r ++ [L])
            | ROob i => ROob i
            | RFuel => RFuel
            end
  end.

(* n = 3, s_indices = [0;0] (sorted; states 1 and 2 have no pair): the old loop reads s_indices[2] *)
Lemma generate_a_indptr_oob_refuted :
  exists n sidx, has_sorted_sa_indices sidx (seq 0 (length sidx)) = true /\
                 generate_a_indptr_old n sidx = ROob (length sidx).
Proof. exists 3%nat, [0;0]%nat. split; vm_compute; reflexivity. Qed.

(* the repaired loop on the same input *)
Lemma generate_a_indptr_repaired_witness :
  generate_a_indptr 3 [0;0]%nat = RVal [0;2;2;2]%nat.
Proof. vm_compute. reflexivity. Qed.

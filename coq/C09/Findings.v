(* Faithful model of the pinned (pre-4b26855) _generate_a_indptr:
     for s in range(num_states-1):
         while s_indices[idx] == s: idx += 1        <- no bound on idx
         out[s+1] = idx
   kept so that the refutation of the memory-safety claim for the old code
   stays machine-checked (finding D3, repaired in /repo by commit 4b26855). *)
From Coq Require Import QArith List Bool Arith.
From QE Require Import Base.Num C09.Solve C09.Model.
Import ListNotations.

Fixpoint gai_while_old (fuel : nat) (sidx : list nat) (s idx : nat) : rres nat :=
  match fuel with
  | O => RFuel
  | S f =>
      match nth_error sidx idx with
      | None => ROob idx
      | Some x => if (x =? s)%nat then gai_while_old f sidx s (S idx) else RVal idx
      end
  end.

Fixpoint gai_for_old (sidx : list nat) (ss : list nat) (idx : nat) : rres (list nat) :=
  match ss with
  | [] => RVal []
  | s :: ss' =>
      match gai_while_old (S (S (length sidx))) sidx s idx with
      | RVal idx' => match gai_for_old sidx ss' idx' with
                     | RVal r => RVal (idx' :: r)
                     | ROob i => ROob i
                     | RFuel => RFuel
                     end
      | ROob i => ROob i
      | RFuel => RFuel
      end
  end.

Definition generate_a_indptr_old (n : nat) (sidx : list nat) : rres (list nat) :=
  let L := length sidx in
  match n with
  | O => RVal [L]
  | S n' => match gai_for_old sidx (seq 0 n') 0%nat with
            | RVal r => RVal (0%nat :: r ++ [L])
            | ROob i => ROob i
            | RFuel => RFuel
            end
  end.

(* n = 3, s_indices = [0;0] (sorted; states 1 and 2 have no pair): the old loop reads s_indices[2] *)
Lemma generate_a_indptr_oob_refuted :
  exists n sidx, has_sorted_sa_indices sidx (seq 0 (length sidx)) = true /\
                 generate_a_indptr_old n sidx = ROob (length sidx).
Proof. exists 3%nat, [0;0]%nat. split; vm_compute; reflexivity. Qed.

(* the repaired loop on the same input *)
Lemma generate_a_indptr_repaired_witness :
  generate_a_indptr 3 [0;0]%nat = RVal [0;2;2;2]%nat.
Proof. vm_compute. reflexivity. Qed.

(* ------------------------------------------------------------------ *)
(* Pinned (pre-d7690eb) unsorted branch of DiscreteDP.__init__: the coo matrix was built
   without shape=, so a_indptr had max(s_indices)+2 entries and the loop
     for i in range(num_states): for j in range(a_indptr[i], a_indptr[i+1])
   indexed past it when the trailing state(s) have no pair: IndexError, not ValueError
   (finding D10, repaired in /repo by commit d7690eb). *)
Definition csr_indptr_old (n : nat) (sidx : list nat) : list nat :=
  map (count_lt sidx) (seq 0 (list_max sidx + 2)).
Definition mk_sa_old {T} {NT : Num T} := mk_sa_gen (T:=T) csr_indptr_old.

(* n = 3, unsorted pairs (1,0),(0,0): state 2 has no pair; the old constructor reads a_indptr[3] *)
Lemma constructor_unsorted_trailing_empty_refuted :
  exists n sidx aidx R Qm beta,
    has_sorted_sa_indices sidx aidx = false /\ ~ In (n - 1)%nat sidx /\
    mk_sa_old (T:=Q) n sidx aidx R Qm beta = CIndexError 3.
Proof.
  exists 3%nat, [1;0]%nat, [0;0]%nat, [Fin 0%Q; Fin 0%Q], [[1;0;0];[1;0;0]]%Q, (1#2)%Q.
  split; [reflexivity|]. split; [cbn; intuition discriminate|]. vm_compute. reflexivity.
Qed.

Lemma constructor_unsorted_trailing_empty_repaired_witness :
  mk_sa (T:=Q) 3 [1;0]%nat [0;0]%nat [Fin 0%Q; Fin 0%Q] [[1;0;0];[1;0;0]]%Q (1#2)%Q = CValueError.
Proof. vm_compute. reflexivity. Qed.

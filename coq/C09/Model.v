(* C09 / C01 shared model: quantecon/markov/ddp.py (DiscreteDP) and
   quantecon/markov/utilities.py (Numba kernels).  Executable definitions only.

   A DiscreteDP is kept in state-action-pair (CSR-like) form
     n, s_indices, a_indices, a_indptr, R (one reward per pair), Q (one row per pair), beta.
   The product formulation is the same record with all n*m pairs present
   (a_indptr = [0,m,2m,...]) and d_prod = Some m; -inf rewards are the
   constructor `NegInf` of `ext T` (there is no infinity in a generic Num).
   numpy's vals.max(axis=1)/argmax(axis=1) (first maximiser) and the kernels
   _s_wise_max/_s_wise_max_argmax (strict >, first maximiser) are the same
   function on NaN-free data, so one kernel model serves both formulations. *)
From Coq Require Import ZArith QArith List Bool Arith PrimFloat.
From QE Require Import Base.Num C09.Solve.
Import ListNotations.

Inductive ext (T : Type) := NegInf | Fin (x : T).
Arguments NegInf {T}.
Arguments Fin {T} x.

(* result of a loop whose array reads are bounds-checked *)
Inductive rres (A : Type) := RVal (a : A) | ROob (i : nat) | RFuel.
Arguments RVal {A} a.
Arguments ROob {A} i.
Arguments RFuel {A}.

(* outcome of the constructor *)
Inductive cres (A : Type) :=
  | COk (d : A)
  | CValueError
  | CIndexError (i : nat)      (* an array was indexed at i >= its length *)
  | CUnmodelled.               (* input outside the modelled domain (duplicate pairs, s >= n, ragged shapes) *)
Arguments COk {A} d.
Arguments CValueError {A}.
Arguments CIndexError {A} i.
Arguments CUnmodelled {A}.

Record ddp (T : Type) := mkDDP {
  d_n : nat; d_sidx : list nat; d_aidx : list nat; d_indptr : list nat;
  d_R : list (ext T); d_Q : list (list T); d_beta : T; d_prod : option nat }.
Arguments mkDDP {T}.
Arguments d_n {T}. Arguments d_sidx {T}. Arguments d_aidx {T}. Arguments d_indptr {T}.
Arguments d_R {T}. Arguments d_Q {T}. Arguments d_beta {T}. Arguments d_prod {T}.

Definition getn (l : list nat) (i : nat) : nat := nth i l 0%nat.

Fixpoint sequence {A} (l : list (option A)) : option (list A) :=
  match l with
  | [] => Some []
  | None :: _ => None
  | Some x :: r => match sequence r with None => None | Some r' => Some (x :: r') end
  end.

(* ------------------------------------------------------------------ *)
(* index kernels (no arithmetic)                                       *)

(* _has_sorted_sa_indices *)
Fixpoint has_sorted_sa_indices (s a : list nat) : bool :=
  match s, a with
  | s0 :: ((s1 :: _) as s'), a0 :: ((a1 :: _) as a') =>
      if (s1 <? s0)%nat then false
      else if (s0 =? s1)%nat && (a1 <=? a0)%nat then false
      else has_sorted_sa_indices s' a'
  | _, _ => true
  end.

(* _generate_a_indptr after commit 4b26855:
     idx = 0; out[0] = 0; L = len(s_indices)
     for s in range(num_states-1):
         while idx < L and s_indices[idx] == s: idx += 1
         out[s+1] = idx
     out[num_states] = L
   every read of s_indices goes through nth_error; a failed read is ROob idx *)
Fixpoint gai_while (fuel : nat) (sidx : list nat) (L s idx : nat) : rres nat :=
  match fuel with
  | O => RFuel
  | S f =>
      if (idx <? L)%nat then
        match nth_error sidx idx with
        | None => ROob idx
        | Some x => if (x =? s)%nat then gai_while f sidx L s (S idx) else RVal idx
        end
      else RVal idx
  end.

Fixpoint gai_for (sidx : list nat) (L : nat) (ss : list nat) (idx : nat) : rres (list nat) :=
  match ss with
  | [] => RVal []
  | s :: ss' =>
      match gai_while (S L) sidx L s idx with
      | RVal idx' => match gai_for sidx L ss' idx' with
                     | RVal r => RVal (idx' :: r)
                     | ROob i => ROob i
                     | RFuel => RFuel
                     end
      | ROob i => ROob i
      | RFuel => RFuel
      end
  end.

Definition generate_a_indptr (n : nat) (sidx : list nat) : rres (list nat) :=
  let L := length sidx in
  match n with
  | O => RVal [L]                     (* out[0] = 0 is overwritten by out[num_states] = L *)
  | S n' => match gai_for sidx L (seq 0 n') 0%nat with
            | RVal r => RVal (0%nat :: r ++ [L])
            | ROob i => ROob i
            | RFuel => RFuel
            end
  end.

(* unsorted pairs: sp.coo_matrix((arange(L), (s_indices, a_indices))).tocsr(); sort_indices()
   = stable sort of the triples (s, a, original position) by (s, a).  Since commit d7690eb
   the matrix is built with shape=(num_states, max(a)+1), so indptr has num_states+1
   entries (the pinned code inferred the shape: max(s)+2 entries, see Findings.v) *)
Definition trip_ltb (p q : nat * nat * nat) : bool :=
  let '(s1, a1, _) := p in let '(s2, a2, _) := q in
  (s1 <? s2)%nat || ((s1 =? s2)%nat && (a1 <? a2)%nat).
Fixpoint trip_insert (p : nat * nat * nat) (l : list (nat * nat * nat)) :=
  match l with
  | [] => [p]
  | q :: r => if trip_ltb p q then p :: l else q :: trip_insert p r
  end.
Definition trip_sort (l : list (nat * nat * nat)) := fold_right trip_insert [] l.
Fixpoint trip_has_dup (l : list (nat * nat * nat)) : bool :=
  match l with
  | p :: ((q :: _) as r) =>
      let '(s1, a1, _) := p in let '(s2, a2, _) := q in
      ((s1 =? s2)%nat && (a1 =? a2)%nat) || trip_has_dup r
  | _ => false
  end.
Fixpoint zip3 (s a : list nat) (i : nat) : list (nat * nat * nat) :=
  match s, a with
  | x :: s', y :: a' => (x, y, i) :: zip3 s' a' (S i)
  | _, _ => []
  end.
Definition count_lt (sidx : list nat) (i : nat) : nat :=
  length (filter (fun s => (s <? i)%nat) sidx).
Definition csr_indptr (n : nat) (sidx : list nat) : list nat :=
  map (count_lt sidx) (seq 0 (S n)).

(* for i in range(num_states): for j in range(a_indptr[i], a_indptr[i+1]): _s_indices[j] = i
   (pure Python on a numpy array: a_indptr[i+1] beyond the end raises IndexError) *)
Fixpoint fill_sidx (indptr : list nat) (is : list nat) : rres (list nat) :=
  match is with
  | [] => RVal []
  | i :: is' =>
      match nth_error indptr i, nth_error indptr (S i) with
      | Some lo, Some hi =>
          match fill_sidx indptr is' with
          | RVal r => RVal (repeat i (hi - lo) ++ r)
          | e => e
          end
      | None, _ => ROob i
      | _, None => ROob (S i)
      end
  end.

(* _find_indices: out[i] = j for the (last) j in the segment of i with a_indices[j] == sigma[i];
   None = out[i] left untouched (uninitialised memory in the real code) *)
Fixpoint find_last (aidx : list nat) (a j cnt : nat) (cur : option nat) : option nat :=
  match cnt with
  | O => cur
  | S c => find_last aidx a (S j) c (if (a =? getn aidx j)%nat then Some j else cur)
  end.
Definition find_indices (aidx indptr : list nat) (n : nat) (sigma : list nat) : list (option nat) :=
  map (fun i => let lo := getn indptr i in let hi := getn indptr (S i) in
                find_last aidx (getn sigma i) lo (hi - lo) None) (seq 0 n).

Fixpoint map2 {A B C} (f : A -> B -> C) (a : list A) (b : list B) : list C :=
  match a, b with
  | x :: a', y :: b' => f x y :: map2 f a' b'
  | _, _ => []
  end.

Section M.
Context {T : Type} {NT : Num T}.

Definition gete (l : list (ext T)) (i : nat) : ext T := nth i l NegInf.
Definition getrow (l : list (list T)) (i : nat) : list T := nth i l [].
Definition gett (l : list T) (i : nat) : T := nth i l nzero.

(* a > b on the extended line *)
Definition ext_gtb (a b : ext T) : bool :=
  match a, b with
  | Fin x, Fin y => nltb y x
  | Fin _, NegInf => true
  | NegInf, _ => false
  end.
Definition ext_is_neginf (a : ext T) : bool := match a with NegInf => true | Fin _ => false end.
Definition ext_val (e : ext T) : T := match e with Fin x => x | NegInf => nzero end.

(* _s_wise_max / _s_wise_max_argmax:
     if a_indptr[i] != a_indptr[i+1]:
         m = a_indptr[i]
         for j in range(a_indptr[i]+1, a_indptr[i+1]):
             if vals[j] > vals[m]: m = j
         out_max[i] = vals[m]; out_argmax[i] = a_indices[m]
   None = out[i] not written *)
Fixpoint amax_loop (vals : list (ext T)) (m j cnt : nat) : nat :=
  match cnt with
  | O => m
  | S c => amax_loop vals (if ext_gtb (gete vals j) (gete vals m) then j else m) (S j) c
  end.
Definition seg_argmax (vals : list (ext T)) (lo hi : nat) : nat :=
  amax_loop vals lo (S lo) (hi - S lo).

Definition s_wise_max_argmax (aidx indptr : list nat) (vals : list (ext T)) (n : nat)
  : list (option (ext T * nat)) :=
  map (fun i => let lo := getn indptr i in let hi := getn indptr (S i) in
                if (lo =? hi)%nat then None
                else let m := seg_argmax vals lo hi in Some (gete vals m, getn aidx m))
      (seq 0 n).
Definition s_wise_max (aidx indptr : list nat) (vals : list (ext T)) (n : nat) : list (option (ext T)) :=
  map (option_map fst) (s_wise_max_argmax aidx indptr vals n).

(* ---- constructor ---- *)
(* _check_action_feasibility: R_max = s_wise_max(R); any(R_max == -inf) -> ValueError;
   sa-pair: any(diff(a_indptr) == 0) -> ValueError.  (An untouched out[i] belongs to an
   empty state, which is rejected by the second test whatever the garbage is.) *)
Definition feasible_check (aidx indptr : list nat) (R : list (ext T)) (n : nat) : bool :=
  forallb (fun o => match o with Some NegInf => false | Some (Fin _) => true | None => false end)
          (s_wise_max aidx indptr R n).

Definition beta_ok (beta : T) : bool := nleb nzero beta && nleb beta none_.

Definition shapes_ok (n : nat) (sidx aidx : list nat) (R : list (ext T)) (Q : list (list T)) : bool :=
  (length aidx =? length sidx)%nat && (length R =? length sidx)%nat && (length Q =? length sidx)%nat
  && forallb (fun q => (length q =? n)%nat) Q && forallb (fun s => (s <? n)%nat) sidx.

Definition finish_ctor (n : nat) (sidx aidx indptr : list nat) (R : list (ext T)) (Q : list (list T))
           (beta : T) (prod : option nat) : cres (ddp T) :=
  if negb (feasible_check aidx indptr R n) then CValueError
  else if negb (beta_ok beta) then CValueError
  else COk (mkDDP n sidx aidx indptr R Q beta prod).

(* DiscreteDP(R, Q, beta, s_indices, a_indices) *)
Definition mk_sa_gen (csr : nat -> list nat -> list nat)
           (n : nat) (sidx aidx : list nat) (R : list (ext T)) (Q : list (list T)) (beta : T)
  : cres (ddp T) :=
  if negb (shapes_ok n sidx aidx R Q) then CUnmodelled
  else if has_sorted_sa_indices sidx aidx then
    match generate_a_indptr n sidx with
    | RVal indptr => finish_ctor n sidx aidx indptr R Q beta None
    | ROob i => CIndexError i
    | RFuel => CUnmodelled
    end
  else
    let tr := trip_sort (zip3 sidx aidx 0) in
    if trip_has_dup tr then CUnmodelled
    else
      let indptr := csr n sidx in
      let perm := map (fun t => snd t) tr in
      let aidx' := map (fun t => snd (fst t)) tr in
      let R' := map (gete R) perm in
      let Q' := map (getrow Q) perm in
      match fill_sidx indptr (seq 0 n) with
      | RVal sidx' => finish_ctor n sidx' aidx' indptr R' Q' beta None
      | ROob i => CIndexError i
      | RFuel => CUnmodelled
      end.

Definition mk_sa := mk_sa_gen csr_indptr.

(* DiscreteDP(R, Q, beta) with R of shape (n, m), Q of shape (n, m, n) *)
Definition mk_prod (n m : nat) (R : list (list (ext T))) (Q : list (list (list T))) (beta : T)
  : cres (ddp T) :=
  if negb ((length R =? n)%nat && (length Q =? n)%nat
           && forallb (fun r => (length r =? m)%nat) R
           && forallb (fun q => (length q =? m)%nat && forallb (fun row => (length row =? n)%nat) q) Q)
  then CUnmodelled
  else
    let sidx := flat_map (fun s => repeat s m) (seq 0 n) in
    let aidx := flat_map (fun _ => seq 0 m) (seq 0 n) in
    let indptr := map (fun i => (i * m)%nat) (seq 0 (S n)) in
    finish_ctor n sidx aidx indptr (concat R) (concat Q) beta (Some m).

(* ---- operators ---- *)
(* dot (left-to-right accumulation from 0) is defined in Solve.v *)
(* vals = R + beta * Q.dot(v) *)
Definition pair_val (beta : T) (v : list T) (r : ext T) (q : list T) : ext T :=
  match r with
  | NegInf => NegInf
  | Fin x => Fin (nadd x (nmul beta (dot q v)))
  end.
Definition vals (d : ddp T) (v : list T) : list (ext T) :=
  map2 (pair_val (d_beta d) v) (d_R d) (d_Q d).

Definition bellman_full (d : ddp T) (v : list T) : list (option (ext T * nat)) :=
  s_wise_max_argmax (d_aidx d) (d_indptr d) (vals d v) (d_n d).
(* defaults below are never used on a constructed ddp (Proofs: bellman_full_fin) *)
Definition out_val (o : option (ext T * nat)) : T :=
  match o with Some (e, _) => ext_val e | None => nzero end.
Definition out_act (o : option (ext T * nat)) : nat :=
  match o with Some (_, a) => a | None => 0%nat end.
Definition bellman_operator (d : ddp T) (v : list T) : list T := map out_val (bellman_full d v).
Definition compute_greedy (d : ddp T) (v : list T) : list nat := map out_act (bellman_full d v).

(* s_wise_max(R) as a value vector (v_init = None in vi / pi / lp) *)
Definition R_max (d : ddp T) : list T :=
  map (fun o => match o with Some e => ext_val e | None => nzero end)
      (s_wise_max (d_aidx d) (d_indptr d) (d_R d) (d_n d)).

(* RQ_sigma; None when some sigma[i] is not an available action of state i
   (the real code then uses an uninitialised index) *)
Definition sigma_indices (d : ddp T) (sigma : list nat) : option (list nat) :=
  if (length sigma =? d_n d)%nat
  then sequence (find_indices (d_aidx d) (d_indptr d) (d_n d) sigma) else None.
Definition RQ_sigma (d : ddp T) (sigma : list nat) : option (list (ext T) * list (list T)) :=
  match sigma_indices d sigma with
  | None => None
  | Some idx => Some (map (gete (d_R d)) idx, map (getrow (d_Q d)) idx)
  end.
Definition fin_list (l : list (ext T)) : option (list T) :=
  sequence (map (fun e => match e with Fin x => Some x | NegInf => None end) l).
(* feasible policies only: every chosen reward finite *)
Definition RQ_sigma_fin (d : ddp T) (sigma : list nat) : option (list T * list (list T)) :=
  match RQ_sigma d sigma with
  | None => None
  | Some (Rs, Qs) => match fin_list Rs with None => None | Some Rf => Some (Rf, Qs) end
  end.
(* T_sigma(v) = R_sigma + beta * Q_sigma.dot(v) *)
Definition T_sigma_rq (beta : T) (Rs : list T) (Qs : list (list T)) (v : list T) : list T :=
  map2 (fun r q => nadd r (nmul beta (dot q v))) Rs Qs.
Definition T_sigma (d : ddp T) (sigma : list nat) (v : list T) : option (list T) :=
  match RQ_sigma_fin d sigma with
  | None => None
  | Some (Rs, Qs) => Some (T_sigma_rq (d_beta d) Rs Qs v)
  end.
Definition controlled_mc (d : ddp T) (sigma : list nat) : option (list (list T)) :=
  option_map snd (RQ_sigma d sigma).

(* evaluate_policy: solve (I - beta Q_sigma) v = R_sigma.  None: beta == 1
   (NotImplementedError), infeasible sigma, or singular system (LinAlgError).
   np.linalg.solve is replaced by the certifying exact solver of Solve.v. *)
Definition I_minus_bQ (beta : T) (Qs : list (list T)) : list (list T) :=
  map (fun iq => map (fun jx => nsub (if (fst iq =? fst jx)%nat then none_ else nzero) (nmul beta (snd jx)))
                     (combine (seq 0 (length (snd iq))) (snd iq)))
      (combine (seq 0 (length Qs)) Qs).
Definition evaluate_policy (d : ddp T) (sigma : list nat) : option (list T) :=
  if neqb (d_beta d) none_ then None
  else match RQ_sigma_fin d sigma with
       | None => None
       | Some (Rs, Qs) => solve_checked (I_minus_bQ (d_beta d) Qs) Rs
       end.

(* backward_induction(ddp, T, v_term): vs[T] = v_term;
   for t = T..1: vs[t-1], sigmas[t-1] = bellman_operator(vs[t]).  Lists are in
   time order: vs = [vs[0]; ...; vs[T]], sigmas = [sigmas[0]; ...; sigmas[T-1]] *)
Fixpoint backward_induction (d : ddp T) (horizon : nat) (v_term : list T)
  : list (list T) * list (list nat) :=
  match horizon with
  | O => ([v_term], [])
  | S t => let '(vs, sg) := backward_induction d t v_term in
           let v := hd [] vs in
           (bellman_operator d v :: vs, compute_greedy d v :: sg)
  end.

(* ---- form conversion ---- *)
(* to_sa_pair_form: s_ind, a_ind = np.where(R > -inf) (row-major), then the sa constructor *)
Definition finite_pair_positions (d : ddp T) : list nat :=
  filter (fun j => negb (ext_is_neginf (gete (d_R d) j))) (seq 0 (length (d_R d))).
Definition to_sa_pair_form (d : ddp T) : cres (ddp T) :=
  match d_prod d with
  | None => COk d
  | Some _ =>
      let pos := finite_pair_positions d in
      mk_sa (d_n d) (map (getn (d_sidx d)) pos) (map (getn (d_aidx d)) pos)
            (map (gete (d_R d)) pos) (map (getrow (d_Q d)) pos) (d_beta d)
  end.

(* to_product_form: na = a_indices.max()+1; R = full(-inf); R[s,a] = R; Q = zeros; Q[s,a,:] = Q *)
Definition lookup_pair (d : ddp T) (s a : nat) : option nat :=
  find_last (d_aidx d) a (getn (d_indptr d) s) (getn (d_indptr d) (S s) - getn (d_indptr d) s) None.
Definition to_product_form (d : ddp T) : cres (ddp T) :=
  match d_prod d with
  | Some _ => COk d
  | None =>
      let n := d_n d in
      let na := S (list_max (d_aidx d)) in
      let Rt := map (fun s => map (fun a => match lookup_pair d s a with
                                            | Some j => gete (d_R d) j | None => NegInf end) (seq 0 na)) (seq 0 n) in
      let Qt := map (fun s => map (fun a => match lookup_pair d s a with
                                            | Some j => getrow (d_Q d) j | None => repeat nzero n end) (seq 0 na)) (seq 0 n) in
      mk_prod n na Rt Qt (d_beta d)
  end.

End M.

(* C06 property theorems: statements only, each closed by `exact`, with Print Assumptions. *)
From Coq Require Import ZArith QArith List Bool.
From Coq Require Import Lia Lqa.
From QE Require Import Base.Num Base.LinAlg Base.Gauss C06.Model C06.Proofs C06.ProofsFull C06.ProofsPSD.
Import ListNotations.
Local Open Scope Q_scope.

(* --- Lyapunov doubling, exact, every dimension n and every number k of doubling steps --- *)

(* alpha_k = A^(2^k) and gamma_k = sum_{l < 2^k} (A^l B) (A^l)' *)
Theorem C06_lyap_doubling_closed_form : forall n (A B : list (list Q)) k,
  meq n n (fst (lyap_iter k n A B)) (mpow n A (2 ^ k)) /\
  meq n n (snd (lyap_iter k n A B))
          (msum n n (2 ^ k) (fun l => mmul n n n (mmul n n n (mpow n A l) B) (mtr n n (mpow n A l)))).
Proof. exact lyap_doubling_closed_form. Qed.
Print Assumptions C06_lyap_doubling_closed_form.

(* A gamma_k A' - gamma_k + B = alpha_k B alpha_k' *)
Theorem C06_lyap_residual : forall n (A B : list (list Q)) k,
  meq n n (madd n n (msub n n (mmul n n n (mmul n n n A (snd (lyap_iter k n A B))) (mtr n n A))
                              (snd (lyap_iter k n A B))) B)
          (mmul n n n (mmul n n n (fst (lyap_iter k n A B)) B) (mtr n n (fst (lyap_iter k n A B)))).
Proof. exact lyap_residual. Qed.
Print Assumptions C06_lyap_residual.

(* the quantity of the stopping test: gamma_{k+1} - gamma_k = alpha_k gamma_k alpha_k' *)
Theorem C06_lyap_step_is_tail : forall n (A B : list (list Q)) k,
  meq n n (msub n n (snd (lyap_iter (S k) n A B)) (snd (lyap_iter k n A B)))
          (mmul n n n (mmul n n n (fst (lyap_iter k n A B)) (snd (lyap_iter k n A B)))
                (mtr n n (fst (lyap_iter k n A B)))).
Proof. exact lyap_step_is_tail. Qed.
Print Assumptions C06_lyap_step_is_tail.

(* the loop as written (test, cap, ValueError) returns gamma_k for the k >= 1 at which the test fired,
   k + 1 <= max_it: for EVERY arithmetic instance, binary64 included *)
Theorem C06_lyap_loop_returns_iterate : forall (T : Type) (NT : Num T) tol max_it n (A B : list (list T)) k X,
  solve_discrete_lyapunov tol max_it n A B = Some (k, X) ->
  (1 <= k)%nat /\ X = snd (lyap_iter k n A B) /\
  nltb tol (mmaxabsdiff n n (snd (lyap_iter k n A B)) (snd (lyap_iter (pred k) n A B))) = false /\
  (Z.of_nat k + 1 <= max_it)%Z.
Proof. exact (@solve_discrete_lyapunov_iterate). Qed.
Print Assumptions C06_lyap_loop_returns_iterate.

(* exact solver: closed form of the returned matrix and its residual A X A' - X + B = A^(2^k) B A'^(2^k) *)
Theorem C06_lyap_solver_spec : forall tol max_it n (A B : list (list Q)) k X,
  solve_discrete_lyapunov tol max_it n A B = Some (k, X) ->
  (1 <= k)%nat /\ (Z.of_nat k + 1 <= max_it)%Z /\
  meq n n X (msum n n (2 ^ k) (fun l => mmul n n n (mmul n n n (mpow n A l) B) (mtr n n (mpow n A l)))) /\
  meq n n (madd n n (msub n n (mmul n n n (mmul n n n A X) (mtr n n A)) X) B)
          (mmul n n n (mmul n n n (mpow n A (2 ^ k)) B) (mtr n n (mpow n A (2 ^ k)))).
Proof. exact lyap_solver_spec. Qed.
Print Assumptions C06_lyap_solver_spec.

Example lyap_solver_example :
  solve_discrete_lyapunov (1 # 1000000000000000) 50 2 [[0; 1]; [0; 0]] [[1; 0]; [0; 1]]
  = Some (2%nat, [[2; 0]; [0; 1]]).
Proof. vm_compute. reflexivity. Qed.

(* --- Riccati structured doubling --- *)

(* the loop as written returns H_k + gamma I for an iterate of the doubling step (every instance) *)
Theorem C06_riccati_loop_returns_iterate : forall (T : Type) (NT : Num T) tol max_iter ns nc gamma
    (A B Q R N : list (list T)) k X,
  solve_discrete_riccati tol max_iter ns nc gamma A B Q R N = RiccOk k X ->
  (1 <= k)%nat /\
  exists AGH0 Ak Gk Hk, ricc_init ns nc gamma A B Q R N = Some AGH0 /\
     ricc_iter k ns AGH0 = Some (Ak, Gk, Hk) /\ X = madd ns ns Hk (mscale ns ns gamma (mid ns)).
Proof. exact (@solve_discrete_riccati_iterate). Qed.
Print Assumptions C06_riccati_loop_returns_iterate.

(* scalar systems: a solution x of the Riccati equation satisfies, shifted by gamma, the doubled
   equation y (1 + G_k y) = A_k^2 y + H_k (1 + G_k y) for every k; gamma drops out of the answer *)
Theorem C06_riccati_scalar_fixed_point_transfer_partial : forall g a b q r nn x k AGH0 Ak Gk Hk,
  ricc_init 1 1 g [[a]] [[b]] [[q]] [[r]] [[nn]] = Some AGH0 ->
  ricc_iter k 1 AGH0 = Some (Ak, Gk, Hk) ->
  ~ r + b * b * x == 0 ->
  a * a * x - (nn + b * x * a) * (nn + b * x * a) / (r + b * b * x) + q - x == 0 ->
  let y := x - g in
  y * (1 + get Gk 0 0 * y) == get Ak 0 0 * get Ak 0 0 * y + get Hk 0 0 * (1 + get Gk 0 0 * y).
Proof. exact riccati_scalar_fixed_point_transfer. Qed.
Print Assumptions C06_riccati_scalar_fixed_point_transfer_partial.

Theorem C06_riccati_scalar_limit_solves_partial : forall g a b q r nn x k AGH0 Ak Gk Hk,
  ricc_init 1 1 g [[a]] [[b]] [[q]] [[r]] [[nn]] = Some AGH0 ->
  ricc_iter k 1 AGH0 = Some (Ak, Gk, Hk) ->
  ~ r + b * b * x == 0 ->
  a * a * x - (nn + b * x * a) * (nn + b * x * a) / (r + b * b * x) + q - x == 0 ->
  get Ak 0 0 == 0 -> ~ 1 + get Gk 0 0 * (x - g) == 0 ->
  x == get (madd 1 1 Hk (mscale 1 1 g (mid 1))) 0 0.
Proof. exact riccati_scalar_limit_solves. Qed.
Print Assumptions C06_riccati_scalar_limit_solves_partial.

(* hypotheses are satisfiable: a = b = r = 1, q = 1/2, n = 0 has the rational solution x = 1 *)
Example riccati_scalar_example :
  (match ricc_init 1 1 (1#2) [[1]] [[1]] [[1#2]] [[1]] [[0]] with
   | Some AGH0 => ricc_iter 3 1 AGH0
   | None => None
   end) <> None /\
  ~ 1 + 1 * 1 * 1 == 0 /\
  1 * 1 * 1 - (0 + 1 * 1 * 1) * (0 + 1 * 1 * 1) / (1 + 1 * 1 * 1) + (1#2) - 1 == 0.
Proof.
  split; [vm_compute; discriminate|split; [discriminate|reflexivity]].
Qed.

(* --- general dimension: structured doubling preserves the Riccati solution --- *)
(* "Y solves Y = A'Y(I+GY)^-1 A + H with closed loop S":  (I+GY) S = A  and  Y = A'(Y S) + H *)

(* one doubling step (the model's ricc_step, with its three Gauss-Jordan solves): for symmetric G, H and an
   explicit two-sided inverse W of I + G H, a solution Y with closed loop S is a solution of the doubled
   (A1,G1,H1) with closed loop S S, and G1, H1 are symmetric again *)
Theorem C06_riccati_step_preserves_solution : forall n (A G H A1 G1 H1 W Y S : list (list Q)),
  msym n G -> msym n H ->
  (meq n n (mmul n n n W (madd n n (mid n) (mmul n n n G H))) (mid n) /\
   meq n n (mmul n n n (madd n n (mid n) (mmul n n n G H)) W) (mid n)) ->
  ricc_step n A G H = Some (A1, G1, H1) ->
  (meq n n (mmul n n n (madd n n (mid n) (mmul n n n G Y)) S) A /\
   meq n n Y (madd n n (mmul n n n (mtr n n A) (mmul n n n Y S)) H)) ->
  (meq n n (mmul n n n (madd n n (mid n) (mmul n n n G1 Y)) (mmul n n n S S)) A1 /\
   meq n n Y (madd n n (mmul n n n (mtr n n A1) (mmul n n n Y (mmul n n n S S))) H1)) /\
  msym n G1 /\ msym n H1.
Proof. exact ricc_step_preserves_solution. Qed.
Print Assumptions C06_riccati_step_preserves_solution.

(* the whole chain, every dimension ns, nc and every k: if X (symmetric) solves the Riccati equation of
   (A,B,Q,R,N) with feedback F = (R+B'XB)^-1(N+B'XA), then X - gamma I solves the doubled equation of the
   k-th iterate (A_k,G_k,H_k) built by the model from (A,B,Q,R,N,gamma), with closed loop (A - BF)^(2^k).
   Invertibility is hypothesised explicitly: a two-sided inverse of R + gamma B'B and of I + G_i H_i, i < k *)
Theorem C06_riccati_fixed_point_transfer :
  forall ns nc (g : Q) (A B Qm R N X F Z : list (list Q)) k AGH0 Ak Gk Hk,
  msym ns Qm -> msym nc R -> msym ns X ->
  (meq nc nc (mmul nc nc nc Z (madd nc nc R (mscale nc nc g (mmul nc ns nc (mtr ns nc B) B)))) (mid nc) /\
   meq nc nc (mmul nc nc nc (madd nc nc R (mscale nc nc g (mmul nc ns nc (mtr ns nc B) B))) Z) (mid nc)) ->
  meq nc ns (mmul nc nc ns (madd nc nc R (mmul nc ns nc (mmul nc ns ns (mtr ns nc B) X) B)) F)
            (madd nc ns N (mmul nc ns ns (mmul nc ns ns (mtr ns nc B) X) A)) ->
  meq ns ns X (madd ns ns (msub ns ns (mmul ns ns ns (mmul ns ns ns (mtr ns ns A) X) A)
                                (mmul ns nc ns (mtr nc ns (madd nc ns N (mmul nc ns ns (mmul nc ns ns (mtr ns nc B) X) A))) F)) Qm) ->
  ricc_init ns nc g A B Qm R N = Some AGH0 ->
  ricc_iter k ns AGH0 = Some (Ak, Gk, Hk) ->
  (forall i Ai Gi Hi, (i < k)%nat -> ricc_iter i ns AGH0 = Some (Ai, Gi, Hi) ->
       exists Wi, meq ns ns (mmul ns ns ns Wi (madd ns ns (mid ns) (mmul ns ns ns Gi Hi))) (mid ns) /\
                  meq ns ns (mmul ns ns ns (madd ns ns (mid ns) (mmul ns ns ns Gi Hi)) Wi) (mid ns)) ->
  let Y := msub ns ns X (mscale ns ns g (mid ns)) in
  let Sk := mpow ns (msub ns ns A (mmul ns nc ns B F)) (2 ^ k) in
  meq ns ns (mmul ns ns ns (madd ns ns (mid ns) (mmul ns ns ns Gk Y)) Sk) Ak /\
  meq ns ns Y (madd ns ns (mmul ns ns ns (mtr ns ns Ak) (mmul ns ns ns Y Sk)) Hk).
Proof. exact riccati_fixed_point_transfer. Qed.
Print Assumptions C06_riccati_fixed_point_transfer.

(* its hypotheses are satisfiable: a = b = r = 1, q = 1/2, n = 0, gamma = 1/2, X = 1, F = 1/2, k = 1 *)
Ltac m11 := let i := fresh in let j := fresh in let Hi := fresh in let Hj := fresh in
  intros i j Hi Hj; assert (i = 0%nat) by lia; assert (j = 0%nat) by lia; subst; vm_compute; reflexivity.
Example riccati_transfer_example :
  let Z := [[2#3]] in let X := [[1]] in let F := [[1#2]] in
  (meq 1 1 (mmul 1 1 1 Z (madd 1 1 [[1]] (mscale 1 1 (1#2) (mmul 1 1 1 (mtr 1 1 [[1]]) [[1]])))) (mid 1) /\
   meq 1 1 (mmul 1 1 1 (madd 1 1 [[1]] (mscale 1 1 (1#2) (mmul 1 1 1 (mtr 1 1 [[1]]) [[1]]))) Z) (mid 1)) /\
  meq 1 1 (mmul 1 1 1 (madd 1 1 [[1]] (mmul 1 1 1 (mmul 1 1 1 (mtr 1 1 [[1]]) X) [[1]])) F)
          (madd 1 1 [[0]] (mmul 1 1 1 (mmul 1 1 1 (mtr 1 1 [[1]]) X) [[1]])) /\
  meq 1 1 X (madd 1 1 (msub 1 1 (mmul 1 1 1 (mmul 1 1 1 (mtr 1 1 [[1]]) X) [[1]])
                            (mmul 1 1 1 (mtr 1 1 (madd 1 1 [[0]] (mmul 1 1 1 (mmul 1 1 1 (mtr 1 1 [[1]]) X) [[1]]))) F)) [[1#2]]) /\
  ricc_init 1 1 (1#2) [[1]] [[1]] [[1#2]] [[1]] [[0]] = Some ([[2#3]], [[2#3]], [[1#3]]) /\
  ricc_iter 1 1 ([[2#3]], [[2#3]], [[1#3]]) = Some ([[4#11]], [[10#11]], [[5#11]]) /\
  (meq 1 1 (mmul 1 1 1 [[9#11]] (madd 1 1 (mid 1) (mmul 1 1 1 [[2#3]] [[1#3]]))) (mid 1) /\
   meq 1 1 (mmul 1 1 1 (madd 1 1 (mid 1) (mmul 1 1 1 [[2#3]] [[1#3]])) [[9#11]]) (mid 1)).
Proof.
  cbv zeta. repeat split; try m11; vm_compute; reflexivity.
Qed.

(* --- symmetry and positive semidefiniteness (exact over Q, every dimension); mpsd n M := forall x, 0 <= x'Mx --- *)

(* (a) Lyapunov: for symmetric PSD B every doubling iterate gamma_k is symmetric and PSD and the iterates increase *)
Theorem C06_lyap_iterate_sym_psd : forall n (A B : list (list Q)) k,
  msym n B -> (forall x : list Q, 0 <= qform n x B) ->
  msym n (snd (lyap_iter k n A B)) /\
  (forall x : list Q, 0 <= qform n x (snd (lyap_iter k n A B))) /\
  (forall x : list Q, 0 <= qform n x (msub n n (snd (lyap_iter (S k) n A B)) (snd (lyap_iter k n A B)))).
Proof. exact lyap_iterate_sym_psd. Qed.
Print Assumptions C06_lyap_iterate_sym_psd.

(* hence the value returned by the solver (loop as written) is symmetric PSD *)
Theorem C06_lyap_solver_sym_psd : forall tol max_it n (A B : list (list Q)) k X,
  msym n B -> (forall x : list Q, 0 <= qform n x B) ->
  solve_discrete_lyapunov tol max_it n A B = Some (k, X) ->
  msym n X /\ (forall x : list Q, 0 <= qform n x X).
Proof. exact lyap_solver_sym_psd. Qed.
Print Assumptions C06_lyap_solver_sym_psd.

(* (b) Riccati doubling step: for symmetric PSD G, H and a two-sided inverse W of I + G H the doubled G1, H1 are
   symmetric PSD and G1 - G, H1 - H are PSD.  No square roots: x'(HW)x = y'Hy + (Hy)'G(Hy) with y = W x.
   PARTIAL with respect to the solver: the model's H_0 = gamma A'A_0 - Q~ carries the -gamma I shift and is in
   general indefinite (H_k -> X - gamma I), so PSD of H_k, and PSD of the returned X = H_k + gamma I, are NOT
   consequences of this step; they stay with the mpmath oracle. *)
Theorem C06_riccati_step_sym_psd_partial : forall n (A G H A1 G1 H1 W : list (list Q)),
  msym n G -> msym n H ->
  (forall x : list Q, 0 <= qform n x G) -> (forall x : list Q, 0 <= qform n x H) ->
  (meq n n (mmul n n n W (madd n n (mid n) (mmul n n n G H))) (mid n) /\
   meq n n (mmul n n n (madd n n (mid n) (mmul n n n G H)) W) (mid n)) ->
  ricc_step n A G H = Some (A1, G1, H1) ->
  msym n G1 /\ msym n H1 /\
  (forall x : list Q, 0 <= qform n x G1) /\ (forall x : list Q, 0 <= qform n x H1) /\
  (forall x : list Q, 0 <= qform n x (msub n n G1 G)) /\ (forall x : list Q, 0 <= qform n x (msub n n H1 H)).
Proof. exact ricc_step_psd. Qed.
Print Assumptions C06_riccati_step_sym_psd_partial.

(* NOT proved (oracle only): when the doubling has converged (A_k = 0) the returned H_k + gamma I is PSD,
   for a PSD joint stage cost [[Q, N'],[N, R]] and symmetric Q, R *)
Definition C06_riccati_returned_psd_full : Prop :=
  forall ns nc (g : Q) (A B Qm R N : list (list Q)) k AGH0 Ak Gk Hk,
  msym ns Qm -> msym nc R ->
  (forall x u : list Q, 0 <= qform ns x Qm + qform nc u R + (2#1) * bform nc ns u N x) ->
  ricc_init ns nc g A B Qm R N = Some AGH0 ->
  ricc_iter k ns AGH0 = Some (Ak, Gk, Hk) ->
  meq ns ns Ak (mzero ns ns) ->
  forall x : list Q, 0 <= qform ns x (madd ns ns Hk (mscale ns ns g (mid ns))).

(* (c) the matrix returned by the Riccati loop, H_k + gamma I, is symmetric (Q, R symmetric; invertibility explicit) *)
Theorem C06_riccati_returned_symmetric :
  forall tol max_iter ns nc (g : Q) (A B Qm R N Z : list (list Q)) k X,
  msym ns Qm -> msym nc R ->
  (meq nc nc (mmul nc nc nc Z (madd nc nc R (mscale nc nc g (mmul nc ns nc (mtr ns nc B) B)))) (mid nc) /\
   meq nc nc (mmul nc nc nc (madd nc nc R (mscale nc nc g (mmul nc ns nc (mtr ns nc B) B))) Z) (mid nc)) ->
  (forall AGH0 i Ai Gi Hi, ricc_init ns nc g A B Qm R N = Some AGH0 -> (i < k)%nat ->
       ricc_iter i ns AGH0 = Some (Ai, Gi, Hi) ->
       exists Wi, meq ns ns (mmul ns ns ns Wi (madd ns ns (mid ns) (mmul ns ns ns Gi Hi))) (mid ns) /\
                  meq ns ns (mmul ns ns ns (madd ns ns (mid ns) (mmul ns ns ns Gi Hi)) Wi) (mid ns)) ->
  solve_discrete_riccati tol max_iter ns nc g A B Qm R N = RiccOk k X ->
  msym ns X.
Proof. exact riccati_returned_symmetric. Qed.
Print Assumptions C06_riccati_returned_symmetric.

Example lyap_psd_example : msym 2 [[1; 0]; [0; 1]] /\ (forall x : list Q, 0 <= qform 2 x [[1; 0]; [0; 1]]).
Proof.
  split.
  - intros i j Hi Hj. destruct i as [|[|i]]; destruct j as [|[|j]]; try lia; vm_compute; reflexivity.
  - intros x. change (0 <= bform 2 2 x [[1; 0]; [0; 1]] x). rewrite QE.C07.Proofs.bform_Q. simpl. unfold get; simpl nth.
    assert (0 <= vget x 0 * vget x 0) by nra. assert (0 <= vget x 1 * vget x 1) by nra.
    match goal with |- 0 <= ?e => setoid_replace e with (vget x 0 * vget x 0 + vget x 1 * vget x 1) by ring end. lra.
Qed.

(* Still NOT proved (sampled correspondence + mpmath oracle only): that the hypothesised inverses exist
   for stabilisable/detectable data, convergence A_k -> 0, symmetry/PSD/stabilising property of the limit. *)

(* C06 property theorems: statements only, each closed by `exact`, with Print Assumptions. *)
From Coq Require Import ZArith QArith List Bool.
From QE Require Import Base.Num Base.LinAlg Base.Gauss C06.Model C06.Proofs.
Import ListNotations.
Local Open Scope Q_scope.

(* --- Lyapunov doubling, exact, every dimension n and every number k of doubling steps --- *)

(* alpha_k = A^(2^k) and gamma_k = sum_{l < 2^k} (A^l B) (A^l)' *)
Theorem C06_lyap_doubling_closed_form : forall n (A B : list (list Q)) k,
  meq n n (fst (lyap_iter k n A B)) (mpow n A (2 ^ k)) /\
  meq n n (snd (lyap_iter k n A B))
          (msum n n (2 ^ k) (fun l => mmul n n n (mmul n n n (mpow n A l) B) (mtr n n (mpow n A l)))).
Proof. exact lyap_doubling_closed_form. Qed.
Print Assumptions C06_lyap_doubling_closed_form.

(* A gamma_k A' - gamma_k + B = alpha_k B alpha_k' *)
Theorem C06_lyap_residual : forall n (A B : list (list Q)) k,
  meq n n (madd n n (msub n n (mmul n n n (mmul n n n A (snd (lyap_iter k n A B))) (mtr n n A))
                              (snd (lyap_iter k n A B))) B)
          (mmul n n n (mmul n n n (fst (lyap_iter k n A B)) B) (mtr n n (fst (lyap_iter k n A B)))).
Proof. exact lyap_residual. Qed.
Print Assumptions C06_lyap_residual.

(* the quantity of the stopping test: gamma_{k+1} - gamma_k = alpha_k gamma_k alpha_k' *)
Theorem C06_lyap_step_is_tail : forall n (A B : list (list Q)) k,
  meq n n (msub n n (snd (lyap_iter (S k) n A B)) (snd (lyap_iter k n A B)))
          (mmul n n n (mmul n n n (fst (lyap_iter k n A B)) (snd (lyap_iter k n A B)))
                (mtr n n (fst (lyap_iter k n A B)))).
Proof. exact lyap_step_is_tail. Qed.
Print Assumptions C06_lyap_step_is_tail.

(* the loop as written (test, cap, ValueError) returns gamma_k for the k >= 1 at which the test fired,
   k + 1 <= max_it: for EVERY arithmetic instance, binary64 included *)
Theorem C06_lyap_loop_returns_iterate : forall (T : Type) (NT : Num T) tol max_it n (A B : list (list T)) k X,
  solve_discrete_lyapunov tol max_it n A B = Some (k, X) ->
  (1 <= k)%nat /\ X = snd (lyap_iter k n A B) /\
  nltb tol (mmaxabsdiff n n (snd (lyap_iter k n A B)) (snd (lyap_iter (pred k) n A B))) = false /\
  (Z.of_nat k + 1 <= max_it)%Z.
Proof. exact (@solve_discrete_lyapunov_iterate). Qed.
Print Assumptions C06_lyap_loop_returns_iterate.

(* exact solver: closed form of the returned matrix and its residual A X A' - X + B = A^(2^k) B A'^(2^k) *)
Theorem C06_lyap_solver_spec : forall tol max_it n (A B : list (list Q)) k X,
  solve_discrete_lyapunov tol max_it n A B = Some (k, X) ->
  (1 <= k)%nat /\ (Z.of_nat k + 1 <= max_it)%Z /\
  meq n n X (msum n n (2 ^ k) (fun l => mmul n n n (mmul n n n (mpow n A l) B) (mtr n n (mpow n A l)))) /\
  meq n n (madd n n (msub n n (mmul n n n (mmul n n n A X) (mtr n n A)) X) B)
          (mmul n n n (mmul n n n (mpow n A (2 ^ k)) B) (mtr n n (mpow n A (2 ^ k)))).
Proof. exact lyap_solver_spec. Qed.
Print Assumptions C06_lyap_solver_spec.

Example lyap_solver_example :
  solve_discrete_lyapunov (1 # 1000000000000000) 50 2 [[0; 1]; [0; 0]] [[1; 0]; [0; 1]]
  = Some (2%nat, [[2; 0]; [0; 1]]).
Proof. vm_compute. reflexivity. Qed.

(* --- Riccati structured doubling --- *)

(* the loop as written returns H_k + gamma I for an iterate of the doubling step (every instance) *)
Theorem C06_riccati_loop_returns_iterate : forall (T : Type) (NT : Num T) tol max_iter ns nc gamma
    (A B Q R N : list (list T)) k X,
  solve_discrete_riccati tol max_iter ns nc gamma A B Q R N = RiccOk k X ->
  (1 <= k)%nat /\
  exists AGH0 Ak Gk Hk, ricc_init ns nc gamma A B Q R N = Some AGH0 /\
     ricc_iter k ns AGH0 = Some (Ak, Gk, Hk) /\ X = madd ns ns Hk (mscale ns ns gamma (mid ns)).
Proof. exact (@solve_discrete_riccati_iterate). Qed.
Print Assumptions C06_riccati_loop_returns_iterate.

(* scalar systems: a solution x of the Riccati equation satisfies, shifted by gamma, the doubled
   equation y (1 + G_k y) = A_k^2 y + H_k (1 + G_k y) for every k; gamma drops out of the answer *)
Theorem C06_riccati_scalar_fixed_point_transfer_partial : forall g a b q r nn x k AGH0 Ak Gk Hk,
  ricc_init 1 1 g [[a]] [[b]] [[q]] [[r]] [[nn]] = Some AGH0 ->
  ricc_iter k 1 AGH0 = Some (Ak, Gk, Hk) ->
  ~ r + b * b * x == 0 ->
  a * a * x - (nn + b * x * a) * (nn + b * x * a) / (r + b * b * x) + q - x == 0 ->
  let y := x - g in
  y * (1 + get Gk 0 0 * y) == get Ak 0 0 * get Ak 0 0 * y + get Hk 0 0 * (1 + get Gk 0 0 * y).
Proof. exact riccati_scalar_fixed_point_transfer. Qed.
Print Assumptions C06_riccati_scalar_fixed_point_transfer_partial.

Theorem C06_riccati_scalar_limit_solves_partial : forall g a b q r nn x k AGH0 Ak Gk Hk,
  ricc_init 1 1 g [[a]] [[b]] [[q]] [[r]] [[nn]] = Some AGH0 ->
  ricc_iter k 1 AGH0 = Some (Ak, Gk, Hk) ->
  ~ r + b * b * x == 0 ->
  a * a * x - (nn + b * x * a) * (nn + b * x * a) / (r + b * b * x) + q - x == 0 ->
  get Ak 0 0 == 0 -> ~ 1 + get Gk 0 0 * (x - g) == 0 ->
  x == get (madd 1 1 Hk (mscale 1 1 g (mid 1))) 0 0.
Proof. exact riccati_scalar_limit_solves. Qed.
Print Assumptions C06_riccati_scalar_limit_solves_partial.

(* hypotheses are satisfiable: a = b = r = 1, q = 1/2, n = 0 has the rational solution x = 1 *)
Example riccati_scalar_example :
  (match ricc_init 1 1 (1#2) [[1]] [[1]] [[1#2]] [[1]] [[0]] with
   | Some AGH0 => ricc_iter 3 1 AGH0
   | None => None
   end) <> None /\
  ~ 1 + 1 * 1 * 1 == 0 /\
  1 * 1 * 1 - (0 + 1 * 1 * 1) * (0 + 1 * 1 * 1) / (1 + 1 * 1 * 1) + (1#2) - 1 == 0.
Proof.
  split; [vm_compute; discriminate|split; [discriminate|reflexivity]].
Qed.

(* general dimension: stated, NOT proved (needs the push-through identities for (I + G Y)^-1);
   decided by the sampled correspondence + mpmath oracle only *)
Definition C06_riccati_fixed_point_transfer_full : Prop :=
  forall ns nc g (A B Q R N X : list (list Q)) k AGH0 Ak Gk Hk Res,
  ricc_init ns nc g A B Q R N = Some AGH0 ->
  ricc_iter k ns AGH0 = Some (Ak, Gk, Hk) ->
  ricc_residual_mat ns nc A B Q R N X = Some Res -> meq ns ns Res (mzero ns ns) ->
  let Y := msub ns ns X (mscale ns ns g (mid ns)) in
  forall W, meq ns ns (mmul ns ns ns (madd ns ns (mid ns) (mmul ns ns ns Gk Y)) W) Ak ->
  meq ns ns Y (madd ns ns (mmul ns ns ns (mmul ns ns ns (mtr ns ns Ak) Y) W) Hk).

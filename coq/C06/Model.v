(* C06 model: quantecon/_matrix_eqn.py
     solve_discrete_lyapunov(A, B, max_it, method='doubling')
     solve_discrete_riccati(A, B, Q, R, N, tolerance, max_iter, method='doubling')
   written once over Base.Num.Num (NumQ: theorems; NumF: runs against the code).
   Executable definitions only.  Dimensions: ns = number of states (the code's k),
   nc = number of controls (the code's n); A ns x ns, B ns x nc, Q ns x ns,
   R nc x nc, N nc x ns.  numpy.linalg.solve is Base.Gauss.solve (None <-> LinAlgError).
   The Riccati gamma (chosen by the code among 9 candidates through SVD condition
   numbers) is an input of the model. *)
From Coq Require Import ZArith QArith List Bool PrimFloat.
From QE Require Import Base.Num Base.LinAlg Base.Gauss.
Import ListNotations.

Section MatrixEqn.
Context {T : Type} `{Num T}.

(* ---------------- Lyapunov doubling ----------------
   alpha0, gamma0 = A, B; diff = 5; n_its = 1
   while diff > tol:
       alpha1 = alpha0 alpha0 ; gamma1 = gamma0 + (alpha0 gamma0) alpha0'
       diff = max|gamma1 - gamma0| ; n_its += 1
       if n_its > max_it: raise ValueError
   return gamma1
   Result: Some (number of doubling steps performed, gamma1); None = ValueError.
   (diff = 5 > tol initially; tol is the literal 1e-15 of the source.) *)
Definition lyap_step (n : nat) (ag : list (list T) * list (list T)) :=
  let '(alpha0, gamma0) := ag in
  (mmul n n n alpha0 alpha0,
   madd n n gamma0 (mmul n n n (mmul n n n alpha0 gamma0) (mtr n n alpha0))).

Fixpoint lyap_loop (fuel : nat) (tol : T) (max_it n_its : Z) (n : nat)
         (alpha0 gamma0 : list (list T)) (its : nat) : option (nat * list (list T)) :=
  match fuel with
  | O => None
  | S f =>
    let '(alpha1, gamma1) := lyap_step n (alpha0, gamma0) in
    let diff := mmaxabsdiff n n gamma1 gamma0 in
    let n_its' := (n_its + 1)%Z in
    if (max_it <? n_its')%Z then None
    else if nltb tol diff then lyap_loop f tol max_it n_its' n alpha1 gamma1 (S its)
    else Some (S its, gamma1)
  end.

Definition solve_discrete_lyapunov (tol : T) (max_it : Z) (n : nat) (A B : list (list T)) :=
  lyap_loop (S (Z.to_nat max_it)) tol max_it 1 n A B 0.

(* k doubling steps without any test: (alpha_k, gamma_k) *)
Fixpoint lyap_iter (k : nat) (n : nat) (A B : list (list T)) :=
  match k with
  | O => (A, B)
  | S k' => lyap_step n (lyap_iter k' n A B)
  end.

(* ---------------- Riccati structured doubling ---------------- *)
Inductive ricc_result :=
| RiccOk (its : nat) (X : list (list T))
| RiccMaxIter            (* ValueError(fail_msg) *)
| RiccSingular           (* numpy.linalg.LinAlgError from solve *)
| RiccNoIter.            (* loop body never ran: H1 unbound (tolerance + 1 > tolerance false) *)

Definition ricc_init (ns nc : nat) (gamma : T) (A B Q R N : list (list T))
  : option (list (list T) * list (list T) * list (list T)) :=
  let I := mid ns in
  let BB := mmul nc ns nc (mtr ns nc B) B in
  let BTA := mmul nc ns ns (mtr ns nc B) A in
  let R_hat := madd nc nc R (mscale nc nc gamma BB) in
  match solve nc ns R_hat (madd nc ns N (mscale nc ns gamma BTA)),
        solve nc ns R_hat (mtr ns nc B),
        solve nc ns R_hat N with
  | Some X1, Some X2, Some X3 =>
    let Q_tilde := madd ns ns (madd ns ns (mneg ns ns Q) (mmul ns nc ns (mtr nc ns N) X1))
                        (mscale ns ns gamma I) in
    let G0 := mmul ns nc ns B X2 in
    let A0 := msub ns ns (mmul ns ns ns (msub ns ns I (mscale ns ns gamma G0)) A)
                   (mmul ns nc ns B X3) in
    let H0 := msub ns ns (mscale ns ns gamma (mmul ns ns ns (mtr ns ns A) A0)) Q_tilde in
    Some (A0, G0, H0)
  | _, _, _ => None
  end.

(* one doubling step; None = singular I + G H *)
Definition ricc_step (ns : nat) (A0 G0 H0 : list (list T))
  : option (list (list T) * list (list T) * list (list T)) :=
  let I := mid ns in
  let W1 := madd ns ns I (mmul ns ns ns G0 H0) in
  let W2 := madd ns ns I (mmul ns ns ns H0 G0) in
  match solve ns ns W1 A0, solve ns ns W2 (mtr ns ns A0), solve ns ns W2 (mmul ns ns ns H0 A0) with
  | Some S1, Some S2, Some S3 =>
    Some (mmul ns ns ns A0 S1,
          madd ns ns G0 (mmul ns ns ns (mmul ns ns ns A0 G0) S2),
          madd ns ns H0 (mmul ns ns ns (mtr ns ns A0) S3))
  | _, _, _ => None
  end.

(* i = 1; error = tolerance + 1
   while error > tolerance:
       if i > max_iter: raise ValueError
       else: (A1,G1,H1) = step; error = max|H1 - H0|; i += 1
   return H1 + gamma I *)
Fixpoint ricc_loop (fuel : nat) (tol : T) (max_iter i : Z) (error : T) (ns : nat) (gamma : T)
         (A0 G0 H0 : list (list T)) (H1 : option (list (list T))) (its : nat) : ricc_result :=
  match fuel with
  | O => RiccMaxIter
  | S f =>
    if nltb tol error then
      if (max_iter <? i)%Z then RiccMaxIter
      else match ricc_step ns A0 G0 H0 with
           | None => RiccSingular
           | Some (A1, G1, H1') =>
             ricc_loop f tol max_iter (i + 1)%Z (mmaxabsdiff ns ns H1' H0) ns gamma
                       A1 G1 H1' (Some H1') (S its)
           end
    else match H1 with
         | None => RiccNoIter
         | Some H => RiccOk its (madd ns ns H (mscale ns ns gamma (mid ns)))
         end
  end.

Definition solve_discrete_riccati (tol : T) (max_iter : Z) (ns nc : nat) (gamma : T)
           (A B Q R N : list (list T)) : ricc_result :=
  match ricc_init ns nc gamma A B Q R N with
  | None => RiccSingular
  | Some (A0, G0, H0) =>
    ricc_loop (Z.to_nat max_iter + 2) tol max_iter 1 (nadd tol none_) ns gamma A0 G0 H0 None 0
  end.

(* k structured doubling steps without test *)
Fixpoint ricc_iter (k : nat) (ns : nat) (AGH : list (list T) * list (list T) * list (list T)) :=
  match k with
  | O => Some AGH
  | S k' => match ricc_iter k' ns AGH with
            | None => None
            | Some (A0, G0, H0) => ricc_step ns A0 G0 H0
            end
  end.

(* residuals (the specification side) *)
(* A X A' - X + B *)
Definition lyap_residual_mat (n : nat) (A B X : list (list T)) :=
  madd n n (msub n n (mmul n n n (mmul n n n A X) (mtr n n A)) X) B.
(* A'XA - (N + B'XA)' (R + B'XB)^-1 (N + B'XA) + Q - X ; None when R + B'XB is singular *)
Definition ricc_residual_mat (ns nc : nat) (A B Q R N X : list (list T)) :=
  let BX := mmul nc ns ns (mtr ns nc B) X in
  let S1 := madd nc nc R (mmul nc ns nc BX B) in
  let S2 := madd nc ns N (mmul nc ns ns BX A) in
  match solve nc ns S1 S2 with
  | None => None
  | Some F =>
    Some (msub ns ns
            (madd ns ns (msub ns ns (mmul ns ns ns (mmul ns ns ns (mtr ns ns A) X) A)
                              (mmul ns nc ns (mtr nc ns S2) F)) Q) X)
  end.
End MatrixEqn.

(* ---------------- comparison helpers for the harness (binary64) ---------------- *)
Definition Fclose (tol a b : float) : bool :=
  PrimFloat.leb (PrimFloat.abs (a - b)) (tol * (1 + PrimFloat.abs b))%float.
Fixpoint list_all2 {A} (p : A -> A -> bool) (a b : list A) : bool :=
  match a, b with
  | [], [] => true
  | x :: a', y :: b' => p x y && list_all2 p a' b'
  | _, _ => false
  end.
Definition Fs_close (tol : float) := list_all2 (Fclose tol).
Definition Fss_close (tol : float) := list_all2 (Fs_close tol).

(* C06: structured doubling preserves the solution of the doubled Riccati equation, GENERAL dimension.
   Y solves  Y = A'Y(I+GY)^-1 A + H  (given as: (I+GY) S = A, Y = A'(Y S) + H)  ==>  Y solves the same equation
   for the doubled (A1,G1,H1) with S replaced by S S.  Invertibility of I + G H is an explicit hypothesis
   (a two-sided inverse W); G, H symmetric (preserved by the step). *)
From Coq Require Import ZArith QArith List Bool Lia Lqa Setoid Morphisms.
From QE Require Import Base.Num Base.LinAlg Base.Gauss C06.Model C06.Proofs.
Import ListNotations.
Local Open Scope Q_scope.

Ltac mexp := repeat (rewrite mmul_madd_distr_l || rewrite mmul_madd_distr_r
                     || rewrite mmul_msub_distr_l || rewrite mmul_msub_distr_r
                     || rewrite mmul_assoc || rewrite mmul_id_l || rewrite mmul_id_r).

Section SDAStep.
Variable n : nat.
Notation "X ** Y" := (mmul n n n X Y) (at level 40, left associativity).
Notation "X +m Y" := (madd n n X Y) (at level 50, left associativity).
Notation "X -m Y" := (msub n n X Y) (at level 50, left associativity).
Notation Id := (mid n).
Notation "X ^t" := (mtr n n X) (at level 30).
Notation "X === Y" := (meq n n X Y) (at level 70).

Variables A G H W : Qmat.
Hypothesis HG : G^t === G.
Hypothesis HH : H^t === H.
Hypothesis W1 : W ** (Id +m G ** H) === Id.
Hypothesis W2 : (Id +m G ** H) ** W === Id.
Let V := W^t.

Lemma sda_V1 : V ** (Id +m H ** G) === Id.
Proof.
  assert (E : ((Id +m G ** H) ** W)^t === Id^t) by (now rewrite W2).
  rewrite mtr_mmul, mtr_madd, mtr_mmul, !mtr_mid, HG, HH in E. exact E.
Qed.
Lemma sda_V2 : (Id +m H ** G) ** V === Id.
Proof.
  assert (E : (W ** (Id +m G ** H))^t === Id^t) by (now rewrite W1).
  rewrite mtr_mmul, mtr_madd, mtr_mmul, !mtr_mid, HG, HH in E. exact E.
Qed.

(* rewrite rules with an arbitrary tail Z (right-associated products) *)
Lemma W1z Z : W ** (G ** (H ** Z)) === Z -m W ** Z.
Proof.
  assert (E : (W ** (Id +m G ** H)) ** Z === Id ** Z) by (now rewrite W1).
  revert E. mexp. intros E i j Hi Hj. specialize (E i j Hi Hj).
  rewrite get_madd in E by assumption. rewrite get_msub by assumption. lra.
Qed.
Lemma W2z Z : G ** (H ** (W ** Z)) === Z -m W ** Z.
Proof.
  assert (E : ((Id +m G ** H) ** W) ** Z === Id ** Z) by (now rewrite W2).
  revert E. mexp. intros E i j Hi Hj. specialize (E i j Hi Hj).
  rewrite get_madd in E by assumption. rewrite get_msub by assumption. lra.
Qed.
Lemma V1z Z : V ** (H ** (G ** Z)) === Z -m V ** Z.
Proof.
  assert (E : (V ** (Id +m H ** G)) ** Z === Id ** Z) by (now rewrite sda_V1).
  revert E. mexp. intros E i j Hi Hj. specialize (E i j Hi Hj).
  rewrite get_madd in E by assumption. rewrite get_msub by assumption. lra.
Qed.
Lemma V2z Z : H ** (G ** (V ** Z)) === Z -m V ** Z.
Proof.
  assert (E : ((Id +m H ** G) ** V) ** Z === Id ** Z) by (now rewrite sda_V2).
  revert E. mexp. intros E i j Hi Hj. specialize (E i j Hi Hj).
  rewrite get_madd in E by assumption. rewrite get_msub by assumption. lra.
Qed.

(* (a) G V = W G   and   (b) V H = H W *)
Lemma sda_GV : G ** V === W ** G.
Proof.
  (* W G = W G (I + H G) V = W (I + G H) G V = G V *)
  transitivity (W ** (G ** ((Id +m H ** G) ** V))).
  - mexp. rewrite (W1z (G ** V)). mlin.
  - rewrite sda_V2. mexp. reflexivity.
Qed.
Lemma sda_VH : V ** H === H ** W.
Proof.
  transitivity (V ** (H ** ((Id +m G ** H) ** W))).
  - rewrite W2. mexp. reflexivity.
  - mexp. rewrite (V1z (H ** W)). mlin.
Qed.
(* V + H W G = I *)
Lemma sda_Vc Z : V ** Z +m H ** (W ** (G ** Z)) === Z.
Proof.
  assert (E : H ** (W ** (G ** Z)) === V ** (H ** (G ** Z))).
  { rewrite <- (mmul_assoc n n n n H W (G ** Z)). rewrite <- sda_VH. mexp. reflexivity. }
  rewrite E, V1z. mlin.
Qed.

(* what the step computes, given the three linear solves *)
Variables S1 S2 S3 : Qmat.
Hypothesis HS1 : (Id +m G ** H) ** S1 === A.
Hypothesis HS2 : (Id +m H ** G) ** S2 === A^t.
Hypothesis HS3 : (Id +m H ** G) ** S3 === H ** A.

Lemma sda_S1 : S1 === W ** A.
Proof. rewrite <- HS1. rewrite <- (mmul_assoc n n n n W _ S1). rewrite W1. mexp. reflexivity. Qed.
Lemma sda_S2 : S2 === V ** A^t.
Proof. rewrite <- HS2. rewrite <- (mmul_assoc n n n n V _ S2). rewrite sda_V1. mexp. reflexivity. Qed.
Lemma sda_S3 : S3 === V ** (H ** A).
Proof. rewrite <- HS3. rewrite <- (mmul_assoc n n n n V _ S3). rewrite sda_V1. mexp. reflexivity. Qed.

Definition sda_A1 := A ** S1.
Definition sda_G1 := G +m (A ** G) ** S2.
Definition sda_H1 := H +m A^t ** S3.

Lemma sda_A1_eq : sda_A1 === A ** (W ** A).
Proof. unfold sda_A1. now rewrite sda_S1. Qed.
Lemma sda_G1_eq : sda_G1 === G +m A ** (W ** (G ** A^t)).
Proof.
  unfold sda_G1. rewrite sda_S2. mexp.
  rewrite <- (mmul_assoc n n n n G V (A^t)). rewrite sda_GV. mexp. reflexivity.
Qed.
Lemma sda_H1_eq : sda_H1 === H +m A^t ** (H ** (W ** A)).
Proof.
  unfold sda_H1. rewrite sda_S3.
  rewrite <- (mmul_assoc n n n n V H A). rewrite sda_VH. mexp. reflexivity.
Qed.

Lemma sda_G1_sym : sda_G1^t === sda_G1.
Proof.
  rewrite sda_G1_eq. rewrite mtr_madd, !mtr_mmul, mtr_mtr, HG. fold V.
  mexp. rewrite <- (mmul_assoc n n n n G V (A^t)). rewrite sda_GV. mexp. reflexivity.
Qed.
Lemma sda_H1_sym : sda_H1^t === sda_H1.
Proof.
  rewrite sda_H1_eq. rewrite mtr_madd, !mtr_mmul, mtr_mtr, HH. fold V.
  mexp. rewrite <- (mmul_assoc n n n n V H A). rewrite sda_VH. mexp. reflexivity.
Qed.

(* the solution and its closed loop *)
Variables Y S : Qmat.
Hypothesis Sol1 : (Id +m G ** Y) ** S === A.
Hypothesis Sol2 : Y === A^t ** (Y ** S) +m H.

Lemma F1z Z : G ** (Y ** (S ** Z)) === A ** Z -m S ** Z.
Proof.
  assert (E : ((Id +m G ** Y) ** S) ** Z === A ** Z) by (now rewrite Sol1).
  revert E. mexp. intros E i j Hi Hj. specialize (E i j Hi Hj).
  rewrite get_madd in E by assumption. rewrite get_msub by assumption. lra.
Qed.
Lemma F2z Z : A^t ** (Y ** (S ** Z)) === Y ** Z -m H ** Z.
Proof.
  assert (E : Y ** Z === (A^t ** (Y ** S) +m H) ** Z) by (now rewrite <- Sol2).
  revert E. mexp. intros E i j Hi Hj. specialize (E i j Hi Hj).
  rewrite get_madd in E by assumption. rewrite get_msub by assumption. lra.
Qed.

Theorem sda_step_closed_loop : (Id +m sda_G1 ** Y) ** (S ** S) === sda_A1.
Proof.
  rewrite sda_G1_eq, sda_A1_eq. mexp.
  rewrite (F2z S). mexp. rewrite (W1z S). mexp.
  rewrite (F1z S).
  assert (E : A ** (W ** (G ** (Y ** S))) === A ** (W ** A) -m A ** (W ** S)).
  { pose proof (F1z Id) as E0. revert E0. mexp. intros E0. rewrite E0. mexp. reflexivity. }
  rewrite E. mlin.
Qed.

Theorem sda_step_solution : Y === sda_A1^t ** (Y ** (S ** S)) +m sda_H1.
Proof.
  rewrite sda_A1_eq, sda_H1_eq.
  rewrite !mtr_mmul. fold V. mexp.
  rewrite (F2z S). mexp.
  (* A'V(YS - HS) + H + A'HWA, and A = S + G Y S *)
  assert (EA : A^t ** (H ** (W ** A)) === A^t ** (H ** (W ** S)) +m A^t ** (H ** (W ** (G ** (Y ** S))))).
  { rewrite <- Sol1 at 2. mexp. reflexivity. }
  rewrite EA.
  rewrite <- (mmul_assoc n n n n V H S). rewrite sda_VH. mexp.
  assert (EV : A^t ** (V ** (Y ** S)) +m A^t ** (H ** (W ** (G ** (Y ** S)))) === A^t ** (Y ** S)).
  { rewrite <- mmul_madd_distr_l. rewrite (sda_Vc (Y ** S)). reflexivity. }
  rewrite Sol2 at 1.
  intros i j Hi Hj. specialize (EV i j Hi Hj). revert EV.
  mat_entries. intros EV. lra.
Qed.
End SDAStep.

(* ---------------------------------------------------------------- link with the model *)
Definition two_sided_inverse (n : nat) (M W : Qmat) : Prop :=
  meq n n (mmul n n n W M) (mid n) /\ meq n n (mmul n n n M W) (mid n).

(* Y solves Y = A'Y(I+GY)^-1 A + H, the closed loop (I+GY)^-1 A being S *)
Definition sda_solution (n : nat) (A G H Y S : Qmat) : Prop :=
  meq n n (mmul n n n (madd n n (mid n) (mmul n n n G Y)) S) A /\
  meq n n Y (madd n n (mmul n n n (mtr n n A) (mmul n n n Y S)) H).

Theorem ricc_step_preserves_solution n (A G H A1 G1 H1 W Y S : Qmat) :
  msym n G -> msym n H ->
  two_sided_inverse n (madd n n (mid n) (mmul n n n G H)) W ->
  ricc_step n A G H = Some (A1, G1, H1) ->
  sda_solution n A G H Y S ->
  sda_solution n A1 G1 H1 Y (mmul n n n S S) /\ msym n G1 /\ msym n H1.
Proof.
  intros HG HH [W1 W2] Hstep [Sol1 Sol2]. unfold msym in *.
  unfold ricc_step in Hstep.
  destruct (solve n n _ A) as [S1|] eqn:E1; [|discriminate].
  destruct (solve n n _ (mtr n n A)) as [S2|] eqn:E2; [|discriminate].
  destruct (solve n n _ (mmul n n n H A)) as [S3|] eqn:E3; [|discriminate].
  injection Hstep as <- <- <-.
  pose proof (solve_correct _ _ _ _ _ E1) as HS1.
  pose proof (solve_correct _ _ _ _ _ E2) as HS2.
  pose proof (solve_correct _ _ _ _ _ E3) as HS3.
  split; [split|split].
  - exact (sda_step_closed_loop n A G H W HG HH W1 W2 S1 S2 HS1 HS2 Y S Sol1 Sol2).
  - exact (sda_step_solution n A G H W HG HH W1 W2 S1 S3 HS1 HS3 Y S Sol1 Sol2).
  - exact (sda_G1_sym n A G H W HG HH W1 W2 S2 HS2).
  - exact (sda_H1_sym n A G H W HG HH W2 S3 HS3).
Qed.

#[global] Instance sda_solution_proper n A G H Y : Proper (meq n n ==> iff) (sda_solution n A G H Y).
Proof. intros S S' E. unfold sda_solution. now rewrite E. Qed.

(* every iterate of the structured doubling keeps the solution, with closed loop S^(2^k) *)
Theorem ricc_iter_preserves_solution n (A0 G0 H0 Y S : Qmat) k :
  msym n G0 -> msym n H0 ->
  sda_solution n A0 G0 H0 Y S ->
  (forall i Ai Gi Hi, (i < k)%nat -> ricc_iter i n (A0, G0, H0) = Some (Ai, Gi, Hi) ->
       exists Wi, two_sided_inverse n (madd n n (mid n) (mmul n n n Gi Hi)) Wi) ->
  forall Ak Gk Hk, ricc_iter k n (A0, G0, H0) = Some (Ak, Gk, Hk) ->
  sda_solution n Ak Gk Hk Y (mpow n S (2 ^ k)) /\ msym n Gk /\ msym n Hk.
Proof.
  intros HG0 HH0 Hsol. induction k; intros Hinv Ak Gk Hk Hit.
  - simpl in Hit. injection Hit as <- <- <-. split; [|split; assumption].
    simpl Nat.pow. rewrite (mpow_1 n S). exact Hsol.
  - rewrite ricc_iter_S in Hit.
    destruct (ricc_iter k n (A0, G0, H0)) as [[[A' G'] H']|] eqn:Ek; [|discriminate].
    assert (Hinv' : forall i Ai Gi Hi, (i < k)%nat -> ricc_iter i n (A0, G0, H0) = Some (Ai, Gi, Hi) ->
              exists Wi, two_sided_inverse n (madd n n (mid n) (mmul n n n Gi Hi)) Wi).
    { intros i Ai Gi Hi Hi'. apply Hinv. lia. }
    destruct (IHk Hinv' A' G' H' eq_refl) as [Hs [HG HH]].
    destruct (Hinv k A' G' H' ltac:(lia) Ek) as [W HW].
    destruct (ricc_step_preserves_solution n A' G' H' Ak Gk Hk W Y _ HG HH HW Hit Hs) as [Hs' [HG' HH']].
    split; [|split; assumption].
    rewrite pow2_S. rewrite (mpow_add n S (2 ^ k) (2 ^ k)). exact Hs'.
Qed.

(* ---------------------------------------------------------------- the initial (A0,G0,H0), general dimension *)
Ltac mexp2 := repeat (rewrite mmul_madd_distr_l || rewrite mmul_madd_distr_r
                      || rewrite mmul_msub_distr_l || rewrite mmul_msub_distr_r
                      || rewrite mmul_mscale_l || rewrite mmul_mscale_r
                      || rewrite mmul_mneg_l || rewrite mmul_mneg_r
                      || rewrite mmul_assoc || rewrite mmul_id_l || rewrite mmul_id_r).

Section SDAInit.
Variables (s c : nat) (g : Q) (A B Qm R N X F Z X1 X2 X3 : Qmat).
Let Bt := mtr s c B.
Let At := mtr s s A.
Let Rh := madd c c R (mscale c c g (mmul c s c Bt B)).
Let M := madd c s N (mscale c s g (mmul c s s Bt A)).
Hypothesis HR : msym c R.
Hypothesis HXs : msym s X.
Hypothesis ZL : meq c c (mmul c c c Z Rh) (mid c).
Hypothesis ZR : meq c c (mmul c c c Rh Z) (mid c).
Hypothesis HX1 : meq c s (mmul c c s Rh X1) M.
Hypothesis HX2 : meq c s (mmul c c s Rh X2) Bt.
Hypothesis HX3 : meq c s (mmul c c s Rh X3) N.
(* X solves the Riccati equation with feedback F *)
Let S2r := madd c s N (mmul c s s (mmul c s s Bt X) A).
Hypothesis HFx : meq c s (mmul c c s (madd c c R (mmul c s c (mmul c s s Bt X) B)) F) S2r.
Hypothesis Hric : meq s s X (madd s s (msub s s (mmul s s s (mmul s s s At X) A) (mmul s c s (mtr c s S2r) F)) Qm).

Let G0 := mmul s c s B X2.
Let A0 := msub s s (mmul s s s (msub s s (mid s) (mscale s s g G0)) A) (mmul s c s B X3).
Let Qt := madd s s (madd s s (mneg s s Qm) (mmul s c s (mtr c s N) X1)) (mscale s s g (mid s)).
Let H0 := msub s s (mscale s s g (mmul s s s At A0)) Qt.
Let Y := msub s s X (mscale s s g (mid s)).
Let S := msub s s A (mmul s c s B F).

Lemma init_Zsym : meq c c (mtr c c Z) Z.
Proof.
  assert (HRh : meq c c (mtr c c Rh) Rh).
  { unfold Rh. unfold msym in HR. rewrite mtr_madd, mtr_mscale, HR.
    unfold Bt. rewrite (mtr_mmul c s c (mtr s c B) B). rewrite (mtr_mtr s c B). reflexivity. }
  (* Z' = Z' (Rh Z) = (Z' Rh') Z = (Rh Z)' Z = Z *)
  transitivity (mmul c c c (mtr c c Z) (mmul c c c Rh Z)).
  - rewrite ZR. now rewrite mmul_id_r.
  - rewrite <- mmul_assoc. rewrite <- HRh at 1. rewrite <- (mtr_mmul c c c Rh Z). rewrite ZR.
    rewrite mtr_mid. now rewrite mmul_id_l.
Qed.

Lemma init_X1 : meq c s X1 (mmul c c s Z M).
Proof. rewrite <- HX1. rewrite <- mmul_assoc, ZL. now rewrite mmul_id_l. Qed.
Lemma init_X2 : meq c s X2 (mmul c c s Z Bt).
Proof. rewrite <- HX2. rewrite <- mmul_assoc, ZL. now rewrite mmul_id_l. Qed.
Lemma init_X3 : meq c s X3 (mmul c c s Z N).
Proof. rewrite <- HX3. rewrite <- mmul_assoc, ZL. now rewrite mmul_id_l. Qed.

Lemma init_A0 : meq s s A0 (msub s s A (mmul s c s B (mmul c c s Z M))).
Proof.
  unfold A0, G0, M. rewrite init_X2, init_X3. mexp2. mlin.
Qed.

(* B'(Y S) = Rh F - M : the first-order condition in the shifted variables *)
Lemma init_bracket : meq c s (mmul c s s Bt (mmul s s s Y S)) (msub c s (mmul c c s Rh F) M).
Proof.
  unfold Y, S, Rh, M. revert HFx. unfold S2r. mexp2. intros E.
  intros i j Hi Hj. specialize (E i j Hi Hj). revert E. mat_entries. intros E. lra.
Qed.

Theorem init_closed_loop : meq s s (mmul s s s (madd s s (mid s) (mmul s s s G0 Y)) S) A0.
Proof.
  rewrite init_A0. unfold G0. rewrite init_X2.
  rewrite mmul_madd_distr_r, mmul_id_l.
  rewrite (mmul_assoc s s s s (mmul s c s B (mmul c c s Z Bt)) Y S).
  rewrite (mmul_assoc s c s s B (mmul c c s Z Bt) (mmul s s s Y S)).
  rewrite (mmul_assoc c c s s Z Bt (mmul s s s Y S)).
  rewrite init_bracket. rewrite mmul_msub_distr_l.
  rewrite <- (mmul_assoc c c c s Z Rh F). rewrite ZL, mmul_id_l.
  unfold S. mexp2. mlin.
Qed.

Theorem init_solution : meq s s Y (madd s s (mmul s s s (mtr s s A0) (mmul s s s Y S)) H0).
Proof.
  (* A0' = A' - M' Z B' *)
  assert (EA0t : meq s s (mtr s s A0) (msub s s At (mmul s c s (mtr c s M) (mmul c c s Z Bt)))).
  { rewrite init_A0. rewrite mtr_msub.
    rewrite (mtr_mmul s c s B (mmul c c s Z M)). rewrite (mtr_mmul c c s Z M). rewrite init_Zsym.
    fold Bt. fold At. rewrite mmul_assoc. reflexivity. }
  unfold H0. rewrite EA0t. rewrite mmul_msub_distr_r.
  rewrite (mmul_assoc s c s s (mtr c s M) (mmul c c s Z Bt) (mmul s s s Y S)).
  rewrite (mmul_assoc c c s s Z Bt (mmul s s s Y S)).
  rewrite init_bracket. rewrite mmul_msub_distr_l.
  rewrite <- (mmul_assoc c c c s Z Rh F). rewrite ZL, mmul_id_l.
  rewrite init_A0. unfold Qt. rewrite init_X1.
  (* now everything is in terms of A, B, N, M, Z, X, F *)
  assert (EM : meq s c (mtr c s M) (madd s c (mtr c s N) (mscale s c g (mmul s s c At B)))).
  { unfold M. rewrite mtr_madd, mtr_mscale. unfold Bt. rewrite (mtr_mmul c s s (mtr s c B) A).
    rewrite (mtr_mtr s c B). reflexivity. }
  assert (ES2 : meq s c (mtr c s S2r) (madd s c (mtr c s N) (mmul s s c (mmul s s s At X) B))).
  { unfold S2r. rewrite mtr_madd. unfold Bt.
    rewrite (mtr_mmul c s s (mmul c s s (mtr s c B) X) A).
    rewrite (mtr_mmul c s s (mtr s c B) X). rewrite (mtr_mtr s c B).
    unfold msym in HXs. rewrite HXs. fold At. rewrite mmul_assoc. mexp2. reflexivity. }
  unfold Y, S. rewrite Hric at 1. rewrite ES2. rewrite EM. unfold M. mexp2.
  mlin.
Qed.

Lemma init_G0_sym : meq s s (mtr s s G0) G0.
Proof.
  unfold G0. rewrite init_X2.
  rewrite (mtr_mmul s c s B (mmul c c s Z Bt)). rewrite (mtr_mmul c c s Z Bt).
  rewrite init_Zsym. unfold Bt. rewrite (mtr_mtr s c B). apply mmul_assoc.
Qed.

Hypothesis HQs : msym s Qm.
Lemma init_H0_form :
  meq s s H0 (msub s s (madd s s (msub s s (mscale s s g (mmul s s s At A)) (mscale s s g (mid s))) Qm)
                   (mmul s c s (mtr c s M) (mmul c c s Z M))).
Proof.
  assert (EM : meq s c (mtr c s M) (madd s c (mtr c s N) (mscale s c g (mmul s s c At B)))).
  { unfold M. rewrite mtr_madd, mtr_mscale. unfold Bt. rewrite (mtr_mmul c s s (mtr s c B) A).
    rewrite (mtr_mtr s c B). reflexivity. }
  unfold H0, Qt. rewrite init_A0, init_X1. rewrite EM. unfold M. mexp2. mlin.
Qed.
Lemma init_H0_sym : meq s s (mtr s s H0) H0.
Proof.
  rewrite init_H0_form. unfold msym in HQs.
  rewrite mtr_msub, mtr_madd, mtr_msub, !mtr_mscale, mtr_mid, HQs.
  unfold At. rewrite (mtr_mmul s s s (mtr s s A) A). rewrite (mtr_mtr s s A).
  rewrite (mtr_mmul s c s (mtr c s M) (mmul c c s Z M)). rewrite (mtr_mmul c c s Z M).
  rewrite (mtr_mtr c s M). rewrite init_Zsym. rewrite mmul_assoc. reflexivity.
Qed.
End SDAInit.

(* ---------------------------------------------------------------- the full transfer theorem *)
Theorem riccati_fixed_point_transfer ns nc (g : Q) (A B Qm R N X F Z : Qmat) k AGH0 Ak Gk Hk :
  msym ns Qm -> msym nc R -> msym ns X ->
  two_sided_inverse nc (madd nc nc R (mscale nc nc g (mmul nc ns nc (mtr ns nc B) B))) Z ->
  (* X solves the Riccati equation, F = (R + B'XB)^-1 (N + B'XA) *)
  meq nc ns (mmul nc nc ns (madd nc nc R (mmul nc ns nc (mmul nc ns ns (mtr ns nc B) X) B)) F)
            (madd nc ns N (mmul nc ns ns (mmul nc ns ns (mtr ns nc B) X) A)) ->
  meq ns ns X (madd ns ns (msub ns ns (mmul ns ns ns (mmul ns ns ns (mtr ns ns A) X) A)
                                (mmul ns nc ns (mtr nc ns (madd nc ns N (mmul nc ns ns (mmul nc ns ns (mtr ns nc B) X) A))) F)) Qm) ->
  ricc_init ns nc g A B Qm R N = Some AGH0 ->
  ricc_iter k ns AGH0 = Some (Ak, Gk, Hk) ->
  (forall i Ai Gi Hi, (i < k)%nat -> ricc_iter i ns AGH0 = Some (Ai, Gi, Hi) ->
       exists Wi, two_sided_inverse ns (madd ns ns (mid ns) (mmul ns ns ns Gi Hi)) Wi) ->
  sda_solution ns Ak Gk Hk (msub ns ns X (mscale ns ns g (mid ns)))
               (mpow ns (msub ns ns A (mmul ns nc ns B F)) (2 ^ k)).
Proof.
  intros HQ HR HX [ZL ZR] HFx Hric Hinit Hit Hinv.
  unfold ricc_init in Hinit.
  destruct (solve nc ns _ (madd nc ns N _)) as [X1|] eqn:E1; [|discriminate].
  destruct (solve nc ns _ (mtr ns nc B)) as [X2|] eqn:E2; [|discriminate].
  destruct (solve nc ns _ N) as [X3|] eqn:E3; [|discriminate].
  injection Hinit as <-.
  pose proof (solve_correct _ _ _ _ _ E1) as HX1.
  pose proof (solve_correct _ _ _ _ _ E2) as HX2.
  pose proof (solve_correct _ _ _ _ _ E3) as HX3.
  match type of Hit with ricc_iter _ _ (?a0, ?g0, ?h0) = _ =>
    set (A0 := a0) in *; set (G0 := g0) in *; set (H0 := h0) in * end.
  assert (Hsol0 : sda_solution ns A0 G0 H0 (msub ns ns X (mscale ns ns g (mid ns))) (msub ns ns A (mmul ns nc ns B F))).
  { split.
    - exact (init_closed_loop ns nc g A B R N X F Z X2 X3 ZL HX2 HX3 HFx).
    - exact (init_solution ns nc g A B Qm R N X F Z X1 X2 X3 HR HX ZL ZR HX1 HX2 HX3 HFx Hric). }
  refine (proj1 (ricc_iter_preserves_solution ns A0 G0 H0 _ _ k _ _ Hsol0 Hinv Ak Gk Hk Hit)).
  - exact (init_G0_sym ns nc g B R Z X2 HR ZL ZR HX2).
  - exact (init_H0_sym ns nc g A B Qm R N Z X1 X2 X3 HR ZL ZR HX1 HX2 HX3 HQ).
Qed.


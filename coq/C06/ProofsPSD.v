(* C06: symmetry and positive semidefiniteness, exact over Q, general dimension.
   mpsd n M := forall x, 0 <= x'Mx (x a vector of Q).  Uses the bilinear-form lemmas of C07/Proofs.v. *)
From Coq Require Import ZArith QArith List Bool Lia Lqa Setoid Morphisms.
From QE Require Import Base.Num Base.LinAlg Base.Gauss C06.Model C06.Proofs C06.ProofsFull C07.Proofs.
Import ListNotations.
Local Open Scope Q_scope.

Definition mpsd (n : nat) (M : Qmat) : Prop := forall x : list Q, 0 <= qform n x M.

Lemma qform_meq n x (M M' : Qmat) : meq n n M M' -> qform n x M == qform n x M'.
Proof. intros E. change (bform n n x M x == bform n n x M' x). now rewrite E. Qed.

#[global] Instance mpsd_proper n : Proper (meq n n ==> iff) (mpsd n).
Proof. intros M M' E. unfold mpsd. split; intros Hp x; [rewrite <- (qform_meq n x M M' E)|rewrite (qform_meq n x M M' E)]; apply Hp. Qed.

Lemma mpsd_mzero n : mpsd n (mzero n n).
Proof.
  intros x. change (0 <= bform n n x (mzero n n) x). rewrite bform_Q.
  apply sumQ_nonneg. intros i Hi.
  rewrite (sumQ_ext n _ (fun _ => 0)) by (intros l Hl; rewrite get_mzero by assumption; ring).
  rewrite sumQ_zero. lra.
Qed.

Lemma mpsd_madd n (M M' : Qmat) : mpsd n M -> mpsd n M' -> mpsd n (madd n n M M').
Proof.
  intros H1 H2 x. change (0 <= bform n n x (madd n n M M') x). rewrite bform_madd.
  specialize (H1 x). specialize (H2 x). unfold qform in *. fold (bform n n x M x) in H1. fold (bform n n x M' x) in H2. lra.
Qed.

(* congruence: (A M) A' is PSD when M is *)
Lemma qform_congruence n (A M : Qmat) x :
  qform n x (mmul n n n (mmul n n n A M) (mtr n n A)) == qform n (mvmul n n (mtr n n A) x) M.
Proof.
  change (bform n n x (mmul n n n (mmul n n n A M) (mtr n n A)) x
          == bform n n (mvmul n n (mtr n n A) x) M (mvmul n n (mtr n n A) x)).
  rewrite (bform_mv2 n n n (mtr n n A) x M (mtr n n A) x).
  apply bform_proper; try reflexivity. rewrite (mtr_mtr n n A). apply mmul_assoc.
Qed.
Lemma mpsd_congruence n (A M : Qmat) : mpsd n M -> mpsd n (mmul n n n (mmul n n n A M) (mtr n n A)).
Proof. intros Hp x. rewrite qform_congruence. apply Hp. Qed.

Lemma mpsd_msum n k (F : nat -> Qmat) : (forall l, (l < k)%nat -> mpsd n (F l)) -> mpsd n (msum n n k F).
Proof.
  induction k; intros Hf; simpl; [apply mpsd_mzero|].
  apply mpsd_madd; [apply IHk; intros; apply Hf; lia|apply Hf; lia].
Qed.

(* ------------------------------------------------------------------ (a) Lyapunov *)
Lemma lyap_term_sym n (A B : Qmat) l : msym n B -> msym n (lyap_term n A B l).
Proof.
  intros HB. unfold msym in *. unfold lyap_term.
  rewrite (mtr_mmul n n n (mmul n n n (mpow n A l) B) (mtr n n (mpow n A l))).
  rewrite (mtr_mmul n n n (mpow n A l) B). rewrite (mtr_mtr n n (mpow n A l)). rewrite HB.
  symmetry. apply mmul_assoc.
Qed.

Lemma msum_sym n k (F : nat -> Qmat) : (forall l, (l < k)%nat -> msym n (F l)) -> msym n (msum n n k F).
Proof.
  intros Hf. unfold msym. rewrite mtr_msum. apply msum_ext. intros l Hl. apply (Hf l Hl).
Qed.

Theorem lyap_iterate_sym_psd n (A B : Qmat) k :
  msym n B -> mpsd n B ->
  msym n (snd (lyap_iter k n A B)) /\ mpsd n (snd (lyap_iter k n A B)) /\
  mpsd n (msub n n (snd (lyap_iter (S k) n A B)) (snd (lyap_iter k n A B))).
Proof.
  intros HB HP. destruct (lyap_doubling_closed_form n A B k) as [_ Hg].
  assert (Hsym : msym n (snd (lyap_iter k n A B))).
  { unfold msym. rewrite Hg. apply msum_sym. intros l _. now apply lyap_term_sym. }
  assert (Hpsd : mpsd n (snd (lyap_iter k n A B))).
  { rewrite Hg. apply mpsd_msum. intros l _. unfold lyap_term. now apply mpsd_congruence. }
  split; [exact Hsym|]. split; [exact Hpsd|].
  rewrite lyap_step_is_tail. now apply mpsd_congruence.
Qed.

Theorem lyap_solver_sym_psd tol max_it n (A B : Qmat) k X :
  msym n B -> mpsd n B ->
  solve_discrete_lyapunov tol max_it n A B = Some (k, X) -> msym n X /\ mpsd n X.
Proof.
  intros HB HP Hs. destruct (solve_discrete_lyapunov_iterate _ _ _ _ _ _ _ Hs) as [_ [-> _]].
  destruct (lyap_iterate_sym_psd n A B k HB HP) as [H1 [H2 _]]. auto.
Qed.

(* ------------------------------------------------------------------ (b) Riccati doubling step *)
Section StepPSD.
Variable n : nat.
Variables A G H W : Qmat.
Hypothesis HG : msym n G.
Hypothesis HH : msym n H.
Hypothesis HW : two_sided_inverse n (madd n n (mid n) (mmul n n n G H)) W.
Hypothesis PG : mpsd n G.
Hypothesis PH : mpsd n H.

(* x'(H W)x = y'Hy + (Hy)'G(Hy) with y = W x : no square roots needed *)
Lemma psd_HW : mpsd n (mmul n n n H W).
Proof.
  destruct HW as [W1 W2]. unfold msym in *.
  intros x. set (y := mvmul n n W x).
  assert (E : qform n x (mmul n n n H W)
              == qform n y H + qform n (mvmul n n H y) G).
  { change (bform n n x (mmul n n n H W) x == bform n n y H y + bform n n (mvmul n n H y) G (mvmul n n H y)).
    rewrite <- (bform_mvmul_r n n n x H W x). fold y.
    (* x = (I + G H) y *)
    assert (Ex : veq n x (mvmul n n (madd n n (mid n) (mmul n n n G H)) y)).
    { intros i Hi. unfold y.
      pose proof (colmat_mvmul n n (madd n n (mid n) (mmul n n n G H)) (mvmul n n W x) i 0%nat Hi ltac:(lia)) as E1.
      rewrite get_colmat in E1 by assumption. rewrite E1.
      rewrite (mmul_proper n n 1 _ _ (reflexivity _) _ _ (colmat_mvmul n n W x) i 0%nat Hi ltac:(lia)).
      rewrite <- (mmul_assoc n n n 1 _ W (colmat n x) i 0%nat Hi ltac:(lia)).
      rewrite (mmul_proper n n 1 _ _ W2 _ _ (reflexivity _) i 0%nat Hi ltac:(lia)).
      rewrite (mmul_id_l n 1 (colmat n x) i 0%nat Hi ltac:(lia)). now rewrite get_colmat. }
    rewrite Ex at 1. rewrite bform_mvmul_l.
    rewrite (bform_mv2 n n n H y G H y).
    rewrite <- bform_madd. apply bform_proper; try reflexivity.
    rewrite mtr_madd, mtr_mid, (mtr_mmul n n n G H), HG, HH.
    rewrite mmul_madd_distr_r, mmul_id_l. rewrite mmul_assoc. reflexivity. }
  rewrite E. specialize (PH y). specialize (PG (mvmul n n H y)). lra.
Qed.

Lemma psd_WG : mpsd n (mmul n n n W G).
Proof.
  destruct HW as [W1 W2]. pose proof HG as HG'. pose proof HH as HH'. unfold msym in HG', HH'.
  (* W G = G V with V = W' ; x'(G V)x = z'Gz + (Gz)'H(Gz), z = V x *)
  rewrite <- (sda_GV n G H W HG' HH' W1).
  pose proof (sda_V2 n G H W HG' HH' W1) as V2.
  set (V := mtr n n W) in *.
  intros x. set (z := mvmul n n V x).
  assert (E : qform n x (mmul n n n G V) == qform n z G + qform n (mvmul n n G z) H).
  { change (bform n n x (mmul n n n G V) x == bform n n z G z + bform n n (mvmul n n G z) H (mvmul n n G z)).
    rewrite <- (bform_mvmul_r n n n x G V x). fold z.
    assert (Ex : veq n x (mvmul n n (madd n n (mid n) (mmul n n n H G)) z)).
    { intros i Hi. unfold z.
      pose proof (colmat_mvmul n n (madd n n (mid n) (mmul n n n H G)) (mvmul n n V x) i 0%nat Hi ltac:(lia)) as E1.
      rewrite get_colmat in E1 by assumption. rewrite E1.
      rewrite (mmul_proper n n 1 _ _ (reflexivity _) _ _ (colmat_mvmul n n V x) i 0%nat Hi ltac:(lia)).
      rewrite <- (mmul_assoc n n n 1 _ V (colmat n x) i 0%nat Hi ltac:(lia)).
      rewrite (mmul_proper n n 1 _ _ V2 _ _ (reflexivity _) i 0%nat Hi ltac:(lia)).
      rewrite (mmul_id_l n 1 (colmat n x) i 0%nat Hi ltac:(lia)). now rewrite get_colmat. }
    rewrite Ex at 1. rewrite bform_mvmul_l.
    rewrite (bform_mv2 n n n G z H G z).
    rewrite <- bform_madd. apply bform_proper; try reflexivity.
    rewrite mtr_madd, mtr_mid, (mtr_mmul n n n H G), HG', HH'.
    rewrite mmul_madd_distr_r, mmul_id_l. rewrite mmul_assoc. reflexivity. }
  rewrite E. specialize (PG z). specialize (PH (mvmul n n G z)). lra.
Qed.
End StepPSD.

Theorem ricc_step_psd n (A G H A1 G1 H1 W : Qmat) :
  msym n G -> msym n H -> mpsd n G -> mpsd n H ->
  two_sided_inverse n (madd n n (mid n) (mmul n n n G H)) W ->
  ricc_step n A G H = Some (A1, G1, H1) ->
  msym n G1 /\ msym n H1 /\ mpsd n G1 /\ mpsd n H1 /\
  mpsd n (msub n n G1 G) /\ mpsd n (msub n n H1 H).
Proof.
  intros HG HH PG PH HW Hstep. pose proof HW as [W1 W2].
  pose proof HG as HG'. pose proof HH as HH'. unfold msym in HG', HH'.
  unfold ricc_step in Hstep.
  destruct (solve n n _ A) as [S1|] eqn:E1; [|discriminate].
  destruct (solve n n _ (mtr n n A)) as [S2|] eqn:E2; [|discriminate].
  destruct (solve n n _ (mmul n n n H A)) as [S3|] eqn:E3; [|discriminate].
  injection Hstep as <- <- <-.
  pose proof (solve_correct _ _ _ _ _ E2) as HS2.
  pose proof (solve_correct _ _ _ _ _ E3) as HS3.
  pose proof (sda_G1_eq n A G H W HG' HH' W1 W2 S2 HS2) as EG. unfold sda_G1 in EG.
  pose proof (sda_H1_eq n A G H W HG' HH' W2 S3 HS3) as EH. unfold sda_H1 in EH.
  (* increments as congruences of W G and H W *)
  assert (IG : meq n n (mmul n n n A (mmul n n n W (mmul n n n G (mtr n n A))))
                       (mmul n n n (mmul n n n A (mmul n n n W G)) (mtr n n A))).
  { rewrite !mmul_assoc. reflexivity. }
  assert (IH : meq n n (mmul n n n (mtr n n A) (mmul n n n H (mmul n n n W A)))
                       (mmul n n n (mmul n n n (mtr n n A) (mmul n n n H W)) (mtr n n (mtr n n A)))).
  { rewrite (mtr_mtr n n A). rewrite !mmul_assoc. reflexivity. }
  pose proof (mpsd_congruence n A _ (psd_WG n G H W HG HH HW PG PH)) as PIG.
  pose proof (mpsd_congruence n (mtr n n A) _ (psd_HW n G H W HG HH HW PG PH)) as PIH.
  rewrite <- IG in PIG. rewrite <- IH in PIH.
  split; [exact (sda_G1_sym n A G H W HG' HH' W1 W2 S2 HS2)|].
  split; [exact (sda_H1_sym n A G H W HG' HH' W2 S3 HS3)|].
  split; [rewrite EG; now apply mpsd_madd|].
  split; [rewrite EH; now apply mpsd_madd|].
  split.
  - assert (E : meq n n (msub n n (madd n n G (mmul n n n (mmul n n n A G) S2)) G)
                        (mmul n n n A (mmul n n n W (mmul n n n G (mtr n n A))))).
    { rewrite EG. mlin. }
    rewrite E. exact PIG.
  - assert (E : meq n n (msub n n (madd n n H (mmul n n n (mtr n n A) S3)) H)
                        (mmul n n n (mtr n n A) (mmul n n n H (mmul n n n W A)))).
    { rewrite EH. mlin. }
    rewrite E. exact PIH.
Qed.

(* ------------------------------------------------------------------ (c) the returned matrix is symmetric *)
Lemma ricc_iter_sym n (A0 G0 H0 : Qmat) k :
  msym n G0 -> msym n H0 ->
  (forall i Ai Gi Hi, (i < k)%nat -> ricc_iter i n (A0, G0, H0) = Some (Ai, Gi, Hi) ->
       exists Wi, two_sided_inverse n (madd n n (mid n) (mmul n n n Gi Hi)) Wi) ->
  forall Ak Gk Hk, ricc_iter k n (A0, G0, H0) = Some (Ak, Gk, Hk) -> msym n Gk /\ msym n Hk.
Proof.
  intros HG0 HH0. induction k; intros Hinv Ak Gk Hk Hit.
  - simpl in Hit. injection Hit as <- <- <-. auto.
  - rewrite ricc_iter_S in Hit.
    destruct (ricc_iter k n (A0, G0, H0)) as [[[A' G'] H']|] eqn:Ek; [|discriminate].
    destruct (IHk (fun i Ai Gi Hi Hi' => Hinv i Ai Gi Hi ltac:(lia)) A' G' H' eq_refl) as [HG HH].
    destruct (Hinv k A' G' H' ltac:(lia) Ek) as [W [W1 W2]].
    unfold msym in HG, HH. unfold ricc_step in Hit.
    destruct (solve n n _ A') as [S1|] eqn:E1; [|discriminate].
    destruct (solve n n _ (mtr n n A')) as [S2|] eqn:E2; [|discriminate].
    destruct (solve n n _ (mmul n n n H' A')) as [S3|] eqn:E3; [|discriminate].
    injection Hit as <- <- <-.
    split.
    + exact (sda_G1_sym n A' G' H' W HG HH W1 W2 S2 (solve_correct _ _ _ _ _ E2)).
    + exact (sda_H1_sym n A' G' H' W HG HH W2 S3 (solve_correct _ _ _ _ _ E3)).
Qed.

Theorem riccati_returned_symmetric tol max_iter ns nc (g : Q) (A B Qm R N Z : Qmat) k X :
  msym ns Qm -> msym nc R ->
  two_sided_inverse nc (madd nc nc R (mscale nc nc g (mmul nc ns nc (mtr ns nc B) B))) Z ->
  (forall AGH0 i Ai Gi Hi, ricc_init ns nc g A B Qm R N = Some AGH0 -> (i < k)%nat ->
       ricc_iter i ns AGH0 = Some (Ai, Gi, Hi) ->
       exists Wi, two_sided_inverse ns (madd ns ns (mid ns) (mmul ns ns ns Gi Hi)) Wi) ->
  solve_discrete_riccati tol max_iter ns nc g A B Qm R N = RiccOk k X ->
  msym ns X.
Proof.
  intros HQ HR [ZL ZR] Hinv Hs.
  destruct (solve_discrete_riccati_iterate _ _ _ _ _ _ _ _ _ _ _ _ Hs) as [_ [AGH0 [Ak [Gk [Hk [Hi [Hit ->]]]]]]].
  specialize (Hinv AGH0). pose proof Hi as Hi0.
  unfold ricc_init in Hi.
  destruct (solve nc ns _ (madd nc ns N _)) as [X1|] eqn:E1; [|discriminate].
  destruct (solve nc ns _ (mtr ns nc B)) as [X2|] eqn:E2; [|discriminate].
  destruct (solve nc ns _ N) as [X3|] eqn:E3; [|discriminate].
  injection Hi as <-.
  pose proof (solve_correct _ _ _ _ _ E1) as HX1.
  pose proof (solve_correct _ _ _ _ _ E2) as HX2.
  pose proof (solve_correct _ _ _ _ _ E3) as HX3.
  destruct (ricc_iter_sym ns _ _ _ k
              (init_G0_sym ns nc g B R Z X2 HR ZL ZR HX2)
              (init_H0_sym ns nc g A B Qm R N Z X1 X2 X3 HR ZL ZR HX1 HX2 HX3 HQ)
              (fun i Ai Gi Hi' Hlt Hit' => Hinv i Ai Gi Hi' Hi0 Hlt Hit') Ak Gk Hk Hit) as [_ HHk].
  unfold msym in *. rewrite mtr_madd, mtr_mscale, mtr_mid, HHk. reflexivity.
Qed.

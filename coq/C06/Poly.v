(* Polynomial core of the scalar structured-doubling invariant (nsatz over Q; kept in its own file
   because Nsatz's bracket notation clashes with list notations). *)
From Coq Require Import QArith Nsatz.
Local Open Scope Q_scope.

(* w = 1/(1 + g0 h0); (a1,g1,h1) = one doubling step; the fixed-point equation in polynomial form *)
Lemma sda_step_poly a0 g0 h0 y w a1 g1 h1 :
  w * (1 + g0*h0) == 1 ->
  a1 == a0*a0*w -> g1 == g0 + a0*g0*a0*w -> h1 == h0 + a0*h0*a0*w ->
  y*(1+g0*y) == a0*a0*y + h0*(1+g0*y) ->
  y*(1+g1*y) == a1*a1*y + h1*(1+g1*y).
Proof. intros. nsatz. Qed.

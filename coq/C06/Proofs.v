(* C06 lemmas *)
From Coq Require Import ZArith QArith List Bool Lia Lqa Setoid Morphisms.
From QE Require Import Base.Num Base.LinAlg Base.Gauss C06.Model.
Import ListNotations.

(* C06 lemmas: Lyapunov doubling closed form / residual (all dimensions, exact over Q),
   loop-to-iterate link (any Num instance), scalar Riccati doubling invariant. *)
From Coq Require Import ZArith QArith List Bool Lia Lqa Setoid Morphisms.
From QE Require Import Base.Num Base.LinAlg Base.Gauss C06.Model.
From QE Require C06.Poly.
Import ListNotations.

(* ------------------------------------------------------------------ *)
(* the loop returns an iterate of lyap_step (every Num instance, hence also binary64) *)
Section Loop.
Context {T : Type} `{Num T}.

Lemma lyap_iter_S k n (A B : list (list T)) :
  lyap_iter (S k) n A B = lyap_step n (lyap_iter k n A B).
Proof. reflexivity. Qed.

Opaque lyap_step.
Lemma lyap_loop_is_iterate fuel tol max_it n (A B : list (list T)) :
  forall n_its i k X,
  lyap_loop fuel tol max_it n_its n (fst (lyap_iter i n A B)) (snd (lyap_iter i n A B)) i = Some (k, X) ->
  (i < k)%nat /\ X = snd (lyap_iter k n A B) /\
  nltb tol (mmaxabsdiff n n (snd (lyap_iter k n A B)) (snd (lyap_iter (pred k) n A B))) = false /\
  (n_its + Z.of_nat (k - i) <= max_it)%Z.
Proof.
  induction fuel as [|f IH]; intros n_its i k X; simpl; [discriminate|].
  pose proof (lyap_iter_S i n A B) as HS.
  destruct (lyap_iter i n A B) as [al ga] eqn:Ei. simpl fst; simpl snd.
  destruct (lyap_step n (al, ga)) as [al1 ga1] eqn:Es.
  destruct (max_it <? n_its + 1)%Z eqn:Ecap; [discriminate|].
  apply Z.ltb_ge in Ecap.
  destruct (nltb tol (mmaxabsdiff n n ga1 ga)) eqn:Ed.
  - intros Hloop.
    specialize (IH (n_its + 1)%Z (S i) k X).
    rewrite HS in IH. simpl fst in IH; simpl snd in IH.
    destruct (IH Hloop) as [Hlt [HX [Hd Hc]]].
    repeat split; try assumption; lia.
  - intros Hloop. injection Hloop as <- <-.
    rewrite HS. simpl pred. rewrite Ei. simpl snd.
    repeat split; try assumption; try lia.
Qed.
Transparent lyap_step.

(* solve_discrete_lyapunov = Some (k, X): X is the k-th doubling iterate gamma_k (k >= 1), the stopping
   test fired at step k, and k + 1 <= max_it (no ValueError) *)
Lemma solve_discrete_lyapunov_iterate tol max_it n (A B : list (list T)) k X :
  solve_discrete_lyapunov tol max_it n A B = Some (k, X) ->
  (1 <= k)%nat /\ X = snd (lyap_iter k n A B) /\
  nltb tol (mmaxabsdiff n n (snd (lyap_iter k n A B)) (snd (lyap_iter (pred k) n A B))) = false /\
  (Z.of_nat k + 1 <= max_it)%Z.
Proof.
  unfold solve_discrete_lyapunov. intros Hs.
  pose proof (lyap_loop_is_iterate (S (Z.to_nat max_it)) tol max_it n A B 1%Z 0%nat k X) as L.
  simpl lyap_iter in L. simpl fst in L; simpl snd in L.
  destruct (L Hs) as [H1 [H2 [H3 H4]]]. repeat split; try assumption; lia.
Qed.

(* the Riccati loop returns H_k + gamma I for an iterate of ricc_step *)
Lemma ricc_iter_S k ns (AGH : list (list T) * list (list T) * list (list T)) :
  ricc_iter (S k) ns AGH =
  match ricc_iter k ns AGH with None => None | Some (A0, G0, H0) => ricc_step ns A0 G0 H0 end.
Proof. reflexivity. Qed.

Lemma ricc_loop_is_iterate fuel tol max_iter ns gamma AGH0 :
  forall i_ error A0 G0 H0 H1 its k X,
  ricc_iter its ns AGH0 = Some (A0, G0, H0) ->
  H1 = match its with O => None | S _ => Some H0 end ->
  ricc_loop fuel tol max_iter i_ error ns gamma A0 G0 H0 H1 its = RiccOk k X ->
  (its <= k)%nat /\ (1 <= k)%nat /\
  exists Ak Gk Hk, ricc_iter k ns AGH0 = Some (Ak, Gk, Hk) /\
                   X = madd ns ns Hk (mscale ns ns gamma (mid ns)).
Proof.
  induction fuel as [|f IH]; intros i_ error A0 G0 H0 H1 its k X Hit HH1; simpl; [discriminate|].
  destruct (nltb tol error).
  - destruct (max_iter <? i_)%Z; [discriminate|].
    destruct (ricc_step ns A0 G0 H0) as [[[A1 G1] H1']|] eqn:Es; [|discriminate].
    intros Hl.
    assert (Hit' : ricc_iter (S its) ns AGH0 = Some (A1, G1, H1')).
    { rewrite ricc_iter_S, Hit. exact Es. }
    destruct (IH _ _ _ _ _ _ _ _ _ Hit' eq_refl Hl) as [Hle [H1k Hex]].
    repeat split; try lia. exact Hex.
  - subst H1. destruct its as [|its']; [discriminate|].
    intros Hl. injection Hl as <- <-.
    repeat split; try lia. exists A0, G0, H0. split; [exact Hit|reflexivity].
Qed.

Lemma solve_discrete_riccati_iterate tol max_iter ns nc gamma (A B Q R N : list (list T)) k X :
  solve_discrete_riccati tol max_iter ns nc gamma A B Q R N = RiccOk k X ->
  (1 <= k)%nat /\
  exists AGH0 Ak Gk Hk, ricc_init ns nc gamma A B Q R N = Some AGH0 /\
     ricc_iter k ns AGH0 = Some (Ak, Gk, Hk) /\ X = madd ns ns Hk (mscale ns ns gamma (mid ns)).
Proof.
  unfold solve_discrete_riccati.
  destruct (ricc_init ns nc gamma A B Q R N) as [[[A0 G0] H0]|] eqn:Ei; [|discriminate].
  intros Hl.
  assert (H0it : ricc_iter 0 ns (A0, G0, H0) = Some (A0, G0, H0)) by reflexivity.
  destruct (ricc_loop_is_iterate _ _ _ _ _ (A0, G0, H0) _ _ _ _ _ _ _ _ _ H0it eq_refl Hl)
    as [_ [Hk [Ak [Gk [Hk' [E1 E2]]]]]].
  split; [exact Hk|]. exists (A0, G0, H0), Ak, Gk, Hk'. auto.
Qed.
End Loop.

(* ------------------------------------------------------------------ *)
(* exact theorems over Q *)
Local Open Scope Q_scope.

(* F_j = (A^j B) (A^j)' *)
Definition lyap_term (n : nat) (A B : Qmat) (l : nat) : Qmat :=
  mmul n n n (mmul n n n (mpow n A l) B) (mtr n n (mpow n A l)).

Lemma lyap_term_shift n A B p l :
  meq n n (lyap_term n A B (p + l))
          (mmul n n n (mmul n n n (mpow n A p) (lyap_term n A B l)) (mtr n n (mpow n A p))).
Proof.
  unfold lyap_term.
  rewrite (mpow_add n A p l).
  rewrite (mtr_mmul n n n (mpow n A p) (mpow n A l)).
  rewrite !mmul_assoc. reflexivity.
Qed.

Lemma pow2_S k : (2 ^ S k = 2 ^ k + 2 ^ k)%nat.
Proof. simpl. lia. Qed.

Theorem lyap_doubling_closed_form n (A B : Qmat) k :
  meq n n (fst (lyap_iter k n A B)) (mpow n A (2 ^ k)) /\
  meq n n (snd (lyap_iter k n A B)) (msum n n (2 ^ k) (lyap_term n A B)).
Proof.
  induction k.
  - simpl. split.
    + symmetry. apply mmul_id_r.
    + unfold lyap_term. simpl mpow.
      rewrite madd_zero_l. rewrite mmul_id_l. rewrite mtr_mid. rewrite mmul_id_r. reflexivity.
  - rewrite lyap_iter_S. destruct (lyap_iter k n A B) as [al ga].
    simpl fst in *; simpl snd in *. destruct IHk as [Ha Hg].
    unfold lyap_step. simpl fst; simpl snd. rewrite pow2_S. split.
    + rewrite Ha. symmetry. apply mpow_add.
    + rewrite Ha, Hg.
      rewrite (msum_split n n (2 ^ k) (2 ^ k) (lyap_term n A B)).
      apply madd_proper; [reflexivity|].
      rewrite mmul_msum_distr_l. rewrite mmul_msum_distr_r.
      apply msum_ext. intros l Hl. symmetry. apply lyap_term_shift.
Qed.

Lemma sumQ_shift p f : sumQ p (fun l => f (S l)) + f 0%nat == sumQ p f + f p.
Proof. induction p; simpl; [ring|]. lra. Qed.

Lemma lyap_term_succ n A B l :
  meq n n (mmul n n n (mmul n n n A (lyap_term n A B l)) (mtr n n A)) (lyap_term n A B (S l)).
Proof.
  unfold lyap_term. simpl mpow.
  rewrite (mtr_mmul n n n A (mpow n A l)).
  rewrite !mmul_assoc. reflexivity.
Qed.

Lemma lyap_term_0 n A B : meq n n (lyap_term n A B 0) B.
Proof.
  unfold lyap_term. simpl mpow. rewrite mmul_id_l, mtr_mid, mmul_id_r. reflexivity.
Qed.

(* A gamma_k A' - gamma_k + B = alpha_k B alpha_k' *)
Theorem lyap_residual n (A B : Qmat) k :
  meq n n (lyap_residual_mat n A B (snd (lyap_iter k n A B)))
          (mmul n n n (mmul n n n (fst (lyap_iter k n A B)) B) (mtr n n (fst (lyap_iter k n A B)))).
Proof.
  destruct (lyap_doubling_closed_form n A B k) as [Ha Hg].
  unfold lyap_residual_mat. rewrite Ha, Hg.
  set (p := (2 ^ k)%nat).
  rewrite mmul_msum_distr_l, mmul_msum_distr_r.
  rewrite (msum_ext n n p _ (fun l => lyap_term n A B (S l))) by (intros; apply lyap_term_succ).
  change (mmul n n n (mmul n n n (mpow n A p) B) (mtr n n (mpow n A p))) with (lyap_term n A B p).
  intros i j Hi Hj.
  rewrite get_madd, get_msub, !get_msum by assumption.
  pose proof (sumQ_shift p (fun l => get (lyap_term n A B l) i j)) as Sh. cbv beta in Sh.
  rewrite (lyap_term_0 n A B i j Hi Hj) in Sh. lra.
Qed.

(* what the stopping test measures: gamma_{k+1} - gamma_k = alpha_k gamma_k alpha_k' *)
Theorem lyap_step_is_tail n (A B : Qmat) k :
  meq n n (msub n n (snd (lyap_iter (S k) n A B)) (snd (lyap_iter k n A B)))
          (mmul n n n (mmul n n n (fst (lyap_iter k n A B)) (snd (lyap_iter k n A B)))
                (mtr n n (fst (lyap_iter k n A B)))).
Proof.
  rewrite lyap_iter_S. destruct (lyap_iter k n A B) as [al ga]. simpl. mlin.
Qed.

(* the solver's answer: X = sum_{j < 2^k} A^j B A'^j for the k >= 1 it stopped at, and its residual *)
Theorem lyap_solver_spec tol max_it n (A B : Qmat) k X :
  solve_discrete_lyapunov tol max_it n A B = Some (k, X) ->
  (1 <= k)%nat /\ (Z.of_nat k + 1 <= max_it)%Z /\
  meq n n X (msum n n (2 ^ k) (lyap_term n A B)) /\
  meq n n (lyap_residual_mat n A B X)
          (mmul n n n (mmul n n n (mpow n A (2 ^ k)) B) (mtr n n (mpow n A (2 ^ k)))).
Proof.
  intros Hs. destruct (solve_discrete_lyapunov_iterate _ _ _ _ _ _ _ Hs) as [Hk [HX [_ Hc]]].
  subst X. repeat split; try assumption.
  - apply lyap_doubling_closed_form.
  - rewrite lyap_residual. destruct (lyap_doubling_closed_form n A B k) as [Ha _].
    rewrite Ha. reflexivity.
Qed.

(* ------------------------------------------------------------------ *)
(* scalar Riccati: the model at ns = nc = 1 *)
Lemma solve_1x1 (Am Bm : Qmat) :
  solve 1 1 Am Bm = if Qeq_bool (get Am 0 0) 0 then None else Some [[Qdivr (get Bm 0 0) (get Am 0 0)]].
Proof.
  unfold solve, gj_loop, gj_step, get. cbn -[Qeq_bool Qdivr Qsubr Qmulr Qaddr].
  destruct (Qeq_bool _ 0); reflexivity.
Qed.

Ltac qnorm := unfold Qaddr, Qmulr, Qsubr, Qdivr; repeat rewrite Qred_correct.

(* y = a^2 y / (1 + g y) + h, cleared of its denominator *)
Definition sda_eq (a g h y : Q) : Prop := y * (1 + g * y) == a * a * y + h * (1 + g * y).
(* a^2 x - (n + b x a)^2 / (r + b^2 x) + q - x *)
Definition ricc_res_scalar (a b q r nn x : Q) : Q :=
  a * a * x - (nn + b * x * a) * (nn + b * x * a) / (r + b * b * x) + q - x.

Lemma ricc_init_scalar g a b q r nn A0 G0 H0 :
  ricc_init 1 1 g [[a]] [[b]] [[q]] [[r]] [[nn]] = Some (A0, G0, H0) ->
  let Rh := r + g * (b * b) in
  ~ Rh == 0 /\
  get G0 0 0 == b * (b / Rh) /\
  get A0 0 0 == (1 - g * (b * (b / Rh))) * a - b * (nn / Rh) /\
  get H0 0 0 == g * (a * ((1 - g * (b * (b / Rh))) * a - b * (nn / Rh)))
                - (- q + nn * ((nn + g * (b * a)) / Rh) + g).
Proof.
  unfold ricc_init. rewrite !solve_1x1.
  cbn -[Qeq_bool Qdivr Qsubr Qmulr Qaddr].
  destruct (Qeq_bool _ 0) eqn:E; [discriminate|].
  intros Heq. injection Heq as <- <- <-.
  assert (Hnz : ~ r + g * (b * b) == 0).
  { intro Hz. apply Qeq_bool_neq in E. apply E. qnorm.
    setoid_replace (r + g * (0 + b * b)) with (r + g * (b * b)) by ring. exact Hz. }
  cbn -[Qdivr Qsubr Qmulr Qaddr]. split; [exact Hnz|].
  repeat split; qnorm; field; exact Hnz.
Qed.

Lemma ricc_step_scalar A0 G0 H0 A1 G1 H1 :
  ricc_step 1 A0 G0 H0 = Some (A1, G1, H1) ->
  let a0 := get A0 0 0 in let g0 := get G0 0 0 in let h0 := get H0 0 0 in
  ~ 1 + g0 * h0 == 0 /\
  get A1 0 0 == a0 * a0 / (1 + g0 * h0) /\
  get G1 0 0 == g0 + a0 * g0 * a0 / (1 + g0 * h0) /\
  get H1 0 0 == h0 + a0 * h0 * a0 / (1 + g0 * h0).
Proof.
  unfold ricc_step. rewrite !solve_1x1.
  set (a0 := get A0 0 0). set (g0 := get G0 0 0). set (h0 := get H0 0 0).
  assert (E1 : get (madd 1 1 (mid 1) (mmul 1 1 1 G0 H0)) 0 0 == 1 + g0 * h0).
  { rewrite get_madd, get_mid, get_mmul by lia. simpl. unfold g0, h0. ring. }
  assert (E2 : get (madd 1 1 (mid 1) (mmul 1 1 1 H0 G0)) 0 0 == 1 + g0 * h0).
  { rewrite get_madd, get_mid, get_mmul by lia. simpl. unfold g0, h0. ring. }
  destruct (Qeq_bool (get (madd 1 1 (mid 1) (mmul 1 1 1 G0 H0)) 0 0) 0) eqn:B1; [discriminate|].
  destruct (Qeq_bool (get (madd 1 1 (mid 1) (mmul 1 1 1 H0 G0)) 0 0) 0) eqn:B2; [discriminate|].
  intros Heq. injection Heq as <- <- <-.
  apply Qeq_bool_neq in B1. rewrite E1 in B1.
  split; [exact B1|].
  repeat split.
  - rewrite get_mmul by lia. simpl. change (get [[?x]] 0 0) with x.
    rewrite E1. qnorm. fold a0. field. exact B1.
  - rewrite get_madd, get_mmul by lia. simpl. change (get [[?x]] 0 0) with x.
    rewrite get_mmul, get_mtr by lia. simpl. rewrite E2. qnorm. fold a0 g0. field. exact B1.
  - rewrite get_madd, get_mmul by lia. simpl. change (get [[?x]] 0 0) with x.
    rewrite get_mmul, get_mtr by lia. simpl. rewrite E2. qnorm. fold a0 g0 h0. field. exact B1.
Qed.

#[global] Instance sda_eq_proper : Proper (Qeq ==> Qeq ==> Qeq ==> Qeq ==> iff) sda_eq.
Proof. intros a a' Ea g g' Eg h h' Eh y y' Ey. unfold sda_eq. now rewrite Ea, Eg, Eh, Ey. Qed.

(* the (A0,G0,H0) built from (a,b,q,r,n,gamma): the shifted unknown y = x - gamma satisfies the doubling
   equation exactly when x satisfies the Riccati equation *)
Lemma ricc_init_scalar_transfer g a b q r nn x A0 G0 H0 :
  ricc_init 1 1 g [[a]] [[b]] [[q]] [[r]] [[nn]] = Some (A0, G0, H0) ->
  ~ r + b * b * x == 0 ->
  ricc_res_scalar a b q r nn x == 0 ->
  sda_eq (get A0 0 0) (get G0 0 0) (get H0 0 0) (x - g).
Proof.
  intros Hi Hd Hres. destruct (ricc_init_scalar _ _ _ _ _ _ _ _ _ Hi) as [Hnz [Eg [Ea Eh]]].
  rewrite Ea, Eg, Eh. unfold sda_eq.
  set (Rh := r + g * (b * b)) in *.
  assert (Key : (x - g) * (1 + b * (b / Rh) * (x - g))
                - (((1 - g * (b * (b / Rh))) * a - b * (nn / Rh)) * ((1 - g * (b * (b / Rh))) * a - b * (nn / Rh)) * (x - g)
                   + (g * (a * ((1 - g * (b * (b / Rh))) * a - b * (nn / Rh))) - (- q + nn * ((nn + g * (b * a)) / Rh) + g))
                     * (1 + b * (b / Rh) * (x - g)))
                == - ricc_res_scalar a b q r nn x * ((r + b * b * x) / Rh)).
  { unfold ricc_res_scalar, Rh. field. split; [exact Hnz|exact Hd]. }
  rewrite Hres in Key. lra.
Qed.

Lemma ricc_step_scalar_transfer A0 G0 H0 A1 G1 H1 y :
  ricc_step 1 A0 G0 H0 = Some (A1, G1, H1) ->
  sda_eq (get A0 0 0) (get G0 0 0) (get H0 0 0) y ->
  sda_eq (get A1 0 0) (get G1 0 0) (get H1 0 0) y.
Proof.
  intros Hs He. destruct (ricc_step_scalar _ _ _ _ _ _ Hs) as [Hnz [Ea [Eg Eh]]].
  unfold sda_eq in *.
  apply (Poly.sda_step_poly (get A0 0 0) (get G0 0 0) (get H0 0 0) y (/ (1 + get G0 0 0 * get H0 0 0))).
  - field. exact Hnz.
  - rewrite Ea. field. exact Hnz.
  - rewrite Eg. field. exact Hnz.
  - rewrite Eh. field. exact Hnz.
  - exact He.
Qed.

Theorem riccati_scalar_fixed_point_transfer g a b q r nn x k AGH0 Ak Gk Hk :
  ricc_init 1 1 g [[a]] [[b]] [[q]] [[r]] [[nn]] = Some AGH0 ->
  ricc_iter k 1 AGH0 = Some (Ak, Gk, Hk) ->
  ~ r + b * b * x == 0 ->
  ricc_res_scalar a b q r nn x == 0 ->
  sda_eq (get Ak 0 0) (get Gk 0 0) (get Hk 0 0) (x - g).
Proof.
  intros Hi Hit Hd Hres. revert Ak Gk Hk Hit. induction k; intros Ak Gk Hk Hit.
  - simpl in Hit. injection Hit as ->. eapply ricc_init_scalar_transfer; eauto.
  - rewrite ricc_iter_S in Hit.
    destruct (ricc_iter k 1 AGH0) as [[[A' G'] H']|]; [|discriminate].
    eapply ricc_step_scalar_transfer; [exact Hit|]. now apply IHk.
Qed.

(* if the doubled A_k vanishes, H_k + gamma is THE solution: every solution x of the Riccati equation
   whose denominators do not vanish equals it *)
Theorem riccati_scalar_limit_solves g a b q r nn x k AGH0 Ak Gk Hk :
  ricc_init 1 1 g [[a]] [[b]] [[q]] [[r]] [[nn]] = Some AGH0 ->
  ricc_iter k 1 AGH0 = Some (Ak, Gk, Hk) ->
  ~ r + b * b * x == 0 ->
  ricc_res_scalar a b q r nn x == 0 ->
  get Ak 0 0 == 0 -> ~ 1 + get Gk 0 0 * (x - g) == 0 ->
  x == get (madd 1 1 Hk (mscale 1 1 g (mid 1))) 0 0.
Proof.
  intros Hi Hit Hd Hres Ha Hden.
  pose proof (riccati_scalar_fixed_point_transfer _ _ _ _ _ _ _ _ _ _ _ _ Hi Hit Hd Hres) as E.
  unfold sda_eq in E. rewrite Ha in E.
  rewrite get_madd, get_mscale, get_mid by lia. simpl.
  assert (E' : (x - g - get Hk 0 0) * (1 + get Gk 0 0 * (x - g)) == 0) by lra.
  apply Qmult_integral in E'. destruct E' as [E'|E']; [lra|contradiction].
Qed.

(* the residual function of the model at ns = nc = 1 is the scalar residual *)
Lemma ricc_residual_mat_scalar a b q r nn x M :
  ricc_residual_mat 1 1 [[a]] [[b]] [[q]] [[r]] [[nn]] [[x]] = Some M ->
  ~ r + b * b * x == 0 /\ get M 0 0 == ricc_res_scalar a b q r nn x.
Proof.
  unfold ricc_residual_mat. rewrite solve_1x1.
  cbn -[Qeq_bool Qdivr Qsubr Qmulr Qaddr].
  destruct (Qeq_bool _ 0) eqn:E; [discriminate|].
  intros Heq. injection Heq as <-.
  assert (Hnz : ~ r + b * b * x == 0).
  { intro Hz. apply Qeq_bool_neq in E. apply E. qnorm. transitivity (r + b * b * x); [ring|exact Hz]. }
  split; [exact Hnz|].
  cbn -[Qdivr Qsubr Qmulr Qaddr]. qnorm. unfold ricc_res_scalar. field. exact Hnz.
Qed.

(* C02 proofs, part 1: finite sums over Q, entry formula of the elimination step,
   no-subtraction invariant (non-negativity) and normalisation of gth over Q. *)
From Coq Require Import ZArith QArith List Bool Arith Lia Lqa.
From QE Require Import Base.Num C03.Model C03.Proofs1 C02.Model.
Import ListNotations.
Open Scope Q_scope.

(* ------------------------------------------------------------- sums over index ranges *)
Fixpoint sumr (a len : nat) (f : nat -> Q) : Q :=
  match len with
  | O => 0
  | S l => f a + sumr (S a) l f
  end.

Lemma sumr_ext a len f g : (forall i, (a <= i < a + len)%nat -> f i == g i) -> sumr a len f == sumr a len g.
Proof.
  revert a; induction len as [|l IH]; intros a H; simpl; [reflexivity|].
  rewrite (H a) by lia. rewrite (IH (S a)) by (intros i Hi; apply H; lia). reflexivity.
Qed.

Lemma sumr_add a len f g : sumr a len (fun i => f i + g i) == sumr a len f + sumr a len g.
Proof. revert a; induction len as [|l IH]; intros a; simpl; [ring|]. rewrite IH. ring. Qed.

Lemma sumr_scale a len c f : sumr a len (fun i => c * f i) == c * sumr a len f.
Proof. revert a; induction len as [|l IH]; intros a; simpl; [ring|]. rewrite IH. ring. Qed.

Lemma sumr_zero a len f : (forall i, (a <= i < a + len)%nat -> f i == 0) -> sumr a len f == 0.
Proof.
  revert a; induction len as [|l IH]; intros a H; simpl; [reflexivity|].
  rewrite (H a) by lia. rewrite IH by (intros i Hi; apply H; lia). ring.
Qed.

Lemma sumr_nonneg a len f : (forall i, (a <= i < a + len)%nat -> 0 <= f i) -> 0 <= sumr a len f.
Proof.
  revert a; induction len as [|l IH]; intros a H; simpl; [lra|].
  pose proof (H a ltac:(lia)). pose proof (IH (S a) ltac:(intros i Hi; apply H; lia)). lra.
Qed.

Lemma sumr_ge_term a len f j : (forall i, (a <= i < a + len)%nat -> 0 <= f i) -> (a <= j < a + len)%nat ->
  f j <= sumr a len f.
Proof.
  revert a; induction len as [|l IH]; intros a H Hj; [lia|]. simpl.
  pose proof (sumr_nonneg (S a) l f ltac:(intros i Hi; apply H; lia)).
  destruct (Nat.eq_dec j a) as [-> | Hne]; [lra|].
  pose proof (IH (S a) ltac:(intros i Hi; apply H; lia) ltac:(lia)). pose proof (H a ltac:(lia)). lra.
Qed.

(* split the term j out of the sum *)
Lemma sumr_split a len f j : (a <= j < a + len)%nat ->
  sumr a len f == f j + sumr a len (fun i => if (i =? j)%nat then 0 else f i).
Proof.
  revert a; induction len as [|l IH]; intros a Hj; [lia|]. simpl.
  destruct (Nat.eq_dec j a) as [-> | Hne].
  - rewrite Nat.eqb_refl.
    rewrite (sumr_ext (S a) l (fun i => if (i =? a)%nat then 0 else f i) f).
    + ring.
    + intros i Hi. assert ((i =? a)%nat = false) as -> by (apply Nat.eqb_neq; lia). reflexivity.
  - assert ((a =? j)%nat = false) as -> by (apply Nat.eqb_neq; lia).
    rewrite (IH (S a)) by lia. ring.
Qed.

Lemma sumr_app a l1 l2 f : sumr a (l1 + l2) f == sumr a l1 f + sumr (a + l1) l2 f.
Proof.
  revert a; induction l1 as [|l IH]; intros a; simpl.
  - rewrite Nat.add_0_r. ring.
  - rewrite IH. replace (S a + l)%nat with (a + S l)%nat by lia. ring.
Qed.

(* ------------------------------------------------------------- nsum and folds over Q *)
Lemma fold_addr_sumr g len : forall a acc,
  fold_left Qaddr (map g (seq a len)) acc == acc + sumr a len g.
Proof.
  induction len as [|l IH]; intros a acc; simpl; [ring|].
  rewrite IH. rewrite Qaddr_eq. ring.
Qed.

Lemma nsum_seq g a len : @nsum Q NumQ (map g (seq a len)) == sumr a len g.
Proof. unfold nsum. simpl. rewrite fold_addr_sumr. ring. Qed.

Definition qsum (l : list Q) : Q := fold_right Qplus 0 l.

Lemma fold_addr_qsum l : forall acc, fold_left Qaddr l acc == acc + qsum l.
Proof.
  induction l as [|x l IH]; intros acc; simpl; [ring|]. rewrite IH, Qaddr_eq. ring.
Qed.

Lemma nsum_qsum l : @nsum Q NumQ l == qsum l.
Proof. unfold nsum. simpl. rewrite fold_addr_qsum. ring. Qed.

Lemma qsum_app l1 l2 : qsum (l1 ++ l2) == qsum l1 + qsum l2.
Proof. induction l1 as [|x l IH]; simpl; [ring|]. rewrite IH. ring. Qed.

Lemma qsum_repeat0 k : qsum (repeat 0 k) == 0.
Proof. induction k as [|k IH]; simpl; [reflexivity|]. rewrite IH. ring. Qed.

Lemma qsum_map_div l c : qsum (map (fun x => Qdivr x c) l) == qsum l / c.
Proof.
  induction l as [|x l IH]; simpl.
  - unfold Qdiv. ring.
  - rewrite IH, Qdivr_eq. unfold Qdiv. ring.
Qed.

Lemma qsum_nth_shift l : forall a, qsum l == sumr a (length l) (fun i => nth (i - a) l 0).
Proof.
  induction l as [|x l IH]; intros a; simpl; [reflexivity|].
  replace (a - a)%nat with 0%nat by lia. apply Qplus_comp; [reflexivity|].
  rewrite (IH (S a)). apply sumr_ext. intros i Hi.
  replace (i - a)%nat with (S (i - S a)) by lia. reflexivity.
Qed.

Lemma qsum_nth l : qsum l == sumr 0 (length l) (fun i => nth i l 0).
Proof.
  rewrite (qsum_nth_shift l 0). apply sumr_ext. intros i _. rewrite Nat.sub_0_r. reflexivity.
Qed.

(* ------------------------------------------------------------- matrices over Q *)
Notation qmat := (list (list Q)).
Definition qget (A : qmat) (i j : nat) : Q := @mget Q NumQ A i j.

Lemma qget_elim n k s A i j : (i < n)%nat -> (j < n)%nat ->
  qget (@elim_step Q NumQ n k s A) i j =
  if (k <? i)%nat then
    if (j =? k)%nat then Qdivr (qget A i k) s
    else if (k <? j)%nat then Qaddr (qget A i j) (Qmulr (Qdivr (qget A i k) s) (qget A k j))
    else qget A i j
  else qget A i j.
Proof.
  intros Hi Hj. unfold qget, mget, elim_step.
  rewrite (nth_map_seq _ n i [] Hi). destruct (k <? i)%nat.
  - cbv zeta. rewrite (nth_map_seq _ n j _ Hj). reflexivity.
  - rewrite (nth_map_seq _ n j _ Hj). reflexivity.
Qed.

(* off-diagonal entries are non-negative *)
Definition offnn (n : nat) (A : qmat) : Prop :=
  forall i j, (i < n)%nat -> (j < n)%nat -> i <> j -> 0 <= qget A i j.

Lemma row_scale_sumr n A k : @row_scale Q NumQ n A k == sumr (S k) (n - S k) (fun j => qget A k j).
Proof. unfold row_scale. apply nsum_seq. Qed.

Lemma row_scale_nonneg n A k : offnn n A -> (k < n)%nat -> 0 <= @row_scale Q NumQ n A k.
Proof.
  intros H Hk. rewrite row_scale_sumr. apply sumr_nonneg. intros j Hj. apply H; lia.
Qed.

Lemma nleb_false_pos (s : Q) : @nleb Q NumQ s 0 = false -> 0 < s.
Proof.
  simpl. intros H. apply Qnot_le_lt. intros Hle. apply Qle_bool_iff in Hle. congruence.
Qed.

Lemma nleb_true_le (s : Q) : @nleb Q NumQ s 0 = true -> s <= 0.
Proof. simpl. apply Qle_bool_iff. Qed.

Lemma Qdiv_nonneg a b : 0 <= a -> 0 < b -> 0 <= a / b.
Proof.
  intros Ha Hb. unfold Qdiv. apply Qmult_le_0_compat; [exact Ha|].
  apply Qlt_le_weak. apply Qinv_lt_0_compat. exact Hb.
Qed.

Lemma elim_offnn n k s A : offnn n A -> (k < n)%nat -> 0 < s -> offnn n (@elim_step Q NumQ n k s A).
Proof.
  intros H Hk Hs i j Hi Hj Hne. rewrite qget_elim by assumption.
  destruct (k <? i)%nat eqn:Eki; [|apply H; assumption]. apply Nat.ltb_lt in Eki.
  destruct (j =? k)%nat eqn:Ejk.
  - rewrite Qdivr_eq. apply Qdiv_nonneg; [apply H; lia | exact Hs].
  - apply Nat.eqb_neq in Ejk. destruct (k <? j)%nat eqn:Ekj; [|apply H; assumption]. apply Nat.ltb_lt in Ekj.
    rewrite Qaddr_eq, Qmulr_eq, Qdivr_eq.
    pose proof (H i j Hi Hj Hne). pose proof (Qdiv_nonneg (qget A i k) s (H i k Hi Hk ltac:(lia)) Hs).
    pose proof (H k j Hk Hj ltac:(lia)).
    pose proof (Qmult_le_0_compat _ _ H1 H2). lra.
Qed.

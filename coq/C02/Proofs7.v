(* C02 proofs, part 7: support of gth for ANY input (reducible included): the
   result is positive exactly on one recurrent class of the positive-entry
   graph - the communication class of the exit state - and zero elsewhere. *)
From Coq Require Import ZArith QArith List Bool Arith Lia Lqa Relations.
From QE Require Import Base.Num C03.Model C03.Proofs1 C02.Model C02.Proofs1 C02.Proofs2 C02.Proofs3 C02.Proofs4 C02.Proofs5 C02.Proofs6.
Import ListNotations.
Open Scope Q_scope.

Lemma sumr_pos_exists a len f : (forall i, (a <= i < a + len)%nat -> 0 <= f i) -> 0 < sumr a len f ->
  exists i, (a <= i < a + len)%nat /\ 0 < f i.
Proof.
  revert a; induction len as [|l IH]; intros a Hnn Hpos; simpl in Hpos; [exfalso; apply (Qlt_irrefl 0 Hpos)|].
  destruct (Qlt_le_dec 0 (f a)) as [Hfa | Hfa].
  - exists a. split; [lia | exact Hfa].
  - destruct (IH (S a)) as [i [Hi Hfi]].
    + intros i Hi. apply Hnn. lia.
    + pose proof (Hnn a ltac:(lia)). lra.
    + exists i. split; [lia | exact Hfi].
Qed.

Lemma pathK_le (e : nat -> nat -> bool) K K' i j : (K <= K')%nat -> pathK e K i j -> pathK e K' i j.
Proof. induction 1 as [|K' _ IH]; intros H; [exact H | apply pathK_mono, IH, H]. Qed.

Section Support.
Variable n : nat.
Variable A : qmat.
Hypothesis Hn : (1 <= n)%nat.
Hypothesis Hnn : offnn n A.

Notation M := (Mseq n A).
Notation sc := (scale n A).

(* positive off-diagonal entries of A *)
Definition eoff (a b : nat) : bool := negb (a =? b)%nat && Qltb 0 (qget A a b).

Lemma eoff_spec a b : eoff a b = true <-> a <> b /\ 0 < qget A a b.
Proof.
  unfold eoff. rewrite andb_true_iff, negb_true_iff, Nat.eqb_neq, Qltb_lt. reflexivity.
Qed.

Variable ex : nat.
Hypothesis Hex : (ex <= n - 1)%nat.
Hypothesis Hpos : forall k, (k < ex)%nat -> @nleb Q NumQ (sc k) 0 = false.
Hypothesis Hexit : (ex < n - 1)%nat -> @nleb Q NumQ (sc ex) 0 = true.

(* a positive entry of the censored matrix is a path through eliminated states *)
Lemma censor_edge_path k : (k <= ex)%nat -> forall i j, (k <= i < n)%nat -> (k <= j < n)%nat -> i <> j ->
  0 < qget (M k) i j -> pathK eoff k i j.
Proof.
  induction k as [|k IH]; intros Hk i j Hi Hj Hne Hp.
  - apply pk_edge. apply eoff_spec. split; [exact Hne | exact Hp].
  - pose proof (scale_pos n A ex Hpos k ltac:(lia)) as Hs.
    pose proof (Mseq_offnn n A Hnn ex Hpos k ltac:(lia) ltac:(lia)) as Hoff.
    rewrite (Mseq_S_entry n A k i j) in Hp by lia.
    pose proof (Hoff i j ltac:(lia) ltac:(lia) Hne) as H1.
    pose proof (Hoff i k ltac:(lia) ltac:(lia) ltac:(lia)) as H2.
    pose proof (Hoff k j ltac:(lia) ltac:(lia) ltac:(lia)) as H3.
    destruct (Qlt_le_dec 0 (qget (M k) i j)) as [Ha | Ha].
    + apply pathK_mono. apply IH; try lia; assumption.
    + assert (Hprod : 0 < (qget (M k) i k / sc k) * qget (M k) k j) by lra.
      assert (Hb : 0 < qget (M k) i k).
      { destruct (Qlt_le_dec 0 (qget (M k) i k)) as [H | H]; [exact H|]. exfalso.
        assert (qget (M k) i k == 0) as E0 by lra. rewrite E0 in Hprod. unfold Qdiv in Hprod.
        rewrite !Qmult_0_l in Hprod. apply (Qlt_irrefl 0 Hprod). }
      assert (Hc : 0 < qget (M k) k j).
      { destruct (Qlt_le_dec 0 (qget (M k) k j)) as [H | H]; [exact H|]. exfalso.
        assert (qget (M k) k j == 0) as E0 by lra. rewrite E0, Qmult_0_r in Hprod. apply (Qlt_irrefl 0 Hprod). }
      apply pk_trans with (k := k); [lia | apply pathK_mono, IH; try lia; assumption | apply pathK_mono, IH; try lia; assumption].
Qed.

Lemma censor_edge_reach k i j : (k <= ex)%nat -> (k <= i < n)%nat -> (k <= j < n)%nat -> i <> j ->
  0 < qget (M k) i j -> reach n eoff i j.
Proof.
  intros Hk Hi Hj Hne Hp. apply pathK_reach; [|lia|lia].
  apply (pathK_le eoff k n); [lia|]. apply censor_edge_path; assumption.
Qed.

Variable x : nat -> Q.
Hypothesis Hx_ex : 0 < x ex.
Hypothesis Hx_hi : forall i, (ex < i)%nat -> x i == 0.
Hypothesis Hx_nn : forall i, 0 <= x i.
Hypothesis Hx_rec : forall j, (j < ex)%nat ->
  x j == sumr (S j) (S ex - S j) (fun i => x i * qget (M ex) i j).

(* positive components are reachable from the exit state *)
Lemma pos_reachable : forall d j, (j + d = ex)%nat -> 0 < x j -> reach n eoff ex j.
Proof.
  induction d as [d IH] using lt_wf_ind. intros j Hj Hxj.
  destruct (Nat.eq_dec j ex) as [-> | Hne]; [apply rt_refl|].
  assert (Hjlt : (j < ex)%nat) by lia.
  rewrite (Hx_rec j Hjlt) in Hxj.
  pose proof (Mseq_offnn n A Hnn ex Hpos ex ltac:(lia) (le_n ex)) as Hoffex.
  destruct (sumr_pos_exists (S j) (S ex - S j) (fun i => x i * qget (M ex) i j)
              ltac:(intros i Hi; apply Qmult_le_0_compat; [apply Hx_nn | apply Hoffex; lia]) Hxj)
    as [i [Hi Hterm]].
  pose proof (scale_pos n A ex Hpos j Hjlt) as Hs.
  assert (Hxi : 0 < x i).
  { destruct (Qlt_le_dec 0 (x i)) as [H | H]; [exact H|]. exfalso. pose proof (Hx_nn i).
    assert (x i == 0) as E0 by lra. rewrite E0, Qmult_0_l in Hterm. apply (Qlt_irrefl 0 Hterm). }
  assert (Hm : 0 < qget (M j) i j).
  { rewrite (Mseq_frozen n A j ex ltac:(lia) i ltac:(lia) ltac:(lia)) in Hterm.
    rewrite (Mseq_S_col n A j i ltac:(lia) ltac:(lia) ltac:(lia)) in Hterm.
    pose proof (Mseq_offnn n A Hnn ex Hpos j ltac:(lia) ltac:(lia) i j ltac:(lia) ltac:(lia) ltac:(lia)) as H0.
    destruct (Qlt_le_dec 0 (qget (M j) i j)) as [H | H]; [exact H|]. exfalso.
    assert (qget (M j) i j == 0) as E0 by lra. rewrite E0 in Hterm. unfold Qdiv in Hterm.
    rewrite Qmult_0_l, Qmult_0_r in Hterm. apply (Qlt_irrefl 0 Hterm). }
  apply rt_trans with (y := i); [apply (IH (ex - i)%nat); [lia | lia | exact Hxi]|].
  apply (censor_edge_reach j i j); try lia. exact Hm.
Qed.

(* the support is closed: from a positive component no edge leads to a zero component *)
Lemma support_closed i j : (i < n)%nat -> (j < n)%nat -> eoff i j = true -> 0 < x i -> 0 < x j.
Proof.
  intros Hi Hj He Hxi. apply eoff_spec in He. destruct He as [Hne Hp].
  destruct (Qlt_le_dec 0 (x j)) as [H | H]; [exact H|]. exfalso.
  assert (Hxj : x j == 0) by (pose proof (Hx_nn j); lra).
  pose proof (balance_A n A Hn Hnn ex Hex Hpos Hexit x Hx_hi Hx_rec j Hj) as Hbal.
  rewrite Hxj, Qmult_0_l in Hbal.
  assert (Hterms : forall i0, (0 <= i0 < 0 + n)%nat -> 0 <= (if (i0 =? j)%nat then 0 else x i0 * qget A i0 j)).
  { intros i0 Hi0. destruct (i0 =? j)%nat eqn:E; [lra|]. apply Nat.eqb_neq in E.
    apply Qmult_le_0_compat; [apply Hx_nn | apply Hnn; lia]. }
  pose proof (sumr_ge_term 0 n _ i Hterms ltac:(lia)) as Hge. cbv beta in Hge.
  assert ((i =? j)%nat = false) as Eij by (apply Nat.eqb_neq; exact Hne). rewrite Eij in Hge.
  pose proof (Qmult_lt_0_compat _ _ Hxi Hp). lra.
Qed.

Lemma reachable_pos j : reach n eoff ex j -> 0 < x j.
Proof.
  intros Hr. apply clos_rt_rtn1_iff in Hr. induction Hr as [| y z [Hy [Hz He]] _ IH]; [exact Hx_ex|].
  apply (support_closed y z Hy Hz He IH).
Qed.

(* every state reachable from the exit state leads back to it *)
Lemma reachable_back : forall d j, (j + d = ex)%nat -> reach n eoff ex j -> reach n eoff j ex.
Proof.
  induction d as [d IH] using lt_wf_ind. intros j Hj Hr.
  destruct (Nat.eq_dec j ex) as [-> | Hne]; [apply rt_refl|].
  assert (Hjlt : (j < ex)%nat) by lia.
  pose proof (scale_pos n A ex Hpos j Hjlt) as Hs. unfold scale in Hs. rewrite row_scale_sumr in Hs.
  pose proof (Mseq_offnn n A Hnn ex Hpos j ltac:(lia) ltac:(lia)) as Hoff.
  destruct (sumr_pos_exists (S j) (n - S j) (fun l => qget (M j) j l) ltac:(intros i Hi; apply Hoff; lia) Hs) as [l [Hl Hpl]].
  assert (Hjl : reach n eoff j l) by (apply (censor_edge_reach j j l); try lia; exact Hpl).
  assert (Hrl : reach n eoff ex l) by (eapply rt_trans; eassumption).
  (* l is reachable, hence positive, hence l <= ex *)
  assert (Hlex : (l <= ex)%nat).
  { destruct (le_lt_dec l ex) as [H | H]; [exact H|]. exfalso.
    pose proof (reachable_pos l Hrl) as Hxl. rewrite (Hx_hi l H) in Hxl. apply (Qlt_irrefl 0 Hxl). }
  apply rt_trans with (y := l); [exact Hjl|]. apply (IH (ex - l)%nat); [lia | lia | exact Hrl].
Qed.

Lemma pos_le_ex j : 0 < x j -> (j <= ex)%nat.
Proof.
  intros H. destruct (le_lt_dec j ex) as [Hle | Hgt]; [exact Hle|]. exfalso.
  rewrite (Hx_hi j Hgt) in H. apply (Qlt_irrefl 0 H).
Qed.

Theorem support_is_class j : (j < n)%nat -> (0 < x j <-> comm n eoff ex j).
Proof.
  intros Hj. split.
  - intros Hxj. pose proof (pos_le_ex j Hxj) as Hle.
    pose proof (pos_reachable (ex - j)%nat j ltac:(lia) Hxj) as Hr.
    split; [exact Hr | apply (reachable_back (ex - j)%nat j ltac:(lia) Hr)].
  - intros [Hr _]. apply reachable_pos; exact Hr.
Qed.

Theorem class_is_sink u v : comm n eoff ex u -> (v < n)%nat -> eoff u v = true -> comm n eoff ex v.
Proof.
  intros [Hr Hb] Hv He.
  assert (Hu : (u < n)%nat).
  { apply clos_rt_rtn1_iff in Hr. inversion Hr as [| y z [_ [Hz _]] _]; subst; [lia | exact Hz]. }
  assert (Hrv : reach n eoff ex v).
  { eapply rt_trans; [exact Hr | apply rt_step; repeat split; assumption]. }
  split; [exact Hrv|].
  pose proof (reachable_pos v Hrv) as Hxv. pose proof (pos_le_ex v Hxv).
  apply (reachable_back (ex - v)%nat v ltac:(lia) Hrv).
Qed.

End Support.

(* the graph used by the class model (pos_edge, self-loops included) has the same reachability *)
Lemma reach_eoff_pos n A u v : reach n (eoff A) u v <-> reach n (@pos_edge Q NumQ A) u v.
Proof.
  split.
  - apply clos_rt_mono. intros a b [Ha [Hb He]]. repeat split; try assumption.
    apply eoff_spec in He. destruct He as [_ Hp]. unfold pos_edge. simpl. apply Qltb_lt. exact Hp.
  - intros Hr. apply clos_rt_rt1n_iff in Hr. induction Hr as [u | u w v [Hu [Hw He]] _ IH]; [apply rt_refl|].
    destruct (Nat.eq_dec u w) as [-> | Hne]; [exact IH|].
    apply rt_trans with (y := w); [|exact IH]. apply rt_step. repeat split; try assumption.
    apply eoff_spec. split; [exact Hne|]. unfold pos_edge in He. simpl in He. apply Qltb_lt in He. exact He.
Qed.

Theorem gth_support n A : (1 <= n)%nat -> offnn n A ->
  exists c, In c (sink_spec n (@pos_edge Q NumQ A)) /\
    forall i, (i < n)%nat -> (0 < nth i (gthQ n A) 0 <-> In i c).
Proof.
  intros Hn Hnn.
  destruct (gth_unfold n A Hn Hnn) as [ex [X [Hex [Hpos [Hexit [HL [Hxe [Hrec [Hnnx HG]]]]]]]]].
  set (x := fun i => nth i X 0).
  assert (Hx_ex : 0 < x ex) by (unfold x; rewrite Hxe; lra).
  assert (Hx_hi : forall i, (ex < i)%nat -> x i == 0) by (intros i Hi; unfold x; rewrite nth_overflow by lia; reflexivity).
  assert (Hx_nn : forall i, 0 <= x i).
  { intros i. unfold x. rewrite Forall_forall in Hnnx. destruct (nth_in_or_default i X 0) as [Hin | ->]; [apply Hnnx; exact Hin | lra]. }
  pose proof (support_is_class n A Hn Hnn ex Hex Hpos Hexit x Hx_ex Hx_hi Hx_nn Hrec) as Hsupp.
  pose proof (class_is_sink n A Hn Hnn ex Hex Hpos Hexit x Hx_ex Hx_hi Hx_nn Hrec) as Hsink.
  set (e := @pos_edge Q NumQ A).
  assert (Hcomm : forall u v, comm n (eoff A) u v <-> comm n e u v).
  { intros u v. unfold comm. rewrite !reach_eoff_pos. reflexivity. }
  destruct (classes_cover n e ex ltac:(lia)) as [c [Hc Hexc]].
  exists c. split.
  - apply sink_spec_correct. split; [exact Hc|]. intros u v Hu Hv He.
    apply (classes_equiv n e c ex u Hc Hexc) in Hu. destruct Hu as [Hun Hcu].
    apply (classes_equiv n e c ex v Hc Hexc). split; [exact Hv|].
    destruct (Nat.eq_dec u v) as [<- | Hne]; [exact Hcu|].
    apply Hcomm. apply (Hsink u v); [apply Hcomm; exact Hcu | exact Hv|].
    apply eoff_spec. split; [exact Hne|]. unfold e, pos_edge in He. simpl in He. apply Qltb_lt in He. exact He.
  - intros i Hi.
    (* normalisation keeps the sign *)
    set (norm := @nsum Q NumQ (X ++ repeat 0 (n - S ex))) in HG.
    assert (Hnorm : norm == qsum X) by (unfold norm; rewrite nsum_qsum, qsum_app, qsum_repeat0; ring).
    assert (Hnorm1 : 1 <= norm).
    { rewrite Hnorm, qsum_nth, HL.
      pose proof (sumr_ge_term 0 (S ex) (fun i => nth i X 0) ex ltac:(intros; apply Hx_nn) ltac:(lia)) as Hge.
      cbv beta in Hge. rewrite Hxe in Hge. exact Hge. }
    assert (Hentry : nth i (gthQ n A) 0 == x i / norm).
    { rewrite HG. destruct (lt_dec i (S ex)) as [Hlt | Hge].
      - rewrite app_nth1 by (rewrite map_length; lia). rewrite nth_map_Q by lia. apply Qdivr_eq.
      - rewrite app_nth2 by (rewrite map_length; lia). rewrite nth_repeat0. unfold x.
        rewrite (nth_overflow X) by lia. unfold Qdiv. ring. }
    rewrite Hentry.
    assert (Hsign : 0 < x i / norm <-> 0 < x i).
    { split; intros H.
      - destruct (Qlt_le_dec 0 (x i)) as [H1 | H1]; [exact H1|]. exfalso.
        assert (x i == 0) as E0 by (pose proof (Hx_nn i); lra). rewrite E0 in H. unfold Qdiv in H.
        rewrite Qmult_0_l in H. apply (Qlt_irrefl 0 H).
      - apply Qlt_shift_div_l; lra. }
    rewrite Hsign, (Hsupp i Hi), Hcomm. rewrite (classes_equiv n e c ex i Hc Hexc). tauto.
Qed.

(* C02: tie lemma between _gth_solve_jit of quantecon/markov/gth_solve.py as REGENERATED from /repo's current source
   (Gen/Kernels3.v, bounds-checked translation) and the hand-written model C02/Model.v (gth), for every Num instance:
     gen_gth_solve_jit A (zeros n) = ((reduced matrix, gth n A), true)      for every square A with n >= 1 rows.
   Hence the exact theorems of C02/Props.v (Q instance) and the bit-exact float runs speak about the current text. *)
From Coq Require Import ZArith List Bool Arith Lia.
From QE Require Import Base.Num Base.Pivot Gen.Kernels Gen.Kernels2 Gen.Kernels3 Base.GenLemmas Base.RowOps C02.Model.
Import ListNotations.

Section Tie.
Context {T : Type} {NT : Num T}.
Notation mat := (list (list T)).

Lemma mget_get (A : mat) i j : mget A i j = get A i j. Proof. reflexivity. Qed.



Lemma map_nth_seq {B} (l : list B) d : forall len lo, (lo + len <= length l)%nat ->
  map (fun j => nth j l d) (seq lo len) = firstn len (skipn lo l).
Proof.
  induction len as [|len IH]; intros lo Hl; [reflexivity|]. cbn [seq map].
  rewrite IH by lia. clear IH. revert lo Hl. induction l as [|x l IHl]; intros lo Hl; [cbn in Hl; lia|].
  destruct lo as [|lo]; [reflexivity|]. cbn [nth skipn]. apply IHl. cbn in Hl. lia.
Qed.

(* ------------------------------------------------------------------ elimination step *)
Section Step.
Variables (n0 k : nat) (scale : T).
Hypothesis Hk : (k < n0)%nat.

(* new row i > k, given the (fixed) pivot row *)
Definition Gk (rowk : list T) (i : nat) (row : list T) : list T :=
  let mm := ndiv (nth k row nzero) scale in
  row_loop (fun j x => nadd x (nmul mm (nth j rowk nzero))) (n0 - S k) (S k) (upd_nth row k mm).

Lemma gth_loop2_tie i : i <> k -> (i < n0)%nat -> forall f j (A : mat) ok, rect n0 n0 A -> (k < j)%nat -> (j + f <= n0)%nat ->
  gen_gth_solve_jit_loop2 f (Z.of_nat j) A ok (Z.of_nat k) (Z.of_nat i) =
    (upd_nth A i (row_loop (fun j x => nadd x (nmul (nth k (nth i A []) nzero) (nth j (nth k A []) nzero))) f j (nth i A [])), ok).
Proof.
  intros Hik Hi. induction f as [|f IH]; intros j A ok HA Hkj Hj; cbn [gen_gth_solve_jit_loop2 row_loop].
  - rewrite upd_nth_same. reflexivity.
  - destruct HA as [Hl Hr]. rewrite !inb2_nat by (rewrite ?Hr; lia). rewrite !andb_true_r, set2_nat, !get2_nat.
    replace (Z.of_nat j + 1)%Z with (Z.of_nat (S j)) by lia.
    rewrite IH; [|apply rect_upd_row; [split; assumption|rewrite upd_nth_length; apply Hr; lia]|lia|lia].
    rewrite nth_upd_nth_eq by lia. rewrite (nth_upd_nth_neq [] A i k) by (intro E; apply Hik; symmetry; exact E).
    rewrite (nth_upd_nth_neq nzero (nth i A []) j k) by lia. rewrite upd_nth_twice. unfold get. reflexivity.
Qed.

Lemma gth_loop1_tie : forall f i0 (A : mat) ok, rect n0 n0 A -> (k < i0)%nat -> (i0 + f <= n0)%nat ->
  gen_gth_solve_jit_loop1 f (Z.of_nat i0) A ok (Z.of_nat n0) (Z.of_nat k) scale =
    (rows_upd 0 (Gk (nth k A [])) (seq i0 f) A, ok).
Proof.
  induction f as [|f IH]; intros i0 A ok HA Hki Hi; cbn [gen_gth_solve_jit_loop1 seq]; [reflexivity|].
  rewrite rows_upd_cons. cbn [Nat.add]. pose proof HA as [Hl Hr].
  rewrite !inb2_nat by (rewrite ?Hr; lia). rewrite !andb_true_r, set2_nat, get2_nat.
  replace (Z.of_nat k + 1)%Z with (Z.of_nat (S k)) by lia.
  replace (Z.to_nat (Z.of_nat n0 - Z.of_nat (S k))) with (n0 - S k)%nat by lia.
  set (mm := ndiv (get A i0 k) scale).
  assert (HA1 : rect n0 n0 (upd_nth A i0 (upd_nth (nth i0 A []) k mm))) by (apply rect_upd_row; [exact HA|rewrite upd_nth_length; apply Hr; lia]).
  rewrite (gth_loop2_tie i0 ltac:(lia) ltac:(lia) (n0 - S k) (S k) _ ok HA1 ltac:(lia) ltac:(lia)).
  rewrite nth_upd_nth_eq by lia. rewrite (nth_upd_nth_neq [] A i0 k) by lia. rewrite nth_upd_nth_eq by (rewrite Hr; lia).
  rewrite upd_nth_twice. replace (Z.of_nat i0 + 1)%Z with (Z.of_nat (S i0)) by lia.
  fold (Gk (nth k A []) i0 (nth i0 A [])).
  assert (HG : length (Gk (nth k A []) i0 (nth i0 A [])) = n0).
  { unfold Gk. cbv zeta. rewrite row_loop_length, upd_nth_length. apply Hr. lia. }
  rewrite IH; [|apply rect_upd_row; assumption|lia|lia].
  rewrite (nth_upd_nth_neq [] A i0 k) by lia. reflexivity.
Qed.

Lemma elim_step_tie (A : mat) : rect n0 n0 A ->
  rows_upd 0 (Gk (nth k A [])) (seq (S k) (n0 - S k)) A = elim_step n0 k scale A /\ rect n0 n0 (elim_step n0 k scale A).
Proof.
  intros HA. pose proof HA as [Hl Hr].
  assert (HR : rect n0 n0 (rows_upd 0 (Gk (nth k A [])) (seq (S k) (n0 - S k)) A)).
  { apply rows_upd_rect; [|exact HA]. intros i row Hrow. unfold Gk. cbv zeta. rewrite row_loop_length, upd_nth_length. exact Hrow. }
  assert (HE : rect n0 n0 (elim_step n0 k scale A)).
  { unfold elim_step. change (map ?f (seq 0 n0)) with (tabv n0 f). split; [apply tabv_length|].
    intros i Hi. rewrite nth_tabv_lt by exact Hi. destruct (Nat.ltb k i); cbv zeta;
      match goal with |- length (map ?g (seq 0 n0)) = _ => change (map g (seq 0 n0)) with (tabv n0 g) end; apply tabv_length. }
  split; [|exact HE]. destruct HR as [HRl HRr]. destruct HE as [HEl HEr].
  apply (nth_ext _ _ [] []); [lia|]. intros i Hi. rewrite HRl in Hi.
  apply (nth_ext _ _ nzero nzero); [rewrite HRr, HEr by exact Hi; reflexivity|]. intros j Hj. rewrite HRr in Hj by exact Hi.
  rewrite rows_upd_nth by lia. rewrite Nat.sub_0_r.
  unfold elim_step. change (map ?f (seq 0 n0)) with (tabv n0 f). rewrite nth_tabv_lt by exact Hi.
  assert (Eb : Nat.leb (0 + S k) i && Nat.ltb i (0 + S k + (n0 - S k)) = Nat.ltb k i).
  { destruct (Nat.ltb k i) eqn:E; [apply Nat.ltb_lt in E|apply Nat.ltb_ge in E].
    - apply andb_true_intro. split; [apply Nat.leb_le|apply Nat.ltb_lt]; lia.
    - apply andb_false_intro1. apply Nat.leb_gt. lia. }
  rewrite Eb. clear Eb.
  destruct (Nat.ltb k i) eqn:Eki; cbv zeta;
    match goal with |- _ = nth j (map ?g (seq 0 n0)) nzero => change (map g (seq 0 n0)) with (tabv n0 g) end;
    rewrite nth_tabv_lt by exact Hj; [|reflexivity].
  unfold Gk. cbv zeta. rewrite nth_row_loop by (rewrite upd_nth_length, Hr; lia).
  rewrite nth_upd_nth_if by (rewrite Hr; lia). unfold mget.
  destruct (Nat.eqb j k) eqn:Ejk.
  - apply Nat.eqb_eq in Ejk. subst j. replace (Nat.leb (S k) k) with false by (symmetry; apply Nat.leb_gt; lia). reflexivity.
  - apply Nat.eqb_neq in Ejk. destruct (Nat.ltb k j) eqn:Ekj; [apply Nat.ltb_lt in Ekj|apply Nat.ltb_ge in Ekj].
    + replace (Nat.leb (S k) j && Nat.ltb j (S k + (n0 - S k))) with true
        by (symmetry; apply andb_true_intro; split; [apply Nat.leb_le|apply Nat.ltb_lt]; lia). reflexivity.
    + replace (Nat.leb (S k) j) with false by (symmetry; apply Nat.leb_gt; lia). reflexivity.
Qed.
End Step.

(* ------------------------------------------------------------------ the reduction loop *)
Lemma scale_tie n0 (A : mat) k : rect n0 n0 A -> (k < n0)%nat ->
  nsum1 (slice1 (row2 A (Z.of_nat k)) (Sl (Bnd (Z.of_nat k + 1)) (Bnd (Z.of_nat n0)))) = row_scale n0 A k.
Proof.
  intros [Hl Hr] Hk. unfold nsum1, row_scale, nsum, slice1. rewrite row2_nat. cbn [sel_lo sel_hi].
  replace (Z.of_nat k + 1)%Z with (Z.of_nat (S k)) by lia. rewrite !bnd_val_nat by (rewrite Hr; lia).
  replace (Z.to_nat (Z.of_nat n0 - Z.of_nat (S k))) with (n0 - S k)%nat by lia. rewrite Nat2Z.id.
  unfold mget. rewrite (map_nth_seq (nth k A []) nzero) by (rewrite Hr; lia). reflexivity.
Qed.

Lemma gth_loop0_tie n0 : forall f k (A : mat) ok, rect n0 n0 A -> (k + f < n0)%nat \/ (f = 0)%nat ->
  gen_gth_solve_jit_loop0 f (Z.of_nat k) (Z.of_nat n0) A ok =
    (Z.of_nat (fst (reduce f n0 k A)), snd (reduce f n0 k A), ok).
Proof.
  induction f as [|f IH]; intros k A ok HA Hk; cbn [gen_gth_solve_jit_loop0 reduce]; [reflexivity|].
  destruct Hk as [Hk|Hk]; [|discriminate]. pose proof HA as [Hl Hr].
  rewrite Hl, widx_nat, inb_nat by lia. rewrite andb_true_r.
  rewrite (scale_tie n0 A k HA ltac:(lia)). cbv zeta.
  destruct (nleb (row_scale n0 A k) nzero).
  - cbn [fst snd]. f_equal. f_equal. lia.
  - replace (Z.of_nat k + 1)%Z with (Z.of_nat (S k)) by lia.
    replace (Z.to_nat (Z.of_nat n0 - Z.of_nat (S k))) with (n0 - S k)%nat by lia.
    rewrite (gth_loop1_tie n0 k (row_scale n0 A k) ltac:(lia) (n0 - S k) (S k) A ok HA ltac:(lia) ltac:(lia)).
    destruct (elim_step_tie n0 k (row_scale n0 A k) ltac:(lia) A HA) as [E HE]. rewrite E.
    apply IH; [exact HE|]. destruct f; [right; reflexivity|left; lia].
Qed.

Lemma reduce_spec n0 : forall f k (A : mat), rect n0 n0 A -> (k + f < n0)%nat \/ (f = 0 /\ k < n0)%nat ->
  (1 <= fst (reduce f n0 k A) <= n0)%nat /\ rect n0 n0 (snd (reduce f n0 k A)).
Proof.
  induction f as [|f IH]; intros k A HA Hk; cbn [reduce].
  - cbn [fst snd]. split; [lia|exact HA].
  - destruct Hk as [Hk|[Hk _]]; [|discriminate]. cbv zeta. destruct (nleb (row_scale n0 A k) nzero).
    + cbn [fst snd]. split; [lia|exact HA].
    + apply IH; [apply (elim_step_tie n0 k _ ltac:(lia) A HA)|]. destruct f; [right; split; [reflexivity|lia]|left; lia].
Qed.

(* ------------------------------------------------------------------ back substitution *)
Section Back.
Variables (n0 n : nat) (A : mat).
Hypothesis HA : rect n0 n0 A.
Hypothesis Hn : (1 <= n <= n0)%nat.

Lemma gth_loop4_tie k : forall f i (out : list T) ok, length out = n0 -> (k < i)%nat -> (i + f <= n0)%nat ->
  gen_gth_solve_jit_loop4 f (Z.of_nat i) out ok A (Z.of_nat k) =
    (upd_nth out k (fold_left (fun acc i' => nadd acc (nmul (nth i' out nzero) (get A i' k))) (seq i f) (nth k out nzero)), ok).
Proof.
  induction f as [|f IH]; intros i out ok Ho Hki Hi; cbn [gen_gth_solve_jit_loop4 seq fold_left].
  - rewrite upd_nth_self. reflexivity.
  - destruct HA as [Hl Hr]. rewrite !inb_nat, inb2_nat by (rewrite ?Hr; lia). rewrite !andb_true_r, !Nat2Z.id, get2_nat.
    replace (Z.of_nat i + 1)%Z with (Z.of_nat (S i)) by lia.
    rewrite IH by (rewrite ?upd_nth_length; lia). rewrite nth_upd_nth_eq by lia. rewrite upd_nth_twice. f_equal. f_equal.
    apply fold_left_ext_in. intros acc i' Hi'. apply in_seq in Hi'. rewrite nth_upd_nth_neq by lia. reflexivity.
Qed.

Lemma fold_combine kk (out : list T) : forall xs a acc, (forall t, (t < length xs)%nat -> nth (a + t) out nzero = nth t xs nzero) ->
  fold_left (fun acc i' => nadd acc (nmul (nth i' out nzero) (get A i' kk))) (seq a (length xs)) acc =
  fold_left (fun acc ix => nadd acc (nmul (snd ix) (mget A (fst ix) kk))) (combine (seq a (length xs)) xs) acc.
Proof.
  induction xs as [|x xs IH]; intros a acc Hx; [reflexivity|]. cbn [length seq combine fold_left fst snd].
  pose proof (Hx 0%nat ltac:(cbn; lia)) as H0. rewrite Nat.add_0_r in H0. rewrite H0. cbn [nth]. apply IH.
  intros t Ht. pose proof (Hx (S t) ltac:(cbn; lia)) as H1. cbn [nth] in H1. rewrite <- H1. f_equal. lia.
Qed.

Lemma gth_loop3_tie (zs : list T) : length zs = (n0 - n)%nat -> forall f xs ok, length xs = (n - f)%nat -> (f <= n)%nat ->
  gen_gth_solve_jit_loop3 f (Z.of_nat f - 1) (repeat nzero f ++ xs ++ zs) ok A (Z.of_nat n) = (backsub A n f xs ++ zs, ok).
Proof.
  intros Hzs. induction f as [|f IH]; intros xs ok Hxs Hf; cbn [gen_gth_solve_jit_loop3 backsub]; [reflexivity|].
  replace (Z.of_nat (S f) - 1)%Z with (Z.of_nat f) by lia.
  replace (Z.to_nat (Z.of_nat n - (Z.of_nat f + 1))) with (n - S f)%nat by lia.
  replace (Z.of_nat f + 1)%Z with (Z.of_nat (S f)) by lia.
  set (out := repeat nzero (S f) ++ xs ++ zs).
  assert (Hout : length out = n0) by (unfold out; rewrite !app_length, repeat_length; lia).
  rewrite (gth_loop4_tie f (n - S f) (S f) out ok Hout ltac:(lia) ltac:(lia)).
  assert (H0 : nth f out nzero = nzero).
  { unfold out. rewrite app_nth1 by (rewrite repeat_length; lia). apply nth_repeat_lt. lia. }
  rewrite H0. rewrite <- Hxs.
  rewrite (fold_combine f out xs (S f) nzero).
  2:{ intros t Ht. unfold out. rewrite app_nth2 by (rewrite repeat_length; lia). rewrite repeat_length.
      replace (S f + t - S f)%nat with t by lia. apply app_nth1, Ht. }
  rewrite Hxs. fold (back_entry A n f xs).
  assert (Eo : upd_nth out f (back_entry A n f xs) = repeat nzero f ++ (back_entry A n f xs :: xs) ++ zs).
  { unfold out. replace (repeat nzero (S f)) with (repeat nzero f ++ [nzero]) by (symmetry; apply repeat_cons).
    rewrite <- app_assoc. cbn [app]. pose proof (upd_nth_mid (repeat nzero f) nzero (back_entry A n f xs) (xs ++ zs)) as Hu.
    rewrite repeat_length in Hu. exact Hu. }
  rewrite Eo. apply IH; [cbn [length]; lia|lia].
Qed.
End Back.

(* ------------------------------------------------------------------ normalisation *)
Lemma gth_loop5_tie norm : forall f (pre rest : list T) ok, (f <= length rest)%nat ->
  gen_gth_solve_jit_loop5 f (Z.of_nat (length pre)) (map (fun x => ndiv x norm) pre ++ rest) ok norm =
    (map (fun x => ndiv x norm) (pre ++ firstn f rest) ++ skipn f rest, ok).
Proof.
  induction f as [|f IH]; intros pre rest ok Hf; cbn [gen_gth_solve_jit_loop5 firstn skipn].
  - rewrite app_nil_r. reflexivity.
  - destruct rest as [|x rest]; [cbn in Hf; lia|]. cbn [length] in Hf.
    assert (Hl : length (map (fun x0 => ndiv x0 norm) pre) = length pre) by apply map_length.
    rewrite inb_nat by (rewrite app_length, Hl; cbn; lia). rewrite !andb_true_r, Nat2Z.id.
    rewrite app_nth2, Hl, Nat.sub_diag by lia. cbn [nth].
    pose proof (upd_nth_mid (map (fun x0 => ndiv x0 norm) pre) x (ndiv x norm) rest) as Hu. rewrite Hl in Hu. rewrite Hu. clear Hu.
    replace (Z.of_nat (length pre) + 1)%Z with (Z.of_nat (length (pre ++ [x]))) by (rewrite app_length; cbn; lia).
    replace (map (fun x0 => ndiv x0 norm) pre ++ ndiv x norm :: rest) with (map (fun x0 => ndiv x0 norm) (pre ++ [x]) ++ rest)
      by (rewrite map_app, <- app_assoc; reflexivity).
    rewrite IH by lia. rewrite <- app_assoc. reflexivity.
Qed.

(* ------------------------------------------------------------------ _gth_solve_jit *)
Theorem gen_gth_solve_jit_tie (n0 : nat) (A : mat) : rect n0 n0 A -> (1 <= n0)%nat ->
  gen_gth_solve_jit A (repeat nzero n0) = ((snd (reduce (n0 - 1) n0 0 A), gth n0 A), true).
Proof.
  intros HA Hn0. pose proof HA as [Hl Hr]. unfold gen_gth_solve_jit, gth. cbv zeta.
  unfold nrows2. rewrite Hl. replace (Z.to_nat (Z.of_nat n0 - 1 - 0)) with (n0 - 1)%nat by lia.
  pose proof (gth_loop0_tie n0 (n0 - 1) 0 A true HA ltac:(destruct (n0 - 1)%nat eqn:E; [right; reflexivity|left; lia])) as E0.
  change (Z.of_nat 0) with 0%Z in E0. rewrite E0. clear E0.
  destruct (reduce_spec n0 (n0 - 1) 0 A HA ltac:(destruct (n0 - 1)%nat eqn:E; [right; split; [reflexivity|lia]|left; lia])) as [Hn HA'].
  destruct (reduce (n0 - 1) n0 0 A) as [n A'] eqn:Er. cbn [fst snd] in *.
  replace (Z.of_nat n - 1)%Z with (Z.of_nat (n - 1)) by lia.
  rewrite inb_nat by (rewrite repeat_length; lia). cbn [andb]. rewrite Nat2Z.id.
  assert (Eo : upd_nth (repeat nzero n0) (n - 1) none_ = repeat nzero (n - 1) ++ [none_] ++ repeat nzero (n0 - n)).
  { replace n0 with ((n - 1) + S (n0 - n))%nat at 1 by lia. rewrite repeat_app. cbn [repeat].
    pose proof (upd_nth_mid (repeat nzero (n - 1)) nzero none_ (repeat nzero (n0 - n))) as Hu.
    rewrite repeat_length in Hu. exact Hu. }
  rewrite Eo.
  replace (Z.of_nat n - 2)%Z with (Z.of_nat (n - 1) - 1)%Z by lia.
  replace (Z.to_nat (Z.of_nat (n - 1) - 1 - -1)) with (n - 1)%nat by lia.
  rewrite (gth_loop3_tie n0 n A' HA' Hn (repeat nzero (n0 - n)) (repeat_length _ _) (n - 1) [none_] true ltac:(cbn; lia) ltac:(lia)).
  set (xs := backsub A' n (n - 1) [none_]).
  assert (Hxs : length xs = n).
  { unfold xs. assert (H : forall f ys, length (backsub A' n f ys) = (f + length ys)%nat).
    { induction f as [|f IH]; intros ys; cbn [backsub]; [reflexivity|]. rewrite IH. cbn. lia. }
    rewrite H. cbn. lia. }
  replace (Z.to_nat (Z.of_nat n - 0)) with n by lia.
  pose proof (gth_loop5_tie (nsum1 (xs ++ repeat nzero (n0 - n))) n [] (xs ++ repeat nzero (n0 - n)) true
                ltac:(rewrite app_length; lia)) as E5.
  cbn [map app length] in E5. change (Z.of_nat 0) with 0%Z in E5. rewrite E5. clear E5.
  rewrite firstn_app, skipn_app, Hxs, Nat.sub_diag, firstn_all2, skipn_all2 by lia. cbn [firstn skipn app]. rewrite app_nil_r.
  reflexivity.
Qed.
End Tie.

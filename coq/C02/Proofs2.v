(* C02 proofs, part 2: the reduction loop as a sequence of matrices, the back
   substitution recurrence, non-negativity (no subtraction) and normalisation. *)
From Coq Require Import ZArith QArith List Bool Arith Lia Lqa.
From QE Require Import Base.Num C03.Model C03.Proofs1 C02.Model C02.Proofs1.
Import ListNotations.
Open Scope Q_scope.

Section Reduce.
Variable n : nat.
Variable A : qmat.
(* matrix at the start of step k *)
Fixpoint Mseq (k : nat) : qmat :=
  match k with
  | O => A
  | S k' => @elim_step Q NumQ n k' (@row_scale Q NumQ n (Mseq k') k') (Mseq k')
  end.
Definition scale (k : nat) : Q := @row_scale Q NumQ n (Mseq k) k.

(* reduce = walk along Mseq until the first k with scale k <= 0 (or k = n-1) *)
Lemma reduce_spec fuel : (1 <= n)%nat -> forall k m Af, (k + fuel = n - 1)%nat ->
  @reduce Q NumQ fuel n k (Mseq k) = (m, Af) ->
  exists ex, m = S ex /\ (k <= ex <= n - 1)%nat /\ Af = Mseq ex /\
    (forall k', (k <= k' < ex)%nat -> @nleb Q NumQ (scale k') 0 = false) /\
    ((ex < n - 1)%nat -> @nleb Q NumQ (scale ex) 0 = true).
Proof.
  intros Hn. induction fuel as [|f IH]; intros k m Af Hk H; cbn [reduce] in H.
  - inversion H; subst. exists k. split; [lia|]. split; [lia|]. split; [reflexivity|].
    split; [intros k' Hk'; lia | intros Hlt; lia].
  - fold (scale k) in H. change (@nzero Q NumQ) with 0 in H. destruct (@nleb Q NumQ (scale k) 0) eqn:Es.
    + inversion H; subst. exists k. split; [reflexivity|]. split; [lia|]. split; [reflexivity|].
      split; [intros k' Hk'; lia | intros _; exact Es].
    + change (@elim_step Q NumQ n k (scale k) (Mseq k)) with (Mseq (S k)) in H.
      destruct (IH (S k) m Af ltac:(lia) H) as [ex [Hm [Hex [HAf [Hpos Hexit]]]]].
      exists ex. split; [exact Hm|]. split; [lia|]. split; [exact HAf|]. split; [|exact Hexit].
      intros k' Hk'. destruct (Nat.eq_dec k' k) as [-> | Hne]; [exact Es | apply Hpos; lia].
Qed.

(* entries of the next matrix *)
Lemma Mseq_S_entry k i j : (i < n)%nat -> (j < n)%nat -> (k < i)%nat -> (k < j)%nat ->
  qget (Mseq (S k)) i j == qget (Mseq k) i j + (qget (Mseq k) i k / scale k) * qget (Mseq k) k j.
Proof.
  intros Hi Hj Hki Hkj. simpl. rewrite qget_elim by assumption.
  assert ((k <? i)%nat = true) as -> by (apply Nat.ltb_lt; exact Hki).
  assert ((j =? k)%nat = false) as -> by (apply Nat.eqb_neq; lia).
  assert ((k <? j)%nat = true) as -> by (apply Nat.ltb_lt; exact Hkj).
  fold (scale k). rewrite Qaddr_eq, Qmulr_eq, Qdivr_eq. reflexivity.
Qed.

Lemma Mseq_S_col k i : (i < n)%nat -> (k < i)%nat -> (k < n)%nat ->
  qget (Mseq (S k)) i k == qget (Mseq k) i k / scale k.
Proof.
  intros Hi Hki Hk. simpl. rewrite qget_elim by assumption.
  assert ((k <? i)%nat = true) as -> by (apply Nat.ltb_lt; exact Hki).
  rewrite Nat.eqb_refl. fold (scale k). apply Qdivr_eq.
Qed.

(* column j is frozen once step j is done *)
Lemma Mseq_frozen j : forall k', (S j <= k')%nat -> forall i, (i < n)%nat -> (j < n)%nat ->
  qget (Mseq k') i j = qget (Mseq (S j)) i j.
Proof.
  intros k' Hk'. induction Hk' as [|k' Hle IH]; intros i Hi Hj; [reflexivity|].
  rewrite <- (IH i Hi Hj). simpl Mseq at 1. rewrite qget_elim by assumption.
  assert ((j =? k')%nat = false) as -> by (apply Nat.eqb_neq; lia).
  assert ((k' <? j)%nat = false) as -> by (apply Nat.ltb_ge; lia).
  destruct (k' <? i)%nat; reflexivity.
Qed.

Hypothesis Hnn : offnn n A.
Variable ex : nat.
Hypothesis Hpos : forall k, (k < ex)%nat -> @nleb Q NumQ (scale k) 0 = false.

Lemma Mseq_offnn k : (ex < n)%nat -> (k <= ex)%nat -> offnn n (Mseq k).
Proof.
  intros Hexn. induction k as [|k IH]; intros Hk; [exact Hnn|].
  simpl. apply elim_offnn; [apply IH; lia | lia |].
  apply nleb_false_pos. apply Hpos. lia.
Qed.

Lemma scale_pos k : (k < ex)%nat -> 0 < scale k.
Proof. intros Hk. apply nleb_false_pos, Hpos, Hk. Qed.

End Reduce.

(* ------------------------------------------------------------- back substitution *)
Section Back.
Variable Af : qmat.
Variable m : nat.

Lemma back_entry_fold k : forall len a xs acc, (len <= length xs)%nat ->
  fold_left (fun acc ix => Qaddr acc (Qmulr (snd ix) (qget Af (fst ix) k))) (combine (seq a len) xs) acc ==
  acc + sumr a len (fun i => nth (i - a) xs 0 * qget Af i k).
Proof.
  induction len as [|l IH]; intros a xs acc Hl; [simpl; ring|].
  destruct xs as [|x xs]; [simpl in Hl; lia|].
  cbn [seq combine fold_left fst snd sumr].
  rewrite IH by (simpl in Hl; lia). rewrite Qaddr_eq, Qmulr_eq.
  replace (a - a)%nat with 0%nat by lia. cbn [nth].
  rewrite (sumr_ext (S a) l (fun i => nth (i - a) (x :: xs) 0 * qget Af i k)
                            (fun i => nth (i - S a) xs 0 * qget Af i k)).
  - ring.
  - intros i Hi. replace (i - a)%nat with (S (i - S a)) by lia. reflexivity.
Qed.

Lemma back_entry_sumr k xs : length xs = (m - S k)%nat ->
  @back_entry Q NumQ Af m k xs == sumr (S k) (m - S k) (fun i => nth (i - S k) xs 0 * qget Af i k).
Proof.
  intros Hl. unfold back_entry. change (@nzero Q NumQ) with 0.
  rewrite (back_entry_fold k (m - S k) (S k) xs 0) by lia. ring.
Qed.

Lemma backsub_spec : forall k xs, length xs = (m - k)%nat -> (k <= m)%nat ->
  let X := @backsub Q NumQ Af m k xs in
  length X = m /\
  (forall i, (k <= i < m)%nat -> nth i X 0 = nth (i - k) xs 0) /\
  (forall j, (j < k)%nat -> nth j X 0 == sumr (S j) (m - S j) (fun i => nth i X 0 * qget Af i j)).
Proof.
  induction k as [|k IH]; intros xs Hl Hk; simpl.
  - split; [lia|]. split; [intros i Hi; rewrite Nat.sub_0_r; reflexivity | intros j Hj; lia].
  - specialize (IH (@back_entry Q NumQ Af m k xs :: xs) ltac:(simpl; lia) ltac:(lia)).
    cbv zeta in IH. destruct IH as [HL [Hhi Hrec]].
    split; [exact HL|]. split.
    + intros i Hi. rewrite Hhi by lia. replace (i - k)%nat with (S (i - S k)) by lia. reflexivity.
    + intros j Hj. destruct (Nat.eq_dec j k) as [-> | Hne]; [|apply Hrec; lia].
      rewrite Hhi by lia. replace (k - k)%nat with 0%nat by lia. simpl nth.
      rewrite back_entry_sumr by exact Hl. apply sumr_ext. intros i Hi.
      rewrite Hhi by lia. replace (i - k)%nat with (S (i - S k)) by lia. reflexivity.
Qed.

Lemma backsub_nonneg : forall k xs, (k <= m)%nat -> length xs = (m - k)%nat ->
  (forall i j, (j < i < m)%nat -> 0 <= qget Af i j) ->
  Forall (fun x => 0 <= x) xs -> Forall (fun x => 0 <= x) (@backsub Q NumQ Af m k xs).
Proof.
  induction k as [|k IH]; intros xs Hk Hl HA Hxs; simpl; [exact Hxs|].
  apply IH; [lia | simpl; lia | exact HA|]. constructor; [|exact Hxs].
  rewrite back_entry_sumr by exact Hl. apply sumr_nonneg. intros i Hi.
  apply Qmult_le_0_compat; [|apply HA; lia].
  rewrite Forall_forall in Hxs. destruct (nth_in_or_default (i - S k) xs 0) as [Hin | ->]; [apply Hxs; exact Hin | lra].
Qed.

End Back.

(* C02 property theorems: statements only, each closed by `exact`, with Print Assumptions.
   Vocabulary (Proofs1): qget A i j = entry (0 outside), offnn n A = all off-diagonal entries of the n x n block are >= 0,
   sumr a len f = f a + ... + f (a+len-1), qsum l = sum of the list. gthQ = the loop model _gth_solve_jit at exact Q. *)
From Coq Require Import ZArith QArith List Bool Arith Relations.
From QE Require Import Base.Num C02.Model C02.Proofs.
Import ListNotations.
Open Scope Q_scope.

(* no subtraction: for every n >= 1 and every matrix with non-negative off-diagonal entries (stochastic, generator,
   reducible or not) the result has length n, every component is >= 0 and the components sum to 1 *)
Theorem C02_gth_nonneg_normalised : forall n A, (1 <= n)%nat -> offnn n A ->
  length (gthQ n A) = n /\ Forall (fun v => 0 <= v) (gthQ n A) /\ qsum (gthQ n A) == 1.
Proof. intros n A Hn H. destruct (gth_correct n A Hn H) as [a [b [c _]]]. repeat split; assumption. Qed.
Print Assumptions C02_gth_nonneg_normalised.

(* stationarity x (A - diag(row sums)) = 0, written as the balance equation of every state j (censoring induction);
   holds for reducible input too (early exit) *)
Theorem C02_gth_stationary : forall n A, (1 <= n)%nat -> offnn n A ->
  forall j, (j < n)%nat ->
    sumr 0 n (fun i => if (i =? j)%nat then 0 else nth i (gthQ n A) 0 * qget A i j) ==
    nth j (gthQ n A) 0 * sumr 0 n (fun l => if (l =? j)%nat then 0 else qget A j l).
Proof. intros n A Hn H. destruct (gth_correct n A Hn H) as [_ [_ [_ d]]]. exact d. Qed.
Print Assumptions C02_gth_stationary.

(* stochastic matrix (unit row sums): x P = x *)
Theorem C02_gth_stochastic : forall n P, (1 <= n)%nat -> offnn n P ->
  (forall i, (i < n)%nat -> sumr 0 n (fun l => qget P i l) == 1) ->
  forall j, (j < n)%nat -> sumr 0 n (fun i => nth i (gthQ n P) 0 * qget P i j) == nth j (gthQ n P) 0.
Proof.
  intros n P Hn H Hr j Hj. rewrite (gth_row_sums n P 1 Hn H Hr j Hj). ring.
Qed.
Print Assumptions C02_gth_stochastic.

(* generator matrix (zero row sums): x Q = 0 *)
Theorem C02_gth_generator : forall n G, (1 <= n)%nat -> offnn n G ->
  (forall i, (i < n)%nat -> sumr 0 n (fun l => qget G i l) == 0) ->
  forall j, (j < n)%nat -> sumr 0 n (fun i => nth i (gthQ n G) 0 * qget G i j) == 0.
Proof.
  intros n G Hn H Hr j Hj. rewrite (gth_row_sums n G 0 Hn H Hr j Hj). ring.
Qed.
Print Assumptions C02_gth_generator.

(* irreducible input (the positive off-diagonal entries connect every pair of states): every component is > 0 *)
Theorem C02_gth_positive_irreducible : forall n A, (1 <= n)%nat -> offnn n A ->
  (forall i j, (i < n)%nat -> (j < n)%nat ->
     clos_refl_trans nat (fun a b => (a < n)%nat /\ (b < n)%nat /\ a <> b /\ 0 < qget A a b) i j) ->
  forall i, (i < n)%nat -> 0 < nth i (gthQ n A) 0.
Proof. exact gth_pos_irreducible. Qed.
Print Assumptions C02_gth_positive_irreducible.

(* MarkovChain._compute_stationary over Q, classes from the C03 specification model on the positive-entry graph:
   exactly one row per recurrent class; every row has length n, is >= 0, sums to 1, is invariant under P and
   is supported EXACTLY on its recurrent class (positive inside, zero outside) *)
Theorem C02_stationary_rows : forall n P, (1 <= n)%nat ->
  (forall i j, (i < n)%nat -> (j < n)%nat -> 0 <= qget P i j) ->
  (forall i, (i < n)%nat -> sumr 0 n (fun l => qget P i l) == 1) ->
  length (stationaryQ n P) = length (C03.Model.sink_spec n (@pos_edge Q NumQ P)) /\
  forall r, In r (stationaryQ n P) -> exists c, In c (C03.Model.sink_spec n (@pos_edge Q NumQ P)) /\
    length r = n /\ Forall (fun v => 0 <= v) r /\ qsum r == 1 /\
    (forall j, (j < n)%nat -> sumr 0 n (fun i => nth i r 0 * qget P i j) == nth j r 0) /\
    (forall i, (i < n)%nat -> (0 < nth i r 0 <-> In i c)).
Proof.
  intros n P Hn Hnn Hr. split; [exact (proj1 (stationary_rows n P Hn Hnn Hr))|].
  intros r Hin. destruct (stationary_rows_support n P Hn Hnn Hr r Hin) as [c [Hc [[a [b [d [f _]]]] g]]].
  exists c. repeat split; try assumption; apply g; assumption.
Qed.
Print Assumptions C02_stationary_rows.

(* ANY input, reducible included: the result is positive exactly on ONE recurrent class of the positive-entry graph
   (the communication class of the state at which the reduction loop exits) and zero elsewhere; together with
   C02_gth_nonneg_normalised and C02_gth_stationary it is a stationary probability vector of that class *)
Theorem C02_gth_support : forall n A, (1 <= n)%nat -> offnn n A ->
  exists c, In c (C03.Model.sink_spec n (@pos_edge Q NumQ A)) /\
    forall i, (i < n)%nat -> (0 < nth i (gthQ n A) 0 <-> In i c).
Proof. exact gth_support. Qed.
Print Assumptions C02_gth_support.

(* no subtraction => no cancellation, for EVERY Num instance (PrimFloat included) under explicit closure hypotheses on
   a set nn of "non-negative" values: every component of the result lies in nn. The hypotheses are premises of the
   theorem (for floats they can fail only through overflow/NaN); C02_gth_nn_Q discharges them for Q. *)
Theorem C02_gth_nn_generic : forall (T : Type) (N : Num T) (nn : T -> Prop),
  nn nzero -> nn none_ ->
  (forall a b, nn a -> nn b -> nn (nadd a b)) ->
  (forall a b, nn a -> nn b -> nn (nmul a b)) ->
  (forall a b, nn a -> nleb b nzero = false -> nn (ndiv a b)) ->
  (forall a, nn a -> nleb (nadd a none_) nzero = false) ->
  (forall a b, nleb a nzero = false -> nn b -> nleb (nadd a b) nzero = false) ->
  forall n (A : list (list T)), (1 <= n)%nat ->
  (forall i j, (i < n)%nat -> (j < n)%nat -> i <> j -> nn (mget A i j)) ->
  Forall nn (gth n A).
Proof. intros T N nn h0 h1 h2 h3 h4 h5 h6 n A. exact (@gth_nn_generic T N nn h0 h1 h2 h3 h4 h5 h6 n A). Qed.
Print Assumptions C02_gth_nn_generic.

Theorem C02_gth_nn_Q : forall n (A : list (list Q)), (1 <= n)%nat -> offnn n A -> Forall (fun v => 0 <= v) (gthQ n A).
Proof. exact gth_nn_Q. Qed.
Print Assumptions C02_gth_nn_Q.

(* not proved (decided by correspondence + exact Fraction oracle on every run):
   - independence of overwrite / use_jit / memory order, argument untouched unless overwrite;
   - the floating-point accuracy (component-wise relative error n*1e-13) is measured, not proved. *)

(* hypotheses are satisfiable: an irreducible stochastic matrix and a reducible one (early exit) *)
Definition ex_P : list (list Q) := [[1#2; 1#2; 0]; [1#4; 1#2; 1#4]; [0; 1#3; 2#3]].
Example ex_offnn : offnn 3 ex_P.
Proof.
  intros i j Hi Hj _. destruct i as [|[|[|i]]]; [| | |exfalso; apply (Nat.nlt_0_r i); do 3 apply Nat.succ_lt_mono; exact Hi];
  (destruct j as [|[|[|j]]]; [| | |exfalso; apply (Nat.nlt_0_r j); do 3 apply Nat.succ_lt_mono; exact Hj]); vm_compute; discriminate.
Qed.
Example ex_rows : forall i, (i < 3)%nat -> sumr 0 3 (fun l => qget ex_P i l) == 1.
Proof.
  intros i Hi. destruct i as [|[|[|i]]]; [| | |exfalso; apply (Nat.nlt_0_r i); do 3 apply Nat.succ_lt_mono; exact Hi]; vm_compute; reflexivity.
Qed.
Example ex_gth : gthQ 3 ex_P = [2#9; 4#9; 1#3] /\ gthQ 3 [[0; 1#2; 1#2]; [0; 1; 0]; [0; 0; 1]] = [0; 1; 0].
Proof. vm_compute. split; reflexivity. Qed.
Example ex_irreducible : forall i j, (i < 3)%nat -> (j < 3)%nat ->
  clos_refl_trans nat (fun a b => (a < 3)%nat /\ (b < 3)%nat /\ a <> b /\ 0 < qget ex_P a b) i j.
Proof.
  assert (S01 : clos_refl_trans nat (fun a b => (a < 3)%nat /\ (b < 3)%nat /\ a <> b /\ 0 < qget ex_P a b) 0%nat 1%nat)
    by (apply rt_step; repeat split; try (apply Nat.ltb_lt; reflexivity); discriminate).
  assert (S10 : clos_refl_trans nat (fun a b => (a < 3)%nat /\ (b < 3)%nat /\ a <> b /\ 0 < qget ex_P a b) 1%nat 0%nat)
    by (apply rt_step; repeat split; try (apply Nat.ltb_lt; reflexivity); discriminate).
  assert (S12 : clos_refl_trans nat (fun a b => (a < 3)%nat /\ (b < 3)%nat /\ a <> b /\ 0 < qget ex_P a b) 1%nat 2%nat)
    by (apply rt_step; repeat split; try (apply Nat.ltb_lt; reflexivity); discriminate).
  assert (S21 : clos_refl_trans nat (fun a b => (a < 3)%nat /\ (b < 3)%nat /\ a <> b /\ 0 < qget ex_P a b) 2%nat 1%nat)
    by (apply rt_step; repeat split; try (apply Nat.ltb_lt; reflexivity); discriminate).
  intros i j Hi Hj.
  destruct i as [|[|[|i]]]; [| | |exfalso; apply (Nat.nlt_0_r i); do 3 apply Nat.succ_lt_mono; exact Hi];
  (destruct j as [|[|[|j]]]; [| | |exfalso; apply (Nat.nlt_0_r j); do 3 apply Nat.succ_lt_mono; exact Hj]);
  try apply rt_refl; try assumption;
  try (eapply rt_trans; eassumption).
Qed.

From Coq Require Import ZArith QArith List Bool Arith.
From QE Require Import Base.Num C02.Model C02.Proofs.
Import ListNotations.

(* C02 proofs, part 4: the loop model gth over Q: non-negative, sums to one, stationary. *)
From Coq Require Import ZArith QArith List Bool Arith Lia Lqa.
From QE Require Import Base.Num C03.Model C03.Proofs1 C02.Model C02.Proofs1 C02.Proofs2 C02.Proofs3.
Import ListNotations.
Open Scope Q_scope.

Lemma nth_map_Q (f : Q -> Q) l i : (i < length l)%nat -> nth i (map f l) 0 = f (nth i l 0).
Proof. revert i; induction l as [|x l IH]; intros [|i] H; simpl in *; try lia; auto. apply IH; lia. Qed.

Lemma nth_repeat0 k i : nth i (repeat 0 k) 0 = 0.
Proof. revert i; induction k; intros [|i]; simpl; auto. Qed.

Lemma Forall_repeat0 k : Forall (fun x => 0 <= x) (repeat 0 k).
Proof. induction k; simpl; constructor; [lra | assumption]. Qed.

Section GthQ.
Variable n : nat.
Variable A : qmat.
Hypothesis Hn : (1 <= n)%nat.
Hypothesis Hnn : offnn n A.

(* what the loops compute, in terms of the exit index ex and the unnormalised vector X *)
Lemma gth_unfold : exists ex X,
  (ex <= n - 1)%nat /\
  (forall k, (k < ex)%nat -> @nleb Q NumQ (scale n A k) 0 = false) /\
  ((ex < n - 1)%nat -> @nleb Q NumQ (scale n A ex) 0 = true) /\
  length X = S ex /\ nth ex X 0 = 1 /\
  (forall j, (j < ex)%nat -> nth j X 0 == sumr (S j) (S ex - S j) (fun i => nth i X 0 * qget (Mseq n A ex) i j)) /\
  Forall (fun x => 0 <= x) X /\
  gthQ n A = map (fun x => Qdivr x (@nsum Q NumQ (X ++ repeat 0 (n - S ex)))) X ++ repeat 0 (n - S ex).
Proof.
  unfold gthQ, gth.
  destruct (@reduce Q NumQ (n - 1) n 0 A) as [m Af] eqn:Er.
  destruct (reduce_spec n A (n - 1) Hn 0 m Af eq_refl Er) as [ex [Hm [Hex [HAf [Hpos Hexit]]]]].
  subst m Af. replace (S ex - 1)%nat with ex by lia.
  exists ex, (@backsub Q NumQ (Mseq n A ex) (S ex) ex [1]).
  assert (Hl1 : length [1] = (S ex - ex)%nat) by (cbn [length]; lia).
  pose proof (backsub_spec (Mseq n A ex) (S ex) ex [1] Hl1 ltac:(lia)) as [HL [Hhi Hrec]].
  split; [lia|]. split; [intros k Hk; apply Hpos; lia|]. split; [exact Hexit|].
  split; [exact HL|]. split.
  { rewrite Hhi by lia. replace (ex - ex)%nat with 0%nat by lia. reflexivity. }
  split; [exact Hrec|]. split; [|reflexivity].
  apply backsub_nonneg; [lia | exact Hl1 | | constructor; [lra | constructor]].
  intros i j Hij. apply (Mseq_offnn n A Hnn ex ltac:(intros k Hk; apply Hpos; lia) ex ltac:(lia) (le_n ex)); lia.
Qed.

Theorem gth_correct :
  let x := gthQ n A in
  length x = n /\
  Forall (fun v => 0 <= v) x /\
  qsum x == 1 /\
  forall j, (j < n)%nat ->
    sumr 0 n (fun i => if (i =? j)%nat then 0 else nth i x 0 * qget A i j) ==
    nth j x 0 * sumr 0 n (fun l => if (l =? j)%nat then 0 else qget A j l).
Proof.
  destruct gth_unfold as [ex [X [Hex [Hpos [Hexit [HL [Hxe [Hrec [Hnnx HG]]]]]]]]].
  cbv zeta. rewrite HG. clear HG.
  set (norm := @nsum Q NumQ (X ++ repeat 0 (n - S ex))).
  assert (Hnorm : norm == qsum X).
  { unfold norm. rewrite nsum_qsum, qsum_app, qsum_repeat0. ring. }
  assert (Hnorm1 : 1 <= norm).
  { rewrite Hnorm, qsum_nth, HL.
    assert (Hterms : forall i, (0 <= i < 0 + S ex)%nat -> 0 <= nth i X 0).
    { intros i Hi. rewrite Forall_forall in Hnnx. apply Hnnx. apply nth_In. lia. }
    pose proof (sumr_ge_term 0 (S ex) (fun i => nth i X 0) ex Hterms ltac:(lia)) as Hge.
    simpl in Hge. rewrite Hxe in Hge. exact Hge. }
  assert (Hnorm0 : ~ norm == 0) by (intros H0; rewrite H0 in Hnorm1; lra).
  (* entry i of the result is x_i / norm, where x_i = nth i X 0 (zero above ex) *)
  assert (Hentry : forall i, nth i (map (fun v => Qdivr v norm) X ++ repeat 0 (n - S ex)) 0 == nth i X 0 / norm).
  { intros i. destruct (lt_dec i (S ex)) as [Hi | Hi].
    - rewrite app_nth1 by (rewrite map_length; lia). rewrite nth_map_Q by lia. apply Qdivr_eq.
    - rewrite app_nth2 by (rewrite map_length; lia). rewrite nth_repeat0.
      rewrite (nth_overflow X) by lia. unfold Qdiv. ring. }
  split; [rewrite app_length, map_length, repeat_length; lia|]. split; [|split].
  - apply Forall_app. split; [|apply Forall_repeat0].
    rewrite Forall_forall in *. intros v Hv. apply in_map_iff in Hv. destruct Hv as [w [<- Hw]].
    rewrite Qdivr_eq. apply Qdiv_nonneg; [apply Hnnx; exact Hw | lra].
  - rewrite qsum_app, qsum_repeat0, qsum_map_div, <- Hnorm. field. exact Hnorm0.
  - intros j Hj.
    assert (Hhi0 : forall i, (ex < i)%nat -> nth i X 0 == 0)
      by (intros i Hi; rewrite nth_overflow by lia; reflexivity).
    pose proof (balance_A n A Hn Hnn ex Hex Hpos Hexit (fun i => nth i X 0) Hhi0 Hrec j Hj) as Hbal.
    cbv beta in Hbal.
    rewrite (sumr_ext 0 n _ (fun i => (1 / norm) * (if (i =? j)%nat then 0 else nth i X 0 * qget A i j))).
    2:{ intros i _. destruct (i =? j)%nat; [ring|]. rewrite Hentry. field. exact Hnorm0. }
    rewrite sumr_scale, Hbal, Hentry. field. exact Hnorm0.
Qed.

End GthQ.

(* x P = x for a matrix with unit row sums; x Q = 0 for a generator (zero row sums) *)
Corollary gth_row_sums n A c : (1 <= n)%nat -> offnn n A ->
  (forall i, (i < n)%nat -> sumr 0 n (fun l => qget A i l) == c) ->
  forall j, (j < n)%nat ->
    sumr 0 n (fun i => nth i (gthQ n A) 0 * qget A i j) == c * nth j (gthQ n A) 0.
Proof.
  intros Hn Hnn Hrows j Hj.
  destruct (gth_correct n A Hn Hnn) as [_ [_ [_ Hbal]]]. specialize (Hbal j Hj).
  rewrite (sumr_split 0 n (fun i => nth i (gthQ n A) 0 * qget A i j) j) by lia.
  rewrite Hbal. pose proof (Hrows j Hj) as Hr.
  rewrite (sumr_split 0 n (fun l => qget A j l) j) in Hr by lia.
  set (S1 := sumr 0 n (fun l => if (l =? j)%nat then 0 else qget A j l)) in *.
  assert (S1 == c - qget A j j) as -> by lra. ring.
Qed.

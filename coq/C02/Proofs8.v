(* C02 proofs, part 8: what makes the float/exact comparison meaningful.
   For EVERY Num instance (floats included) in which a set `nn` of "non-negative"
   values contains 0 and 1 and is closed under +, * and under division by a
   value that passed the test `scale <= 0 = false`, every value the GTH loops
   ever write off the diagonal, and every component of the result, lies in nn:
   the algorithm performs no subtraction, so no cancellation can occur.
   The closure facts are Section hypotheses (not proved for PrimFloat: they fail
   only through overflow to infinity / NaN); they are instantiated for Q. *)
From Coq Require Import ZArith QArith List Bool Arith Lia Lqa.
From QE Require Import Base.Num C03.Model C03.Proofs1 C02.Model C02.Proofs1.
Import ListNotations.
Open Scope nat_scope.

Section Generic.
Context {T : Type} {N : Num T}.
Variable nn : T -> Prop.
Definition posT (b : T) : Prop := nleb b nzero = false.

Hypothesis nn_zero : nn nzero.
Hypothesis nn_one : nn none_.
Hypothesis nn_add : forall a b, nn a -> nn b -> nn (nadd a b).
Hypothesis nn_mul : forall a b, nn a -> nn b -> nn (nmul a b).
Hypothesis nn_div : forall a b, nn a -> posT b -> nn (ndiv a b).
(* sums containing the entry 1 pass the positivity test *)
Hypothesis pos_one_add : forall a, nn a -> posT (nadd a none_).
Hypothesis pos_add_nn : forall a b, posT a -> nn b -> posT (nadd a b).

Definition offnnT (n : nat) (A : list (list T)) : Prop :=
  forall i j, i < n -> j < n -> i <> j -> nn (mget A i j).

Lemma mget_elimT n k s (A : list (list T)) i j : i < n -> j < n ->
  mget (elim_step n k s A) i j =
  if k <? i then
    if j =? k then ndiv (mget A i k) s
    else if k <? j then nadd (mget A i j) (nmul (ndiv (mget A i k) s) (mget A k j))
    else mget A i j
  else mget A i j.
Proof.
  intros Hi Hj. unfold mget at 1. unfold elim_step.
  rewrite (nth_map_seq _ n i [] Hi). destruct (k <? i).
  - cbv zeta. rewrite (nth_map_seq _ n j _ Hj). reflexivity.
  - rewrite (nth_map_seq _ n j _ Hj). reflexivity.
Qed.

Lemma elim_offnnT n k s A : offnnT n A -> k < n -> posT s -> offnnT n (elim_step n k s A).
Proof.
  intros H Hk Hs i j Hi Hj Hne. rewrite mget_elimT by assumption.
  destruct (k <? i) eqn:Eki; [|apply H; assumption]. apply Nat.ltb_lt in Eki.
  destruct (j =? k) eqn:Ejk.
  - apply nn_div; [apply H; lia | exact Hs].
  - apply Nat.eqb_neq in Ejk. destruct (k <? j) eqn:Ekj; [|apply H; assumption]. apply Nat.ltb_lt in Ekj.
    apply nn_add; [apply H; assumption|]. apply nn_mul; [apply nn_div; [apply H; lia | exact Hs] | apply H; lia].
Qed.

Lemma reduce_offnnT fuel : forall n k A m Af, k + fuel = n - 1 -> 1 <= n -> offnnT n A ->
  reduce fuel n k A = (m, Af) -> offnnT n Af /\ 1 <= m <= n.
Proof.
  induction fuel as [|f IH]; intros n k A m Af Hk Hn H Hr; cbn [reduce] in Hr.
  - inversion Hr; subst. split; [exact H | lia].
  - destruct (nleb (row_scale n A k) nzero) eqn:Es.
    + inversion Hr; subst. split; [exact H | lia].
    + apply (IH n (S k) (elim_step n k (row_scale n A k) A) m Af ltac:(lia) Hn); [|exact Hr]. apply elim_offnnT; [exact H | lia | exact Es].
Qed.

Lemma fold_nn {B} (g : T -> B -> T) (l : list B) : (forall acc b, nn acc -> In b l -> nn (g acc b)) ->
  forall acc, nn acc -> nn (fold_left g l acc).
Proof.
  induction l as [|b l IH]; intros Hg acc Hacc; simpl; [exact Hacc|].
  apply IH; [intros a c Ha Hc; apply Hg; [exact Ha | right; exact Hc]|]. apply Hg; [exact Hacc | left; reflexivity].
Qed.

Lemma back_entry_nn Af m k xs : (forall i, k < i < m -> nn (mget Af i k)) -> Forall nn xs ->
  nn (back_entry Af m k xs).
Proof.
  intros HA Hxs. unfold back_entry. apply fold_nn; [|exact nn_zero].
  intros acc [i v] Hacc Hin. simpl. apply nn_add; [exact Hacc|]. apply nn_mul.
  - rewrite Forall_forall in Hxs. apply Hxs. apply (in_combine_r _ _ _ _ Hin).
  - apply HA. apply in_combine_l in Hin. apply in_seq in Hin. lia.
Qed.

Lemma backsub_nn Af m : (forall i j, j < i < m -> nn (mget Af i j)) -> forall k xs, k <= m ->
  Forall nn xs -> Forall nn (backsub Af m k xs).
Proof.
  intros HA. induction k as [|k IH]; intros xs Hk Hxs; simpl; [exact Hxs|].
  apply IH; [lia|]. constructor; [|exact Hxs].
  apply back_entry_nn; [intros i Hi; apply HA; lia | exact Hxs].
Qed.

(* the normalising sum passes the positivity test: it contains the entry 1 *)
Lemma nsum_pos (xs zs : list T) : Forall nn xs -> Forall nn zs -> posT (nsum (xs ++ none_ :: zs)).
Proof.
  intros Hxs Hzs. unfold nsum. rewrite fold_left_app. cbn [fold_left].
  assert (Hacc : nn (fold_left nadd xs nzero)).
  { apply fold_nn; [|exact nn_zero]. intros a b Ha Hb. apply nn_add; [exact Ha|].
    rewrite Forall_forall in Hxs. apply Hxs, Hb. }
  generalize (pos_one_add _ Hacc). generalize (nadd (fold_left nadd xs nzero) none_).
  induction zs as [|z zs IH]; intros acc Hp; simpl; [exact Hp|].
  inversion Hzs; subst. apply IH; [assumption|]. apply pos_add_nn; assumption.
Qed.

Lemma backsub_last Af m : forall k xs, exists ys, backsub Af m k xs = ys ++ xs.
Proof.
  induction k as [|k IH]; intros xs; simpl; [exists []; reflexivity|].
  destruct (IH (back_entry Af m k xs :: xs)) as [ys Hys]. exists (ys ++ [back_entry Af m k xs]).
  rewrite Hys, <- app_assoc. reflexivity.
Qed.

Lemma Forall_repeat_nn k : Forall nn (repeat nzero k).
Proof. induction k; simpl; constructor; [exact nn_zero | assumption]. Qed.

Theorem gth_nn_generic n A : 1 <= n -> offnnT n A -> Forall nn (gth n A).
Proof.
  intros Hn H. unfold gth.
  destruct (reduce (n - 1) n 0 A) as [m Af] eqn:Er.
  destruct (reduce_offnnT (n - 1) n 0 A m Af ltac:(lia) Hn H Er) as [Hoff Hm].
  assert (Hxs : Forall nn (backsub Af m (m - 1) [none_])).
  { apply backsub_nn; [intros i j Hij; apply Hoff; lia | lia | constructor; [exact nn_one | constructor]]. }
  destruct (backsub_last Af m (m - 1) [none_]) as [ys Hys].
  assert (Hnorm : posT (nsum (backsub Af m (m - 1) [none_] ++ repeat nzero (n - m)))).
  { rewrite Hys in *. rewrite <- app_assoc. cbn [app]. apply nsum_pos; [|apply Forall_repeat_nn].
    apply Forall_app in Hxs. tauto. }
  apply Forall_app. split; [|apply Forall_repeat_nn].
  rewrite Forall_forall in *. intros v Hv. apply in_map_iff in Hv. destruct Hv as [w [<- Hw]].
  apply nn_div; [apply Hxs; exact Hw | exact Hnorm].
Qed.

End Generic.

(* instance: exact rationals with nn = (0 <=) satisfy every hypothesis *)
Theorem gth_nn_Q n (A : list (list Q)) : 1 <= n -> offnn n A -> Forall (fun v => (0 <= v)%Q) (gthQ n A).
Proof.
  intros Hn H. unfold gthQ.
  apply (@gth_nn_generic Q NumQ (fun v => (0 <= v)%Q)); try assumption.
  - apply Qle_refl.
  - simpl. discriminate.
  - intros a b Ha Hb. simpl. rewrite Qaddr_eq. lra.
  - intros a b Ha Hb. simpl. rewrite Qmulr_eq. apply Qmult_le_0_compat; assumption.
  - intros a b Ha Hb. simpl. rewrite Qdivr_eq. apply Qdiv_nonneg; [exact Ha | apply nleb_false_pos; exact Hb].
  - intros a Ha. unfold posT. simpl. destruct (Qle_bool (Qaddr a 1) 0) eqn:E; [|reflexivity].
    apply Qle_bool_iff in E. rewrite Qaddr_eq in E. lra.
  - intros a b Ha Hb. unfold posT in *. simpl in *. destruct (Qle_bool (Qaddr a b) 0) eqn:E; [|reflexivity].
    apply Qle_bool_iff in E. rewrite Qaddr_eq in E.
    assert (0 < a)%Q by (apply Qnot_le_lt; intros Hle; apply Qle_bool_iff in Hle; congruence). lra.
Qed.

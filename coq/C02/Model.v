(* C02 model: quantecon/markov/gth_solve.py (_gth_solve_jit, loops exactly as
   written: reduction with early exit when scale <= 0, back substitution,
   normalisation) and MarkovChain._compute_stationary of markov/core.py.
   Written once over Base.Num.Num; instantiated at Q (theorems, exact runs) and
   at PrimFloat (bit-exact runs against the jitted kernel).
   Executable definitions only; proofs are in Proofs.v. *)
From Coq Require Import ZArith QArith List Bool Arith PrimFloat.
From QE Require Import Base.Num C03.Model.
Import ListNotations.

Section GTH.
Context {T : Type} {N : Num T}.

Definition mat := list (list T).
Definition mget (A : mat) (i j : nat) : T := nth j (nth i A []) nzero.
Definition mtab (n : nat) (f : nat -> nat -> T) : mat :=
  map (fun i => map (f i) (seq 0 n)) (seq 0 n).
(* np.sum of a 1-d array inside a jitted function: acc = 0; for v in a: acc += v *)
Definition nsum (l : list T) : T := fold_left nadd l nzero.

(* scale = np.sum(A[k, k+1:n]) *)
Definition row_scale (n : nat) (A : mat) (k : nat) : T :=
  nsum (map (mget A k) (seq (S k) (n - S k))).

(* for i in k+1..n-1: A[i,k] /= scale; for j in k+1..n-1: A[i,j] += A[i,k] * A[k,j] *)
Definition elim_step (n k : nat) (scale : T) (A : mat) : mat :=
  map (fun i =>
    if k <? i then
      let m := ndiv (mget A i k) scale in
      map (fun j => if j =? k then m
                    else if k <? j then nadd (mget A i j) (nmul m (mget A k j))
                    else mget A i j) (seq 0 n)
    else map (mget A i) (seq 0 n)) (seq 0 n).

(* for k in range(n-1): ...; if scale <= 0: n = k+1; break.  fuel = n-1 = the loop's own bound.
   Returns the (possibly reduced) n and the final matrix. *)
Fixpoint reduce (fuel n k : nat) (A : mat) : nat * mat :=
  match fuel with
  | O => (n, A)
  | S f => let scale := row_scale n A k in
           if nleb scale nzero then (S k, A)
           else reduce f n (S k) (elim_step n k scale A)
  end.

(* out[n-1] = 1; for k in n-2..0: for i in k+1..n-1: out[k] += out[i] * A[i,k]
   xs = [x_k; ...; x_{n-1}] is the part of out already computed *)
Definition back_entry (A : mat) (n k : nat) (xs : list T) : T :=
  fold_left (fun acc ix => nadd acc (nmul (snd ix) (mget A (fst ix) k)))
            (combine (seq (S k) (n - S k)) xs) nzero.
Fixpoint backsub (A : mat) (n k : nat) (xs : list T) : list T :=
  match k with
  | O => xs
  | S k' => backsub A n k' (back_entry A n k' xs :: xs)
  end.

(* _gth_solve_jit(A, out) with out = zeros(n0); the result is out *)
Definition gth (n0 : nat) (A : mat) : list T :=
  let '(n, A') := reduce (n0 - 1) n0 0 A in
  let xs := backsub A' n (n - 1) [none_] in
  let out := xs ++ repeat nzero (n0 - n) in
  let norm := nsum out in                           (* np.sum(out) over the full length *)
  map (fun x => ndiv x norm) xs ++ repeat nzero (n0 - n).

(* MarkovChain._compute_stationary: irreducible -> gth_solve(P); else for each
   recurrent class gth_solve(P[ix_(rec, rec)]) scattered into a zero row.
   The classes come from the C03 specification-level model on the positive-entry graph
   (rows are listed by least element of the class; SciPy's label order is canonicalised away). *)
Definition pos_edge (A : mat) (i j : nat) : bool := nltb nzero (mget A i j).
Definition submat (A : mat) (c : list nat) : mat := map (fun i => map (fun j => mget A i j) c) c.
Fixpoint index_of (j : nat) (c : list nat) (p : nat) : option nat :=
  match c with
  | [] => None
  | x :: r => if x =? j then Some p else index_of j r (S p)
  end.
Definition scatter (n : nat) (c : list nat) (xs : list T) : list T :=
  map (fun j => match index_of j c 0 with Some p => nth p xs nzero | None => nzero end) (seq 0 n).
Definition stationary_distributions (n : nat) (A : mat) : list (list T) :=
  let e := pos_edge A in
  if length (scc_spec n e) =? 1 then [gth n A]
  else map (fun c => scatter n c (gth (length c) (submat A c))) (sink_spec n e).

End GTH.

(* exact and float instances *)
Definition gthQ := @gth Q NumQ.
Definition gthF := @gth float NumF.
Definition stationaryQ := @stationary_distributions Q NumQ.
Definition stationaryF := @stationary_distributions float NumF.

(* ---- correspondence comparisons ---- *)
Definition Qabs' (x : Q) : Q := if Qle_bool 0 x then x else Qopp x.
(* |a - b| <= tol * |b|, and a = 0 exactly when b = 0 (support) *)
Definition relclose (tol a b : Q) : bool :=
  Qle_bool (Qabs' (a - b)) (tol * Qabs' b).
Fixpoint all2 {A B} (f : A -> B -> bool) (a : list A) (b : list B) : bool :=
  match a, b with
  | [], [] => true
  | x :: a', y :: b' => f x y && all2 f a' b'
  | _, _ => false
  end.
Definition Qs_relclose' (tol : Q) := all2 (relclose tol).
Definition Qss_relclose' (tol : Q) := all2 (Qs_relclose' tol).
Definition Fs_eq := all2 PrimFloat.eqb.
Definition Fss_eq := all2 Fs_eq.

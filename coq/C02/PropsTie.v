(* C02: _gth_solve_jit of quantecon/markov/gth_solve.py as REGENERATED from /repo's current source on every run
   (Gen/Kernels3.v, bounds-checked translation by harness/py2coq.py) computes the hand-written model C02/Model.v
   (gth), for EVERY Num instance (exact Q and binary64), and reads/stores only inside its arrays.  Statements only;
   proof in C02/TieGen.v.  `out` is the zero vector the callers pass (np.zeros(n)); the trailing `true` is the
   bounds flag.  Hence the theorems of C02/Props.v and the bit-exact float correspondence speak about the current text. *)
From Coq Require Import ZArith QArith List Bool PrimFloat.
From QE Require Import Base.Num Base.Pivot Gen.Kernels Gen.Kernels2 Gen.Kernels3 Base.GenLemmas C02.Model C02.TieGen.
Import ListNotations.

Theorem C02_tie_gth_solve_jit :
  forall (T : Type) (NT : Num T) (n : nat) (A : list (list T)), rect n n A -> (1 <= n)%nat ->
  @gen_gth_solve_jit T NT A (repeat nzero n) = ((snd (reduce (n - 1) n 0 A), gth n A), true).
Proof. exact (@gen_gth_solve_jit_tie). Qed.
Print Assumptions C02_tie_gth_solve_jit.

(* consequence: the result of the regenerated kernel on exact rationals is a probability vector (C02_gth_nonneg_normalised) *)
From QE Require Import C02.Proofs C02.Props.
Theorem C02_gen_gth_nonneg_normalised : forall n (A : list (list Q)), rect n n A -> (1 <= n)%nat -> offnn n A ->
  let x := snd (fst (gen_gth_solve_jit A (repeat 0%Q n))) in
  length x = n /\ Forall (fun v => (0 <= v)%Q) x /\ (qsum x == 1)%Q.
Proof.
  intros n A HA Hn Hoff. cbv zeta. change (repeat 0%Q n) with (repeat (@nzero Q NumQ) n).
  rewrite (gen_gth_solve_jit_tie n A HA Hn). cbn [fst snd].
  exact (C02_gth_nonneg_normalised n A Hn Hoff).
Qed.
Print Assumptions C02_gen_gth_nonneg_normalised.

Example C02_tie_gth_example :
  snd (fst (gen_gth_solve_jit ex_P (repeat 0%Q 3))) = [2#9; 4#9; 1#3]%Q /\ snd (gen_gth_solve_jit ex_P (repeat 0%Q 3)) = true /\
  (* reducible input: early exit of the reduction loop *)
  gen_gth_solve_jit [[0; 1#2; 1#2]; [0; 1; 0]; [0; 0; 1]]%Q (repeat 0%Q 3) = (([[0; 1#2; 1#2]; [0; 1; 0]; [0; 0; 1]]%Q, [0; 1; 0]%Q), true) /\
  snd (fst (gen_gth_solve_jit [[0.5; 0.5]; [0.25; 0.75]]%float (repeat 0%float 2))) = gthF 2 [[0.5; 0.5]; [0.25; 0.75]]%float.
Proof. vm_compute. repeat split. Qed.

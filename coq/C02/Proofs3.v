(* C02 proofs, part 3: the censoring induction. The (unnormalised) GTH vector
   satisfies the balance equations of every censored matrix Mseq k on the
   states k..n-1; for k = 0 this is stationarity for the input matrix. *)
From Coq Require Import ZArith QArith List Bool Arith Lia Lqa.
From QE Require Import Base.Num C03.Model C03.Proofs1 C02.Model C02.Proofs1 C02.Proofs2.
Import ListNotations.
Open Scope Q_scope.

Lemma step_algebra p q1 r t xk xj mkj mjk s :
  ~ s == 0 ->
  p + (mkj / s) * q1 == xj * (r + (mjk / s) * t) ->
  xk * s == xj * mjk + q1 ->
  s == mkj + t ->
  xk * mkj + p == xj * (mjk + r).
Proof.
  intros Hs H1 H2 H3.
  assert (Hq : q1 == xk * s - xj * mjk) by lra.
  assert (Ht : t == s - mkj) by lra.
  rewrite Hq, Ht in H1.
  assert (Hp : p == xj * (r + (mjk / s) * (s - mkj)) - (mkj / s) * (xk * s - xj * mjk)) by lra.
  rewrite Hp. field. exact Hs.
Qed.

Section Censor.
Variable n : nat.
Variable A : qmat.
Hypothesis Hn : (1 <= n)%nat.
Hypothesis Hnn : offnn n A.

Notation M := (Mseq n A).
Notation sc := (scale n A).

Variable ex : nat.
Hypothesis Hex : (ex <= n - 1)%nat.
Hypothesis Hpos : forall k, (k < ex)%nat -> @nleb Q NumQ (sc k) 0 = false.
Hypothesis Hexit : (ex < n - 1)%nat -> @nleb Q NumQ (sc ex) 0 = true.

(* the unnormalised vector: x ex = 1, zero above, back-substitution recurrence below *)
Variable x : nat -> Q.
Hypothesis Hx_ex : x ex == 1.
Hypothesis Hx_hi : forall i, (ex < i)%nat -> x i == 0.
Hypothesis Hx_rec : forall j, (j < ex)%nat ->
  x j == sumr (S j) (S ex - S j) (fun i => x i * qget (M ex) i j).

Definition bal (k j : nat) : Prop :=
  sumr k (n - k) (fun i => if (i =? j)%nat then 0 else x i * qget (M k) i j) ==
  x j * sumr k (n - k) (fun l => if (l =? j)%nat then 0 else qget (M k) j l).

Lemma exit_row_zero l : (ex < l < n)%nat -> qget (M ex) ex l == 0.
Proof.
  intros Hl. assert (ex < n - 1)%nat as Hlt by lia.
  pose proof (nleb_true_le _ (Hexit Hlt)) as Hle. unfold scale in Hle. rewrite row_scale_sumr in Hle.
  pose proof (Mseq_offnn n A Hnn ex Hpos ex ltac:(lia) (le_n ex)) as Hoff.
  assert (Hterms : forall i, (S ex <= i < S ex + (n - S ex))%nat -> 0 <= qget (M ex) ex i)
    by (intros i Hi; apply Hoff; lia).
  pose proof (sumr_ge_term (S ex) (n - S ex) (fun j => qget (M ex) ex j) l Hterms ltac:(lia)) as Hge.
  pose proof (Hterms l ltac:(lia)). simpl in Hge. lra.
Qed.

Lemma bal_base j : (ex <= j < n)%nat -> bal ex j.
Proof.
  intros Hj. unfold bal.
  rewrite (sumr_zero ex (n - ex) (fun i => if (i =? j)%nat then 0 else x i * qget (M ex) i j)).
  - destruct (Nat.eq_dec j ex) as [-> | Hne].
    + rewrite (sumr_zero ex (n - ex) (fun l => if (l =? ex)%nat then 0 else qget (M ex) ex l)); [ring|].
      intros l Hl. destruct (l =? ex)%nat eqn:El; [reflexivity|]. apply Nat.eqb_neq in El.
      apply exit_row_zero. lia.
    + rewrite (Hx_hi j) by lia. ring.
  - intros i Hi. destruct (i =? j)%nat eqn:Eij; [reflexivity|]. apply Nat.eqb_neq in Eij.
    destruct (Nat.eq_dec i ex) as [-> | Hne].
    + rewrite exit_row_zero by lia. ring.
    + rewrite (Hx_hi i) by lia. ring.
Qed.

(* x_k * scale_k = sum_{i>k} x_i * M_k[i,k] *)
Lemma x_scale k : (k < ex)%nat ->
  x k * sc k == sumr (S k) (n - S k) (fun i => x i * qget (M k) i k).
Proof.
  intros Hk. pose proof (scale_pos n A ex Hpos k Hk) as Hs.
  replace (n - S k)%nat with ((S ex - S k) + (n - S ex))%nat by lia.
  rewrite sumr_app. replace (S k + (S ex - S k))%nat with (S ex) by lia.
  rewrite (sumr_zero (S ex) (n - S ex)) by (intros i Hi; rewrite (Hx_hi i) by lia; ring).
  rewrite (Hx_rec k Hk). rewrite Qmult_comm. rewrite <- sumr_scale. rewrite Qplus_0_r.
  apply sumr_ext. intros i Hi.
  rewrite (Mseq_frozen n A k ex ltac:(lia) i ltac:(lia) ltac:(lia)).
  rewrite (Mseq_S_col n A k i ltac:(lia) ltac:(lia) ltac:(lia)).
  field. intros H0. rewrite H0 in Hs. apply (Qlt_irrefl 0 Hs).
Qed.

Lemma bal_step k : (k < ex)%nat -> (forall j, (S k <= j < n)%nat -> bal (S k) j) ->
  forall j, (k <= j < n)%nat -> bal k j.
Proof.
  intros Hk IH j Hj. pose proof (scale_pos n A ex Hpos k Hk) as Hs.
  assert (Hs0 : ~ sc k == 0) by (intros H0; rewrite H0 in Hs; apply (Qlt_irrefl 0 Hs)).
  unfold bal. replace (n - k)%nat with (S (n - S k)) by lia. cbn [sumr].
  destruct (Nat.eq_dec j k) as [-> | Hne].
  - (* the equation of state k is the back-substitution formula *)
    rewrite Nat.eqb_refl.
    rewrite (sumr_ext (S k) (n - S k) (fun i => if (i =? k)%nat then 0 else x i * qget (M k) i k)
                                      (fun i => x i * qget (M k) i k)).
    2:{ intros i Hi. assert ((i =? k)%nat = false) as -> by (apply Nat.eqb_neq; lia). reflexivity. }
    rewrite (sumr_ext (S k) (n - S k) (fun l => if (l =? k)%nat then 0 else qget (M k) k l)
                                      (fun l => qget (M k) k l)).
    2:{ intros i Hi. assert ((i =? k)%nat = false) as -> by (apply Nat.eqb_neq; lia). reflexivity. }
    rewrite <- x_scale by exact Hk. unfold scale. rewrite row_scale_sumr. ring.
  - assert ((k =? j)%nat = false) as -> by (apply Nat.eqb_neq; lia).
    set (len := (n - S k)%nat).
    set (P := sumr (S k) len (fun i => if (i =? j)%nat then 0 else x i * qget (M k) i j)).
    set (R := sumr (S k) len (fun l => if (l =? j)%nat then 0 else qget (M k) j l)).
    set (Q1 := sumr (S k) len (fun i => if (i =? j)%nat then 0 else x i * qget (M k) i k)).
    set (T := sumr (S k) len (fun l => if (l =? j)%nat then 0 else qget (M k) k l)).
    apply (step_algebra P Q1 R T (x k) (x j) (qget (M k) k j) (qget (M k) j k) (sc k) Hs0).
    + (* the induction hypothesis, rewritten with the entries of M (S k) *)
      pose proof (IH j ltac:(lia)) as HI. unfold bal in HI. fold len in HI.
      rewrite (sumr_ext (S k) len _ (fun i => (if (i =? j)%nat then 0 else x i * qget (M k) i j) +
                 (qget (M k) k j / sc k) * (if (i =? j)%nat then 0 else x i * qget (M k) i k))) in HI.
      2:{ intros i Hi. destruct (i =? j)%nat eqn:Eij; [ring|]. apply Nat.eqb_neq in Eij.
          rewrite (Mseq_S_entry n A k i j) by (unfold len in Hi; lia). field. exact Hs0. }
      rewrite sumr_add, sumr_scale in HI. fold P Q1 in HI. rewrite HI.
      apply Qmult_comp; [reflexivity|].
      rewrite (sumr_ext (S k) len _ (fun l => (if (l =? j)%nat then 0 else qget (M k) j l) +
                 (qget (M k) j k / sc k) * (if (l =? j)%nat then 0 else qget (M k) k l))).
      2:{ intros l Hl. destruct (l =? j)%nat eqn:Elj; [ring|]. apply Nat.eqb_neq in Elj.
          rewrite (Mseq_S_entry n A k j l) by (unfold len in Hl; lia). reflexivity. }
      rewrite sumr_add, sumr_scale. reflexivity.
    + rewrite x_scale by exact Hk. fold len.
      rewrite (sumr_split (S k) len (fun i => x i * qget (M k) i k) j) by (unfold len; lia). reflexivity.
    + unfold scale. rewrite row_scale_sumr. fold len.
      rewrite (sumr_split (S k) len (fun l => qget (M k) k l) j) by (unfold len; lia). reflexivity.
Qed.

Lemma bal_all : forall d k, (k + d = ex)%nat -> forall j, (k <= j < n)%nat -> bal k j.
Proof.
  induction d as [|d IH]; intros k Hk j Hj.
  - replace k with ex in * by lia. apply bal_base; exact Hj.
  - apply bal_step; [lia | intros j' Hj'; apply (IH (S k)); lia | exact Hj].
Qed.

(* stationarity for the input matrix: balance at every state *)
Theorem balance_A j : (j < n)%nat ->
  sumr 0 n (fun i => if (i =? j)%nat then 0 else x i * qget A i j) ==
  x j * sumr 0 n (fun l => if (l =? j)%nat then 0 else qget A j l).
Proof.
  intros Hj. pose proof (bal_all ex 0 ltac:(lia) j ltac:(lia)) as H. unfold bal in H.
  rewrite Nat.sub_0_r in H. exact H.
Qed.

End Censor.

(* C02 proofs, part 5: MarkovChain.stationary_distributions over Q. One row per
   recurrent class (classes from the C03 specification model); every row is a
   probability vector, invariant under P and zero outside its class. *)
From Coq Require Import ZArith QArith List Bool Arith Lia Lqa.
From QE Require Import Base.Num C03.Model C03.Proofs1 C02.Model C02.Proofs1 C02.Proofs2 C02.Proofs3 C02.Proofs4.
Import ListNotations.
Open Scope Q_scope.

(* ------------------------------------------------------------- list sums *)
Lemma sumr_qsum_map f len : forall a, sumr a len f == qsum (map f (seq a len)).
Proof. induction len as [|l IH]; intros a; simpl; [reflexivity|]. rewrite IH. reflexivity. Qed.

Lemma qsum_map_filter (F : nat -> Q) (phi : nat -> bool) l :
  (forall j, In j l -> phi j = false -> F j == 0) ->
  qsum (map F l) == qsum (map F (filter phi l)).
Proof.
  induction l as [|x l IH]; intros H; simpl; [reflexivity|].
  rewrite IH by (intros j Hj; apply H; right; exact Hj).
  destruct (phi x) eqn:E; simpl; [reflexivity|]. rewrite (H x (or_introl eq_refl) E). ring.
Qed.

Lemma qsum_map_nth (F : nat -> Q) c : qsum (map F c) == sumr 0 (length c) (fun p => F (nth p c 0%nat)).
Proof.
  rewrite qsum_nth, map_length. apply sumr_ext. intros p Hp.
  rewrite (nth_indep (map F c) 0 (F 0%nat)) by (rewrite map_length; lia). rewrite map_nth. reflexivity.
Qed.

Lemma qsum_map_ext (F G : nat -> Q) l : (forall j, In j l -> F j == G j) -> qsum (map F l) == qsum (map G l).
Proof.
  induction l as [|x l IH]; intros H; simpl; [reflexivity|].
  rewrite (H x (or_introl eq_refl)), IH by (intros j Hj; apply H; right; exact Hj). reflexivity.
Qed.

(* ------------------------------------------------------------- index_of / scatter *)
Lemma index_of_nth c : NoDup c -> forall s p, (p < length c)%nat -> index_of (nth p c 0%nat) c s = Some (s + p)%nat.
Proof.
  induction 1 as [|x c Hx Hnd IH]; intros s p Hp; [simpl in Hp; lia|].
  destruct p as [|p]; simpl.
  - rewrite Nat.eqb_refl. f_equal. lia.
  - simpl in Hp. assert ((x =? nth p c 0)%nat = false) as ->.
    { apply Nat.eqb_neq. intros ->. apply Hx. apply nth_In. lia. }
    rewrite IH by lia. f_equal. lia.
Qed.

Lemma index_of_none c j : ~ In j c -> forall s, index_of j c s = None.
Proof.
  induction c as [|x c IH]; intros H s; simpl; [reflexivity|].
  assert ((x =? j)%nat = false) as -> by (apply Nat.eqb_neq; intros ->; apply H; left; reflexivity).
  apply IH. intros Hin; apply H; right; exact Hin.
Qed.

Definition scat (c : list nat) (xs : list Q) (j : nat) : Q :=
  match index_of j c 0 with Some p => nth p xs 0 | None => 0 end.

Lemma scatter_nth n c xs j : (j < n)%nat -> nth j (@scatter Q NumQ n c xs) 0 = scat c xs j.
Proof. intros Hj. unfold scatter. apply (nth_map_seq (fun j => scat c xs j) n j 0 Hj). Qed.

(* re-indexing: a sum over all states weighted by the scattered vector is a sum over the class *)
Lemma scatter_sum n (phi : nat -> bool) xs (h : nat -> Q) :
  let c := filter phi (seq 0 n) in
  sumr 0 n (fun j => nth j (@scatter Q NumQ n c xs) 0 * h j) ==
  sumr 0 (length c) (fun p => nth p xs 0 * h (nth p c 0%nat)).
Proof.
  intros c.
  assert (Hnd : NoDup c) by (apply NoDup_filter, seq_NoDup).
  rewrite (sumr_ext 0 n _ (fun j => scat c xs j * h j)) by (intros j Hj; rewrite scatter_nth by lia; reflexivity).
  rewrite sumr_qsum_map.
  rewrite (qsum_map_filter _ phi).
  2:{ intros j Hj Hphi. unfold scat. rewrite index_of_none; [ring|].
      unfold c. rewrite filter_In. intros [_ H]. congruence. }
  fold c. rewrite qsum_map_nth. apply sumr_ext. intros p Hp.
  unfold scat. rewrite (index_of_nth c Hnd 0 p) by lia. reflexivity.
Qed.

Lemma scatter_sum' n (phi : nat -> bool) c xs (h : nat -> Q) : c = filter phi (seq 0 n) ->
  sumr 0 n (fun j => nth j (@scatter Q NumQ n c xs) 0 * h j) ==
  sumr 0 (length c) (fun p => nth p xs 0 * h (nth p c 0%nat)).
Proof. intros ->. apply scatter_sum. Qed.

Lemma class_sum n (phi : nat -> bool) c (g : nat -> Q) : c = filter phi (seq 0 n) ->
  (forall j, (j < n)%nat -> ~ In j c -> g j == 0) ->
  sumr 0 (length c) (fun q => g (nth q c 0%nat)) == sumr 0 n g.
Proof.
  intros -> Hg. rewrite <- qsum_map_nth.
  rewrite <- (qsum_map_filter g phi (seq 0 n)); [symmetry; apply sumr_qsum_map|].
  intros j Hj Hphi. apply Hg; [apply in_seq in Hj; lia|]. rewrite filter_In. intros [_ H]. congruence.
Qed.

Lemma nth_map_gen {X Y} (f : X -> Y) l i d d' : (i < length l)%nat -> nth i (map f l) d = f (nth i l d').
Proof. revert i; induction l as [|x l IH]; intros [|i] H; simpl in *; try lia; auto. apply IH; lia. Qed.

Lemma qget_submat A c p q : (p < length c)%nat -> (q < length c)%nat ->
  qget (@submat Q NumQ A c) p q = qget A (nth p c 0%nat) (nth q c 0%nat).
Proof.
  intros Hp Hq. unfold qget. unfold mget at 1. unfold submat.
  rewrite (nth_map_gen (fun i => map (fun j => @mget Q NumQ A i j) c) c p [] 0%nat Hp).
  rewrite (nth_map_gen (fun j => @mget Q NumQ A (nth p c 0%nat) j) c q nzero 0%nat Hq). reflexivity.
Qed.

(* ------------------------------------------------------------- rows of stationary_distributions *)
Section Stationary.
Variable n : nat.
Variable P : qmat.
Hypothesis Hn : (1 <= n)%nat.
Hypothesis Hnonneg : forall i j, (i < n)%nat -> (j < n)%nat -> 0 <= qget P i j.
Hypothesis Hrows : forall i, (i < n)%nat -> sumr 0 n (fun l => qget P i l) == 1.

Notation e := (@pos_edge Q NumQ P).

Definition good_row (r : list Q) (c : list nat) : Prop :=
  length r = n /\ Forall (fun v => 0 <= v) r /\ qsum r == 1 /\
  (forall j, (j < n)%nat -> sumr 0 n (fun i => nth i r 0 * qget P i j) == nth j r 0) /\
  (forall i, (i < n)%nat -> ~ In i c -> nth i r 0 == 0).

Lemma not_edge_zero i j : (i < n)%nat -> (j < n)%nat -> e i j = false -> qget P i j == 0.
Proof.
  intros Hi Hj He. unfold pos_edge in He. simpl in He. unfold Qltb in He.
  apply negb_false_iff in He. apply Qle_bool_iff in He. pose proof (Hnonneg i j Hi Hj). unfold qget in *. lra.
Qed.

Lemma offnn_P : offnn n P.
Proof. intros i j Hi Hj _. apply Hnonneg; assumption. Qed.

(* a closed class: the scattered gth vector of the sub-matrix is a good row *)
Lemma class_row c : In c (sink_spec n e) -> good_row (@scatter Q NumQ n c (gthQ (length c) (@submat Q NumQ P c))) c.
Proof.
  intros Hc. apply sink_spec_correct in Hc. destruct Hc as [Hcl Hclosed].
  destruct (classes_members n e c Hcl) as [Hne Hlt].
  unfold scc_spec in Hcl. apply in_classes in Hcl. destruct Hcl as [r [Hr [_ Hceq]]].
  set (phi := mutual (closure n e) r). assert (Hcf : c = filter phi (seq 0 n)) by exact Hceq.
  set (k := length c). assert (Hk : (1 <= k)%nat) by (unfold k; destruct c; [congruence | simpl; lia]).
  set (B := @submat Q NumQ P c).
  assert (Hcp : forall p, (p < k)%nat -> (nth p c 0 < n)%nat) by (intros p Hp; apply Hlt, nth_In; exact Hp).
  assert (Hout : forall p j, (p < k)%nat -> (j < n)%nat -> ~ In j c -> qget P (nth p c 0%nat) j == 0).
  { intros p j Hp Hj Hnin. apply not_edge_zero; [apply Hcp; exact Hp | exact Hj|].
    destruct (e (nth p c 0%nat) j) eqn:He; [|reflexivity]. exfalso. apply Hnin.
    apply (Hclosed (nth p c 0%nat) j); [apply nth_In; exact Hp | exact Hj | exact He]. }
  assert (HB : offnn k B).
  { intros p q Hp Hq _. unfold B. rewrite qget_submat by assumption. apply Hnonneg; apply Hcp; assumption. }
  (* sums over the class = sums over all states, for functions vanishing outside the class *)
  assert (Hsum : forall (g : nat -> Q), (forall j, (j < n)%nat -> ~ In j c -> g j == 0) ->
            sumr 0 k (fun q => g (nth q c 0%nat)) == sumr 0 n g).
  { intros g Hg. unfold k. apply (class_sum n phi c g Hcf Hg). }
  assert (HBrows : forall p, (p < k)%nat -> sumr 0 k (fun q => qget B p q) == 1).
  { intros p Hp. rewrite (sumr_ext 0 k _ (fun q => qget P (nth p c 0%nat) (nth q c 0%nat)))
      by (intros q Hq; unfold B; rewrite qget_submat by (fold k; lia); reflexivity).
    rewrite (Hsum (fun j => qget P (nth p c 0%nat) j)) by (intros j Hj Hnin; apply Hout; assumption).
    apply Hrows. apply Hcp; exact Hp. }
  destruct (gth_correct k B Hk HB) as [GL [Gnn [Gsum _]]].
  pose proof (fun q Hq => gth_row_sums k B 1 Hk HB HBrows q Hq) as Ginv.
  set (x := gthQ k B) in *.
  unfold good_row. split; [unfold scatter; rewrite map_length, seq_length; reflexivity|]. split; [|split; [|split]].
  - unfold scatter. rewrite Forall_forall. intros v Hv. apply in_map_iff in Hv. destruct Hv as [j [<- _]].
    change (0 <= scat c x j). unfold scat.
    destruct (index_of j c 0) as [p0|]; [|lra].
    rewrite Forall_forall in Gnn. destruct (nth_in_or_default p0 x 0) as [Hin | ->]; [apply Gnn; exact Hin | lra].
  - rewrite qsum_nth. unfold scatter at 1. rewrite map_length, seq_length.
    rewrite (sumr_ext 0 n _ (fun j => nth j (@scatter Q NumQ n c x) 0 * 1)) by (intros; ring).
    rewrite (scatter_sum' n phi c x (fun _ => 1) Hcf). fold k.
    rewrite (sumr_ext 0 k _ (fun p => nth p x 0)) by (intros; ring).
    rewrite <- GL. rewrite <- qsum_nth. exact Gsum.
  - intros j Hj.
    rewrite (scatter_sum' n phi c x (fun i => qget P i j) Hcf). fold k.
    rewrite scatter_nth by exact Hj. unfold scat.
    destruct (in_dec Nat.eq_dec j c) as [Hin | Hnin].
    + destruct (In_nth c j 0%nat Hin) as [q [Hq Hqj]]. fold k in Hq. subst j.
      rewrite (index_of_nth c ltac:(rewrite Hcf; apply NoDup_filter, seq_NoDup) 0 q Hq).
      change (0 + q)%nat with q.
      rewrite (sumr_ext 0 k _ (fun i => nth i x 0 * qget B i q)).
      2:{ intros p Hp. unfold B. rewrite qget_submat by (fold k; lia). reflexivity. }
      rewrite (Ginv q Hq). ring.
    + rewrite index_of_none by exact Hnin.
      apply sumr_zero. intros p Hp. rewrite Hout by (assumption || lia). ring.
  - intros i Hi Hnin. rewrite scatter_nth by exact Hi. unfold scat. rewrite index_of_none by exact Hnin. reflexivity.
Qed.

(* one class: it contains every state and is therefore closed *)
Lemma one_class_sink : length (scc_spec n e) = 1%nat -> sink_spec n e = scc_spec n e /\
  forall c, In c (scc_spec n e) -> forall i, (i < n)%nat -> In i c.
Proof.
  intros H1. destruct (scc_spec n e) as [|c0 [|c1 l]] eqn:Ecl; try discriminate.
  assert (Hall : forall i, (i < n)%nat -> In i c0).
  { intros i Hi. destruct (classes_cover n e i Hi) as [c [Hc Hic]]. fold (scc_spec n e) in Hc.
    rewrite Ecl in Hc. destruct Hc as [<- | []]. exact Hic. }
  split.
  - unfold sink_spec. rewrite Ecl. simpl.
    assert (is_sink n e c0 = true) as ->; [|reflexivity].
    apply is_sink_spec. intros u v _ Hv _. apply Hall; exact Hv.
  - intros c [<- | []]. exact Hall.
Qed.

Theorem stationary_rows :
  length (stationaryQ n P) = length (sink_spec n e) /\
  forall r, In r (stationaryQ n P) -> exists c, In c (sink_spec n e) /\ good_row r c.
Proof.
  unfold stationaryQ, stationary_distributions. fold e.
  destruct (length (scc_spec n e) =? 1)%nat eqn:E1.
  - apply Nat.eqb_eq in E1. destruct (one_class_sink E1) as [Hs Hall]. rewrite Hs, E1. split; [reflexivity|].
    intros r [<- | []]. destruct (scc_spec n e) as [|c0 [|c1 l]] eqn:Ecl; try discriminate.
    exists c0. split; [left; reflexivity|].
    destruct (gth_correct n P Hn offnn_P) as [GL [Gnn [Gsum _]]].
    unfold good_row. split; [exact GL|]. split; [exact Gnn|]. split; [exact Gsum|]. split.
    + intros j Hj. change (@gth Q NumQ n P) with (gthQ n P). rewrite (gth_row_sums n P 1 Hn offnn_P Hrows j Hj). ring.
    + intros i Hi Hnin. exfalso. apply Hnin. apply (Hall c0 (or_introl eq_refl) i Hi).
  - split; [rewrite map_length; reflexivity|].
    intros r Hr. apply in_map_iff in Hr. destruct Hr as [c [<- Hc]].
    exists c. split; [exact Hc | apply class_row; exact Hc].
Qed.

End Stationary.

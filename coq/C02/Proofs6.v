(* C02 proofs, part 6: irreducible input => no early exit and every component
   of gth is strictly positive (censoring preserves strong connectivity);
   consequently each row of stationary_distributions is supported exactly on
   its recurrent class. *)
From Coq Require Import ZArith QArith List Bool Arith Lia Lqa Relations.
From QE Require Import Base.Num C03.Model C03.Proofs1 C02.Model C02.Proofs1 C02.Proofs2 C02.Proofs3 C02.Proofs4 C02.Proofs5.
Import ListNotations.
Open Scope Q_scope.

Section Irreducible.
Variable n : nat.
Variable A : qmat.
Hypothesis Hnn : offnn n A.

Notation M := (Mseq n A).
Notation sc := (scale n A).

(* positive off-diagonal entries of the censored matrix on the states k..n-1 *)
Definition Ek (k i j : nat) : Prop :=
  (k <= i < n)%nat /\ (k <= j < n)%nat /\ i <> j /\ 0 < qget (M k) i j.
Definition SCk (k : nat) : Prop :=
  forall i j, (k <= i < n)%nat -> (k <= j < n)%nat -> clos_refl_trans nat (Ek k) i j.

(* one censoring step keeps every connection between the remaining states *)
Lemma censor_path k : (forall k', (k' < S k)%nat -> @nleb Q NumQ (sc k') 0 = false) -> (S k < n)%nat ->
  forall x j, clos_refl_trans_1n nat (Ek k) x j -> j <> k ->
    (x <> k -> clos_refl_trans nat (Ek (S k)) x j) /\
    (x = k -> forall a, (k < a < n)%nat -> 0 < qget (M k) a k -> clos_refl_trans nat (Ek (S k)) a j).
Proof.
  intros Hpos Hk.
  pose proof (scale_pos n A (S k) Hpos k ltac:(lia)) as Hs.
  pose proof (Mseq_offnn n A Hnn (S k) Hpos k ltac:(lia) ltac:(lia)) as Hoff.
  assert (Hnew : forall a y, (k < a < n)%nat -> (k < y < n)%nat -> a <> y ->
            0 < qget (M k) a y \/ (0 < qget (M k) a k /\ 0 < qget (M k) k y) -> Ek (S k) a y).
  { intros a y Ha Hy Hay Hor. unfold Ek. split; [lia|]. split; [lia|]. split; [exact Hay|].
    rewrite (Mseq_S_entry n A k a y) by lia.
    pose proof (Hoff a y ltac:(lia) ltac:(lia) Hay) as H1.
    pose proof (Hoff a k ltac:(lia) ltac:(lia) ltac:(lia)) as H2.
    pose proof (Hoff k y ltac:(lia) ltac:(lia) ltac:(lia)) as H3.
    pose proof (Qdiv_nonneg _ _ H2 Hs) as H4.
    pose proof (Qmult_le_0_compat _ _ H4 H3) as H5.
    destruct Hor as [Hp | [Hp1 Hp2]]; [lra|].
    assert (0 < qget (M k) a k / sc k) as H6 by (apply Qlt_shift_div_l; [exact Hs | lra]).
    pose proof (Qmult_lt_0_compat _ _ H6 Hp2). lra. }
  intros x j Hpath Hj. induction Hpath as [x | x y z Hxy Hyz IH].
  - split; [intros _; apply rt_refl | intros ->; congruence].
  - specialize (IH Hj). destruct IH as [IHne IHeq].
    destruct Hxy as [Hx [Hy [Hne Hpos_xy]]]. split.
    + intros Hxk. destruct (Nat.eq_dec y k) as [-> | Hyk].
      * apply (IHeq eq_refl x); [lia | exact Hpos_xy].
      * apply rt_trans with (y := y); [apply rt_step; apply Hnew; [lia | lia | exact Hne | left; exact Hpos_xy] | apply IHne; exact Hyk].
    + intros -> a Ha Hak. assert (Hyk : y <> k) by (intros ->; congruence).
      destruct (Nat.eq_dec a y) as [-> | Hay]; [apply IHne; exact Hyk|].
      apply rt_trans with (y := y); [apply rt_step; apply Hnew; [lia | lia | exact Hay | right; split; assumption] | apply IHne; exact Hyk].
Qed.

Lemma out_edge k : SCk k -> (S k < n)%nat -> exists y, (k < y < n)%nat /\ 0 < qget (M k) k y.
Proof.
  intros Hsc Hk. pose proof (Hsc k (S k) ltac:(lia) ltac:(lia)) as Hp. apply clos_rt_rt1n_iff in Hp.
  inversion Hp as [| y z [_ [Hy [Hne Hpos]]] _]; subst; [lia|]. exists y. split; [lia | exact Hpos].
Qed.

Lemma in_edge k : SCk k -> (S k < n)%nat -> exists y, (k < y < n)%nat /\ 0 < qget (M k) y k.
Proof.
  intros Hsc Hk. pose proof (Hsc (S k) k ltac:(lia) ltac:(lia)) as Hp. apply clos_rt_rtn1_iff in Hp.
  inversion Hp as [| y z [Hy [_ [Hne Hpos]]] _]; subst; [lia|]. exists y. split; [lia | exact Hpos].
Qed.

Hypothesis Hsc0 : SCk 0.

Lemma no_exit k : (k <= n - 1)%nat -> (forall k', (k' < k)%nat -> @nleb Q NumQ (sc k') 0 = false) /\ SCk k.
Proof.
  induction k as [|k IH]; intros Hk; [split; [intros k' Hk'; lia | exact Hsc0]|].
  destruct (IH ltac:(lia)) as [Hpos Hsck].
  assert (Hposk : forall k', (k' < S k)%nat -> @nleb Q NumQ (sc k') 0 = false).
  { intros k' Hk'. assert (k' < k \/ k' = k)%nat as [Hlt | ->] by lia; [apply Hpos; exact Hlt|].
    destruct (out_edge k Hsck ltac:(lia)) as [y [Hy Hpy]].
    pose proof (Mseq_offnn n A Hnn k Hpos k ltac:(lia) (le_n k)) as Hoff.
    assert (Hterms : forall i, (S k <= i < S k + (n - S k))%nat -> 0 <= qget (M k) k i) by (intros i Hi; apply Hoff; lia).
    pose proof (sumr_ge_term (S k) (n - S k) (fun j => qget (M k) k j) y Hterms ltac:(lia)) as Hge.
    simpl in Hge. unfold scale. simpl. destruct (Qle_bool _ 0) eqn:E; [|reflexivity].
    apply Qle_bool_iff in E. rewrite row_scale_sumr in E. lra. }
  split; [exact Hposk|].
  intros i j Hi Hj.
  pose proof (Hsck i j ltac:(lia) ltac:(lia)) as Hp. apply clos_rt_rt1n_iff in Hp.
  destruct (censor_path k Hposk ltac:(lia) i j Hp ltac:(lia)) as [H _]. apply H. lia.
Qed.

End Irreducible.


Lemma clos_rt_mono {X} (R R' : X -> X -> Prop) :
  (forall a b, R a b -> R' a b) -> forall x y, clos_refl_trans X R x y -> clos_refl_trans X R' x y.
Proof.
  intros H x y Hp. induction Hp as [x y Hxy | x | x y z _ IH1 _ IH2].
  - apply rt_step, H, Hxy.
  - apply rt_refl.
  - eapply rt_trans; eassumption.
Qed.

(* positive off-diagonal entry between two of the n states *)
Definition pos_rel (n : nat) (A : qmat) (a b : nat) : Prop :=
  (a < n)%nat /\ (b < n)%nat /\ a <> b /\ 0 < qget A a b.

Theorem gth_pos_irreducible n A : (1 <= n)%nat -> offnn n A ->
  (forall i j, (i < n)%nat -> (j < n)%nat -> clos_refl_trans nat (pos_rel n A) i j) ->
  forall i, (i < n)%nat -> 0 < nth i (gthQ n A) 0.
Proof.
  intros Hn Hnn Hsc.
  assert (Hsc0 : SCk n A 0).
  { intros i j Hi Hj. apply (clos_rt_mono (pos_rel n A)); [|apply Hsc; lia].
    intros a b [Ha [Hb [Hne Hp]]]. unfold Ek. simpl Mseq. repeat split; try lia; assumption. }
  destruct (gth_unfold n A Hn Hnn) as [ex [X [Hex [Hpos [Hexit [HL [Hxe [Hrec [Hnnx HG]]]]]]]]].
  assert (Hexn : ex = (n - 1)%nat).
  { destruct (Nat.eq_dec ex (n - 1)) as [E | NE]; [exact E|]. exfalso.
    pose proof (Hexit ltac:(lia)) as Ht.
    destruct (no_exit n A Hnn Hsc0 (S ex) ltac:(lia)) as [Hp _].
    rewrite (Hp ex ltac:(lia)) in Ht. discriminate. }
  subst ex.
  assert (Hoff : offnn n (Mseq n A (n - 1))) by (apply (Mseq_offnn n A Hnn (n - 1) Hpos (n - 1)); lia).
  assert (HX0 : forall i, 0 <= nth i X 0).
  { intros i. rewrite Forall_forall in Hnnx. destruct (nth_in_or_default i X 0) as [Hin | ->]; [apply Hnnx; exact Hin | lra]. }
  assert (HXpos : forall d j, (j + d = n - 1)%nat -> 0 < nth j X 0).
  { induction d as [d IH] using lt_wf_ind. intros j Hj.
    destruct (Nat.eq_dec j (n - 1)) as [-> | Hne]; [rewrite Hxe; lra|].
    assert (Hjlt : (j < n - 1)%nat) by lia.
    rewrite (Hrec j Hjlt).
    destruct (no_exit n A Hnn Hsc0 (S j) ltac:(lia)) as [Hpj _].
    destruct (no_exit n A Hnn Hsc0 j ltac:(lia)) as [_ Hscj].
    destruct (in_edge n A j Hscj ltac:(lia)) as [y [Hy Hpy]].
    pose proof (scale_pos n A (S j) Hpj j ltac:(lia)) as Hs.
    assert (Hterm : forall i, (S j <= i < S j + (S (n - 1) - S j))%nat ->
               0 <= nth i X 0 * qget (Mseq n A (n - 1)) i j).
    { intros i Hi. apply Qmult_le_0_compat; [apply HX0 | apply Hoff; lia]. }
    pose proof (sumr_ge_term (S j) (S (n - 1) - S j) (fun i => nth i X 0 * qget (Mseq n A (n - 1)) i j) y Hterm ltac:(lia)) as Hge.
    cbv beta in Hge.
    assert (0 < nth y X 0 * qget (Mseq n A (n - 1)) y j); [|lra].
    apply Qmult_lt_0_compat; [apply (IH (n - 1 - y)%nat); lia|].
    rewrite (Mseq_frozen n A j (n - 1) ltac:(lia) y ltac:(lia) ltac:(lia)).
    rewrite (Mseq_S_col n A j y ltac:(lia) ltac:(lia) ltac:(lia)).
    apply Qlt_shift_div_l; [exact Hs | lra]. }
  intros i Hi. rewrite HG.
  set (norm := @nsum Q NumQ (X ++ repeat 0 (n - S (n - 1)))).
  assert (Hnorm : norm == qsum X) by (unfold norm; rewrite nsum_qsum, qsum_app, qsum_repeat0; ring).
  assert (Hnorm1 : 1 <= norm).
  { rewrite Hnorm, qsum_nth, HL.
    pose proof (sumr_ge_term 0 (S (n - 1)) (fun i => nth i X 0) (n - 1)%nat ltac:(intros; apply HX0) ltac:(lia)) as Hge.
    cbv beta in Hge. rewrite Hxe in Hge. exact Hge. }
  rewrite app_nth1 by (rewrite map_length; lia). rewrite nth_map_Q by lia. rewrite Qdivr_eq.
  apply Qlt_shift_div_l; [lra|]. pose proof (HXpos (n - 1 - i)%nat i ltac:(lia)). lra.
Qed.

(* ------------------------------------------------------------- exact support of the rows *)
Section Support.
Variable n : nat.
Variable P : qmat.
Hypothesis Hn : (1 <= n)%nat.
Hypothesis Hnonneg : forall i j, (i < n)%nat -> (j < n)%nat -> 0 <= qget P i j.
Hypothesis Hrows : forall i, (i < n)%nat -> sumr 0 n (fun l => qget P i l) == 1.

Notation e := (@pos_edge Q NumQ P).

Lemma edge_pos i j : e i j = true -> 0 < qget P i j.
Proof. unfold pos_edge. simpl. intros H. apply Qltb_lt in H. exact H. Qed.

(* inside a closed communication class the sub-matrix is irreducible *)
Lemma class_irreducible c : In c (sink_spec n e) ->
  forall p q, (p < length c)%nat -> (q < length c)%nat ->
    clos_refl_trans nat (pos_rel (length c) (@submat Q NumQ P c)) p q.
Proof.
  intros Hc. apply sink_spec_correct in Hc. destruct Hc as [Hcl Hclosed].
  assert (Hnd : NoDup c).
  { unfold scc_spec in Hcl. apply in_classes in Hcl. destruct Hcl as [r [_ [_ ->]]]. apply NoDup_filter, seq_NoDup. }
  assert (Hinj : forall a b, (a < length c)%nat -> (b < length c)%nat -> nth a c 0%nat = nth b c 0%nat -> a = b).
  { intros a b Ha Hb. apply (proj1 (NoDup_nth c 0%nat) Hnd a b Ha Hb). }
  assert (Hwalk : forall u w, clos_refl_trans_1n nat (E n e) u w ->
            forall a, (a < length c)%nat -> u = nth a c 0%nat ->
            forall b, (b < length c)%nat -> w = nth b c 0%nat ->
            clos_refl_trans nat (pos_rel (length c) (@submat Q NumQ P c)) a b).
  { intros u w Hp. induction Hp as [u | u v w [Hu [Hv He]] _ IH]; intros a Ha Hua b Hb Hwb.
    - rewrite (Hinj a b Ha Hb) by congruence. apply rt_refl.
    - assert (Hvin : In v c) by (apply (Hclosed u v); [rewrite Hua; apply nth_In; exact Ha | exact Hv | exact He]).
      destruct (In_nth c v 0%nat Hvin) as [a' [Ha' Hva']].
      destruct (Nat.eq_dec a a') as [-> | Hne]; [apply (IH a' Ha' (eq_sym Hva') b Hb Hwb)|].
      apply rt_trans with (y := a'); [|apply (IH a' Ha' (eq_sym Hva') b Hb Hwb)].
      apply rt_step. unfold pos_rel. split; [exact Ha|]. split; [exact Ha'|]. split; [exact Hne|].
      rewrite qget_submat by assumption. rewrite <- Hua, Hva'. apply edge_pos. exact He. }
  intros p q Hp Hq.
  assert (Hcomm : comm n e (nth p c 0%nat) (nth q c 0%nat)).
  { apply (classes_equiv n e c (nth p c 0%nat) (nth q c 0%nat) Hcl); [apply nth_In; exact Hp | apply nth_In; exact Hq]. }
  destruct Hcomm as [Hr _]. apply clos_rt_rt1n_iff in Hr.
  apply (Hwalk _ _ Hr p Hp eq_refl q Hq eq_refl).
Qed.

Lemma reach_pos_rel u w : reach n e u w -> clos_refl_trans nat (pos_rel n P) u w.
Proof.
  intros Hr. apply clos_rt_rt1n_iff in Hr. induction Hr as [u | u v w [Hu [Hv He]] _ IH]; [apply rt_refl|].
  destruct (Nat.eq_dec u v) as [-> | Hne]; [exact IH|].
  apply rt_trans with (y := v); [|exact IH]. apply rt_step. unfold pos_rel. repeat split; try assumption.
  apply edge_pos; exact He.
Qed.

Theorem stationary_rows_support :
  forall r, In r (stationaryQ n P) -> exists c, In c (sink_spec n e) /\ good_row n P r c /\
    forall i, (i < n)%nat -> (0 < nth i r 0 <-> In i c).
Proof.
  intros r Hr. pose proof Hr as Hr'.
  destruct (stationary_rows n P Hn Hnonneg Hrows) as [_ Hrowsok].
  unfold stationaryQ, stationary_distributions in Hr. fold e in Hr.
  destruct (length (scc_spec n e) =? 1)%nat eqn:E1.
  - apply Nat.eqb_eq in E1. destruct (one_class_sink n P E1) as [Hs Hall].
    destruct Hr as [<- | []].
    destruct (Hrowsok _ Hr') as [c [Hc Hgood]].
    exists c. split; [exact Hc|]. split; [exact Hgood|].
    assert (Hcl : In c (scc_spec n e)) by (rewrite <- Hs; exact Hc).
    intros i Hi. split; [intros _; apply (Hall c Hcl i Hi)|]. intros _.
    change (@gth Q NumQ n P) with (gthQ n P).
    apply gth_pos_irreducible; [exact Hn | apply (offnn_P n P Hnonneg) | | exact Hi].
    intros a b Ha Hb. apply reach_pos_rel.
    pose proof (classes_equiv n e c a b Hcl (Hall c Hcl a Ha)) as Heq.
    destruct (proj1 Heq (Hall c Hcl b Hb)) as [_ [Hab _]]. exact Hab.
  - apply in_map_iff in Hr. destruct Hr as [c [<- Hc]]. exists c. split; [exact Hc|].
    split; [apply (class_row n P Hn Hnonneg Hrows c Hc)|].
    pose proof Hc as Hc2. apply sink_spec_correct in Hc2. destruct Hc2 as [Hcl _].
    destruct (classes_members n e c Hcl) as [Hne Hlt].
    assert (Hnd : NoDup c).
    { unfold scc_spec in Hcl. apply in_classes in Hcl. destruct Hcl as [rr [_ [_ ->]]]. apply NoDup_filter, seq_NoDup. }
    assert (Hk : (1 <= length c)%nat) by (destruct c; [congruence | simpl; lia]).
    assert (HB : offnn (length c) (@submat Q NumQ P c)).
    { intros p q Hp Hq _. rewrite qget_submat by assumption. apply Hnonneg; apply Hlt, nth_In; assumption. }
    pose proof (gth_pos_irreducible (length c) (@submat Q NumQ P c) Hk HB (class_irreducible c Hc)) as Hposx.
    intros i Hi. rewrite scatter_nth by exact Hi. unfold scat.
    destruct (in_dec Nat.eq_dec i c) as [Hin | Hnin].
    + destruct (In_nth c i 0%nat Hin) as [p [Hp Hpi]]. subst i.
      rewrite (index_of_nth c Hnd 0 p Hp). change (0 + p)%nat with p.
      split; [intros _; exact Hin | intros _; apply Hposx; exact Hp].
    + rewrite index_of_none by exact Hnin. split; [intros H; exfalso; apply (Qlt_irrefl 0 H) | intros H; contradiction].
Qed.

End Support.

From Coq Require Import ZArith QArith List Bool Arith Lia.
From QE Require Import Base.Num C02.Model.
Import ListNotations.

(* C02 proofs: Proofs1 (sums over Q, elimination step, no-subtraction invariant), Proofs2 (reduction as a matrix
   sequence, back-substitution recurrence), Proofs3 (censoring induction), Proofs4 (gth over Q: final theorems),
   Proofs5 (rows of MarkovChain.stationary_distributions),
   Proofs6 (irreducible => strictly positive; exact support of the rows),
   Proofs7 (support of gth for reducible input = one recurrent class), Proofs8 (no-cancellation for every Num instance). *)
From QE Require Export C02.Proofs1 C02.Proofs2 C02.Proofs3 C02.Proofs4 C02.Proofs5 C02.Proofs6 C02.Proofs7 C02.Proofs8.

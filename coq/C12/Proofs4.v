(* C12 lemmas, part 4: after ANY observation record the Kalman recursion equals Gaussian conditioning
   on the joint law (sequential = batch), by the orthogonality argument:
   the recursion's estimate is  A^t xh0 + sum_s K_s (y_s - E y_s)  with gains K_s satisfying the normal
   equations  sum_s K_s Cov(y_s, y_r) = Cov(x_t, y_r),  and its covariance is Var x_t - sum_s K_s Cov(y_s, x_t). *)
From Coq Require Import ZArith QArith List Bool Lia Lqa Setoid Morphisms.
From QE Require Import Base.Num Base.LinAlg Base.Gauss C12.Model C12.Proofs C12.Proofs3.
Import ListNotations.
Local Open Scope nat_scope.
Local Open Scope Q_scope.

(* ---------------- sums over blocks *)
Lemma sumQ_split a b f : sumQ (a + b) f == sumQ a f + sumQ b (fun i => f (a + i)%nat).
Proof.
  induction b.
  - rewrite Nat.add_0_r. simpl. ring.
  - rewrite Nat.add_succ_r. simpl. rewrite IHb. ring.
Qed.

Lemma sumQ_blocks t k f : sumQ (t * k) f == sumQ t (fun s => sumQ k (fun a => f (s * k + a)%nat)).
Proof.
  induction t.
  - reflexivity.
  - replace (S t * k)%nat with (t * k + k)%nat by lia. rewrite sumQ_split. simpl. now rewrite IHt.
Qed.

Lemma divmod_block k s a : (a < k)%nat -> ((s * k + a) / k = s /\ (s * k + a) mod k = a)%nat.
Proof.
  intros Ha. split.
  - rewrite Nat.add_comm, Nat.div_add by lia. rewrite Nat.div_small by lia. reflexivity.
  - rewrite Nat.add_comm, Nat.mod_add by lia. now apply Nat.mod_small.
Qed.

Lemma block_index k t i : (0 < k)%nat -> (i < t * k)%nat -> (i / k < t /\ i mod k < k)%nat.
Proof.
  intros Hk Hi. split.
  - apply Nat.div_lt_upper_bound; lia.
  - apply Nat.mod_upper_bound. lia.
Qed.

Lemma nth_map_seq {B} (f : nat -> B) t s d : (s < t)%nat -> nth s (map f (seq 0 t)) d = f s.
Proof.
  intros Hs. rewrite (nth_indep _ d (f 0%nat)) by (now rewrite map_length, seq_length).
  rewrite map_nth. now rewrite seq_nth.
Qed.

(* flat matrices made of blocks *)
Definition flat_cols (n k t : nat) (B : nat -> Qmat) : Qmat :=
  mk n (t * k) (fun i j => get (B (j / k)%nat) i (j mod k)).
Definition flat_rows (k c t : nat) (B : nat -> Qmat) : Qmat :=
  mk (t * k) c (fun i j => get (B (i / k)%nat) (i mod k) j).
Definition flat_sq (k t : nat) (B : nat -> nat -> Qmat) : Qmat :=
  mk (t * k) (t * k) (fun i j => get (B (i / k) (j / k))%nat (i mod k) (j mod k)).

Lemma get_flat_cols_sq n k t (K : nat -> Qmat) (S : nat -> nat -> Qmat) i j :
  (0 < k)%nat -> (i < n)%nat -> (j < t * k)%nat ->
  get (mmul n (t * k) (t * k) (flat_cols n k t K) (flat_sq k t S)) i j ==
  get (msum n k t (fun s => mmul n k k (K s) (S s (j / k)%nat))) i (j mod k).
Proof.
  intros Hk Hi Hj. destruct (block_index k t j Hk Hj) as [Hjb Hjm].
  rewrite get_mmul by assumption. rewrite sumQ_blocks.
  rewrite get_msum by assumption. apply sumQ_ext. intros s Hs.
  rewrite get_mmul by assumption. apply sumQ_ext. intros a Ha.
  assert (Hsa : (s * k + a < t * k)%nat) by nia.
  unfold flat_cols, flat_sq. rewrite !get_mk by assumption.
  destruct (divmod_block k s a Ha) as [-> ->]. reflexivity.
Qed.

Lemma get_flat_cols_rows n k c t (K : nat -> Qmat) (V : nat -> Qmat) i j :
  (0 < k)%nat -> (i < n)%nat -> (j < c)%nat ->
  get (mmul n (t * k) c (flat_cols n k t K) (flat_rows k c t V)) i j ==
  get (msum n c t (fun s => mmul n k c (K s) (V s))) i j.
Proof.
  intros Hk Hi Hj.
  rewrite get_mmul by assumption. rewrite sumQ_blocks.
  rewrite get_msum by assumption. apply sumQ_ext. intros s Hs.
  rewrite get_mmul by assumption. apply sumQ_ext. intros a Ha.
  assert (Hsa : (s * k + a < t * k)%nat) by nia.
  unfold flat_cols, flat_rows. rewrite !get_mk by assumption.
  destruct (divmod_block k s a Ha) as [-> ->]. reflexivity.
Qed.

(* ---------------- the four matrix identities of the inductive step (abstract matrices) *)
Ltac mdistr :=
  repeat (first [ rewrite mmul_msub_distr_l | rewrite mmul_msub_distr_r
                | rewrite mmul_madd_distr_l | rewrite mmul_madd_distr_r
                | rewrite mmul_id_l | rewrite mmul_id_r ]);
  rewrite ?mmul_assoc.

Section StepAlgebra.
Variables (n k : nat) (A M G Gt : Qmat).
Let X := msub n n (mid n) (mmul n k n M G).

(* normal equations, an old observation (r < t): c = Cov(x_t, x_r) *)
Lemma alg_r_lt (c : Qmat) :
  meq n k (madd n k (mmul n n k A (mmul n n k X (mmul n n k c Gt)))
                    (mmul n k k (mmul n n k A M) (mmul k n k (mmul k n n G c) Gt)))
          (mmul n n k (mmul n n n A c) Gt).
Proof. subst X. mdistr. intros i j Hi Hj. mat_entries. ring. Qed.

(* normal equations, the new observation (r = t): P = Var x_t, Sg = the recursion's covariance *)
Lemma alg_r_eq (P Sg R : Qmat) :
  meq n k (mmul n k k M (madd k k (mmul k n k (mmul k n n G Sg) Gt) R)) (mmul n n k Sg Gt) ->
  meq n k (madd n k (mmul n n k A (mmul n n k X (mmul n n k (msub n n P Sg) Gt)))
                    (mmul n k k (mmul n n k A M) (madd k k (mmul k n k (mmul k n n G P) Gt) R)))
          (mmul n n k (mmul n n n A P) Gt).
Proof.
  intros HMF.
  assert (Hkey : meq n k (madd n k (mmul n n k A (mmul n k k M (mmul k n k G (mmul n n k Sg Gt))))
                                   (mmul n n k A (mmul n k k M R)))
                         (mmul n n k A (mmul n n k Sg Gt))).
  { assert (H0 : meq n k (mmul n n k A (mmul n k k M (madd k k (mmul k n k (mmul k n n G Sg) Gt) R)))
                         (mmul n n k A (mmul n n k Sg Gt))) by now rewrite HMF.
    rewrite <- H0. mdistr. reflexivity. }
  subst X. mdistr. intros i j Hi Hj. specialize (Hkey i j Hi Hj).
  rewrite get_madd in Hkey by assumption. mat_entries. lra.
Qed.

(* covariance *)
Lemma alg_cov (P Sg Qm : Qmat) :
  meq n n (madd n n (mmul n n n A (mmul n n n (msub n n Sg (mmul n k n M (mmul k n n G Sg))) (mtr n n A))) Qm)
          (msub n n (madd n n (mmul n n n (mmul n n n A P) (mtr n n A)) Qm)
             (madd n n (mmul n n n A (mmul n n n X (mmul n n n (msub n n P Sg) (mtr n n A))))
                       (mmul n k n (mmul n n k A M) (mmul k n n G (mmul n n n P (mtr n n A)))))).
Proof. subst X. mdistr. intros i j Hi Hj. mat_entries. ring. Qed.

(* mean: a = E x_t *)
Lemma alg_mean (xh a y : Qmat) :
  meq n 1 (mmul n n 1 A (madd n 1 xh (mmul n k 1 M (msub k 1 y (mmul k n 1 G xh)))))
          (madd n 1 (mmul n n 1 A a)
             (madd n 1 (mmul n n 1 A (mmul n n 1 X (msub n 1 xh a)))
                       (mmul n k 1 (mmul n n k A M) (msub k 1 y (mmul k n 1 G a))))).
Proof. subst X. mdistr. intros i j Hi Hj. mat_entries. ring. Qed.
End StepAlgebra.

Section SeqBatch.
Variables (n m k l : nat) (A C G Hm xh0 S0 : Qmat).
Hypothesis Hk : (0 < k)%nat.
Hypothesis Hsym : msym n S0.
Let Qm := outer n m C.
Let R := outer k l Hm.
Let Gt := mtr k n G.

Definition pstep (P : Qmat) : Qmat := madd n n (mmul n n n (mmul n n n A P) (mtr n n A)) Qm.
Fixpoint Pvf (P : Qmat) (s : nat) : Qmat := match s with O => P | S s' => Pvf (pstep P) s' end.
Definition Pv (s : nat) : Qmat := Pvf S0 s.

Lemma Pvf_succ s : forall P, Pvf P (S s) = pstep (Pvf P s).
Proof. induction s; intros P; [reflexivity|]. simpl in *. now rewrite IHs. Qed.
Lemma Pv_succ s : Pv (S s) = pstep (Pv s).
Proof. apply Pvf_succ. Qed.

Lemma nth_pvars t : forall P s, (s <= t)%nat -> nthm (pvars n A Qm P t) s = Pvf P s.
Proof.
  induction t; intros P s Hs.
  - assert (s = 0%nat) by lia. subst. reflexivity.
  - destruct s; [reflexivity|]. simpl. unfold nthm in IHt. apply IHt. lia.
Qed.

Lemma nth_apows t s : (s <= t)%nat -> nthm (apows n A t) s = mpow n A s.
Proof. intros Hs. unfold nthm, apows. apply nth_map_seq. lia. Qed.

Lemma Pv_sym s : msym n (Pv s).
Proof.
  induction s.
  - exact Hsym.
  - rewrite Pv_succ. unfold pstep. apply msym_madd; [now apply msym_sandwich|apply msym_outer].
Qed.

(* Cov(x_s, x_r) *)
Definition cov (s r : nat) : Qmat :=
  if Nat.leb r s then mmul n n n (mpow n A (s - r)) (Pv r)
  else mmul n n n (Pv s) (mtr n n (mpow n A (r - s))).

Lemma cov_xx_eq t s r : (s <= t)%nat -> (r <= t)%nat ->
  cov_xx n (apows n A t) (pvars n A Qm S0 t) s r = cov s r.
Proof.
  intros Hs Hr. unfold cov_xx, cov.
  destruct (Nat.leb r s) eqn:E.
  - rewrite nth_apows by lia. now rewrite nth_pvars by lia.
  - rewrite nth_apows by lia. now rewrite nth_pvars by lia.
Qed.

Lemma cov_diag t : meq n n (cov t t) (Pv t).
Proof. unfold cov. rewrite Nat.leb_refl, Nat.sub_diag. simpl. apply mmul_id_l. Qed.

Lemma cov_succ t r : (r <= t)%nat -> meq n n (cov (S t) r) (mmul n n n A (cov t r)).
Proof.
  intros Hr. unfold cov.
  replace (Nat.leb r (S t)) with true by (symmetry; apply Nat.leb_le; lia).
  replace (Nat.leb r t) with true by (symmetry; apply Nat.leb_le; lia).
  replace (S t - r)%nat with (S (t - r)) by lia. simpl. now rewrite mmul_assoc.
Qed.

Lemma cov_tr s r : meq n n (mtr n n (cov s r)) (cov r s).
Proof.
  unfold cov. pose proof (Pv_sym r) as Hr. pose proof (Pv_sym s) as Hs. unfold msym in *.
  destruct (Nat.leb r s) eqn:E1; destruct (Nat.leb s r) eqn:E2.
  - apply Nat.leb_le in E1. apply Nat.leb_le in E2. assert (r = s) by lia. subst.
    rewrite Nat.sub_diag. simpl. rewrite mtr_mmul, mtr_mid, Hs. now rewrite mmul_id_l, mmul_id_r.
  - rewrite mtr_mmul, Hr. reflexivity.
  - rewrite mtr_mmul, mtr_mtr, Hs. reflexivity.
  - apply Nat.leb_gt in E1. apply Nat.leb_gt in E2. lia.
Qed.

(* blocks of the joint law *)
Definition Syyb (s r : nat) : Qmat :=
  let base := mmul k n k (mmul k n n G (cov s r)) Gt in
  if Nat.eqb s r then madd k k base R else base.
Definition Sxyb (t r : nat) : Qmat := mmul n n k (cov t r) Gt.
Definition myb (s : nat) : Qmat := mmul k n 1 G (mmul n n 1 (mpow n A s) xh0).

Lemma joint_law_blocks t mx my Sxx Sxy Syy :
  joint_law n m k l A C G Hm xh0 S0 t = (mx, my, Sxx, Sxy, Syy) ->
  mx = mmul n n 1 (mpow n A t) xh0 /\ Sxx = Pv t /\
  meq (t * k) 1 my (flat_rows k 1 t myb) /\
  meq n (t * k) Sxy (flat_cols n k t (Sxyb t)) /\
  meq (t * k) (t * k) Syy (flat_sq k t Syyb).
Proof.
  unfold joint_law. fold Qm R Gt. intros E. injection E as <- <- <- <- <-.
  split; [now rewrite nth_apows by lia|].
  split; [unfold Pv; now rewrite nth_pvars by lia|].
  split; [|split].
  - intros i j Hi Hj. destruct (block_index k t i Hk Hi) as [Hb Hm'].
    unfold flat_rows. rewrite !get_mk by assumption.
    unfold nthm at 1. rewrite nth_map_seq by assumption. rewrite nth_apows by lia.
    assert (j = 0%nat) by lia. subst j. reflexivity.
  - intros i j Hi Hj. destruct (block_index k t j Hk Hj) as [Hb Hm'].
    unfold flat_cols. rewrite !get_mk by assumption.
    unfold nthm at 1. rewrite nth_map_seq by assumption. rewrite cov_xx_eq by lia. reflexivity.
  - intros i j Hi Hj. destruct (block_index k t i Hk Hi) as [Hib Him].
    destruct (block_index k t j Hk Hj) as [Hjb Hjm].
    unfold flat_sq. rewrite !get_mk by assumption.
    rewrite nth_map_seq by assumption. unfold nthm at 1. rewrite nth_map_seq by assumption.
    rewrite cov_xx_eq by lia. reflexivity.
Qed.

(* ---------------- the invariant of the recursion *)
Definition inv (t : nat) (ys : list Qmat) (Kb : nat -> Qmat) (st : Qmat * Qmat) : Prop :=
  (forall r, (r < t)%nat -> meq n k (msum n k t (fun s => mmul n k k (Kb s) (Syyb s r))) (Sxyb t r)) /\
  meq n n (snd st) (msub n n (Pv t) (msum n n t (fun s => mmul n k n (Kb s) (mtr n k (Sxyb t s))))) /\
  meq n 1 (fst st) (madd n 1 (mmul n n 1 (mpow n A t) xh0)
                      (msum n 1 t (fun s => mmul n k 1 (Kb s) (msub k 1 (nthm ys s) (myb s))))).

Lemma inv_0 : inv 0 [] (fun _ => []) (xh0, S0).
Proof.
  split; [intros r Hr; lia|]. split; unfold Pv; simpl.
  - intros i j Hi Hj. mat_entries. ring.
  - rewrite mmul_id_l. intros i j Hi Hj. mat_entries. ring.
Qed.

(* gains after one more observation *)
Definition Kb_next (t : nat) (Kb : nat -> Qmat) (M : Qmat) (s : nat) : Qmat :=
  let X := msub n n (mid n) (mmul n k n M G) in
  if Nat.ltb s t then mmul n n k A (mmul n n k X (Kb s)) else mmul n n k A M.

Lemma Kb_next_sum c t Kb M (T' : nat -> Qmat) :
  meq n c (msum n c (S t) (fun s => mmul n k c (Kb_next t Kb M s) (T' s)))
    (madd n c (mmul n n c A (mmul n n c (msub n n (mid n) (mmul n k n M G))
                               (msum n c t (fun s => mmul n k c (Kb s) (T' s)))))
              (mmul n k c (mmul n n k A M) (T' t))).
Proof.
  simpl msum. unfold Kb_next at 2. rewrite Nat.ltb_irrefl.
  apply madd_proper; [|reflexivity].
  rewrite !mmul_msum_distr_l. apply msum_ext. intros s Hs.
  unfold Kb_next. replace (Nat.ltb s t) with true by (symmetry; apply Nat.ltb_lt; lia).
  now rewrite !mmul_assoc.
Qed.

Lemma mtr_Sxyb t s : meq k n (mtr n k (Sxyb t s)) (mmul k n n G (cov s t)).
Proof. unfold Sxyb, Gt. rewrite mtr_mmul, mtr_mtr. now rewrite cov_tr. Qed.

Lemma inv_step t ys Kb st y st' :
  length ys = t -> inv t ys Kb st ->
  update n m k l A C G Hm st y = Some st' ->
  exists Kb', inv (S t) (ys ++ [y]) Kb' st'.
Proof.
  intros Hlen [I1 [I2 I3]] HU. destruct st as [xh Sg]. simpl in I2, I3.
  unfold update in HU.
  destruct (prior_to_filtered n k l G Hm (xh, Sg) y) as [sf|] eqn:EP; [|discriminate].
  apply prior_to_filtered_inv in EP. destruct EP as [Fi [[_ HL] ->]]. simpl in HL.
  injection HU as <-.
  set (M := kal_M n k G Sg Fi).
  assert (HMF : meq n k (mmul n k k M (madd k k (mmul k n k (mmul k n n G Sg) Gt) R)) (mmul n n k Sg Gt)).
  { unfold M, kal_M. rewrite mmul_assoc. unfold kal_F in HL. fold Gt R in HL. rewrite HL.
    rewrite mmul_id_r. reflexivity. }
  (* sums of the old gains *)
  assert (J2 : meq n n (msum n n t (fun s => mmul n k n (Kb s) (mtr n k (Sxyb t s)))) (msub n n (Pv t) Sg)).
  { intros i j Hi Hj. specialize (I2 i j Hi Hj). rewrite get_msub in I2 by assumption. mat_entries. lra. }
  assert (J3 : meq n 1 (msum n 1 t (fun s => mmul n k 1 (Kb s) (msub k 1 (nthm ys s) (myb s))))
                       (msub n 1 xh (mmul n n 1 (mpow n A t) xh0))).
  { intros i j Hi Hj. specialize (I3 i j Hi Hj). rewrite get_madd in I3 by assumption. mat_entries. lra. }
  exists (Kb_next t Kb M). split; [|split].
  - (* normal equations *)
    intros r Hr. rewrite Kb_next_sum.
    destruct (Nat.eq_dec r t) as [->|Hne].
    + (* the new observation *)
      assert (E1 : meq n k (msum n k t (fun s => mmul n k k (Kb s) (Syyb s t)))
                           (mmul n n k (msub n n (Pv t) Sg) Gt)).
      { rewrite <- J2. rewrite mmul_msum_distr_r. apply msum_ext. intros s Hs.
        unfold Syyb. replace (Nat.eqb s t) with false by (symmetry; apply Nat.eqb_neq; lia).
        rewrite mtr_Sxyb. now rewrite !mmul_assoc. }
      assert (E2 : meq k k (Syyb t t) (madd k k (mmul k n k (mmul k n n G (Pv t)) Gt) R)).
      { unfold Syyb. rewrite Nat.eqb_refl. now rewrite cov_diag. }
      rewrite E1, E2. rewrite (alg_r_eq n k A M G Gt (Pv t) Sg R HMF).
      unfold Sxyb. rewrite cov_succ by lia. now rewrite cov_diag.
    + rewrite (I1 r) by lia.
      unfold Syyb. replace (Nat.eqb t r) with false by (symmetry; apply Nat.eqb_neq; lia).
      unfold Sxyb at 1. rewrite (alg_r_lt n k A M G Gt (cov t r)).
      unfold Sxyb. now rewrite cov_succ by lia.
  - (* covariance *)
    unfold filtered_to_forecast, ptf_with. cbn [snd fst]. fold Qm. fold M.
    rewrite Kb_next_sum. rewrite Pv_succ. unfold pstep.
    assert (E1 : meq n n (msum n n t (fun s => mmul n k n (Kb s) (mtr n k (Sxyb (S t) s))))
                         (mmul n n n (msub n n (Pv t) Sg) (mtr n n A))).
    { rewrite <- J2. rewrite mmul_msum_distr_r. apply msum_ext. intros s Hs.
      rewrite !mtr_Sxyb. rewrite <- (cov_tr (S t) s). rewrite cov_succ by lia.
      rewrite mtr_mmul, cov_tr. now rewrite !mmul_assoc. }
    assert (E2 : meq k n (mtr n k (Sxyb (S t) t)) (mmul k n n G (mmul n n n (Pv t) (mtr n n A)))).
    { rewrite mtr_Sxyb. rewrite <- (cov_tr (S t) t). rewrite cov_succ by lia.
      rewrite mtr_mmul, cov_tr. now rewrite cov_diag. }
    rewrite E1, E2. apply alg_cov.
  - (* mean *)
    unfold filtered_to_forecast, ptf_with. cbn [snd fst]. fold M.
    rewrite Kb_next_sum.
    assert (E1 : meq n 1 (msum n 1 t (fun s => mmul n k 1 (Kb s) (msub k 1 (nthm (ys ++ [y]) s) (myb s))))
                         (msub n 1 xh (mmul n n 1 (mpow n A t) xh0))).
    { rewrite <- J3. apply msum_ext. intros s Hs. unfold nthm. rewrite app_nth1 by lia. reflexivity. }
    assert (E2 : nthm (ys ++ [y]) t = y).
    { unfold nthm. rewrite app_nth2 by lia. rewrite Hlen, Nat.sub_diag. reflexivity. }
    rewrite E1, E2. simpl mpow. rewrite mmul_assoc. unfold myb. apply alg_mean.
Qed.

(* ---------------- the state after a whole record *)
Fixpoint kalman_final (st : Qmat * Qmat) (ys : list Qmat) : option (Qmat * Qmat) :=
  match ys with
  | [] => Some st
  | y :: r => match update n m k l A C G Hm st y with
              | None => None
              | Some st' => kalman_final st' r
              end
  end.

Lemma kalman_final_snoc ys y : forall st,
  kalman_final st (ys ++ [y]) =
  match kalman_final st ys with None => None | Some s => update n m k l A C G Hm s y end.
Proof.
  induction ys as [|y0 r IH]; intros st; simpl.
  - destruct (update n m k l A C G Hm st y); reflexivity.
  - destruct (update n m k l A C G Hm st y0); [apply IH|reflexivity].
Qed.

Lemma last_kalman_path ys : forall st, ys <> [] ->
  last (kalman_path n m k l A C G Hm st ys) None = kalman_final st ys.
Proof.
  induction ys as [|y r IH]; intros st Hne; [congruence|].
  simpl. destruct (update n m k l A C G Hm st y) as [st'|] eqn:E; [|reflexivity].
  destruct r as [|y2 r2]; [reflexivity|].
  rewrite <- (IH st') by discriminate.
  simpl. destruct (update n m k l A C G Hm st' y2); reflexivity.
Qed.

Lemma inv_all ys : forall st, kalman_final (xh0, S0) ys = Some st -> exists Kb, inv (length ys) ys Kb st.
Proof.
  induction ys as [|y ys IH] using rev_ind; intros st HF.
  - simpl in HF. injection HF as <-. eexists. apply inv_0.
  - rewrite kalman_final_snoc in HF.
    destruct (kalman_final (xh0, S0) ys) as [s|] eqn:E; [|discriminate].
    destruct (IH s eq_refl) as [Kb HI].
    rewrite app_length. simpl length. rewrite Nat.add_1_r.
    eapply inv_step; [reflexivity|exact HI|exact HF].
Qed.

(* ---------------- from the invariant to the conditioning formula *)
Lemma gauss_condition_eqs nx ny (mx my Sxx Sxy Syy yobs xb Sb : Qmat) :
  gauss_condition nx ny mx my Sxx Sxy Syy yobs = Some (xb, Sb) ->
  exists Z1 Z2,
    xb = madd nx 1 mx (mmul nx ny 1 Sxy Z2) /\ Sb = msub nx nx Sxx (mmul nx ny nx Sxy Z1) /\
    meq ny nx (mmul ny ny nx Syy Z1) (mtr nx ny Sxy) /\
    meq ny 1 (mmul ny ny 1 Syy Z2) (msub ny 1 yobs my).
Proof.
  unfold gauss_condition.
  destruct (solve_checked ny (nx + 1) Syy _) as [Z|] eqn:E; [|discriminate].
  intros E2. injection E2 as <- <-.
  apply solve_checked_correct in E.
  exists (mblock 0 0 ny nx Z), (mblock 0 nx ny 1 Z). repeat split.
  - intros i j Hi Hj. specialize (E i j Hi ltac:(lia)).
    rewrite get_mhcat in E by lia. replace (Nat.ltb j nx) with true in E by (symmetry; apply Nat.ltb_lt; lia).
    rewrite <- E. rewrite !get_mmul by lia. apply sumQ_ext. intros a Ha.
    rewrite get_mblock by lia. reflexivity.
  - intros i j Hi Hj. assert (j = 0%nat) by lia. subst j. specialize (E i nx Hi ltac:(lia)).
    rewrite get_mhcat in E by lia. rewrite Nat.ltb_irrefl, Nat.sub_diag in E.
    rewrite <- E. rewrite !get_mmul by lia. apply sumQ_ext. intros a Ha.
    rewrite get_mblock by lia. now rewrite Nat.add_0_r.
Qed.

Theorem inv_is_conditioning ys Kb xk Sk xb Sb :
  inv (length ys) ys Kb (xk, Sk) ->
  batch_conditional n m k l A C G Hm xh0 S0 ys = Some (xb, Sb) ->
  meq n 1 xb xk /\ meq n n Sb Sk.
Proof.
  intros [I1 [I2 I3]] HB. simpl in I2, I3.
  unfold batch_conditional in HB.
  set (t := length ys) in *.
  destruct (joint_law n m k l A C G Hm xh0 S0 t) as [[[[mx my] Sxx] Sxy] Syy] eqn:EJ.
  apply joint_law_blocks in EJ. destruct EJ as [-> [-> [Emy [Exy Eyy]]]].
  apply gauss_condition_eqs in HB. destruct HB as [Z1 [Z2 [-> [-> [H1 H2]]]]].
  (* normal equations in flat form *)
  assert (KS : meq n (t * k) (mmul n (t * k) (t * k) (flat_cols n k t Kb) Syy) Sxy).
  { rewrite Eyy, Exy. intros i j Hi Hj. destruct (block_index k t j Hk Hj) as [Hjb Hjm].
    rewrite get_flat_cols_sq by assumption.
    rewrite (I1 (j / k)%nat Hjb i (j mod k)%nat Hi Hjm).
    unfold flat_cols. now rewrite get_mk by assumption. }
  split.
  - rewrite I3. apply madd_proper; [reflexivity|].
    rewrite <- KS. rewrite mmul_assoc, H2.
    assert (EV : meq (t * k) 1 (msub (t * k) 1 (stack_obs k ys) my)
                     (flat_rows k 1 t (fun s => msub k 1 (nthm ys s) (myb s)))).
    { intros i j Hi Hj. destruct (block_index k t i Hk Hi) as [Hib Him].
      rewrite get_msub by assumption. rewrite (Emy i j Hi Hj).
      unfold stack_obs, flat_rows. fold t. rewrite !get_mk by assumption.
      rewrite get_msub by lia. assert (j = 0%nat) by lia. subst j. reflexivity. }
    rewrite EV. intros i j Hi Hj. now rewrite get_flat_cols_rows by assumption.
  - rewrite I2. apply msub_proper; [reflexivity|].
    rewrite <- KS at 1. rewrite mmul_assoc, H1.
    assert (EV : meq (t * k) n (mtr n (t * k) Sxy) (flat_rows k n t (fun s => mtr n k (Sxyb t s)))).
    { intros i j Hi Hj. destruct (block_index k t i Hk Hi) as [Hib Him].
      rewrite get_mtr by assumption. rewrite (Exy j i Hj Hi).
      unfold flat_cols, flat_rows. rewrite !get_mk by assumption.
      now rewrite get_mtr by assumption. }
    rewrite EV. intros i j Hi Hj. now rewrite get_flat_cols_rows by assumption.
Qed.

Theorem kalman_equals_batch_sec ys xb Sb xk Sk :
  ys <> [] ->
  batch_conditional n m k l A C G Hm xh0 S0 ys = Some (xb, Sb) ->
  last (kalman_path n m k l A C G Hm (xh0, S0) ys) None = Some (xk, Sk) ->
  meq n 1 xb xk /\ meq n n Sb Sk.
Proof.
  intros Hne HB HL. rewrite last_kalman_path in HL by assumption.
  destruct (inv_all ys _ HL) as [Kb HI].
  eapply inv_is_conditioning; eassumption.
Qed.

End SeqBatch.

Theorem kalman_equals_batch n m k l (A C G Hm xh0 S0 : Qmat) ys xb Sb xk Sk :
  (0 < k)%nat -> msym n S0 -> ys <> [] ->
  batch_conditional n m k l A C G Hm xh0 S0 ys = Some (xb, Sb) ->
  last (kalman_path n m k l A C G Hm (xh0, S0) ys) None = Some (xk, Sk) ->
  meq n 1 xb xk /\ meq n n Sb Sk.
Proof. intros Hk Hs. now apply kalman_equals_batch_sec. Qed.

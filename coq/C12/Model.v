(* C12 model: quantecon/_kalman.py (Kalman) and quantecon/_lss.py (LinearStateSpace),
   written once over Base.Num.Num on Base.LinAlg (explicit dimensions).
   Executable definitions only.

   Dimensions: n states, m state shocks, k observables, l observation shocks;
   A n x n, C n x m, G k x n, H k x l (LinearStateSpace allows H = None: `option`),
   x_hat / mu n x 1 matrices, Sigma n x n.

   scipy.linalg.inv / solve are modelled by the *certifying* Gauss-Jordan
   (`inv_checked`, `Gauss.solve_checked`): `None` <-> LinAlgError (singular).
   Over Q the check never fails when the elimination succeeds; it makes the
   specification of the external routine (F Fi = I and Fi F = I) part of the
   model's result instead of an assumption.

   `batch_conditional` is NOT a model of any code: it is the executable
   specification "joint Gaussian law of (y_0..y_{t-1}, x_t), then the
   conditioning formula (one solve)". *)
From Coq Require Import ZArith QArith List Bool PrimFloat.
From QE Require Import Base.Num Base.LinAlg Base.Gauss.
Import ListNotations.

Section Model.
Context {T : Type} `{Num T}.
Notation mat := (list (list T)).

(* ------------------------------------------------------------------ *)
(* scipy.linalg.inv, certifying: Some Fi -> F Fi = I and Fi F = I       *)
Definition inv_checked (k : nat) (F : mat) : option mat :=
  match solve_checked k k F (mid k) with
  | None => None
  | Some X => if mall2 k k neqb (mmul k k k X F) (mid k) then Some X else None
  end.

(* ------------------------------------------------------------------ *)
(* Kalman                                                              *)
(* R = np.dot(H, H.T) ; Q = np.dot(C, C.T) *)
Definition outer (r c : nat) (M : mat) : mat := mmul r c r M (mtr r c M).
(* E = np.dot(Sigma, G.T) *)
Definition kal_E (n k : nat) (G Sigma : mat) : mat := mmul n n k Sigma (mtr k n G).
(* F = np.dot(np.dot(G, Sigma), G.T) + R *)
Definition kal_F (n k : nat) (G R Sigma : mat) : mat :=
  madd k k (mmul k n k (mmul k n n G Sigma) (mtr k n G)) R.
(* M = np.dot(E, inv(F)) *)
Definition kal_M (n k : nat) (G Sigma Fi : mat) : mat := mmul n k k (kal_E n k G Sigma) Fi.

(* prior_to_filtered with the inverse Fi of F supplied:
     x_hat <- x_hat + M (y - G x_hat) ;  Sigma <- Sigma - M (G Sigma) *)
Definition ptf_with (n k : nat) (G : mat) (Fi : mat) (st : mat * mat) (y : mat) : mat * mat :=
  let '(xhat, Sigma) := st in
  let M := kal_M n k G Sigma Fi in
  (madd n 1 xhat (mmul n k 1 M (msub k 1 y (mmul k n 1 G xhat))),
   msub n n Sigma (mmul n k n M (mmul k n n G Sigma))).

Definition prior_to_filtered (n k l : nat) (G Hm : mat) (st : mat * mat) (y : mat)
  : option (mat * mat) :=
  match inv_checked k (kal_F n k G (outer k l Hm) (snd st)) with
  | None => None                                   (* LinAlgError *)
  | Some Fi => Some (ptf_with n k G Fi st y)
  end.

(* x_hat <- A x_hat ; Sigma <- A (Sigma A') + C C' *)
Definition filtered_to_forecast (n m : nat) (A C : mat) (st : mat * mat) : mat * mat :=
  let '(xhat, Sigma) := st in
  (mmul n n 1 A xhat,
   madd n n (mmul n n n A (mmul n n n Sigma (mtr n n A))) (outer n m C)).

Definition update (n m k l : nat) (A C G Hm : mat) (st : mat * mat) (y : mat)
  : option (mat * mat) :=
  match prior_to_filtered n k l G Hm st y with
  | None => None
  | Some st' => Some (filtered_to_forecast n m A C st')
  end.

(* states after each observation of the record; stops at the first LinAlgError *)
Fixpoint kalman_path (n m k l : nat) (A C G Hm : mat) (st : mat * mat) (ys : list mat)
  : list (option (mat * mat)) :=
  match ys with
  | [] => []
  | y :: r => match update n m k l A C G Hm st y with
              | None => [None]
              | Some st' => Some st' :: kalman_path n m k l A C G Hm st' r
              end
  end.

(* any sequence of the three public operations (prior_to_filtered(y), filtered_to_forecast(), update(y)),
   states after each operation; stops at the first LinAlgError *)
Inductive kop := KFilter (y : mat) | KForecast | KUpdate (y : mat).
Definition kalman_op (n m k l : nat) (A C G Hm : mat) (st : mat * mat) (o : kop) : option (mat * mat) :=
  match o with
  | KFilter y => prior_to_filtered n k l G Hm st y
  | KForecast => Some (filtered_to_forecast n m A C st)
  | KUpdate y => update n m k l A C G Hm st y
  end.
Fixpoint kalman_ops (n m k l : nat) (A C G Hm : mat) (st : mat * mat) (ops : list kop)
  : list (option (mat * mat)) :=
  match ops with
  | [] => []
  | o :: r => match kalman_op n m k l A C G Hm st o with
              | None => [None]
              | Some st' => Some st' :: kalman_ops n m k l A C G Hm st' r
              end
  end.

(* stationary_values, given Sigma_infinity (the solution returned by
   solve_discrete_riccati(A', G', Q, R), modelled in C06):
     K_infinity = (A Sigma_inf) G' inv(G (Sigma_inf G') + R) *)
Definition stationary_K (n k l : nat) (A G Hm Sinf : mat) : option mat :=
  let R := outer k l Hm in
  let temp1 := mmul n n k (mmul n n n A Sinf) (mtr k n G) in
  match inv_checked k (madd k k (mmul k n k G (mmul n n k Sinf (mtr k n G))) R) with
  | None => None
  | Some temp2 => Some (mmul n k k temp1 temp2)
  end.

(* stationary_coefficients(j, coeff_type) given K_infinity:
     'ma' : [I_k, G P K ...] with P = I, P <- P A          (i = 1..j)
     'var': [G K, G P K ...] with P = A - K G, P <- P (A - K G) *)
Fixpoint statcoef_loop (n k : nat) (G K Pmat : mat) (cnt : nat) (P : mat) : list mat :=
  match cnt with
  | O => []
  | S r => mmul k n k (mmul k n n G P) K :: statcoef_loop n k G K Pmat r (mmul n n n P Pmat)
  end.
Definition stationary_coefficients (n k : nat) (A G K : mat) (j : nat) (var : bool) : list mat :=
  if var then
    let Pmat := msub n n A (mmul n k n K G) in
    mmul k n k G K :: statcoef_loop n k G K Pmat j Pmat
  else mid k :: statcoef_loop n k G K A j (mid n).
(* stationary_innovation_covar = G (Sigma_inf G') + R *)
Definition stationary_innovation_covar (n k l : nat) (G Hm Sinf : mat) : mat :=
  madd k k (mmul k n k G (mmul n n k Sinf (mtr k n G))) (outer k l Hm).

(* residual of the dual Riccati equation at Sigma, with Fi the inverse of G Sigma G' + R:
     Sigma - (A Sigma A' - A Sigma G' Fi G Sigma A' + Q) *)
Definition dual_riccati_rhs (n k : nat) (A G Qm Fi Sigma : mat) : mat :=
  madd n n
    (msub n n (mmul n n n A (mmul n n n Sigma (mtr n n A)))
       (mmul n k n (mmul n k k (mmul n n k A (kal_E n k G Sigma)) Fi)
                   (mmul k n n G (mmul n n n Sigma (mtr n n A)))))
    Qm.

(* ------------------------------------------------------------------ *)
(* Specification: Gaussian conditioning on the joint law               *)
(* (x, y) jointly normal with means mx (nx x 1), my (ny x 1), Sxx, Sxy (nx x ny), Syy:
     x | y = yobs  ~  N( mx + Sxy Syy^-1 (yobs - my),  Sxx - Sxy Syy^-1 Syx )
   one solve  Syy Z = [ Syx | yobs - my ] *)
Definition gauss_condition (nx ny : nat) (mx my Sxx Sxy Syy yobs : mat) : option (mat * mat) :=
  match solve_checked ny (nx + 1) Syy (mhcat ny nx 1 (mtr nx ny Sxy) (msub ny 1 yobs my)) with
  | None => None
  | Some Z =>
    let Z1 := mblock 0 0 ny nx Z in
    let Z2 := mblock 0 nx ny 1 Z in
    Some (madd nx 1 mx (mmul nx ny 1 Sxy Z2), msub nx nx Sxx (mmul nx ny nx Sxy Z1))
  end.

(* Var x_s : P_0 = S0, P_{s+1} = A P_s A' + C C'   (list P_0 .. P_t) *)
Fixpoint pvars (n : nat) (A Qm : mat) (P : mat) (t : nat) : list mat :=
  match t with
  | O => [P]
  | S t' => P :: pvars n A Qm (madd n n (mmul n n n (mmul n n n A P) (mtr n n A)) Qm) t'
  end.
Definition apows (n : nat) (A : mat) (t : nat) : list mat := map (mpow n A) (seq 0 (S t)).
Definition nthm (L : list mat) (i : nat) : mat := nth i L [].

(* Cov(x_s, x_r) = A^(s-r) P_r (s >= r),  P_s (A')^(r-s) (s < r) *)
Definition cov_xx (n : nat) (Ap Ps : list mat) (s r : nat) : mat :=
  if Nat.leb r s then mmul n n n (nthm Ap (s - r)) (nthm Ps r)
  else mmul n n n (nthm Ps s) (mtr n n (nthm Ap (r - s))).

(* x_0 ~ N(xh0, S0); x_{s+1} = A x_s + C w_{s+1}; y_s = G x_s + H v_s (s < t):
   the law of (y_0 .. y_{t-1}, x_t) *)
Definition joint_law (n m k l : nat) (A C G Hm xh0 S0 : mat) (t : nat)
  : mat * mat * mat * mat * mat :=
  let Qm := outer n m C in
  let R := outer k l Hm in
  let Ap := apows n A t in
  let Ps := pvars n A Qm S0 t in
  let Gt := mtr k n G in
  let YY := map (fun s => map (fun r =>
              let base := mmul k n k (mmul k n n G (cov_xx n Ap Ps s r)) Gt in
              if Nat.eqb s r then madd k k base R else base) (seq 0 t)) (seq 0 t) in
  let XY := map (fun r => mmul n n k (cov_xx n Ap Ps t r) Gt) (seq 0 t) in
  let MY := map (fun s => mmul k n 1 G (mmul n n 1 (nthm Ap s) xh0)) (seq 0 t) in
  let mx := mmul n n 1 (nthm Ap t) xh0 in
  let my := mk (t * k) 1 (fun i _ => get (nthm MY (i / k)) (i mod k) 0) in
  let Sxx := nthm Ps t in
  let Sxy := mk n (t * k) (fun i j => get (nthm XY (j / k)) i (j mod k)) in
  let Syy := mk (t * k) (t * k) (fun i j => get (nthm (nth (i / k) YY []) (j / k)) (i mod k) (j mod k)) in
  (mx, my, Sxx, Sxy, Syy).

Definition stack_obs (k : nat) (ys : list mat) : mat :=
  mk (length ys * k) 1 (fun i _ => get (nthm ys (i / k)) (i mod k) 0).

Definition batch_conditional (n m k l : nat) (A C G Hm xh0 S0 : mat) (ys : list mat)
  : option (mat * mat) :=
  let t := length ys in
  let '(mx, my, Sxx, Sxy, Syy) := joint_law n m k l A C G Hm xh0 S0 t in
  gauss_condition n (t * k) mx my Sxx Sxy Syy (stack_obs k ys).

(* ------------------------------------------------------------------ *)
(* LinearStateSpace                                                    *)
(* Sigma_y = G.dot(Sigma_x).dot(G.T) [+ H.dot(H.T)] *)
Definition obs_cov (n k l : nat) (G : mat) (Ho : option mat) (Sx : mat) : mat :=
  let base := mmul k n k (mmul k n n G Sx) (mtr k n G) in
  match Ho with None => base | Some Hm => madd k k base (outer k l Hm) end.

(* first T terms of the generator moment_sequence: (mu_x, mu_y, Sigma_x, Sigma_y) *)
Fixpoint moment_seq (n m k l : nat) (A C G : mat) (Ho : option mat) (T' : nat) (mu Sx : mat)
  : list (mat * mat * mat * mat) :=
  match T' with
  | O => []
  | S r => (mu, mmul k n 1 G mu, Sx, obs_cov n k l G Ho Sx)
           :: moment_seq n m k l A C G Ho r (mmul n n 1 A mu)
                (madd n n (mmul n n n (mmul n n n A Sx) (mtr n n A)) (outer n m C))
  end.

(* impulse_response(j): xcoef = [C, Apower C ...], ycoef = [G C, G (Apower C) ...],
   Apower = A initially, Apower <- Apower A *)
Fixpoint impulse_loop (n m k : nat) (A C G : mat) (j : nat) (Apower : mat) : list mat * list mat :=
  match j with
  | O => ([], [])
  | S r => let '(xs, ys) := impulse_loop n m k A C G r (mmul n n n Apower A) in
           (mmul n n m Apower C :: xs, mmul k n m G (mmul n n m Apower C) :: ys)
  end.
Definition impulse_response (n m k : nat) (A C G : mat) (j : nat) : list mat * list mat :=
  let '(xs, ys) := impulse_loop n m k A C G j A in
  (C :: xs, mmul k n m G C :: ys).

(* geometric_sums(beta, x_t): S_x = solve(I - beta A, x_t), S_y = G S_x; x_t is n x p *)
Definition geometric_sums (n k p : nat) (A G : mat) (beta : T) (xt : mat) : option (mat * mat) :=
  match solve_checked n p (msub n n (mid n) (mscale n n beta A)) xt with
  | None => None
  | Some Sx => Some (Sx, mmul k n p G Sx)
  end.

(* simulate_linear_model (jitted): x[:,0] = x0; x[i,t+1] = v[i,t]; x[i,t+1] += A[i,j] x[j,t] (j = 0..n-1).
   State vectors are lists; the accumulation order is the source's. *)
Definition sim_step (n : nat) (A : mat) (x v : list T) : list T :=
  vmk n (fun i => fold_left (fun acc j => nadd acc (nmul (get A i j) (vget x j))) (seq 0 n) (vget v i)).
(* columns x_0, x_1, ..., one more per shock column *)
Fixpoint sim_cols (n : nat) (A : mat) (x : list T) (vs : list (list T)) : list (list T) :=
  match vs with
  | [] => [x]
  | v :: r => x :: sim_cols n A (sim_step n A x v) r
  end.
(* v is n x (ts_length-1) at least; ts_length >= 1 (ts_length = 0 writes x[:,0] of an empty array) *)
Definition simulate_linear_model (n : nat) (A : mat) (x0 : list T) (v : mat) (ts : nat) : option mat :=
  match ts with
  | O => None
  | S ts1 =>
    let cols := sim_cols n A (vmk n (vget x0)) (map (matcol n v) (seq 0 ts1)) in
    Some (mk n ts (fun i t => vget (nth t cols []) i))
  end.

(* simulate(ts_length) as a function of the draws:
     x0 <- multivariate_normal(mu_0, Sigma_0) ; w <- standard_normal((m, ts-1)) ; v = C w
     x = simulate_linear_model(A, x0, v, ts)
     H given: v2 <- standard_normal((l, ts)); y = G x + H v2    else y = G x *)
Definition simulate (n m k l : nat) (A C G : mat) (Ho : option mat) (ts : nat)
           (x0 : list T) (w v2 : mat) : option (mat * mat) :=
  match simulate_linear_model n A x0 (mmul n m (ts - 1) C w) ts with
  | None => None
  | Some x =>
    let gx := mmul k n ts G x in
    Some (x, match Ho with None => gx | Some Hm => madd k ts gx (mmul k l ts Hm v2) end)
  end.

(* replicate(T, num_reps): per repetition the draws (x0, w) of simulate(ts_length = T+1)
   (its own observation shocks are drawn and discarded), x[:, j] = last column;
   then v <- standard_normal((l, num_reps)), y = G x + H v *)
Definition replicate (n m k l : nat) (A C G : mat) (Ho : option mat) (T' : nat)
           (draws : list (list T * mat)) (v : mat) : option (mat * mat) :=
  let reps := length draws in
  let lasts := map (fun d => match simulate_linear_model n A (fst d) (mmul n m T' C (snd d)) (S T') with
                             | None => [] | Some x => matcol n x T' end) draws in
  let x := mk n reps (fun i j => vget (nth j lasts []) i) in
  let gx := mmul k n reps G x in
  Some (x, match Ho with None => gx | Some Hm => madd k reps gx (mmul k l reps Hm v) end).

(* __partition: idx is a constant state iff A[idx,idx] == 1, C[idx,:] == 0 and
   ||A[idx,:]||_2 == 1  (sqrt(s) == 1 <-> s == 1).  Constant states are inserted at the
   front (sorted_idx.insert(0, idx)), the others appended. *)
Definition is_const (n m : nat) (A C : mat) (idx : nat) : bool :=
  neqb (get A idx idx) none_
  && forallb (fun j => neqb (get C idx j) nzero) (seq 0 m)
  && neqb (nsum n (fun j => nmul (get A idx j) (get A idx j))) none_.
Fixpoint part_loop (n m : nat) (A C : mat) (idxs : list nat) (acc : list nat) (nc : nat) : nat * list nat :=
  match idxs with
  | [] => (nc, acc)
  | idx :: r => if is_const n m A C idx then part_loop n m A C r (idx :: acc) (S nc)
                else part_loop n m A C r (acc ++ [idx]) nc
  end.
Definition partition (n m : nat) (A C : mat) : nat * list nat := part_loop n m A C (seq 0 n) [] 0.
(* P[r, sorted_idx[r]] = 1 *)
Definition perm_mat (n : nat) (sidx : list nat) : mat :=
  mk n n (fun r c => if Nat.eqb (nth r sidx 0%nat) c then none_ else nzero).

(* discrete Lyapunov equation X = A X A' + B (scipy's bartels-stewart solver is external):
   the solution of the linear system (I - A (x) A) vec X = vec B, returned only after
   checking the equation itself (certifying). None <-> singular system. *)
Definition lyap_kron (d : nat) (A B : mat) : option mat :=
  let K := mk (d * d) (d * d) (fun r c =>
             nsub (if Nat.eqb r c then none_ else nzero)
                  (nmul (get A (r / d) (c / d)) (get A (r mod d) (c mod d)))) in
  let b := mk (d * d) 1 (fun r _ => get B (r / d) (r mod d)) in
  match solve_checked (d * d) 1 K b with
  | None => None
  | Some v =>
    let X := mk d d (fun i j => get v (i * d + j) 0) in
    if mall2 d d neqb X (madd d d (mmul d d d (mmul d d d A X) (mtr d d A)) B) then Some X else None
  end.

Inductive stat_result :=
| StatOk (mu_x mu_y Sigma_x Sigma_y Sigma_yx : mat)
| StatBroadcast        (* num_const >= 2: ValueError in mu_x[num_const:] = mu *)
| StatSingular.        (* LinAlgError (I - A22 singular) / Lyapunov system singular *)

Definition stationary_distributions (n m k l : nat) (A C G : mat) (Ho : option mat) (mu0 : mat)
  : stat_result :=
  let '(nc, sidx) := partition n m A C in
  let P := perm_mat n sidx in
  let sA := mmul n n n (mmul n n n P A) (mtr n n P) in
  let sC := mmul n n m P C in
  let d := (n - nc)%nat in
  let A21 := mblock nc 0 d nc sA in
  let A22 := mblock nc nc d d sA in
  let C2 := mblock nc 0 d m sC in
  let CC2 := outer d m C2 in
  let rhs := if Nat.ltb 0 nc then A21 else mzero n 1 in
  let rc := if Nat.ltb 0 nc then nc else 1%nat in
  match solve_checked d rc (msub d d (mid d) A22) rhs with
  | None => StatSingular
  | Some mu =>
    if Nat.ltb 1 nc then StatBroadcast else
    match lyap_kron d A22 CC2 with
    | None => StatSingular
    | Some Sg =>
      let mu_s := mk n 1 (fun i _ => if Nat.ltb i nc then get mu0 (nth i sidx 0%nat) 0
                                      else get mu (i - nc) 0) in
      let Sg_s := mk n n (fun i j => if Nat.ltb i nc || Nat.ltb j nc then nzero
                                      else get Sg (i - nc) (j - nc)) in
      let Pt := mtr n n P in
      let mu_x := mmul n n 1 Pt mu_s in
      let Sigma_x := mmul n n n (mmul n n n Pt Sg_s) P in
      let mu_y := mmul k n 1 G mu_x in
      let Sigma_y := obs_cov n k l G Ho Sigma_x in
      StatOk mu_x mu_y Sigma_x Sigma_y (mmul k n n G Sigma_x)
    end
  end.

End Model.
